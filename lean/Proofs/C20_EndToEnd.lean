/-
  C20, end to end — `main()` of mammoth/cli.py composed with the library: from the PACKAGE (the parsed
  input file), the arguments and the outside world to the files and streams written.

  `Cli.lean` has no such composition (`cliRun` / `cliRunO` take the library's `value`, `messages` and the
  images as given); `c20_cli` below composes the existing model functions:

    * `c20_format`            argparse's `--output-format` (`choices=writers.formats()`),
    * `apiConvert`            `mammoth.convert(fileobj, style_map=…, convert_image=…, output_format=…)`,
                              base directory `os.path.dirname(args.path)` (`c20_dirname`),
    * `cliRun`                no `--output-dir`: the default (data-URI) image converter,
    * `imageWriterRunO` / `cliRunO`   `--output-dir`: the `ImageWriter`.

  THE ONE PIECE THE MODEL DOES NOT HAVE.  `ImageConv` (Convert.lean) is a closed family: `data_uri` and
  `img_element(f)` for an `f` that returns the SAME attributes for every image.  `ImageWriter` is an
  `img_element(f)` whose `f` returns `{"src": "<n>.<subtype>"}` — a different dictionary per call.  So the
  library run of `--output-dir` mode is composed as
      `apiConvert … { imageConv := .fixed [] true }`
  (`img_element(f)`, `f` opens the image and returns no attribute of its own: the same converter calls in
  the same order, the same `image.open()`s, the same warnings, one childless fresh `img` per opened image,
  which the model marks with the length attribute `data-len`), and then `c20_putSrcs` replaces, in document
  order, the `data-len` mark of the k-th such `img` by `src` = the k-th value returned by the
  `ImageWriter` (`imageWriterRunO`).  `c20_putSrc_tag` shows that the result is exactly the element the
  model's own `img_element` makes for a function returning `{"src": name}`.  This substitution is NEW
  (Proofs-level, not tied by the differential harness); it was compared with the real command on the
  example packages of `Properties/C20.lean`.
-/
import Proofs.C20_Cli
import Proofs.C17_Package
import Proofs.C17_Example
import Proofs.C20_Warnings
namespace Mammoth

/-! ### arguments -/

/-- `--output-format`: absent = HTML; argparse accepts exactly `writers.formats()` = html, markdown
    (anything else: usage error, exit status 2) -/
def c20_format : Option Str → Option Format
  | none => some .html
  | some f => if f = S!"html" then some .html else if f = S!"markdown" then some .markdown else none

/-- `posixpath.dirname` (the library resolves linked images against `os.path.dirname(fileobj.name)`,
    and `open(args.path, "rb").name` is `args.path`) -/
def c20_dirname (p : Str) : Str :=
  let head := p.take (rfindNext '/' p)
  if head.all (· == '/') then head else (head.reverse.dropWhile (· == '/')).reverse

/-- the options `main()` passes to `mammoth.convert` -/
def c20_options (args : CliArgs) (fmt : Format) (conv : ImageConv) : Options :=
  { styleMap := args.styleMap, format := fmt, imageConv := conv }

/-- the library call of `main()` -/
def c20_convert (args : CliArgs) (p : Package) (world : Str → Option Bytes) (fuel : Nat) (fmt : Format)
    (conv : ImageConv) : Except Err ApiOut :=
  apiConvert p fuel (some (c20_dirname args.path)) world id (c20_options args fmt conv)

/-! ### the `ImageWriter` inside the converter -/

/-- the member of the modelled converter family that does what `img_element(ImageWriter(dir))` does, except
    for the returned `src`: it opens every image and returns no attribute of its own -/
def c20_writerConv : ImageConv := .fixed [] true

/-- the bytes `element.open()` yields to the `ImageWriter` (`none`: it raises InvalidFileReferenceError),
    by the model's `openImage` -/
def c20_openBytes (cfg : Cfg) (src : ImageSrc) : Option Bytes :=
  match (openImage cfg src).run {} with
  | .ok (.ok b, _) => some b
  | _ => none

/-- is this the `img` made by `c20_writerConv` (the only elements with a `data-len` attribute)? -/
def c20_isMark (t : Tag) : Bool := t.name = S!"img" && (Dict.get? S!"data-len" t.attrs).isSome

/-- `attributes.update({"src": name})` instead of the model's `data-len` mark -/
def c20_putSrc (name : Str) (t : Tag) : Tag :=
  { t with attrs := Dict.insert S!"src" name (t.attrs.filter fun kv => kv.1 != S!"data-len") }

/-- one element: a marked `img` takes the next `src` value (none left: it stays as it is) -/
def c20_take (srcs : List Str) (t : Tag) : Tag × List Str :=
  if c20_isMark t then
    match srcs with
    | s :: rest => (c20_putSrc s t, rest)
    | [] => (t, [])
  else (t, srcs)

mutual
/-- give the marked `img`s of the forest, in document order, the `src` values of the list (returns the new
    forest and the values left over) -/
def c20_putSrcsN (srcs : List Str) : Node → Node × List Str
  | .text s => (.text s, srcs)
  | .forceWrite => (.forceWrite, srcs)
  | .elem t cs => (.elem (c20_take srcs t).1 (c20_putSrcs (c20_take srcs t).2 cs).1, (c20_putSrcs (c20_take srcs t).2 cs).2)
def c20_putSrcs (srcs : List Str) : List Node → List Node × List Str
  | [] => ([], srcs)
  | c :: cs => ((c20_putSrcsN srcs c).1 :: (c20_putSrcs (c20_putSrcsN srcs c).2 cs).1, (c20_putSrcs (c20_putSrcsN srcs c).2 cs).2)
end

/-- the configuration under which the converter opens the images of package `p` -/
def c20_openCfg (args : CliArgs) (p : Package) (world : Str → Option Bytes) : Cfg :=
  { archive := archiveBytes p, base := some (c20_dirname args.path), world := world }

/-- what the `ImageWriter` is handed, call by call: content type and what `open()` yields -/
def c20_writerInput (args : CliArgs) (p : Package) (world : Str → Option Bytes) (out : ApiOut) :
    List (Option Str × Option Bytes) :=
  out.imageCalls.map fun i => (i.contentType, c20_openBytes (c20_openCfg args p world) i.src)

/-- the value `mammoth.convert` returns when the image converter is the `ImageWriter` -/
def c20_dirValue (dir : Str) (fmt : Format) (imgs : List (Option Str × Option Bytes)) (out : ApiOut) : Str :=
  writeWith fmt (collapse (stripEmpty (c20_putSrcs (imageWriterRunO dir 1 imgs).2.1 out.nodes).1))

/-! ### `main()` -/

/-- THE COMMAND: arguments (`styleMap` = the text of the `--style-map` file), the package, the outside
    world (for linked images) ↦ what is written.  `.error e`: the library raised `e`; the command dies with
    a traceback, exit status 1, and writes neither output nor messages (which image files `--output-dir`
    mode had written before the exception is not modelled).  `fuel` is the model's recursion fuel. -/
def c20_cli (args : CliArgs) (p : Package) (world : Str → Option Bytes) (fuel : Nat) : Except Err CliOut :=
  if !args.valid then .ok { exitCode := 2 }
  else match c20_format args.format with
    | none => .ok { exitCode := 2 }
    | some fmt =>
      match args.outputDir with
      | none => do
        let out ← c20_convert args p world fuel fmt .dataUri
        pure (cliRun args out.value out.messages [])
      | some dir => do
        let out ← c20_convert args p world fuel fmt c20_writerConv
        let imgs := c20_writerInput args p world out
        pure (cliRunO args (c20_dirValue dir fmt imgs out) out.messages imgs)


/-! ### unfolding `c20_cli` -/

theorem c20_cli_nodir (args : CliArgs) (p : Package) (world : Str → Option Bytes) (fuel : Nat) (fmt : Format)
    (hv : args.valid = true) (hf : c20_format args.format = some fmt) (hd : args.outputDir = none) :
    c20_cli args p world fuel =
      (c20_convert args p world fuel fmt .dataUri).map fun out => cliRun args out.value out.messages [] := by
  unfold c20_cli
  simp only [hv, hf, hd, Bool.not_true, Bool.false_eq_true, if_false]
  cases c20_convert args p world fuel fmt .dataUri <;> rfl

theorem c20_cli_dir (args : CliArgs) (p : Package) (world : Str → Option Bytes) (fuel : Nat) (fmt : Format)
    (dir : Str) (hv : args.valid = true) (hf : c20_format args.format = some fmt)
    (hd : args.outputDir = some dir) :
    c20_cli args p world fuel =
      (c20_convert args p world fuel fmt c20_writerConv).map fun out =>
        cliRunO args (c20_dirValue dir fmt (c20_writerInput args p world out) out) out.messages
          (c20_writerInput args p world out) := by
  unfold c20_cli
  simp only [hv, hf, hd, Bool.not_true, Bool.false_eq_true, if_false]
  cases c20_convert args p world fuel fmt c20_writerConv <;> rfl

/-! ### `c20_putSrcs` on the list of `img` tags -/

/-- `c20_putSrcs` seen on the flat list of the forest's `img` tags -/
def c20_putTags : List Str → List Tag → List Tag × List Str
  | srcs, [] => ([], srcs)
  | srcs, t :: ts => ((c20_take srcs t).1 :: (c20_putTags (c20_take srcs t).2 ts).1, (c20_putTags (c20_take srcs t).2 ts).2)

theorem c20_putTags_append (srcs : List Str) (a b : List Tag) :
    c20_putTags srcs (a ++ b) =
      ((c20_putTags srcs a).1 ++ (c20_putTags (c20_putTags srcs a).2 b).1,
       (c20_putTags (c20_putTags srcs a).2 b).2) := by
  induction a generalizing srcs with
  | nil => simp [c20_putTags]
  | cons t ts ih => simp only [List.cons_append, c20_putTags, ih]

theorem c20_take_name (srcs : List Str) (t : Tag) : (c20_take srcs t).1.name = t.name := by
  unfold c20_take
  split
  · cases srcs <;> rfl
  · rfl

theorem c20_take_other (srcs : List Str) (t : Tag) (h : t.name ≠ S!"img") : c20_take srcs t = (t, srcs) := by
  simp [c20_take, c20_isMark, h]

mutual
theorem c20_putSrcsN_imgs (srcs : List Str) (n : Node) :
    c17_imgsN (c20_putSrcsN srcs n).1 = (c20_putTags srcs (c17_imgsN n)).1 ∧
    (c20_putSrcsN srcs n).2 = (c20_putTags srcs (c17_imgsN n)).2 := by
  match n with
  | .text s => simp [c20_putSrcsN, c20_putTags]
  | .forceWrite => simp [c20_putSrcsN, c20_putTags]
  | .elem t cs =>
    simp only [c20_putSrcsN, c17_imgsN_elem, c20_take_name]
    by_cases hn : t.name = S!"img"
    · obtain ⟨i1, i2⟩ := c20_putSrcs_imgs (c20_take srcs t).2 cs
      simp only [hn, if_true, List.singleton_append, c20_putTags, i1, i2]
      exact ⟨trivial, trivial⟩
    · obtain ⟨i1, i2⟩ := c20_putSrcs_imgs srcs cs
      simp only [hn, if_false, List.nil_append, c20_take_other srcs t hn, i1, i2]
      exact ⟨trivial, trivial⟩
theorem c20_putSrcs_imgs (srcs : List Str) (ns : List Node) :
    c17_imgs (c20_putSrcs srcs ns).1 = (c20_putTags srcs (c17_imgs ns)).1 ∧
    (c20_putSrcs srcs ns).2 = (c20_putTags srcs (c17_imgs ns)).2 := by
  match ns with
  | [] => simp [c20_putSrcs, c20_putTags]
  | c :: cs =>
    obtain ⟨a1, a2⟩ := c20_putSrcsN_imgs srcs c
    obtain ⟨b1, b2⟩ := c20_putSrcs_imgs (c20_putSrcsN srcs c).2 cs
    rw [a2] at b1 b2
    simp only [c20_putSrcs, c17_imgs_cons, c20_putTags_append, a1, a2, b1, b2]
    exact ⟨trivial, trivial⟩
end

/-! ### the substitution keeps what rendering needs -/

theorem c20_take_shape (srcs : List Str) (t : Tag) :
    (c20_take srcs t).1.alts = t.alts ∧ (c20_take srcs t).1.collapsible = t.collapsible := by
  unfold c20_take
  split
  · cases srcs <;> exact ⟨rfl, rfl⟩
  · exact ⟨rfl, rfl⟩

theorem c20_take_goodTag (srcs : List Str) (t : Tag) (cs cs' : List Node) (h : cs'.isEmpty = cs.isEmpty) :
    c17_imgGoodTag (c20_take srcs t).1 cs' = c17_imgGoodTag t cs := by
  simp only [c17_imgGoodTag, Tag.names, c20_take_name, (c20_take_shape srcs t).1, (c20_take_shape srcs t).2, h]

mutual
theorem c20_putSrcsN_good (srcs : List Str) (n : Node) :
    c17_imgGoodN (c20_putSrcsN srcs n).1 = c17_imgGoodN n := by
  match n with
  | .text s => simp [c20_putSrcsN]
  | .forceWrite => simp [c20_putSrcsN]
  | .elem t cs =>
    obtain ⟨i1, i2⟩ := c20_putSrcs_good (c20_take srcs t).2 cs
    simp only [c20_putSrcsN, c17_imgGoodN_elem, i1, c20_take_goodTag srcs t cs _ i2]
theorem c20_putSrcs_good (srcs : List Str) (ns : List Node) :
    c17_imgGood (c20_putSrcs srcs ns).1 = c17_imgGood ns ∧ (c20_putSrcs srcs ns).1.isEmpty = ns.isEmpty := by
  match ns with
  | [] => simp [c20_putSrcs]
  | c :: cs =>
    simp only [c20_putSrcs, c17_imgGood_cons, c20_putSrcsN_good srcs c,
      (c20_putSrcs_good (c20_putSrcsN srcs c).2 cs).1, List.isEmpty_cons, and_self]
end

theorem c20_plainAttrs_filter (d : Dict Str) (q : Str × Str → Bool) (h : c02_plainAttrs d = true) :
    c02_plainAttrs (d.filter q) = true := by
  simp only [c02_plainAttrs, List.all_eq_true] at h ⊢
  intro kv hkv
  exact h kv (List.mem_filter.mp hkv).1

theorem c20_take_plainAttrs (srcs : List Str) (t : Tag) (h : c02_plainAttrs t.attrs = true) :
    c02_plainAttrs (c20_take srcs t).1.attrs = true := by
  unfold c20_take
  split
  · cases srcs with
    | nil => exact h
    | cons s rest =>
      exact c02_plainAttrs_insert _ _ _ c02_pn_src (c20_plainAttrs_filter _ _ h)
  · exact h

mutual
theorem c20_putSrcsN_plain (srcs : List Str) (n : Node) (h : c02_plainNamesN n = true) :
    c02_plainNamesN (c20_putSrcsN srcs n).1 = true := by
  match n with
  | .text s => simp [c20_putSrcsN, c02_plainNamesN]
  | .forceWrite => simp [c20_putSrcsN, c02_plainNamesN]
  | .elem t cs =>
    simp only [c02_plainNamesN, Bool.and_eq_true] at h
    simp only [c20_putSrcsN, c02_plainNamesN, Bool.and_eq_true, c20_take_name]
    exact ⟨⟨h.1.1, c20_take_plainAttrs srcs t h.1.2⟩, c20_putSrcs_plain _ cs h.2⟩
theorem c20_putSrcs_plain (srcs : List Str) (ns : List Node) (h : c02_plainNames ns = true) :
    c02_plainNames (c20_putSrcs srcs ns).1 = true := by
  match ns with
  | [] => simp [c20_putSrcs, c02_plainNames]
  | c :: cs =>
    simp only [c02_plainNames, Bool.and_eq_true] at h
    simp only [c20_putSrcs, c02_plainNames, Bool.and_eq_true]
    exact ⟨c20_putSrcsN_plain srcs c h.1, c20_putSrcs_plain _ cs h.2⟩
end

/-! ### the marked `img` of `c20_writerConv`, and what the substitution makes of it -/

/-- the `img` the model's `img_element(f)` makes when `f` returns `{"src": name}` -/
def c20_srcTag (i : ImageProps) (name : Str) : Tag := c17_imgTag (c17_altAttr i ++ [(S!"src", name)])

/-- the `img` of `c20_writerConv` for an image with `n` bytes -/
def c20_markTag (i : ImageProps) (n : Str) : Tag := c17_imgTag (c17_altAttr i ++ [] ++ [(S!"data-len", n)])

theorem c20_markTag_isMark (i : ImageProps) (n : Str) : c20_isMark (c20_markTag i n) = true := by
  simp only [c20_isMark, c20_markTag, c17_imgTag, decide_true, Bool.true_and, c17_get_ofList,
    c17_lookupLast_append]
  simp [lookupLast]

/-- THE SUBSTITUTION IS THE MODEL'S OWN `img_element`: replacing the mark of the `img` made for image `i`
    by `src = name` gives exactly the element `img_element(f)` makes when `f` returns `{"src": name}`
    (`convertImage` with `.fixed [("src", name)] false`, see `C17_converter_alt_overrides`) -/
theorem c20_putSrc_tag (i : ImageProps) (n name : Str) :
    c20_putSrc name (c20_markTag i n) = c20_srcTag i name := by
  unfold c20_putSrc c20_markTag c20_srcTag c17_imgTag c17_altAttr
  cases i.altText with
  | none => simp [Dict.ofList, Dict.insert]
  | some a =>
    by_cases ha : a.isEmpty = true
    · simp [ha, Dict.ofList, Dict.insert]
    · simp only [ha, Bool.false_eq_true, if_false]
      have e1 : (S!"data-len" = S!"alt") = False := by decide
      have e2 : strLt S!"data-len" S!"alt" = false := by decide
      have e3 : (S!"src" = S!"alt") = False := by decide
      have e4 : strLt S!"src" S!"alt" = false := by decide
      simp [Dict.ofList, Dict.insert, e2, e4]

/-- … namely: `c20_srcTag i name` is the tag of the one node the model's `convertImage` returns for image `i`
    when the image converter is `img_element(f)` with `f` returning `{"src": name}` -/
theorem c20_srcTag_is_img_element (cfg : Cfg) (i : ImageProps) (name : Str) (st : ConvState)
    (hc : cfg.imageConv = .fixed [(S!"src", name)] false) :
    (convertImage cfg i).run st =
      .ok ([.elem (c20_srcTag i name) []], { st with imageCalls := st.imageCalls ++ [i] }) := by
  rw [c17_convertImage_run]; unfold c17_finish; simp only [hc]; rfl

theorem c20_take_mark (s : Str) (rest : List Str) (i : ImageProps) (n : Str) :
    c20_take (s :: rest) (c20_markTag i n) = (c20_srcTag i s, rest) := by
  simp only [c20_take, c20_markTag_isMark, if_true, c20_putSrc_tag]

/-! ### what the `ImageWriter` is handed -/

/-- `c20_openBytes` (the model's `openImage`) is C17's specification of `image.open()` -/
theorem c20_openBytes_eq (cfg : Cfg) (src : ImageSrc) : c20_openBytes cfg src = c17_opened cfg src := by
  unfold c20_openBytes c17_opened openImage
  cases src with
  | embedded name =>
    simp only
    cases lookupLast name cfg.archive <;> rfl
  | linked uri =>
    simp only
    by_cases ha : isAbsoluteUri uri = true
    · simp only [ha, if_true, c17_run_bind, c17_run_modify]
      cases cfg.world uri <;> rfl
    · simp only [ha, Bool.false_eq_true, if_false]
      cases cfg.base with
      | none => rfl
      | some b =>
        simp only [c17_run_bind, c17_run_modify]
        cases cfg.world (osPathJoin b uri) <;> rfl

/-- the converter configuration of the library run in `--output-dir` mode -/
def c20_dirCfg (args : CliArgs) (p : Package) (world : Str → Option Bytes) (fmt : Format) : Cfg :=
  c05_apiCfg p (some (c20_dirname args.path)) world (c20_options args fmt c20_writerConv)
    (c17_embOf p (c20_options args fmt c20_writerConv))

theorem c20_dirCfg_opened (args : CliArgs) (p : Package) (world : Str → Option Bytes) (fmt : Format)
    (src : ImageSrc) :
    c17_opened (c20_dirCfg args p world fmt) src = c17_opened (c20_openCfg args p world) src := by
  cases src <;> rfl

/-- the image can be opened -/
def c20_okf (cfg : Cfg) (i : ImageProps) : Bool := (c17_opened cfg i.src).isSome

/-- all images declare a content type -/
def c20_allTyped (is : List ImageProps) : Bool := is.all fun i => i.contentType.isSome

/-- content type and bytes of an image that has both -/
def c20_pairOf (cfg : Cfg) (i : ImageProps) : Option (Str × Bytes) :=
  match i.contentType, c17_opened cfg i.src with
  | some ct, some b => some (ct, b)
  | _, _ => none

theorem c20_input_typed (cfg : Cfg) (calls : List ImageProps) :
    c20_typed (calls.map fun i => (i.contentType, c17_opened cfg i.src)) = c20_allTyped calls := by
  simp [c20_typed, c20_allTyped, List.all_map, Function.comp_def]

theorem c20_input_opened (cfg : Cfg) (calls : List ImageProps) :
    c20_opened (calls.map fun i => (i.contentType, c17_opened cfg i.src)) = calls.filterMap (c20_pairOf cfg) := by
  induction calls with
  | nil => rfl
  | cons i rest ih =>
    simp only [List.map_cons, List.filterMap_cons, c20_pairOf]
    cases hct : i.contentType with
    | none => simp only [c20_opened, ih]
    | some ct =>
      cases hop : c17_opened cfg i.src with
      | none => simp only [c20_opened, ih]
      | some b => simp only [c20_opened, ih]

theorem c20_pairs_filter (cfg : Cfg) (calls : List ImageProps) :
    calls.filterMap (c20_pairOf cfg) = (calls.filter (c20_okf cfg)).filterMap (c20_pairOf cfg) := by
  induction calls with
  | nil => rfl
  | cons i rest ih =>
    cases hop : c17_opened cfg i.src with
    | none =>
      have h1 : c20_okf cfg i = false := by simp [c20_okf, hop]
      have h2 : c20_pairOf cfg i = none := by unfold c20_pairOf; rw [hop]; cases i.contentType <;> rfl
      simp only [List.filterMap_cons, h2, List.filter_cons, h1, Bool.false_eq_true, if_false, ih]
    | some b =>
      have h1 : c20_okf cfg i = true := by simp [c20_okf, hop]
      simp only [List.filterMap_cons, List.filter_cons, h1, if_true, ih]

/-! ### the `img`s of the `--output-dir` run -/

theorem c20_imgOf_writer (cfg : Cfg) (hc : cfg.imageConv = c20_writerConv) (i : ImageProps) :
    c17_imgOf cfg i =
      match c17_opened cfg i.src with
      | some b => [c20_markTag i (natToStr b.length)]
      | none => [] := by
  unfold c17_imgOf
  rw [hc]
  simp only [c20_writerConv, if_true]
  cases c17_opened cfg i.src <;> rfl

theorem c20_imgs_filter (cfg : Cfg) (hc : cfg.imageConv = c20_writerConv) (calls : List ImageProps) :
    calls.flatMap (c17_imgOf cfg) = (calls.filter (c20_okf cfg)).flatMap (c17_imgOf cfg) := by
  induction calls with
  | nil => rfl
  | cons i rest ih =>
    cases hop : c17_opened cfg i.src with
    | none =>
      have h1 : c20_okf cfg i = false := by simp [c20_okf, hop]
      have h2 : c17_imgOf cfg i = [] := by rw [c20_imgOf_writer cfg hc, hop]
      simp only [List.flatMap_cons, h2, List.nil_append, List.filter_cons, h1, Bool.false_eq_true, if_false, ih]
    | some b =>
      have h1 : c20_okf cfg i = true := by simp [c20_okf, hop]
      simp only [List.flatMap_cons, List.filter_cons, h1, if_true, ih]

/-- the `img` tags after the substitution, for images that all open: the `j`-th (from 0) image gets the name
    with number `n + j` -/
def c20_numbered : Nat → List ImageProps → List Tag
  | _, [] => []
  | n, i :: rest => c20_srcTag i (c20_imageName n (i.contentType.getD [])) :: c20_numbered (n + 1) rest

theorem c20_numbered_get (n : Nat) (ok : List ImageProps) (j : Nat) (i : ImageProps) (h : ok[j]? = some i) :
    (c20_numbered n ok)[j]? = some (c20_srcTag i (c20_imageName (n + j) (i.contentType.getD []))) := by
  induction ok generalizing n j with
  | nil => simp at h
  | cons x rest ih =>
    cases j with
    | zero =>
      simp only [List.getElem?_cons_zero, Option.some.injEq] at h
      subst h
      simp [c20_numbered]
    | succ j =>
      simp only [List.getElem?_cons_succ] at h
      have := ih (n + 1) j h
      have e : n + 1 + j = n + (j + 1) := by omega
      rw [e] at this
      simpa [c20_numbered] using this

theorem c20_numbered_length (n : Nat) (ok : List ImageProps) : (c20_numbered n ok).length = ok.length := by
  induction ok generalizing n with
  | nil => rfl
  | cons x rest ih => simp [c20_numbered, ih]

/-- the substitution on the `img`s of images that all open and are typed, with the names the `ImageWriter`
    returns for them -/
theorem c20_putTags_numbered (cfg : Cfg) (hc : cfg.imageConv = c20_writerConv) (dir : Str) (n : Nat)
    (ok : List ImageProps) (ht : c20_allTyped ok = true) (hp : c17_allPresent cfg ok = true) :
    c20_putTags (imageWriterRun dir n (ok.filterMap (c20_pairOf cfg))).2.1 (ok.flatMap (c17_imgOf cfg)) =
      (c20_numbered n ok, []) := by
  induction ok generalizing n with
  | nil => rfl
  | cons i rest ih =>
    simp only [c20_allTyped, List.all_cons, Bool.and_eq_true] at ht
    simp only [c17_allPresent, List.all_cons, Bool.and_eq_true] at hp
    cases hct : i.contentType with
    | none => rw [hct] at ht; cases ht.1
    | some ct =>
      cases hop : c17_opened cfg i.src with
      | none => rw [hop] at hp; cases hp.1
      | some b =>
        have hpair : c20_pairOf cfg i = some (ct, b) := by simp [c20_pairOf, hct, hop]
        have himg : c17_imgOf cfg i = [c20_markTag i (natToStr b.length)] := by
          rw [c20_imgOf_writer cfg hc, hop]
        have := ih (n + 1) (by simpa [c20_allTyped] using ht.2) (by simpa [c17_allPresent] using hp.2)
        simp only [List.filterMap_cons, hpair, List.flatMap_cons, himg, c20_run_cons, List.singleton_append,
          c20_putTags, c20_take_mark, this, c20_numbered, hct, Option.getD_some]

theorem c20_srcAlt_srcTag (i : ImageProps) (name : Str) :
    c17_srcAltOf (c20_srcTag i name).attrs = (some name, c17_altOut i) :=
  c17_srcAlt_dataUri i name

/-! ### the files of a run in which some images do not open -/

/-- with all content types known: the file written for the image at (0-based) position `k` is named with the
    number `n +` (how many of the images BEFORE it could be opened); it holds the image's bytes, or nothing
    when the image could not be opened -/
theorem c20_runO_get (dir : Str) (n : Nat) (imgs : List (Option Str × Option Bytes))
    (ht : c20_typed imgs = true) (k : Nat) (ct : Str) (ob : Option Bytes) (h : imgs[k]? = some (some ct, ob)) :
    (imageWriterRunO dir n imgs).1[k]? =
      some (posixJoin dir (c20_imageName (n + (c20_opened (imgs.take k)).length) ct), ob.getD []) := by
  induction imgs generalizing n k with
  | nil => simp at h
  | cons x rest ih =>
    have hr : c20_typed rest = true := by
      simp only [c20_typed, List.all_cons, Bool.and_eq_true] at ht; exact ht.2
    obtain ⟨xct, xb⟩ := x
    cases xct with
    | none => simp [c20_typed] at ht
    | some xct =>
      cases k with
      | zero =>
        simp only [List.getElem?_cons_zero, Option.some.injEq, Prod.mk.injEq] at h
        obtain ⟨h1, rfl⟩ := h
        cases h1
        cases xb with
        | none => rw [imageWriterRunO]; simp [c20_opened, c20_step]
        | some b => rw [imageWriterRunO]; simp [c20_opened, c20_step]
      | succ k =>
        simp only [List.getElem?_cons_succ] at h
        cases xb with
        | none =>
          rw [imageWriterRunO]
          simp only [List.getElem?_cons_succ, List.take_succ_cons, c20_opened]
          exact ih n hr k h
        | some b =>
          rw [imageWriterRunO, c20_step]
          simp only [List.getElem?_cons_succ, List.take_succ_cons, c20_opened, List.length_cons]
          have := ih (n + 1) hr k h
          have e : n + 1 + (c20_opened (List.take k rest)).length =
              n + ((c20_opened (List.take k rest)).length + 1) := by omega
          rw [e] at this
          exact this

theorem c20_runO_length (dir : Str) (n : Nat) (imgs : List (Option Str × Option Bytes))
    (ht : c20_typed imgs = true) : (imageWriterRunO dir n imgs).1.length = imgs.length := by
  induction imgs generalizing n with
  | nil => rfl
  | cons x rest ih =>
    have hr : c20_typed rest = true := by
      simp only [c20_typed, List.all_cons, Bool.and_eq_true] at ht; exact ht.2
    obtain ⟨xct, xb⟩ := x
    cases xct with
    | none => simp [c20_typed] at ht
    | some xct =>
      cases xb with
      | none => rw [imageWriterRunO]; simp [ih n hr]
      | some b => rw [imageWriterRunO]; simp [ih _ hr]

/-! ### the `--output-dir` run, assembled -/

theorem c20_writerInput_eq (args : CliArgs) (p : Package) (world : Str → Option Bytes) (fmt : Format)
    (out : ApiOut) :
    c20_writerInput args p world out =
      out.imageCalls.map fun i => (i.contentType, c17_opened (c20_dirCfg args p world fmt) i.src) := by
  simp only [c20_writerInput, c20_openBytes_eq, c20_dirCfg_opened]

theorem c20_okf_cfg (args : CliArgs) (p : Package) (world : Str → Option Bytes) (fmt : Format) :
    c20_okf (c20_dirCfg args p world fmt) = c20_okf (c20_openCfg args p world) := by
  funext i; simp only [c20_okf, c20_dirCfg_opened]

theorem c20_valid_output (args : CliArgs) (dir : Str) (hv : args.valid = true) (hd : args.outputDir = some dir) :
    args.output = none := by
  cases ho : args.output with
  | none => rfl
  | some o => simp [CliArgs.valid, ho, hd] at hv

/-- what the command writes in `--output-dir` mode when every image handed to the `ImageWriter` has a
    content type, in terms of the library run `out` -/
theorem c20_dir_run (args : CliArgs) (p : Package) (world : Str → Option Bytes) (fuel : Nat) (fmt : Format)
    (dir : Str) (out : ApiOut) (hv : args.valid = true) (hf : c20_format args.format = some fmt)
    (hd : args.outputDir = some dir)
    (hout : c20_convert args p world fuel fmt c20_writerConv = .ok out)
    (ht : c20_allTyped out.imageCalls = true) :
    ∃ res, c20_cli args p world fuel = .ok res ∧
      res.exitCode = 0 ∧ res.stdout = [] ∧ res.stderr = out.messages ∧
      res.stderrText = stderrTextOf out.messages ∧
      res.files = (imageWriterRunO dir 1 (c20_writerInput args p world out)).1 ++
        [(posixJoin dir (cliOutputName args.path),
          utf8Encode (c20_dirValue dir fmt (c20_writerInput args p world out) out))] ∧
      res.srcs = (imageWriterRunO dir 1 (c20_writerInput args p world out)).2.1 := by
  have hty : c20_typed (c20_writerInput args p world out) = true := by
    rw [c20_writerInput_eq args p world fmt, c20_input_typed]; exact ht
  obtain ⟨_, _, r3, _, _⟩ := c20_runO_typed dir 1 _ hty
  rw [c20_cli_dir args p world fuel fmt dir hv hf hd, hout]
  refine ⟨_, rfl, ?_⟩
  simp [cliRunO, hv, hd, r3]

theorem c20_allTyped_filter (q : ImageProps → Bool) (is : List ImageProps) (h : c20_allTyped is = true) :
    c20_allTyped (is.filter q) = true := by
  simp only [c20_allTyped, List.all_eq_true] at h ⊢
  intro i hi
  exact h i (List.mem_filter.mp hi).1

theorem c20_allPresent_filter (cfg : Cfg) (is : List ImageProps) :
    c17_allPresent cfg (is.filter (c20_okf cfg)) = true := by
  simp only [c17_allPresent, List.all_eq_true]
  intro i hi
  exact (List.mem_filter.mp hi).2

/-- the HTML written in `--output-dir` mode: it lexes, every `img` start tag is void, and the attribute lists
    of these tags are those of `c20_numbered 1` of the images that could be opened -/
theorem c20_dir_html (args : CliArgs) (p : Package) (world : Str → Option Bytes) (fuel : Nat)
    (dir : Str) (out : ApiOut)
    (hout : c20_convert args p world fuel .html c20_writerConv = .ok out)
    (ht : c20_allTyped out.imageCalls = true)
    (hi : c17_noImgMap (c20_dirCfg args p world .html) = true)
    (hp : c02_plainCfg (c20_dirCfg args p world .html) = true) :
    ∃ toks, c02_lexHtml (c20_dirValue dir .html (c20_writerInput args p world out) out) = some toks ∧
      c17_tokImgs toks = c17_tokVoidImgs toks ∧
      c17_tokVoidImgs toks =
        (c20_numbered 1 (out.imageCalls.filter (c20_okf (c20_openCfg args p world)))).map (·.attrs) := by
  obtain ⟨doc, msgs, r, _, hconv, _, hcalls, hnodes, _⟩ :=
    c17_apiConvert_ok p fuel _ world id _ out hout
  simp only [id] at hconv
  change convertDoc (c20_dirCfg args p world .html) doc = .ok r at hconv
  have hc : (c20_dirCfg args p world .html).imageConv = c20_writerConv := rfl
  obtain ⟨hcl, himgs⟩ := c17_convertDoc_images _ doc r hconv
  have himgs := himgs hi
  rw [← hcl, ← hcalls, ← hnodes] at himgs
  -- the forest after the substitution
  have hplain := c20_putSrcs_plain (imageWriterRunO dir 1 (c20_writerInput args p world out)).2.1 out.nodes
    (by rw [hnodes]; exact c02_plain_convertDoc _ hp doc r hconv)
  have hgood : c17_imgGood (c20_putSrcs (imageWriterRunO dir 1 (c20_writerInput args p world out)).2.1
      out.nodes).1 = true := by
    rw [(c20_putSrcs_good _ _).1, hnodes]; exact c17_good_convertDoc _ hi doc r hconv
  obtain ⟨toks, hl, h1, h2⟩ := c17_written_imgs _ hplain hgood
  refine ⟨toks, hl, h1.trans h2.symm, ?_⟩
  rw [h2, (c20_putSrcs_imgs _ _).1, himgs]
  -- the names returned by the writer
  have hty : c20_typed (c20_writerInput args p world out) = true := by
    rw [c20_writerInput_eq args p world .html, c20_input_typed]; exact ht
  obtain ⟨r1, _⟩ := c20_runO_typed dir 1 _ hty
  rw [r1, c20_writerInput_eq args p world .html, c20_input_opened, c20_pairs_filter,
    c20_imgs_filter _ hc,
    c20_putTags_numbered _ hc dir 1 _ (c20_allTyped_filter _ _ ht) (c20_allPresent_filter _ _),
    c20_okf_cfg]

/-- the images of the package in DOCUMENT ORDER, as C17 specifies it: those of the body XML in reading order
    (`c17_storyImages`), then those of the notes and of the comments that are rendered -/
def c20_docOrder (cfg : Cfg) (v : c05_View) (doc : Document) : List ImageProps :=
  c17_storyImages { v.shared with rels := v.bodyRels } v.body ++
    (c10_docNotes (c10_docCfg cfg doc) doc).flatMap (fun n => c17_elemImagesL n.body) ++
    (c10_docComments (c10_docCfg cfg doc) doc).flatMap (fun c => c17_elemImagesL c.body)

/-- the images handed to the image converter are, in order, the images of the package in document order
    (any image converter `conv` of the family) -/
theorem c20_calls_docOrder (p : Package) (v : c05_View) (hview : c05_view p = some v) (fuel : Nat)
    (base : Option Str) (world : Str → Option Bytes) (o : Options) (out : ApiOut)
    (hout : apiConvert p fuel base world id o = .ok out)
    (hvm : c01_noVMergeL v.body = true)
    (hig : c01_noIgnoreMap (c05_apiCfg p base world o (c17_embOf p o)) = true) :
    out.imageCalls = c20_docOrder (c05_apiCfg p base world o (c17_embOf p o)) v out.document := by
  obtain ⟨doc, msgs, r, hread, hconv, _, hcalls, _, hdoc⟩ := c17_apiConvert_ok p fuel base world id o out hout
  rw [c05_readPackage_view p v fuel hview] at hread
  obtain ⟨rr, st', hra, hd⟩ := c17_readView_ok v fuel doc msgs hread
  simp only [id] at hconv hdoc
  -- reader
  have pr := c17_readAll_images _ fuel {} v.body rr st' hra
  have hs := pr.sim
  rw [show c17_pend _ ({} : RState).deleted = [] from c17_pend_nil _] at hs
  have hv' : (c01_noVMergeL ({} : RState).deleted && c01_noVMergeL v.body) = true := by rw [hvm]; rfl
  rw [hv'] at hs
  have hrd : c17_elemImagesL rr.elements = c17_storyImages { v.shared with rels := v.bodyRels } v.body :=
    c17_Pre_eq hs.1
  -- converter
  obtain ⟨hcl, _⟩ := c17_convertDoc_images _ doc r hconv
  rw [hcalls, hcl, hdoc, c17_docImages_noIgnore (c10_docCfg (c05_apiCfg p base world o (c17_embOf p o)) doc) hig]
  unfold c17_docAllImages c20_docOrder
  have hch : doc.children = rr.elements := by rw [hd]
  rw [hch, hrd]

/-! ### pointwise: the file and the `src` of each image -/

theorem c20_pairs_length (cfg : Cfg) (is : List ImageProps) (ht : c20_allTyped is = true) :
    (is.filterMap (c20_pairOf cfg)).length = (is.filter (c20_okf cfg)).length := by
  induction is with
  | nil => rfl
  | cons i rest ih =>
    simp only [c20_allTyped, List.all_cons, Bool.and_eq_true] at ht
    have ih' := ih (by simpa [c20_allTyped] using ht.2)
    cases hct : i.contentType with
    | none => rw [hct] at ht; cases ht.1
    | some ct =>
      cases hop : c17_opened cfg i.src with
      | none =>
        have h1 : c20_okf cfg i = false := by simp [c20_okf, hop]
        have h2 : c20_pairOf cfg i = none := by simp [c20_pairOf, hct, hop]
        simp only [List.filterMap_cons, h2, List.filter_cons, h1, Bool.false_eq_true, if_false, ih']
      | some b =>
        have h1 : c20_okf cfg i = true := by simp [c20_okf, hop]
        have h2 : c20_pairOf cfg i = some (ct, b) := by simp [c20_pairOf, hct, hop]
        simp only [List.filterMap_cons, h2, List.filter_cons, h1, if_true, List.length_cons, ih']

theorem c20_allTyped_take (is : List ImageProps) (k : Nat) (h : c20_allTyped is = true) :
    c20_allTyped (is.take k) = true := by
  simp only [c20_allTyped, List.all_eq_true] at h ⊢
  intro i hi
  exact h i (List.mem_of_mem_take hi)

theorem c20_allTyped_get (is : List ImageProps) (k : Nat) (i : ImageProps) (h : c20_allTyped is = true)
    (hk : is[k]? = some i) : ∃ ct, i.contentType = some ct := by
  simp only [c20_allTyped, List.all_eq_true] at h
  have := h i (List.mem_of_getElem? hk)
  cases hct : i.contentType with
  | none => rw [hct] at this; cases this
  | some ct => exact ⟨ct, rfl⟩

/-- the file written for the `k`-th (from 0) image handed to the `ImageWriter`: its number is 1 + the number of
    EARLIER images that could be opened; its content the image's bytes, or nothing if it cannot be opened -/
theorem c20_dir_file_get (args : CliArgs) (p : Package) (world : Str → Option Bytes) (dir : Str)
    (out : ApiOut) (ht : c20_allTyped out.imageCalls = true) (k : Nat) (i : ImageProps)
    (hk : out.imageCalls[k]? = some i) :
    ∃ ct, i.contentType = some ct ∧
      (imageWriterRunO dir 1 (c20_writerInput args p world out)).1[k]? =
        some (posixJoin dir (natToStr (1 + ((out.imageCalls.take k).filter
                (c20_okf (c20_openCfg args p world))).length) ++ ['.'] ++ imageSubtype ct),
              (c17_opened (c20_openCfg args p world) i.src).getD []) := by
  obtain ⟨ct, hct⟩ := c20_allTyped_get _ k i ht hk
  refine ⟨ct, hct, ?_⟩
  have hin : c20_writerInput args p world out =
      out.imageCalls.map fun i => (i.contentType, c17_opened (c20_openCfg args p world) i.src) := by
    simp only [c20_writerInput, c20_openBytes_eq]
  have hty : c20_typed (c20_writerInput args p world out) = true := by
    rw [hin, c20_input_typed]; exact ht
  have hget : (c20_writerInput args p world out)[k]? =
      some (some ct, c17_opened (c20_openCfg args p world) i.src) := by
    rw [hin, List.getElem?_map, hk, Option.map_some, hct]
  rw [c20_runO_get dir 1 _ hty k ct _ hget, hin, ← List.map_take, c20_input_opened,
    c20_pairs_length _ _ (c20_allTyped_take _ k ht)]
  rfl

theorem c20_dir_files_length (args : CliArgs) (p : Package) (world : Str → Option Bytes) (dir : Str)
    (out : ApiOut) (ht : c20_allTyped out.imageCalls = true) :
    (imageWriterRunO dir 1 (c20_writerInput args p world out)).1.length = out.imageCalls.length := by
  have hin : c20_writerInput args p world out =
      out.imageCalls.map fun i => (i.contentType, c17_opened (c20_openCfg args p world) i.src) := by
    simp only [c20_writerInput, c20_openBytes_eq]
  have hty : c20_typed (c20_writerInput args p world out) = true := by
    rw [hin, c20_input_typed]; exact ht
  rw [c20_runO_length dir 1 _ hty, hin, List.length_map]

/-- the `j`-th (from 0) `img` of the HTML belongs to the `j`-th image that could be opened: `src` is the name
    with number `j + 1`, `alt` the image's alt text -/
theorem c20_numbered_srcAlt (ok : List ImageProps) (ht : c20_allTyped ok = true) (j : Nat) (i : ImageProps)
    (hj : ok[j]? = some i) :
    ∃ ct, i.contentType = some ct ∧
      (((c20_numbered 1 ok).map (·.attrs))[j]?).map c17_srcAltOf =
        some (some (natToStr (j + 1) ++ ['.'] ++ imageSubtype ct), c17_altOut i) := by
  obtain ⟨ct, hct⟩ := c20_allTyped_get _ j i ht hj
  refine ⟨ct, hct, ?_⟩
  rw [List.getElem?_map, c20_numbered_get 1 ok j i hj]
  simp only [Option.map_some, c20_srcAlt_srcTag, hct, Option.getD_some, c20_imageName, Nat.add_comm 1 j]

/-! ### warnings -/

theorem c20_openError_cfg (args : CliArgs) (p : Package) (world : Str → Option Bytes) (fmt : Format)
    (src : ImageSrc) :
    c16_openError (c20_dirCfg args p world fmt) src = c16_openError (c20_openCfg args p world) src := by
  cases src <;> rfl

/-- `--output-dir`: every image handed to the `ImageWriter` that cannot be opened is a linked image, and the
    warning of its `open()` is among the library's messages -/
theorem c20_dir_warned (args : CliArgs) (p : Package) (world : Str → Option Bytes) (fuel : Nat) (fmt : Format)
    (out : ApiOut) (hout : c20_convert args p world fuel fmt c20_writerConv = .ok out) :
    ∀ i ∈ out.imageCalls, c17_opened (c20_openCfg args p world) i.src = none →
      ∃ m, c16_openError (c20_openCfg args p world) i.src = some m ∧ m ∈ out.messages := by
  intro i hi hop
  obtain ⟨w1, w2⟩ := c20_api_warned p fuel _ world _ out hout rfl i hi
  obtain ⟨m, hm⟩ := c20_unopened_has_warning (c20_openCfg args p world) i.src w2 hop
  refine ⟨m, hm, w1 m ?_⟩
  rw [← hm]
  exact c20_openError_cfg args p world fmt i.src

/-! ### a package with pictures that cannot be opened

  four inline pictures in one paragraph: a LINKED gif that does not exist, an embedded png, a linked jpeg that
  exists next to the input file, a linked png that does not exist -/

def c20_exLinkGraphic (rid : Str) : XmlNode :=
  c17_x S!"a:graphic" [c17_x S!"a:graphicData" [c17_x S!"pic:pic" [c17_x S!"pic:blipFill" [
    .elem S!"a:blip" [(S!"r:link", rid)] []]]]]

def c20_exInline (descr : Str) (g : XmlNode) : XmlNode :=
  c17_x S!"w:r" [c17_x S!"w:drawing" [c17_x S!"wp:inline" [.elem S!"wp:docPr" [(S!"descr", descr)] [], g]]]

def c20_exFailPackage : Package :=
  { parts := [
      (S!"[Content_Types].xml", .xml (c17_x S!"content-types:Types" [
        .elem S!"content-types:Default" [(S!"Extension", S!"png"), (S!"ContentType", S!"image/png")] []])),
      (S!"_rels/.rels", .xml (c17_x S!"relationships:Relationships" [
        c17_exRel S!"rId1" S!"officeDocument" S!"word/document.xml"])),
      (S!"word/_rels/document.xml.rels", .xml (c17_x S!"relationships:Relationships" [
        c17_exRel S!"rId1" S!"image" S!"missing.gif",
        c17_exRel S!"rId2" S!"image" S!"media/image1.png",
        c17_exRel S!"rId3" S!"image" S!"there.jpeg",
        c17_exRel S!"rId4" S!"image" S!"gone.png"])),
      (S!"word/document.xml", .xml (c17_x S!"w:document" [c17_x S!"w:body" [c17_x S!"w:p" [
        c20_exInline S!"a" (c20_exLinkGraphic S!"rId1"),
        c20_exInline S!"b" (c17_exGraphic S!"rId2"),
        c20_exInline S!"c" (c20_exLinkGraphic S!"rId3"),
        c20_exInline S!"d" (c20_exLinkGraphic S!"rId4")]]])),
      (S!"word/media/image1.png", .bytes [7]) ] }

/-- the outside world of the example: one file next to the input file `in2/b.docx` -/
def c20_exWorld : Str → Option Bytes := fun path => if path = S!"in2/there.jpeg" then some [9, 8] else none

end Mammoth
