/-
  C08, from the XML — the reader half for paragraphs: what `readElem` makes of a `w:p`, with the paragraph's style and
  numbering specified on the XML of its `w:pPr`, and the numbering definitions as read from `numbering.xml`.
-/
import Proofs.C09_Xml
import Proofs.C08_Numbering
import Proofs.C08_Lists
import Proofs.C08_Paths
namespace Mammoth

/-! ### the paragraph properties, read off the XML -/

/-- the paragraph properties: children of the first `w:pPr` child -/
abbrev c08x_pPr (cs : List XmlNode) : List XmlNode := c11x_childrenOf S!"w:pPr" cs

/-- the paragraph mark is a tracked deletion: `w:pPr/w:rPr/w:del` exists (such a paragraph is merged with the next) -/
def c08x_markDeleted (cs : List XmlNode) : Bool :=
  (c11x_named S!"w:del" (c11x_childrenOf S!"w:rPr" (c08x_pPr cs))).head?.isSome

/-- style id (`w:pStyle/@w:val`), style name (through the paragraph styles of styles.xml) and the warning about an
    undefined style -/
abbrev c08x_style (env : REnv) (pPr : List XmlNode) : (Option Str × Option Str) × List Str :=
  c09x_style pPr S!"w:pStyle" S!"Paragraph" env.styles.paragraph

/-- the paragraph's own numbering reference: (`w:numPr/w:numId/@w:val`, `w:numPr/w:ilvl/@w:val`) -/
def c08x_numPr (pPr : List XmlNode) : Option Str × Option Str :=
  ((c11x_propVal S!"w:numId" (c11x_childrenOf S!"w:numPr" pPr)).join,
   (c11x_propVal S!"w:ilvl" (c11x_childrenOf S!"w:numPr" pPr)).join)

/-- the length of a numbering-style link chain that `find_level` follows before giving up -/
abbrev c08x_fuel (env : REnv) : Nat := env.numbering.nums.length + env.numbering.abstractNums.length + 2

/-- THE NUMBERING OF A PARAGRAPH, from its `w:pPr`: its own `w:numPr` if that has both a `w:numId` and a `w:ilvl` —
    resolved through the numbering definitions, whatever the style says; otherwise the level that names the
    paragraph's style as its `w:pStyle`; otherwise none -/
def c08x_numbering (env : REnv) (pPr : List XmlNode) : Except Err (Option NumLevel) :=
  match c08x_numPr pPr with
  | (some numId, some lvl) => findLevel env.numbering (c08x_fuel env) (some numId) lvl
  | _ =>
    match (c08x_style env pPr).1.1 with
    | some sid => .ok (findLevelByStyle env.numbering sid)
    | none => .ok none

theorem c08x_readNumberingProps (env : REnv) (pPr : List XmlNode) :
    readNumberingProps env (c08x_style env pPr).1.1 (findChildOrNull S!"w:numPr" pPr).2 = c08x_numbering env pPr := by
  unfold readNumberingProps c08x_numbering c08x_numPr
  rw [c11x_childrenOf_eq, c11x_childAttr, c11x_childAttr]
  cases (c11x_propVal S!"w:numId" (c11x_childrenOf S!"w:numPr" pPr)).join <;>
    cases (c11x_propVal S!"w:ilvl" (c11x_childrenOf S!"w:numPr" pPr)).join <;> rfl

/-! ### the reader on `w:p` -/

theorem c08x_handler_p : handlerOf S!"w:p" = some S!"paragraph" := by decide

/-- what `paragraph` builds from the result `r` of its children and the numbering `num` -/
def c08x_paraResult (env : REnv) (cs : List XmlNode) (r : ReadResult) (num : Option NumLevel) : ReadResult :=
  { elements := .paragraph { styleId := (c08x_style env (c08x_pPr cs)).1.1,
                             styleName := (c08x_style env (c08x_pPr cs)).1.2, numbering := num } r.elements
                :: r.extra,
    extra := [],
    messages := (c08x_style env (c08x_pPr cs)).2 ++ r.messages }

/-- the paragraph branch of the reader -/
theorem c08x_reader_paragraph (env : REnv) (f : Nat) (st : RState) (as : Attrs) (cs : List XmlNode) :
    readElem env (f+1) st (.elem S!"w:p" as cs) =
      if c08x_markDeleted cs = true then .ok ({}, { st with deleted := st.deleted ++ cs })
      else
        (readAllWith (readElem env f) { st with deleted := [] } (st.deleted ++ cs) >>= fun p =>
          c08x_numbering env (c08x_pPr cs) >>= fun num =>
          pure (c08x_paraResult env cs p.1 num, p.2)) := by
  rw [c05_readElem_succ]
  unfold c05_readBody
  rw [c08x_handler_p]
  unfold c08x_markDeleted c08x_pPr
  rw [← c08x_readNumberingProps]
  unfold c08x_paraResult c08x_style c08x_pPr
  simp only [← c09x_readStyle, ← c11x_childrenOf_eq, ← c11x_findChild]
  rfl

/-- READING A PARAGRAPH whose mark is not deleted: if the children (preceded by whatever was deferred from deleted
    paragraphs) are read as `r` and the numbering specified by the `w:pPr` resolves to `num`, the result is ONE
    paragraph element with that style and numbering around the children's elements, followed by the extra elements
    (text boxes) of its content -/
theorem c08x_read_paragraph (env : REnv) (f : Nat) (st st1 : RState) (as : Attrs) (cs : List XmlNode)
    (r : ReadResult) (num : Option NumLevel)
    (hdel : c08x_markDeleted cs = false)
    (hcs : readAllWith (readElem env f) { st with deleted := [] } (st.deleted ++ cs) = .ok (r, st1))
    (hnum : c08x_numbering env (c08x_pPr cs) = .ok num) :
    readElem env (f+1) st (.elem S!"w:p" as cs) = .ok (c08x_paraResult env cs r num, st1) := by
  rw [c08x_reader_paragraph, hdel, hcs, hnum]
  rfl

end Mammoth
