/-
  C18 (extension 7) — exact external reads of one image conversion, the success case of
  `Files.open`, and the shape of the resolved target `os.path.join(base, uri)`.
-/
import Proofs.C18_Image
namespace Mammoth

/-- Specification: the external reads one call of the image converter performs for an image with
    source `src`, given only the input's directory `base` and whether the converter opens the image.
    Written from the property text: nothing unless the converter opens; nothing for embedded images;
    `urlopen` of an absolute uri; the uri resolved against the directory for a relative one; nothing
    for a relative uri when the input has no name. -/
def c18_imageOps (base : Option Str) (opens : Bool) (src : ImageSrc) : List IoOp :=
  match opens, src with
  | false, _ => []
  | true, .embedded _ => []
  | true, .linked uri =>
    match isAbsoluteUri uri, base with
    | true, _ => [.urlopen uri]
    | false, some b => [.openFile (osPathJoin b uri)]
    | false, none => []

/-- `openImage` changes nothing of the state but the trace, which grows by exactly the allowed reads -/
theorem c18_openImage_trace (cfg : Cfg) (src : ImageSrc) (s s' : ConvState) (x : Except Str Bytes)
    (h : (openImage cfg src).run s = .ok (x, s')) :
    s' = { s with ioTrace := s.ioTrace ++ c18_imageOps cfg.base true src } := by
  cases src with
  | embedded name =>
    simp only [openImage] at h
    cases hl : lookupLast name cfg.archive with
    | none => rw [hl] at h; cases h
    | some b =>
      rw [hl] at h
      cases h
      simp [c18_imageOps]
  | linked uri =>
    cases habs : isAbsoluteUri uri with
    | true =>
      rw [c18_openImage_abs cfg uri s habs] at h
      cases h
      simp [c18_imageOps, habs]
    | false =>
      cases hb : cfg.base with
      | none =>
        rw [c18_openImage_noname cfg uri s habs hb] at h
        cases h
        simp [c18_imageOps, habs]
      | some b =>
        rw [c18_openImage_rel cfg uri b s habs hb] at h
        cases h
        simp [c18_imageOps, habs]

theorem c18_warn_pure_run (msg : Str) (s : ConvState) :
    (do warn msg; pure ([] : List Node) : ConvM (List Node)).run s =
      .ok ([], { s with messages := s.messages ++ [msg] }) := rfl

/-- the trace after one successful `convertImage` is the old trace plus exactly `c18_imageOps` -/
theorem c18_convertImage_trace (cfg : Cfg) (i : ImageProps) (st st' : ConvState) (ns : List Node)
    (h : (convertImage cfg i).run st = .ok (ns, st')) :
    st'.ioTrace = st.ioTrace ++ c18_imageOps cfg.base (c18_opens cfg) i.src ∧
    st'.imageCalls = st.imageCalls ++ [i] := by
  unfold convertImage at h
  obtain ⟨a, s1, h1, h2⟩ := c18_run_bind_ok _ _ st ns st' h
  rw [StateT.run_modify] at h1
  cases h1
  cases hc : cfg.imageConv with
  | dataUri =>
    rw [hc] at h2
    obtain ⟨x, s2, h3, h4⟩ := c18_run_bind_ok _ _ _ ns st' h2
    have := c18_openImage_trace cfg i.src _ s2 x h3
    subst this
    cases x with
    | ok bytes => cases h4; simp [c18_opens, hc]
    | error msg =>
      dsimp only at h4
      rw [c18_warn_pure_run] at h4
      cases h4
      simp [c18_opens, hc]
  | fixed attrs opens =>
    rw [hc] at h2
    cases opens with
    | false =>
      cases h2
      simp [c18_opens, hc, c18_imageOps]
    | true =>
      simp only [if_true] at h2
      obtain ⟨x, s2, h3, h4⟩ := c18_run_bind_ok _ _ _ ns st' h2
      have := c18_openImage_trace cfg i.src _ s2 x h3
      subst this
      cases x with
      | ok bytes => cases h4; simp [c18_opens, hc]
      | error msg =>
        dsimp only at h4
        rw [c18_warn_pure_run] at h4
        cases h4
        simp [c18_opens, hc]

/-- success case with the default converter: the open yields `bytes` -/
theorem c18_convertImage_dataUri_ok (cfg : Cfg) (i : ImageProps) (st s : ConvState) (bytes : Bytes)
    (hc : cfg.imageConv = .dataUri)
    (h : (openImage cfg i.src).run { st with imageCalls := st.imageCalls ++ [i] }
          = .ok (.ok bytes, s)) :
    (convertImage cfg i).run st =
      .ok ([el S!"img" ((match i.altText with
                          | some a => if a.isEmpty then [] else [(S!"alt", a)]
                          | none => []) ++
              [(S!"src", S!"data:" ++ pyOpt i.contentType ++ S!";base64," ++ b64encode bytes)]) []],
           s) := by
  unfold convertImage
  rw [StateT.run_bind, StateT.run_modify]
  simp only [hc, pure_bind]
  show (openImage cfg i.src >>= _).run _ = _
  rw [StateT.run_bind, h]
  rfl

/-- `os.path.join(b, uri)` for a uri that does not start with `/`: `b`, at most one `/`, then `uri` -/
theorem c18_join_rel (b uri : Str) (h : startsWith uri ['/'] = false) :
    osPathJoin b uri = b ++ uri ∨ osPathJoin b uri = b ++ ['/'] ++ uri := by
  unfold osPathJoin
  rw [h]
  simp only [Bool.false_eq_true, if_false]
  split
  · exact .inl rfl
  · exact .inr rfl

theorem c18_join_rooted (b uri : Str) (h : startsWith uri ['/'] = true) :
    osPathJoin b uri = uri := by
  unfold osPathJoin
  rw [h]
  rfl

end Mammoth
