/-
  C11, from the XML — content without `w:fldChar` leaves the stack of open complex fields alone, so a run outside
  every complex field stays outside: the hypothesis "no open hyperlink field after the children" of the run theorems
  follows from conditions on the XML and on the reader state before the run.
-/
import Proofs.C11_Xml
import Proofs.C05_Static
import Proofs.C05_ReadBody
namespace Mammoth

mutual
/-- no `w:fldChar` element anywhere in the tree -/
def c11x_noFld : XmlNode → Bool
  | .text _ => true
  | .elem name _ cs => name != S!"w:fldChar" && c11x_noFldL cs
def c11x_noFldL : List XmlNode → Bool
  | [] => true
  | c :: cs => c11x_noFld c && c11x_noFldL cs
end

theorem c11x_noFldL_append (a b : List XmlNode) :
    c11x_noFldL (a ++ b) = (c11x_noFldL a && c11x_noFldL b) := by
  induction a with
  | nil => simp [c11x_noFldL]
  | cons x xs ih => simp [c11x_noFldL, ih, Bool.and_assoc]

theorem c11x_noFldL_findChild (name : Str) (cs : List XmlNode) (h : c11x_noFldL cs = true) :
    c11x_noFldL (findChildOrNull name cs).2 = true := by
  unfold findChildOrNull
  induction cs with
  | nil => simp [findChild, c11x_noFldL]
  | cons c cs ih =>
    simp only [c11x_noFldL, Bool.and_eq_true] at h
    cases c with
    | text s => simp only [findChild]; exact ih h.2
    | elem n as ccs =>
      simp only [findChild]
      split
      · simp only [Option.getD]
        have := h.1; simp only [c11x_noFld, Bool.and_eq_true] at this; exact this.2
      · exact ih h.2

theorem c11x_fld_name : Generated.handlers.all (fun p => p.2 != S!"read_fld_char" || p.1 == S!"w:fldChar") = true := by
  decide

theorem c11x_handler_fld {name h : Str} (hh : handlerOf name = some h) (hc : (h == S!"read_fld_char") = true) :
    name = S!"w:fldChar" := by
  have := eq_of_beq hc; subst this
  have hm := c05_lookupLast_mem _ _ _ hh
  have := List.all_eq_true.mp c11x_fld_name _ hm
  simpa using this

/-- postcondition: the field stack is `s0`, and nothing deferred contains a `w:fldChar` -/
abbrev c11x_Q (s0 : List Field) : ReadResult × RState → Prop :=
  fun p => p.2.stack = s0 ∧ c11x_noFldL p.2.deleted = true

abbrev c11x_T : Err → Prop := fun _ => True

theorem c11x_spec_any {α} (x : Except Err α) : c05_spec c11x_T (fun _ => True) x :=
  ⟨fun _ _ => trivial, fun _ _ => trivial⟩

theorem c11x_spec_error {α} {Q : α → Prop} (e : Err) : c05_spec c11x_T Q (.error e) :=
  ⟨fun _ _ => trivial, fun _ ha => by cases ha⟩

theorem c11x_spec_throw {α} {Q : α → Prop} (e : Err) : c05_spec c11x_T Q (throw e) := c11x_spec_error e

theorem c11x_body_stack (env : REnv) (ra : c05_RdAll)
    (ih : ∀ st ns, c11x_noFldL ns = true → c11x_noFldL st.deleted = true →
      c05_spec c11x_T (c11x_Q st.stack) (ra st ns))
    (st : RState) (name : Str) (as : Attrs) (cs : List XmlNode)
    (hname : (name != S!"w:fldChar") = true) (hcs : c11x_noFldL cs = true)
    (hdel : c11x_noFldL st.deleted = true) :
    c05_spec c11x_T (c11x_Q st.stack) (c05_readBody env ra st name as cs) := by
  unfold c05_readBody
  split
  · split <;> exact c05_spec_ok _ ⟨rfl, hdel⟩
  · rename_i g hg
    repeat' (first
      | with_reducible refine c05_spec_ite _ _ _ (fun _ => ?_) (fun _ => ?_)
      | exact c05_spec_ok _ ⟨rfl, hdel⟩
      | exact c05_spec_pure _ (by assumption)
      | exact c11x_spec_error _
      | exact c11x_spec_throw _
      | exact ih _ _ hcs hdel
      | exact ih _ _ (c11x_noFldL_findChild _ cs hcs) hdel
      | exact c05_spec_ok _ ⟨rfl, (by show c11x_noFldL (st.deleted ++ cs) = true; rw [c11x_noFldL_append, hdel, hcs]; rfl)⟩
      | exact absurd (c11x_handler_fld hg (by assumption)) (by simpa using hname)
      | refine c05_spec_bind (Q := c11x_Q st.stack) _ _ (ih _ _ hcs hdel) (fun _ _ => ?_)
      | refine c05_spec_bind (Q := c11x_Q st.stack) _ _
          (ih { st with deleted := [] } _ (by rw [c11x_noFldL_append, hdel, hcs]; rfl) rfl) (fun _ _ => ?_)
      | exact c05_spec_map _ _ (c11x_spec_any _) (fun _ _ => ⟨rfl, hdel⟩)
      | refine c05_spec_bind (Q := fun _ => True) _ _ (c11x_spec_any _) (fun _ _ => ?_)
      | split
      | dsimp only)

theorem c11x_readAllWith_stack (rd : c05_Rd)
    (hrd : ∀ st n, c11x_noFld n = true → c11x_noFldL st.deleted = true →
      c05_spec c11x_T (c11x_Q st.stack) (rd st n)) :
    ∀ (ns : List XmlNode) (st : RState), c11x_noFldL ns = true → c11x_noFldL st.deleted = true →
      c05_spec c11x_T (c11x_Q st.stack) (readAllWith rd st ns)
  | [], st, _, hd => by simp only [readAllWith]; exact c05_spec_ok _ ⟨rfl, hd⟩
  | .text _ :: rest, st, hs, hd => by
    simp only [readAllWith]
    simp only [c11x_noFldL, Bool.and_eq_true] at hs
    exact c11x_readAllWith_stack rd hrd rest st hs.2 hd
  | .elem n as cs :: rest, st, hs, hd => by
    simp only [readAllWith]
    simp only [c11x_noFldL, Bool.and_eq_true] at hs
    refine c05_spec_bind (Q := c11x_Q st.stack) _ _ (hrd _ _ hs.1 hd) (fun a ha => ?_)
    refine c05_spec_bind (Q := c11x_Q st.stack) _ _
      (c05_spec_weaken (c11x_readAllWith_stack rd hrd rest _ hs.2 ha.2) (fun b hb => ⟨hb.1.trans ha.1, hb.2⟩))
      (fun b hb => ?_)
    exact c05_spec_pure _ hb

theorem c11x_readElem_stack (env : REnv) :
    ∀ (f : Nat) (st : RState) (n : XmlNode), c11x_noFld n = true → c11x_noFldL st.deleted = true →
      c05_spec c11x_T (c11x_Q st.stack) (readElem env f st n)
  | f, st, .text s, _, hd => by rw [c05_readElem_text]; exact c05_spec_ok _ ⟨rfl, hd⟩
  | 0, st, .elem name as cs, _, _ => by rw [c05_readElem_zero]; exact c11x_spec_error _
  | f+1, st, .elem name as cs, hs, hd => by
    rw [c05_readElem_succ]
    simp only [c11x_noFld, Bool.and_eq_true] at hs
    exact c11x_body_stack env _
      (fun st ns h1 h2 => c11x_readAllWith_stack _ (c11x_readElem_stack env f) ns st h1 h2)
      st name as cs hs.1 hs.2 hd

/-- CONTENT WITHOUT `w:fldChar` LEAVES THE FIELD STACK ALONE: if the nodes `ns` and whatever was deferred from deleted
    paragraphs contain no `w:fldChar`, reading `ns` ends with the stack of open complex fields it started with -/
theorem c11x_readAll_stack (env : REnv) (f : Nat) (st st1 : RState) (ns : List XmlNode) (r : ReadResult)
    (hns : c11x_noFldL ns = true) (hdel : c11x_noFldL st.deleted = true)
    (h : readAllWith (readElem env f) st ns = .ok (r, st1)) : st1.stack = st.stack :=
  ((c11x_readAllWith_stack _ (c11x_readElem_stack env f) ns st hns hdel).ok _ h).1

end Mammoth
