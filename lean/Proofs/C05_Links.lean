/-
  C05 — `w:numStyleLink` chains.  `Numbering.find_level` follows the chain
      numId ↦ w:num ↦ w:abstractNum ↦ w:numStyleLink ↦ numbering style ↦ its numId ↦ …
  and the model gives it the fuel `|nums| + |abstractNums| + 2`.  A link that DANGLES (undefined num,
  undefined abstractNum, undefined numbering style) ends the chain with the answer `None`; only a chain
  that never ends (a cycle) makes `find_level` fail (`RecursionError`, `.recursion` in the model).

  `c05_linksAcyclic env` is the decidable predicate "the chain from every defined numId `some s` ends";
  it is NECESSARY AND SUFFICIENT for `findLevel`, with the fuel the reader gives it, to return normally for
  every numId and level a paragraph may carry (`c05_linksAcyclic_iff`).
-/
import Proofs.C05_Static
namespace Mammoth

/-- one step of the chain: the numId of the numbering style that the abstract numbering of `numId` links
    to — `none` when the chain ends here (num / abstractNum undefined, no `w:numStyleLink`, or the link
    dangles) -/
def c05_linkStep (n : Numbering) (numId : Option Str) : Option (Option Str) :=
  match lookupLast numId n.nums with
  | none => none
  | some absId =>
    match lookupLast (some absId) n.abstractNums with
    | none => none
    | some an =>
      match an.numStyleLink with
      | none => none
      | some link => lookupLast (some link) n.styles.numbering

/-- the chain from `x` ends after at most `k` steps -/
def c05_chainEnds (n : Numbering) : Nat → Option Str → Bool
  | 0, x => (c05_linkStep n x).isNone
  | k+1, x =>
    match c05_linkStep n x with
    | none => true
    | some y => c05_chainEnds n k y

/-- ACYCLIC LINKS: from every defined numId `some s` (a key of `nums`) the `w:numStyleLink` chain ends
    within `|nums|` steps (an acyclic chain cannot be longer: it visits distinct keys of `nums`).
    Dangling links are allowed: they end the chain. -/
def c05_linksAcyclic (env : REnv) : Bool :=
  env.numbering.nums.all fun p => p.1.isNone || c05_chainEnds env.numbering env.numbering.nums.length p.1

/-- the fuel `readNumberingProps` gives to `findLevel` -/
def c05_linkFuel (env : REnv) : Nat := env.numbering.nums.length + env.numbering.abstractNums.length + 2

theorem c05_findLevel_step_none (n : Numbering) (f : Nat) (x : Option Str) (lvl : Str)
    (h : c05_linkStep n x = none) : ∃ r, findLevel n (f+1) x lvl = .ok r := by
  unfold findLevel
  unfold c05_linkStep at h
  split
  · exact ⟨_, rfl⟩
  · rename_i absId habs
    rw [habs] at h; dsimp only at h
    split
    · exact ⟨_, rfl⟩
    · rename_i an han
      rw [han] at h; dsimp only at h
      split
      · exact ⟨_, rfl⟩
      · rename_i link hlink
        rw [hlink] at h; dsimp only at h
        rw [h]; exact ⟨_, rfl⟩

theorem c05_findLevel_step_some (n : Numbering) (f : Nat) (x y : Option Str) (lvl : Str)
    (h : c05_linkStep n x = some y) : findLevel n (f+1) x lvl = findLevel n f y lvl := by
  rw [findLevel]
  unfold c05_linkStep at h
  split
  · rename_i hn; rw [hn] at h; cases h
  · rename_i absId habs
    rw [habs] at h; dsimp only at h
    split
    · rename_i hn; rw [hn] at h; cases h
    · rename_i an han
      rw [han] at h; dsimp only at h
      split
      · rename_i hn; rw [hn] at h; cases h
      · rename_i link hlink
        rw [hlink] at h; dsimp only at h
        rw [h]

/-- a chain that ends within `k` steps is followed successfully with any fuel `> k` -/
theorem c05_findLevel_of_chainEnds (n : Numbering) (lvl : Str) :
    ∀ (k : Nat) (x : Option Str) (f : Nat), c05_chainEnds n k x = true → k < f →
      ∃ r, findLevel n f x lvl = .ok r
  | 0, x, f, h, hf => by
    obtain ⟨f', rfl⟩ : ∃ f', f = f' + 1 := ⟨f - 1, by omega⟩
    simp only [c05_chainEnds, Option.isNone_iff_eq_none] at h
    exact c05_findLevel_step_none n f' x lvl h
  | k+1, x, f, h, hf => by
    obtain ⟨f', rfl⟩ : ∃ f', f = f' + 1 := ⟨f - 1, by omega⟩
    cases hs : c05_linkStep n x with
    | none => exact c05_findLevel_step_none n f' x lvl hs
    | some y =>
      rw [c05_findLevel_step_some n f' x y lvl hs]
      simp only [c05_chainEnds, hs] at h
      exact c05_findLevel_of_chainEnds n lvl k y f' h (by omega)

theorem c05_linkStep_key (n : Numbering) (x y : Option Str) (h : c05_linkStep n x = some y) :
    ∃ a, (x, a) ∈ n.nums := by
  unfold c05_linkStep at h
  split at h
  · cases h
  · rename_i absId habs; exact ⟨absId, c05_lookupLast_mem _ _ _ habs⟩

/-- SUFFICIENT: with acyclic links `findLevel` returns normally for every numId `some s`, every level
    and every fuel `> |nums|` — in particular with the reader's fuel -/
theorem c05_findLevel_ok_acyclic (env : REnv) (hl : c05_linksAcyclic env = true) (f : Nat)
    (hf : env.numbering.nums.length < f) (numId lvl : Str) :
    ∃ r, findLevel env.numbering f (some numId) lvl = .ok r := by
  obtain ⟨f', rfl⟩ : ∃ f', f = f' + 1 := ⟨f - 1, by omega⟩
  cases hs : c05_linkStep env.numbering (some numId) with
  | none => exact c05_findLevel_step_none _ f' _ lvl hs
  | some y =>
    obtain ⟨a, ha⟩ := c05_linkStep_key _ _ _ hs
    simp only [c05_linksAcyclic, List.all_eq_true, Bool.or_eq_true] at hl
    rcases hl _ ha with h | h
    · cases h
    · exact c05_findLevel_of_chainEnds _ lvl _ _ _ h hf

/-- `_read_numbering_properties` returns normally when the links are acyclic -/
theorem c05_readNumberingProps_ok_acyclic (env : REnv) (hl : c05_linksAcyclic env = true) (sid : Option Str)
    (numPr : List XmlNode) : ∃ r, readNumberingProps env sid numPr = .ok r := by
  unfold readNumberingProps
  split
  · exact c05_findLevel_ok_acyclic env hl _ (by omega) _ _
  · split <;> exact ⟨_, rfl⟩

/-- the old hypothesis (no `w:numStyleLink` at all, or no numbering styles) is a special case -/
theorem c05_linksAcyclic_of_noStyleLinks (env : REnv) (hn : c05_noStyleLinks env = true) :
    c05_linksAcyclic env = true := by
  simp only [c05_linksAcyclic, List.all_eq_true, Bool.or_eq_true]
  intro p _
  right
  have hstep : c05_linkStep env.numbering p.1 = none := by
    unfold c05_linkStep
    split
    · rfl
    · split
      · rfl
      · rename_i an han
        split
        · rfl
        · rename_i link hlink
          simp only [c05_noStyleLinks, Bool.or_eq_true, List.all_eq_true, List.isEmpty_iff] at hn
          rcases hn with hn | hn
          · have := hn _ (c05_lookupLast_mem _ _ _ han)
            rw [hlink] at this; cases this
          · rw [hn]; rfl
  cases hk : env.numbering.nums.length with
  | zero => simp [c05_chainEnds, hstep]
  | succ k => simp [c05_chainEnds, hstep]

/-! ### necessity: a chain that does not end within `|nums|` steps never ends -/

/-- the chain from `x` ends after exactly `k` steps -/
inductive c05_Ends (n : Numbering) : Option Str → Nat → Prop where
  | stop (x : Option Str) (h : c05_linkStep n x = none) : c05_Ends n x 0
  | step (x y : Option Str) (k : Nat) (h : c05_linkStep n x = some y) (hy : c05_Ends n y k) : c05_Ends n x (k+1)

theorem c05_Ends_det (n : Numbering) (x : Option Str) (k k' : Nat) (h : c05_Ends n x k) (h' : c05_Ends n x k') :
    k = k' := by
  induction h generalizing k' with
  | stop x hx =>
    cases h' with
    | stop _ _ => rfl
    | step _ y _ hy _ => rw [hx] at hy; cases hy
  | step x y k hx _ ih =>
    cases h' with
    | stop _ hx' => rw [hx] at hx'; cases hx'
    | step _ y' k'' hx' hy' =>
      rw [hx] at hx'; cases hx'
      rw [ih k'' hy']

/-- an ending chain visits distinct keys of `nums` -/
theorem c05_Ends_path (n : Numbering) (x : Option Str) (k : Nat) (h : c05_Ends n x k) :
    ∃ path : List (Option Str), path.length = k ∧ path.Nodup ∧
      ∀ y ∈ path, y ∈ n.nums.map (·.1) ∧ ∃ j, 1 ≤ j ∧ j ≤ k ∧ c05_Ends n y j := by
  induction h with
  | stop x _ => exact ⟨[], rfl, List.nodup_nil, fun y hy => absurd hy List.not_mem_nil⟩
  | step x y k hx hy ih =>
    obtain ⟨path, hlen, hnd, hmem⟩ := ih
    refine ⟨x :: path, by simp [hlen], ?_, ?_⟩
    · rw [List.nodup_cons]
      refine ⟨fun hin => ?_, hnd⟩
      obtain ⟨_, j, _, hj, hej⟩ := hmem x hin
      have := c05_Ends_det n x j (k+1) hej (.step x y k hx hy)
      omega
    · intro z hz
      rcases List.mem_cons.mp hz with rfl | hz
      · obtain ⟨a, ha⟩ := c05_linkStep_key n _ _ hx
        exact ⟨List.mem_map.mpr ⟨_, ha, rfl⟩, k+1, by omega, Nat.le_refl _, .step _ y k hx hy⟩
      · obtain ⟨h1, j, hj1, hj2, hej⟩ := hmem z hz
        exact ⟨h1, j, hj1, by omega, hej⟩

/-- hence an ending chain has at most `|nums|` steps -/
theorem c05_Ends_le (n : Numbering) (x : Option Str) (k : Nat) (h : c05_Ends n x k) : k ≤ n.nums.length := by
  obtain ⟨path, hlen, hnd, hmem⟩ := c05_Ends_path n x k h
  have := List.Nodup.length_le_of_subset hnd (fun y hy => (hmem y hy).1)
  simpa [hlen] using this

theorem c05_chainEnds_of_Ends (n : Numbering) (x : Option Str) (k : Nat) (h : c05_Ends n x k) :
    ∀ m, k ≤ m → c05_chainEnds n m x = true := by
  induction h with
  | stop x hx =>
    intro m _
    cases m <;> simp [c05_chainEnds, hx]
  | step x y k hx _ ih =>
    intro m hm
    obtain ⟨m', rfl⟩ : ∃ m', m = m' + 1 := ⟨m - 1, by omega⟩
    simp only [c05_chainEnds, hx]
    exact ih m' (by omega)

theorem c05_Ends_of_findLevel (n : Numbering) (lvl : Str) :
    ∀ (f : Nat) (x : Option Str) (r : Option NumLevel), findLevel n f x lvl = .ok r → ∃ k, c05_Ends n x k
  | 0, x, r, h => by simp [findLevel] at h
  | f+1, x, r, h => by
    cases hs : c05_linkStep n x with
    | none => exact ⟨0, .stop x hs⟩
    | some y =>
      rw [c05_findLevel_step_some n f x y lvl hs] at h
      obtain ⟨k, hk⟩ := c05_Ends_of_findLevel n lvl f y r h
      exact ⟨k+1, .step x y k hs hk⟩

/-- NECESSARY: whenever `findLevel` returns normally — with whatever fuel — the chain ends within
    `|nums|` steps -/
theorem c05_chainEnds_of_findLevel (n : Numbering) (f : Nat) (x : Option Str) (lvl : Str) (r : Option NumLevel)
    (h : findLevel n f x lvl = .ok r) : c05_chainEnds n n.nums.length x = true := by
  obtain ⟨k, hk⟩ := c05_Ends_of_findLevel n lvl f x r h
  exact c05_chainEnds_of_Ends n x k hk _ (c05_Ends_le n x k hk)

/-- `findLevel` fails only with `RecursionError` -/
theorem c05_findLevel_err (n : Numbering) (lvl : Str) :
    ∀ (f : Nat) (x : Option Str) (e : Err), findLevel n f x lvl = .error e → e = .recursion
  | 0, x, e, h => by simp only [findLevel] at h; cases h; rfl
  | f+1, x, e, h => by
    cases hs : c05_linkStep n x with
    | none =>
      obtain ⟨r, hr⟩ := c05_findLevel_step_none n f x lvl hs
      rw [hr] at h; cases h
    | some y =>
      rw [c05_findLevel_step_some n f x y lvl hs] at h
      exact c05_findLevel_err n lvl f y e h

/-- NECESSARY AND SUFFICIENT: the links are acyclic iff `find_level`, with the fuel the reader gives it,
    returns normally for every numId and level that a paragraph's `w:numPr` may carry -/
theorem c05_linksAcyclic_iff (env : REnv) :
    c05_linksAcyclic env = true ↔
    ∀ numId lvl : Str, ∃ r, findLevel env.numbering (c05_linkFuel env) (some numId) lvl = .ok r := by
  constructor
  · intro hl numId lvl
    exact c05_findLevel_ok_acyclic env hl _ (by unfold c05_linkFuel; omega) numId lvl
  · intro h
    simp only [c05_linksAcyclic, List.all_eq_true, Bool.or_eq_true]
    intro p _
    cases hp : p.1 with
    | none => left; rfl
    | some s =>
      right
      obtain ⟨r, hr⟩ := h s []
      exact c05_chainEnds_of_findLevel _ _ _ _ r hr

/-- … and when they are not, some numId makes `find_level` raise `RecursionError` WHATEVER the fuel: the
    failure is a property of the document (a cycle), not of the model's fuel -/
theorem c05_cyclic_fails (env : REnv) (hl : c05_linksAcyclic env = false) :
    ∃ numId : Str, ∀ (f : Nat) (lvl : Str), findLevel env.numbering f (some numId) lvl = .error .recursion := by
  simp only [c05_linksAcyclic, List.all_eq_false, Bool.or_eq_true] at hl
  obtain ⟨p, _, hp⟩ := hl
  cases hp1 : p.1 with
  | none => rw [hp1] at hp; exact absurd (Or.inl rfl) hp
  | some s =>
    refine ⟨s, fun f lvl => ?_⟩
    cases hr : findLevel env.numbering f (some s) lvl with
    | ok r =>
      have := c05_chainEnds_of_findLevel _ _ _ _ r hr
      rw [hp1] at hp
      exact absurd (Or.inr this) hp
    | error e => rw [c05_findLevel_err _ _ _ _ e hr]

end Mammoth
