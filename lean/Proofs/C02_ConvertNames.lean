/-
  C02 — the converter takes its tag names and attribute names from three places only: the style
  map's paths, the attribute names returned by the image converter, and a fixed set of literals
  (`p a table tr td … href id src alt …`).  So if the first two are plain names, every tag of the
  produced forest has a plain name and plain attribute names, and the lexer theorems apply to real
  conversions.
-/
import Proofs.C01_NoSep
import Proofs.C02_AllTags
namespace Mammoth

/-! ### the hypothesis on the configuration -/

/-- every tag of the path has a plain name and plain attribute names -/
def c02_plainPath : HtmlPath → Bool
  | .elements es => es.all c02_plainTag
  | .ignore => true

/-- every style mapping's path consists of plain tags -/
def c02_plainMap (cfg : Cfg) : Bool := cfg.styleMap.all fun s => c02_plainPath s.path

/-- all attribute names of the list are plain -/
def c02_plainKVs (kvs : List (Str × Str)) : Bool := kvs.all fun kv => c02_plainName kv.1

/-- the attribute names that the image converter returns are plain (`data_uri` returns `src` only) -/
def c02_plainConv : ImageConv → Bool
  | .dataUri => true
  | .fixed attrs _ => c02_plainKVs attrs

/-- the names that come from the options are plain: style-map paths and image-converter attributes -/
def c02_plainCfg (cfg : Cfg) : Bool := c02_plainMap cfg && c02_plainConv cfg.imageConv

/-! ### the literal names of conversion.py / images.py -/
@[simp] theorem c02_pn_p : c02_plainName S!"p" = true := by decide
@[simp] theorem c02_pn_s : c02_plainName S!"s" = true := by decide
@[simp] theorem c02_pn_sub : c02_plainName S!"sub" = true := by decide
@[simp] theorem c02_pn_sup : c02_plainName S!"sup" = true := by decide
@[simp] theorem c02_pn_em : c02_plainName S!"em" = true := by decide
@[simp] theorem c02_pn_strong : c02_plainName S!"strong" = true := by decide
@[simp] theorem c02_pn_a : c02_plainName S!"a" = true := by decide
@[simp] theorem c02_pn_input : c02_plainName S!"input" = true := by decide
@[simp] theorem c02_pn_table : c02_plainName S!"table" = true := by decide
@[simp] theorem c02_pn_thead : c02_plainName S!"thead" = true := by decide
@[simp] theorem c02_pn_tbody : c02_plainName S!"tbody" = true := by decide
@[simp] theorem c02_pn_tr : c02_plainName S!"tr" = true := by decide
@[simp] theorem c02_pn_th : c02_plainName S!"th" = true := by decide
@[simp] theorem c02_pn_td : c02_plainName S!"td" = true := by decide
@[simp] theorem c02_pn_br : c02_plainName S!"br" = true := by decide
@[simp] theorem c02_pn_img : c02_plainName S!"img" = true := by decide
@[simp] theorem c02_pn_li : c02_plainName S!"li" = true := by decide
@[simp] theorem c02_pn_ol : c02_plainName S!"ol" = true := by decide
@[simp] theorem c02_pn_dl : c02_plainName S!"dl" = true := by decide
@[simp] theorem c02_pn_dt : c02_plainName S!"dt" = true := by decide
@[simp] theorem c02_pn_dd : c02_plainName S!"dd" = true := by decide
@[simp] theorem c02_pn_href : c02_plainName S!"href" = true := by decide
@[simp] theorem c02_pn_target : c02_plainName S!"target" = true := by decide
@[simp] theorem c02_pn_type : c02_plainName S!"type" = true := by decide
@[simp] theorem c02_pn_checked : c02_plainName S!"checked" = true := by decide
@[simp] theorem c02_pn_colspan : c02_plainName S!"colspan" = true := by decide
@[simp] theorem c02_pn_rowspan : c02_plainName S!"rowspan" = true := by decide
@[simp] theorem c02_pn_alt : c02_plainName S!"alt" = true := by decide
@[simp] theorem c02_pn_src : c02_plainName S!"src" = true := by decide
@[simp] theorem c02_pn_data_len : c02_plainName S!"data-len" = true := by decide
@[simp] theorem c02_pn_id : c02_plainName S!"id" = true := by decide

/-! ### dictionaries -/

theorem c02_plainAttrs_insert (k v : Str) (d : Dict Str) (hk : c02_plainName k = true)
    (hd : c02_plainAttrs d = true) : c02_plainAttrs (Dict.insert k v d) = true := by
  induction d with
  | nil => simp [Dict.insert, c02_plainAttrs, hk]
  | cons kv r ih =>
    obtain ⟨k', v'⟩ := kv
    simp only [c02_plainAttrs, List.all_cons, Bool.and_eq_true] at hd
    unfold Dict.insert
    split
    · simp only [c02_plainAttrs, List.all_cons, Bool.and_eq_true]; exact ⟨hk, hd.2⟩
    · split
      · simp only [c02_plainAttrs, List.all_cons, Bool.and_eq_true]; exact ⟨hk, hd.1, hd.2⟩
      · simp only [c02_plainAttrs, List.all_cons, Bool.and_eq_true]; exact ⟨hd.1, ih hd.2⟩

theorem c02_plainAttrs_foldl (kvs : List (Str × Str)) (d : Dict Str) (hk : c02_plainKVs kvs = true)
    (hd : c02_plainAttrs d = true) :
    c02_plainAttrs (kvs.foldl (fun d kv => Dict.insert kv.1 kv.2 d) d) = true := by
  induction kvs generalizing d with
  | nil => exact hd
  | cons kv r ih =>
    simp only [c02_plainKVs, List.all_cons, Bool.and_eq_true] at hk
    exact ih _ hk.2 (c02_plainAttrs_insert _ _ _ hk.1 hd)

theorem c02_plainAttrs_ofList (kvs : List (Str × Str)) (hk : c02_plainKVs kvs = true) :
    c02_plainAttrs (Dict.ofList kvs) = true :=
  c02_plainAttrs_foldl kvs [] hk rfl

theorem c02_plainKVs_append (a b : List (Str × Str)) :
    c02_plainKVs (a ++ b) = (c02_plainKVs a && c02_plainKVs b) := by
  simp [c02_plainKVs, List.all_append]

/-! ### building blocks -/

theorem c02_plainNames_append (a b : List Node) :
    c02_plainNames (a ++ b) = (c02_plainNames a && c02_plainNames b) := by
  simp only [c02_plainNames_eq, c02_allTags_append]

theorem c02_PN_el (n : Str) (a : List (Str × Str)) (cs : List Node) (hn : c02_plainName n = true)
    (ha : c02_plainKVs a = true) (hc : c02_plainNames cs = true) : c02_plainNamesN (el n a cs) = true := by
  simp [el, c02_plainNamesN, hn, c02_plainAttrs_ofList a ha, hc]

theorem c02_PN_cel (n : Str) (a : List (Str × Str)) (cs : List Node) (hn : c02_plainName n = true)
    (ha : c02_plainKVs a = true) (hc : c02_plainNames cs = true) : c02_plainNamesN (cel n a cs) = true := by
  simp [cel, c02_plainNamesN, hn, c02_plainAttrs_ofList a ha, hc]

theorem c02_plainTag_pathElem (n : Str) (f : Bool) (hn : c02_plainName n = true) :
    c02_plainTag (pathElem n f) = true := by
  simp [c02_plainTag, pathElem, hn, c02_plainAttrs]

theorem c02_plainNames_wrapElems (es : List Tag) (ns : List Node)
    (he : c02_plainPath (.elements es) = true) (hn : c02_plainNames ns = true) :
    c02_plainNames (wrapElems es ns) = true := by
  induction es with
  | nil => simpa [wrapElems] using hn
  | cons t ts ih =>
    simp only [c02_plainPath, List.all_cons, Bool.and_eq_true] at he
    have h1 := he.1
    simp only [c02_plainTag, Bool.and_eq_true] at h1
    simp only [wrapElems, c02_plainNames, c02_plainNamesN, Bool.and_eq_true, and_true]
    exact ⟨⟨h1.1, h1.2⟩, ih (by simpa [c02_plainPath] using he.2)⟩

theorem c02_plainNames_wrapAll (paths : List HtmlPath) (ns : List Node)
    (hp : paths.all c02_plainPath = true) (hn : c02_plainNames ns = true) :
    c02_plainNames (wrapAll paths ns) = true := by
  induction paths generalizing ns with
  | nil => simpa [wrapAll] using hn
  | cons p ps ih =>
    simp only [List.all_cons, Bool.and_eq_true] at hp
    cases p with
    | ignore => exact ih [] hp.2 (by simp [c02_plainNames])
    | elements es => exact ih _ hp.2 (c02_plainNames_wrapElems es ns hp.1 hn)

/-! ### paths found in the style map -/

theorem c02_plain_findPath (cfg : Cfg) (hm : c02_plainMap cfg = true) (t : Target) (p : HtmlPath)
    (h : findPath cfg t = some p) : c02_plainPath p = true := by
  unfold findPath findStyle at h
  cases hf : cfg.styleMap.find? (fun s => matcherMatches cfg.upper s.matcher t) with
  | none => simp [hf] at h
  | some s =>
    simp only [hf, Option.map_some, Option.some.injEq] at h
    have hmem := List.mem_of_find?_eq_some hf
    have := List.all_eq_true.mp hm s hmem
    rw [← h]; exact this

theorem c02_plainPath_single (n : Str) (f : Bool) (hn : c02_plainName n = true) :
    c02_plainPath (.elements [pathElem n f]) = true := by
  simp [c02_plainPath, c02_plainTag_pathElem n f hn]

theorem c02_plain_propPath (cfg : Cfg) (hm : c02_plainMap cfg = true) (t : Target) (d : Option Str)
    (hd : ∀ n, d = some n → c02_plainName n = true) :
    c02_plainPath (propPath cfg t d) = true := by
  unfold propPath
  cases h : findPath cfg t with
  | some p => exact c02_plain_findPath cfg hm t p h
  | none =>
    cases d with
    | none => simp [c02_plainPath]
    | some n => exact c02_plainPath_single n false (hd n rfl)

theorem c02_plain_runPropPaths (cfg : Cfg) (hm : c02_plainMap cfg = true) (r : RunProps) :
    (runPropPaths cfg r).all c02_plainPath = true := by
  unfold runPropPaths
  simp only [List.all_append, Bool.and_eq_true]
  refine ⟨⟨⟨⟨⟨⟨⟨⟨?_, ?_⟩, ?_⟩, ?_⟩, ?_⟩, ?_⟩, ?_⟩, ?_⟩, ?_⟩
  · cases r.highlight with
    | none => simp
    | some c =>
      simp only []
      cases h : findPath cfg (.highlight c) with
      | none => simp
      | some p => simp [c02_plain_findPath cfg hm _ p h]
  all_goals
    split
    · first
      | (simp [c02_plain_propPath cfg hm]; done)
      | simp [c02_plainPath_single]
    · simp

/-! ### the visitor -/

/-- every tag name and attribute name of the forest is plain -/
abbrev c02_PN (ns : List Node) : Prop := c02_plainNames ns = true

theorem c02_plain_findPathWarn (cfg : Cfg) (hm : c02_plainMap cfg = true) (t : Target) (kind : Str)
    (sid sname : Option Str) (dflt : HtmlPath) (hd : c02_plainPath dflt = true) :
    c01_post (fun p => c02_plainPath p = true) (findPathWarn cfg t kind sid sname dflt) := by
  intro st p st' hr
  rw [c01_findPathWarn_run] at hr
  cases hr
  unfold c01_path
  cases h : findPath cfg t with
  | none => simpa using hd
  | some q => simpa using c02_plain_findPath cfg hm t q h

theorem c02_plain_convertImage (cfg : Cfg) (hc : c02_plainConv cfg.imageConv = true) (i : ImageProps) :
    c01_post c02_PN (convertImage cfg i) := by
  unfold convertImage
  refine c01_post_bind_any _ _ _ ?_; intro _
  extract_lets altAttr
  have halt : c02_plainKVs altAttr = true := by
    simp only [altAttr]
    split
    · split <;> simp [c02_plainKVs]
    · simp [c02_plainKVs]
  have hel : ∀ a, c02_plainKVs a = true → c02_PN [el S!"img" a []] := by
    intro a ha
    simp only [c02_PN, c02_plainNames, Bool.and_true]
    exact c02_PN_el _ _ _ c02_pn_img ha rfl
  split
  · refine c01_post_bind_any _ _ _ ?_; intro r
    split
    · exact c01_post_pure _ _ (hel _ (by rw [c02_plainKVs_append, halt]; simp [c02_plainKVs]))
    · refine c01_post_bind_any _ _ _ ?_; intro _
      exact c01_post_pure _ _ rfl
  · rename_i attrs opens hconv
    have hattrs : c02_plainKVs attrs = true := by simpa [hconv, c02_plainConv] using hc
    split
    · refine c01_post_bind_any _ _ _ ?_; intro r
      split
      · exact c01_post_pure _ _ (hel _ (by
          rw [c02_plainKVs_append, c02_plainKVs_append, halt, hattrs]; simp [c02_plainKVs]))
      · refine c01_post_bind_any _ _ _ ?_; intro _
        exact c01_post_pure _ _ rfl
    · exact c01_post_pure _ _ (hel _ (by rw [c02_plainKVs_append, halt, hattrs]; rfl))

mutual
theorem c02_plain_visit (cfg : Cfg) (hm : c02_plainMap cfg = true) (hc : c02_plainConv cfg.imageConv = true)
    (hdr : Bool) (e : Elem) : c01_post c02_PN (visit cfg hdr e) := by
  match e with
  | .paragraph p cs =>
    simp only [visit]
    refine c01_post_bind _ _ _ _ (c02_plain_findPathWarn cfg hm _ _ _ _ _ (c02_plainPath_single _ _ c02_pn_p)) ?_
    intro path hpath
    cases path with
    | ignore => exact c01_post_pure _ _ rfl
    | elements es =>
      refine c01_post_bind _ _ _ _ (c02_plain_visitAll cfg hm hc hdr cs) ?_
      intro content hcn
      refine c01_post_pure _ _ ?_
      apply c02_plainNames_wrapElems es _ hpath
      split
      · exact hcn
      · simpa [c02_plainNames, c02_plainNamesN] using hcn
  | .run r cs =>
    simp only [visit]
    refine c01_post_bind _ _ _ _ (c02_plain_findPathWarn cfg hm _ _ _ _ _ (by simp [c02_plainPath])) ?_
    intro sp hsp
    have hall : (runPropPaths cfg r ++ [sp]).all c02_plainPath = true := by
      simp [List.all_append, c02_plain_runPropPaths cfg hm r, hsp]
    split
    · exact c01_post_pure _ _ (c02_plainNames_wrapAll _ _ hall rfl)
    · refine c01_post_bind _ _ _ _ (c02_plain_visitAll cfg hm hc hdr cs) ?_
      intro ns hns
      exact c01_post_pure _ _ (c02_plainNames_wrapAll _ _ hall hns)
  | .text s => exact c01_post_pure _ _ rfl
  | .hyperlink h cs =>
    simp only [visit]
    refine c01_post_bind _ _ _ _ (c02_plain_visitAll cfg hm hc hdr cs) ?_
    intro ns hns
    refine c01_post_pure _ _ ?_
    have ha : c02_plainKVs ([(S!"href", match h.anchor with | none => pyOpt h.href | some a => ['#'] ++ htmlId cfg a)] ++
        (match h.targetFrame with | some t => [(S!"target", t)] | none => [])) = true := by
      cases h.targetFrame <;> simp [c02_plainKVs]
    simp only [c02_PN, c02_plainNames, Bool.and_true]
    exact c02_PN_cel _ _ _ c02_pn_a ha hns
  | .checkbox c =>
    simp only [visit]
    refine c01_post_pure _ _ ?_
    simp only [c02_PN, c02_plainNames, Bool.and_true]
    refine c02_PN_el _ _ _ c02_pn_input ?_ rfl
    cases c <;> simp [c02_plainKVs]
  | .table sid sname rows =>
    simp only [visit]
    have hpath : c02_plainPath ((findPath cfg (.table sid sname)).getD (.elements [pathElem S!"table" true])) = true := by
      cases h : findPath cfg (.table sid sname) with
      | none => simpa using c02_plainPath_single _ _ c02_pn_table
      | some q => simpa using c02_plain_findPath cfg hm _ q h
    revert hpath
    generalize (findPath cfg (.table sid sname)).getD (.elements [pathElem S!"table" true]) = path
    intro hpath
    cases path with
    | ignore => exact c01_post_pure _ _ rfl
    | elements es =>
      refine c01_post_bind _ _ _ _ (c02_plain_visitRows cfg hm hc true rows) ?_
      intro hb hhb
      refine c01_post_pure _ _ ?_
      apply c02_plainNames_wrapElems es _ hpath
      split
      · simpa [c02_plainNames, c02_plainNamesN] using hhb.2
      · simp [c02_plainNames, c02_plainNamesN, c02_PN_el _ [] _ c02_pn_thead rfl hhb.1,
          c02_PN_el _ [] _ c02_pn_tbody rfl hhb.2]
  | .row h cells =>
    simp only [visit]
    refine c01_post_bind _ _ _ _ (c02_plain_visitAll cfg hm hc hdr cells) ?_
    intro ns hns
    refine c01_post_pure _ _ ?_
    simp only [c02_PN, c02_plainNames, Bool.and_true]
    exact c02_PN_el _ _ _ c02_pn_tr rfl (by simpa [c02_plainNames, c02_plainNamesN] using hns)
  | .cell a b c cs =>
    simp only [visit]
    refine c01_post_bind _ _ _ _ (c02_plain_visitAll cfg hm hc hdr cs) ?_
    intro ns hns
    refine c01_post_pure _ _ ?_
    simp only [c02_PN, c02_plainNames, Bool.and_true]
    refine c02_PN_el _ _ _ ?_ ?_ (by simpa [c02_plainNames, c02_plainNamesN] using hns)
    · cases hdr <;> simp
    · unfold cellAttrs
      rw [c02_plainKVs_append]
      split <;> split <;> simp [c02_plainKVs]
  | .brk ty =>
    simp only [visit]
    cases h : findPath cfg (.brk ty) with
    | none =>
      simp only []
      split
      · refine c01_post_pure _ _ ?_
        have := c02_plainTag_pathElem S!"br" true c02_pn_br
        simp only [c02_plainTag, Bool.and_eq_true] at this
        simp [c02_PN, c02_plainNames, c02_plainNamesN, this.1, this.2]
      · exact c01_post_pure _ _ rfl
    | some p =>
      have := c02_plain_findPath cfg hm _ p h
      cases p with
      | ignore => exact c01_post_pure _ _ rfl
      | elements es => exact c01_post_pure _ _ (c02_plainNames_wrapElems es [] this rfl)
  | .tab => exact c01_post_pure _ _ rfl
  | .image i => simp only [visit]; exact c02_plain_convertImage cfg hc i
  | .bookmark n =>
    simp only [visit]
    refine c01_post_pure _ _ ?_
    simp only [c02_PN, c02_plainNames, Bool.and_true]
    exact c02_PN_cel _ _ _ c02_pn_a (by simp [c02_plainKVs]) (by simp [c02_plainNames, c02_plainNamesN])
  | .noteRef ty id =>
    simp only [visit]
    refine c01_post_bind_any _ _ _ ?_; intro _
    refine c01_post_bind_any _ _ _ ?_; intro _
    refine c01_post_pure _ _ ?_
    simp only [c02_PN, c02_plainNames, Bool.and_true]
    refine c02_PN_el _ _ _ c02_pn_sup rfl ?_
    simp only [c02_plainNames, Bool.and_true]
    exact c02_PN_el _ _ _ c02_pn_a (by simp [c02_plainKVs]) (by simp [c02_plainNames, c02_plainNamesN])
  | .commentRef id =>
    simp only [visit]
    cases h : findPath cfg .commentReference with
    | none => exact c01_post_pure _ _ rfl
    | some p =>
      have := c02_plain_findPath cfg hm _ p h
      cases p with
      | ignore => exact c01_post_pure _ _ rfl
      | elements es =>
        simp only []
        split
        · intro st a st' hr; simp at hr
        · refine c01_post_bind_any _ _ _ ?_; intro _
          refine c01_post_bind_any _ _ _ ?_; intro _
          refine c01_post_pure _ _ ?_
          apply c02_plainNames_wrapElems es _ this
          simp only [c02_plainNames, Bool.and_true]
          exact c02_PN_el _ _ _ c02_pn_a (by simp [c02_plainKVs]) (by simp [c02_plainNames, c02_plainNamesN])
theorem c02_plain_visitAll (cfg : Cfg) (hm : c02_plainMap cfg = true) (hc : c02_plainConv cfg.imageConv = true)
    (hdr : Bool) (es : List Elem) : c01_post c02_PN (visitAll cfg hdr es) := by
  match es with
  | [] => exact c01_post_pure _ _ rfl
  | e :: es =>
    simp only [visitAll]
    refine c01_post_bind _ _ _ _ (c02_plain_visit cfg hm hc hdr e) ?_
    intro a ha
    refine c01_post_bind _ _ _ _ (c02_plain_visitAll cfg hm hc hdr es) ?_
    intro b hb
    refine c01_post_pure _ _ ?_
    simp [c02_PN, c02_plainNames_append, ha, hb]
theorem c02_plain_visitRows (cfg : Cfg) (hm : c02_plainMap cfg = true) (hc : c02_plainConv cfg.imageConv = true)
    (inHead : Bool) (rs : List Elem) :
    c01_post (fun p => c02_PN p.1 ∧ c02_PN p.2) (visitRows cfg inHead rs) := by
  match rs with
  | [] => exact c01_post_pure _ _ ⟨rfl, rfl⟩
  | r :: rs =>
    simp only [visitRows]
    split
    · refine c01_post_bind _ _ _ _ (c02_plain_visit cfg hm hc true r) ?_
      intro a ha
      refine c01_post_bind _ _ _ _ (c02_plain_visitRows cfg hm hc true rs) ?_
      intro hb hhb
      refine c01_post_pure _ _ ?_
      exact ⟨by simp [c02_PN, c02_plainNames_append, ha, hhb.1], hhb.2⟩
    · refine c01_post_bind _ _ _ _ (c02_plain_visit cfg hm hc false r) ?_
      intro a ha
      refine c01_post_bind _ _ _ _ (c02_plain_visitRows cfg hm hc false rs) ?_
      intro hb hhb
      refine c01_post_pure _ _ ?_
      exact ⟨hhb.1, by simp [c02_PN, c02_plainNames_append, ha, hhb.2]⟩
end

/-! ### notes, comments, the document -/

theorem c02_plain_backLink (href : Str) : c02_plainNamesN (backLink href) = true := by
  unfold backLink
  refine c02_PN_cel _ _ _ c02_pn_p rfl ?_
  simp only [c02_plainNames, c02_plainNamesN, Bool.true_and, Bool.and_true]
  exact c02_PN_el _ _ _ c02_pn_a (by simp [c02_plainKVs]) (by simp [c02_plainNames, c02_plainNamesN])

theorem c02_plain_mapMConcat {α} (f : α → ConvM (List Node)) (hf : ∀ x, c01_post c02_PN (f x))
    (xs : List α) : c01_post c02_PN (mapMConcat f xs) := by
  induction xs with
  | nil => exact c01_post_pure _ _ rfl
  | cons x xs ih =>
    simp only [mapMConcat]
    refine c01_post_bind _ _ _ _ (hf x) ?_
    intro a ha
    refine c01_post_bind _ _ _ _ ih ?_
    intro b hb
    refine c01_post_pure _ _ ?_
    simp [c02_PN, c02_plainNames_append, ha, hb]

theorem c02_plain_visitNote (cfg : Cfg) (hm : c02_plainMap cfg = true) (hc : c02_plainConv cfg.imageConv = true)
    (n : Note) : c01_post c02_PN (visitNote cfg n) := by
  unfold visitNote
  refine c01_post_bind _ _ _ _ (c02_plain_visitAll cfg hm hc false n.body) ?_
  intro b hb
  refine c01_post_pure _ _ ?_
  simp only [c02_PN, c02_plainNames, Bool.and_true]
  refine c02_PN_el _ _ _ c02_pn_li (by simp [c02_plainKVs]) ?_
  simp [c02_plainNames_append, hb, c02_plainNames, c02_plain_backLink]

theorem c02_plain_visitComment (cfg : Cfg) (hm : c02_plainMap cfg = true)
    (hc : c02_plainConv cfg.imageConv = true) (lc : Str × Comment) :
    c01_post c02_PN (visitComment cfg lc) := by
  unfold visitComment
  refine c01_post_bind _ _ _ _ (c02_plain_visitAll cfg hm hc false lc.2.body) ?_
  intro b hb
  refine c01_post_pure _ _ ?_
  simp only [c02_PN, c02_plainNames, Bool.and_true, Bool.and_eq_true]
  refine ⟨c02_PN_el _ _ _ c02_pn_dt (by simp [c02_plainKVs]) (by simp [c02_plainNames, c02_plainNamesN]),
    c02_PN_el _ _ _ c02_pn_dd rfl ?_⟩
  simp [c02_plainNames_append, hb, c02_plainNames, c02_plain_backLink]

theorem c02_plain_visitDocument (cfg : Cfg) (hm : c02_plainMap cfg = true)
    (hc : c02_plainConv cfg.imageConv = true) (d : Document) :
    c01_post c02_PN (visitDocument cfg d) := by
  unfold visitDocument
  refine c01_post_bind _ _ _ _ (c02_plain_visitAll cfg hm hc false d.children) ?_
  intro nodes hnodes
  refine c01_post_bind_any _ _ _ ?_; intro st1
  simp only []
  have key : ∀ notes, c01_post c02_PN (do
      let noteNodes ← mapMConcat (visitNote cfg) notes
      let __do_lift ← get
      let commentNodes ← mapMConcat (visitComment cfg) __do_lift.refComments
      pure (nodes ++ [el S!"ol" [] noteNodes, el S!"dl" [] commentNodes])) := by
    intro notes
    refine c01_post_bind _ _ _ _ (c02_plain_mapMConcat _ (c02_plain_visitNote cfg hm hc) notes) ?_
    intro nn hnn
    refine c01_post_bind_any _ _ _ ?_; intro st2
    refine c01_post_bind _ _ _ _ (c02_plain_mapMConcat _ (c02_plain_visitComment cfg hm hc) _) ?_
    intro cn hcn
    refine c01_post_pure _ _ ?_
    simp [c02_PN, c02_plainNames_append, hnodes, c02_plainNames,
      c02_PN_el _ [] _ c02_pn_ol rfl hnn, c02_PN_el _ [] _ c02_pn_dl rfl hcn]
  split
  · refine c01_post_bind_any _ _ _ ?_; intro notes
    exact key notes
  · intro st a st' hr
    rw [c01_bind_run, c01_throw_run] at hr
    simp at hr

/-- whatever `convert_document_element_to_html` produces for a document has plain names only, when
    the names supplied by the options are plain -/
theorem c02_plain_convertDoc (cfg : Cfg) (h : c02_plainCfg cfg = true) (d : Document) (r : ConvResult)
    (hr : convertDoc cfg d = .ok r) : c02_plainNames r.nodes = true := by
  simp only [c02_plainCfg, Bool.and_eq_true] at h
  unfold convertDoc at hr
  split at hr
  · rename_i nodes st hrun
    cases hr
    exact c02_plain_visitDocument { cfg with comments := d.comments } h.1 h.2 d _ _ _ hrun
  · cases hr

end Mammoth
