/-
  C08 — blocks: the innermost (fresh) element of a wrapped path is never merged away.
-/
import Proofs.Stable
import Proofs.Strip
import MammothModel.Doc
namespace Mammoth

/-- the single node that `wrapElems (t :: ts) inner` consists of -/
def c08_chain (t : Tag) (ts : List Tag) (inner : List Node) : Node := .elem t (wrapElems ts inner)

theorem c08_wrapElems_cons (t : Tag) (ts : List Tag) (inner : List Node) :
    wrapElems (t :: ts) inner = [c08_chain t ts inner] := rfl

theorem c08_chain_cons (t t' : Tag) (ts : List Tag) (inner : List Node) :
    c08_chain t (t' :: ts) inner = .elem t [c08_chain t' ts inner] := rfl

theorem c08_addC_nil (n : Node) : addC [] n = [n] := by
  cases n <;> simp [addC]

theorem c08_collapseFrom_single (n : Node) : collapseFrom [] [n] = [collapseNode n] := by
  simp [collapseFrom, c08_addC_nil]

/-- collapsing a chain only collapses its contents -/
theorem c08_collapseNode_chain (t : Tag) (ts : List Tag) (inner : List Node) :
    collapseNode (c08_chain t ts inner) = c08_chain t ts (collapse inner) := by
  induction ts generalizing t with
  | nil => simp [c08_chain, wrapElems, collapseNode, collapse]
  | cons t' ts ih =>
    rw [c08_chain_cons, c08_chain_cons, ← ih t']
    simp [collapseNode, c08_collapseFrom_single]

/-- follow the last child `k` times, then read the last element -/
def c08_descend : Nat → List Node → Option (Tag × List Node)
  | 0, ns => match ns.getLast? with
    | some (.elem t cs) => some (t, cs)
    | _ => none
  | k+1, ns => match ns.getLast? with
    | some (.elem _ cs) => c08_descend k cs
    | _ => none

theorem c08_descend_snoc_zero (xs : List Node) (t : Tag) (cs : List Node) :
    c08_descend 0 (xs ++ [.elem t cs]) = some (t, cs) := by
  simp [c08_descend]

theorem c08_descend_snoc_succ (k : Nat) (xs : List Node) (t : Tag) (cs : List Node) :
    c08_descend (k+1) (xs ++ [.elem t cs]) = c08_descend k cs := by
  simp [c08_descend]

/-- the last tag of a non-empty path -/
def c08_lastTag : Tag → List Tag → Tag
  | t, [] => t
  | _, t' :: ts => c08_lastTag t' ts

theorem c08_lastTag_eq (t : Tag) (ts : List Tag) : some (c08_lastTag t ts) = (t :: ts).getLast? := by
  induction ts generalizing t with
  | nil => simp [c08_lastTag]
  | cons t' ts ih => rw [c08_lastTag, ih t', List.getLast?_cons_cons]

/-- adding a chain whose innermost tag is fresh: `ts.length` levels down the last-child spine of
    the result sits exactly the new innermost element with exactly the given children -/
theorem c08_addC_chain_spine (t : Tag) (ts : List Tag) (inner acc : List Node)
    (hf : (c08_lastTag t ts).collapsible = false) :
    c08_descend ts.length (addC acc (c08_chain t ts inner)) = some (c08_lastTag t ts, inner) := by
  induction ts generalizing t acc with
  | nil =>
    simp only [c08_lastTag] at hf
    have : addC acc (c08_chain t [] inner) = acc ++ [.elem t inner] := by
      simp [c08_chain, wrapElems, addC, hf]
      split <;> rfl
    rw [this]
    exact c08_descend_snoc_zero _ _ _
  | cons t' ts ih =>
    simp only [c08_lastTag] at hf ⊢
    rw [c08_chain_cons]
    simp only [List.length_cons]
    unfold addC
    split
    · split
      · rw [c08_descend_snoc_succ]
        simp only [addAllC_cons, addAllC_nil]
        exact ih t' _ hf
      · rw [c08_descend_snoc_succ, ← c08_addC_nil (c08_chain t' ts inner)]
        exact ih t' _ hf
    · rw [c08_descend_snoc_succ, ← c08_addC_nil (c08_chain t' ts inner)]
      exact ih t' _ hf

/-! ### the fresh elements of a forest, in document (pre-)order -/
mutual
def c08_freshTags : Node → List Tag
  | .elem t cs => (if t.collapsible then [] else [t]) ++ c08_freshTagsL cs
  | _ => []
def c08_freshTagsL : List Node → List Tag
  | [] => []
  | c :: cs => c08_freshTags c ++ c08_freshTagsL cs
end

@[simp] theorem c08_freshTagsL_nil : c08_freshTagsL [] = [] := by simp [c08_freshTagsL]
@[simp] theorem c08_freshTagsL_cons (c : Node) (cs : List Node) :
    c08_freshTagsL (c :: cs) = c08_freshTags c ++ c08_freshTagsL cs := by simp [c08_freshTagsL]
@[simp] theorem c08_freshTags_text (s : Str) : c08_freshTags (.text s) = [] := by simp [c08_freshTags]
@[simp] theorem c08_freshTags_fw : c08_freshTags .forceWrite = [] := by simp [c08_freshTags]
@[simp] theorem c08_freshTags_elem (t : Tag) (cs : List Node) :
    c08_freshTags (.elem t cs) = (if t.collapsible then [] else [t]) ++ c08_freshTagsL cs := by
  simp [c08_freshTags]

@[simp] theorem c08_freshTagsL_append (a b : List Node) :
    c08_freshTagsL (a ++ b) = c08_freshTagsL a ++ c08_freshTagsL b := by
  induction a with
  | nil => simp
  | cons x xs ih => simp [ih]

theorem c08_freshTagsL_sepText (t : Tag) : c08_freshTagsL (sepText t) = [] := by
  unfold sepText
  split
  · split <;> simp
  · simp

mutual
theorem c08_freshTags_addC (acc : List Node) (n : Node) :
    c08_freshTagsL (addC acc n) = c08_freshTagsL acc ++ c08_freshTags n := by
  match n with
  | .text s => simp [addC_text]
  | .forceWrite => simp [addC_fw]
  | .elem t cs =>
    unfold addC
    split
    · rename_i lt lcs hl
      split
      · rename_i hc
        have hcoll : t.collapsible = true := by
          simp only [Bool.and_eq_true] at hc; exact hc.1
        have hacc := getLast?_eq_some_append acc _ hl
        have ih := c08_freshTags_addAllC (lcs ++ sepText t) cs
        conv => rhs; rw [hacc]
        simp [ih, c08_freshTagsL_sepText, hcoll, List.append_assoc]
      · simp
    · simp
theorem c08_freshTags_addAllC (acc ns : List Node) :
    c08_freshTagsL (addAllC acc ns) = c08_freshTagsL acc ++ c08_freshTagsL ns := by
  match ns with
  | [] => simp
  | c :: cs =>
    simp only [addAllC_cons]
    rw [c08_freshTags_addAllC (addC acc c) cs, c08_freshTags_addC acc c]
    simp [List.append_assoc]
end

mutual
theorem c08_freshTags_collapseNode (n : Node) : c08_freshTags (collapseNode n) = c08_freshTags n := by
  match n with
  | .text s => simp [collapseNode]
  | .forceWrite => simp [collapseNode]
  | .elem t cs =>
    simp only [collapseNode, c08_freshTags_elem]
    rw [c08_freshTags_collapseFrom [] cs]
    simp
theorem c08_freshTags_collapseFrom (acc ns : List Node) :
    c08_freshTagsL (collapseFrom acc ns) = c08_freshTagsL acc ++ c08_freshTagsL ns := by
  match ns with
  | [] => simp [collapseFrom]
  | c :: cs =>
    unfold collapseFrom
    rw [c08_freshTags_collapseFrom _ cs, c08_freshTags_addC, c08_freshTags_collapseNode c]
    simp [List.append_assoc]
end

/-- merging never removes, duplicates or reorders a fresh element -/
theorem c08_freshTags_collapse (ns : List Node) : c08_freshTagsL (collapse ns) = c08_freshTagsL ns := by
  simpa [collapse] using c08_freshTags_collapseFrom [] ns

theorem c08_freshTagsL_wrapElems (es : List Tag) (inner : List Node) :
    c08_freshTagsL (wrapElems es inner) = es.filter (fun t => !t.collapsible) ++ c08_freshTagsL inner := by
  induction es with
  | nil => simp [wrapElems]
  | cons t ts ih =>
    simp only [wrapElems, c08_freshTagsL_cons, c08_freshTags_elem, c08_freshTagsL_nil, List.append_nil, ih,
      List.filter_cons]
    cases t.collapsible <;> simp

/-! ### strip_empty on a wrapped path -/

theorem c08_stripList_append (a b : List Node) : stripList (a ++ b) = stripList a ++ stripList b := by
  induction a with
  | nil => simp [stripList]
  | cons x xs ih => simp [stripList, ih, List.append_assoc]

/-- no tag of the path has a void name (`br`, `hr`, `img`, `input`) -/
def c08_noVoid (es : List Tag) : Bool := es.all fun t => !voidNames.contains t.name

theorem c08_stripList_wrapElems (es : List Tag) (inner : List Node) (hv : c08_noVoid es = true) :
    stripList (wrapElems es inner) =
      if (stripList inner).isEmpty then [] else wrapElems es (stripList inner) := by
  induction es with
  | nil =>
    simp only [wrapElems]
    split
    · rename_i h; exact List.isEmpty_iff.mp h
    · rfl
  | cons t ts ih =>
    have hv' : voidNames.contains t.name = false ∧ c08_noVoid ts = true := by
      simpa [c08_noVoid] using hv
    have hnv : isVoid t (wrapElems ts inner) = false := by
      simp only [isVoid, hv'.1, Bool.and_false]
    simp only [wrapElems, stripList, stripNode, List.append_nil, ih hv'.2, hnv]
    by_cases he : (stripList inner).isEmpty = true
    · simp [he]
    · have hne : stripList inner ≠ [] := fun h => he (by simp [h])
      simp only [he]
      cases ts with
      | nil => simp [wrapElems, hne]
      | cons t' ts' => simp [wrapElems]

/-! ### a whole document: one wrapped path per paragraph -/

/-- the nodes the converter produces for a sequence of paragraphs: path `p.1` around content `p.2` -/
def c08_docNodes (paras : List (List Tag × List Node)) : List Node :=
  paras.flatMap fun p => wrapElems p.1 p.2

/-- the paragraphs that survive `strip_empty`, with their stripped contents -/
def c08_nonEmptyParas (paras : List (List Tag × List Node)) : List (List Tag × List Node) :=
  (paras.filter fun p => !(stripList p.2).isEmpty).map fun p => (p.1, stripList p.2)

theorem c08_stripList_docNodes (paras : List (List Tag × List Node))
    (hv : ∀ p ∈ paras, c08_noVoid p.1 = true) :
    stripList (c08_docNodes paras) = c08_docNodes (c08_nonEmptyParas paras) := by
  induction paras with
  | nil => simp [c08_docNodes, c08_nonEmptyParas, stripList]
  | cons p ps ih =>
    have hp := hv p (by simp)
    have ih' := ih (fun q hq => hv q (by simp [hq]))
    simp only [c08_docNodes, c08_nonEmptyParas, List.flatMap_cons] at ih' ⊢
    rw [c08_stripList_append, ih', c08_stripList_wrapElems _ _ hp]
    by_cases he : (stripList p.2).isEmpty = true
    · simp [he]
    · simp [he]

theorem c08_freshTagsL_docNodes (paras : List (List Tag × List Node)) :
    c08_freshTagsL (c08_docNodes paras) =
      paras.flatMap fun p => p.1.filter (fun t => !t.collapsible) ++ c08_freshTagsL p.2 := by
  induction paras with
  | nil => simp [c08_docNodes]
  | cons p ps ih =>
    simp only [c08_docNodes, List.flatMap_cons] at ih ⊢
    rw [c08_freshTagsL_append, ih, c08_freshTagsL_wrapElems]

/-- the path has exactly one fresh tag, its last one (true of every default paragraph path) -/
def c08_oneBlock (es : List Tag) : Bool :=
  match es.getLast? with
  | some t => !t.collapsible && es.dropLast.all (fun t => t.collapsible)
  | none => false

theorem c08_oneBlock_filter (es : List Tag) (h : c08_oneBlock es = true) :
    ∃ t, es.getLast? = some t ∧ es.filter (fun t => !t.collapsible) = [t] := by
  unfold c08_oneBlock at h
  cases hl : es.getLast? with
  | none => simp [hl] at h
  | some t =>
    simp only [hl, Bool.and_eq_true, Bool.not_eq_true', List.all_eq_true] at h
    refine ⟨t, rfl, ?_⟩
    have hes := getLast?_eq_some_append es t hl
    rw [hes, List.filter_append]
    have : es.dropLast.filter (fun t => !t.collapsible) = [] := by
      rw [List.filter_eq_nil_iff]
      intro a ha
      simp [h.2 a ha]
    simp [this, h.1]

end Mammoth
