/-
  C09 — `rebuildRows` after the sweep, on a valid abstract grid: the specification of `calculateRowSpans`.
-/
import Proofs.C09_SweepRows
namespace Mammoth

theorem c09_rebuildCells_cons (sw : Sweep) (r : Nat) (c : c09_Cell) (cs : c09_Row) (pos : Nat) :
    rebuildCells sw r ((c :: cs).map c09_toCell) pos =
      if sw.drops.contains (r, pos) then rebuildCells sw r (cs.map c09_toCell) (pos + 1)
      else .cell c.span (1 + c09_cnt (r, pos) sw.incs) false c.content
            :: rebuildCells sw r (cs.map c09_toCell) (pos + 1) := rfl

theorem c09_rebuildRows_cons (sw : Sweep) (hdr : Nat → Bool) (r : Nat) (row : c09_Row) (rest : List c09_Row) :
    rebuildRows sw (c09_toElemsFrom hdr r (row :: rest)) r =
      .row (hdr r) (rebuildCells sw r (row.map c09_toCell) 0)
        :: rebuildRows sw (c09_toElemsFrom hdr (r + 1) rest) (r + 1) := rfl

theorem c09_not_before_self (r pos : Nat) : ¬ c09_before (r, pos) r pos := by
  simp [c09_before]

/-- one row (suffix): with the final sweep state, `rebuildCells` produces the expected cells -/
theorem c09_rebuild_row (hdr : Nat → Bool) (r : Nat) (prev prev' : c09_Row) (rest : List c09_Row)
    (hvr : c09_validFrom prev' rest = true) (cells : c09_Row) :
    ∀ (pos ci : Nat) (sw : Sweep), c09_Fresh sw r pos → c09_rowOkFrom prev cells ci = true →
      (∀ s c, c09_findStart cells ci s = some c → c.isCont = true → (c09_own sw s).isSome = true) →
      rebuildCells (sweepRows (c09_toElemsFrom hdr (r + 1) rest) (r + 1) (c09_sweepRow r cells pos ci sw)) r
          (cells.map c09_toCell) pos
        = c09_expectedCells rest cells ci := by
  induction cells with
  | nil => intro pos ci sw _ _ _; rfl
  | cons c cs ih =>
    intro pos ci sw hf hok hP
    obtain ⟨hspan, hok'⟩ := c09_rowOk_span prev c cs ci hok
    rw [c09_sweepRow_cons, c09_rebuildCells_cons]
    -- the hypotheses for the rest of the row
    have hP' : ∀ s c', c09_findStart cs (ci + c.span) s = some c' → c'.isCont = true →
        (c09_own (c09_step r pos ci c.isCont sw) s).isSome = true := by
      intro s c' hfs hc'
      have hne : ci ≠ s := by
        intro h; subst h
        rw [c09_findStart_lt cs (ci + c.span) ci (by omega)] at hfs; simp at hfs
      apply c09_own_step_some
      exact hP s c' (by rw [c09_findStart_cons_ne c cs hne]; exact hfs) hc'
    have ihr := ih (pos + 1) (ci + c.span) (c09_step r pos ci c.isCont sw) (hf.step ci c.isCont) hok' hP'
    generalize hfin : sweepRows (c09_toElemsFrom hdr (r + 1) rest) (r + 1)
      (c09_sweepRow r cs (pos + 1) (ci + c.span) (c09_step r pos ci c.isCont sw)) = final at ihr ⊢
    have hdrop_mono : ∀ v, v ∈ (c09_step r pos ci c.isCont sw).drops → v ∈ final.drops := by
      intro v hv; rw [← hfin]
      exact (c09_sweepRows_drops hdr rest (r + 1) _ v).1 ((c09_sweepRow_drops r cs _ _ _ v).1 hv)
    have hdrop_inv : ∀ v, v ∈ final.drops → v ∈ (c09_step r pos ci c.isCont sw).drops ∨
        (v.1 = r ∧ pos + 1 ≤ v.2) ∨ r + 1 ≤ v.1 := by
      intro v hv; rw [← hfin] at hv
      rcases (c09_sweepRows_drops hdr rest (r + 1) _ v).2 hv with h | h
      · rcases (c09_sweepRow_drops r cs _ _ _ v).2 h with h | h
        · exact Or.inl h
        · exact Or.inr (Or.inl h)
      · exact Or.inr (Or.inr h)
    by_cases hc : c.isCont = true
    · -- a continuation: it finds the open cell of its column and is dropped
      have hhit : c09_hits ci c.isCont sw = true := by
        simp only [c09_hits, hc, Bool.true_and]
        exact hP ci c (c09_findStart_cons_eq c cs ci) hc
      have hmem : (r, pos) ∈ final.drops :=
        hdrop_mono _ ((c09_drops_step ..).mpr (Or.inr ⟨rfl, hhit⟩))
      have : final.drops.contains (r, pos) = true := by simpa using hmem
      rw [if_pos this, ihr]
      simp [c09_expectedCells, hc]
    · -- a kept cell
      have hc' : c.isCont = false := by simpa using hc
      have hmiss : c09_hits ci c.isCont sw = false := by simp [c09_hits, hc']
      have hnot : ¬ (r, pos) ∈ final.drops := by
        intro hm
        rcases hdrop_inv _ hm with h | h | h
        · rcases (c09_drops_step ..).mp h with h | h
          · exact c09_not_before_self r pos (hf.drops _ h)
          · rw [hmiss] at h; simp at h
        · have h2 := h.2; dsimp only at h2; omega
        · dsimp only at h; omega
      have hcont : final.drops.contains (r, pos) = false := by simpa using hnot
      rw [hcont]
      simp only [Bool.false_eq_true, if_false, c09_expectedCells, hc]
      -- the increments of this cell
      have hown1 : c09_own (c09_step r pos ci c.isCont sw) ci = some (r, pos) := by
        rw [c09_own_step]; simp [hmiss]
      have honly1 : c09_onlyAt (c09_step r pos ci c.isCont sw) (r, pos) ci := by
        intro c0 h0
        rw [c09_own_step] at h0
        simp only [hmiss, Bool.false_eq_true, if_false] at h0
        by_cases hcc : c0 = ci
        · exact hcc
        · rw [if_neg hcc] at h0
          exact absurd (hf.own h0) (c09_not_before_self r pos)
      have hcnt1 : c09_cnt (r, pos) (c09_step r pos ci c.isCont sw).incs = 0 := by
        rw [c09_cnt_step]
        simp only [hc', Bool.false_eq_true, false_and, if_false, Nat.add_zero]
        exact c09_cnt_of_not_mem _ _ (fun h => c09_not_before_self r pos (hf.incs _ h))
      obtain ⟨g1, g2, g3⟩ := c09_sweepRow_past r cs (pos + 1) (ci + c.span) _ (r, pos) ci (by omega)
        (by simp [c09_before]) honly1
      have hfinal := c09_sweepRows_cnt hdr rest prev' (r + 1) _ (r, pos) ci hvr (by simp) g3
      rw [hfin, g2, hcnt1, g1, hown1] at hfinal
      simp only [if_true, Nat.zero_add] at hfinal
      rw [hfinal, ihr]

/-- all rows: with the final sweep state, `rebuildRows` produces the expected rows -/
theorem c09_rebuild_rows (hdr : Nat → Bool) (rest : List c09_Row) :
    ∀ (prev : c09_Row) (r : Nat) (sw : Sweep), c09_Fresh sw r 0 → c09_validFrom prev rest = true →
      (∀ s, (c09_findStart prev 0 s).isSome = true → (c09_own sw s).isSome = true) →
      rebuildRows (sweepRows (c09_toElemsFrom hdr r rest) r sw) (c09_toElemsFrom hdr r rest) r
        = c09_expectedFrom hdr r rest := by
  induction rest with
  | nil => intro prev r sw _ _ _; rfl
  | cons row rest ih =>
    intro prev r sw hf hv hown
    simp only [c09_validFrom, Bool.and_eq_true] at hv
    rw [c09_rebuildRows_cons, c09_sweepRows_cons]
    have hP : ∀ s c, c09_findStart row 0 s = some c → c.isCont = true → (c09_own sw s).isSome = true := by
      intro s c hfs hc
      obtain ⟨p, hp, _⟩ := c09_rowOk_above prev row 0 s c hv.1 hfs hc
      exact hown s (by simp [hp])
    rw [c09_rebuild_row hdr r prev row rest hv.2 row 0 0 sw hf hv.1 hP]
    rw [ih row (r + 1) (c09_sweepRow r row 0 0 sw) (c09_sweepRow_fresh r row 0 0 sw hf) hv.2
      (fun s hs => c09_sweepRow_owns r row 0 0 sw s hs)]
    rfl

theorem c09_toElems_isRow (hdr : Nat → Bool) (rows : List c09_Row) (r : Nat) :
    (c09_toElemsFrom hdr r rows).all isRow = true := by
  induction rows generalizing r with
  | nil => rfl
  | cons row rest ih => simp [c09_toElemsFrom, isRow, ih]

theorem c09_toElems_isCell (hdr : Nat → Bool) (rows : List c09_Row) (r : Nat) :
    (c09_toElemsFrom hdr r rows).all (fun e => (rowCells e).all isCell) = true := by
  induction rows generalizing r with
  | nil => rfl
  | cons row rest ih =>
    have h1 : (row.map c09_toCell).all isCell = true := by
      rw [List.all_eq_true]; intro e he
      obtain ⟨c, _, rfl⟩ := List.mem_map.mp he; rfl
    show ((row.map c09_toCell).all isCell && _) = true
    rw [h1, ih]; rfl

theorem c09_calculate_eq_rebuild (hdr : Nat → Bool) (rows : List c09_Row) :
    calculateRowSpans (c09_toElems hdr rows)
      = (rebuildRows (sweepRows (c09_toElems hdr rows) 0 {}) (c09_toElems hdr rows) 0, []) := by
  simp [calculateRowSpans, c09_toElems, c09_toElems_isRow, c09_toElems_isCell]

theorem c09_fresh_init : c09_Fresh {} 0 0 :=
  ⟨fun _ _ h => by simp at h, fun _ h => by simp at h, fun _ h => by simp at h⟩

theorem c09_rowspans_spec_from (hdr : Nat → Bool) (rows : List c09_Row) (hv : c09_validFrom [] rows = true) :
    calculateRowSpans (c09_toElems hdr rows) = (c09_expected hdr rows, []) := by
  rw [c09_calculate_eq_rebuild]
  unfold c09_toElems c09_expected
  rw [c09_rebuild_rows hdr rows [] 0 {} c09_fresh_init hv (fun s h => by simp [c09_findStart] at h)]

end Mammoth
