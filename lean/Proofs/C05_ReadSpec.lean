/-
  C05 — on statically well-formed input the element reader fails only by running out of fuel or by
  popping an empty complex-field stack.
-/
import Proofs.C05_Static
namespace Mammoth

def c05_handlerNames : List Str :=
  [S!"text", S!"run", S!"paragraph", S!"read_fld_char", S!"read_instr_text", S!"tab", S!"no_break_hyphen",
   S!"soft_hyphen", S!"symbol", S!"table", S!"table_row", S!"table_cell", S!"read_child_elements", S!"pict",
   S!"hyperlink", S!"bookmark_start", S!"break_", S!"inline", S!"read_imagedata", S!"note_reference:footnote",
   S!"note_reference:endnote", S!"read_comment_reference", S!"alternate_content", S!"read_sdt"]

theorem c05_handlers_values : (Generated.handlers.map (·.2)).all (fun h => c05_handlerNames.contains h) = true := by
  decide

theorem c05_handler_mem (name h : Str) (hh : handlerOf name = some h) : h ∈ c05_handlerNames := by
  unfold handlerOf at hh
  have hm := c05_lookupLast_mem _ _ _ hh
  have := c05_handlers_values
  rw [List.all_eq_true] at this
  have := this h (List.mem_map.mpr ⟨_, hm, rfl⟩)
  simpa using this

abbrev c05_Q (env : REnv) : ReadResult × RState → Prop := fun p => c05_staticL env p.2.deleted = true

theorem c05_elemOk_symbol (env : REnv) (name h : Str) (as : Attrs) (cs : List XmlNode)
    (hh : handlerOf name = some h) (hc : (h == S!"symbol") = true) (hel : c05_elemOk env name as cs = true) :
    (match attr? S!"w:char" as with | none => true | some ch => c05_isHex ch) = true := by
  have := eq_of_beq hc; subst this
  unfold c05_elemOk at hel; rw [hh] at hel
  exact hel

theorem c05_elemOk_cell (env : REnv) (name h : Str) (as : Attrs) (cs : List XmlNode)
    (hh : handlerOf name = some h) (hc : (h == S!"table_cell") = true) (hel : c05_elemOk env name as cs = true) :
    (match childAttr S!"w:gridSpan" S!"w:val" (findChildOrNull S!"w:tcPr" cs).2 with
       | none => true | some g => c05_isDec g) = true := by
  have := eq_of_beq hc; subst this
  unfold c05_elemOk at hel; rw [hh] at hel
  exact hel

theorem c05_elemOk_hyperlink (env : REnv) (name h : Str) (as : Attrs) (cs : List XmlNode)
    (hh : handlerOf name = some h) (hc : (h == S!"hyperlink") = true) (hel : c05_elemOk env name as cs = true) :
    (match attr? S!"r:id" as with | none => true | some rid => c05_relOk env rid) = true := by
  have := eq_of_beq hc; subst this
  unfold c05_elemOk at hel; rw [hh] at hel
  exact hel

theorem c05_elemOk_inline (env : REnv) (name h : Str) (as : Attrs) (cs : List XmlNode)
    (hh : handlerOf name = some h) (hc : (h == S!"inline") = true) (hel : c05_elemOk env name as cs = true) :
    ((c05_blips cs).all fun b => c05_blipOk env b.1) = true := by
  have := eq_of_beq hc; subst this
  unfold c05_elemOk at hel; rw [hh] at hel
  exact hel

theorem c05_elemOk_imagedata (env : REnv) (name h : Str) (as : Attrs) (cs : List XmlNode)
    (hh : handlerOf name = some h) (hc : (h == S!"read_imagedata") = true) (hel : c05_elemOk env name as cs = true) :
    (match attr? S!"r:id" as with | none => true | some rid => c05_relOk env rid) = true := by
  have := eq_of_beq hc; subst this
  unfold c05_elemOk at hel; rw [hh] at hel
  exact hel

theorem c05_elemOk_noteRef (env : REnv) (name h : Str) (as : Attrs) (cs : List XmlNode)
    (hh : handlerOf name = some h)
    (hc : (h == S!"note_reference:footnote" || h == S!"note_reference:endnote") = true)
    (hel : c05_elemOk env name as cs = true) : (attr? S!"w:id" as).isSome = true := by
  rw [Bool.or_eq_true] at hc
  rcases hc with hc | hc <;> (have := eq_of_beq hc; subst this; unfold c05_elemOk at hel; rw [hh] at hel; exact hel)

theorem c05_elemOk_commentRef (env : REnv) (name h : Str) (as : Attrs) (cs : List XmlNode)
    (hh : handlerOf name = some h) (hc : (h == S!"read_comment_reference") = true)
    (hel : c05_elemOk env name as cs = true) : (attr? S!"w:id" as).isSome = true := by
  have := eq_of_beq hc; subst this
  unfold c05_elemOk at hel; rw [hh] at hel
  exact hel

theorem c05_match_some {o : Option Str} {p : Str → Bool} {t : Str}
    (h : (match o with | none => true | some x => p x) = true) (ho : o = some t) : p t = true := by
  subst ho; exact h

theorem c05_isSome_contra {α} {o : Option α} (h : o.isSome = true) (hn : o = none) : False := by
  subst hn; cases h

theorem c05_cell_contra {o : Option Str} {g : Str} (_ho : o = some g) (hp : parseDec g = none)
    (h : c05_isDec g = true) : False := by
  obtain ⟨n, hn⟩ := c05_parseDec_ok g h
  rw [hn] at hp; cases hp

theorem c05_handler_any (name h : Str) (hh : handlerOf name = some h) :
    (c05_handlerNames.any fun x => h == x) = true := by
  have := c05_handler_mem name h hh
  rw [List.any_eq_true]
  exact ⟨h, this, beq_self_eq_true h⟩

theorem c05_readBody_spec (env : REnv) (hn : c05_noStyleLinks env = true) (ra : c05_RdAll)
    (ih : ∀ st ns, c05_staticL env ns = true → c05_staticL env st.deleted = true →
      c05_spec c05_allowed (c05_Q env) (ra st ns))
    (st : RState) (name : Str) (as : Attrs) (cs : List XmlNode)
    (hel : c05_elemOk env name as cs = true) (hcs : c05_staticL env cs = true)
    (hdel : c05_staticL env st.deleted = true) :
    c05_spec c05_allowed (c05_Q env) (c05_readBody env ra st name as cs) := by
  unfold c05_readBody
  split
  · split <;> exact c05_spec_ok _ hdel
  · rename_i g hg
    repeat' (first
      | with_reducible refine c05_spec_ite _ _ _ (fun _ => ?_) (fun _ => ?_)
      | exact c05_spec_ok _ hdel
      | exact c05_spec_pure _ (by assumption)
      | exact ih _ _ hcs hdel
      | exact ih _ _ (c05_staticL_findChild env _ cs hcs) hdel
      | exact c05_spec_ok _ (by show c05_staticL env (st.deleted ++ cs) = true; rw [c05_staticL_append, hdel, hcs]; rfl)
      | exact c05_spec_weaken (c05_readFldChar_spec st as cs) (fun a ha => by show c05_staticL env a.2.deleted = true; rw [ha]; exact hdel)
      | refine c05_spec_bind (Q := c05_Q env) _ _ (ih _ _ hcs hdel) (fun _ _ => ?_)
      | refine c05_spec_bind (Q := c05_Q env) _ _ (ih _ _ (by rw [c05_staticL_append, hdel, hcs]; rfl) rfl) (fun _ _ => ?_)
      | refine c05_spec_bind (Q := fun _ => True) _ _ (c05_spec_of_isOk _ (c05_readNumberingProps_ok env hn _ _)) (fun _ _ => ?_)
      | exact c05_spec_map _ _ (c05_spec_of_isOk _ (c05_readSymbol_ok as
          (c05_elemOk_symbol env name g as cs hg (by assumption) hel))) (fun _ _ => hdel)
      | exact c05_spec_map _ _ (c05_spec_of_isOk _ (c05_readInline_ok env cs
          (c05_elemOk_inline env name g as cs hg (by assumption) hel))) (fun _ _ => hdel)
      | exact c05_spec_map _ _ (c05_spec_of_isOk _ (c05_readEmbeddedImage_ok env _ _
          (c05_match_some (c05_elemOk_imagedata env name g as cs hg (by assumption) hel) (by assumption))))
          (fun _ _ => hdel)
      | exact (c05_cell_contra (by assumption) (by assumption)
          (c05_match_some (c05_elemOk_cell env name g as cs hg (by assumption) hel) (by assumption))).elim
      | exact (c05_isSome_contra (c05_elemOk_noteRef env name g as cs hg (by assumption) hel) (by assumption)).elim
      | exact (c05_isSome_contra (c05_elemOk_commentRef env name g as cs hg (by assumption) hel) (by assumption)).elim
      | refine c05_spec_bind (Q := fun _ => True) _ _ (c05_spec_of_isOk _ (c05_targetById_ok env _
          (c05_match_some (c05_elemOk_hyperlink env name g as cs hg (by assumption) hel) (by assumption))))
          (fun _ _ => ?_)
      | split
      | dsimp only)
    -- the final `else`: every handler name of the table is covered by the chain
    have hany := c05_handler_any name g hg
    simp only [c05_handlerNames, List.any_cons, List.any_nil, Bool.or_false, Bool.or_eq_true] at hany
    have hnote : ¬ (g == S!"note_reference:footnote" || g == S!"note_reference:endnote") = true := by assumption
    rcases hany with h|h|h|h|h|h|h|h|h|h|h|h|h|h|h|h|h|h|h|h|h|h|h|h
    all_goals first
      | contradiction
      | exact absurd (by rw [h]; rfl) hnote
      | exact absurd (by rw [h]; exact Bool.or_true _) hnote

theorem c05_readAllWith_spec (env : REnv) (rd : c05_Rd)
    (hrd : ∀ st n, c05_static env n = true → c05_staticL env st.deleted = true →
      c05_spec c05_allowed (c05_Q env) (rd st n)) :
    ∀ (ns : List XmlNode) (st : RState), c05_staticL env ns = true → c05_staticL env st.deleted = true →
      c05_spec c05_allowed (c05_Q env) (readAllWith rd st ns)
  | [], st, _, hd => by simp only [readAllWith]; exact c05_spec_ok _ hd
  | .text _ :: rest, st, hs, hd => by
    simp only [readAllWith]
    simp only [c05_staticL, Bool.and_eq_true] at hs
    exact c05_readAllWith_spec env rd hrd rest st hs.2 hd
  | .elem n as cs :: rest, st, hs, hd => by
    simp only [readAllWith]
    simp only [c05_staticL, Bool.and_eq_true] at hs
    refine c05_spec_bind (Q := c05_Q env) _ _ (hrd _ _ hs.1 hd) (fun a ha => ?_)
    refine c05_spec_bind (Q := c05_Q env) _ _ (c05_readAllWith_spec env rd hrd rest _ hs.2 ha) (fun b hb => ?_)
    exact c05_spec_pure _ hb

theorem c05_readElem_spec (env : REnv) (hn : c05_noStyleLinks env = true) :
    ∀ (f : Nat) (st : RState) (n : XmlNode), c05_static env n = true → c05_staticL env st.deleted = true →
      c05_spec c05_allowed (c05_Q env) (readElem env f st n)
  | f, st, .text s, _, hd => by rw [c05_readElem_text]; exact c05_spec_ok _ hd
  | 0, st, .elem name as cs, _, _ => by
    rw [c05_readElem_zero]
    exact ⟨fun e he => (by cases he; exact Or.inl rfl), fun a ha => (by cases ha)⟩
  | f+1, st, .elem name as cs, hs, hd => by
    rw [c05_readElem_succ]
    simp only [c05_static, Bool.and_eq_true] at hs
    exact c05_readBody_spec env hn _
      (fun st ns h1 h2 => c05_readAllWith_spec env _ (c05_readElem_spec env hn f) ns st h1 h2)
      st name as cs hs.1 hs.2 hd

end Mammoth
