/-
  C16, reader half — the refinement: for every environment, amount of fuel, reader state and XML node,
  a successful run of the element reader returns exactly the messages (and the table shape, and the field
  state, and the deferred buffer) that `c16_spec` prescribes.
-/
import Proofs.C16_ReadLeaf
import Proofs.C01_ReadLeaves
namespace Mammoth

/-! ### equations of the specification, by kind -/

section
variable (env : REnv) {name : Str} (as : Attrs) (cs : List XmlNode) (b : c16_Buf)

theorem c16_spec_unknown (h : c16_kindOf name = .unknown) :
    c16_spec env (.elem name as cs) b = ⟨c16_emit (c16_unknownWarn name) false, b⟩ := by simp [c16_spec, h]
theorem c16_spec_atom (h : c16_kindOf name = .atom) :
    c16_spec env (.elem name as cs) b = ⟨c16_emit [] true, b⟩ := by simp [c16_spec, h]
theorem c16_spec_sym (h : c16_kindOf name = .sym) :
    c16_spec env (.elem name as cs) b = ⟨c16_emit (c16_symWarn as) (c16_symChar as).isSome, b⟩ := by
  simp [c16_spec, h]
theorem c16_spec_br (h : c16_kindOf name = .br) :
    c16_spec env (.elem name as cs) b = ⟨c16_emit (c16_breakWarn as) (c16_breakWarn as).isEmpty, b⟩ := by
  simp [c16_spec, h]
theorem c16_spec_bookmark (h : c16_kindOf name = .bookmark) :
    c16_spec env (.elem name as cs) b =
      ⟨c16_emit [] (decide (attr? S!"w:name" as ≠ some S!"_GoBack")), b⟩ := by simp [c16_spec, h]
theorem c16_spec_fldChar (h : c16_kindOf name = .fldChar) :
    c16_spec env (.elem name as cs) b = ⟨c16_fldChar as, b⟩ := by simp [c16_spec, h]
theorem c16_spec_instrText (h : c16_kindOf name = .instrText) :
    c16_spec env (.elem name as cs) b =
      ⟨fun fs => ⟨[], 0, true, ⟨fs.stack, fs.instr ++ innerTextL cs⟩⟩, b⟩ := by simp [c16_spec, h]
theorem c16_spec_inline (h : c16_kindOf name = .inline) :
    c16_spec env (.elem name as cs) b =
      ⟨c16_emit (c16_blipsWarn env (c16_blips cs)) ((c16_blips cs).any c16_blipHasImage), b⟩ := by
  simp [c16_spec, h]
theorem c16_spec_imagedata (h : c16_kindOf name = .imagedata) :
    c16_spec env (.elem name as cs) b = ⟨c16_emit (c16_imagedataWarn env as) (attr? S!"r:id" as).isSome, b⟩ := by
  simp [c16_spec, h]
theorem c16_spec_run (h : c16_kindOf name = .run) :
    c16_spec env (.elem name as cs) b =
      ⟨c16_box (c16_styleWarn S!"Run" S!"w:rPr" S!"w:rStyle" env.styles.character cs) (c16_specL env cs b).eff,
       (c16_specL env cs b).buf⟩ := by simp [c16_spec, h]
theorem c16_spec_paragraph (h : c16_kindOf name = .paragraph) :
    c16_spec env (.elem name as cs) b =
      if c16_delMark cs then
        ⟨c16_skip, c16_bufCons (c16_seq (c16_bufHead b) (c16_specL env cs (c16_bufTail b)).eff)
                      (c16_specL env cs (c16_bufTail b)).buf⟩
      else
        ⟨c16_box (c16_styleWarn S!"Paragraph" S!"w:pPr" S!"w:pStyle" env.styles.paragraph cs)
            (c16_seq (c16_bufHead b) (c16_specL env cs (c16_bufTail b)).eff),
         (c16_specL env cs (c16_bufTail b)).buf⟩ := by simp [c16_spec, h]
theorem c16_spec_table (h : c16_kindOf name = .table) :
    c16_spec env (.elem name as cs) b =
      ⟨c16_tableEff (c16_styleWarn S!"Table" S!"w:tblPr" S!"w:tblStyle" env.styles.table cs) (c16_specL env cs b).eff,
       (c16_specL env cs b).buf⟩ := by simp [c16_spec, h]
theorem c16_spec_row (h : c16_kindOf name = .row) :
    c16_spec env (.elem name as cs) b = ⟨c16_rowEff (c16_specL env cs b).eff, (c16_specL env cs b).buf⟩ := by
  simp [c16_spec, h]
theorem c16_spec_cell (h : c16_kindOf name = .cell) :
    c16_spec env (.elem name as cs) b = ⟨c16_cellEff (c16_specL env cs b).eff, (c16_specL env cs b).buf⟩ := by
  simp [c16_spec, h]
theorem c16_spec_through (h : c16_kindOf name = .through) :
    c16_spec env (.elem name as cs) b = c16_specL env cs b := by simp [c16_spec, h]
theorem c16_spec_pict (h : c16_kindOf name = .pict) :
    c16_spec env (.elem name as cs) b = ⟨c16_pictEff (c16_specL env cs b).eff, (c16_specL env cs b).buf⟩ := by
  simp [c16_spec, h]
theorem c16_spec_hyperlink (h : c16_kindOf name = .hyperlink) :
    c16_spec env (.elem name as cs) b =
      if (attr? S!"r:id" as).isSome || (attr? S!"w:anchor" as).isSome then
        ⟨c16_box [] (c16_specL env cs b).eff, (c16_specL env cs b).buf⟩
      else c16_specL env cs b := by simp [c16_spec, h]
theorem c16_spec_alt (h : c16_kindOf name = .alt) :
    c16_spec env (.elem name as cs) b = c16_specL env (findChildOrNull S!"mc:Fallback" cs).2 b := by
  simp [c16_spec, h, c16_specIn_eq]
theorem c16_spec_sdt (h : c16_kindOf name = .sdt) :
    c16_spec env (.elem name as cs) b =
      if c16_isCheckboxSdt cs then ⟨c16_emit [] true, b⟩
      else c16_specL env (findChildOrNull S!"w:sdtContent" cs).2 b := by
  simp [c16_spec, h, c16_specIn_eq]
end

/-- a paragraph that opens with the nodes `ds` held back: traversing `ds ++ cs` from the empty buffer is
    reading level 0 of `c16_pend ds` and then traversing `cs` with the deeper levels -/
theorem c16_pend_key (env : REnv) (ds cs : List XmlNode) :
    (c16_specL env (ds ++ cs) c16_noBuf).eff =
        c16_seq (c16_bufHead (c16_pend env ds)) (c16_specL env cs (c16_bufTail (c16_pend env ds))).eff ∧
    (c16_specL env (ds ++ cs) c16_noBuf).buf = (c16_specL env cs (c16_bufTail (c16_pend env ds))).buf := by
  rw [c16_specL_append]
  exact ⟨rfl, rfl⟩

theorem c16_readStyle_msgs (kind propsTag tag : Str) (table : List (Option Str × Option Str)) (cs : List XmlNode) :
    (readStyle (findChildOrNull propsTag cs).2 tag kind table).2 = c16_styleWarn kind propsTag tag table cs := by
  unfold readStyle c16_styleWarn
  cases childAttr tag S!"w:val" (findChildOrNull propsTag cs).2 with
  | none => rfl
  | some sid =>
    dsimp only
    cases lookupLast (some sid) table <;> rfl

/-! ### the refinement statement -/

/-- starting in state `st`, the reader returned `r` and ended in `st'`; the specification, started with
    the buffer that stands for `st.deleted`, is `s`: run in the field state of `st` it gives the messages
    and the table shape of `r` and the field state of `st'`; its buffer stands for `st'.deleted` -/
structure c16_R (env : REnv) (st : RState) (s : c16_Step) (r : ReadResult) (st' : RState) : Prop where
  sum : c16_Sum r (s.eff (c16_abs st))
  fs : c16_abs st' = (s.eff (c16_abs st)).fs
  buf : c16_pend env st'.deleted = s.buf

theorem c16_code_cons_other (e : Elem) (es : List Elem) (ho : c16_other e = true) :
    c16_code (e :: es) = 2 ∧ (e :: es).all isCell = false := by
  simp only [c16_other, Bool.and_eq_true, Bool.not_eq_true'] at ho
  simp [c16_code, ho.1, ho.2]

/-- a leaf of the traversal that leaves the state alone -/
theorem c16_R_leaf (env : REnv) (st : RState) (r : ReadResult) (ms : List Str) (elem : Bool)
    (h : c16_Sum r (c16_emit ms elem (c16_abs st))) :
    c16_R env st ⟨c16_emit ms elem, c16_pend env st.deleted⟩ r st := ⟨h, rfl, rfl⟩

/-- one element, given the reader for lists of children -/
theorem c16_readBody_spec (env : REnv) (ra : c05_RdAll)
    (ih : ∀ st ns r st', ra st ns = .ok (r, st') →
        c16_R env st (c16_specL env ns (c16_pend env st.deleted)) r st')
    (st : RState) (name : Str) (as : Attrs) (cs : List XmlNode) (r : ReadResult) (st' : RState)
    (h : c05_readBody env ra st name as cs = .ok (r, st')) :
    c16_R env st (c16_spec env (.elem name as cs) (c16_pend env st.deleted)) r st' := by
  unfold c05_readBody at h
  cases hg : handlerOf name with
  | none =>
    rw [hg] at h; dsimp only at h
    rw [c16_spec_unknown env as cs _ (c16_kindOf_none hg)]
    unfold c16_unknownWarn
    split at h
    · rename_i hi
      have : name ∈ Generated.ignored := by simpa using hi
      cases h
      rw [if_pos this]
      exact c16_R_leaf env st _ _ _ (c16_Sum_msg [] _)
    · rename_i hi
      have : name ∉ Generated.ignored := by simpa using hi
      cases h
      rw [if_neg this]
      exact c16_R_leaf env st _ _ _ (c16_Sum_msg _ _)
  | some g =>
    rw [hg] at h; dsimp only at h
    -- text
    c01_next
    · have := eq_of_beq hc; subst this
      cases h
      rw [c16_spec_atom env as cs _ (c16_hk hg (by decide))]
      exact c16_R_leaf env st _ _ _ (c16_Sum_one _ [] _ rfl)
    -- run
    c01_next
    · have := eq_of_beq hc; subst this
      rw [c16_spec_run env as cs _ (c16_hk hg (by decide))]
      obtain ⟨⟨r1, st1⟩, hra, h⟩ := c01_bind_ok h
      simp only [pure, Except.pure, Except.ok.injEq, Prod.mk.injEq] at h
      obtain ⟨rfl, rfl⟩ := h
      have hp := ih _ _ _ _ hra
      refine ⟨?_, hp.fs, hp.buf⟩
      rw [← c16_readStyle_msgs]
      exact c16_Sum_box _ _ _ _ _ rfl hp.sum.msgs
    -- paragraph
    c01_next
    · have := eq_of_beq hc; subst this
      rw [c16_spec_paragraph env as cs _ (c16_hk hg (by decide))]
      have key := c16_pend_key env st.deleted cs
      unfold c16_delMark
      c01_next
      · -- the mark is deleted: the content joins the held-back nodes
        rw [if_pos hc]
        simp only [Except.ok.injEq, Prod.mk.injEq] at h
        obtain ⟨rfl, rfl⟩ := h
        refine ⟨c16_Sum_empty _, rfl, ?_⟩
        show c16_pend env (st.deleted ++ cs) = _
        rw [← key.1, ← key.2]; rfl
      · rename_i hnc
        rw [if_neg hnc]
        obtain ⟨⟨r1, st1⟩, hra, h⟩ := c01_bind_ok h
        obtain ⟨num, _, h⟩ := c01_bind_ok h
        simp only [pure, Except.pure, Except.ok.injEq, Prod.mk.injEq] at h
        obtain ⟨rfl, rfl⟩ := h
        have hp := ih _ _ _ _ hra
        have hb : c16_pend env ({ st with deleted := [] } : RState).deleted = c16_noBuf := c16_pend_nil env
        rw [hb] at hp
        have hsum := hp.sum
        have hfs := hp.fs
        have hbuf := hp.buf
        rw [key.1] at hsum hfs
        rw [key.2] at hbuf
        refine ⟨?_, hfs, hbuf⟩
        rw [← c16_readStyle_msgs]
        obtain ⟨c1, c2⟩ := c16_code_cons_other (.paragraph
          { styleId := (readStyle (findChildOrNull S!"w:pPr" cs).2 S!"w:pStyle" S!"Paragraph" env.styles.paragraph).1.1,
            styleName := (readStyle (findChildOrNull S!"w:pPr" cs).2 S!"w:pStyle" S!"Paragraph" env.styles.paragraph).1.2,
            numbering := num } r1.elements) r1.extra rfl
        exact ⟨by simp only [c16_box]; exact congrArg _ hsum.msgs, c1, c2⟩
    -- complex-field characters
    c01_next
    · have := eq_of_beq hc; subst this
      rw [c16_spec_fldChar env as cs _ (c16_hk hg (by decide))]
      obtain ⟨h1, h2, h3⟩ := c16_readFldChar st as cs r st' h
      exact ⟨h1, h2, by rw [h3]⟩
    -- instruction text
    c01_next
    · have := eq_of_beq hc; subst this
      rw [c16_spec_instrText env as cs _ (c16_hk hg (by decide))]
      cases h
      exact ⟨⟨rfl, rfl, rfl⟩, rfl, rfl⟩
    -- tab
    c01_next
    · have := eq_of_beq hc; subst this
      cases h
      rw [c16_spec_atom env as cs _ (c16_hk hg (by decide))]
      exact c16_R_leaf env st _ _ _ (c16_Sum_one _ [] _ rfl)
    -- no-break hyphen
    c01_next
    · have := eq_of_beq hc; subst this
      cases h
      rw [c16_spec_atom env as cs _ (c16_hk hg (by decide))]
      exact c16_R_leaf env st _ _ _ (c16_Sum_one _ [] _ rfl)
    -- soft hyphen
    c01_next
    · have := eq_of_beq hc; subst this
      cases h
      rw [c16_spec_atom env as cs _ (c16_hk hg (by decide))]
      exact c16_R_leaf env st _ _ _ (c16_Sum_one _ [] _ rfl)
    -- symbol
    c01_next
    · have := eq_of_beq hc; subst this
      rw [c16_spec_sym env as cs _ (c16_hk hg (by decide))]
      cases hs : readSymbol as with
      | error e => rw [hs] at h; cases h
      | ok r1 =>
        rw [hs] at h
        simp only [Except.map, Except.ok.injEq, Prod.mk.injEq] at h
        obtain ⟨rfl, rfl⟩ := h
        exact c16_R_leaf env st _ _ _ (c16_readSymbol as r1 _ hs)
    -- table
    c01_next
    · have := eq_of_beq hc; subst this
      rw [c16_spec_table env as cs _ (c16_hk hg (by decide))]
      obtain ⟨⟨r1, st1⟩, hra, h⟩ := c01_bind_ok h
      simp only [pure, Except.pure, Except.ok.injEq, Prod.mk.injEq] at h
      obtain ⟨rfl, rfl⟩ := h
      have hp := ih _ _ _ _ hra
      refine ⟨?_, hp.fs, hp.buf⟩
      rw [← c16_readStyle_msgs]
      refine ⟨?_, rfl, rfl⟩
      simp only [c16_tableEff]
      rw [← hp.sum.msgs, ← hp.sum.code, ← c16_calculateRowSpans_msgs]
    -- table row
    c01_next
    · have := eq_of_beq hc; subst this
      rw [c16_spec_row env as cs _ (c16_hk hg (by decide))]
      obtain ⟨⟨r1, st1⟩, hra, h⟩ := c01_bind_ok h
      simp only [pure, Except.pure, Except.ok.injEq, Prod.mk.injEq] at h
      obtain ⟨rfl, rfl⟩ := h
      have hp := ih _ _ _ _ hra
      refine ⟨⟨hp.sum.msgs, ?_, rfl⟩, hp.fs, hp.buf⟩
      simp only [c16_rowEff]
      rw [c16_code_row, hp.sum.cells]
    -- table cell
    c01_next
    · have := eq_of_beq hc; subst this
      rw [c16_spec_cell env as cs _ (c16_hk hg (by decide))]
      repeat' split at h
      all_goals
        obtain ⟨colspan, hcol, h⟩ := c01_bind_ok h
        first
        | (cases hcol; done)
        | (obtain ⟨⟨r1, st1⟩, hra, h⟩ := c01_bind_ok h
           simp only [pure, Except.pure, Except.ok.injEq, Prod.mk.injEq] at h
           obtain ⟨rfl, rfl⟩ := h
           have hp := ih _ _ _ _ hra
           exact ⟨⟨hp.sum.msgs, rfl, rfl⟩, hp.fs, hp.buf⟩)
    -- read-through containers
    c01_next
    · have := eq_of_beq hc; subst this
      rw [c16_spec_through env as cs _ (c16_hk hg (by decide))]
      exact ih _ _ _ _ h
    -- text boxes
    c01_next
    · have := eq_of_beq hc; subst this
      rw [c16_spec_pict env as cs _ (c16_hk hg (by decide))]
      obtain ⟨⟨r1, st1⟩, hra, h⟩ := c01_bind_ok h
      simp only [pure, Except.pure, Except.ok.injEq, Prod.mk.injEq] at h
      obtain ⟨rfl, rfl⟩ := h
      have hp := ih _ _ _ _ hra
      exact ⟨⟨hp.sum.msgs, rfl, rfl⟩, hp.fs, hp.buf⟩
    -- hyperlink
    c01_next
    · have := eq_of_beq hc; subst this
      rw [c16_spec_hyperlink env as cs _ (c16_hk hg (by decide))]
      obtain ⟨⟨r1, st1⟩, hra, h⟩ := c01_bind_ok h
      have hp := ih _ _ _ _ hra
      split at h
      · rename_i rid hrid
        obtain ⟨href, _, h⟩ := c01_bind_ok h
        simp only [pure, Except.pure, Except.ok.injEq, Prod.mk.injEq] at h
        obtain ⟨rfl, rfl⟩ := h
        rw [hrid]
        simp only [Option.isSome_some, Bool.true_or, if_true]
        exact ⟨⟨by simpa [c16_box] using hp.sum.msgs, rfl, rfl⟩, hp.fs, hp.buf⟩
      · rename_i hrid
        rw [hrid]
        split at h
        · rename_i a ha
          simp only [pure, Except.pure, Except.ok.injEq, Prod.mk.injEq] at h
          obtain ⟨rfl, rfl⟩ := h
          rw [ha]
          simp only [Option.isSome_some, Bool.or_true, if_true]
          exact ⟨⟨by simpa [c16_box] using hp.sum.msgs, rfl, rfl⟩, hp.fs, hp.buf⟩
        · rename_i ha
          simp only [pure, Except.pure, Except.ok.injEq, Prod.mk.injEq] at h
          obtain ⟨rfl, rfl⟩ := h
          rw [ha]
          simp only [Option.isSome_none, Bool.or_self, Bool.false_eq_true, if_false]
          exact hp
    -- bookmark
    c01_next
    · have := eq_of_beq hc; subst this
      rw [c16_spec_bookmark env as cs _ (c16_hk hg (by decide))]
      split at h
      · rename_i hb
        have hb' : attr? S!"w:name" as = some S!"_GoBack" := by simpa using hb
        cases h
        rw [hb']
        exact c16_R_leaf env st _ _ _ (c16_Sum_msg [] _)
      · rename_i hb
        have hb' : attr? S!"w:name" as ≠ some S!"_GoBack" := by simpa using hb
        cases h
        rw [decide_eq_true hb']
        exact c16_R_leaf env st _ _ _ (c16_Sum_one _ [] _ rfl)
    -- break
    c01_next
    · have := eq_of_beq hc; subst this
      rw [c16_spec_br env as cs _ (c16_hk hg (by decide))]
      cases h
      exact c16_R_leaf env st _ _ _ (c16_readBreak as _)
    -- DrawingML image
    c01_next
    · have := eq_of_beq hc; subst this
      rw [c16_spec_inline env as cs _ (c16_hk hg (by decide))]
      cases hs : readInline env cs with
      | error e => rw [hs] at h; cases h
      | ok r1 =>
        rw [hs] at h
        simp only [Except.map, Except.ok.injEq, Prod.mk.injEq] at h
        obtain ⟨rfl, rfl⟩ := h
        exact c16_R_leaf env st _ _ _ (c16_readInline env cs r1 _ hs)
    -- VML image
    c01_next
    · have := eq_of_beq hc; subst this
      rw [c16_spec_imagedata env as cs _ (c16_hk hg (by decide))]
      unfold c16_imagedataWarn
      split at h
      · rename_i hid
        cases h
        rw [hid]
        exact c16_R_leaf env st _ _ _ (c16_Sum_msg _ _)
      · rename_i rid hid
        rw [hid]
        cases hs : readEmbeddedImage env rid (attr? S!"o:title" as) with
        | error e => rw [hs] at h; cases h
        | ok r1 =>
          rw [hs] at h
          simp only [Except.map, Except.ok.injEq, Prod.mk.injEq] at h
          obtain ⟨rfl, rfl⟩ := h
          obtain ⟨hm, i, he⟩ := c16_readEmbedded env rid _ r1 hs
          exact c16_R_leaf env st _ _ _ (c16_Sum_emit _ _ _ _ hm (by rw [he]; rfl) (by rw [he]; rfl))
    -- note references
    c01_next
    · rw [Bool.or_eq_true] at hc
      rcases hc with hc | hc
      · have := eq_of_beq hc; subst this
        rw [c16_spec_atom env as cs _ (c16_hk hg (by decide))]
        split at h
        · cases h
        · cases h
          exact c16_R_leaf env st _ _ _ (c16_Sum_one _ [] _ rfl)
      · have := eq_of_beq hc; subst this
        rw [c16_spec_atom env as cs _ (c16_hk hg (by decide))]
        split at h
        · cases h
        · cases h
          exact c16_R_leaf env st _ _ _ (c16_Sum_one _ [] _ rfl)
    -- comment references
    c01_next
    · have := eq_of_beq hc; subst this
      rw [c16_spec_atom env as cs _ (c16_hk hg (by decide))]
      split at h
      · cases h
      · cases h
        exact c16_R_leaf env st _ _ _ (c16_Sum_one _ [] _ rfl)
    -- alternate content
    c01_next
    · have := eq_of_beq hc; subst this
      rw [c16_spec_alt env as cs _ (c16_hk hg (by decide))]
      exact ih _ _ _ _ h
    -- structured document tags
    c01_next
    · have := eq_of_beq hc; subst this
      rw [c16_spec_sdt env as cs _ (c16_hk hg (by decide))]
      unfold c16_isCheckboxSdt
      split at h
      · rename_i hcb
        cases h
        rw [hcb]
        exact c16_R_leaf env st _ _ _ (c16_Sum_one _ [] _ rfl)
      · rename_i hcb
        rw [hcb]
        exact ih _ _ _ _ h
    · cases h

/-- a list of siblings, given the element reader -/
theorem c16_readAllWith_spec (env : REnv) (rd : c05_Rd)
    (hrd : ∀ st n r st', rd st n = .ok (r, st') →
        c16_R env st (c16_spec env n (c16_pend env st.deleted)) r st') :
    ∀ (ns : List XmlNode) (st : RState) (r : ReadResult) (st' : RState),
      readAllWith rd st ns = .ok (r, st') →
      c16_R env st (c16_specL env ns (c16_pend env st.deleted)) r st'
  | [], st, r, st', h => by
    simp only [readAllWith, Except.ok.injEq, Prod.mk.injEq] at h
    obtain ⟨rfl, rfl⟩ := h
    rw [c16_specL_nil]
    exact ⟨c16_Sum_empty _, rfl, rfl⟩
  | .text s :: rest, st, r, st', h => by
    simp only [readAllWith] at h
    have := c16_readAllWith_spec env rd hrd rest st r st' h
    rw [c16_specL_cons, c16_spec_text]
    simpa [c16_seq_skip_left] using this
  | .elem n as cs :: rest, st, r, st', h => by
    simp only [readAllWith] at h
    obtain ⟨⟨r1, st1⟩, h1, h⟩ := c01_bind_ok h
    obtain ⟨⟨r2, st2⟩, h2, h⟩ := c01_bind_ok h
    simp only [pure, Except.pure, Except.ok.injEq, Prod.mk.injEq] at h
    obtain ⟨rfl, rfl⟩ := h
    have p1 := hrd _ _ _ _ h1
    have p2 := c16_readAllWith_spec env rd hrd rest st1 r2 st2 h2
    rw [p1.buf] at p2
    rw [c16_specL_cons]
    refine ⟨c16_Sum_concat p1.sum p1.fs p2.sum, ?_, p2.buf⟩
    have := p2.fs
    rw [p1.fs] at this
    exact this

/-- the element reader, for every amount of fuel -/
theorem c16_readElem_spec (env : REnv) :
    ∀ (f : Nat) (st : RState) (n : XmlNode) (r : ReadResult) (st' : RState),
      readElem env f st n = .ok (r, st') →
      c16_R env st (c16_spec env n (c16_pend env st.deleted)) r st'
  | f, st, .text s, r, st', h => by
    rw [c05_readElem_text] at h
    simp only [Except.ok.injEq, Prod.mk.injEq] at h
    obtain ⟨rfl, rfl⟩ := h
    rw [c16_spec_text]
    exact ⟨c16_Sum_empty _, rfl, rfl⟩
  | 0, st, .elem name as cs, r, st', h => by
    rw [c05_readElem_zero] at h; cases h
  | f+1, st, .elem name as cs, r, st', h => by
    rw [c05_readElem_succ] at h
    exact c16_readBody_spec env _
      (fun st ns r st' h1 => c16_readAllWith_spec env _ (c16_readElem_spec env f) ns st r st' h1)
      st name as cs r st' h

/-- `read_all` -/
theorem c16_readAll_spec (env : REnv) (f : Nat) (st : RState) (ns : List XmlNode) (r : ReadResult) (st' : RState)
    (h : readAll env f st ns = .ok (r, st')) :
    c16_R env st (c16_specL env ns (c16_pend env st.deleted)) r st' :=
  c16_readAllWith_spec env _ (c16_readElem_spec env f) ns st r st' h

end Mammoth
