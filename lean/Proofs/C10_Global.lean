/-
  C10, global part 1: what is read off an output forest (`idsOf`, `hrefsOf`, `anchorsOf`, …), the
  "clean configuration" hypothesis, and the structural lemmas about these functions.
-/
import Proofs.C10_Convert
import Proofs.C01_Refine
namespace Mammoth

/-! ### reading attributes off a forest -/

/-- every value the writer prints for attribute `k` of a tag (`attrString` prints every pair of the
    association list, so every pair with key `k` counts) -/
def c10_tagVals (k : Str) (t : Tag) : List Str :=
  (t.attrs.filter (fun kv => kv.1 == k)).map (·.2)

mutual
/-- all values of attribute `k` in a node, in document order (the element itself, then its children) -/
def valsOf (k : Str) : Node → List Str
  | .elem t cs => c10_tagVals k t ++ valsOfL k cs
  | _ => []
/-- all values of attribute `k` in a forest, in document order -/
def valsOfL (k : Str) : List Node → List Str
  | [] => []
  | c :: cs => valsOf k c ++ valsOfL k cs
end

/-- all values of attribute `id` in the forest, in document order -/
def idsOf (ns : List Node) : List Str := valsOfL S!"id" ns
/-- all values of attribute `href` in the forest, in document order -/
def hrefsOf (ns : List Node) : List Str := valsOfL S!"href" ns

/-- an element that carries both an `id` and an `href`: (id, href, text content) -/
def c10_tagAnchor (t : Tag) (cs : List Node) : List (Str × Str × Str) :=
  match c10_tagVals S!"id" t, c10_tagVals S!"href" t with
  | i :: _, h :: _ => [(i, h, textOfL cs)]
  | _, _ => []

mutual
def anchorsOfN : Node → List (Str × Str × Str)
  | .elem t cs => c10_tagAnchor t cs ++ anchorsOf cs
  | _ => []
/-- the elements of the forest that carry both an `id` and an `href` (these are the note and comment
    reference anchors), in document order, each as (id, href, text content) -/
def anchorsOf : List Node → List (Str × Str × Str)
  | [] => []
  | c :: cs => anchorsOfN c ++ anchorsOf cs
end

mutual
/-- every element that carries an `id` has content (so `strip_empty` keeps it) -/
def c10_idContent : Node → Bool
  | .elem t cs => ((c10_tagVals S!"id" t).isEmpty || hasContent (.elem t cs)) && c10_idContentL cs
  | _ => true
def c10_idContentL : List Node → Bool
  | [] => true
  | c :: cs => c10_idContent c && c10_idContentL cs
end

/-! ### the summary of a forest: (ids, hrefs, anchors, id-elements have content) -/

abbrev c10_Sum := List Str × List Str × List (Str × Str × Str) × Bool

def c10_sum (ns : List Node) : c10_Sum := (idsOf ns, hrefsOf ns, anchorsOf ns, c10_idContentL ns)
def c10_add (a b : c10_Sum) : c10_Sum :=
  (a.1 ++ b.1, a.2.1 ++ b.2.1, a.2.2.1 ++ b.2.2.1, a.2.2.2 && b.2.2.2)
def c10_zero : c10_Sum := ([], [], [], true)
/-- what the tag of an element contributes -/
def c10_tagSum (t : Tag) (cs : List Node) : c10_Sum :=
  (c10_tagVals S!"id" t, c10_tagVals S!"href" t, c10_tagAnchor t cs,
   (c10_tagVals S!"id" t).isEmpty || hasContent (.elem t cs))

@[simp] theorem c10_add_zero (a : c10_Sum) : c10_add a c10_zero = a := by
  simp [c10_add, c10_zero]
@[simp] theorem c10_zero_add (a : c10_Sum) : c10_add c10_zero a = a := by
  simp [c10_add, c10_zero]
theorem c10_add_assoc (a b c : c10_Sum) : c10_add (c10_add a b) c = c10_add a (c10_add b c) := by
  simp [c10_add, Bool.and_assoc]

theorem valsOfL_append (k : Str) (a b : List Node) : valsOfL k (a ++ b) = valsOfL k a ++ valsOfL k b := by
  induction a with
  | nil => simp [valsOfL]
  | cons x xs ih => simp [valsOfL, ih]

theorem anchorsOf_append (a b : List Node) : anchorsOf (a ++ b) = anchorsOf a ++ anchorsOf b := by
  induction a with
  | nil => simp [anchorsOf]
  | cons x xs ih => simp [anchorsOf, ih]

theorem c10_idContentL_append (a b : List Node) :
    c10_idContentL (a ++ b) = (c10_idContentL a && c10_idContentL b) := by
  induction a with
  | nil => simp [c10_idContentL]
  | cons x xs ih => simp [c10_idContentL, ih, Bool.and_assoc]

theorem c10_sum_append (a b : List Node) : c10_sum (a ++ b) = c10_add (c10_sum a) (c10_sum b) := by
  simp [c10_sum, c10_add, idsOf, hrefsOf, valsOfL_append, anchorsOf_append, c10_idContentL_append]

@[simp] theorem c10_sum_nil : c10_sum [] = c10_zero := by
  simp [c10_sum, c10_zero, idsOf, hrefsOf, valsOfL, anchorsOf, c10_idContentL]

theorem c10_sum_elem (t : Tag) (cs : List Node) :
    c10_sum [.elem t cs] = c10_add (c10_tagSum t cs) (c10_sum cs) := by
  simp [c10_sum, c10_add, c10_tagSum, idsOf, hrefsOf, valsOfL, valsOf, anchorsOf, anchorsOfN, c10_idContentL,
    c10_idContent]

theorem c10_sum_cons (n : Node) (ns : List Node) : c10_sum (n :: ns) = c10_add (c10_sum [n]) (c10_sum ns) :=
  c10_sum_append [n] ns

@[simp] theorem c10_sum_text (s : Str) : c10_sum [.text s] = c10_zero := by
  simp [c10_sum, c10_zero, idsOf, hrefsOf, valsOfL, valsOf, anchorsOf, anchorsOfN, c10_idContentL, c10_idContent]
@[simp] theorem c10_sum_fw : c10_sum [.forceWrite] = c10_zero := by
  simp [c10_sum, c10_zero, idsOf, hrefsOf, valsOfL, valsOf, anchorsOf, anchorsOfN, c10_idContentL, c10_idContent]
@[simp] theorem c10_sum_fw_cons (ns : List Node) : c10_sum (.forceWrite :: ns) = c10_sum ns := by
  rw [c10_sum_cons]; simp
@[simp] theorem c10_sum_text_cons (s : Str) (ns : List Node) : c10_sum (.text s :: ns) = c10_sum ns := by
  rw [c10_sum_cons]; simp

/-! ### clean tags: no `id`, no `href` -/

/-- an attribute list that mentions neither `id` nor `href` -/
def c10_cleanAttrs (as : List (Str × Str)) : Bool :=
  as.all (fun kv => kv.1 != S!"id" && kv.1 != S!"href")
def c10_cleanTag (t : Tag) : Bool := c10_cleanAttrs t.attrs
def c10_cleanPath : HtmlPath → Bool
  | .elements es => es.all c10_cleanTag
  | .ignore => true
/-- THE hypothesis of the global theorems: no HTML path of the style map writes an `id` or `href`
    attribute, and neither does the image converter.  (Then every `id` in the output is the converter's.) -/
def c10_cleanCfg (cfg : Cfg) : Bool :=
  cfg.styleMap.all (fun s => c10_cleanPath s.path) &&
  (match cfg.imageConv with
   | .dataUri => true
   | .fixed attrs _ => c10_cleanAttrs attrs)

theorem c10_tagVals_clean (t : Tag) (h : c10_cleanTag t = true) :
    c10_tagVals S!"id" t = [] ∧ c10_tagVals S!"href" t = [] := by
  unfold c10_cleanTag c10_cleanAttrs at h
  rw [List.all_eq_true] at h
  constructor
  · unfold c10_tagVals
    rw [List.map_eq_nil_iff, List.filter_eq_nil_iff]
    intro kv hkv
    have := h kv hkv
    simp only [Bool.and_eq_true, bne_iff_ne, ne_eq] at this
    simpa using this.1
  · unfold c10_tagVals
    rw [List.map_eq_nil_iff, List.filter_eq_nil_iff]
    intro kv hkv
    have := h kv hkv
    simp only [Bool.and_eq_true, bne_iff_ne, ne_eq] at this
    simpa using this.2

theorem c10_tagSum_clean (t : Tag) (cs : List Node) (h : c10_cleanTag t = true) :
    c10_tagSum t cs = c10_zero := by
  obtain ⟨h1, h2⟩ := c10_tagVals_clean t h
  simp [c10_tagSum, c10_tagAnchor, h1, h2, c10_zero]

theorem c10_sum_cleanElem (t : Tag) (cs : List Node) (h : c10_cleanTag t = true) :
    c10_sum [.elem t cs] = c10_sum cs := by
  rw [c10_sum_elem, c10_tagSum_clean t cs h, c10_zero_add]

theorem c10_cleanAttrs_append (a b : List (Str × Str)) :
    c10_cleanAttrs (a ++ b) = (c10_cleanAttrs a && c10_cleanAttrs b) := by
  simp [c10_cleanAttrs, List.all_append]

theorem c10_cleanAttrs_insert (k v : Str) (d : Dict Str) (hk : (k != S!"id" && k != S!"href") = true)
    (hd : c10_cleanAttrs d = true) : c10_cleanAttrs (Dict.insert k v d) = true := by
  induction d with
  | nil => simpa [Dict.insert, c10_cleanAttrs] using hk
  | cons x xs ih =>
    obtain ⟨k', v'⟩ := x
    have hd' : (k' != S!"id" && k' != S!"href") = true ∧ c10_cleanAttrs xs = true := by
      simpa [c10_cleanAttrs] using hd
    simp only [Dict.insert]
    split
    · simp only [c10_cleanAttrs, List.all_cons, Bool.and_eq_true] at hd ⊢
      exact ⟨by simpa using hk, hd.2⟩
    · split
      · simp only [c10_cleanAttrs, List.all_cons, Bool.and_eq_true] at hd ⊢
        exact ⟨by simpa using hk, hd⟩
      · simp only [c10_cleanAttrs, List.all_cons, Bool.and_eq_true] at hd ⊢
        exact ⟨hd.1, by simpa [c10_cleanAttrs] using ih hd'.2⟩

theorem c10_cleanAttrs_foldl (kvs : List (Str × Str)) (d : Dict Str) (hk : c10_cleanAttrs kvs = true)
    (hd : c10_cleanAttrs d = true) :
    c10_cleanAttrs (kvs.foldl (fun d kv => Dict.insert kv.1 kv.2 d) d) = true := by
  induction kvs generalizing d with
  | nil => simpa using hd
  | cons x xs ih =>
    have h' : (x.1 != S!"id" && x.1 != S!"href") = true ∧ c10_cleanAttrs xs = true := by
      simpa [c10_cleanAttrs] using hk
    simp only [List.foldl_cons]
    exact ih _ h'.2 (c10_cleanAttrs_insert _ _ _ h'.1 hd)

theorem c10_cleanAttrs_ofList (kvs : List (Str × Str)) (hk : c10_cleanAttrs kvs = true) :
    c10_cleanAttrs (Dict.ofList kvs) = true :=
  c10_cleanAttrs_foldl kvs [] hk rfl

/-- an `el` / `cel` whose attribute list is clean contributes nothing itself -/
theorem c10_sum_el (name : Str) (attrs : List (Str × Str)) (cs : List Node)
    (h : c10_cleanAttrs attrs = true) : c10_sum [el name attrs cs] = c10_sum cs :=
  c10_sum_cleanElem _ _ (c10_cleanAttrs_ofList attrs h)
theorem c10_sum_cel (name : Str) (attrs : List (Str × Str)) (cs : List Node)
    (h : c10_cleanAttrs attrs = true) : c10_sum [cel name attrs cs] = c10_sum cs :=
  c10_sum_cleanElem _ _ (c10_cleanAttrs_ofList attrs h)

theorem c10_sum_wrapElems (es : List Tag) (ns : List Node) (h : es.all c10_cleanTag = true) :
    c10_sum (wrapElems es ns) = c10_sum ns := by
  induction es with
  | nil => rfl
  | cons t ts ih =>
    simp only [List.all_cons, Bool.and_eq_true] at h
    simp only [wrapElems]
    rw [c10_sum_cleanElem _ _ h.1, ih h.2]

theorem c10_sum_wrapAll (ps : List HtmlPath) (h : ps.all c10_cleanPath = true) (ns : List Node) :
    c10_sum (wrapAll ps ns) = if ps.any HtmlPath.isIgnore then c10_zero else c10_sum ns := by
  induction ps generalizing ns with
  | nil => simp [wrapAll]
  | cons p ps ih =>
    simp only [List.all_cons, Bool.and_eq_true] at h
    cases p with
    | ignore =>
      simp only [wrapAll, List.any_cons, HtmlPath.isIgnore, Bool.true_or, if_true]
      rw [ih h.2]; simp
    | elements es =>
      simp only [wrapAll, List.any_cons, HtmlPath.isIgnore, Bool.false_or]
      rw [ih h.2, c10_sum_wrapElems es ns (by simpa [c10_cleanPath] using h.1)]

/-! ### the paths the style map can yield are clean -/

theorem c10_findPath_clean (cfg : Cfg) (hc : c10_cleanCfg cfg = true) (t : Target) (p : HtmlPath)
    (h : findPath cfg t = some p) : c10_cleanPath p = true := by
  unfold findPath findStyle at h
  simp only [Option.map_eq_some_iff] at h
  obtain ⟨s, hs, rfl⟩ := h
  have hm := List.mem_of_find?_eq_some hs
  simp only [c10_cleanCfg, Bool.and_eq_true, List.all_eq_true] at hc
  exact hc.1 s hm

theorem c10_path_clean (cfg : Cfg) (hc : c10_cleanCfg cfg = true) (t : Target) (d : HtmlPath)
    (hd : c10_cleanPath d = true) : c10_cleanPath (c01_path cfg t d) = true := by
  unfold c01_path
  cases h : findPath cfg t with
  | none => simpa using hd
  | some p => simpa using c10_findPath_clean cfg hc t p h

theorem c10_propPath_clean (cfg : Cfg) (hc : c10_cleanCfg cfg = true) (t : Target) (d : Option Str) :
    c10_cleanPath (propPath cfg t d) = true := by
  unfold propPath
  cases h : findPath cfg t with
  | some p => exact c10_findPath_clean cfg hc t p h
  | none => cases d <;> rfl

theorem c10_runPropPaths_clean (cfg : Cfg) (hc : c10_cleanCfg cfg = true) (r : RunProps) :
    (runPropPaths cfg r).all c10_cleanPath = true := by
  unfold runPropPaths
  simp only [List.all_append, Bool.and_eq_true]
  refine ⟨⟨⟨⟨⟨⟨⟨⟨?_, ?_⟩, ?_⟩, ?_⟩, ?_⟩, ?_⟩, ?_⟩, ?_⟩, ?_⟩
  · cases r.highlight with
    | none => rfl
    | some c =>
      simp only
      cases h : findPath cfg (.highlight c) with
      | none => rfl
      | some p => simpa using c10_findPath_clean cfg hc _ p h
  all_goals
    split
    · first
      | (simp only [List.all_cons, List.all_nil, Bool.and_true]; exact c10_propPath_clean cfg hc _ _)
      | rfl
    · rfl

theorem c10_runPaths_clean (cfg : Cfg) (hc : c10_cleanCfg cfg = true) (r : RunProps) :
    (c01_runPaths cfg r).all c10_cleanPath = true := by
  unfold c01_runPaths
  simp only [List.all_append, Bool.and_eq_true, List.all_cons, List.all_nil, Bool.and_true]
  exact ⟨c10_runPropPaths_clean cfg hc r, c10_path_clean cfg hc _ _ rfl⟩

end Mammoth

