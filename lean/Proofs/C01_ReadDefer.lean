/-
  C01, reader half, stage 2 — with deleted paragraph marks: the element reader refines `c01_xmlLiveD`,
  the buffer of the specification being the leaves of the XML nodes the reader holds back (`c01_pend`).
-/
import Proofs.C01_ReadLeaves
import Proofs.C01_XmlDefer
namespace Mammoth

/-- kinds whose element is a leaf of the traversal: nothing below it is read as document content -/
def c01_leafKind : c01_Kind → Bool
  | .through => false
  | .paragraph => false
  | .pict => false
  | .alt => false
  | .sdt => false
  | _ => true

/-! ### equations of the specification, by kind -/

section
variable {name : Str} (b : c01_Buf) (as : Attrs) (cs : List XmlNode)

theorem c01_xmlLiveD_leaf (h : c01_leafKind (c01_kindOf name) = true) :
    c01_xmlLiveD b (.elem name as cs) = ⟨c01_xmlLive (.elem name as cs), b⟩ := by
  simp only [c01_xmlLiveD]
  split <;> simp_all [c01_leafKind]
theorem c01_xmlLiveD_through (h : c01_kindOf name = .through) :
    c01_xmlLiveD b (.elem name as cs) = c01_xmlLiveDL b cs := by simp [c01_xmlLiveD, h]
theorem c01_xmlLiveD_paragraph (h : c01_kindOf name = .paragraph) :
    c01_xmlLiveD b (.elem name as cs) =
      if c01_delMark cs then
        ⟨{}, c01_bufCons ((c01_bufHead b).append (c01_xmlLiveDL (c01_bufTail b) cs).live) (c01_xmlLiveDL (c01_bufTail b) cs).buf⟩
      else
        ⟨⟨((c01_bufHead b).append (c01_xmlLiveDL (c01_bufTail b) cs).live).inline ++
            ((c01_bufHead b).append (c01_xmlLiveDL (c01_bufTail b) cs).live).extra, []⟩,
          (c01_xmlLiveDL (c01_bufTail b) cs).buf⟩ := by
  simp [c01_xmlLiveD, h]
theorem c01_xmlLiveD_pict (h : c01_kindOf name = .pict) :
    c01_xmlLiveD b (.elem name as cs) =
      ⟨⟨[], (c01_xmlLiveDL b cs).live.extra ++ (c01_xmlLiveDL b cs).live.inline⟩, (c01_xmlLiveDL b cs).buf⟩ := by
  simp [c01_xmlLiveD, h]
theorem c01_xmlLiveD_alt (h : c01_kindOf name = .alt) :
    c01_xmlLiveD b (.elem name as cs) = c01_xmlLiveDL b (findChildOrNull S!"mc:Fallback" cs).2 := by
  simp [c01_xmlLiveD, h, c01_xmlLiveDIn_eq]
theorem c01_xmlLiveD_sdt (h : c01_kindOf name = .sdt) :
    c01_xmlLiveD b (.elem name as cs) =
      if c01_isCheckboxSdt cs then ⟨{}, b⟩ else c01_xmlLiveDL b (findChildOrNull S!"w:sdtContent" cs).2 := by
  simp [c01_xmlLiveD, h, c01_xmlLiveDIn_eq]
end

/-- a paragraph that opens with the nodes `ds` held back: traversing `ds ++ cs` from the empty buffer is
    taking level 0 of `c01_pend ds` and traversing `cs` with the deeper levels -/
theorem c01_pend_key (ds cs : List XmlNode) :
    (c01_xmlLiveDL [] (ds ++ cs)).live =
        (c01_bufHead (c01_pend ds)).append (c01_xmlLiveDL (c01_bufTail (c01_pend ds)) cs).live ∧
    (c01_xmlLiveDL [] (ds ++ cs)).buf = (c01_xmlLiveDL (c01_bufTail (c01_pend ds)) cs).buf := by
  rw [c01_xmlLiveDL_append]
  unfold c01_pend
  rw [c01_bufHead_cons, c01_bufTail_cons]
  exact ⟨rfl, rfl⟩

/-! ### elements that are leaves of the traversal -/

/-- for an element of a leaf kind the reader leaves the held-back nodes alone and returns the leaves of
    `c01_xmlLive` (whatever the fields and the deferred content are) -/
theorem c01_readBody_leaf (env : REnv) (ra : c05_RdAll)
    (st : RState) (name : Str) (as : Attrs) (cs : List XmlNode) (r : ReadResult) (st' : RState)
    (h : c05_readBody env ra st name as cs = .ok (r, st'))
    (hleaf : c01_leafKind (c01_kindOf name) = true) (nv : Bool) :
    st'.deleted = st.deleted ∧ c01_Sim nv r (c01_xmlLive (.elem name as cs)) := by
  unfold c05_readBody at h
  cases hg : handlerOf name with
  | none =>
    rw [hg] at h; dsimp only at h
    rw [c01_xmlLive_skip as cs (c01_kindOf_none hg)]
    split at h
    · cases h; exact ⟨rfl, c01_Sim_empty _⟩
    · cases h; exact ⟨rfl, c01_Sim_silent _ (c01_silent_msg _)⟩
  | some g =>
    rw [hg] at h; dsimp only at h
    -- text
    c01_next
    · have := eq_of_beq hc; subst this
      cases h
      rw [c01_xmlLive_textK as cs (c01_hk hg (by decide))]
      exact ⟨rfl, by simpa [c01_elemLeaves] using c01_Sim_atom _ (.text (innerTextL cs)) rfl⟩
    -- run
    c01_next
    · have := eq_of_beq hc; subst this
      rw [c01_hk hg (by decide : c01_handlerKind S!"run" = .through)] at hleaf; cases hleaf
    -- paragraph
    c01_next
    · have := eq_of_beq hc; subst this
      rw [c01_hk hg (by decide : c01_handlerKind S!"paragraph" = .paragraph)] at hleaf; cases hleaf
    -- complex-field characters
    c01_next
    · have := eq_of_beq hc; subst this
      rw [c01_xmlLive_skip as cs (c01_hk hg (by decide))]
      unfold readFldChar at h
      dsimp only at h
      repeat' split at h
      all_goals first
        | (cases h; done)
        | cases h; exact ⟨rfl, c01_Sim_empty _⟩
        | cases h; exact ⟨rfl, c01_Sim_silent _ ⟨rfl, rfl, by simp [rrElems, c01_elemLeaves]⟩⟩
    -- instruction text
    c01_next
    · have := eq_of_beq hc; subst this
      rw [c01_xmlLive_skip as cs (c01_hk hg (by decide))]
      cases h; exact ⟨rfl, c01_Sim_empty _⟩
    -- tab
    c01_next
    · have := eq_of_beq hc; subst this
      cases h
      rw [c01_xmlLive_tab as cs (c01_hk hg (by decide))]
      exact ⟨rfl, by simpa [c01_elemLeaves] using c01_Sim_atom _ .tab rfl⟩
    -- no-break hyphen
    c01_next
    · have := eq_of_beq hc; subst this
      cases h
      rw [c01_xmlLive_nbh as cs (c01_hk hg (by decide))]
      exact ⟨rfl, by simpa [c01_elemLeaves] using c01_Sim_atom _ (.text [Char.ofNat 0x2011]) rfl⟩
    -- soft hyphen
    c01_next
    · have := eq_of_beq hc; subst this
      cases h
      rw [c01_xmlLive_sh as cs (c01_hk hg (by decide))]
      exact ⟨rfl, by simpa [c01_elemLeaves] using c01_Sim_atom _ (.text [Char.ofNat 0xAD]) rfl⟩
    -- symbol
    c01_next
    · have := eq_of_beq hc; subst this
      rw [c01_xmlLive_sym as cs (c01_hk hg (by decide))]
      cases hs : readSymbol as with
      | error e => rw [hs] at h; cases h
      | ok r1 =>
        rw [hs] at h
        simp only [Except.map, Except.ok.injEq, Prod.mk.injEq] at h
        obtain ⟨rfl, rfl⟩ := h
        obtain ⟨h1, h2, h3⟩ := c01_readSymbol_leaves as r1 hs
        refine ⟨rfl, ?_, ?_⟩
        · have := c01_Pre_atoms nv r1.elements h2
          rw [h3] at this; exact this
        · rw [h1]; exact c01_Pre_nil _
    -- table
    c01_next
    · have := eq_of_beq hc; subst this
      rw [c01_hk hg (by decide : c01_handlerKind S!"table" = .through)] at hleaf; cases hleaf
    -- table row
    c01_next
    · have := eq_of_beq hc; subst this
      rw [c01_hk hg (by decide : c01_handlerKind S!"table_row" = .through)] at hleaf; cases hleaf
    -- table cell
    c01_next
    · have := eq_of_beq hc; subst this
      rw [c01_hk hg (by decide : c01_handlerKind S!"table_cell" = .through)] at hleaf; cases hleaf
    -- read-through containers
    c01_next
    · have := eq_of_beq hc; subst this
      rw [c01_hk hg (by decide : c01_handlerKind S!"read_child_elements" = .through)] at hleaf; cases hleaf
    -- text boxes
    c01_next
    · have := eq_of_beq hc; subst this
      rw [c01_hk hg (by decide : c01_handlerKind S!"pict" = .pict)] at hleaf; cases hleaf
    -- hyperlink
    c01_next
    · have := eq_of_beq hc; subst this
      rw [c01_hk hg (by decide : c01_handlerKind S!"hyperlink" = .through)] at hleaf; cases hleaf
    -- bookmark
    c01_next
    · have := eq_of_beq hc; subst this
      rw [c01_xmlLive_skip as cs (c01_hk hg (by decide))]
      split at h
      · cases h; exact ⟨rfl, c01_Sim_empty _⟩
      · cases h; exact ⟨rfl, c01_Sim_silent _ ⟨rfl, rfl, by simp [rrElems, c01_elemLeaves]⟩⟩
    -- break
    c01_next
    · have := eq_of_beq hc; subst this
      rw [c01_xmlLive_skip as cs (c01_hk hg (by decide))]
      cases h; exact ⟨rfl, c01_Sim_silent _ (c01_silent_break as)⟩
    -- DrawingML image
    c01_next
    · have := eq_of_beq hc; subst this
      rw [c01_xmlLive_skip as cs (c01_hk hg (by decide))]
      cases hs : readInline env cs with
      | error e => rw [hs] at h; cases h
      | ok r1 =>
        rw [hs] at h
        simp only [Except.map, Except.ok.injEq, Prod.mk.injEq] at h
        obtain ⟨rfl, rfl⟩ := h
        exact ⟨rfl, c01_Sim_silent _ (c01_silent_inline env cs r1 hs)⟩
    -- VML image
    c01_next
    · have := eq_of_beq hc; subst this
      rw [c01_xmlLive_skip as cs (c01_hk hg (by decide))]
      split at h
      · cases h; exact ⟨rfl, c01_Sim_silent _ (c01_silent_msg _)⟩
      · rename_i rid _
        cases hs : readEmbeddedImage env rid (attr? S!"o:title" as) with
        | error e => rw [hs] at h; cases h
        | ok r1 =>
          rw [hs] at h
          simp only [Except.map, Except.ok.injEq, Prod.mk.injEq] at h
          obtain ⟨rfl, rfl⟩ := h
          exact ⟨rfl, c01_Sim_silent _ (c01_silent_embedded env _ _ r1 hs)⟩
    -- note references
    c01_next
    · rw [Bool.or_eq_true] at hc
      rcases hc with hc | hc
      · have := eq_of_beq hc; subst this
        rw [c01_xmlLive_noteRef as cs (c01_hk (k := .noteRef S!"footnote") hg (by decide))]
        split at h
        · cases h
        · rename_i id hid
          cases h
          rw [hid]
          exact ⟨rfl, by simpa [c01_elemLeaves] using c01_Sim_atom _ (.noteRef S!"footnote" id) rfl⟩
      · have := eq_of_beq hc; subst this
        rw [c01_xmlLive_noteRef as cs (c01_hk (k := .noteRef S!"endnote") hg (by decide))]
        split at h
        · cases h
        · rename_i id hid
          cases h
          rw [hid]
          exact ⟨rfl, by simpa [c01_elemLeaves] using c01_Sim_atom _ (.noteRef S!"endnote" id) rfl⟩
    -- comment references
    c01_next
    · have := eq_of_beq hc; subst this
      rw [c01_xmlLive_commentRef as cs (c01_hk hg (by decide))]
      split at h
      · cases h
      · rename_i id hid
        cases h
        rw [hid]
        exact ⟨rfl, by simpa [c01_elemLeaves] using c01_Sim_atom _ (.commentRef id) rfl⟩
    -- alternate content
    c01_next
    · have := eq_of_beq hc; subst this
      rw [c01_hk hg (by decide : c01_handlerKind S!"alternate_content" = .alt)] at hleaf; cases hleaf
    -- structured document tags
    c01_next
    · have := eq_of_beq hc; subst this
      rw [c01_hk hg (by decide : c01_handlerKind S!"read_sdt" = .sdt)] at hleaf; cases hleaf
    · cases h

/-! ### the refinement statement -/

/-- starting in state `st`, the reader returned `r` and ended in `st'`; the specification, started with
    the buffer that stands for `st.deleted`, returned `s`:
    `r` carries the leaves of `s`, and the buffer of `s` stands for `st'.deleted` -/
structure c01_P2 (st : RState) (nvn : Bool) (s : c01_LiveD) (r : ReadResult) (st' : RState) : Prop where
  sim : c01_Sim (c01_noVMergeL st.deleted && nvn) r s.live
  buf : c01_pend st'.deleted = s.buf
  nv : (c01_noVMergeL st.deleted && nvn) = true → c01_noVMergeL st'.deleted = true

theorem c01_nv_mono {d nvn nvn' : Bool} (hm : nvn' = true → nvn = true) : (d && nvn') = true → (d && nvn) = true := by
  intro h; simp only [Bool.and_eq_true] at h ⊢; exact ⟨h.1, hm h.2⟩

theorem c01_P2_mono {st : RState} {nvn nvn' : Bool} {s : c01_LiveD} {r : ReadResult} {st' : RState}
    (hm : nvn' = true → nvn = true) (h : c01_P2 st nvn s r st') : c01_P2 st nvn' s r st' :=
  ⟨c01_Sim_mono (c01_nv_mono hm) h.sim, h.buf, fun hv => h.nv (c01_nv_mono hm hv)⟩

/-- one element, given the reader for lists of children -/
theorem c01_readBody_liveD (env : REnv) (ra : c05_RdAll)
    (ih : ∀ st ns r st', ra st ns = .ok (r, st') →
        c01_P2 st (c01_noVMergeL ns) (c01_xmlLiveDL (c01_pend st.deleted) ns) r st')
    (st : RState) (name : Str) (as : Attrs) (cs : List XmlNode) (r : ReadResult) (st' : RState)
    (h : c05_readBody env ra st name as cs = .ok (r, st')) :
    c01_P2 st (c01_noVMerge (.elem name as cs)) (c01_xmlLiveD (c01_pend st.deleted) (.elem name as cs)) r st' := by
  by_cases hleaf : c01_leafKind (c01_kindOf name) = true
  · -- leaves of the traversal
    obtain ⟨hd, hs⟩ := c01_readBody_leaf env ra st name as cs r st' h hleaf
      (c01_noVMergeL st.deleted && c01_noVMerge (.elem name as cs))
    rw [c01_xmlLiveD_leaf _ as cs hleaf]
    exact ⟨hs, by rw [hd], fun hv => by rw [hd]; simp only [Bool.and_eq_true] at hv; exact hv.1⟩
  have hnvc : c01_noVMerge (.elem name as cs) = true → c01_noVMergeL cs = true := by
    intro h; simp only [c01_noVMerge, Bool.and_eq_true] at h; exact h.2
  unfold c05_readBody at h
  cases hg : handlerOf name with
  | none => exact absurd (by rw [c01_kindOf_none hg]; rfl) hleaf
  | some g =>
    rw [hg] at h; dsimp only at h
    -- text
    c01_next
    · have := eq_of_beq hc; subst this
      exact absurd (by rw [c01_hk hg (by decide : c01_handlerKind S!"text" = .text)]; rfl) hleaf
    -- run
    c01_next
    · have := eq_of_beq hc; subst this
      rw [c01_xmlLiveD_through _ as cs (c01_hk hg (by decide))]
      obtain ⟨⟨r1, st1⟩, hra, h⟩ := c01_bind_ok h
      simp only [pure, Except.pure, Except.ok.injEq, Prod.mk.injEq] at h
      obtain ⟨rfl, rfl⟩ := h
      have hp := c01_P2_mono hnvc (ih _ _ _ _ hra)
      refine ⟨⟨c01_Pre_run _ ?_, hp.sim.2⟩, hp.buf, hp.nv⟩
      cases currentHyperlink st1.stack with
      | none => exact hp.sim.1
      | some kw => exact c01_Pre_hyperlink kw hp.sim.1
    -- paragraph
    c01_next
    · have := eq_of_beq hc; subst this
      rw [c01_xmlLiveD_paragraph _ as cs (c01_hk hg (by decide))]
      have key := c01_pend_key st.deleted cs
      unfold c01_delMark
      c01_next
      · -- the mark is deleted: the content joins the held-back nodes
        rw [if_pos hc]
        simp only [Except.ok.injEq, Prod.mk.injEq] at h
        obtain ⟨rfl, rfl⟩ := h
        refine ⟨c01_Sim_empty _, ?_, fun hv => ?_⟩
        · show c01_pend (st.deleted ++ cs) = _
          rw [← key.1, ← key.2]; rfl
        · show c01_noVMergeL (st.deleted ++ cs) = true
          simp only [Bool.and_eq_true] at hv
          rw [c01_noVMergeL_append, hv.1, hnvc hv.2]; rfl
      · rename_i hnc
        rw [if_neg hnc]
        obtain ⟨⟨r1, st1⟩, hra, h⟩ := c01_bind_ok h
        obtain ⟨num, _, h⟩ := c01_bind_ok h
        simp only [pure, Except.pure, Except.ok.injEq, Prod.mk.injEq] at h
        obtain ⟨rfl, rfl⟩ := h
        have hp := ih _ _ _ _ hra
        have hb : c01_pend ({ st with deleted := [] } : RState).deleted = [] := c01_pend_nil
        rw [hb] at hp
        have hsim := hp.sim
        have hbuf := hp.buf
        rw [key.1] at hsim
        rw [key.2] at hbuf
        have hmono : (c01_noVMergeL st.deleted && c01_noVMerge (.elem name as cs)) = true →
            (c01_noVMergeL ({ st with deleted := [] } : RState).deleted && c01_noVMergeL (st.deleted ++ cs)) = true := by
          intro hv
          simp only [Bool.and_eq_true] at hv
          show (c01_noVMergeL [] && c01_noVMergeL (st.deleted ++ cs)) = true
          rw [c01_noVMergeL_append, hv.1, hnvc hv.2]; rfl
        have hsim := c01_Sim_mono hmono hsim
        refine ⟨⟨?_, c01_Pre_nil _⟩, hbuf, fun hv => hp.nv (hmono hv)⟩
        exact c01_Pre_append (a := [_]) (c01_Pre_paragraph _ hsim.1) hsim.2
    -- complex-field characters
    c01_next
    · have := eq_of_beq hc; subst this
      exact absurd (by rw [c01_hk hg (by decide : c01_handlerKind S!"read_fld_char" = .skip)]; rfl) hleaf
    -- instruction text
    c01_next
    · have := eq_of_beq hc; subst this
      exact absurd (by rw [c01_hk hg (by decide : c01_handlerKind S!"read_instr_text" = .skip)]; rfl) hleaf
    -- tab
    c01_next
    · have := eq_of_beq hc; subst this
      exact absurd (by rw [c01_hk hg (by decide : c01_handlerKind S!"tab" = .tab)]; rfl) hleaf
    -- no-break hyphen
    c01_next
    · have := eq_of_beq hc; subst this
      exact absurd (by rw [c01_hk hg (by decide : c01_handlerKind S!"no_break_hyphen" = .noBreakHyphen)]; rfl) hleaf
    -- soft hyphen
    c01_next
    · have := eq_of_beq hc; subst this
      exact absurd (by rw [c01_hk hg (by decide : c01_handlerKind S!"soft_hyphen" = .softHyphen)]; rfl) hleaf
    -- symbol
    c01_next
    · have := eq_of_beq hc; subst this
      exact absurd (by rw [c01_hk hg (by decide : c01_handlerKind S!"symbol" = .sym)]; rfl) hleaf
    -- table
    c01_next
    · have := eq_of_beq hc; subst this
      rw [c01_xmlLiveD_through _ as cs (c01_hk hg (by decide))]
      obtain ⟨⟨r1, st1⟩, hra, h⟩ := c01_bind_ok h
      simp only [pure, Except.pure, Except.ok.injEq, Prod.mk.injEq] at h
      obtain ⟨rfl, rfl⟩ := h
      have hp := c01_P2_mono hnvc (ih _ _ _ _ hra)
      exact ⟨⟨c01_Pre_table _ _ hp.sim.1, hp.sim.2⟩, hp.buf, hp.nv⟩
    -- table row
    c01_next
    · have := eq_of_beq hc; subst this
      rw [c01_xmlLiveD_through _ as cs (c01_hk hg (by decide))]
      obtain ⟨⟨r1, st1⟩, hra, h⟩ := c01_bind_ok h
      simp only [pure, Except.pure, Except.ok.injEq, Prod.mk.injEq] at h
      obtain ⟨rfl, rfl⟩ := h
      have hp := c01_P2_mono hnvc (ih _ _ _ _ hra)
      exact ⟨⟨c01_Pre_row _ hp.sim.1, hp.sim.2⟩, hp.buf, hp.nv⟩
    -- table cell
    c01_next
    · have := eq_of_beq hc; subst this
      rw [c01_xmlLiveD_through _ as cs (c01_hk hg (by decide))]
      repeat' split at h
      all_goals
        obtain ⟨colspan, hcol, h⟩ := c01_bind_ok h
        first
        | (cases hcol; done)
        | (obtain ⟨⟨r1, st1⟩, hra, h⟩ := c01_bind_ok h
           simp only [pure, Except.pure, Except.ok.injEq, Prod.mk.injEq] at h
           obtain ⟨rfl, rfl⟩ := h
           have hp := c01_P2_mono hnvc (ih _ _ _ _ hra)
           refine ⟨⟨c01_Pre_cell _ _ _ (fun hv => ?_) hp.sim.1, hp.sim.2⟩, hp.buf, hp.nv⟩
           simp only [Bool.and_eq_true] at hv
           exact c01_cell_vm hg hv.2)
    -- read-through containers
    c01_next
    · have := eq_of_beq hc; subst this
      rw [c01_xmlLiveD_through _ as cs (c01_hk hg (by decide))]
      exact c01_P2_mono hnvc (ih _ _ _ _ h)
    -- text boxes
    c01_next
    · have := eq_of_beq hc; subst this
      rw [c01_xmlLiveD_pict _ as cs (c01_hk hg (by decide))]
      obtain ⟨⟨r1, st1⟩, hra, h⟩ := c01_bind_ok h
      simp only [pure, Except.pure, Except.ok.injEq, Prod.mk.injEq] at h
      obtain ⟨rfl, rfl⟩ := h
      have hp := c01_P2_mono hnvc (ih _ _ _ _ hra)
      exact ⟨⟨c01_Pre_nil _, c01_Pre_append hp.sim.2 hp.sim.1⟩, hp.buf, hp.nv⟩
    -- hyperlink
    c01_next
    · have := eq_of_beq hc; subst this
      rw [c01_xmlLiveD_through _ as cs (c01_hk hg (by decide))]
      obtain ⟨⟨r1, st1⟩, hra, h⟩ := c01_bind_ok h
      have hp := c01_P2_mono hnvc (ih _ _ _ _ hra)
      split at h
      · obtain ⟨href, _, h⟩ := c01_bind_ok h
        simp only [pure, Except.pure, Except.ok.injEq, Prod.mk.injEq] at h
        obtain ⟨rfl, rfl⟩ := h
        exact ⟨⟨c01_Pre_hyperlink _ hp.sim.1, hp.sim.2⟩, hp.buf, hp.nv⟩
      · split at h
        · simp only [pure, Except.pure, Except.ok.injEq, Prod.mk.injEq] at h
          obtain ⟨rfl, rfl⟩ := h
          exact ⟨⟨c01_Pre_hyperlink _ hp.sim.1, hp.sim.2⟩, hp.buf, hp.nv⟩
        · simp only [pure, Except.pure, Except.ok.injEq, Prod.mk.injEq] at h
          obtain ⟨rfl, rfl⟩ := h
          exact hp
    -- bookmark
    c01_next
    · have := eq_of_beq hc; subst this
      exact absurd (by rw [c01_hk hg (by decide : c01_handlerKind S!"bookmark_start" = .skip)]; rfl) hleaf
    -- break
    c01_next
    · have := eq_of_beq hc; subst this
      exact absurd (by rw [c01_hk hg (by decide : c01_handlerKind S!"break_" = .skip)]; rfl) hleaf
    -- DrawingML image
    c01_next
    · have := eq_of_beq hc; subst this
      exact absurd (by rw [c01_hk hg (by decide : c01_handlerKind S!"inline" = .skip)]; rfl) hleaf
    -- VML image
    c01_next
    · have := eq_of_beq hc; subst this
      exact absurd (by rw [c01_hk hg (by decide : c01_handlerKind S!"read_imagedata" = .skip)]; rfl) hleaf
    -- note references
    c01_next
    · rw [Bool.or_eq_true] at hc
      rcases hc with hc | hc
      · have := eq_of_beq hc; subst this
        exact absurd (by rw [c01_hk (k := .noteRef S!"footnote") hg (by decide)]; rfl) hleaf
      · have := eq_of_beq hc; subst this
        exact absurd (by rw [c01_hk (k := .noteRef S!"endnote") hg (by decide)]; rfl) hleaf
    -- comment references
    c01_next
    · have := eq_of_beq hc; subst this
      exact absurd (by rw [c01_hk hg (by decide : c01_handlerKind S!"read_comment_reference" = .commentRef)]; rfl) hleaf
    -- alternate content
    c01_next
    · have := eq_of_beq hc; subst this
      rw [c01_xmlLiveD_alt _ as cs (c01_hk hg (by decide))]
      exact c01_P2_mono (fun hv => c01_noVMergeL_findChild _ cs (hnvc hv)) (ih _ _ _ _ h)
    -- structured document tags
    c01_next
    · have := eq_of_beq hc; subst this
      rw [c01_xmlLiveD_sdt _ as cs (c01_hk hg (by decide))]
      unfold c01_isCheckboxSdt
      split at h
      · rename_i hcb
        cases h
        rw [hcb]
        exact ⟨c01_Sim_silent _ ⟨rfl, rfl, by simp [rrElems, c01_elemLeaves]⟩, rfl,
          fun hv => by simp only [Bool.and_eq_true] at hv; exact hv.1⟩
      · rename_i hcb
        rw [hcb]
        exact c01_P2_mono (fun hv => c01_noVMergeL_findChild _ cs (hnvc hv)) (ih _ _ _ _ h)
    · cases h

/-- a list of siblings, given the element reader -/
theorem c01_readAllWith_liveD (rd : c05_Rd)
    (hrd : ∀ st n r st', rd st n = .ok (r, st') →
        c01_P2 st (c01_noVMerge n) (c01_xmlLiveD (c01_pend st.deleted) n) r st') :
    ∀ (ns : List XmlNode) (st : RState) (r : ReadResult) (st' : RState),
      readAllWith rd st ns = .ok (r, st') →
      c01_P2 st (c01_noVMergeL ns) (c01_xmlLiveDL (c01_pend st.deleted) ns) r st'
  | [], st, r, st', h => by
    simp only [readAllWith, Except.ok.injEq, Prod.mk.injEq] at h
    obtain ⟨rfl, rfl⟩ := h
    rw [c01_xmlLiveDL_nil]
    exact ⟨c01_Sim_empty _, rfl, fun hv => by simp only [Bool.and_eq_true] at hv; exact hv.1⟩
  | .text s :: rest, st, r, st', h => by
    simp only [readAllWith] at h
    have := c01_readAllWith_liveD rd hrd rest st r st' h
    rw [c01_xmlLiveDL_cons, c01_xmlLiveD_text]
    simpa [c01_noVMergeL, c01_noVMerge] using this
  | .elem n as cs :: rest, st, r, st', h => by
    simp only [readAllWith] at h
    obtain ⟨⟨r1, st1⟩, h1, h⟩ := c01_bind_ok h
    obtain ⟨⟨r2, st2⟩, h2, h⟩ := c01_bind_ok h
    simp only [pure, Except.pure, Except.ok.injEq, Prod.mk.injEq] at h
    obtain ⟨rfl, rfl⟩ := h
    have p1 := hrd _ _ _ _ h1
    have p2 := c01_readAllWith_liveD rd hrd rest st1 r2 st2 h2
    rw [p1.buf] at p2
    rw [c01_xmlLiveDL_cons]
    have hv : (c01_noVMergeL st.deleted && c01_noVMergeL (.elem n as cs :: rest)) = true →
        (c01_noVMergeL st.deleted && c01_noVMerge (.elem n as cs)) = true ∧
        (c01_noVMergeL st1.deleted && c01_noVMergeL rest) = true := by
      intro hv
      simp only [c01_noVMergeL, Bool.and_eq_true] at hv
      have h1' : (c01_noVMergeL st.deleted && c01_noVMerge (.elem n as cs)) = true := by
        rw [hv.1, hv.2.1]; rfl
      exact ⟨h1', by rw [p1.nv h1', hv.2.2]; rfl⟩
    exact ⟨c01_Sim_concat (c01_Sim_mono (fun h' => (hv h').1) p1.sim) (c01_Sim_mono (fun h' => (hv h').2) p2.sim),
      p2.buf, fun h' => p2.nv (hv h').2⟩

/-- the element reader, for every amount of fuel -/
theorem c01_readElem_liveD (env : REnv) :
    ∀ (f : Nat) (st : RState) (n : XmlNode) (r : ReadResult) (st' : RState),
      readElem env f st n = .ok (r, st') →
      c01_P2 st (c01_noVMerge n) (c01_xmlLiveD (c01_pend st.deleted) n) r st'
  | f, st, .text s, r, st', h => by
    rw [c05_readElem_text] at h
    simp only [Except.ok.injEq, Prod.mk.injEq] at h
    obtain ⟨rfl, rfl⟩ := h
    rw [c01_xmlLiveD_text]
    exact ⟨c01_Sim_empty _, rfl, fun hv => by simp only [Bool.and_eq_true] at hv; exact hv.1⟩
  | 0, st, .elem name as cs, r, st', h => by
    rw [c05_readElem_zero] at h; cases h
  | f+1, st, .elem name as cs, r, st', h => by
    rw [c05_readElem_succ] at h
    exact c01_readBody_liveD env _
      (fun st ns r st' h1 => c01_readAllWith_liveD _ (c01_readElem_liveD env f) ns st r st' h1)
      st name as cs r st' h

/-- `read_all` -/
theorem c01_readAll_liveD (env : REnv) (f : Nat) (st : RState) (ns : List XmlNode) (r : ReadResult) (st' : RState)
    (h : readAll env f st ns = .ok (r, st')) :
    c01_P2 st (c01_noVMergeL ns) (c01_xmlLiveDL (c01_pend st.deleted) ns) r st' :=
  c01_readAllWith_liveD _ (c01_readElem_liveD env f) ns st r st' h

/-! ### without deleted marks the two specifications agree -/

theorem c01_delMark_noDel {name : Str} {cs : List XmlNode} (hk : c01_kindOf name = .paragraph)
    (h : c05_elemNoDel name cs = true) : c01_delMark cs = false := by
  unfold c05_elemNoDel at h
  unfold c01_delMark
  cases hg : handlerOf name with
  | none => rw [c01_kindOf_none hg] at hk; cases hk
  | some g =>
    have hk' := (c01_kindOf_handler hg).symm.trans hk
    have hgp : g = S!"paragraph" := by
      have hm := c05_lookupLast_mem _ _ _ hg
      have hall : Generated.handlers.all
          (fun p => decide (c01_handlerKind p.2 = .paragraph → p.2 = S!"paragraph")) = true := by decide
      have := List.all_eq_true.mp hall _ hm
      simp only [decide_eq_true_eq] at this
      exact this hk'
    subst hgp
    rw [hg] at h
    simpa using h

mutual
theorem c01_xmlLiveD_noDel (n : XmlNode) (h : c05_noDel n = true) :
    c01_xmlLiveD [] n = ⟨c01_xmlLive n, []⟩ := by
  match n with
  | .text s => simp
  | .elem name as cs =>
    simp only [c05_noDel, Bool.and_eq_true] at h
    have ih := c01_xmlLiveDL_noDel cs h.2
    by_cases hleaf : c01_leafKind (c01_kindOf name) = true
    · exact c01_xmlLiveD_leaf _ as cs hleaf
    · cases hk : c01_kindOf name with
      | through => rw [c01_xmlLiveD_through _ as cs hk, c01_xmlLive_through as cs hk, ih]
      | paragraph =>
        rw [c01_xmlLiveD_paragraph _ as cs hk, c01_xmlLive_paragraph as cs hk, c01_delMark_noDel hk h.1]
        simp [ih]
      | pict => rw [c01_xmlLiveD_pict _ as cs hk, c01_xmlLive_pict as cs hk, ih]
      | alt =>
        simp only [c01_xmlLiveD, c01_xmlLive, hk]
        exact c01_xmlLiveDIn_noDel _ cs h.2
      | sdt =>
        simp only [c01_xmlLiveD, c01_xmlLive, hk]
        split
        · rfl
        · exact c01_xmlLiveDIn_noDel _ cs h.2
      | _ => rw [hk] at hleaf; exact absurd rfl hleaf
theorem c01_xmlLiveDL_noDel (ns : List XmlNode) (h : c05_noDelL ns = true) :
    c01_xmlLiveDL [] ns = ⟨c01_xmlLiveL ns, []⟩ := by
  match ns with
  | [] => simp
  | n :: ns =>
    simp only [c05_noDelL, Bool.and_eq_true] at h
    rw [c01_xmlLiveDL_cons, c01_xmlLiveD_noDel n h.1, c01_xmlLiveDL_noDel ns h.2, c01_xmlLiveL_cons]
theorem c01_xmlLiveDIn_noDel (child : Str) (ns : List XmlNode) (h : c05_noDelL ns = true) :
    c01_xmlLiveDIn child [] ns = ⟨c01_xmlLiveIn child ns, []⟩ := by
  match ns with
  | [] => simp [c01_xmlLiveDIn, c01_xmlLiveIn]
  | .text s :: rest =>
    simp only [c05_noDelL, Bool.and_eq_true] at h
    simp only [c01_xmlLiveDIn, c01_xmlLiveIn]
    exact c01_xmlLiveDIn_noDel child rest h.2
  | .elem n as cs :: rest =>
    simp only [c05_noDelL, c05_noDel, Bool.and_eq_true] at h
    simp only [c01_xmlLiveDIn, c01_xmlLiveIn]
    split
    · exact c01_xmlLiveDL_noDel cs h.1.2
    · exact c01_xmlLiveDIn_noDel child rest h.2
end

end Mammoth
