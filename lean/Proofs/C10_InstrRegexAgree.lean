/-
  C10 helpers: the three regexes of `parse_instr_text` (mammoth/docx/body_xml.py) as values of the
  cost model, as deterministic item sequences, and their agreement with the hand-written
  recognisers `matchExternalLink`, `matchInternalLink`, `matchCheckbox` of MammothModel/Reader.lean
  on EVERY instruction string: same decision, same group 1, linear cost.
-/
import Proofs.C10_InstrRegex
import Proofs.C10_Instr
namespace Mammoth

/-! ### the values -/

/-- `[^"]` -/
def c10_ccNotDq : C07Class := .nset [('"', '"')]

/-- the characters of a word, then `r` -/
def c10_word : Str → C07Regex → C07Regex
  | [], r => r
  | c :: cs, r => .seq (.chr (.lit c)) (c10_word cs r)

/-- `\s*HYPERLINK\s+"([^"]*)"` -/
def c10_rxExternal : C07Regex :=
  .seq (.star (.chr c07_ccSpace)) (c10_word S!"HYPERLINK"
    (.seq (C07Regex.plus (.chr c07_ccSpace)) (.seq (.chr (.lit '"'))
      (.seq (.star (.chr c10_ccNotDq)) (.chr (.lit '"'))))))

/-- `\s*HYPERLINK\s+\\l\s+"([^"]*)"` -/
def c10_rxInternal : C07Regex :=
  .seq (.star (.chr c07_ccSpace)) (c10_word S!"HYPERLINK"
    (.seq (C07Regex.plus (.chr c07_ccSpace)) (c10_word S!"\\l"
      (.seq (C07Regex.plus (.chr c07_ccSpace)) (.seq (.chr (.lit '"'))
        (.seq (.star (.chr c10_ccNotDq)) (.chr (.lit '"'))))))))

/-- `\s*FORMCHECKBOX\s*` -/
def c10_rxCheckbox : C07Regex :=
  .seq (.star (.chr c07_ccSpace)) (c10_word S!"FORMCHECKBOX" (.star (.chr c07_ccSpace)))

/-- `\s*HYPERLINK\s+"` `(` `[^"]*` `)` `"` -/
def c10_giExternal : C10GroupedItems :=
  { pre := .star c07_ccSpace :: (c10_lits S!"HYPERLINK" ++ [.plus c07_ccSpace, .lit '"']),
    body := [.star c10_ccNotDq],
    post := [.lit '"'] }

/-- `\s*HYPERLINK\s+\\l\s+"` `(` `[^"]*` `)` `"` -/
def c10_giInternal : C10GroupedItems :=
  { pre := .star c07_ccSpace :: (c10_lits S!"HYPERLINK" ++
      (.plus c07_ccSpace :: (c10_lits S!"\\l" ++ [.plus c07_ccSpace, .lit '"']))),
    body := [.star c10_ccNotDq],
    post := [.lit '"'] }

def c10_itemsCheckbox : List C10Item :=
  .star c07_ccSpace :: (c10_lits S!"FORMCHECKBOX" ++ [.star c07_ccSpace])

def c10_groupExternal : C10Grouped := c10_giExternal.grouped
def c10_groupInternal : C10Grouped := c10_giInternal.grouped

theorem c10_groupExternal_regex : c10_groupExternal.regex = c10_rxExternal := by decide
theorem c10_groupInternal_regex : c10_groupInternal.regex = c10_rxInternal := by decide
theorem c10_itemsCheckbox_regex : c10_itemsRx c10_itemsCheckbox = c10_rxCheckbox := by decide

theorem c10_giExternal_det : c10_giExternal.det = true := by decide
theorem c10_giInternal_det : c10_giInternal.det = true := by decide
theorem c10_itemsCheckbox_det : c10_det c10_itemsCheckbox = true := by decide

/-! ### the source text: where the parentheses are -/

/-- split a regex source at its first `(` and the first `)` after it: (before, inside, after).
    Meant for sources with one plain group and no escaped parenthesis; on anything else the parts
    do not parse to the expected values and the theorems that use it stop checking. -/
def c10_splitGroup (src : Str) : Option (Str × Str × Str) :=
  match src.dropWhile (· != '(') with
  | _ :: r =>
    (match r.dropWhile (· != ')') with
     | _ :: r' => some (src.takeWhile (· != '('), r.takeWhile (· != ')'), r')
     | [] => none)
  | [] => none

/-- the source `src` is `pre ( body ) post` with exactly the parts of `g` -/
def c10_sourceIsGrouped (src : Str) (g : C10Grouped) : Bool :=
  match c10_splitGroup src with
  | some (a, b, c) =>
    c07_parseRegex a == some (c07_mkSeq g.pre) && c07_parseRegex b == some g.body &&
      c07_parseRegex c == some (c07_mkSeq g.post)
  | none => false

/-! ### group 1 and `exec` of a deterministic grouped sequence -/

theorem c10_gi_exec (g : C10GroupedItems) (h : g.det = true) (s : Str) :
    (g.grouped.regex.exec s).2 = (g.interp s).map (·.2.2) ∧
    g.grouped.regex.steps s ≤ 3 * s.length + 2 * (g.pre.length + g.body.length + g.post.length) := by
  unfold C07Regex.steps
  rw [c10_grouped_exec]
  exact c10_groupedItems_run g h s _

theorem c10_gi_group1 (g : C10GroupedItems) (h : g.det = true) (s : Str) :
    g.grouped.group1 s = (g.interp s).map fun t => t.1.take (t.1.length - t.2.1.length) := by
  unfold C10Grouped.group1
  rw [(c10_groupedItems_run g h s _).1, (c10_groupedItems_run g h s _).1]
  cases g.interp s <;> rfl

/-! ### `c10_interp` in the words of the hand-written recognisers -/

theorem c10_take_of_split (m r s : Str) (h : m ++ r = s) : s.take (s.length - r.length) = m := by
  subst h; simp

theorem c10_dropWhile_isSpace (s : Str) : s.dropWhile isSpace = lstripWs s := by
  induction s with
  | nil => rfl
  | cons c cs ih =>
    by_cases h : isSpace c = true
    · simp only [List.dropWhile_cons_of_pos h, lstripWs, h, if_true, ih]
    · have h' : isSpace c = false := by simpa using h
      simp [List.dropWhile, lstripWs, h']

theorem c10_dropWhile_space (s : Str) : s.dropWhile c07_ccSpace.test = lstripWs s := by
  rw [c07_test_space]; exact c10_dropWhile_isSpace s

theorem c10_interp_starWs (r : List C10Item) (s : Str) :
    c10_interp (.star c07_ccSpace :: r) s = c10_interp r (lstripWs s) := by
  simp only [c10_interp, c10_dropWhile_space]

theorem c10_interp_plusWs (r : List C10Item) (s : Str) :
    c10_interp (.plus c07_ccSpace :: r) s = (ws1 s).bind (c10_interp r) := by
  cases s with
  | nil => rfl
  | cons c cs =>
    simp only [c10_interp, ws1, skipWs, c07_test_space, c10_dropWhile_isSpace]
    by_cases h : isSpace c = true
    · simp [h]
    · have h' : isSpace c = false := by simpa using h
      simp [h']

theorem c10_interp_lits (w : Str) (r : List C10Item) : ∀ s : Str,
    c10_interp (c10_lits w ++ r) s = (stripPrefix? s w).bind (c10_interp r) := by
  induction w with
  | nil => intro s; cases s <;> rfl
  | cons p ps ih =>
    intro s
    cases s with
    | nil => simp [c10_lits, stripPrefix?, c10_interp]
    | cons c cs =>
      have := ih cs
      simp only [c10_lits] at this
      simp only [c10_lits, List.map_cons, List.cons_append, c10_interp, stripPrefix?]
      by_cases h : (c == p) = true
      · simp only [h, if_true]; exact this
      · have h' : (c == p) = false := by simpa using h
        simp [h']

/-- what is left after a `"` -/
def c10_afterDq : Str → Option Str
  | c :: cs => if c == '"' then some cs else none
  | [] => none

theorem c10_interp_dq (s : Str) : c10_interp [.lit '"'] s = c10_afterDq s := by
  cases s with
  | nil => rfl
  | cons c cs => simp only [c10_interp, c10_afterDq]

theorem c10_test_notDq (c : Char) : c10_ccNotDq.test c = (c != '"') := by
  simp [c10_ccNotDq, C07Class.test, c07_inRanges_single, c07_inRanges_nil, bne]

theorem c10_test_notDq' : c10_ccNotDq.test = (· != '"') := by
  funext c; exact c10_test_notDq c

theorem c10_dropWhile_head (p : Char → Bool) : ∀ (l : Str) (d : Char) (ds : Str),
    l.dropWhile p = d :: ds → p d = false := by
  intro l
  induction l with
  | nil => intro d ds h; simp at h
  | cons c cs ih =>
    intro d ds h
    by_cases hc : p c = true
    · rw [List.dropWhile_cons_of_pos hc] at h; exact ih d ds h
    · have hc' : p c = false := by simpa using hc
      rw [List.dropWhile_cons_of_neg (by simp [hc'])] at h
      simp only [List.cons.injEq] at h
      rw [← h.1]; exact hc'

/-- the tail `( [^"]* ) "` of both link regexes, from the input after the opening quote: the group -/
def c10_quotedGroup (s1 : Str) : Option Str :=
  match c10_afterDq (s1.dropWhile c10_ccNotDq.test) with
  | some _ => some (s1.take (s1.length - (s1.dropWhile c10_ccNotDq.test).length))
  | none => none

theorem c10_quoted_eq (r : Str) : quoted r = (c10_afterDq r).bind c10_quotedGroup := by
  cases r with
  | nil => rfl
  | cons c cs =>
    by_cases hc : c = '"'
    · subst hc
      simp only [quoted, c10_afterDq, beq_self_eq_true, if_true, Option.bind_some, c10_quotedGroup,
        c10_test_notDq']
      have hsplit := List.takeWhile_append_dropWhile (p := (· != '"')) (l := cs)
      have hlen := congrArg List.length hsplit
      simp only [List.length_append] at hlen
      cases hd : cs.dropWhile (· != '"') with
      | nil =>
        rw [hd] at hlen
        simp only [List.length_nil, Nat.add_zero] at hlen
        simp [hlen]
      | cons d ds =>
        have hq := c10_dropWhile_head _ cs d ds hd
        have hq' : d = '"' := by simpa using hq
        subst hq'
        rw [hd] at hlen hsplit
        simp only [List.length_cons] at hlen
        have hlt : (cs.takeWhile (· != '"')).length < cs.length := by omega
        simp only [beq_self_eq_true, if_true, hlt, List.length_cons]
        congr 1
        exact (c10_take_of_split _ ('"' :: ds) cs hsplit).symm
    · have hc' : (c == '"') = false := by simpa using hc
      simp only [c10_afterDq, hc']
      unfold quoted
      split
      · rename_i h; simp only [List.cons.injEq] at h; exact absurd h.1 hc
      · rfl

/-- the part of a grouped link regex after the opening quote -/
theorem c10_gi_tail (s1 : Str) :
    (match c10_interp [.star c10_ccNotDq] s1 with
     | none => none
     | some s2 =>
       match c10_afterDq s2 with
       | none => none
       | some s3 => some (s1, s2, s3)).map (fun t : Str × Str × Str => t.1.take (t.1.length - t.2.1.length)) =
    c10_quotedGroup s1 := by
  simp only [c10_interp, c10_quotedGroup]
  cases c10_afterDq (s1.dropWhile c10_ccNotDq.test) <;> rfl

/-! ### agreement -/

theorem c10_external_group1 (s : Str) : c10_groupExternal.group1 s = matchExternalLink s := by
  unfold c10_groupExternal
  rw [c10_gi_group1 _ c10_giExternal_det]
  unfold C10GroupedItems.interp matchExternalLink
  simp only [c10_giExternal, c10_interp_starWs, c10_interp_lits, skipWs, Option.bind_eq_bind]
  cases stripPrefix? (lstripWs s) S!"HYPERLINK" with
  | none => rfl
  | some r =>
    simp only [Option.bind_some, c10_interp_plusWs]
    cases ws1 r with
    | none => rfl
    | some r1 =>
      simp only [Option.bind_some, c10_interp_dq, c10_quoted_eq]
      cases c10_afterDq r1 with
      | none => rfl
      | some s1 => simp only [Option.bind_some]; exact c10_gi_tail s1

theorem c10_internal_group1 (s : Str) : c10_groupInternal.group1 s = matchInternalLink s := by
  unfold c10_groupInternal
  rw [c10_gi_group1 _ c10_giInternal_det]
  unfold C10GroupedItems.interp matchInternalLink
  simp only [c10_giInternal, c10_interp_starWs, c10_interp_lits, skipWs, Option.bind_eq_bind]
  cases stripPrefix? (lstripWs s) S!"HYPERLINK" with
  | none => rfl
  | some r =>
    simp only [Option.bind_some, c10_interp_plusWs]
    cases ws1 r with
    | none => rfl
    | some r1 =>
      simp only [Option.bind_some, c10_interp_lits]
      cases stripPrefix? r1 S!"\\l" with
      | none => rfl
      | some r2 =>
        simp only [Option.bind_some, c10_interp_plusWs]
        cases ws1 r2 with
        | none => rfl
        | some r3 =>
          simp only [Option.bind_some, c10_interp_dq, c10_quoted_eq]
          cases c10_afterDq r3 with
          | none => rfl
          | some s1 => simp only [Option.bind_some]; exact c10_gi_tail s1

/-- a regex with a group matches exactly when its group 1 is set (the group is not optional) -/
theorem c10_gi_matches_iff (g : C10GroupedItems) (h : g.det = true) (s : Str) :
    (g.grouped.regex.exec s).2.isSome = (g.grouped.group1 s).isSome := by
  rw [(c10_gi_exec g h s).1, c10_gi_group1 g h s]
  cases g.interp s <;> rfl

theorem c10_external_matches (s : Str) :
    (c10_rxExternal.exec s).2.isSome = (matchExternalLink s).isSome := by
  rw [← c10_groupExternal_regex, ← c10_external_group1]
  exact c10_gi_matches_iff _ c10_giExternal_det s

theorem c10_internal_matches (s : Str) :
    (c10_rxInternal.exec s).2.isSome = (matchInternalLink s).isSome := by
  rw [← c10_groupInternal_regex, ← c10_internal_group1]
  exact c10_gi_matches_iff _ c10_giInternal_det s

theorem c10_checkbox_matches (s : Str) :
    (c10_rxCheckbox.exec s).2.isSome = matchCheckbox s := by
  rw [← c10_itemsCheckbox_regex, (c10_items_exec _ c10_itemsCheckbox_det s).1]
  unfold matchCheckbox
  simp only [c10_itemsCheckbox, c10_interp_starWs, c10_interp_lits, skipWs]
  cases stripPrefix? (lstripWs s) S!"FORMCHECKBOX" with
  | none => rfl
  | some r => simp [c10_interp]

/-! ### cost -/

theorem c10_external_steps (s : Str) : c10_rxExternal.steps s ≤ 3 * s.length + 28 := by
  rw [← c10_groupExternal_regex]
  exact (c10_gi_exec _ c10_giExternal_det s).2

theorem c10_internal_steps (s : Str) : c10_rxInternal.steps s ≤ 3 * s.length + 34 := by
  rw [← c10_groupInternal_regex]
  exact (c10_gi_exec _ c10_giInternal_det s).2

theorem c10_checkbox_steps (s : Str) : c10_rxCheckbox.steps s ≤ 3 * s.length + 28 := by
  rw [← c10_itemsCheckbox_regex]
  exact (c10_items_exec _ c10_itemsCheckbox_det s).2

/-! ### `parse_instr_text` as the code runs it -/

/-- the index of the first regex that matches (`re.match`: anchored at the start only) -/
def c10_firstMatching : List C07Regex → Str → Option Nat
  | [], _ => none
  | r :: rs, s => if (r.exec s).2.isSome then some 0 else (c10_firstMatching rs s).map (· + 1)

/-- every regex source of a list parsed; `none` if one is outside the fragment -/
def c10_parseAll : List Str → Option (List C07Regex)
  | [] => some []
  | src :: rest =>
    match c07_parseRegex src, c10_parseAll rest with
    | some r, some rs => some (r :: rs)
    | _, _ => none

/-- the regexes of `parse_instr_text` as they are in body_xml.py today -/
def c10_instrRules : Option (List C07Regex) := c10_parseAll Generated.instrRegexes

/-- which branch of `parse_instr_text` is taken -/
inductive C10InstrKind where
  | external (href : Option Str)
  | internal (anchor : Option Str)
  | checkbox
  | other
deriving DecidableEq, Repr

/-- the decision of `parse_instr_text` with the three regexes `rules` tried in order; the link
    branches take `group(1)` of their regex -/
def c10_instrKindRx (rules : List C07Regex) (s : Str) : C10InstrKind :=
  match c10_firstMatching rules s with
  | some 0 => .external (c10_groupExternal.group1 s)
  | some 1 => .internal (c10_groupInternal.group1 s)
  | some 2 => .checkbox
  | _ => .other

/-- the decision of the hand-written `parseInstrText` -/
def c10_instrKind (s : Str) : C10InstrKind :=
  match matchExternalLink s with
  | some u => .external (some u)
  | none =>
    match matchInternalLink s with
    | some a => .internal (some a)
    | none => if matchCheckbox s then .checkbox else .other

theorem c10_instrKind_eq (s : Str) :
    c10_instrKindRx [c10_rxExternal, c10_rxInternal, c10_rxCheckbox] s = c10_instrKind s := by
  unfold c10_instrKindRx c10_instrKind
  simp only [c10_firstMatching, c10_external_matches, c10_internal_matches, c10_checkbox_matches,
    c10_external_group1, c10_internal_group1]
  cases matchExternalLink s with
  | some u => rfl
  | none =>
    cases matchInternalLink s with
    | some a => rfl
    | none => cases matchCheckbox s <;> rfl

/-- `parseInstrText` is its decision followed by the reading of the check box state -/
theorem c10_parseInstrText_kind (s : Str) (cs : List XmlNode) :
    parseInstrText s cs =
      match c10_instrKind s with
      | .external href => .hyperlink { href := href }
      | .internal anchor => .hyperlink { anchor := anchor }
      | .checkbox => parseInstrText S!"FORMCHECKBOX" cs
      | .other => .unknown := by
  unfold parseInstrText c10_instrKind
  cases matchExternalLink s with
  | some u => rfl
  | none =>
    cases matchInternalLink s with
    | some a => rfl
    | none => cases matchCheckbox s <;> rfl

end Mammoth
