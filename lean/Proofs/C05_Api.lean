/-
  C05 — where an error of `apiConvert` can come from (the writer stage is total).
-/
import Proofs.C05_ConvertTotal
import MammothModel.Package
namespace Mammoth

/-- the converter configuration `apiConvert` builds -/
def c05_apiCfg (p : Package) (base : Option Str) (world : Str → Option Bytes) (o : Options) (embedded : Option Str) : Cfg :=
  { styleMap := (readOptions o.styleMap embedded o.includeDefault).1, idPrefix := o.idPrefix.getD [],
    ignoreEmpty := o.ignoreEmpty, imageConv := o.imageConv, archive := archiveBytes p, base := base, world := world }

theorem c05_bind_err {α β} (x : Except Err α) (f : α → Except Err β) (e : Err)
    (h : (x >>= f) = .error e) : x = .error e ∨ ∃ a, x = .ok a ∧ f a = .error e := by
  cases x with
  | error e' => simp only [bind, Except.bind] at h; cases h; left; rfl
  | ok a => right; exact ⟨a, rfl, h⟩

theorem c05_apiConvert_err (p : Package) (fuel : Nat) (base : Option Str) (world : Str → Option Bytes)
    (transform : Document → Document) (o : Options) (e : Err)
    (h : apiConvert p fuel base world transform o = .error e) :
    (o.includeEmbedded = true ∧ readEmbeddedStyleMap p = .error e) ∨
    readPackage p fuel = .error e ∨
    ∃ emb doc msgs, readPackage p fuel = .ok (doc, msgs) ∧
      convertDoc (c05_apiCfg p base world o emb) (transform doc) = .error e := by
  unfold apiConvert at h
  dsimp only at h
  have key : ∀ emb, (do
      let __x ← readPackage p fuel
      let r ← convertDoc (c05_apiCfg p base world o emb) (transform __x.fst)
      (pure
          { value := writeWith o.format (collapse (stripEmpty r.nodes)),
            messages := unique ((readOptions o.styleMap emb o.includeDefault).snd ++ __x.snd ++ r.messages),
            nodes := r.nodes, document := transform __x.fst, ioTrace := r.ioTrace, imageCalls := r.imageCalls }
          : Except Err ApiOut)) = .error e →
      readPackage p fuel = .error e ∨
      ∃ doc msgs, readPackage p fuel = .ok (doc, msgs) ∧
        convertDoc (c05_apiCfg p base world o emb) (transform doc) = .error e := by
    intro emb h
    rcases c05_bind_err _ _ _ h with h1 | ⟨⟨doc, msgs⟩, h1, h2⟩
    · left; exact h1
    · right
      refine ⟨doc, msgs, h1, ?_⟩
      rcases c05_bind_err _ _ _ h2 with h3 | ⟨r, _, h4⟩
      · exact h3
      · cases h4
  split at h
  · rcases c05_bind_err _ _ _ h with h1 | ⟨emb, h1, h2⟩
    · left; exact ⟨by assumption, h1⟩
    · right
      rcases key emb h2 with h3 | ⟨doc, msgs, h3, h4⟩
      · left; exact h3
      · right; exact ⟨emb, doc, msgs, h3, h4⟩
  · right
    rcases key none h with h3 | ⟨doc, msgs, h3, h4⟩
    · left; exact h3
    · right; exact ⟨none, doc, msgs, h3, h4⟩

end Mammoth
