/-
  C12 (conversion) — converting the file after `embed_style_map(file, s)` equals converting the original
  with `style_map = s` and the embedded map left out; `extract_raw_text` is unchanged.
-/
import Proofs.C12_ConvPackage
namespace Mammoth

/-! ### UTF-8: the model's `bytes.decode` inverts `utf8Encode` -/

theorem c12_utf8EncodeChar_core (c : Char) : utf8EncodeChar c = String.utf8EncodeChar c := by
  unfold utf8EncodeChar String.utf8EncodeChar
  have hv : c.val.toNat = c.toNat := rfl
  simp only [hv]
  have hc := c12_char_valid c
  by_cases h1 : c.toNat < 0x80
  · have h1' : c.toNat ≤ 0x7f := by omega
    simp only [h1, h1', if_true]
  · have h1' : ¬ c.toNat ≤ 0x7f := by omega
    simp only [h1, h1', if_false]
    by_cases h2 : c.toNat < 0x800
    · have h2' : c.toNat ≤ 0x7ff := by omega
      simp only [h2, h2', if_true]
      have e1 : c.toNat / 64 % 0x20 = c.toNat / 64 := by omega
      simp only [e1, Nat.toUInt8, Nat.add_comm]
    · have h2' : ¬ c.toNat ≤ 0x7ff := by omega
      simp only [h2, h2', if_false]
      by_cases h3 : c.toNat < 0x10000
      · have h3' : c.toNat ≤ 0xffff := by omega
        simp only [h3, h3', if_true]
        have e1 : c.toNat / 4096 % 0x10 = c.toNat / 4096 := by omega
        simp only [e1, Nat.toUInt8, Nat.add_comm]
      · have h3' : ¬ c.toNat ≤ 0xffff := by omega
        simp only [h3, h3', if_false]
        have e1 : c.toNat / 262144 % 0x08 = c.toNat / 262144 := by omega
        simp only [e1, Nat.toUInt8, Nat.add_comm]

theorem c12_utf8Encode_core (s : Str) : utf8Encode s = s.flatMap String.utf8EncodeChar := by
  induction s with
  | nil => rfl
  | cons c cs ih => simp only [utf8Encode, List.flatMap_cons, ih, c12_utf8EncodeChar_core]

/-- `Package.lean`'s `bytes.decode("utf8")` (Lean's `String.fromUTF8?`) inverts `str.encode("utf8")` -/
theorem c12_utf8Decode_encode (s : Str) : utf8Decode (utf8Encode s) = some s := by
  unfold utf8Decode
  have hb : ByteArray.mk (utf8Encode s).toArray = s.utf8Encode := by
    rw [c12_utf8Encode_core]
    apply ByteArray.ext
    show _ = (List.toByteArray _).data
    rw [List.data_toByteArray]
  rw [hb]
  have hv : s.utf8Encode.IsValidUTF8 := ByteArray.isValidUTF8_utf8Encode
  unfold String.fromUTF8?
  rw [dif_pos hv]
  simp only [Option.map_some, Option.some.injEq]
  have : String.fromUTF8 s.utf8Encode hv = String.ofList s := by
    apply String.toByteArray_inj.mp
    rw [String.toByteArray_ofList]
    rfl
  rw [this, String.toList_ofList]

/-! ### the embedded style map is read back -/

theorem c12_readEmbeddedStyleMap_embedded (p : Package) (s : Str) (r' t' : XmlNode) :
    readEmbeddedStyleMap (c12_embedded p s r' t') = .ok (some s) := by
  unfold readEmbeddedStyleMap
  rw [show S!"mammoth/style-map" = styleMapPath from rfl, c12_embedded_sm]
  simp only [c12_utf8Decode_encode]

/-- `read_options`: the map as `style_map=` with no embedded map, or as the embedded map with no
    `style_map=`, gives the same style map and the same messages -/
theorem c12_readOptions_swap (s : Str) (d : Bool) : readOptions none (some s) d = readOptions (some s) none d := by
  have h0 : readStyleMap [] = ([], []) := by decide +kernel
  unfold readOptions
  simp only [Option.getD_none, Option.getD_some, h0, List.nil_append, List.append_nil]

/-! ### the bytes of the zip entries -/

/-- the content of an entry as `archiveBytes` should give it -/
def c12_bytesOf : Option Part → Option Bytes
  | some (.bytes b) => some b
  | _ => none

/-- `archiveBytes` agrees with the last-entry-wins content of the package: every entry name that has a
    `bytes` entry and an `xml` entry has the `bytes` one last … in short, true whenever the entry names
    are unique (`c12_archiveOk_of_nodup`) -/
def c12_archiveOk (p : Package) : Bool :=
  p.parts.all fun x => lookupLast x.1 (archiveBytes p) == c12_bytesOf (lookupLast x.1 p.parts)

theorem c12_archiveBytes_cons (k : Str) (v : Part) (rest : List (Str × Part)) :
    archiveBytes ⟨(k, v) :: rest⟩ =
      (match v with | .bytes b => [(k, b)] | .xml _ => []) ++ archiveBytes ⟨rest⟩ := by
  unfold archiveBytes
  cases v <;> simp

theorem c12_archiveBytes_none (name : Str) (parts : List (Str × Part))
    (h : lookupLast name parts = none) : lookupLast name (archiveBytes ⟨parts⟩) = none := by
  induction parts with
  | nil => rfl
  | cons x rest ih =>
    obtain ⟨k, v⟩ := x
    simp only [lookupLast] at h
    cases hl : lookupLast name rest with
    | some w => rw [hl] at h; cases h
    | none =>
      rw [hl] at h
      have hne : name ≠ k := by
        intro e; subst e; simp at h
      rw [c12_archiveBytes_cons]
      cases v with
      | bytes b => simp only [List.cons_append, List.nil_append, lookupLast, ih hl, hne, if_false]
      | xml x => simp only [List.nil_append, ih hl]

theorem c12_archiveOk_of_nodup (parts : List (Str × Part)) (h : strsNodup (parts.map (·.1)) = true)
    (name : Str) : lookupLast name (archiveBytes ⟨parts⟩) = c12_bytesOf (lookupLast name parts) := by
  induction parts with
  | nil => rfl
  | cons x rest ih =>
    obtain ⟨k, v⟩ := x
    simp only [List.map_cons, strsNodup, Bool.and_eq_true, Bool.not_eq_true'] at h
    have ih' := ih h.2
    have hk : lookupLast k rest = none := by
      rw [c12_lookupLast_none]
      intro hm
      have : (rest.map (·.1)).contains k = true := by simpa using hm
      rw [this] at h; cases h.1
    rw [c12_archiveBytes_cons]
    by_cases hn : name = k
    · subst hn
      simp only [lookupLast, hk]
      cases v with
      | bytes b =>
        simp only [List.cons_append, List.nil_append, lookupLast, c12_archiveBytes_none _ _ hk, if_true]
        rfl
      | xml x => simp only [List.nil_append, c12_archiveBytes_none _ _ hk, if_true]; rfl
    · simp only [lookupLast, hn, if_false]
      have hgoal : ∀ (o : Option Part), lookupLast name (archiveBytes ⟨rest⟩) = c12_bytesOf o →
          lookupLast name ((match v with | .bytes b => [(k, b)] | .xml _ => []) ++ archiveBytes ⟨rest⟩)
            = c12_bytesOf o := by
        intro o ho
        rw [← ho]
        cases v with
        | bytes b =>
          simp only [List.cons_append, List.nil_append, lookupLast, hn, if_false]
          cases lookupLast name (archiveBytes ⟨rest⟩) <;> rfl
        | xml x => simp only [List.nil_append]
      cases hl : lookupLast name rest with
      | none => rw [hl] at ih'; exact hgoal none ih'
      | some w => rw [hl] at ih'; exact hgoal (some w) ih'

theorem c12_archiveOk_use (p : Package) (h : c12_archiveOk p = true) (name : Str) :
    lookupLast name (archiveBytes p) = c12_bytesOf (lookupLast name p.parts) := by
  by_cases hm : name ∈ p.parts.map (·.1)
  · obtain ⟨x, hx, rfl⟩ := List.mem_map.mp hm
    unfold c12_archiveOk at h
    rw [List.all_eq_true] at h
    exact eq_of_beq (h x hx)
  · have hn := (c12_lookupLast_none name p.parts).mpr hm
    rw [hn]
    exact c12_archiveBytes_none name p.parts hn

/-- unique entry names suffice for `c12_archiveOk` -/
theorem c12_archiveOk_of_unique (p : Package) (h : strsNodup (p.parts.map (·.1)) = true) :
    c12_archiveOk p = true := by
  unfold c12_archiveOk
  rw [List.all_eq_true]
  intro x _
  have := c12_archiveOk_of_nodup p.parts h x.1
  rw [show (⟨p.parts⟩ : Package) = p from rfl] at this
  rw [this]
  exact beq_self_eq_true _

/-- the zip entries of the new package: only `mammoth/style-map` has other bytes -/
theorem c12_archive_embedded (p : Package) (s : Str) (r r' t t' : XmlNode)
    (hr : lookupLast relsPartPath p.parts = some (.xml r))
    (ht : lookupLast contentTypesPartPath p.parts = some (.xml t))
    (h5 : c12_archiveOk p = true) (name : Str) (hn : name ≠ styleMapPath) :
    lookupLast name (archiveBytes (c12_embedded p s r' t')) = lookupLast name (archiveBytes p) := by
  rw [c12_archiveOk_use p h5]
  have hnd : strsNodup ((c12_embedded p s r' t').parts.map (·.1)) = true := by
    unfold c12_embedded c12_updateParts
    simp only [List.map_map]
    have : ((fun x : Str × Part => x.1) ∘ fun n => (n, c12_partContent p.parts (c12_newParts s r' t') n)) = id := by
      funext x; rfl
    rw [this, List.map_id]
    exact c12_nodup_unique _
  have := c12_archiveOk_of_nodup (c12_embedded p s r' t').parts hnd name
  rw [show (⟨(c12_embedded p s r' t').parts⟩ : Package) = c12_embedded p s r' t' from rfl] at this
  rw [this]
  by_cases h2 : name = relsPartPath
  · subst h2; rw [c12_embedded_rels, hr]; rfl
  · by_cases h3 : name = contentTypesPartPath
    · subst h3; rw [c12_embedded_ct, ht]; rfl
    · rw [c12_embedded_other p s r' t' name hn h2 h3]

/-! ### the theorems -/

/-- no embedded image of the (transformed) document is read from the zip entry `mammoth/style-map` -/
def c12_imagesOk (p : Package) (fuel : Nat) (tr : Document → Document) : Bool :=
  match readPackage p fuel with
  | .ok (doc, _) => c12_docAvoid styleMapPath (tr doc)
  | .error _ => true

theorem c12_embed_convert (p : Package) (s : Str) (p' : Package) (fuel : Nat) (base : Option Str)
    (world : Str → Option Bytes) (tr : Document → Document) (o : Options)
    (h : c12_embedPkg p s = some p')
    (h1 : c12_relEntryOk p = true) (h2 : c12_overrideEntryOk p = true)
    (h3 : c12_lookupOk p = true) (h4 : c12_refsOk p = true)
    (h5 : c12_archiveOk p = true) (h6 : c12_imagesOk p fuel tr = true) :
    apiConvert p' fuel base world tr { o with styleMap := none, includeEmbedded := true }
      = apiConvert p fuel base world tr { o with styleMap := some s, includeEmbedded := false } := by
  have hread := c12_readPackage_embedded p s p' fuel h h1 h2 h3 h4
  obtain ⟨r, r', t, t', hr, hr', ht, ht', rfl⟩ := c12_embedPkg_inv p s p' h
  rw [c16_apiConvert_eq, c16_apiConvert_eq]
  simp only [if_true, Bool.false_eq_true, if_false, c12_readEmbeddedStyleMap_embedded]
  unfold c16_apiRest
  rw [hread]
  unfold c12_imagesOk at h6
  cases hrp : readPackage p fuel with
  | error e => simp only
  | ok dm =>
    obtain ⟨doc, msgs⟩ := dm
    rw [hrp] at h6
    simp only at h6 ⊢
    have hcfg : c16_apiCfg (c12_embedded p s r' t') base world
          { o with styleMap := none, includeEmbedded := true } (some s)
        = c12_rearch (c16_apiCfg p base world { o with styleMap := some s, includeEmbedded := false } none)
            (archiveBytes (c12_embedded p s r' t')) := by
      unfold c16_apiCfg
      simp only [c12_readOptions_swap]
    rw [hcfg, c12_convertDoc_rearch (n := styleMapPath)
      (fun name hn => c12_archive_embedded p s r r' t t' hr ht h5 name hn) (tr doc) h6]
    simp only [c12_readOptions_swap]

/-- `extract_raw_text` of the file is unchanged by the embed -/
theorem c12_embed_raw_text (p : Package) (s : Str) (p' : Package) (fuel : Nat)
    (h : c12_embedPkg p s = some p')
    (h1 : c12_relEntryOk p = true) (h2 : c12_overrideEntryOk p = true)
    (h3 : c12_lookupOk p = true) (h4 : c12_refsOk p = true) :
    apiRawText p' fuel = apiRawText p fuel := by
  unfold apiRawText
  rw [c12_readPackage_embedded p s p' fuel h h1 h2 h3 h4]

end Mammoth
