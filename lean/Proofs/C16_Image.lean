/-
  C16 — images that cannot be opened are reported.
-/
import Proofs.C16_Clean
namespace Mammoth

/-- the warning `Image.open` ends in, if any (an embedded image is either there or a KeyError) -/
def c16_openError (cfg : Cfg) (src : ImageSrc) : Option Str :=
  match src with
  | .embedded _ => none
  | .linked uri =>
    if isAbsoluteUri uri then
      match cfg.world uri with
      | some _ => none
      | none => some (S!"could not open external image: '" ++ uri ++ S!"' (document directory: '" ++
                        pyOpt cfg.base ++ S!"')")
    else match cfg.base with
      | some b =>
        match cfg.world (osPathJoin b uri) with
        | some _ => none
        | none => some (S!"could not open external image: '" ++ uri ++ S!"' (document directory: '" ++
                          b ++ S!"')")
      | none => some (S!"could not find external image '" ++ uri ++ S!"', fileobj has no name")

/-- does the configured image converter open the image at all -/
def c16_opens (cfg : Cfg) : Bool :=
  match cfg.imageConv with
  | .dataUri => true
  | .fixed _ o => o

theorem c16_modify_run (f : ConvState → ConvState) (st : ConvState) :
    (modify f : ConvM Unit).run st = .ok ((), f st) := rfl

theorem c16_openError_none_iff (cfg : Cfg) (src : ImageSrc) :
    c16_openError cfg src = none ↔ c16_srcOk cfg src = true := by
  unfold c16_openError c16_srcOk
  cases src with
  | embedded n => simp
  | linked uri =>
    simp only
    by_cases habs : isAbsoluteUri uri = true
    · simp only [habs, if_true]
      cases cfg.world uri <;> simp
    · simp only [habs, Bool.false_eq_true, if_false]
      cases cfg.base with
      | none => simp
      | some b => simp only; cases cfg.world (osPathJoin b uri) <;> simp

theorem c16_openImage_fails (cfg : Cfg) (src : ImageSrc) (msg : Str) (st : ConvState)
    (h : c16_openError cfg src = some msg) :
    ∃ st1, (openImage cfg src).run st = .ok (.error msg, st1) ∧ st1.messages = st.messages := by
  unfold c16_openError at h
  unfold openImage
  cases src with
  | embedded n => cases h
  | linked uri =>
    simp only at h ⊢
    by_cases habs : isAbsoluteUri uri = true
    · simp only [habs, if_true] at h ⊢
      cases hw : cfg.world uri with
      | some b => rw [hw] at h; cases h
      | none =>
        rw [hw] at h; cases h
        rw [c03_bind_run, c16_modify_run]
        exact ⟨_, rfl, rfl⟩
    · simp only [habs, Bool.false_eq_true, if_false] at h ⊢
      cases hb : cfg.base with
      | none =>
        rw [hb] at h; cases h
        exact ⟨_, rfl, rfl⟩
      | some b =>
        rw [hb] at h
        simp only at h ⊢
        cases hw : cfg.world (osPathJoin b uri) with
        | some bs => rw [hw] at h; cases h
        | none =>
          rw [hw] at h; cases h
          rw [c03_bind_run, c16_modify_run]
          exact ⟨_, rfl, rfl⟩

/-- `convertImage` when the converter opens the image and opening fails: no node, one warning -/
theorem c16_convertImage_fails (cfg : Cfg) (i : ImageProps) (msg : Str) (st : ConvState)
    (ho : c16_opens cfg = true) (h : c16_openError cfg i.src = some msg) :
    ∃ st', (convertImage cfg i).run st = .ok ([], st') ∧ st'.messages = st.messages ++ [msg] := by
  unfold convertImage
  rw [c03_bind_run, c16_modify_run]
  obtain ⟨st1, hrun, hmsg⟩ := c16_openImage_fails cfg i.src msg
    { st with imageCalls := st.imageCalls ++ [i] } h
  unfold c16_opens at ho
  simp only
  cases hc : cfg.imageConv with
  | dataUri =>
    simp only
    rw [c03_bind_run, hrun]
    simp only
    rw [c03_bind_run]
    unfold warn
    rw [c16_modify_run]
    exact ⟨_, rfl, by simp [hmsg]⟩
  | fixed attrs opens =>
    rw [hc] at ho
    simp only at ho
    subst ho
    simp only [if_true]
    rw [c03_bind_run, hrun]
    simp only
    rw [c03_bind_run]
    unfold warn
    rw [c16_modify_run]
    exact ⟨_, rfl, by simp [hmsg]⟩

end Mammoth
