/-
  C02 — the simulation of `Proofs/C02_DocSubst.lean` for the visitor, notes, comments and the whole
  document.
-/
import Proofs.C02_DocSubst
namespace Mammoth

@[simp] theorem c02_mapCfg_ignoreEmpty (σ : Str → Str) (cfg : Cfg) :
    (c02_mapCfg σ cfg).ignoreEmpty = cfg.ignoreEmpty := rfl
@[simp] theorem c02_mapCfg_comments (σ : Str → Str) (cfg : Cfg) :
    (c02_mapCfg σ cfg).comments = cfg.comments.map (c02_mapComment σ) := rfl
@[simp] theorem c02_htmlId_mapCfg (σ : Str → Str) (cfg : Cfg) (s : Str) :
    htmlId (c02_mapCfg σ cfg) s = htmlId cfg s := rfl
@[simp] theorem c02_referentId_mapCfg (σ : Str → Str) (cfg : Cfg) (a b : Str) :
    referentId (c02_mapCfg σ cfg) a b = referentId cfg a b := rfl
@[simp] theorem c02_referenceId_mapCfg (σ : Str → Str) (cfg : Cfg) (a b : Str) :
    referenceId (c02_mapCfg σ cfg) a b = referenceId cfg a b := rfl
@[simp] theorem c02_mapComment_id (σ : Str → Str) (c : Comment) : (c02_mapComment σ c).id = c.id := rfl
@[simp] theorem c02_mapComment_body (σ : Str → Str) (c : Comment) :
    (c02_mapComment σ c).body = c02_mapElems σ c.body := rfl
@[simp] theorem c02_mapComment_label (σ : Str → Str) (c : Comment) :
    commentAuthorLabel (c02_mapComment σ c) = commentAuthorLabel c := rfl
@[simp] theorem c02_mapSt_noteRefs (σ : Str → Str) (s : ConvState) : (c02_mapSt σ s).noteRefs = s.noteRefs := rfl
@[simp] theorem c02_mapSt_refComments (σ : Str → Str) (s : ConvState) :
    (c02_mapSt σ s).refComments = s.refComments.map fun lc => (lc.1, c02_mapComment σ lc.2) := rfl

theorem c02_isHeaderRow_map (σ : Str → Str) (e : Elem) : isHeaderRow (c02_mapElem σ e) = isHeaderRow e := by
  cases e <;> simp [c02_mapElem, isHeaderRow]

theorem c02_bodyIndex_map (σ : Str → Str) (rows : List Elem) :
    bodyIndex (c02_mapElems σ rows) = bodyIndex rows := by
  induction rows with
  | nil => simp [c02_mapElems]
  | cons r rs ih => simp [c02_mapElems, bodyIndex, c02_isHeaderRow_map, ih]

theorem c02_sim_weaken {α : Type} {σ : Str → Str} {R Q : α → α → Prop} {m m' : ConvM α}
    (h : c02_sim σ R m m') (hq : ∀ a a', R a a' → Q a a') : c02_sim σ Q m m' := by
  intro st
  have := h st
  cases e : m st with
  | error err =>
    cases e' : m' (c02_mapSt σ st) with
    | error err' => rw [e, e'] at this; exact this
    | ok p' => rw [e, e'] at this; exact this.elim
  | ok p =>
    cases e' : m' (c02_mapSt σ st) with
    | error err' => rw [e, e'] at this; exact this.elim
    | ok p' =>
      rw [e, e'] at this
      obtain ⟨a, s⟩ := p
      obtain ⟨a', s'⟩ := p'
      exact ⟨hq _ _ this.1, this.2⟩

theorem c02_lookupLast_map {α β : Type} [DecidableEq α] (key : β → α) (g : β → β)
    (hk : ∀ x, key (g x) = key x) (k : α) (xs : List β) :
    lookupLast k ((xs.map g).map fun n => (key n, n)) = (lookupLast k (xs.map fun n => (key n, n))).map g := by
  induction xs with
  | nil => rfl
  | cons x xs ih =>
    simp only [List.map_cons, lookupLast, ih, hk]
    cases lookupLast k (xs.map fun n => (key n, n)) with
    | some w => rfl
    | none => simp only [Option.map_none]; split <;> rfl

/-- the pairs of results of `visitRows` that differ only in text -/
abbrev c02_BR2 (p p' : List Node × List Node) : Prop := c02_BR p.1 p'.1 ∧ c02_BR p.2 p'.2

mutual
theorem c02_sim_visit (σ : Str → Str) (hσ : ∀ s, (σ s).isEmpty = s.isEmpty) (cfg : Cfg) (hdr : Bool)
    (e : Elem) : c02_sim σ c02_BR (visit cfg hdr e) (visit (c02_mapCfg σ cfg) hdr (c02_mapElem σ e)) := by
  match e with
  | .paragraph p cs =>
    simp only [c02_mapElem, visit]
    refine c02_sim_bind (c02_sim_findPathWarn σ cfg _ _ _ _ _) ?_
    intro path path' hp
    subst hp
    cases path with
    | ignore => exact c02_sim_pure rfl
    | elements es =>
      refine c02_sim_bind (c02_sim_visitAll σ hσ cfg hdr cs) ?_
      intro c c' hc
      refine c02_sim_pure ?_
      apply c02_BR_wrapElems
      simp only [c02_mapCfg_ignoreEmpty]
      by_cases hi : cfg.ignoreEmpty = true
      · simp only [hi, if_true]; exact hc
      · simp only [hi]; exact c02_BR_cons _ _ _ hc
  | .run r cs =>
    simp only [c02_mapElem, visit, c02_runPropPaths_mapCfg]
    refine c02_sim_bind (c02_sim_findPathWarn σ cfg _ _ _ _ _) ?_
    intro sp sp' hp
    subst hp
    by_cases hany : (runPropPaths cfg r ++ [sp]).any HtmlPath.isIgnore = true
    · simp only [hany, if_true]
      exact c02_sim_pure rfl
    · simp only [hany]
      refine c02_sim_bind (c02_sim_visitAll σ hσ cfg hdr cs) ?_
      intro ns ns' hns
      exact c02_sim_pure (c02_BR_wrapAll _ _ _ hns)
  | .text s =>
    simp only [c02_mapElem, visit]
    refine c02_sim_pure ?_
    simp only [c02_BR, c02_blank, c02_mapForest_cons, c02_mapNode_text, c02_mapForest_nil, c02_blankSub, hσ s]
  | .hyperlink h cs =>
    simp only [c02_mapElem, visit, c02_htmlId_mapCfg]
    refine c02_sim_bind (c02_sim_visitAll σ hσ cfg hdr cs) ?_
    intro ns ns' hns
    exact c02_sim_pure (c02_BR_cel _ _ _ _ hns)
  | .checkbox c =>
    simp only [c02_mapElem, visit]
    exact c02_sim_pure rfl
  | .table sid sname rows =>
    simp only [c02_mapElem, visit, c02_findPath_mapCfg, c02_bodyIndex_map]
    generalize (findPath cfg (.table sid sname)).getD (.elements [pathElem S!"table" true]) = path
    cases path with
    | ignore => exact c02_sim_pure rfl
    | elements es =>
      refine c02_sim_bind (c02_sim_visitRows σ hσ cfg true rows) ?_
      intro hb hb' hhb
      refine c02_sim_pure ?_
      apply c02_BR_wrapElems
      apply c02_BR_cons
      split
      · exact hhb.2
      · exact c02_BR_append [_] [_] [_] [_] (c02_BR_el _ _ _ _ hhb.1) (c02_BR_el _ _ _ _ hhb.2)
  | .row h cells =>
    simp only [c02_mapElem, visit]
    refine c02_sim_bind (c02_sim_visitAll σ hσ cfg hdr cells) ?_
    intro ns ns' hns
    exact c02_sim_pure (c02_BR_el _ _ _ _ (c02_BR_cons _ _ _ hns))
  | .cell a b c cs =>
    simp only [c02_mapElem, visit]
    refine c02_sim_bind (c02_sim_visitAll σ hσ cfg hdr cs) ?_
    intro ns ns' hns
    exact c02_sim_pure (c02_BR_el _ _ _ _ (c02_BR_cons _ _ _ hns))
  | .brk ty =>
    simp only [c02_mapElem, visit, c02_findPath_mapCfg]
    split
    · exact c02_sim_pure rfl
    · exact c02_sim_pure rfl
    · split <;> exact c02_sim_pure rfl
  | .tab =>
    simp only [c02_mapElem, visit]
    exact c02_sim_pure rfl
  | .image i =>
    simp only [c02_mapElem, visit]
    exact c02_sim_weaken (c02_sim_convertImage σ cfg i) (fun a a' h => by subst h; rfl)
  | .bookmark n =>
    simp only [c02_mapElem, visit, c02_htmlId_mapCfg]
    exact c02_sim_pure rfl
  | .noteRef ty id =>
    simp only [c02_mapElem, visit, c02_referentId_mapCfg, c02_referenceId_mapCfg]
    refine c02_sim_bind (c02_sim_modify _ _ (fun _ => rfl)) ?_
    intro _ _ _
    refine c02_sim_bind c02_sim_get ?_
    intro s s' hs
    subst hs
    exact c02_sim_pure rfl
  | .commentRef id =>
    simp only [c02_mapElem, visit, c02_findPath_mapCfg, c02_referentId_mapCfg, c02_referenceId_mapCfg,
      c02_mapCfg_comments]
    rw [c02_lookupLast_map (fun c : Comment => c.id) (c02_mapComment σ) (fun _ => rfl) id cfg.comments]
    split
    · exact c02_sim_pure rfl
    · exact c02_sim_pure rfl
    · cases lookupLast id (cfg.comments.map fun c => (c.id, c)) with
      | none => exact c02_sim_throw _ _
      | some c =>
        simp only [Option.map_some]
        refine c02_sim_bind c02_sim_get ?_
        intro s s' hs
        subst hs
        simp only [c02_mapSt_refComments, List.length_map, c02_mapComment_label]
        refine c02_sim_bind (c02_sim_modify _ _ (fun st => by simp [c02_mapSt])) ?_
        intro _ _ _
        exact c02_sim_pure rfl
theorem c02_sim_visitAll (σ : Str → Str) (hσ : ∀ s, (σ s).isEmpty = s.isEmpty) (cfg : Cfg) (hdr : Bool)
    (es : List Elem) :
    c02_sim σ c02_BR (visitAll cfg hdr es) (visitAll (c02_mapCfg σ cfg) hdr (c02_mapElems σ es)) := by
  match es with
  | [] => simp only [c02_mapElems, visitAll]; exact c02_sim_pure rfl
  | e :: es =>
    simp only [c02_mapElems, visitAll]
    refine c02_sim_bind (c02_sim_visit σ hσ cfg hdr e) ?_
    intro a a' ha
    refine c02_sim_bind (c02_sim_visitAll σ hσ cfg hdr es) ?_
    intro b b' hb
    exact c02_sim_pure (c02_BR_append _ _ _ _ ha hb)
theorem c02_sim_visitRows (σ : Str → Str) (hσ : ∀ s, (σ s).isEmpty = s.isEmpty) (cfg : Cfg)
    (inHead : Bool) (rs : List Elem) :
    c02_sim σ c02_BR2 (visitRows cfg inHead rs) (visitRows (c02_mapCfg σ cfg) inHead (c02_mapElems σ rs)) := by
  match rs with
  | [] => simp only [c02_mapElems, visitRows]; exact c02_sim_pure ⟨rfl, rfl⟩
  | r :: rs =>
    simp only [c02_mapElems, visitRows, c02_isHeaderRow_map]
    split
    · refine c02_sim_bind (c02_sim_visit σ hσ cfg true r) ?_
      intro a a' ha
      refine c02_sim_bind (c02_sim_visitRows σ hσ cfg true rs) ?_
      intro hb hb' hhb
      exact c02_sim_pure ⟨c02_BR_append _ _ _ _ ha hhb.1, hhb.2⟩
    · refine c02_sim_bind (c02_sim_visit σ hσ cfg false r) ?_
      intro a a' ha
      refine c02_sim_bind (c02_sim_visitRows σ hσ cfg false rs) ?_
      intro hb hb' hhb
      exact c02_sim_pure ⟨hhb.1, c02_BR_append _ _ _ _ ha hhb.2⟩
end

/-! ### notes, comments, the document -/

theorem c02_sim_visitNote (σ : Str → Str) (hσ : ∀ s, (σ s).isEmpty = s.isEmpty) (cfg : Cfg) (n : Note) :
    c02_sim σ c02_BR (visitNote cfg n) (visitNote (c02_mapCfg σ cfg) (c02_mapNote σ n)) := by
  unfold visitNote
  simp only [c02_referentId_mapCfg, c02_referenceId_mapCfg]
  refine c02_sim_bind (c02_sim_visitAll σ hσ cfg false n.body) ?_
  intro b b' hb
  exact c02_sim_pure (c02_BR_el _ _ _ _ (c02_BR_append _ _ [_] [_] hb rfl))

theorem c02_sim_visitComment (σ : Str → Str) (hσ : ∀ s, (σ s).isEmpty = s.isEmpty) (cfg : Cfg)
    (lc : Str × Comment) :
    c02_sim σ c02_BR (visitComment cfg lc) (visitComment (c02_mapCfg σ cfg) (lc.1, c02_mapComment σ lc.2)) := by
  unfold visitComment
  simp only [c02_referentId_mapCfg, c02_referenceId_mapCfg, c02_mapComment_id, c02_mapComment_body]
  refine c02_sim_bind (c02_sim_visitAll σ hσ cfg false lc.2.body) ?_
  intro b b' hb
  refine c02_sim_pure ?_
  exact c02_BR_append [_] [_] [_] [_] rfl (c02_BR_el _ _ _ _ (c02_BR_append _ _ [_] [_] hb rfl))

theorem c02_sim_mapMConcat {α : Type} (σ : Str → Str) (f f' : α → ConvM (List Node)) (g : α → α)
    (h : ∀ x, c02_sim σ c02_BR (f x) (f' (g x))) (xs : List α) :
    c02_sim σ c02_BR (mapMConcat f xs) (mapMConcat f' (xs.map g)) := by
  induction xs with
  | nil => simp only [List.map_nil, mapMConcat]; exact c02_sim_pure rfl
  | cons x xs ih =>
    simp only [List.map_cons, mapMConcat]
    refine c02_sim_bind (h x) ?_
    intro a a' ha
    refine c02_sim_bind ih ?_
    intro b b' hb
    exact c02_sim_pure (c02_BR_append _ _ _ _ ha hb)

theorem c02_resolveNote_map (σ : Str → Str) (notes : List Note) (ref : Str × Str) :
    resolveNote (notes.map (c02_mapNote σ)) ref = (resolveNote notes ref).map (c02_mapNote σ) := by
  unfold resolveNote
  rw [c02_lookupLast_map (fun n : Note => (n.ty, n.id)) (c02_mapNote σ) (fun _ => rfl) ref notes]
  cases lookupLast ref (notes.map fun n => ((n.ty, n.id), n)) <;> rfl

theorem c02_mapM_resolveNote_map (σ : Str → Str) (notes : List Note) (refs : List (Str × Str)) :
    refs.mapM (resolveNote (notes.map (c02_mapNote σ)))
      = (refs.mapM (resolveNote notes)).map (List.map (c02_mapNote σ)) := by
  induction refs with
  | nil => rfl
  | cons r rs ih =>
    simp only [List.mapM_cons, ih, c02_resolveNote_map]
    cases resolveNote notes r with
    | error e => rfl
    | ok n =>
      cases rs.mapM (resolveNote notes) with
      | error e => rfl
      | ok ns => rfl

theorem c02_sim_visitDocument (σ : Str → Str) (hσ : ∀ s, (σ s).isEmpty = s.isEmpty) (cfg : Cfg)
    (d : Document) :
    c02_sim σ c02_BR (visitDocument cfg d) (visitDocument (c02_mapCfg σ cfg) (c02_mapDocText σ d)) := by
  unfold visitDocument
  simp only [c02_mapDocText]
  refine c02_sim_bind (c02_sim_visitAll σ hσ cfg false d.children) ?_
  intro nodes nodes' hnodes
  refine c02_sim_bind c02_sim_get ?_
  intro s s' hs
  subst hs
  simp only [c02_mapSt_noteRefs, c02_mapM_resolveNote_map]
  have key : ∀ notes : List Note, c02_sim σ c02_BR
      (do
        let noteNodes ← mapMConcat (visitNote cfg) notes
        let __do_lift ← get
        let commentNodes ← mapMConcat (visitComment cfg) __do_lift.refComments
        pure (nodes ++ [el S!"ol" [] noteNodes, el S!"dl" [] commentNodes]))
      (do
        let noteNodes ← mapMConcat (visitNote (c02_mapCfg σ cfg)) (notes.map (c02_mapNote σ))
        let __do_lift ← get
        let commentNodes ← mapMConcat (visitComment (c02_mapCfg σ cfg)) __do_lift.refComments
        pure (nodes' ++ [el S!"ol" [] noteNodes, el S!"dl" [] commentNodes])) := by
    intro notes
    refine c02_sim_bind (c02_sim_mapMConcat σ _ _ _ (c02_sim_visitNote σ hσ cfg) notes) ?_
    intro nn nn' hnn
    refine c02_sim_bind c02_sim_get ?_
    intro s2 s2' hs2
    subst hs2
    simp only [c02_mapSt_refComments]
    refine c02_sim_bind (c02_sim_mapMConcat σ _ _ _ (c02_sim_visitComment σ hσ cfg) s2.refComments) ?_
    intro cn cn' hcn
    refine c02_sim_pure ?_
    exact c02_BR_append _ _ _ _ hnodes
      (c02_BR_append [_] [_] [_] [_] (c02_BR_el _ _ _ _ hnn) (c02_BR_el _ _ _ _ hcn))
  cases s.noteRefs.mapM (resolveNote d.notes) with
  | error e =>
    simp only [Except.map]
    exact c02_sim_bind (R := fun _ _ => False) (c02_sim_throw _ e) (fun _ _ h => h.elim)
  | ok ns =>
    simp only [Except.map]
    exact c02_sim_bind (R := fun a a' => a' = a.map (c02_mapNote σ)) (c02_sim_pure rfl)
      (fun a a' h => by subst h; exact key a)

/-- what two results of `convertDoc` have in common when the documents differ only in text runs -/
def c02_sameUpToText : Except Err ConvResult → Except Err ConvResult → Prop
  | .ok r, .ok r' => c02_BR r.nodes r'.nodes ∧ r'.messages = r.messages ∧ r'.ioTrace = r.ioTrace ∧
      r'.imageCalls = r.imageCalls ∧ r'.noteRefs = r.noteRefs
  | .error e, .error e' => e' = e
  | _, _ => False

theorem c02_convertDoc_mapText (σ : Str → Str) (hσ : ∀ s, (σ s).isEmpty = s.isEmpty) (cfg : Cfg)
    (d : Document) : c02_sameUpToText (convertDoc cfg d) (convertDoc cfg (c02_mapDocText σ d)) := by
  have h := c02_sim_visitDocument σ hσ { cfg with comments := d.comments } d {}
  unfold convertDoc
  have e1 : ({ cfg with comments := (c02_mapDocText σ d).comments } : Cfg)
      = c02_mapCfg σ { cfg with comments := d.comments } := rfl
  have e2 : c02_mapSt σ {} = {} := rfl
  rw [e1]
  rw [e2] at h
  simp only [StateT.run]
  cases r : visitDocument { cfg with comments := d.comments } d {} with
  | error err =>
    cases r' : visitDocument (c02_mapCfg σ { cfg with comments := d.comments }) (c02_mapDocText σ d) {} with
    | error err' => rw [r, r'] at h; exact h
    | ok p' => rw [r, r'] at h; exact h.elim
  | ok p =>
    cases r' : visitDocument (c02_mapCfg σ { cfg with comments := d.comments }) (c02_mapDocText σ d) {} with
    | error err' => rw [r, r'] at h; exact h.elim
    | ok p' =>
      rw [r, r'] at h
      obtain ⟨a, s⟩ := p
      obtain ⟨a', s'⟩ := p'
      obtain ⟨hR, hs⟩ := h
      subst hs
      exact ⟨hR, rfl, rfl, rfl, rfl⟩

end Mammoth
