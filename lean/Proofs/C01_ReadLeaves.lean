/-
  C01, reader half, stage 1 — on trees without deleted paragraph marks the element reader returns a
  tree that carries exactly the live leaves of the XML (`c01_xmlLive`), up to the row-span sweep of tables.
-/
import Proofs.C01_ReadAtoms
namespace Mammoth

/-- the result `r` carries the leaves `l`: in line and in the extra channel (each up to the row-span sweep) -/
def c01_Sim (nv : Bool) (r : ReadResult) (l : c01_Live) : Prop :=
  c01_Pre nv r.elements l.inline ∧ c01_Pre nv r.extra l.extra

theorem c01_Sim_mono {nv nv' : Bool} {r : ReadResult} {l : c01_Live} (hm : nv' = true → nv = true)
    (h : c01_Sim nv r l) : c01_Sim nv' r l := ⟨c01_Pre_mono hm h.1, c01_Pre_mono hm h.2⟩

theorem c01_Sim_empty (nv : Bool) : c01_Sim nv {} {} := ⟨c01_Pre_nil nv, c01_Pre_nil nv⟩

theorem c01_Sim_concat {nv : Bool} {a b : ReadResult} {la lb : c01_Live}
    (ha : c01_Sim nv a la) (hb : c01_Sim nv b lb) : c01_Sim nv (a.concat b) (la.append lb) :=
  ⟨c01_Pre_append ha.1 hb.1, c01_Pre_append ha.2 hb.2⟩

theorem c01_Sim_silent (nv : Bool) {r : ReadResult} (h : c01_silent r) : c01_Sim nv r {} := by
  obtain ⟨h1, h2, h3⟩ := h
  refine ⟨?_, ?_⟩
  · have := c01_Pre_atoms nv r.elements h2
    rw [h3] at this; exact this
  · rw [h1]; exact c01_Pre_nil nv

theorem c01_Sim_atom (nv : Bool) (e : Elem) (h : c01_atom e = true) :
    c01_Sim nv (rrElems [e]) ⟨c01_elemLeaves e, []⟩ :=
  ⟨c01_Pre_atom nv e h, c01_Pre_nil nv⟩

theorem c01_hk {name g : Str} {k : c01_Kind} (hg : handlerOf name = some g) (hk : c01_handlerKind g = k) :
    c01_kindOf name = k := (c01_kindOf_handler hg).trans hk

theorem c01_cell_vm {name : Str} {as : Attrs} {cs : List XmlNode} (hg : handlerOf name = some S!"table_cell")
    (h : c01_noVMerge (.elem name as cs) = true) : readVmerge (findChildOrNull S!"w:tcPr" cs).2 = false := by
  have hn := c01_handler_cell hg
  subst hn
  simp only [c01_noVMerge, c01_elemNoVMerge, Bool.and_eq_true] at h
  simpa using h.1

theorem c01_ite_elim {α} {c : Prop} [Decidable c] {a b x : α} (h : (if c then a else b) = x) :
    (c ∧ a = x) ∨ (¬ c ∧ b = x) := by
  by_cases hc : c
  · rw [if_pos hc] at h; exact Or.inl ⟨hc, h⟩
  · rw [if_neg hc] at h; exact Or.inr ⟨hc, h⟩

set_option hygiene false in
/-- case split on the `if` at the head of `h`, naming the condition `hc` in the first branch -/
macro "c01_next" : tactic =>
  `(tactic| (have h2 := c01_ite_elim h; clear h; rcases h2 with ⟨hc, h⟩ | ⟨_, h⟩))

/-- one element, given the reader for lists of children -/
theorem c01_readBody_live (env : REnv) (ra : c05_RdAll)
    (ih : ∀ st ns r st', ra st ns = .ok (r, st') → st.deleted = [] → c05_noDelL ns = true →
        st'.deleted = [] ∧ c01_Sim (c01_noVMergeL ns) r (c01_xmlLiveL ns))
    (st : RState) (name : Str) (as : Attrs) (cs : List XmlNode) (r : ReadResult) (st' : RState)
    (h : c05_readBody env ra st name as cs = .ok (r, st'))
    (hdel : st.deleted = []) (hnd : c05_elemNoDel name cs = true) (hncs : c05_noDelL cs = true) :
    st'.deleted = [] ∧ c01_Sim (c01_noVMerge (.elem name as cs)) r (c01_xmlLive (.elem name as cs)) := by
  have hnvc : c01_noVMerge (.elem name as cs) = true → c01_noVMergeL cs = true := by
    intro h; simp only [c01_noVMerge, Bool.and_eq_true] at h; exact h.2
  unfold c05_readBody at h
  cases hg : handlerOf name with
  | none =>
    -- no handler: ignored or unrecognised
    rw [hg] at h; dsimp only at h
    rw [c01_xmlLive_skip as cs (c01_kindOf_none hg)]
    split at h
    · cases h; exact ⟨hdel, c01_Sim_empty _⟩
    · cases h; exact ⟨hdel, c01_Sim_silent _ (c01_silent_msg _)⟩
  | some g =>
    rw [hg] at h; dsimp only at h
    -- text
    c01_next
    · have := eq_of_beq hc; subst this
      cases h
      rw [c01_xmlLive_textK as cs (c01_hk hg (by decide))]
      exact ⟨hdel, by simpa [c01_elemLeaves] using c01_Sim_atom _ (.text (innerTextL cs)) rfl⟩
    -- run
    c01_next
    · have := eq_of_beq hc; subst this
      rw [c01_xmlLive_through as cs (c01_hk hg (by decide))]
      obtain ⟨⟨r1, st1⟩, hra, h⟩ := c01_bind_ok h
      simp only [pure, Except.pure, Except.ok.injEq, Prod.mk.injEq] at h
      obtain ⟨rfl, rfl⟩ := h
      obtain ⟨hd1, hs1⟩ := ih _ _ _ _ hra hdel hncs
      have hs1 := c01_Sim_mono hnvc hs1
      refine ⟨hd1, c01_Pre_run _ ?_, hs1.2⟩
      cases currentHyperlink st1.stack with
      | none => exact hs1.1
      | some kw => exact c01_Pre_hyperlink kw hs1.1
    -- paragraph
    c01_next
    · skip
      have hno := c05_elemNoDel_para name g cs hg hc hnd
      have := eq_of_beq hc; subst this
      rw [c01_xmlLive_paragraph as cs (c01_hk hg (by decide))]
      split at h
      · contradiction
      · rw [hdel, List.nil_append] at h
        obtain ⟨⟨r1, st1⟩, hra, h⟩ := c01_bind_ok h
        obtain ⟨num, _, h⟩ := c01_bind_ok h
        simp only [pure, Except.pure, Except.ok.injEq, Prod.mk.injEq] at h
        obtain ⟨rfl, rfl⟩ := h
        obtain ⟨hd1, hs1⟩ := ih _ _ _ _ hra rfl hncs
        have hs1 := c01_Sim_mono hnvc hs1
        refine ⟨hd1, ?_, c01_Pre_nil _⟩
        exact c01_Pre_append (a := [_]) (c01_Pre_paragraph _ hs1.1) hs1.2
    -- complex-field characters
    c01_next
    · have := eq_of_beq hc; subst this
      rw [c01_xmlLive_skip as cs (c01_hk hg (by decide))]
      unfold readFldChar at h
      dsimp only at h
      repeat' split at h
      all_goals first
        | (cases h; done)
        | cases h; exact ⟨hdel, c01_Sim_empty _⟩
        | cases h; exact ⟨hdel, c01_Sim_silent _ ⟨rfl, rfl, by simp [rrElems, c01_elemLeaves]⟩⟩
    -- instruction text
    c01_next
    · have := eq_of_beq hc; subst this
      rw [c01_xmlLive_skip as cs (c01_hk hg (by decide))]
      cases h; exact ⟨hdel, c01_Sim_empty _⟩
    -- tab
    c01_next
    · have := eq_of_beq hc; subst this
      cases h
      rw [c01_xmlLive_tab as cs (c01_hk hg (by decide))]
      exact ⟨hdel, by simpa [c01_elemLeaves] using c01_Sim_atom _ .tab rfl⟩
    -- no-break hyphen
    c01_next
    · have := eq_of_beq hc; subst this
      cases h
      rw [c01_xmlLive_nbh as cs (c01_hk hg (by decide))]
      exact ⟨hdel, by simpa [c01_elemLeaves] using c01_Sim_atom _ (.text [Char.ofNat 0x2011]) rfl⟩
    -- soft hyphen
    c01_next
    · have := eq_of_beq hc; subst this
      cases h
      rw [c01_xmlLive_sh as cs (c01_hk hg (by decide))]
      exact ⟨hdel, by simpa [c01_elemLeaves] using c01_Sim_atom _ (.text [Char.ofNat 0xAD]) rfl⟩
    -- symbol
    c01_next
    · have := eq_of_beq hc; subst this
      rw [c01_xmlLive_sym as cs (c01_hk hg (by decide))]
      cases hs : readSymbol as with
      | error e => rw [hs] at h; cases h
      | ok r1 =>
        rw [hs] at h
        simp only [Except.map, Except.ok.injEq, Prod.mk.injEq] at h
        obtain ⟨rfl, rfl⟩ := h
        obtain ⟨h1, h2, h3⟩ := c01_readSymbol_leaves as r1 hs
        refine ⟨hdel, ?_, ?_⟩
        · have := c01_Pre_atoms (c01_noVMerge (.elem name as cs)) r1.elements h2
          rw [h3] at this; exact this
        · rw [h1]; exact c01_Pre_nil _
    -- table
    c01_next
    · have := eq_of_beq hc; subst this
      rw [c01_xmlLive_through as cs (c01_hk hg (by decide))]
      obtain ⟨⟨r1, st1⟩, hra, h⟩ := c01_bind_ok h
      simp only [pure, Except.pure, Except.ok.injEq, Prod.mk.injEq] at h
      obtain ⟨rfl, rfl⟩ := h
      obtain ⟨hd1, hs1⟩ := ih _ _ _ _ hra hdel hncs
      have hs1 := c01_Sim_mono hnvc hs1
      exact ⟨hd1, c01_Pre_table _ _ hs1.1, hs1.2⟩
    -- table row
    c01_next
    · have := eq_of_beq hc; subst this
      rw [c01_xmlLive_through as cs (c01_hk hg (by decide))]
      obtain ⟨⟨r1, st1⟩, hra, h⟩ := c01_bind_ok h
      simp only [pure, Except.pure, Except.ok.injEq, Prod.mk.injEq] at h
      obtain ⟨rfl, rfl⟩ := h
      obtain ⟨hd1, hs1⟩ := ih _ _ _ _ hra hdel hncs
      have hs1 := c01_Sim_mono hnvc hs1
      exact ⟨hd1, c01_Pre_row _ hs1.1, hs1.2⟩
    -- table cell
    c01_next
    · have := eq_of_beq hc; subst this
      rw [c01_xmlLive_through as cs (c01_hk hg (by decide))]
      repeat' split at h
      all_goals
        obtain ⟨colspan, hcol, h⟩ := c01_bind_ok h
        first
        | (cases hcol; done)
        | (obtain ⟨⟨r1, st1⟩, hra, h⟩ := c01_bind_ok h
           simp only [pure, Except.pure, Except.ok.injEq, Prod.mk.injEq] at h
           obtain ⟨rfl, rfl⟩ := h
           obtain ⟨hd1, hs1⟩ := ih _ _ _ _ hra hdel hncs
           have hs1 := c01_Sim_mono hnvc hs1
           exact ⟨hd1, c01_Pre_cell _ _ _ (fun hv => c01_cell_vm hg hv) hs1.1, hs1.2⟩)
    -- read-through containers
    c01_next
    · have := eq_of_beq hc; subst this
      rw [c01_xmlLive_through as cs (c01_hk hg (by decide))]
      obtain ⟨hd1, hs1⟩ := ih _ _ _ _ h hdel hncs
      exact ⟨hd1, c01_Sim_mono hnvc hs1⟩
    -- text boxes
    c01_next
    · have := eq_of_beq hc; subst this
      rw [c01_xmlLive_pict as cs (c01_hk hg (by decide))]
      obtain ⟨⟨r1, st1⟩, hra, h⟩ := c01_bind_ok h
      simp only [pure, Except.pure, Except.ok.injEq, Prod.mk.injEq] at h
      obtain ⟨rfl, rfl⟩ := h
      obtain ⟨hd1, hs1⟩ := ih _ _ _ _ hra hdel hncs
      have hs1 := c01_Sim_mono hnvc hs1
      exact ⟨hd1, c01_Pre_nil _, c01_Pre_append hs1.2 hs1.1⟩
    -- hyperlink
    c01_next
    · have := eq_of_beq hc; subst this
      rw [c01_xmlLive_through as cs (c01_hk hg (by decide))]
      obtain ⟨⟨r1, st1⟩, hra, h⟩ := c01_bind_ok h
      obtain ⟨hd1, hs1⟩ := ih _ _ _ _ hra hdel hncs
      have hs1 := c01_Sim_mono hnvc hs1
      split at h
      · obtain ⟨href, _, h⟩ := c01_bind_ok h
        simp only [pure, Except.pure, Except.ok.injEq, Prod.mk.injEq] at h
        obtain ⟨rfl, rfl⟩ := h
        exact ⟨hd1, c01_Pre_hyperlink _ hs1.1, hs1.2⟩
      · split at h
        · simp only [pure, Except.pure, Except.ok.injEq, Prod.mk.injEq] at h
          obtain ⟨rfl, rfl⟩ := h
          exact ⟨hd1, c01_Pre_hyperlink _ hs1.1, hs1.2⟩
        · simp only [pure, Except.pure, Except.ok.injEq, Prod.mk.injEq] at h
          obtain ⟨rfl, rfl⟩ := h
          exact ⟨hd1, hs1⟩
    -- bookmark
    c01_next
    · have := eq_of_beq hc; subst this
      rw [c01_xmlLive_skip as cs (c01_hk hg (by decide))]
      split at h
      · cases h; exact ⟨hdel, c01_Sim_empty _⟩
      · cases h; exact ⟨hdel, c01_Sim_silent _ ⟨rfl, rfl, by simp [rrElems, c01_elemLeaves]⟩⟩
    -- break
    c01_next
    · have := eq_of_beq hc; subst this
      rw [c01_xmlLive_skip as cs (c01_hk hg (by decide))]
      cases h; exact ⟨hdel, c01_Sim_silent _ (c01_silent_break as)⟩
    -- DrawingML image
    c01_next
    · have := eq_of_beq hc; subst this
      rw [c01_xmlLive_skip as cs (c01_hk hg (by decide))]
      cases hs : readInline env cs with
      | error e => rw [hs] at h; cases h
      | ok r1 =>
        rw [hs] at h
        simp only [Except.map, Except.ok.injEq, Prod.mk.injEq] at h
        obtain ⟨rfl, rfl⟩ := h
        exact ⟨hdel, c01_Sim_silent _ (c01_silent_inline env cs r1 hs)⟩
    -- VML image
    c01_next
    · have := eq_of_beq hc; subst this
      rw [c01_xmlLive_skip as cs (c01_hk hg (by decide))]
      split at h
      · cases h; exact ⟨hdel, c01_Sim_silent _ (c01_silent_msg _)⟩
      · rename_i rid _
        cases hs : readEmbeddedImage env rid (attr? S!"o:title" as) with
        | error e => rw [hs] at h; cases h
        | ok r1 =>
          rw [hs] at h
          simp only [Except.map, Except.ok.injEq, Prod.mk.injEq] at h
          obtain ⟨rfl, rfl⟩ := h
          exact ⟨hdel, c01_Sim_silent _ (c01_silent_embedded env _ _ r1 hs)⟩
    -- note references
    c01_next
    · skip
      rw [Bool.or_eq_true] at hc
      rcases hc with hc | hc
      · have := eq_of_beq hc; subst this
        rw [c01_xmlLive_noteRef as cs (c01_hk (k := .noteRef S!"footnote") hg (by decide))]
        split at h
        · cases h
        · rename_i id hid
          cases h
          rw [hid]
          exact ⟨hdel, by simpa [c01_elemLeaves] using c01_Sim_atom _ (.noteRef S!"footnote" id) rfl⟩
      · have := eq_of_beq hc; subst this
        rw [c01_xmlLive_noteRef as cs (c01_hk (k := .noteRef S!"endnote") hg (by decide))]
        split at h
        · cases h
        · rename_i id hid
          cases h
          rw [hid]
          exact ⟨hdel, by simpa [c01_elemLeaves] using c01_Sim_atom _ (.noteRef S!"endnote" id) rfl⟩
    -- comment references
    c01_next
    · have := eq_of_beq hc; subst this
      rw [c01_xmlLive_commentRef as cs (c01_hk hg (by decide))]
      split at h
      · cases h
      · rename_i id hid
        cases h
        rw [hid]
        exact ⟨hdel, by simpa [c01_elemLeaves] using c01_Sim_atom _ (.commentRef id) rfl⟩
    -- alternate content
    c01_next
    · have := eq_of_beq hc; subst this
      rw [c01_xmlLive_alt as cs (c01_hk hg (by decide))]
      obtain ⟨hd1, hs1⟩ := ih _ _ _ _ h hdel (c05_noDelL_findChild _ cs hncs)
      exact ⟨hd1, c01_Sim_mono (fun hv => c01_noVMergeL_findChild _ cs (hnvc hv)) hs1⟩
    -- structured document tags
    c01_next
    · have := eq_of_beq hc; subst this
      rw [c01_xmlLive_sdt as cs (c01_hk hg (by decide))]
      unfold c01_isCheckboxSdt
      split at h
      · rename_i hcb
        cases h
        rw [hcb]
        exact ⟨hdel, c01_Sim_silent _ ⟨rfl, rfl, by simp [rrElems, c01_elemLeaves]⟩⟩
      · rename_i hcb
        rw [hcb]
        obtain ⟨hd1, hs1⟩ := ih _ _ _ _ h hdel (c05_noDelL_findChild _ cs hncs)
        exact ⟨hd1, c01_Sim_mono (fun hv => c01_noVMergeL_findChild _ cs (hnvc hv)) hs1⟩
    · cases h

/-- a list of siblings, given the element reader -/
theorem c01_readAllWith_live (rd : c05_Rd)
    (hrd : ∀ st n r st', rd st n = .ok (r, st') → st.deleted = [] → c05_noDel n = true →
        st'.deleted = [] ∧ c01_Sim (c01_noVMerge n) r (c01_xmlLive n)) :
    ∀ (ns : List XmlNode) (st : RState) (r : ReadResult) (st' : RState),
      readAllWith rd st ns = .ok (r, st') → st.deleted = [] → c05_noDelL ns = true →
      st'.deleted = [] ∧ c01_Sim (c01_noVMergeL ns) r (c01_xmlLiveL ns)
  | [], st, r, st', h, hd, _ => by
    simp only [readAllWith, Except.ok.injEq, Prod.mk.injEq] at h
    obtain ⟨rfl, rfl⟩ := h
    exact ⟨hd, by simpa using c01_Sim_empty _⟩
  | .text s :: rest, st, r, st', h, hd, hn => by
    simp only [readAllWith] at h
    simp only [c05_noDelL, Bool.and_eq_true] at hn
    have := c01_readAllWith_live rd hrd rest st r st' h hd hn.2
    simpa [c01_noVMergeL, c01_noVMerge] using this
  | .elem n as cs :: rest, st, r, st', h, hd, hn => by
    simp only [readAllWith] at h
    simp only [c05_noDelL, Bool.and_eq_true] at hn
    obtain ⟨⟨r1, st1⟩, h1, h⟩ := c01_bind_ok h
    obtain ⟨⟨r2, st2⟩, h2, h⟩ := c01_bind_ok h
    simp only [pure, Except.pure, Except.ok.injEq, Prod.mk.injEq] at h
    obtain ⟨rfl, rfl⟩ := h
    obtain ⟨hd1, hs1⟩ := hrd _ _ _ _ h1 hd hn.1
    obtain ⟨hd2, hs2⟩ := c01_readAllWith_live rd hrd rest st1 r2 st2 h2 hd1 hn.2
    refine ⟨hd2, ?_⟩
    rw [c01_xmlLiveL_cons]
    have hv : c01_noVMergeL (.elem n as cs :: rest) = true →
        c01_noVMerge (.elem n as cs) = true ∧ c01_noVMergeL rest = true := by
      intro hv; simp only [c01_noVMergeL, Bool.and_eq_true] at hv; exact hv
    exact c01_Sim_concat (c01_Sim_mono (fun hv' => (hv hv').1) hs1) (c01_Sim_mono (fun hv' => (hv hv').2) hs2)

/-- the element reader, for every amount of fuel -/
theorem c01_readElem_live (env : REnv) :
    ∀ (f : Nat) (st : RState) (n : XmlNode) (r : ReadResult) (st' : RState),
      readElem env f st n = .ok (r, st') → st.deleted = [] → c05_noDel n = true →
      st'.deleted = [] ∧ c01_Sim (c01_noVMerge n) r (c01_xmlLive n)
  | f, st, .text s, r, st', h, hd, _ => by
    rw [c05_readElem_text] at h
    simp only [Except.ok.injEq, Prod.mk.injEq] at h
    obtain ⟨rfl, rfl⟩ := h
    exact ⟨hd, by simpa using c01_Sim_empty _⟩
  | 0, st, .elem name as cs, r, st', h, _, _ => by
    rw [c05_readElem_zero] at h; cases h
  | f+1, st, .elem name as cs, r, st', h, hd, hn => by
    rw [c05_readElem_succ] at h
    simp only [c05_noDel, Bool.and_eq_true] at hn
    exact c01_readBody_live env _
      (fun st ns r st' h1 h2 h3 => c01_readAllWith_live _ (c01_readElem_live env f) ns st r st' h1 h2 h3)
      st name as cs r st' h hd hn.1 hn.2

/-- `read_all` on the children of the body -/
theorem c01_readAll_live (env : REnv) (f : Nat) (st : RState) (ns : List XmlNode) (r : ReadResult) (st' : RState)
    (h : readAll env f st ns = .ok (r, st')) (hd : st.deleted = []) (hn : c05_noDelL ns = true) :
    st'.deleted = [] ∧ c01_Sim (c01_noVMergeL ns) r (c01_xmlLiveL ns) :=
  c01_readAllWith_live _ (c01_readElem_live env f) ns st r st' h hd hn

end Mammoth
