/-
  C08 — numbering resolution: helper lemmas about `findLevel` (fuel) used by Properties/C08.
-/
import MammothModel.Reader
namespace Mammoth

/-- one unfolding of `findLevel` -/
theorem c08_findLevel_succ (n : Numbering) (f : Nat) (numId : Option Str) (lvl : Str) :
    findLevel n (f+1) numId lvl =
      match lookupLast numId n.nums with
      | none => .ok none
      | some absId =>
        match lookupLast (some absId) n.abstractNums with
        | none => .ok none
        | some an =>
          match an.numStyleLink with
          | none => .ok ((lookupLast lvl an.levels).map toNumLevel)
          | some link =>
            match lookupLast (some link) n.styles.numbering with
            | none => .ok none
            | some styleNumId => findLevel n f styleNumId lvl := by
  rfl

/-- once the fuel is enough, more fuel does not change the answer -/
theorem c08_findLevel_fuel_mono (n : Numbering) (f : Nat) (numId : Option Str) (lvl : Str)
    (r : Option NumLevel) (h : findLevel n f numId lvl = .ok r) : findLevel n (f+1) numId lvl = .ok r := by
  induction f generalizing numId with
  | zero => simp [findLevel] at h
  | succ f ih =>
    rw [c08_findLevel_succ] at h ⊢
    cases h1 : lookupLast numId n.nums with
    | none => simpa [h1] using h
    | some absId =>
      cases h2 : lookupLast (some absId) n.abstractNums with
      | none => simpa [h1, h2] using h
      | some an =>
        cases h3 : an.numStyleLink with
        | none => simpa [h1, h2, h3] using h
        | some link =>
          cases h4 : lookupLast (some link) n.styles.numbering with
          | none => simpa [h1, h2, h3, h4] using h
          | some k =>
            simp only [h1, h2, h3, h4] at h ⊢
            exact ih _ h

theorem c08_findLevel_fuel_le (n : Numbering) (f g : Nat) (hfg : f ≤ g) (numId : Option Str) (lvl : Str)
    (r : Option NumLevel) (h : findLevel n f numId lvl = .ok r) : findLevel n g numId lvl = .ok r := by
  induction g with
  | zero =>
    have : f = 0 := by omega
    subst this; exact h
  | succ g ih =>
    by_cases hfg' : f ≤ g
    · exact c08_findLevel_fuel_mono n g numId lvl r (ih hfg')
    · have : f = g + 1 := by omega
      subst this; exact h

end Mammoth
