/-
  C19 helpers, round 7: nesting of `get_descendants` (the descendants of a descendant form a
  contiguous block), the call log of a whole document body, and size preservation for callbacks
  that keep the children of their argument.
-/
import Proofs.C19_Transforms
namespace Mammoth

/-! ### descendants of a descendant -/

/-- `x` together with its own descendants sits as one contiguous block `descendants x ++ [x]` in `l` -/
def c19_block (x : Elem) (l : List Elem) : Prop := ∃ s t, l = s ++ descendants x ++ x :: t

theorem c19_block_left {x : Elem} {a : List Elem} (b : List Elem) (h : c19_block x a) : c19_block x (a ++ b) := by
  obtain ⟨s, t, rfl⟩ := h
  exact ⟨s, t ++ b, by simp⟩

theorem c19_block_right {x : Elem} {b : List Elem} (a : List Elem) (h : c19_block x b) : c19_block x (a ++ b) := by
  obtain ⟨s, t, rfl⟩ := h
  exact ⟨a ++ s, t, by simp⟩

mutual
theorem c19_descendants_block (e x : Elem) (hx : x ∈ descendants e) : c19_block x (descendants e) := by
  match e with
  | .paragraph _ cs => simp only [descendants] at hx ⊢; exact c19_descendantsL_block cs x hx
  | .run _ cs => simp only [descendants] at hx ⊢; exact c19_descendantsL_block cs x hx
  | .hyperlink _ cs => simp only [descendants] at hx ⊢; exact c19_descendantsL_block cs x hx
  | .table _ _ cs => simp only [descendants] at hx ⊢; exact c19_descendantsL_block cs x hx
  | .row _ cs => simp only [descendants] at hx ⊢; exact c19_descendantsL_block cs x hx
  | .cell _ _ _ cs => simp only [descendants] at hx ⊢; exact c19_descendantsL_block cs x hx
  | .text _ | .checkbox _ | .brk _ | .tab | .image _ | .bookmark _ | .noteRef _ _ | .commentRef _ =>
    simp [descendants] at hx
theorem c19_descendantsL_block (es : List Elem) (x : Elem) (hx : x ∈ descendantsL es) :
    c19_block x (descendantsL es) := by
  match es with
  | [] => simp [descendantsL] at hx
  | c :: cs =>
    simp only [descendantsL, List.mem_append, List.mem_cons] at hx ⊢
    rcases hx with h | h | h
    · exact c19_block_left _ (c19_descendants_block c x h)
    · subst h; exact ⟨[], descendantsL cs, by simp⟩
    · have := c19_descendantsL_block cs x h
      have h2 : descendants c ++ c :: descendantsL cs = (descendants c ++ [c]) ++ descendantsL cs := by simp
      rw [h2]; exact c19_block_right _ this
end

theorem c19_block_mem {x : Elem} {l : List Elem} (h : c19_block x l) : ∀ y ∈ descendants x, y ∈ l := by
  obtain ⟨s, t, rfl⟩ := h
  intro y hy; simp [hy]

/-! ### the call log of a list of siblings (the document body) -/

theorem c19_callsL_flatMap (isT : Elem → Bool) (g : Elem → Elem) (es : List Elem) :
    c19_callsL isT g es = es.flatMap (c19_calls isT g) := by
  induction es with
  | nil => rfl
  | cons c cs ih => simp [c19_callsL, ih]

/-! ### callbacks that keep the children keep the size of the tree -/

theorem c19_size_applyIf (isT : Elem → Bool) (f : Elem → Elem) (hf : ∀ x, (f x).children = x.children) (e : Elem) :
    c19_size (applyIf isT f e) = c19_size e := by
  unfold applyIf
  split
  · rw [c19_size_step (f e), c19_size_step e, hf]
  · rfl

mutual
theorem c19_transform_size (isT : Elem → Bool) (f : Elem → Elem) (hf : ∀ x, (f x).children = x.children) (e : Elem) :
    c19_size (transform isT f e) = c19_size e := by
  match e with
  | .paragraph _ cs | .run _ cs | .hyperlink _ cs | .table _ _ cs | .row _ cs | .cell _ _ _ cs =>
    simp only [transform, c19_size_applyIf isT f hf, c19_size, c19_transformL_size isT f hf cs]
  | .text _ | .checkbox _ | .brk _ | .tab | .image _ | .bookmark _ | .noteRef _ _ | .commentRef _ =>
    simp only [transform, c19_size_applyIf isT f hf]
theorem c19_transformL_size (isT : Elem → Bool) (f : Elem → Elem) (hf : ∀ x, (f x).children = x.children)
    (es : List Elem) : c19_sizeL (transformL isT f es) = c19_sizeL es := by
  match es with
  | [] => rfl
  | c :: cs => simp only [transformL, c19_sizeL, c19_transform_size isT f hf c, c19_transformL_size isT f hf cs]
end

end Mammoth
