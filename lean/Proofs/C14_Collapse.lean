/-
  C14 — `collapse` keeps the guarantees of `strip_empty`: a forest in which every element has content
  (`allContentL`) stays such a forest, nothing becomes empty, force-write markers and text nodes are
  never lost.
-/
import Proofs.Strip
import Proofs.Collapse
namespace Mammoth

/-! ### `anyContent` / `allContentL` and list operations -/

theorem anyContent_append (a b : List Node) : anyContent (a ++ b) = (anyContent a || anyContent b) := by
  induction a with
  | nil => simp [anyContent]
  | cons x xs ih => simp [anyContent, ih, Bool.or_assoc]

theorem allContentL_append (a b : List Node) : allContentL (a ++ b) = (allContentL a && allContentL b) := by
  induction a with
  | nil => simp [allContentL]
  | cons x xs ih => simp [allContentL, ih, Bool.and_assoc]

theorem hasContent_of_allContent (n : Node) (h : allContent n = true) : hasContent n = true := by
  cases n with
  | text s => simpa [allContent] using h
  | forceWrite => simp [hasContent]
  | elem t cs =>
    simp only [allContent, Bool.and_eq_true] at h
    exact h.1

/-- in a forest without empty elements, having content is the same as being non-empty -/
theorem anyContent_of_allContentL (ns : List Node) (h : allContentL ns = true) :
    anyContent ns = !ns.isEmpty := by
  cases ns with
  | nil => simp [anyContent]
  | cons c cs =>
    simp only [allContentL, Bool.and_eq_true] at h
    simp [anyContent, hasContent_of_allContent c h.1]

theorem allContentL_sepText (t : Tag) : allContentL (sepText t) = true := by
  unfold sepText
  split
  · split
    · simp [allContentL]
    · rename_i h; simp [allContentL, allContent, hasContent, h]
  · simp [allContentL]

/-! ### `addC` never returns the empty list -/

theorem addC_ne_nil (acc : List Node) (n : Node) : addC acc n ≠ [] := by
  match n with
  | .text s => simp [addC_text]
  | .forceWrite => simp [addC_fw]
  | .elem t cs =>
    unfold addC
    split
    · split <;> simp
    · simp

theorem addAllC_eq_nil (acc ns : List Node) (h : addAllC acc ns = []) : acc = [] ∧ ns = [] := by
  match ns with
  | [] => simpa using h
  | c :: cs =>
    simp only [addAllC_cons] at h
    exact absurd (addAllC_eq_nil (addC acc c) cs h).1 (addC_ne_nil acc c)

theorem collapseFrom_eq_nil (acc ns : List Node) (h : collapseFrom acc ns = []) : acc = [] ∧ ns = [] := by
  match ns with
  | [] => simpa [collapseFrom] using h
  | c :: cs =>
    unfold collapseFrom at h
    exact absurd (collapseFrom_eq_nil _ cs h).1 (addC_ne_nil acc _)

/-- `collapse` returns the empty forest only for the empty forest -/
theorem collapse_eq_nil_iff (ns : List Node) : collapse ns = [] ↔ ns = [] := by
  constructor
  · intro h; exact (collapseFrom_eq_nil [] ns h).2
  · intro h; subst h; rfl

/-! ### no empty element appears -/

mutual
theorem allContentL_addC (acc : List Node) (n : Node) (ha : allContentL acc = true)
    (hn : allContent n = true) : allContentL (addC acc n) = true := by
  match n with
  | .text s => rw [addC_text, allContentL_append]; simp [ha, allContentL, hn]
  | .forceWrite => rw [addC_fw, allContentL_append]; simp [ha, allContentL, hn]
  | .elem t cs =>
    have hn' := hn
    simp only [allContent, Bool.and_eq_true] at hn'
    unfold addC
    split
    · rename_i lt lcs hl
      split
      · have hacc := getLast?_eq_some_append acc _ hl
        rw [hacc, allContentL_append] at ha
        simp only [Bool.and_eq_true, allContentL, allContent] at ha
        obtain ⟨hinit, ⟨hlc, hlcs⟩, _⟩ := ha
        have hM := allContentL_addAllC (lcs ++ sepText t) cs
          (by rw [allContentL_append]; simp [hlcs, allContentL_sepText]) hn'.2
        rw [allContentL_append]
        simp only [Bool.and_eq_true, allContentL, allContent, and_true]
        refine ⟨hinit, ?_, hM⟩
        simp only [hasContent]
        rw [anyContent_of_allContentL _ hM]
        cases hMe : addAllC (lcs ++ sepText t) cs with
        | cons m ms => simp
        | nil =>
          have h0 := (addAllC_eq_nil _ _ hMe).1
          have hl0 : lcs = [] := (List.append_eq_nil_iff.mp h0).1
          subst hl0
          simpa [hasContent, anyContent] using hlc
      · rw [allContentL_append]; simp [ha, allContentL, hn]
    · rw [allContentL_append]; simp [ha, allContentL, hn]
theorem allContentL_addAllC (acc ns : List Node) (ha : allContentL acc = true)
    (h : allContentL ns = true) : allContentL (addAllC acc ns) = true := by
  match ns with
  | [] => simpa using ha
  | c :: cs =>
    have h' := h
    simp only [allContentL, Bool.and_eq_true] at h'
    simp only [addAllC_cons]
    exact allContentL_addAllC _ cs (allContentL_addC acc c ha h'.1) h'.2
end

mutual
theorem allContent_collapseNode (n : Node) (h : allContent n = true) :
    allContent (collapseNode n) = true := by
  match n with
  | .text s => simpa [collapseNode] using h
  | .forceWrite => simpa [collapseNode] using h
  | .elem t cs =>
    have h' := h
    simp only [allContent, Bool.and_eq_true] at h'
    have hM := allContentL_collapseFrom [] cs (by simp [allContentL]) h'.2
    simp only [collapseNode, allContent, Bool.and_eq_true]
    refine ⟨?_, hM⟩
    simp only [hasContent]
    rw [anyContent_of_allContentL _ hM]
    cases hMe : collapseFrom [] cs with
    | cons m ms => simp
    | nil =>
      have h0 := (collapseFrom_eq_nil _ _ hMe).2
      subst h0
      simpa [hasContent, anyContent] using h'.1
theorem allContentL_collapseFrom (acc ns : List Node) (ha : allContentL acc = true)
    (h : allContentL ns = true) : allContentL (collapseFrom acc ns) = true := by
  match ns with
  | [] => simpa [collapseFrom] using ha
  | c :: cs =>
    have h' := h
    simp only [allContentL, Bool.and_eq_true] at h'
    unfold collapseFrom
    exact allContentL_collapseFrom _ cs
      (allContentL_addC acc _ ha (allContent_collapseNode c h'.1)) h'.2
end

/-- a forest without empty elements stays one under `collapse` -/
theorem allContentL_collapse (ns : List Node) (h : allContentL ns = true) :
    allContentL (collapse ns) = true :=
  allContentL_collapseFrom [] ns (by simp [allContentL]) h

/-! ### force-write markers are never lost, duplicated or moved out of order: their number is kept -/
mutual
/-- number of force-write markers in a node -/
def fwCount : Node → Nat
  | .forceWrite => 1
  | .text _ => 0
  | .elem _ cs => fwCountL cs
def fwCountL : List Node → Nat
  | [] => 0
  | c :: cs => fwCount c + fwCountL cs
end

theorem fwCountL_append (a b : List Node) : fwCountL (a ++ b) = fwCountL a + fwCountL b := by
  induction a with
  | nil => simp [fwCountL]
  | cons x xs ih => simp [fwCountL, ih, Nat.add_assoc]

theorem fwCountL_sepText (t : Tag) : fwCountL (sepText t) = 0 := by
  unfold sepText
  split
  · split <;> simp [fwCountL, fwCount]
  · simp [fwCountL]

mutual
theorem fwCount_addC (acc : List Node) (n : Node) :
    fwCountL (addC acc n) = fwCountL acc + fwCount n := by
  match n with
  | .text s => simp [addC_text, fwCountL_append, fwCountL]
  | .forceWrite => simp [addC_fw, fwCountL_append, fwCountL]
  | .elem t cs =>
    unfold addC
    split
    · rename_i lt lcs hl
      split
      · have hacc := getLast?_eq_some_append acc _ hl
        have ih := fwCount_addAllC (lcs ++ sepText t) cs
        rw [fwCountL_append, fwCountL_sepText] at ih
        conv => rhs; rw [hacc]
        simp only [fwCountL_append, fwCountL, fwCount, ih]
        omega
      · simp [fwCountL_append, fwCountL]
    · simp [fwCountL_append, fwCountL]
theorem fwCount_addAllC (acc ns : List Node) :
    fwCountL (addAllC acc ns) = fwCountL acc + fwCountL ns := by
  match ns with
  | [] => simp [fwCountL]
  | c :: cs =>
    simp only [addAllC_cons]
    rw [fwCount_addAllC (addC acc c) cs, fwCount_addC acc c]
    simp [fwCountL, Nat.add_assoc]
end

mutual
theorem fwCount_collapseNode (n : Node) : fwCount (collapseNode n) = fwCount n := by
  match n with
  | .text s => simp [collapseNode]
  | .forceWrite => simp [collapseNode]
  | .elem t cs =>
    simp only [collapseNode, fwCount]
    simpa [fwCountL] using fwCount_collapseFrom [] cs
theorem fwCount_collapseFrom (acc ns : List Node) :
    fwCountL (collapseFrom acc ns) = fwCountL acc + fwCountL ns := by
  match ns with
  | [] => simp [collapseFrom, fwCountL]
  | c :: cs =>
    unfold collapseFrom
    rw [fwCount_collapseFrom _ cs, fwCount_addC, fwCount_collapseNode c]
    simp [fwCountL, Nat.add_assoc]
end

theorem fwCount_collapse (ns : List Node) : fwCountL (collapse ns) = fwCountL ns := by
  simpa [collapse, fwCountL] using fwCount_collapseFrom [] ns

mutual
theorem fwCount_pruneNode (n : Node) : fwCount (pruneNode n) = fwCount n := by
  match n with
  | .text s => simp [pruneNode]
  | .forceWrite => simp [pruneNode]
  | .elem t cs => simp only [pruneNode, fwCount]; exact fwCount_prune cs
theorem fwCount_prune (ns : List Node) : fwCountL (prune ns) = fwCountL ns := by
  match ns with
  | [] => simp [prune]
  | c :: cs =>
    unfold prune
    by_cases hc : hasContent c = true
    · simp [hc, fwCountL, fwCount_pruneNode c, fwCount_prune cs]
    · simp only [hc]
      have h0 : fwCount c = 0 := fwCount_of_noContent c (by simpa using hc)
      simp [fwCountL, h0, fwCount_prune cs]
theorem fwCount_of_noContent (n : Node) (h : hasContent n = false) : fwCount n = 0 := by
  match n with
  | .text s => simp [fwCount]
  | .forceWrite => simp [hasContent] at h
  | .elem t cs =>
    simp only [hasContent, Bool.or_eq_false_iff] at h
    simp only [fwCount]
    exact fwCountL_of_noContent cs h.2
theorem fwCountL_of_noContent (ns : List Node) (h : anyContent ns = false) : fwCountL ns = 0 := by
  match ns with
  | [] => simp [fwCountL]
  | c :: cs =>
    simp only [anyContent, Bool.or_eq_false_iff] at h
    simp [fwCountL, fwCount_of_noContent c h.1, fwCountL_of_noContent cs h.2]
end

end Mammoth
