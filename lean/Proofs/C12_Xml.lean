/-
  C12 helpers: `_add_or_update_element` on ElementTree trees.

  A tree is observed through its list of labels `(tag, attributes)` in document order
  (`c12_labels`).  `eSetFirst` changes exactly one label — the first one satisfying the predicate —
  and nothing else; `addOrUpdate` either does that or appends one label at the very end.
-/
import MammothModel.Embed
namespace Mammoth

abbrev c12_Label := Str × List (Str × Str)

/-- the labels `(tag, attrs)` of `e.iter()`, in document order -/
def c12_labels (e : EElem) : List c12_Label := (eIter e).map fun x => (x.tag, x.attrs)
def c12_labelsL (es : List EElem) : List c12_Label := (eIterL es).map fun x => (x.tag, x.attrs)

theorem c12_labels_mk (t : Str) (as : List (Str × Str)) (cs : List EElem) :
    c12_labels ⟨t, as, cs⟩ = (t, as) :: c12_labelsL cs := by
  simp [c12_labels, c12_labelsL, eIter]

theorem c12_labelsL_nil : c12_labelsL [] = [] := by simp [c12_labelsL, eIterL]

theorem c12_labelsL_cons (c : EElem) (cs : List EElem) :
    c12_labelsL (c :: cs) = c12_labels c ++ c12_labelsL cs := by
  simp [c12_labels, c12_labelsL, eIterL]

theorem c12_labelsL_append (cs ds : List EElem) :
    c12_labelsL (cs ++ ds) = c12_labelsL cs ++ c12_labelsL ds := by
  induction cs with
  | nil => simp [c12_labelsL_nil]
  | cons c cs ih => simp [c12_labelsL_cons, ih]

/-- the test of `_find_child` as a predicate on labels -/
def c12_matchL (name idAttr : Str) (attrs : List (Str × Str)) (l : c12_Label) : Bool :=
  l.1 == name && eAttr? idAttr l.2 == eAttr? idAttr attrs

theorem c12_eMatches_label (name idAttr : Str) (attrs : List (Str × Str)) (e : EElem) :
    eMatches name idAttr attrs e = c12_matchL name idAttr attrs (e.tag, e.attrs) := rfl

/-- an element carrying the new attributes and the searched tag always matches -/
theorem c12_matchL_new (name idAttr : Str) (attrs : List (Str × Str)) :
    c12_matchL name idAttr attrs (name, attrs) = true := by
  simp [c12_matchL]

/-- a matching label still matches after its attributes were replaced by the new ones,
    and its tag is the searched tag -/
theorem c12_matchL_replaced (name idAttr : Str) (attrs : List (Str × Str)) (t : Str)
    (as : List (Str × Str)) (h : c12_matchL name idAttr attrs (t, as) = true) :
    t = name ∧ c12_matchL name idAttr attrs (t, attrs) = true := by
  simp only [c12_matchL, Bool.and_eq_true, beq_iff_eq] at h
  refine ⟨h.1, ?_⟩
  simp [c12_matchL, h.1]

section
set_option linter.unusedSectionVars false
variable (p : EElem → Bool) (q : c12_Label → Bool) (hp : ∀ e, p e = q (e.tag, e.attrs))
variable (attrs : List (Str × Str))
include hp

mutual
/-- `_find_child` finds nothing iff no label matches -/
theorem c12_setFirst_none (e : EElem) :
    eSetFirst p attrs e = none ↔ ∀ l ∈ c12_labels e, q l = false := by
  match e with
  | ⟨t, as, cs⟩ =>
    have ih := c12_setFirstL_none cs
    unfold eSetFirst
    rw [c12_labels_mk]
    by_cases h : p ⟨t, as, cs⟩ = true
    · have hq : q (t, as) = true := by rw [← h, hp]
      rw [if_pos h]
      simp only [List.mem_cons]
      constructor
      · intro h'; cases h'
      · intro h'; have := h' (t, as) (Or.inl rfl); rw [hq] at this; cases this
    · have hq : q (t, as) = false := by
        have := hp ⟨t, as, cs⟩; simp only [] at this; rw [← this]; simpa using h
      rw [if_neg h]
      cases hs : eSetFirstL p attrs cs with
      | some cs' =>
        simp only [List.mem_cons]
        constructor
        · intro h'; cases h'
        · intro h'
          have : eSetFirstL p attrs cs = none := ih.mpr fun l hl => h' l (Or.inr hl)
          rw [hs] at this; cases this
      | none =>
        simp only [List.mem_cons, true_iff]
        intro l hl
        rcases hl with rfl | hl
        · exact hq
        · exact ih.mp hs l hl
theorem c12_setFirstL_none (es : List EElem) :
    eSetFirstL p attrs es = none ↔ ∀ l ∈ c12_labelsL es, q l = false := by
  match es with
  | [] => simp [eSetFirstL, c12_labelsL_nil]
  | c :: cs =>
    have ih1 := c12_setFirst_none c
    have ih2 := c12_setFirstL_none cs
    unfold eSetFirstL
    rw [c12_labelsL_cons]
    cases h1 : eSetFirst p attrs c with
    | some c' =>
      simp only [List.mem_append]
      constructor
      · intro h'; cases h'
      · intro h'
        have : eSetFirst p attrs c = none := ih1.mpr fun l hl => h' l (Or.inl hl)
        rw [h1] at this; cases this
    | none =>
      cases h2 : eSetFirstL p attrs cs with
      | some cs' =>
        simp only [List.mem_append]
        constructor
        · intro h'; cases h'
        · intro h'
          have : eSetFirstL p attrs cs = none := ih2.mpr fun l hl => h' l (Or.inr hl)
          rw [h2] at this; cases this
      | none =>
        simp only [List.mem_append, true_iff]
        intro l hl
        rcases hl with hl | hl
        · exact ih1.mp h1 l hl
        · exact ih2.mp h2 l hl
end

mutual
/-- `existing_child.attrib = attributes` changes exactly one label: the first matching one -/
theorem c12_setFirst_labels (e e' : EElem) (h : eSetFirst p attrs e = some e') :
    ∃ pre t as post, c12_labels e = pre ++ (t, as) :: post ∧
      c12_labels e' = pre ++ (t, attrs) :: post ∧ q (t, as) = true ∧ ∀ l ∈ pre, q l = false := by
  match e with
  | ⟨t, as, cs⟩ =>
    unfold eSetFirst at h
    by_cases hpe : p ⟨t, as, cs⟩ = true
    · rw [if_pos hpe] at h; simp only [Option.some.injEq] at h
      subst h
      refine ⟨[], t, as, c12_labelsL cs, ?_, ?_, ?_, ?_⟩
      · simp [c12_labels_mk]
      · simp [c12_labels_mk]
      · rw [← hpe, hp]
      · simp
    · have hq : q (t, as) = false := by
        have := hp ⟨t, as, cs⟩; simp only [] at this; rw [← this]; simpa using hpe
      rw [if_neg hpe] at h
      cases hs : eSetFirstL p attrs cs with
      | none => rw [hs] at h; cases h
      | some cs' =>
        rw [hs] at h
        simp only [Option.some.injEq] at h
        subst h
        obtain ⟨pre, t1, as1, post, e1, e2, e3, e4⟩ := c12_setFirstL_labels cs cs' hs
        refine ⟨(t, as) :: pre, t1, as1, post, ?_, ?_, e3, ?_⟩
        · rw [c12_labels_mk, e1]; rfl
        · rw [c12_labels_mk, e2]; rfl
        · intro l hl
          rcases List.mem_cons.mp hl with rfl | hl
          · exact hq
          · exact e4 l hl
theorem c12_setFirstL_labels (es es' : List EElem) (h : eSetFirstL p attrs es = some es') :
    ∃ pre t as post, c12_labelsL es = pre ++ (t, as) :: post ∧
      c12_labelsL es' = pre ++ (t, attrs) :: post ∧ q (t, as) = true ∧ ∀ l ∈ pre, q l = false := by
  match es with
  | [] => simp [eSetFirstL] at h
  | c :: cs =>
    unfold eSetFirstL at h
    cases h1 : eSetFirst p attrs c with
    | some c' =>
      rw [h1] at h
      simp only [Option.some.injEq] at h
      subst h
      obtain ⟨pre, t1, as1, post, e1, e2, e3, e4⟩ := c12_setFirst_labels c c' h1
      refine ⟨pre, t1, as1, post ++ c12_labelsL cs, ?_, ?_, e3, e4⟩
      · rw [c12_labelsL_cons, e1]; simp
      · rw [c12_labelsL_cons, e2]; simp
    | none =>
      rw [h1] at h
      cases h2 : eSetFirstL p attrs cs with
      | none => rw [h2] at h; cases h
      | some cs' =>
        rw [h2] at h
        simp only [Option.some.injEq] at h
        subst h
        obtain ⟨pre, t1, as1, post, e1, e2, e3, e4⟩ := c12_setFirstL_labels cs cs' h2
        refine ⟨c12_labels c ++ pre, t1, as1, post, ?_, ?_, e3, ?_⟩
        · rw [c12_labelsL_cons, e1]; simp
        · rw [c12_labelsL_cons, e2]; simp
        · intro l hl
          rcases List.mem_append.mp hl with hl | hl
          · exact (c12_setFirst_none p q hp attrs c).mp h1 l hl
          · exact e4 l hl
end

variable (hq : ∀ t as, q (t, as) = true → q (t, attrs) = true)
include hq

mutual
/-- updating twice is the same as updating once -/
theorem c12_setFirst_idem (e e' : EElem) (h : eSetFirst p attrs e = some e') :
    eSetFirst p attrs e' = some e' := by
  match e with
  | ⟨t, as, cs⟩ =>
    unfold eSetFirst at h
    by_cases hpe : p ⟨t, as, cs⟩ = true
    · rw [if_pos hpe] at h; simp only [Option.some.injEq] at h
      subst h
      have : p ⟨t, attrs, cs⟩ = true := by
        rw [hp]; exact hq t as (by rw [← hpe, hp])
      unfold eSetFirst
      simp [this]
    · rw [if_neg hpe] at h
      cases hs : eSetFirstL p attrs cs with
      | none => rw [hs] at h; cases h
      | some cs' =>
        rw [hs] at h
        simp only [Option.some.injEq] at h
        subst h
        have hpe' : ¬ p ⟨t, as, cs'⟩ = true := by
          rw [hp]; rw [hp] at hpe; exact hpe
        unfold eSetFirst
        rw [if_neg hpe']
        rw [c12_setFirstL_idem cs cs' hs]
theorem c12_setFirstL_idem (es es' : List EElem) (h : eSetFirstL p attrs es = some es') :
    eSetFirstL p attrs es' = some es' := by
  match es with
  | [] => simp [eSetFirstL] at h
  | c :: cs =>
    unfold eSetFirstL at h
    cases h1 : eSetFirst p attrs c with
    | some c' =>
      rw [h1] at h
      simp only [Option.some.injEq] at h
      subst h
      unfold eSetFirstL
      rw [c12_setFirst_idem c c' h1]
    | none =>
      rw [h1] at h
      cases h2 : eSetFirstL p attrs cs with
      | none => rw [h2] at h; cases h
      | some cs' =>
        rw [h2] at h
        simp only [Option.some.injEq] at h
        subst h
        unfold eSetFirstL
        rw [h1, c12_setFirstL_idem cs cs' h2]
end
end

/-- nothing found in `cs`: the search continues in what follows -/
theorem c12_setFirstL_append (p : EElem → Bool) (attrs : List (Str × Str)) (cs ds : List EElem)
    (h : eSetFirstL p attrs cs = none) :
    eSetFirstL p attrs (cs ++ ds) = (eSetFirstL p attrs ds).map (cs ++ ·) := by
  induction cs with
  | nil => simp
  | cons c cs ih =>
    unfold eSetFirstL at h
    cases h1 : eSetFirst p attrs c with
    | some c' => rw [h1] at h; cases h
    | none =>
      rw [h1] at h
      cases h2 : eSetFirstL p attrs cs with
      | some cs' => rw [h2] at h; cases h
      | none =>
        rw [List.cons_append, eSetFirstL, h1]
        simp only []
        rw [ih h2]
        cases eSetFirstL p attrs ds <;> simp

theorem c12_eMatches_hp (name idAttr : Str) (attrs : List (Str × Str)) :
    ∀ e, eMatches name idAttr attrs e = c12_matchL name idAttr attrs (e.tag, e.attrs) :=
  fun _ => rfl

theorem c12_matchL_hq (name idAttr : Str) (attrs : List (Str × Str)) :
    ∀ t as, c12_matchL name idAttr attrs (t, as) = true →
      c12_matchL name idAttr attrs (t, attrs) = true :=
  fun t as h => (c12_matchL_replaced name idAttr attrs t as h).2

/-- `_find_child` returns `None` exactly when the update function finds nothing to update
    (so `addOrUpdate` is "if `_find_child` is None: append, else: set the attributes") -/
theorem c12_findChild_none (r : EElem) (name idAttr : Str) (attrs : List (Str × Str)) :
    findChildE r name idAttr attrs = none ↔
      eSetFirst (eMatches name idAttr attrs) attrs r = none := by
  rw [c12_setFirst_none _ _ (c12_eMatches_hp name idAttr attrs) attrs r]
  unfold findChildE c12_labels
  rw [List.find?_eq_none]
  constructor
  · intro h l hl
    obtain ⟨e, he, rfl⟩ := List.mem_map.mp hl
    have := h e he
    rw [c12_eMatches_label] at this
    simpa using this
  · intro h e he
    have := h (e.tag, e.attrs) (List.mem_map.mpr ⟨e, he, rfl⟩)
    rw [c12_eMatches_label, this]; simp

/-- what `_add_or_update_element` does to the labels: either the first matching label gets the new
    attributes (its tag is the searched one), or — no label matching — one new label is appended at
    the very end (a new last child of the root). -/
theorem c12_addOrUpdate_labels (r : EElem) (name idAttr : Str) (attrs : List (Str × Str)) :
    (∃ pre as post, c12_labels r = pre ++ (name, as) :: post ∧
        c12_labels (addOrUpdate r name idAttr attrs) = pre ++ (name, attrs) :: post ∧
        c12_matchL name idAttr attrs (name, as) = true ∧
        ∀ l ∈ pre, c12_matchL name idAttr attrs l = false)
    ∨ ((∀ l ∈ c12_labels r, c12_matchL name idAttr attrs l = false) ∧
        c12_labels (addOrUpdate r name idAttr attrs) = c12_labels r ++ [(name, attrs)]) := by
  unfold addOrUpdate
  cases h : eSetFirst (eMatches name idAttr attrs) attrs r with
  | some r' =>
    left
    obtain ⟨pre, t, as, post, e1, e2, e3, e4⟩ :=
      c12_setFirst_labels _ _ (c12_eMatches_hp name idAttr attrs) attrs r r' h
    have ht := (c12_matchL_replaced name idAttr attrs t as e3).1
    subst ht
    exact ⟨pre, as, post, e1, e2, e3, e4⟩
  | none =>
    right
    have hn := (c12_setFirst_none _ _ (c12_eMatches_hp name idAttr attrs) attrs r).mp h
    refine ⟨hn, ?_⟩
    obtain ⟨t, as, cs⟩ := r
    simp only [c12_labels_mk, c12_labelsL_append, c12_labelsL_cons, c12_labelsL_nil,
      List.append_nil, List.cons_append]

/-- all labels that do not match are kept, in order, with their attributes -/
theorem c12_addOrUpdate_others (r : EElem) (name idAttr : Str) (attrs : List (Str × Str)) :
    (c12_labels (addOrUpdate r name idAttr attrs)).filter (fun l => !c12_matchL name idAttr attrs l)
      = (c12_labels r).filter (fun l => !c12_matchL name idAttr attrs l) := by
  have hnew := c12_matchL_new name idAttr attrs
  rcases c12_addOrUpdate_labels r name idAttr attrs with ⟨pre, as, post, e1, e2, e3, _⟩ | ⟨_, e⟩
  · rw [e1, e2]; simp [List.filter_append, e3, hnew]
  · rw [e]; simp [List.filter_append, hnew]

/-- the matching labels afterwards: the first one replaced by the new entry, or the new entry alone -/
theorem c12_addOrUpdate_matching (r : EElem) (name idAttr : Str) (attrs : List (Str × Str)) :
    (c12_labels (addOrUpdate r name idAttr attrs)).filter (c12_matchL name idAttr attrs)
      = (name, attrs) :: ((c12_labels r).filter (c12_matchL name idAttr attrs)).tail := by
  have hnew := c12_matchL_new name idAttr attrs
  rcases c12_addOrUpdate_labels r name idAttr attrs with ⟨pre, as, post, e1, e2, e3, e4⟩ | ⟨h, e⟩
  · have hpre : pre.filter (c12_matchL name idAttr attrs) = [] := by
      rw [List.filter_eq_nil_iff]; intro l hl; simp [e4 l hl]
    rw [e1, e2]; simp [List.filter_append, e3, hnew, hpre]
  · have hall : (c12_labels r).filter (c12_matchL name idAttr attrs) = [] := by
      rw [List.filter_eq_nil_iff]; intro l hl; simp [h l hl]
    rw [e]; simp [List.filter_append, hnew, hall]

/-- with at most one matching entry before, there is exactly one afterwards, and it is the new one -/
theorem c12_addOrUpdate_one (r : EElem) (name idAttr : Str) (attrs : List (Str × Str))
    (h : ((c12_labels r).filter (c12_matchL name idAttr attrs)).length ≤ 1) :
    (c12_labels (addOrUpdate r name idAttr attrs)).filter (c12_matchL name idAttr attrs)
      = [(name, attrs)] := by
  rw [c12_addOrUpdate_matching]
  cases hl : (c12_labels r).filter (c12_matchL name idAttr attrs) with
  | nil => rfl
  | cons x xs =>
    rw [hl] at h
    cases xs with
    | nil => rfl
    | cons y ys => simp at h

/-- `_add_or_update_element` applied twice = applied once -/
theorem c12_addOrUpdate_idem (r : EElem) (name idAttr : Str) (attrs : List (Str × Str)) :
    addOrUpdate (addOrUpdate r name idAttr attrs) name idAttr attrs
      = addOrUpdate r name idAttr attrs := by
  have hp := c12_eMatches_hp name idAttr attrs
  have hq := c12_matchL_hq name idAttr attrs
  cases h : eSetFirst (eMatches name idAttr attrs) attrs r with
  | some r' =>
    have e : addOrUpdate r name idAttr attrs = r' := by simp [addOrUpdate, h]
    rw [e]
    have := c12_setFirst_idem _ _ hp attrs hq r r' h
    simp [addOrUpdate, this]
  | none =>
    obtain ⟨t, as, cs⟩ := r
    have e : addOrUpdate ⟨t, as, cs⟩ name idAttr attrs
        = ⟨t, as, cs ++ [⟨name, attrs, []⟩]⟩ := by simp [addOrUpdate, h]
    rw [e]
    have hroot : ¬ eMatches name idAttr attrs ⟨t, as, cs⟩ = true := by
      have := (c12_setFirst_none _ _ hp attrs ⟨t, as, cs⟩).mp h (t, as)
        (by rw [c12_labels_mk]; exact List.mem_cons_self ..)
      rw [hp]; simp [this]
    have hroot' : ¬ eMatches name idAttr attrs ⟨t, as, cs ++ [⟨name, attrs, []⟩]⟩ = true := hroot
    have hcs : eSetFirstL (eMatches name idAttr attrs) attrs cs = none := by
      unfold eSetFirst at h
      rw [if_neg hroot] at h
      cases hh : eSetFirstL (eMatches name idAttr attrs) attrs cs with
      | none => rfl
      | some x => rw [hh] at h; cases h
    have hnew : eMatches name idAttr attrs ⟨name, attrs, []⟩ = true := by
      rw [hp]; exact c12_matchL_new name idAttr attrs
    have hlast : eSetFirstL (eMatches name idAttr attrs) attrs [⟨name, attrs, []⟩]
        = some [⟨name, attrs, []⟩] := by
      simp [eSetFirstL, eSetFirst, hnew]
    have hstep : eSetFirst (eMatches name idAttr attrs) attrs ⟨t, as, cs ++ [⟨name, attrs, []⟩]⟩
        = some ⟨t, as, cs ++ [⟨name, attrs, []⟩]⟩ := by
      unfold eSetFirst
      rw [if_neg hroot', c12_setFirstL_append _ _ _ _ hcs, hlast]
      rfl
    simp [addOrUpdate, hstep]

end Mammoth
