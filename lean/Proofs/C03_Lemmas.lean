/-
  C03 — helper definitions and lemmas: the state monad of the converter, `findPathWarn`,
  `startsWith`, `wrapAll`, kinds of matchers / targets.
-/
import MammothModel.Package
namespace Mammoth

/-! ### running the converter monad -/

theorem c03_bind_run {α β} (m : ConvM α) (f : α → ConvM β) (st : ConvState) :
    (m >>= f).run st =
      match m.run st with
      | .ok (a, s') => (f a).run s'
      | .error e => .error e := by
  simp only [StateT.run, bind, StateT.bind, Except.bind]
  cases m st <;> rfl

theorem c03_pure_run {α} (a : α) (st : ConvState) : (pure a : ConvM α).run st = .ok (a, st) := rfl

/-- the warning text of `_find_html_path` -/
def c03_styleWarning (kind : Str) (styleName : Option Str) (sid : Str) : Str :=
  S!"Unrecognised " ++ kind ++ S!" style: " ++ pyOpt styleName ++ S!" (Style ID: " ++ sid ++ S!")"

/-- the state after `findPathWarn`: one more message iff nothing matched and there is a style id -/
def c03_warnState (cfg : Cfg) (t : Target) (kind : Str) (styleId styleName : Option Str)
    (st : ConvState) : ConvState :=
  match findPath cfg t, styleId with
  | none, some sid => { st with messages := st.messages ++ [c03_styleWarning kind styleName sid] }
  | _, _ => st

theorem c03_findPathWarn_run (cfg : Cfg) (t : Target) (kind : Str) (sid sname : Option Str)
    (d : HtmlPath) (st : ConvState) :
    (findPathWarn cfg t kind sid sname d).run st =
      .ok ((findPath cfg t).getD d, c03_warnState cfg t kind sid sname st) := by
  unfold findPathWarn c03_warnState
  cases h : findPath cfg t with
  | some p => rfl
  | none =>
    cases sid with
    | none => rfl
    | some i => rfl

theorem c03_warnState_matched (cfg : Cfg) (t : Target) (kind : Str) (sid sname : Option Str)
    (st : ConvState) (p : HtmlPath) (h : findPath cfg t = some p) :
    c03_warnState cfg t kind sid sname st = st := by
  simp [c03_warnState, h]

theorem c03_warnState_noId (cfg : Cfg) (t : Target) (kind : Str) (sname : Option Str)
    (st : ConvState) : c03_warnState cfg t kind none sname st = st := by
  unfold c03_warnState
  cases findPath cfg t <;> rfl

/-! ### `startsWith` -/

theorem c03_startsWith_iff (s p : Str) : startsWith s p = true ↔ ∃ r, s = p ++ r := by
  induction p generalizing s with
  | nil => simp [startsWith]
  | cons c p ih =>
    cases s with
    | nil => simp [startsWith]
    | cons d s =>
      simp only [startsWith, Bool.and_eq_true, beq_iff_eq, ih, List.cons_append, List.cons.injEq]
      constructor
      · rintro ⟨rfl, r, rfl⟩; exact ⟨r, rfl, rfl⟩
      · rintro ⟨r, rfl, rfl⟩; exact ⟨rfl, r, rfl⟩

/-! ### `wrapAll` / `wrapElems` -/

theorem c03_wrapAll_append (ps qs : List HtmlPath) (ns : List Node) :
    wrapAll (ps ++ qs) ns = wrapAll qs (wrapAll ps ns) := by
  induction ps generalizing ns with
  | nil => rfl
  | cons p ps ih =>
    cases p with
    | elements es => simp only [List.cons_append, wrapAll, ih]
    | ignore => simp only [List.cons_append, wrapAll, ih]

theorem c03_wrapAll_snoc_empty (ps : List HtmlPath) (ns : List Node) :
    wrapAll (ps ++ [.elements []]) ns = wrapAll ps ns := by
  rw [c03_wrapAll_append]; rfl

/-! ### kinds -/

/-- what sort of thing a matcher / a target is about -/
inductive c03_Kind where
  | paragraph | run | table | bold | italic | underline | strikethrough | allCaps | smallCaps
  | highlight | commentReference | brk
deriving DecidableEq, Repr

def c03_matcherKind : Matcher → c03_Kind
  | .paragraph _ _ _ => .paragraph
  | .run _ _ => .run
  | .table _ _ => .table
  | .bold => .bold
  | .italic => .italic
  | .underline => .underline
  | .strikethrough => .strikethrough
  | .allCaps => .allCaps
  | .smallCaps => .smallCaps
  | .highlight _ => .highlight
  | .commentReference => .commentReference
  | .brk _ => .brk

def c03_targetKind : Target → c03_Kind
  | .paragraph _ => .paragraph
  | .run _ _ => .run
  | .table _ _ => .table
  | .bold => .bold
  | .italic => .italic
  | .underline => .underline
  | .strikethrough => .strikethrough
  | .allCaps => .allCaps
  | .smallCaps => .smallCaps
  | .highlight _ => .highlight
  | .commentReference => .commentReference
  | .brk _ => .brk

theorem c03_optEqOrNone_iff (m e : Option Str) :
    optEqOrNone m e = true ↔ ∀ v, m = some v → e = some v := by
  cases m <;> simp [optEqOrNone]

theorem c03_nameMatches_iff (up : Str → Str) (m : Option StrMatch) (e : Option Str) :
    nameMatches up m e = true ↔ ∀ sm, m = some sm → ∃ n, e = some n ∧ sm.matches up n = true := by
  cases m with
  | none => simp [nameMatches]
  | some sm => cases e <;> simp [nameMatches]

end Mammoth
