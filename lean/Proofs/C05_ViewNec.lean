/-
  C05 — the "parts parse" clause of the domain is necessary: when `c05_view p = none` (a part that is present
  does not parse, or the main document / its body is missing), `readPackage` fails, whatever the fuel.
-/
import Proofs.C05_View
namespace Mammoth

theorem c05_bind_fails {α β} (x : Except Err α) (f : α → Except Err β)
    (h : ∀ a, x = .ok a → ∃ e, f a = .error e) : ∃ e, (x >>= f) = .error e := by
  cases x with
  | error e => exact ⟨e, rfl⟩
  | ok a => exact h a rfl

theorem c05_readNotesPart_fails (p : Package) (shared : REnv) (fuel : Nat) (path ty : Str)
    (h : c05_partView p path (c05_noteSel ty) = none) : ∃ e, readNotesPart p shared fuel path ty = .error e := by
  unfold c05_partView at h
  unfold readNotesPart
  by_cases hex : p.exists path = true
  · rw [if_pos hex] at h ⊢
    apply c05_bind_fails; intro rels hr
    rw [hr] at h; dsimp only at h
    apply c05_bind_fails; intro acs hx
    obtain ⟨as, cs⟩ := acs
    rw [hx] at h; cases h
  · rw [if_neg hex] at h; cases h

theorem c05_readCommentsPart_fails (p : Package) (shared : REnv) (fuel : Nat) (path : Str)
    (h : c05_partView p path (findChildren S!"w:comment") = none) :
    ∃ e, readCommentsPart p shared fuel path = .error e := by
  unfold c05_partView at h
  unfold readCommentsPart
  by_cases hex : p.exists path = true
  · rw [if_pos hex] at h ⊢
    apply c05_bind_fails; intro rels hr
    rw [hr] at h; dsimp only at h
    apply c05_bind_fails; intro acs hx
    obtain ⟨as, cs⟩ := acs
    rw [hx] at h; cases h
  · rw [if_neg hex] at h; cases h

theorem c05_some_ne_error {α} {x : Except Err α} {a : α} {e : Err} (h1 : x = .ok a) (h2 : x = .error e) : False := by
  rw [h1] at h2; cases h2

theorem c05_view_none_fails (p : Package) (fuel : Nat) (h : c05_view p = none) :
    ∃ e, readPackage p fuel = .error e := by
  unfold c05_view at h
  unfold readPackage
  apply c05_bind_fails; intro paths h1
  rw [h1] at h; dsimp only at h
  apply c05_bind_fails; intro shared h2
  rw [h2] at h; dsimp only at h
  apply c05_bind_fails; intro fnr h3
  cases h3' : c05_partView p paths.footnotes (c05_noteSel S!"footnote") with
  | none =>
    obtain ⟨e, he⟩ := c05_readNotesPart_fails p shared fuel _ _ h3'
    exact (c05_some_ne_error h3 he).elim
  | some fn =>
  rw [h3'] at h; dsimp only at h
  obtain ⟨fns, fm⟩ := fnr
  dsimp only
  apply c05_bind_fails; intro enr h4
  cases h4' : c05_partView p paths.endnotes (c05_noteSel S!"endnote") with
  | none =>
    obtain ⟨e, he⟩ := c05_readNotesPart_fails p shared fuel _ _ h4'
    exact (c05_some_ne_error h4 he).elim
  | some en =>
  rw [h4'] at h; dsimp only at h
  obtain ⟨ens, em⟩ := enr
  dsimp only
  apply c05_bind_fails; intro cmr h5
  cases h5' : c05_partView p paths.comments (findChildren S!"w:comment") with
  | none =>
    obtain ⟨e, he⟩ := c05_readCommentsPart_fails p shared fuel _ h5'
    exact (c05_some_ne_error h5 he).elim
  | some cm =>
  rw [h5'] at h; dsimp only at h
  obtain ⟨cms, cmm⟩ := cmr
  dsimp only
  apply c05_bind_fails; intro rels h6
  rw [h6] at h; dsimp only at h
  apply c05_bind_fails; intro acs h7
  obtain ⟨as, cs⟩ := acs
  rw [h7] at h; dsimp only at h ⊢
  cases h8 : findChild S!"w:body" cs with
  | none => exact ⟨_, rfl⟩
  | some ab =>
    obtain ⟨bas, body⟩ := ab
    rw [h8] at h; cases h

end Mammoth
