/-
  C12 (conversion) — the converter under two configurations that differ only in the bytes of ONE zip
  entry (`mammoth/style-map`): on a document none of whose embedded images is read from that entry, the
  two runs are equal.
-/
import Proofs.C18_Doc
namespace Mammoth

mutual
/-- no embedded image below this element is read from the zip entry `n` -/
def c12_imgAvoid (n : Str) : Elem → Bool
  | .paragraph _ cs => c12_imgAvoidL n cs
  | .run _ cs => c12_imgAvoidL n cs
  | .hyperlink _ cs => c12_imgAvoidL n cs
  | .table _ _ cs => c12_imgAvoidL n cs
  | .row _ cs => c12_imgAvoidL n cs
  | .cell _ _ _ cs => c12_imgAvoidL n cs
  | .image i =>
    match i.src with
    | .embedded name => name != n
    | .linked _ => true
  | _ => true
def c12_imgAvoidL (n : Str) : List Elem → Bool
  | [] => true
  | e :: es => c12_imgAvoid n e && c12_imgAvoidL n es
end

/-- … anywhere in the document: body, notes, comments -/
def c12_docAvoid (n : Str) (d : Document) : Bool :=
  c12_imgAvoidL n d.children && d.notes.all (fun x => c12_imgAvoidL n x.body) &&
  d.comments.all (fun c => c12_imgAvoidL n c.body)

/-- `cfg` with another archive -/
@[reducible] def c12_rearch (cfg : Cfg) (a' : List (Str × Bytes)) : Cfg := { cfg with archive := a' }

section
variable (cfg : Cfg) (a' : List (Str × Bytes))

theorem c12_findPath_rearch (t : Target) : findPath (c12_rearch cfg a') t = findPath cfg t := rfl
theorem c12_findPathWarn_rearch (t : Target) (k : Str) (a b : Option Str) (d : HtmlPath) :
    findPathWarn (c12_rearch cfg a') t k a b d = findPathWarn cfg t k a b d := rfl
theorem c12_runPropPaths_rearch (r : RunProps) : runPropPaths (c12_rearch cfg a') r = runPropPaths cfg r := rfl
theorem c12_htmlId_rearch (s : Str) : htmlId (c12_rearch cfg a') s = htmlId cfg s := rfl
theorem c12_referentId_rearch (t i : Str) : referentId (c12_rearch cfg a') t i = referentId cfg t i := rfl
theorem c12_referenceId_rearch (t i : Str) : referenceId (c12_rearch cfg a') t i = referenceId cfg t i := rfl

end

section
variable {cfg : Cfg} {a' : List (Str × Bytes)} {n : Str}

theorem c12_openImage_rearch (hag : ∀ name, name ≠ n → lookupLast name a' = lookupLast name cfg.archive)
    (src : ImageSrc) (h : (match src with | .embedded name => name != n | .linked _ => true) = true) :
    openImage (c12_rearch cfg a') src = openImage cfg src := by
  cases src with
  | linked u => rfl
  | embedded name =>
    simp only [openImage]
    rw [hag name (by simpa using h)]

theorem c12_convertImage_rearch (hag : ∀ name, name ≠ n → lookupLast name a' = lookupLast name cfg.archive)
    (i : ImageProps) (h : c12_imgAvoid n (.image i) = true) :
    convertImage (c12_rearch cfg a') i = convertImage cfg i := by
  simp only [c12_imgAvoid] at h
  unfold convertImage
  simp only [c12_openImage_rearch hag i.src h]

mutual
theorem c12_visit_rearch (hag : ∀ name, name ≠ n → lookupLast name a' = lookupLast name cfg.archive)
    (hdr : Bool) (e : Elem) (h : c12_imgAvoid n e = true) :
    visit (c12_rearch cfg a') hdr e = visit cfg hdr e := by
  match e with
  | .paragraph p cs =>
    simp only [c12_imgAvoid] at h
    simp only [visit, c12_findPathWarn_rearch, c12_visitAll_rearch hag hdr cs h]
  | .run r cs =>
    simp only [c12_imgAvoid] at h
    simp only [visit, c12_findPathWarn_rearch, c12_runPropPaths_rearch, c12_visitAll_rearch hag hdr cs h]
  | .text s => simp only [visit]
  | .hyperlink l cs =>
    simp only [c12_imgAvoid] at h
    simp only [visit, c12_htmlId_rearch, c12_visitAll_rearch hag hdr cs h]
  | .checkbox c => simp only [visit]
  | .table sid sname rows =>
    simp only [c12_imgAvoid] at h
    simp only [visit, c12_findPath_rearch, c12_visitRows_rearch hag true rows h]
  | .row _ cells =>
    simp only [c12_imgAvoid] at h
    simp only [visit, c12_visitAll_rearch hag hdr cells h]
  | .cell _ _ _ cs =>
    simp only [c12_imgAvoid] at h
    simp only [visit, c12_visitAll_rearch hag hdr cs h]
  | .brk ty => simp only [visit, c12_findPath_rearch]
  | .tab => simp only [visit]
  | .image i => simp only [visit]; exact c12_convertImage_rearch hag i h
  | .bookmark _ => simp only [visit, c12_htmlId_rearch]
  | .noteRef ty id => simp only [visit, c12_referentId_rearch, c12_referenceId_rearch]
  | .commentRef id => simp only [visit, c12_findPath_rearch, c12_referentId_rearch, c12_referenceId_rearch]
theorem c12_visitAll_rearch (hag : ∀ name, name ≠ n → lookupLast name a' = lookupLast name cfg.archive)
    (hdr : Bool) (es : List Elem) (h : c12_imgAvoidL n es = true) :
    visitAll (c12_rearch cfg a') hdr es = visitAll cfg hdr es := by
  match es with
  | [] => simp only [visitAll]
  | e :: es =>
    simp only [c12_imgAvoidL, Bool.and_eq_true] at h
    simp only [visitAll, c12_visit_rearch hag hdr e h.1, c12_visitAll_rearch hag hdr es h.2]
theorem c12_visitRows_rearch (hag : ∀ name, name ≠ n → lookupLast name a' = lookupLast name cfg.archive)
    (inHead : Bool) (es : List Elem) (h : c12_imgAvoidL n es = true) :
    visitRows (c12_rearch cfg a') inHead es = visitRows cfg inHead es := by
  match es with
  | [] => simp only [visitRows]
  | r :: rs =>
    simp only [c12_imgAvoidL, Bool.and_eq_true] at h
    simp only [visitRows, c12_visit_rearch hag true r h.1, c12_visit_rearch hag false r h.1,
      c12_visitRows_rearch hag true rs h.2, c12_visitRows_rearch hag false rs h.2]
end

theorem c12_visitNote_rearch (hag : ∀ name, name ≠ n → lookupLast name a' = lookupLast name cfg.archive)
    (x : Note) (h : c12_imgAvoidL n x.body = true) :
    visitNote (c12_rearch cfg a') x = visitNote cfg x := by
  simp only [visitNote, c12_visitAll_rearch hag false x.body h, c12_referentId_rearch, c12_referenceId_rearch]

theorem c12_visitComment_rearch (hag : ∀ name, name ≠ n → lookupLast name a' = lookupLast name cfg.archive)
    (lc : Str × Comment) (h : c12_imgAvoidL n lc.2.body = true) :
    visitComment (c12_rearch cfg a') lc = visitComment cfg lc := by
  simp only [visitComment, c12_visitAll_rearch hag false lc.2.body h, c12_referentId_rearch,
    c12_referenceId_rearch]

theorem c12_mapMConcat_congr {α} (f g : α → ConvM (List Node)) (xs : List α) (h : ∀ x ∈ xs, f x = g x) :
    mapMConcat f xs = mapMConcat g xs := by
  induction xs with
  | nil => simp only [mapMConcat]
  | cons x xs ih =>
    simp only [mapMConcat, h x List.mem_cons_self, ih (fun y hy => h y (List.mem_cons_of_mem _ hy))]

theorem c12_bind_error {α β} (e : Err) (f : α → Except Err β) : (Except.error e >>= f) = Except.error e := rfl

/-- if the continuations agree on every state `m` can produce, the binds agree -/
theorem c12_run_bind_congr {α β} (m : ConvM α) (f' f : α → ConvM β) (st : ConvState)
    (h : ∀ a s, m.run st = .ok (a, s) → (f' a).run s = (f a).run s) :
    (m >>= f').run st = (m >>= f).run st := by
  rw [StateT.run_bind, StateT.run_bind]
  cases hm : m.run st with
  | error e => rw [c12_bind_error, c12_bind_error]
  | ok p => exact h p.1 p.2 hm

theorem c12_visitDocument_rearch (hag : ∀ name, name ≠ n → lookupLast name a' = lookupLast name cfg.archive)
    (d : Document) (hc : cfg.comments = d.comments) (hd : c12_docAvoid n d = true)
    (st : ConvState) (hinit : c18_refsOk cfg st) :
    (visitDocument (c12_rearch cfg a') d).run st = (visitDocument cfg d).run st := by
  simp only [c12_docAvoid, Bool.and_eq_true, List.all_eq_true] at hd
  obtain ⟨⟨hd1, hd2⟩, hd3⟩ := hd
  unfold visitDocument
  rw [c12_visitAll_rearch hag false d.children hd1]
  refine c12_run_bind_congr _ _ _ st (fun nodes s1 h1 => ?_)
  refine c12_run_bind_congr _ _ _ s1 (fun g1 s1' hg => ?_)
  rw [StateT.run_get] at hg
  cases hg
  dsimp only
  split
  case h_2 e he =>
    refine c12_run_bind_congr _ _ _ s1 (fun notes s2 hn => ?_)
    cases hn
  rename_i notes hns
  simp only [pure_bind]
  -- the notes visited are notes of the document
  have hmem : ∀ x ∈ notes, x ∈ d.notes := c18_mapM_resolve_mem _ _ hns
  rw [c12_mapMConcat_congr (visitNote (c12_rearch cfg a')) (visitNote cfg) notes
    (fun x hx => c12_visitNote_rearch hag x (hd2 x (hmem x hx)))]
  refine c12_run_bind_congr _ _ _ s1 (fun noteNodes s3 h3 => ?_)
  refine c12_run_bind_congr _ _ _ s3 (fun g3 s3' hg => ?_)
  rw [StateT.run_get] at hg
  cases hg
  -- the comments referenced so far are comments of the document
  have st1 : c18_step cfg (c18_docLinked d) st s1 :=
    c18_step_mono (c18_children_sub d) (c18_grows_visitAll cfg false d.children _ _ _ h1)
  have st2 : c18_step cfg (c18_docLinked d) s1 s3 := by
    refine c18_grows_mapMConcat cfg _ _ notes ?_ _ _ _ h3
    intro x hx
    exact c18_grows_mono (c18_note_sub (hmem x hx)) (c18_grows_visitNote cfg x)
  have ok3 : c18_refsOk cfg s3 := c18_refsOk_step (c18_refsOk_step hinit st1) st2
  rw [c12_mapMConcat_congr (visitComment (c12_rearch cfg a')) (visitComment cfg) s3.refComments
    (fun lc hlc => c12_visitComment_rearch hag lc (hd3 lc.2 (hc ▸ ok3 lc hlc)))]

/-- `convertDoc` does not depend on the bytes of a zip entry no image is read from -/
theorem c12_convertDoc_rearch (hag : ∀ name, name ≠ n → lookupLast name a' = lookupLast name cfg.archive)
    (d : Document) (hd : c12_docAvoid n d = true) :
    convertDoc (c12_rearch cfg a') d = convertDoc cfg d := by
  unfold convertDoc
  have := c12_visitDocument_rearch (cfg := { cfg with comments := d.comments }) (a' := a') hag d rfl hd {}
    (by intro x hx; cases hx)
  dsimp only [c12_rearch] at this ⊢
  rw [this]

end

end Mammoth
