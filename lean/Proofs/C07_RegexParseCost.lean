/-
  C07 — cost of the regex-driven tokeniser.  The per-rule bounds of Proofs/C07_Regex*.lean are in
  terms of the length of the whole remaining input; here they are refined to the length of what
  the rule CONSUMES, which is what makes the sum over all positions linear.
-/
import Proofs.C07_RegexParseTok
namespace Mammoth

/-! ### the loop of the STRING rules, cost in terms of the body that is scanned -/

theorem c07_bodyNew_bs_le (c : Char) (cs : Str) (k : Str → C07Res) (h : c ≠ '\n') :
    (c07_stringBodyNew.run ('\\' :: c :: cs) k).1 ≤ (k cs).1 + 4 := by
  rw [c07_bodyNew_bs _ _ _ h]
  split <;> simp

theorem c07_newLoop_fine (k : Str → C07Res) (hk : ∀ s, (k s).1 ≤ 1) (s : Str) :
    ((C07Regex.star c07_stringBodyNew).run s k).1 ≤ 6 * (lexStringBody s).1.length + 6 := by
  fun_induction lexStringBody s
  case case1 c cs hc m r hx ih =>
    have hc' : c ≠ '\n' := by simpa [isDot] using hc
    rw [c07_star_unfold]
    have h1 := c07_bodyNew_bs_le c cs (fun s' => if s'.length < ('\\' :: c :: cs).length then
      (C07Regex.star c07_stringBodyNew).run s' k else .fail) hc'
    have h2 := c07_orElse_fst_le (c07_stringBodyNew.run ('\\' :: c :: cs) (fun s' =>
      if s'.length < ('\\' :: c :: cs).length then (C07Regex.star c07_stringBodyNew).run s' k else .fail))
      (k ('\\' :: c :: cs))
    have h3 := hk ('\\' :: c :: cs)
    rw [hx] at ih
    simp only [List.length_cons, Nat.lt_add_one, Nat.lt_add_right, if_true, c07_tick_fst] at h1 h2 ih ⊢
    omega
  case case2 c cs hc =>
    have hc' : c = '\n' := by simpa [isDot] using hc
    subst hc'
    rw [c07_star_unfold, c07_bodyNew_bs_nl]
    have h3 := hk ('\\' :: '\n' :: cs)
    have h2 := c07_orElse_fst_le (4, none) (k ('\\' :: '\n' :: cs))
    simp only [c07_tick_fst] at h2 ⊢
    omega
  case case3 c cs hx hc m r hx' ih =>
    simp at hc
    rw [c07_star_unfold, c07_bodyNew_other _ _ _ hc.1 hc.2]
    have h3 := hk (c :: cs)
    rw [hx'] at ih
    simp only [List.length_cons, Nat.lt_add_one, if_true] at ih ⊢
    have h2 := c07_orElse_fst_le (((C07Regex.star c07_stringBodyNew).run cs k).1 + 3,
      ((C07Regex.star c07_stringBodyNew).run cs k).2) (k (c :: cs))
    simp only [c07_tick_fst] at h2 ⊢
    omega
  case case4 c cs hx hc =>
    simp at hc
    have h3 := hk (c :: cs)
    by_cases hq : c = '\''
    · subst hq
      rw [c07_star_unfold, c07_bodyNew_quote]
      have h2 := c07_orElse_fst_le (3, none) (k ('\'' :: cs))
      simp only [c07_tick_fst] at h2 ⊢
      omega
    · have hb := hc hq
      subst hb
      cases cs with
      | nil =>
        rw [c07_star_unfold, c07_bodyNew_bs_nil]
        have h2 := c07_orElse_fst_le (4, none) (k ['\\'])
        simp only [c07_tick_fst] at h2 ⊢
        omega
      | cons d ds => exact absurd rfl (fun h => hx d ds rfl h)
  case case5 =>
    rw [c07_star_unfold, c07_bodyNew_nil]
    have h3 := hk []
    have h2 := c07_orElse_fst_le (3, none) (k [])
    simp only [c07_tick_fst] at h2 ⊢
    omega

/-! ### the IDENTIFIER rule, cost in terms of the identifier that is read -/

theorem c07_identLoop_fine (s : Str) :
    ((C07Regex.star c07_identBody).run s c07_k0).1 ≤ 8 * (lexIdentRest s).1.length + 8 ∧
    ((C07Regex.star c07_identBody).run s c07_k0).2 = some (lexIdentRest s).2 := by
  have h1 : isIdentStart '\\' = false := by decide
  have h2 : isDigit '\\' = false := by decide
  fun_induction lexIdentRest s
  case case1 c cs hc m r hx ih =>
    have hc' : (c != '\n') = true := hc
    have hl : cs.length < cs.length + 1 + 1 := by omega
    rw [c07_star_unfold, c07_identBody_run, c07_identChar_run]
    simp only [c07_run_chr_cons, c07_test_identStart, c07_test_digit, c07_test_bs, c07_test_any, hc']
    rw [hx] at ih
    generalize (C07Regex.star c07_identBody).run cs c07_k0 = R at ih ⊢
    obtain ⟨n, o⟩ := R
    simp only at ih
    obtain ⟨ih1, rfl⟩ := ih
    simp [h1, hl, C07Res.orElse, C07Res.tick]
    omega
  case case2 c cs hc =>
    have hc' : (c != '\n') = false := by simpa [isDot] using hc
    rw [c07_star_unfold, c07_identBody_run, c07_identChar_run]
    simp only [c07_run_chr_cons, c07_test_identStart, c07_test_digit, c07_test_bs, c07_test_any, hc']
    simp [h1, h2, c07_k0, C07Res.orElse, C07Res.tick]
  case case3 c cs hx hc m r hx' ih =>
    rw [c07_star_unfold, c07_identBody_run, c07_identChar_run]
    simp only [c07_run_chr_cons, c07_test_identStart, c07_test_digit, c07_test_bs]
    rw [hx'] at ih
    generalize (C07Regex.star c07_identBody).run cs c07_k0 = R at ih ⊢
    obtain ⟨n, o⟩ := R
    simp only at ih
    obtain ⟨ih1, rfl⟩ := ih
    by_cases hi : isIdentStart c = true
    · simp [hi, C07Res.orElse, C07Res.tick]; omega
    · have hd : isDigit c = true := by simpa [hi] using hc
      have hb : (c == '\\') = false := by
        cases hcb : c == '\\' with
        | false => rfl
        | true => simp at hcb; subst hcb; simp [h2] at hd
      simp [hi, hd, hb, C07Res.orElse, C07Res.tick]; omega
  case case4 c cs hx hc =>
    simp at hc
    rw [c07_star_unfold, c07_identBody_run, c07_identChar_run]
    simp only [c07_run_chr_cons, c07_test_identStart, c07_test_digit, c07_test_bs]
    by_cases hb : c = '\\'
    · subst hb
      cases cs with
      | nil => simp [h1, h2, c07_k0, c07_run_chr_nil, C07Res.orElse, C07Res.tick]
      | cons d ds => exact absurd rfl (fun h => hx d ds rfl h)
    · have hb' : (c == '\\') = false := by simpa using hb
      simp [hc.1, hc.2, hb', c07_k0, C07Res.orElse, C07Res.tick]
  case case5 =>
    rw [c07_star_unfold, c07_identBody_run, c07_identChar_run]
    simp [c07_run_chr_nil, c07_k0, C07Res.orElse, C07Res.tick]

theorem c07_ident_steps_fine (s : Str) :
    c07_identRule.steps s ≤ 8 * ((lexIdent s).map (·.1.length)).getD 0 + 8 := by
  have h1 : isIdentStart '\\' = false := by decide
  unfold C07Regex.steps
  rw [c07_identRule_exec, c07_identChar_run]
  fun_cases lexIdent s
  case case1 c cs hc m r hx =>
    have hc' : (c != '\n') = true := hc
    have := c07_identLoop_fine cs
    rw [hx] at this
    simp only [c07_run_chr_cons, c07_test_identStart, c07_test_bs, c07_test_any, hc']
    generalize (C07Regex.star c07_identBody).run cs c07_k0 = R at this ⊢
    obtain ⟨n, o⟩ := R
    simp only at this
    obtain ⟨ih1, rfl⟩ := this
    simp [h1, C07Res.orElse, C07Res.tick]
    omega
  case case2 c cs hc =>
    have hc' : (c != '\n') = false := by simpa [isDot] using hc
    simp only [c07_run_chr_cons, c07_test_identStart, c07_test_bs, c07_test_any, hc']
    simp [h1, C07Res.orElse, C07Res.tick]
  case case3 c cs hx hc m r hx' =>
    have := c07_identLoop_fine cs
    rw [hx'] at this
    simp only [c07_run_chr_cons, c07_test_identStart, c07_test_bs]
    generalize (C07Regex.star c07_identBody).run cs c07_k0 = R at this ⊢
    obtain ⟨n, o⟩ := R
    simp only at this
    obtain ⟨ih1, rfl⟩ := this
    simp [hc, C07Res.orElse, C07Res.tick]
    omega
  case case4 c cs hx hc =>
    simp only [c07_run_chr_cons, c07_test_identStart, c07_test_bs]
    by_cases hb : c = '\\'
    · subst hb
      cases cs with
      | nil => simp [h1, c07_run_chr_nil, C07Res.orElse, C07Res.tick]
      | cons d ds => exact absurd rfl (fun h => hx d ds rfl h)
    · have hb' : (c == '\\') = false := by simpa using hb
      simp [hc, hb', C07Res.orElse, C07Res.tick]
  case case5 =>
    simp [c07_run_chr_nil, C07Res.orElse, C07Res.tick]

theorem c07_ident_steps_some (s m r : Str) (h : lexIdent s = some (m, r)) :
    c07_identRule.steps s ≤ 8 * m.length + 8 := by
  have := c07_ident_steps_fine s
  rw [h] at this
  simpa using this

theorem c07_ident_steps_none (s : Str) (h : lexIdent s = none) : c07_identRule.steps s ≤ 8 := by
  have := c07_ident_steps_fine s
  rw [h] at this
  simpa using this

/-! ### WHITESPACE, INTEGER, unknown: exact step counts -/

theorem c07_ws_steps_some (s m r : Str) (h : lexWs s = some (m, r)) :
    c07_wsRule.steps s = 2 * m.length + 1 := by
  unfold C07Regex.steps
  rw [c07_lexWs_eq] at h
  rw [c07_wsRule_exec]
  split at h
  · simp at h
  · rename_i hne
    simp only [Option.some.injEq] at h
    rw [h] at hne
    simp only at hne
    simp [h, hne]

theorem c07_ws_steps_none (s : Str) (h : lexWs s = none) : c07_wsRule.steps s = 1 := by
  unfold C07Regex.steps
  rw [c07_lexWs_eq] at h
  rw [c07_wsRule_exec]
  split at h
  · rename_i he; simp [he]
  · simp at h

theorem c07_int_steps_some (s m r : Str) (h : lexInt s = some (m, r)) :
    c07_intRule.steps s = 2 * m.length + 1 := by
  unfold C07Regex.steps
  rw [c07_lexInt_eq] at h
  rw [c07_intRule_exec]
  split at h
  · simp at h
  · rename_i hne
    simp only [Option.some.injEq] at h
    rw [h] at hne
    simp only at hne
    simp [h, hne]

theorem c07_int_steps_none (s : Str) (h : lexInt s = none) : c07_intRule.steps s = 1 := by
  unfold C07Regex.steps
  rw [c07_lexInt_eq] at h
  rw [c07_intRule_exec]
  split at h
  · rename_i he; simp [he]
  · simp at h

theorem c07_unknown_steps (s : Str) : c07_unknownRule.steps s = 1 := by
  unfold C07Regex.steps
  rw [c07_unknownRule_exec]
  split
  · split <;> rfl
  · rfl

/-! ### STRING and UNTERMINATED_STRING together -/

theorem c07_kq_le (s : Str) : (c07_kq s).1 ≤ 1 := by
  cases s with
  | nil => simp [c07_kq_nil]
  | cons c cs => rw [c07_kq_cons]; split <;> simp

theorem c07_k0_le (s : Str) : (c07_k0 s).1 ≤ 1 := by simp [c07_k0]

theorem c07_string_steps_quote (cs : Str) :
    c07_stringRuleNew.steps ('\'' :: cs) ≤ 6 * (lexStringBody cs).1.length + 7 := by
  unfold C07Regex.steps c07_stringRuleNew
  rw [c07_stringRule_exec]
  have := c07_newLoop_fine c07_kq c07_kq_le cs
  simp only [c07_tick_fst]
  omega

theorem c07_unterminated_steps_quote (cs : Str) :
    c07_unterminatedRule.steps ('\'' :: cs) ≤ 6 * (lexStringBody cs).1.length + 7 := by
  unfold C07Regex.steps
  rw [c07_unterminated_exec]
  have := c07_newLoop_fine c07_k0 c07_k0_le cs
  simp only [c07_tick_fst]
  omega

/-- a failing STRING attempt scans the body up to the end of the input; UNTERMINATED_STRING then
    consumes that same stretch: together at most 12 steps per character of the token -/
theorem c07_string_pair_steps (s m r : Str) (ty : TokTy) (h : lexString s = some (ty, m, r)) :
    c07_stringRuleNew.steps s + c07_unterminatedRule.steps s ≤ 12 * m.length + 2 := by
  cases s with
  | nil => simp [lexString] at h
  | cons c cs =>
    by_cases hc : c = '\''
    · subst hc
      have h1 := c07_string_steps_quote cs
      have h2 := c07_unterminated_steps_quote cs
      rw [c07_lexString_quote] at h
      have hm : (lexStringBody cs).1.length + 1 ≤ m.length := by
        split at h
        · simp at h; obtain ⟨_, rfl, _⟩ := h; simp
        · simp at h; obtain ⟨_, rfl, _⟩ := h; simp
      omega
    · rw [c07_lexString_other _ (fun cs' e => hc (by simp at e; exact e.1))] at h
      simp at h

theorem c07_string_steps_none (s : Str) (h : lexString s = none) :
    c07_stringRuleNew.steps s = 1 ∧ c07_unterminatedRule.steps s = 1 := by
  unfold C07Regex.steps c07_stringRuleNew
  rw [c07_stringRule_exec, c07_unterminated_exec]
  split
  · rename_i cs; simp [lexString] at h
    generalize lexStringBody cs = p at h
    obtain ⟨m, r⟩ := p
    cases r with
    | nil => simp at h
    | cons d ds => split at h <;> simp at h
  · exact ⟨rfl, rfl⟩

/-! ### all the attempts at one position, and the sum over the positions -/

theorem c07_firstMatch_fst_some (ty : TokTy) (r : C07Regex) (rest : List (TokTy × C07Regex)) (s s' : Str)
    (h : (r.exec s).2 = some s') : (c07_firstMatch ((ty, r) :: rest) s).1 = r.steps s := by
  rw [c07_firstMatch_fst, h]

theorem c07_firstMatch_fst_none (ty : TokTy) (r : C07Regex) (rest : List (TokTy × C07Regex)) (s : Str)
    (h : (r.exec s).2 = none) :
    (c07_firstMatch ((ty, r) :: rest) s).1 = r.steps s + (c07_firstMatch rest s).1 := by
  rw [c07_firstMatch_fst, h]

theorem c07_stringRx_none (s : Str) (h : lexString s = none) :
    (c07_stringRuleNew.exec s).2 = none ∧ (c07_unterminatedRule.exec s).2 = none := by
  have hx := c07_lexStringRx_eq s
  unfold c07_lexStringRx at hx
  rw [h] at hx
  cases hq : (c07_stringRuleNew.exec s).2 with
  | some _ => rw [hq] at hx; simp at hx
  | none =>
    rw [hq] at hx
    cases hu : (c07_unterminatedRule.exec s).2 with
    | some _ => rw [hu] at hx; simp at hx
    | none => exact ⟨rfl, rfl⟩

theorem c07_stringRx_some (s m r : Str) (ty : TokTy) (h : lexString s = some (ty, m, r)) :
    (∃ s', (c07_stringRuleNew.exec s).2 = some s') ∨
    ((c07_stringRuleNew.exec s).2 = none ∧ ∃ s', (c07_unterminatedRule.exec s).2 = some s') := by
  have hx := c07_lexStringRx_eq s
  unfold c07_lexStringRx at hx
  rw [h] at hx
  cases hq : (c07_stringRuleNew.exec s).2 with
  | some s' => exact Or.inl ⟨s', rfl⟩
  | none =>
    rw [hq] at hx
    cases hu : (c07_unterminatedRule.exec s).2 with
    | some s' => exact Or.inr ⟨rfl, s', rfl⟩
    | none => rw [hu] at hx; simp at hx

/-- one round of the loop: all the attempts at one position cost at most 12 steps per character
    of the token that is produced, plus 36 -/
theorem c07_firstMatch_cost (s r : Str) (t : Token) (h : lexOne s = some (t, r)) :
    (c07_firstMatch c07_handRules s).1 ≤ 12 * t.val.length + 36 := by
  have hpos : 1 ≤ t.val.length := List.length_pos_iff.mpr (c07_lexOne_split s r t h).2
  unfold c07_handRules
  unfold lexOne at h
  cases h1 : lexIdent s with
  | some p =>
    obtain ⟨m, r'⟩ := p
    have c1 := c07_ident_steps_some s m r' h1
    rw [h1] at h
    simp only [Option.some.injEq, Prod.mk.injEq] at h
    obtain ⟨rfl, rfl⟩ := h
    rw [c07_firstMatch_fst_some _ _ _ s r' (by rw [(c07_ident_agrees s).2, h1]; rfl)]
    simp only at hpos ⊢
    omega
  | none =>
    have c1 := c07_ident_steps_none s h1
    rw [h1] at h
    simp only at h
    rw [c07_firstMatch_fst_none _ _ _ s (by rw [(c07_ident_agrees s).2, h1]; rfl)]
    have c2 := c07_symbol_steps s
    cases h2 : lexSymbol s with
    | some p =>
      obtain ⟨m, r'⟩ := p
      rw [c07_firstMatch_fst_some _ _ _ s r' (by rw [c07_symbol_result, h2]; rfl)]
      omega
    | none =>
      rw [h2] at h
      simp only at h
      rw [c07_firstMatch_fst_none _ _ _ s (by rw [c07_symbol_result, h2]; rfl)]
      cases h3 : lexWs s with
      | some p =>
        obtain ⟨m, r'⟩ := p
        have c3 := c07_ws_steps_some s m r' h3
        rw [h3] at h
        simp only [Option.some.injEq, Prod.mk.injEq] at h
        obtain ⟨rfl, rfl⟩ := h
        rw [c07_firstMatch_fst_some _ _ _ s r' (by rw [(c07_ws_agrees s).2, h3]; rfl)]
        simp only at hpos ⊢
        omega
      | none =>
        have c3 := c07_ws_steps_none s h3
        rw [h3] at h
        simp only at h
        rw [c07_firstMatch_fst_none _ _ _ s (by rw [(c07_ws_agrees s).2, h3]; rfl)]
        cases h4 : lexString s with
        | some p =>
          obtain ⟨ty, m, r'⟩ := p
          have c4 := c07_string_pair_steps s m r' ty h4
          rw [h4] at h
          simp only [Option.some.injEq, Prod.mk.injEq] at h
          obtain ⟨rfl, rfl⟩ := h
          simp only at hpos ⊢
          rcases c07_stringRx_some s m r' ty h4 with ⟨s', hs⟩ | ⟨hs, s', hu⟩
          · rw [c07_firstMatch_fst_some _ _ _ s s' hs]
            omega
          · rw [c07_firstMatch_fst_none _ _ _ s hs, c07_firstMatch_fst_some _ _ _ s s' hu]
            omega
        | none =>
          have c4 := c07_string_steps_none s h4
          have hsu := c07_stringRx_none s h4
          rw [h4] at h
          simp only at h
          rw [c07_firstMatch_fst_none _ _ _ s hsu.1, c07_firstMatch_fst_none _ _ _ s hsu.2]
          cases h5 : lexInt s with
          | some p =>
            obtain ⟨m, r'⟩ := p
            have c5 := c07_int_steps_some s m r' h5
            rw [h5] at h
            simp only [Option.some.injEq, Prod.mk.injEq] at h
            obtain ⟨rfl, rfl⟩ := h
            rw [c07_firstMatch_fst_some _ _ _ s r' (by rw [(c07_int_agrees s).2, h5]; rfl)]
            simp only at hpos ⊢
            omega
          | none =>
            have c5 := c07_int_steps_none s h5
            have c6 := c07_unknown_steps s
            rw [c07_firstMatch_fst_none _ _ _ s (by rw [(c07_int_agrees s).2, h5]; rfl)]
            have : (c07_firstMatch [(TokTy.unknown, c07_unknownRule)] s).1 = c07_unknownRule.steps s := by
              rw [c07_firstMatch_fst, c07_firstMatch_nil]
              split <;> rfl
            rw [this]
            omega

/-- the whole loop: at most 48 steps per character of the input -/
theorem c07_tokeniseRxFuel_cost (f : Nat) : ∀ s : Str,
    (c07_tokeniseRxFuel c07_handRules f s).1 ≤ 48 * s.length := by
  induction f with
  | zero => intro s; cases s <;> simp [c07_tokeniseRxFuel]
  | succ f ih =>
    intro s
    cases s with
    | nil => simp [c07_tokeniseRxFuel]
    | cons c cs =>
      rw [c07_tokeniseRxFuel_cons]
      have hl := c07_firstMatch_lexOne (c :: cs)
      have hc : ∀ t r, lexOne (c :: cs) = some (t, r) →
          (c07_firstMatch c07_handRules (c :: cs)).1 ≤ 12 * t.val.length + 36 :=
        fun t r h => c07_firstMatch_cost _ r t h
      generalize c07_firstMatch c07_handRules (c :: cs) = R at hl hc ⊢
      obtain ⟨n, o⟩ := R
      cases o with
      | none =>
        -- cannot happen (`lexOne` never fails on a non-empty input)
        exact absurd hl.symm (c07_lexOne_ne_none c cs)
      | some p =>
        obtain ⟨t, r⟩ := p
        have h1 := hc t r hl.symm
        have h2 := c07_lexOne_split _ r t hl.symm
        have h3 : t.val.length + r.length = (c :: cs).length := by
          rw [← h2.1, List.length_append]
        have h4 : 1 ≤ t.val.length := List.length_pos_iff.mpr h2.2
        have h5 := ih r
        simp only at h1 ⊢
        omega

theorem c07_tokeniseRxCost_linear (hgen : c07_rxRules = some c07_handRules) (s : Str) :
    ∃ n, c07_tokeniseRxCost s = some n ∧ n ≤ 48 * s.length := by
  unfold c07_tokeniseRxCost c07_tokeniseRxWith
  rw [hgen]
  exact ⟨_, rfl, c07_tokeniseRxFuel_cost _ s⟩

end Mammoth
