/-
  C16 — from the reader to the package: the messages of `docx.read` (`readPackage`) are the warnings that
  the specification `c16_xmlWarnings` prescribes for the four stories of the package — footnotes, endnotes,
  comments, body, in this order — each read in its own environment (shared styles, numbering and content
  types; the relationships of its own part).

  All notes of one part are read by ONE body reader: field state and deferred content carry over from one
  note to the next.  Reading them one after the other is therefore the same as reading the concatenation of
  their contents, which is how `c16_noteNodes` presents a notes part to the specification.
-/
import Proofs.C16_XmlAnomaly
import MammothModel.Package
namespace Mammoth

/-- the content of the notes of a notes part, in order (separators are not notes) -/
def c16_noteNodes (ty : Str) (rootChildren : List XmlNode) : List XmlNode :=
  ((findChildren (S!"w:" ++ ty) rootChildren).filter fun e => isNoteElement e.1).flatMap (·.2)

/-- the content of the comments of the comments part, in order -/
def c16_commentNodes (rootChildren : List XmlNode) : List XmlNode :=
  (findChildren S!"w:comment" rootChildren).flatMap (·.2)

/-- a notes part as a story: its reader environment and its nodes (nothing if the part is absent) -/
def c16_notesStory (p : Package) (shared : REnv) (path ty : Str) : Except Err (REnv × List XmlNode) :=
  if p.exists path then do
    let rels ← p.readRels (relsPathFor path)
    let (_, cs) ← p.readXml path
    pure ({ shared with rels := rels }, c16_noteNodes ty cs)
  else pure (shared, [])

def c16_commentsStory (p : Package) (shared : REnv) (path : Str) : Except Err (REnv × List XmlNode) :=
  if p.exists path then do
    let rels ← p.readRels (relsPathFor path)
    let (_, cs) ← p.readXml path
    pure ({ shared with rels := rels }, c16_commentNodes cs)
  else pure (shared, [])

def c16_bodyStory (p : Package) (shared : REnv) (path : Str) : Except Err (REnv × List XmlNode) := do
  let rels ← p.readRels (relsPathFor path)
  let (_, cs) ← p.readXml path
  match findChild S!"w:body" cs with
  | none => throw (.value S!"Could not find the body element: are you sure this is a docx file?")
  | some (_, body) => pure ({ shared with rels := rels }, body)

/-- THE STORIES OF A PACKAGE in the order in which `docx.read` reads them:
    footnotes, endnotes, comments, body -/
def c16_pkgStories (p : Package) : Except Err (List (REnv × List XmlNode)) := do
  let paths ← findPartPaths p
  let shared ← readSharedEnv p paths
  let fn ← c16_notesStory p shared paths.footnotes S!"footnote"
  let en ← c16_notesStory p shared paths.endnotes S!"endnote"
  let cm ← c16_commentsStory p shared paths.comments
  let body ← c16_bodyStory p shared paths.mainDocument
  pure [fn, en, cm, body]

def c16_storiesWarnings : List (REnv × List XmlNode) → List Str
  | [] => []
  | (env, ns) :: rest => c16_xmlWarnings env ns ++ c16_storiesWarnings rest

/-- THE WARNINGS THE READER MUST PRODUCE FOR A PACKAGE -/
def c16_readerWarnings (p : Package) : Except Err (List Str) :=
  (c16_pkgStories p).map c16_storiesWarnings

/-! ### notes and comments: one reader for the whole part -/

theorem c16_specL_append_msgs (env : REnv) (xs ys : List XmlNode) (b : c16_Buf) (fs : c16_FS) :
    ((c16_specL env (xs ++ ys) b).eff fs).msgs =
      ((c16_specL env xs b).eff fs).msgs ++
        ((c16_specL env ys (c16_specL env xs b).buf).eff ((c16_specL env xs b).eff fs).fs).msgs := by
  rw [c16_specL_append]; rfl

theorem c16_readNoteElems_msgs (env : REnv) (fuel : Nat) (ty : Str) :
    ∀ (elems : List (Attrs × List XmlNode)) (st : RState) (ns : List Note) (ms : List Str),
      readNoteElems env fuel ty st elems = .ok (ns, ms) →
      ms = ((c16_specL env (elems.flatMap (·.2)) (c16_pend env st.deleted)).eff (c16_abs st)).msgs
  | [], st, ns, ms, h => by
    simp only [readNoteElems, Except.ok.injEq, Prod.mk.injEq] at h
    rw [← h.2]; rfl
  | (as, cs) :: rest, st, ns, ms, h => by
    simp only [readNoteElems] at h
    obtain ⟨⟨r, st1⟩, hr, h⟩ := c01_bind_ok h
    have h : ∃ id, (do
        let __x ← readNoteElems env fuel ty st1 rest
        (pure ((⟨ty, id, r.elements⟩ : Note) :: __x.fst, r.messages ++ __x.snd) : Except Err _)) = .ok (ns, ms) := by
      split at h
      · obtain ⟨id, _, h⟩ := c01_bind_ok h; exact ⟨id, h⟩
      · obtain ⟨id, hid, _⟩ := c01_bind_ok h; cases hid
    obtain ⟨id, h⟩ := h
    obtain ⟨⟨ns1, ms1⟩, hrest, h⟩ := c01_bind_ok h
    simp only [pure, Except.pure, Except.ok.injEq, Prod.mk.injEq] at h
    obtain ⟨_, rfl⟩ := h
    have hp := c16_readAll_spec env fuel st cs r st1 hr
    have ih := c16_readNoteElems_msgs env fuel ty rest st1 ns1 ms1 hrest
    rw [List.flatMap_cons, c16_specL_append_msgs, ← hp.sum.msgs, ← hp.fs, ← hp.buf, ← ih]

theorem c16_readCommentElems_msgs (env : REnv) (fuel : Nat) :
    ∀ (elems : List (Attrs × List XmlNode)) (st : RState) (xs : List Comment) (ms : List Str),
      readCommentElems env fuel st elems = .ok (xs, ms) →
      ms = ((c16_specL env (elems.flatMap (·.2)) (c16_pend env st.deleted)).eff (c16_abs st)).msgs
  | [], st, xs, ms, h => by
    simp only [readCommentElems, Except.ok.injEq, Prod.mk.injEq] at h
    rw [← h.2]; rfl
  | (as, cs) :: rest, st, xs, ms, h => by
    simp only [readCommentElems] at h
    obtain ⟨⟨r, st1⟩, hr, h⟩ := c01_bind_ok h
    have h : ∃ id, (do
        let __x ← readCommentElems env fuel st1 rest
        (pure ((⟨id, r.elements, optStripped (attr? S!"w:author" as), optStripped (attr? S!"w:initials" as)⟩ : Comment)
                :: __x.fst, r.messages ++ __x.snd) : Except Err _)) = .ok (xs, ms) := by
      split at h
      · obtain ⟨id, _, h⟩ := c01_bind_ok h; exact ⟨id, h⟩
      · obtain ⟨id, hid, _⟩ := c01_bind_ok h; cases hid
    obtain ⟨id, h⟩ := h
    obtain ⟨⟨xs1, ms1⟩, hrest, h⟩ := c01_bind_ok h
    simp only [pure, Except.pure, Except.ok.injEq, Prod.mk.injEq] at h
    obtain ⟨_, rfl⟩ := h
    have hp := c16_readAll_spec env fuel st cs r st1 hr
    have ih := c16_readCommentElems_msgs env fuel rest st1 xs1 ms1 hrest
    rw [List.flatMap_cons, c16_specL_append_msgs, ← hp.sum.msgs, ← hp.fs, ← hp.buf, ← ih]

/-- from the initial state the messages of `read_all` are `c16_xmlWarnings` -/
theorem c16_readAll_initial (env : REnv) (fuel : Nat) (ns : List XmlNode) (r : ReadResult) (st' : RState)
    (h : readAll env fuel {} ns = .ok (r, st')) : r.messages = c16_xmlWarnings env ns := by
  have hp := c16_readAll_spec env fuel {} ns r st' h
  rw [hp.sum.msgs]
  show ((c16_specL env ns (c16_pend env [])).eff _).msgs = _
  rw [c16_pend_nil]; rfl

theorem c16_readNotesPart_msgs (p : Package) (shared : REnv) (fuel : Nat) (path ty : Str)
    (ns : List Note) (ms : List Str) (h : readNotesPart p shared fuel path ty = .ok (ns, ms)) :
    ∃ env nodes, c16_notesStory p shared path ty = .ok (env, nodes) ∧ ms = c16_xmlWarnings env nodes := by
  unfold readNotesPart at h
  unfold c16_notesStory
  split at h
  · rename_i he
    rw [if_pos he]
    obtain ⟨rels, hrels, h⟩ := c01_bind_ok h
    obtain ⟨⟨as, cs⟩, hxml, h⟩ := c01_bind_ok h
    rw [hrels, hxml]
    refine ⟨_, _, rfl, ?_⟩
    have := c16_readNoteElems_msgs _ fuel ty _ {} ns ms h
    rw [this]
    show ((c16_specL _ _ (c16_pend _ [])).eff _).msgs = _
    rw [c16_pend_nil]; rfl
  · rename_i he
    rw [if_neg he]
    cases h
    exact ⟨_, _, rfl, rfl⟩

theorem c16_readCommentsPart_msgs (p : Package) (shared : REnv) (fuel : Nat) (path : Str)
    (xs : List Comment) (ms : List Str) (h : readCommentsPart p shared fuel path = .ok (xs, ms)) :
    ∃ env nodes, c16_commentsStory p shared path = .ok (env, nodes) ∧ ms = c16_xmlWarnings env nodes := by
  unfold readCommentsPart at h
  unfold c16_commentsStory
  split at h
  · rename_i he
    rw [if_pos he]
    obtain ⟨rels, hrels, h⟩ := c01_bind_ok h
    obtain ⟨⟨as, cs⟩, hxml, h⟩ := c01_bind_ok h
    rw [hrels, hxml]
    refine ⟨_, _, rfl, ?_⟩
    have := c16_readCommentElems_msgs _ fuel _ {} xs ms h
    rw [this]
    show ((c16_specL _ _ (c16_pend _ [])).eff _).msgs = _
    rw [c16_pend_nil]; rfl
  · rename_i he
    rw [if_neg he]
    cases h
    exact ⟨_, _, rfl, rfl⟩

/-- THE MESSAGES OF `docx.read` ARE THE WARNINGS OF THE SPECIFICATION, story by story -/
theorem c16_readPackage_messages (p : Package) (fuel : Nat) (doc : Document) (msgs : List Str)
    (h : readPackage p fuel = .ok (doc, msgs)) : c16_readerWarnings p = .ok msgs := by
  unfold readPackage at h
  unfold c16_readerWarnings c16_pkgStories
  obtain ⟨paths, hpaths, h⟩ := c01_bind_ok h
  obtain ⟨shared, hshared, h⟩ := c01_bind_ok h
  obtain ⟨⟨fns, fm⟩, hfn, h⟩ := c01_bind_ok h
  obtain ⟨⟨ens, em⟩, hen, h⟩ := c01_bind_ok h
  obtain ⟨⟨cms, cm⟩, hcm, h⟩ := c01_bind_ok h
  obtain ⟨rels, hrels, h⟩ := c01_bind_ok h
  obtain ⟨⟨ras, rcs⟩, hxml, h⟩ := c01_bind_ok h
  obtain ⟨e1, n1, s1, rfl⟩ := c16_readNotesPart_msgs p shared fuel _ _ fns fm hfn
  obtain ⟨e2, n2, s2, rfl⟩ := c16_readNotesPart_msgs p shared fuel _ _ ens em hen
  obtain ⟨e3, n3, s3, rfl⟩ := c16_readCommentsPart_msgs p shared fuel _ cms cm hcm
  rw [hpaths]
  simp only [bind, Except.bind, hshared, s1, s2, s3, c16_bodyStory, hrels, hxml]
  dsimp only at h
  split at h
  · cases h
  · rename_i bas body hbody
    rw [hbody]
    obtain ⟨⟨r, stf⟩, hr, h⟩ := c01_bind_ok h
    simp only [pure, Except.pure, Except.ok.injEq, Prod.mk.injEq] at h
    obtain ⟨_, rfl⟩ := h
    have := c16_readAll_initial _ fuel body r stf hr
    simp only [Except.map, pure, Except.pure, c16_storiesWarnings, List.append_nil, this, List.append_assoc]

end Mammoth
