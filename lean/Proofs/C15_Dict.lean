/-
  C15_Dict.lean — the key-sorted association list `Dict` is a canonical form:
  `strLt` is a strict total order, `Dict.insert` keeps the keys strictly increasing,
  `Dict.get?` of an insert is "last write wins", and two sorted dictionaries with the
  same lookups are equal.  Hence insertion order of distinct keys cannot be observed.
-/
import MammothModel.Basic
namespace Mammoth

/-! ### `strLt` is a strict total order -/

theorem c15_strLt_cons (a b : Char) (as bs : Str) :
    strLt (a :: as) (b :: bs) = true ↔ a.toNat < b.toNat ∨ (a = b ∧ strLt as bs = true) := by
  simp [strLt]

theorem c15_strLt_irrefl : ∀ a : Str, strLt a a = false
  | [] => by simp [strLt]
  | a :: as => by simp [strLt, c15_strLt_irrefl as]

theorem c15_strLt_trans : ∀ a b c : Str, strLt a b = true → strLt b c = true → strLt a c = true
  | [], [], _, h, _ => by simp [strLt] at h
  | [], _ :: _, [], _, h => by simp [strLt] at h
  | [], _ :: _, _ :: _, _, _ => by simp [strLt]
  | _ :: _, [], _, h, _ => by simp [strLt] at h
  | _ :: _, _ :: _, [], _, h => by simp [strLt] at h
  | a :: as, b :: bs, c :: cs, h1, h2 => by
    rw [c15_strLt_cons] at h1 h2 ⊢
    rcases h1 with h1 | ⟨rfl, h1⟩
    · rcases h2 with h2 | ⟨rfl, _⟩
      · exact .inl (Nat.lt_trans h1 h2)
      · exact .inl h1
    · rcases h2 with h2 | ⟨rfl, h2⟩
      · exact .inl h2
      · exact .inr ⟨rfl, c15_strLt_trans as bs cs h1 h2⟩

theorem c15_strLt_trichotomy : ∀ a b : Str, a = b ∨ strLt a b = true ∨ strLt b a = true
  | [], [] => .inl rfl
  | [], _ :: _ => .inr (.inl (by simp [strLt]))
  | _ :: _, [] => .inr (.inr (by simp [strLt]))
  | a :: as, b :: bs => by
    rcases Nat.lt_trichotomy a.toNat b.toNat with h | h | h
    · exact .inr (.inl ((c15_strLt_cons ..).2 (.inl h)))
    · have hab : a = b := Char.toNat_inj.mp h
      subst hab
      rcases c15_strLt_trichotomy as bs with h | h | h
      · exact .inl (by rw [h])
      · exact .inr (.inl ((c15_strLt_cons ..).2 (.inr ⟨rfl, h⟩)))
      · exact .inr (.inr ((c15_strLt_cons ..).2 (.inr ⟨rfl, h⟩)))
    · exact .inr (.inr ((c15_strLt_cons ..).2 (.inl h)))

theorem c15_strLt_asymm (a b : Str) (h : strLt a b = true) : strLt b a = false := by
  cases h' : strLt b a with
  | false => rfl
  | true =>
    have := c15_strLt_trans a b a h h'
    rw [c15_strLt_irrefl] at this
    exact this.symm

theorem c15_strLt_ne (a b : Str) (h : strLt a b = true) : a ≠ b := by
  intro e; subst e; rw [c15_strLt_irrefl] at h; exact Bool.noConfusion h

/-! ### sortedness -/

/-- the `Dict` invariant: keys strictly increasing (hence pairwise distinct) -/
def c15_sorted {β} (d : Dict β) : Prop := List.Pairwise (fun a b => strLt a.1 b.1 = true) d

/-- executable version of the invariant, for closed examples -/
def c15_sortedB {β} : Dict β → Bool
  | [] => true
  | (k, _) :: rest => rest.all (fun p => strLt k p.1) && c15_sortedB rest

theorem c15_sortedB_iff {β} : ∀ d : Dict β, c15_sortedB d = true ↔ c15_sorted d
  | [] => by simp [c15_sortedB, c15_sorted]
  | (k, v) :: rest => by
    have ih := c15_sortedB_iff rest
    simp only [c15_sorted] at ih
    simp [c15_sortedB, c15_sorted, List.pairwise_cons, ih]

theorem c15_sorted_nil {β} : c15_sorted ([] : Dict β) := List.Pairwise.nil

theorem c15_sorted_cons {β} (p : Str × β) (d : Dict β) :
    c15_sorted (p :: d) ↔ (∀ q ∈ d, strLt p.1 q.1 = true) ∧ c15_sorted d := by
  simp only [c15_sorted, List.pairwise_cons]

theorem c15_mem_insert {β} (k : Str) (v : β) :
    ∀ (d : Dict β) (q : Str × β), q ∈ Dict.insert k v d → q = (k, v) ∨ q ∈ d
  | [], q, h => by simp [Dict.insert] at h; exact .inl h
  | (k', v') :: rest, q, h => by
    simp only [Dict.insert] at h
    split at h
    · rcases List.mem_cons.1 h with h | h
      · exact .inl h
      · exact .inr (List.mem_cons_of_mem _ h)
    · split at h
      · rcases List.mem_cons.1 h with h | h
        · exact .inl h
        · exact .inr h
      · rcases List.mem_cons.1 h with h | h
        · exact .inr (h ▸ List.mem_cons_self)
        · rcases c15_mem_insert k v rest q h with h | h
          · exact .inl h
          · exact .inr (List.mem_cons_of_mem _ h)

theorem c15_insert_sorted {β} (k : Str) (v : β) :
    ∀ d : Dict β, c15_sorted d → c15_sorted (Dict.insert k v d)
  | [], _ => by simp [Dict.insert, c15_sorted]
  | (k', v') :: rest, h => by
    rw [c15_sorted_cons] at h
    simp only [Dict.insert]
    split
    · rename_i e; subst e
      rw [c15_sorted_cons]; exact h
    · rename_i hne
      split
      · rename_i hlt
        rw [c15_sorted_cons]
        refine ⟨?_, (c15_sorted_cons _ _).2 h⟩
        intro q hq
        rcases List.mem_cons.1 hq with hq | hq
        · subst hq; exact hlt
        · exact c15_strLt_trans _ _ _ hlt (h.1 q hq)
      · rename_i hnlt
        have hgt : strLt k' k = true := by
          rcases c15_strLt_trichotomy k k' with e | e | e
          · exact absurd e hne
          · exact absurd e hnlt
          · exact e
        rw [c15_sorted_cons]
        refine ⟨?_, c15_insert_sorted k v rest h.2⟩
        intro q hq
        rcases c15_mem_insert k v rest q hq with hq | hq
        · subst hq; exact hgt
        · exact h.1 q hq

theorem c15_foldl_sorted {β} : ∀ (l : List (Str × β)) (acc : Dict β), c15_sorted acc →
    c15_sorted (l.foldl (fun d kv => Dict.insert kv.1 kv.2 d) acc)
  | [], _, h => h
  | kv :: l, acc, h => by
    simp only [List.foldl_cons]
    exact c15_foldl_sorted l _ (c15_insert_sorted kv.1 kv.2 acc h)

theorem c15_ofList_sorted {β} (l : List (Str × β)) : c15_sorted (Dict.ofList l) :=
  c15_foldl_sorted l [] c15_sorted_nil

/-! ### lookups -/

/-- a write is seen by a later read of the same key and by no other read (any `d`) -/
theorem c15_get_insert {β} (k : Str) (v : β) (q : Str) :
    ∀ d : Dict β, Dict.get? q (Dict.insert k v d) = if q = k then some v else Dict.get? q d
  | [] => by simp [Dict.insert, Dict.get?]
  | (k', v') :: rest => by
    simp only [Dict.insert]
    split
    · rename_i e; subst e
      simp only [Dict.get?]
      split <;> rfl
    · split
      · simp only [Dict.get?]
      · rename_i hne _
        simp only [Dict.get?, c15_get_insert k v q rest]
        by_cases h1 : q = k'
        · have : q ≠ k := fun e => hne (e ▸ h1)
          simp only [h1, if_true]
          rw [if_neg (fun e => hne e.symm)]
        · simp [h1]

theorem c15_get_none_of_lt {β} (k : Str) :
    ∀ d : Dict β, (∀ q ∈ d, strLt k q.1 = true) → Dict.get? k d = none
  | [], _ => rfl
  | (k', v') :: rest, h => by
    have hne : k ≠ k' := c15_strLt_ne _ _ (h (k', v') List.mem_cons_self)
    simp only [Dict.get?, hne, if_false]
    exact c15_get_none_of_lt k rest (fun q hq => h q (List.mem_cons_of_mem _ hq))

/-- extensionality: a sorted dictionary is determined by its lookups -/
theorem c15_sorted_ext {β} : ∀ (d₁ d₂ : Dict β), c15_sorted d₁ → c15_sorted d₂ →
    (∀ k, Dict.get? k d₁ = Dict.get? k d₂) → d₁ = d₂
  | [], [], _, _, _ => rfl
  | [], (k, v) :: _, _, _, h => by have := h k; simp [Dict.get?] at this
  | (k, v) :: _, [], _, _, h => by have := h k; simp [Dict.get?] at this
  | (k₁, v₁) :: r₁, (k₂, v₂) :: r₂, s₁, s₂, h => by
    rw [c15_sorted_cons] at s₁ s₂
    have n₁ : Dict.get? k₁ r₁ = none := c15_get_none_of_lt k₁ r₁ s₁.1
    have n₂ : Dict.get? k₂ r₂ = none := c15_get_none_of_lt k₂ r₂ s₂.1
    rcases c15_strLt_trichotomy k₁ k₂ with e | e | e
    · subst e
      have hv := h k₁
      simp only [Dict.get?, if_true] at hv
      have hv : v₁ = v₂ := Option.some.inj hv
      subst hv
      have : r₁ = r₂ := by
        apply c15_sorted_ext r₁ r₂ s₁.2 s₂.2
        intro q
        by_cases hq : q = k₁
        · subst hq; rw [n₁, n₂]
        · have := h q
          simpa only [Dict.get?, hq, if_false] using this
      rw [this]
    · -- k₁ < k₂ : k₁ is absent from d₂
      have := h k₁
      have hne : k₁ ≠ k₂ := c15_strLt_ne _ _ e
      have hn : Dict.get? k₁ r₂ = none :=
        c15_get_none_of_lt k₁ r₂ (fun q hq => c15_strLt_trans _ _ _ e (s₂.1 q hq))
      simp [Dict.get?, hne, hn] at this
    · have := h k₂
      have hne : k₂ ≠ k₁ := c15_strLt_ne _ _ e
      have hn : Dict.get? k₂ r₁ = none :=
        c15_get_none_of_lt k₂ r₁ (fun q hq => c15_strLt_trans _ _ _ e (s₁.1 q hq))
      simp [Dict.get?, hne, hn] at this

/-! ### consequences: commuting, overwriting -/

theorem c15_insert_comm {β} (k₁ k₂ : Str) (v₁ v₂ : β) (d : Dict β) (hne : k₁ ≠ k₂)
    (hs : c15_sorted d) :
    Dict.insert k₁ v₁ (Dict.insert k₂ v₂ d) = Dict.insert k₂ v₂ (Dict.insert k₁ v₁ d) := by
  apply c15_sorted_ext
  · exact c15_insert_sorted _ _ _ (c15_insert_sorted _ _ _ hs)
  · exact c15_insert_sorted _ _ _ (c15_insert_sorted _ _ _ hs)
  · intro q
    simp only [c15_get_insert]
    by_cases h1 : q = k₁
    · have : q ≠ k₂ := fun e => hne (h1 ▸ e)
      simp [h1, hne]
    · simp [h1]

theorem c15_insert_overwrite {β} (k : Str) (v v' : β) (d : Dict β) (hs : c15_sorted d) :
    Dict.insert k v (Dict.insert k v' d) = Dict.insert k v d := by
  apply c15_sorted_ext
  · exact c15_insert_sorted _ _ _ (c15_insert_sorted _ _ _ hs)
  · exact c15_insert_sorted _ _ _ hs
  · intro q
    simp only [c15_get_insert]
    split <;> rfl

/-! ### `Dict.ofList` is "last pair with that key wins" -/

theorem c15_get_foldl {β} (k : Str) : ∀ (l : List (Str × β)) (acc : Dict β),
    Dict.get? k (l.foldl (fun d kv => Dict.insert kv.1 kv.2 d) acc) =
      match lookupLast k l with
      | some w => some w
      | none => Dict.get? k acc
  | [], _ => by simp [lookupLast]
  | (k', v') :: l, acc => by
    simp only [List.foldl_cons, c15_get_foldl k l, lookupLast]
    cases lookupLast k l with
    | some w => rfl
    | none =>
      simp only [c15_get_insert]
      split <;> rfl

theorem c15_get_ofList {β} (k : Str) (l : List (Str × β)) :
    Dict.get? k (Dict.ofList l) = lookupLast k l := by
  rw [Dict.ofList, c15_get_foldl]
  cases lookupLast k l <;> rfl

/-- the strongest form: `Dict.ofList` depends only on the last-wins lookup function of the pairs -/
theorem c15_ofList_ext {β} (l₁ l₂ : List (Str × β))
    (h : ∀ k, lookupLast k l₁ = lookupLast k l₂) : Dict.ofList l₁ = Dict.ofList l₂ := by
  apply c15_sorted_ext _ _ (c15_ofList_sorted l₁) (c15_ofList_sorted l₂)
  intro k
  rw [c15_get_ofList, c15_get_ofList, h]

/-! ### permutations of pairs with distinct keys -/

theorem c15_foldl_perm {β} {l₁ l₂ : List (Str × β)} (hp : l₁.Perm l₂) :
    (l₁.map Prod.fst).Nodup → ∀ acc : Dict β, c15_sorted acc →
      l₁.foldl (fun d kv => Dict.insert kv.1 kv.2 d) acc =
      l₂.foldl (fun d kv => Dict.insert kv.1 kv.2 d) acc := by
  induction hp with
  | nil => intros; rfl
  | cons x _ ih =>
    intro hn acc hs
    simp only [List.map_cons, List.nodup_cons] at hn
    simp only [List.foldl_cons]
    exact ih hn.2 _ (c15_insert_sorted _ _ _ hs)
  | swap x y l =>
    intro hn acc hs
    simp only [List.map_cons, List.nodup_cons, List.mem_cons, not_or] at hn
    simp only [List.foldl_cons]
    rw [c15_insert_comm x.1 y.1 x.2 y.2 acc (fun e => hn.1.1 e.symm) hs]
  | trans h₁ _ ih₁ ih₂ =>
    intro hn acc hs
    rw [ih₁ hn acc hs]
    exact ih₂ (((h₁.map Prod.fst).nodup_iff).1 hn) acc hs

theorem c15_ofList_perm {β} {l₁ l₂ : List (Str × β)} (hp : l₁.Perm l₂)
    (hn : (l₁.map Prod.fst).Nodup) : Dict.ofList l₁ = Dict.ofList l₂ :=
  c15_foldl_perm hp hn [] c15_sorted_nil

end Mammoth
