/-
  C07 — facts about the backtracking regex cost model (MammothModel/Regex.lean) instantiated
  with the tokeniser's STRING rules: exponential lower bound for the old rule, linear upper bound
  for the repaired rule, and agreement with the hand-written lexer `lexString`.
-/
import MammothModel.Regex
import Proofs.C07_Lexer
namespace Mammoth

@[simp] theorem c07_tick_fst (r : C07Res) : r.tick.1 = r.1 + 1 := rfl
@[simp] theorem c07_tick_snd (r : C07Res) : r.tick.2 = r.2 := rfl
@[simp] theorem c07_fail_fst : C07Res.fail.1 = 0 := rfl
@[simp] theorem c07_fail_snd : C07Res.fail.2 = none := rfl

theorem c07_orElse_fst_le (a b : C07Res) : (a.orElse b).1 ≤ a.1 + b.1 := by
  unfold C07Res.orElse; split <;> simp

theorem c07_orElse_none (a b : C07Res) (h : a.2 = none) : a.orElse b = (a.1 + b.1, b.2) := by
  unfold C07Res.orElse; simp [h]

theorem c07_orElse_some (a b : C07Res) (r : Str) (h : a.2 = some r) : a.orElse b = a := by
  unfold C07Res.orElse; simp [h]

/-- the fuel of the repetition loop is irrelevant as soon as it exceeds the length of the input -/
theorem c07_starLoop_fuel (body : Str → (Str → C07Res) → C07Res) (k : Str → C07Res) :
    ∀ (f g : Nat) (s : Str), s.length < f → s.length < g →
      c07_starLoop body f s k = c07_starLoop body g s k := by
  intro f
  induction f with
  | zero => intro g s h; omega
  | succ f ih =>
    intro g s hf hg
    cases g with
    | zero => omega
    | succ g =>
      simp only [c07_starLoop]
      congr 3
      funext s'
      split
      · exact ih g s' (by omega) (by omega)
      · rfl

theorem c07_run_star (a : C07Regex) (s : Str) (k : Str → C07Res) :
    (C07Regex.star a).run s k = c07_starLoop a.run (s.length + 1) s k := by
  rw [C07Regex.run]

/-- fuel-free unfolding of the greedy star -/
theorem c07_star_unfold (a : C07Regex) (s : Str) (k : Str → C07Res) :
    (C07Regex.star a).run s k =
      ((a.run s fun s' => if s'.length < s.length then (C07Regex.star a).run s' k else .fail).orElse (k s)).tick := by
  rw [c07_run_star, c07_starLoop]
  congr 3
  funext s'
  split
  · rw [c07_run_star]; exact c07_starLoop_fuel _ _ _ _ _ (by omega) (by omega)
  · rfl

/-- the continuation after the star of the STRING rule: the closing quote, then success -/
def c07_kq : Str → C07Res := fun s' => (C07Regex.chr c07_ccQuote).run s' fun s'' => (0, some s'')

theorem c07_kq_nil : c07_kq [] = (1, none) := rfl
theorem c07_kq_cons (c : Char) (cs : Str) :
    c07_kq (c :: cs) = if c = '\'' then (1, some cs) else (1, none) := by
  simp only [c07_kq, C07Regex.run, c07_ccQuote, C07Class.test]
  by_cases h : c = '\'' <;> simp [h, C07Res.tick, C07Res.fail]

theorem c07_run_chr_nil (p : C07Class) (k : Str → C07Res) : (C07Regex.chr p).run [] k = (1, none) := rfl
theorem c07_run_chr_cons (p : C07Class) (c : Char) (cs : Str) (k : Str → C07Res) :
    (C07Regex.chr p).run (c :: cs) k = if p.test c then (k cs).tick else (1, none) := by
  simp only [C07Regex.run]; split <;> rfl
theorem c07_run_seq (a b : C07Regex) (s : Str) (k : Str → C07Res) :
    (C07Regex.seq a b).run s k = a.run s fun s' => b.run s' k := rfl
theorem c07_run_alt (a b : C07Regex) (s : Str) (k : Str → C07Res) :
    (C07Regex.alt a b).run s k = ((a.run s k).orElse (b.run s k)).tick := rfl

theorem c07_inRanges_nil (c : Char) : c07_inRanges [] c = false := rfl
theorem c07_inRanges_single (a c : Char) (rs : List (Char × Char)) :
    c07_inRanges ((a, a) :: rs) c = (c == a || c07_inRanges rs c) := by
  have : (a.toNat ≤ c.toNat && c.toNat ≤ a.toNat) = (c == a) := by
    by_cases h : c = a
    · subst h; simp
    · have : c.toNat ≠ a.toNat := fun e => h (Char.toNat_inj.mp e)
      have h' : (c == a) = false := by simpa using h
      rw [h']; simp; omega
  simp [c07_inRanges, this]

theorem c07_test_nqb (c : Char) : c07_ccNotQuoteBackslash.test c = (c != '\'' && c != '\\') := by
  simp [c07_ccNotQuoteBackslash, C07Class.test, c07_inRanges_single, c07_inRanges_nil, bne]
theorem c07_test_nq (c : Char) : c07_ccNotQuote.test c = (c != '\'') := by
  simp [c07_ccNotQuote, C07Class.test, c07_inRanges_single, c07_inRanges_nil, bne]
theorem c07_test_bs (c : Char) : c07_ccBackslash.test c = (c == '\\') := rfl
theorem c07_test_q (c : Char) : c07_ccQuote.test c = (c == '\'') := rfl
theorem c07_test_any (c : Char) : C07Class.any.test c = (c != '\n') := rfl

theorem c07_bodyNew_run (s : Str) (k : Str → C07Res) : c07_stringBodyNew.run s k =
    (((C07Regex.chr c07_ccBackslash).run s fun s' => (C07Regex.chr .any).run s' k).orElse
      ((C07Regex.chr c07_ccNotQuoteBackslash).run s k)).tick := rfl

theorem c07_bodyNew_nil (k : Str → C07Res) : c07_stringBodyNew.run [] k = (3, none) := rfl
theorem c07_bodyNew_quote (cs : Str) (k : Str → C07Res) : c07_stringBodyNew.run ('\'' :: cs) k = (3, none) := rfl
theorem c07_bodyNew_bs_nil (k : Str → C07Res) : c07_stringBodyNew.run ['\\'] k = (4, none) := rfl
theorem c07_bodyNew_bs_nl (cs : Str) (k : Str → C07Res) : c07_stringBodyNew.run ('\\' :: '\n' :: cs) k = (4, none) := rfl
theorem c07_bodyNew_bs (c : Char) (cs : Str) (k : Str → C07Res) (h : c ≠ '\n') :
    c07_stringBodyNew.run ('\\' :: c :: cs) k = 
      match (k cs).2 with
      | some r => ((k cs).1 + 3, some r)
      | none => ((k cs).1 + 4, none) := by
  rw [c07_bodyNew_run]
  simp only [c07_run_chr_cons, c07_test_nqb, c07_test_bs, c07_test_any]
  simp [h, C07Res.orElse, C07Res.tick]
  split <;> simp_all
theorem c07_bodyNew_other (c : Char) (cs : Str) (k : Str → C07Res) (h1 : c ≠ '\'') (h2 : c ≠ '\\') :
    c07_stringBodyNew.run (c :: cs) k = ((k cs).1 + 3, (k cs).2) := by
  rw [c07_bodyNew_run]
  simp only [c07_run_chr_cons, c07_test_nqb, c07_test_bs]
  simp [h1, h2, C07Res.orElse, C07Res.tick]
  omega

/-- what is left after a closing quote -/
def c07_afterQuote : Str → Option Str
  | '\'' :: r => some r
  | _ => none

theorem c07_newLoop (s : Str) :
    ((C07Regex.star c07_stringBodyNew).run s c07_kq).1 ≤ 6 * s.length + 6 ∧
    ((C07Regex.star c07_stringBodyNew).run s c07_kq).2 =
      c07_afterQuote (lexStringBody s).2 := by
  fun_induction lexStringBody s
  case case1 c cs hc m r hx ih =>
    have hc' : c ≠ '\n' := by simpa [isDot] using hc
    rw [c07_star_unfold, c07_bodyNew_bs _ _ _ hc']
    simp only [List.length_cons, Nat.lt_add_one, Nat.lt_add_right, if_true]
    rw [hx] at ih
    generalize (C07Regex.star c07_stringBodyNew).run cs c07_kq = R at ih ⊢
    obtain ⟨n, o⟩ := R
    simp only at ih
    obtain ⟨ih1, rfl⟩ := ih
    simp only [c07_kq_cons]
    cases hr : c07_afterQuote r <;> split <;> simp_all [C07Res.orElse, C07Res.tick]
    all_goals omega
  case case2 c cs hc =>
    have hc' : c = '\n' := by simpa [isDot] using hc
    subst hc'
    rw [c07_star_unfold, c07_bodyNew_bs_nl]
    simp [c07_kq_cons, C07Res.orElse, C07Res.tick, c07_afterQuote]
  case case3 c cs hx hc m r hx' ih =>
    simp at hc
    rw [c07_star_unfold, c07_bodyNew_other _ _ _ hc.1 hc.2]
    simp only [List.length_cons, Nat.lt_add_one, if_true]
    rw [hx'] at ih
    generalize (C07Regex.star c07_stringBodyNew).run cs c07_kq = R at ih ⊢
    obtain ⟨n, o⟩ := R
    simp only at ih
    obtain ⟨ih1, rfl⟩ := ih
    simp only [c07_kq_cons]
    cases hr : c07_afterQuote r <;> split <;> simp_all [C07Res.orElse, C07Res.tick]
    all_goals omega
  case case4 c cs hx hc =>
    simp at hc
    by_cases hq : c = '\''
    · subst hq
      rw [c07_star_unfold, c07_bodyNew_quote]
      simp [c07_kq_cons, C07Res.orElse, C07Res.tick, c07_afterQuote]
    · have hb := hc hq
      subst hb
      cases cs with
      | nil => 
        rw [c07_star_unfold, c07_bodyNew_bs_nil]
        simp [c07_kq_cons, C07Res.orElse, C07Res.tick, c07_afterQuote]
      | cons d ds => exact absurd rfl (fun h => hx d ds rfl h)
  case case5 =>
    rw [c07_star_unfold, c07_bodyNew_nil]
    simp [c07_kq_nil, C07Res.orElse, C07Res.tick, c07_afterQuote]

/-! ### the old rule -/

theorem c07_bodyOld_run (s : Str) (k : Str → C07Res) : c07_stringBodyOld.run s k =
    (((C07Regex.chr c07_ccBackslash).run s fun s' => (C07Regex.chr .any).run s' k).orElse
      ((C07Regex.chr c07_ccNotQuote).run s k)).tick := rfl

/-- step count of the old loop on `n` backslashes with no closing quote -/
def c07_oldCost : Nat → Nat
  | 0 => 5
  | 1 => 11
  | n+2 => c07_oldCost (n+1) + c07_oldCost n + 6

theorem c07_oldLoop_two (n : Nat) :
    (C07Regex.star c07_stringBodyOld).run (List.replicate n '\\') c07_kq = (c07_oldCost n, none) ∧
    (C07Regex.star c07_stringBodyOld).run (List.replicate (n+1) '\\') c07_kq = (c07_oldCost (n+1), none) := by
  induction n with
  | zero =>
    constructor
    · rfl
    · rfl
  | succ n ih =>
    refine ⟨ih.2, ?_⟩
    rw [c07_star_unfold, c07_bodyOld_run]
    simp only [List.replicate_succ, c07_run_chr_cons, c07_test_bs, c07_test_nq, c07_test_any]
    simp only [List.replicate_succ] at ih
    have h1 : n < n + 1 + 1 := by omega
    simp [h1, ih.1, ih.2, c07_kq_cons, C07Res.orElse, C07Res.tick, c07_oldCost]
    omega

theorem c07_oldCost_mono (n : Nat) : c07_oldCost n ≤ c07_oldCost (n+1) := by
  cases n with
  | zero => decide
  | succ n => simp [c07_oldCost]; omega

theorem c07_oldCost_exp (k : Nat) : 2 ^ k ≤ c07_oldCost (2 * k) := by
  induction k with
  | zero => decide
  | succ k ih =>
    have : 2 * (k + 1) = 2 * k + 2 := by omega
    rw [this, c07_oldCost, Nat.pow_succ]
    have := c07_oldCost_mono (2 * k)
    omega

theorem c07_stringRule_exec (body : C07Regex) (s : Str) :
    (C07Regex.seq (.chr c07_ccQuote) (.seq (.star body) (.chr c07_ccQuote))).exec s =
      match s with
      | '\'' :: cs => ((C07Regex.star body).run cs c07_kq).tick
      | _ => (1, none) := by
  unfold C07Regex.exec
  rw [c07_run_seq]
  cases s with
  | nil => rfl
  | cons c cs =>
    rw [c07_run_chr_cons, c07_test_q]
    by_cases h : c = '\''
    · subst h; rfl
    · have : (c == '\'') = false := by simpa using h
      simp only [this, Bool.false_eq_true, if_false]
      split
      · rename_i heq; simp at heq; exact absurd heq.1 h
      · rfl

theorem c07_old_steps (k : Nat) :
    2 ^ k ≤ c07_stringRuleOld.steps ('\'' :: List.replicate (2 * k) '\\') := by
  unfold C07Regex.steps c07_stringRuleOld
  rw [c07_stringRule_exec]
  simp only [(c07_oldLoop_two (2 * k)).1, c07_tick_fst]
  have := c07_oldCost_exp k
  omega

theorem c07_new_steps (s : Str) : c07_stringRuleNew.steps s ≤ 6 * (s.length + 1) := by
  unfold C07Regex.steps c07_stringRuleNew
  rw [c07_stringRule_exec]
  split
  · rename_i cs
    have := (c07_newLoop cs).1
    simp only [c07_tick_fst, List.length_cons]
    omega
  · simp; omega

theorem c07_afterQuote_ne (c : Char) (r : Str) (h : c ≠ '\'') : c07_afterQuote (c :: r) = none := by
  unfold c07_afterQuote
  split
  · rename_i h'; simp at h'; exact absurd h'.1 h
  · rfl

theorem c07_lexString_quote (cs : Str) :
    lexString ('\'' :: cs) =
      match c07_afterQuote (lexStringBody cs).2 with
      | some r => some (.string, '\'' :: (lexStringBody cs).1 ++ ['\''], r)
      | none => some (.unterminated, '\'' :: (lexStringBody cs).1, (lexStringBody cs).2) := by
  simp only [lexString]
  generalize lexStringBody cs = p
  obtain ⟨m, r⟩ := p
  cases r with
  | nil => rfl
  | cons c r =>
    by_cases h : c = '\''
    · subst h; rfl
    · simp only [c07_afterQuote_ne c r h]
      split
      · rename_i heq; simp at heq; exact absurd heq.2.1 h
      · rename_i heq; simp at heq
        obtain ⟨rfl, rfl⟩ := heq
        rfl

theorem c07_lexString_other (s : Str) (h : ∀ cs, s ≠ '\'' :: cs) : lexString s = none := by
  unfold lexString
  split
  · rename_i cs; exact absurd rfl (h cs)
  · rfl

theorem c07_new_result (s : Str) :
    (c07_stringRuleNew.exec s).2 =
      match lexString s with
      | some (.string, _, r) => some r
      | _ => none := by
  unfold c07_stringRuleNew
  rw [c07_stringRule_exec]
  split
  · rename_i cs
    simp only [c07_tick_snd, (c07_newLoop cs).2, c07_lexString_quote]
    cases c07_afterQuote (lexStringBody cs).2 <;> rfl
  · rename_i h
    rw [c07_lexString_other s (fun cs e => h cs e)]

/-- the final continuation: success -/
def c07_k0 : Str → C07Res := fun s' => (0, some s')

theorem c07_newLoop_k0 (s : Str) :
    ((C07Regex.star c07_stringBodyNew).run s c07_k0).1 ≤ 6 * s.length + 6 ∧
    ((C07Regex.star c07_stringBodyNew).run s c07_k0).2 = some (lexStringBody s).2 := by
  fun_induction lexStringBody s
  case case1 c cs hc m r hx ih =>
    have hc' : c ≠ '\n' := by simpa [isDot] using hc
    rw [c07_star_unfold, c07_bodyNew_bs _ _ _ hc']
    simp only [List.length_cons, Nat.lt_add_one, Nat.lt_add_right, if_true]
    rw [hx] at ih
    generalize (C07Regex.star c07_stringBodyNew).run cs c07_k0 = R at ih ⊢
    obtain ⟨n, o⟩ := R
    simp only at ih
    obtain ⟨ih1, rfl⟩ := ih
    simp [C07Res.orElse, C07Res.tick]
    omega
  case case2 c cs hc =>
    have hc' : c = '\n' := by simpa [isDot] using hc
    subst hc'
    rw [c07_star_unfold, c07_bodyNew_bs_nl]
    simp [c07_k0, C07Res.orElse, C07Res.tick]
  case case3 c cs hx hc m r hx' ih =>
    simp at hc
    rw [c07_star_unfold, c07_bodyNew_other _ _ _ hc.1 hc.2]
    simp only [List.length_cons, Nat.lt_add_one, if_true]
    rw [hx'] at ih
    generalize (C07Regex.star c07_stringBodyNew).run cs c07_k0 = R at ih ⊢
    obtain ⟨n, o⟩ := R
    simp only at ih
    obtain ⟨ih1, rfl⟩ := ih
    simp [C07Res.orElse, C07Res.tick]
    omega
  case case4 c cs hx hc =>
    simp at hc
    by_cases hq : c = '\''
    · subst hq
      rw [c07_star_unfold, c07_bodyNew_quote]
      simp [c07_k0, C07Res.orElse, C07Res.tick]
    · have hb := hc hq
      subst hb
      cases cs with
      | nil =>
        rw [c07_star_unfold, c07_bodyNew_bs_nil]
        simp [c07_k0, C07Res.orElse, C07Res.tick]
      | cons d ds => exact absurd rfl (fun h => hx d ds rfl h)
  case case5 =>
    rw [c07_star_unfold, c07_bodyNew_nil]
    simp [c07_k0, C07Res.orElse, C07Res.tick]

theorem c07_unterminated_exec (s : Str) :
    c07_unterminatedRule.exec s =
      match s with
      | '\'' :: cs => ((C07Regex.star c07_stringBodyNew).run cs c07_k0).tick
      | _ => (1, none) := by
  unfold C07Regex.exec c07_unterminatedRule
  rw [c07_run_seq]
  cases s with
  | nil => rfl
  | cons c cs =>
    rw [c07_run_chr_cons, c07_test_q]
    by_cases h : c = '\''
    · subst h; rfl
    · have : (c == '\'') = false := by simpa using h
      simp only [this, Bool.false_eq_true, if_false]
      split
      · rename_i heq; simp at heq; exact absurd heq.1 h
      · rfl

theorem c07_unterminated_exec_ne (c : Char) (cs : Str) (h : c ≠ '\'') :
    c07_unterminatedRule.exec (c :: cs) = (1, none) := by
  rw [c07_unterminated_exec]
  split
  · rename_i heq; simp at heq; exact absurd heq.1 h
  · rfl

/-- the STRING / UNTERMINATED_STRING step of `regex_tokeniser`, computed by the regex matcher:
    try STRING, then UNTERMINATED_STRING; the token value is the matched prefix -/
def c07_lexStringRx (s : Str) : Option (TokTy × Str × Str) :=
  match (c07_stringRuleNew.exec s).2 with
  | some r => some (.string, s.take (s.length - r.length), r)
  | none =>
    match (c07_unterminatedRule.exec s).2 with
    | some r => some (.unterminated, s.take (s.length - r.length), r)
    | none => none

theorem c07_take_prefix (a b : Str) (n : Nat) (h : n = a.length) : (a ++ b).take n = a := by
  subst h; simp

theorem c07_lexStringRx_eq (s : Str) : c07_lexStringRx s = lexString s := by
  unfold c07_lexStringRx
  rw [c07_new_result]
  cases s with
  | nil => rfl
  | cons c cs =>
    by_cases h : c = '\''
    · subst h
      rw [c07_unterminated_exec]
      have hsplit := c07_lexStringBody_split cs
      rw [c07_lexString_quote]
      simp only [c07_tick_snd, (c07_newLoop_k0 cs).2]
      generalize lexStringBody cs = p at *
      obtain ⟨m, r'⟩ := p
      simp only at hsplit ⊢
      subst hsplit
      cases hq : c07_afterQuote r' with
      | none =>
        simp only
        congr 3
        exact c07_take_prefix ('\'' :: m) r' _ (by simp; omega)
      | some r =>
        simp only
        have : r' = '\'' :: r := by
          revert hq; unfold c07_afterQuote; split <;> simp_all
        subst this
        congr 3
        have := c07_take_prefix ('\'' :: m ++ ['\'']) r
          (('\'' :: (m ++ '\'' :: r)).length - r.length) (by simp; omega)
        simpa using this
    · rw [c07_lexString_other _ (fun cs e => h (by simp at e; exact e.1)),
        c07_unterminated_exec_ne c cs h]

end Mammoth
