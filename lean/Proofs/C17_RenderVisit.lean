/-
  C17 — the forest produced by the converter satisfies `c17_imgGood` (every `img` is childless, nothing
  collapsible can merge with one) whenever no style mapping mentions `img`; so the `img` elements
  survive `strip_empty` and `collapse` (`Proofs/C17_Render.lean`).
-/
import Proofs.C17_Render
import Proofs.C01_NoSep
namespace Mammoth

abbrev c17_G (ns : List Node) : Prop := c17_imgGood ns = true

theorem c17_good_wrapElems (es : List Tag) (ns : List Node)
    (he : c17_noImgPath (.elements es) = true) (hn : c17_imgGood ns = true) :
    c17_imgGood (wrapElems es ns) = true := by
  induction es with
  | nil => simpa [wrapElems] using hn
  | cons t ts ih =>
    simp only [c17_noImgPath, List.all_cons, Bool.and_eq_true, Bool.not_eq_true'] at he
    have := ih (by simpa [c17_noImgPath] using he.2)
    simp only [wrapElems, c17_imgGood_cons, c17_imgGoodN_elem, c17_imgGood_nil, Bool.and_true, Bool.and_eq_true]
    refine ⟨?_, this⟩
    have hne := c17_name_ne_img he.1
    simp only [c17_imgGoodTag, Bool.and_eq_true, Bool.or_eq_true, bne_iff_ne, ne_eq, Bool.not_eq_true']
    exact ⟨Or.inl hne, Or.inl he.1⟩

theorem c17_good_wrapAll (paths : List HtmlPath) (ns : List Node)
    (hp : paths.all c17_noImgPath = true) (hn : c17_imgGood ns = true) :
    c17_imgGood (wrapAll paths ns) = true := by
  induction paths generalizing ns with
  | nil => simpa [wrapAll] using hn
  | cons p ps ih =>
    simp only [List.all_cons, Bool.and_eq_true] at hp
    cases p with
    | ignore => exact ih [] hp.2 (by simp)
    | elements es => exact ih _ hp.2 (c17_good_wrapElems es ns hp.1 hn)

/-- an element built by `el` with a name other than `img` -/
theorem c17_good_el (n : Str) (a : List (Str × Str)) (cs : List Node) (h : n ≠ S!"img") :
    c17_imgGoodN (el n a cs) = c17_imgGood cs := by
  have h' : ¬ (S!"img" = n) := fun e => h e.symm
  simp [el, c17_imgGoodN_elem, c17_imgGoodTag, Tag.names, h, h']

theorem c17_good_cel (n : Str) (a : List (Str × Str)) (cs : List Node) (h : n ≠ S!"img") :
    c17_imgGoodN (cel n a cs) = c17_imgGood cs := by
  have h' : ¬ (S!"img" = n) := fun e => h e.symm
  simp [cel, c17_imgGoodN_elem, c17_imgGoodTag, Tag.names, h, h']

/-- the `img` of the image converter: fresh and childless -/
theorem c17_good_img (a : List (Str × Str)) : c17_imgGood [el S!"img" a []] = true := by
  simp [el, c17_imgGoodN_elem, c17_imgGoodTag, Tag.names]

theorem c17_good_findPathWarn (cfg : Cfg) (hm : c17_noImgMap cfg = true) (t : Target) (kind : Str)
    (sid sname : Option Str) (dflt : HtmlPath) (hd : c17_noImgPath dflt = true) :
    c01_post (fun p => c17_noImgPath p = true) (findPathWarn cfg t kind sid sname dflt) := by
  intro st p st' hr
  rw [c01_findPathWarn_run] at hr
  cases hr
  exact c17_noImg_path cfg hm t dflt hd

theorem c17_good_convertImage (cfg : Cfg) (i : ImageProps) : c01_post c17_G (convertImage cfg i) := by
  unfold convertImage
  refine c01_post_bind_any _ _ _ ?_; intro _
  extract_lets altAttr
  split
  · refine c01_post_bind_any _ _ _ ?_; intro r
    split
    · exact c01_post_pure _ _ (c17_good_img _)
    · refine c01_post_bind_any _ _ _ ?_; intro _
      exact c01_post_pure _ _ rfl
  · split
    · refine c01_post_bind_any _ _ _ ?_; intro r
      split
      · exact c01_post_pure _ _ (c17_good_img _)
      · refine c01_post_bind_any _ _ _ ?_; intro _
        exact c01_post_pure _ _ rfl
    · exact c01_post_pure _ _ (c17_good_img _)

mutual
theorem c17_good_visit (cfg : Cfg) (hm : c17_noImgMap cfg = true) (hdr : Bool) (e : Elem) :
    c01_post c17_G (visit cfg hdr e) := by
  match e with
  | .paragraph p cs =>
    simp only [visit]
    refine c01_post_bind _ _ _ _ (c17_good_findPathWarn cfg hm _ _ _ _ _ (by decide)) ?_
    intro path hpath
    cases path with
    | ignore => exact c01_post_pure _ _ rfl
    | elements es =>
      refine c01_post_bind _ _ _ _ (c17_good_visitAll cfg hm hdr cs) ?_
      intro content hc
      refine c01_post_pure _ _ ?_
      apply c17_good_wrapElems es _ hpath
      split
      · exact hc
      · simpa using hc
  | .run r cs =>
    simp only [visit]
    refine c01_post_bind _ _ _ _ (c17_good_findPathWarn cfg hm _ _ _ _ _ (by decide)) ?_
    intro sp hsp
    have hall : (runPropPaths cfg r ++ [sp]).all c17_noImgPath = true := by
      simp [List.all_append, c17_noImg_runPropPaths cfg hm r, hsp]
    split
    · exact c01_post_pure _ _ (c17_good_wrapAll _ _ hall rfl)
    · refine c01_post_bind _ _ _ _ (c17_good_visitAll cfg hm hdr cs) ?_
      intro ns hns
      exact c01_post_pure _ _ (c17_good_wrapAll _ _ hall hns)
  | .text s => exact c01_post_pure _ _ rfl
  | .hyperlink h cs =>
    simp only [visit]
    refine c01_post_bind _ _ _ _ (c17_good_visitAll cfg hm hdr cs) ?_
    intro ns hns
    refine c01_post_pure _ _ ?_
    simp [c17_G, c17_good_cel, hns]
  | .checkbox c =>
    simp only [visit]
    refine c01_post_pure _ _ ?_
    simp [c17_G, c17_good_el]
  | .table sid sname rows =>
    simp only [visit]
    have hpath : c17_noImgPath ((findPath cfg (.table sid sname)).getD (.elements [pathElem S!"table" true])) = true :=
      c17_noImg_path cfg hm _ _ (by decide)
    revert hpath
    generalize (findPath cfg (.table sid sname)).getD (.elements [pathElem S!"table" true]) = path
    intro hpath
    cases path with
    | ignore => exact c01_post_pure _ _ rfl
    | elements es =>
      refine c01_post_bind _ _ _ _ (c17_good_visitRows cfg hm true rows) ?_
      intro hb hhb
      refine c01_post_pure _ _ ?_
      apply c17_good_wrapElems es _ hpath
      split <;> simp [c17_good_el, hhb.1, hhb.2]
  | .row h cells =>
    simp only [visit]
    refine c01_post_bind _ _ _ _ (c17_good_visitAll cfg hm hdr cells) ?_
    intro ns hns
    refine c01_post_pure _ _ ?_
    simp [c17_G, c17_good_el, hns]
  | .cell a b c cs =>
    simp only [visit]
    refine c01_post_bind _ _ _ _ (c17_good_visitAll cfg hm hdr cs) ?_
    intro ns hns
    refine c01_post_pure _ _ ?_
    have : (if hdr then S!"th" else S!"td") ≠ S!"img" := by cases hdr <;> decide
    simp [c17_G, c17_good_el _ _ _ this, hns]
  | .brk ty =>
    simp only [visit]
    cases h : findPath cfg (.brk ty) with
    | none =>
      simp only []
      split
      · refine c01_post_pure _ _ ?_
        simp [c17_G, c17_imgGoodN_elem, c17_imgGoodTag, pathElem, Tag.names]
      · exact c01_post_pure _ _ rfl
    | some p =>
      have := c17_noImg_findPath cfg hm _ p h
      cases p with
      | ignore => exact c01_post_pure _ _ rfl
      | elements es => exact c01_post_pure _ _ (c17_good_wrapElems es [] this rfl)
  | .tab => exact c01_post_pure _ _ rfl
  | .image i => simp only [visit]; exact c17_good_convertImage cfg i
  | .bookmark n =>
    simp only [visit]
    refine c01_post_pure _ _ ?_
    simp [c17_G, c17_good_cel]
  | .noteRef ty id =>
    simp only [visit]
    refine c01_post_bind_any _ _ _ ?_; intro _
    refine c01_post_bind_any _ _ _ ?_; intro _
    refine c01_post_pure _ _ ?_
    simp [c17_G, c17_good_el]
  | .commentRef id =>
    simp only [visit]
    cases h : findPath cfg .commentReference with
    | none => exact c01_post_pure _ _ rfl
    | some p =>
      have := c17_noImg_findPath cfg hm _ p h
      cases p with
      | ignore => exact c01_post_pure _ _ rfl
      | elements es =>
        simp only []
        split
        · intro st a st' hr; simp at hr
        · refine c01_post_bind_any _ _ _ ?_; intro _
          refine c01_post_bind_any _ _ _ ?_; intro _
          refine c01_post_pure _ _ ?_
          apply c17_good_wrapElems es _ this
          simp [c17_good_el]
theorem c17_good_visitAll (cfg : Cfg) (hm : c17_noImgMap cfg = true) (hdr : Bool) (es : List Elem) :
    c01_post c17_G (visitAll cfg hdr es) := by
  match es with
  | [] => exact c01_post_pure _ _ rfl
  | e :: es =>
    simp only [visitAll]
    refine c01_post_bind _ _ _ _ (c17_good_visit cfg hm hdr e) ?_
    intro a ha
    refine c01_post_bind _ _ _ _ (c17_good_visitAll cfg hm hdr es) ?_
    intro b hb
    refine c01_post_pure _ _ ?_
    simp [c17_G, c17_imgGood_append, ha, hb]
theorem c17_good_visitRows (cfg : Cfg) (hm : c17_noImgMap cfg = true) (inHead : Bool) (rs : List Elem) :
    c01_post (fun p => c17_G p.1 ∧ c17_G p.2) (visitRows cfg inHead rs) := by
  match rs with
  | [] => exact c01_post_pure _ _ ⟨rfl, rfl⟩
  | r :: rs =>
    simp only [visitRows]
    split
    · refine c01_post_bind _ _ _ _ (c17_good_visit cfg hm true r) ?_
      intro a ha
      refine c01_post_bind _ _ _ _ (c17_good_visitRows cfg hm true rs) ?_
      intro hb hhb
      refine c01_post_pure _ _ ?_
      exact ⟨by simp [c17_G, c17_imgGood_append, ha, hhb.1], hhb.2⟩
    · refine c01_post_bind _ _ _ _ (c17_good_visit cfg hm false r) ?_
      intro a ha
      refine c01_post_bind _ _ _ _ (c17_good_visitRows cfg hm false rs) ?_
      intro hb hhb
      refine c01_post_pure _ _ ?_
      exact ⟨hhb.1, by simp [c17_G, c17_imgGood_append, ha, hhb.2]⟩
end

theorem c17_good_backLink (href : Str) : c17_imgGoodN (backLink href) = true := by
  simp [backLink, c17_good_cel, c17_good_el]

theorem c17_good_mapMConcat {α} (f : α → ConvM (List Node)) (hf : ∀ x, c01_post c17_G (f x))
    (xs : List α) : c01_post c17_G (mapMConcat f xs) := by
  induction xs with
  | nil => exact c01_post_pure _ _ rfl
  | cons x xs ih =>
    simp only [mapMConcat]
    refine c01_post_bind _ _ _ _ (hf x) ?_
    intro a ha
    refine c01_post_bind _ _ _ _ ih ?_
    intro b hb
    refine c01_post_pure _ _ ?_
    simp [c17_G, c17_imgGood_append, ha, hb]

theorem c17_good_visitNote (cfg : Cfg) (hm : c17_noImgMap cfg = true) (n : Note) :
    c01_post c17_G (visitNote cfg n) := by
  unfold visitNote
  refine c01_post_bind _ _ _ _ (c17_good_visitAll cfg hm false n.body) ?_
  intro b hb
  refine c01_post_pure _ _ ?_
  simp [c17_G, c17_good_el, c17_imgGood_append, hb, c17_good_backLink]

theorem c17_good_visitComment (cfg : Cfg) (hm : c17_noImgMap cfg = true) (lc : Str × Comment) :
    c01_post c17_G (visitComment cfg lc) := by
  unfold visitComment
  refine c01_post_bind _ _ _ _ (c17_good_visitAll cfg hm false lc.2.body) ?_
  intro b hb
  refine c01_post_pure _ _ ?_
  simp [c17_G, c17_good_el, c17_imgGood_append, hb, c17_good_backLink]

theorem c17_good_visitDocument (cfg : Cfg) (hm : c17_noImgMap cfg = true) (d : Document) :
    c01_post c17_G (visitDocument cfg d) := by
  unfold visitDocument
  refine c01_post_bind _ _ _ _ (c17_good_visitAll cfg hm false d.children) ?_
  intro nodes hnodes
  refine c01_post_bind_any _ _ _ ?_; intro st1
  simp only []
  have key : ∀ notes, c01_post c17_G (do
      let noteNodes ← mapMConcat (visitNote cfg) notes
      let __do_lift ← get
      let commentNodes ← mapMConcat (visitComment cfg) __do_lift.refComments
      pure (nodes ++ [el S!"ol" [] noteNodes, el S!"dl" [] commentNodes])) := by
    intro notes
    refine c01_post_bind _ _ _ _ (c17_good_mapMConcat _ (c17_good_visitNote cfg hm) notes) ?_
    intro nn hnn
    refine c01_post_bind_any _ _ _ ?_; intro st2
    refine c01_post_bind _ _ _ _ (c17_good_mapMConcat _ (c17_good_visitComment cfg hm) _) ?_
    intro cn hcn
    refine c01_post_pure _ _ ?_
    simp [c17_G, c17_good_el, c17_imgGood_append, hnodes, hnn, hcn]
  split
  · refine c01_post_bind_any _ _ _ ?_; intro notes
    exact key notes
  · intro st a st' hr
    rw [c01_bind_run, c01_throw_run] at hr
    simp at hr

theorem c17_good_convertDoc (cfg : Cfg) (hm : c17_noImgMap cfg = true) (d : Document) (r : ConvResult)
    (h : convertDoc cfg d = .ok r) : c17_imgGood r.nodes = true := by
  unfold convertDoc at h
  split at h
  · rename_i nodes st hrun
    cases h
    exact c17_good_visitDocument { cfg with comments := d.comments } hm d _ _ _ hrun
  · cases h

end Mammoth
