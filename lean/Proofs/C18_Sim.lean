/-
  C18 — whether the conversion raises (and with which error), the note references and the referenced
  comments do not depend on the outside world (`Cfg.world`) nor on the input's directory (`Cfg.base`):
  a simulation between the runs of the converter under two configurations that differ only there.
-/
import Proofs.C18_Image
namespace Mammoth

/-- `cfg` with another directory and another outside world -/
@[reducible] def c18_reworld (cfg : Cfg) (b : Option Str) (w : Str → Option Bytes) : Cfg :=
  { cfg with base := b, world := w }

/-- the part of the state that steers the control flow -/
def c18_rel (s s' : ConvState) : Prop :=
  s.noteRefs = s'.noteRefs ∧ s.refComments = s'.refComments

def c18_simR {α : Type} (R : α → α → Prop) :
    Except Err (α × ConvState) → Except Err (α × ConvState) → Prop
  | .ok (a, s), .ok (a', s') => R a a' ∧ c18_rel s s'
  | .error e, .error e' => e = e'
  | _, _ => False

/-- from related states, `m` and `m'` either raise the same error or both succeed with `R`-related
    results and related states -/
def c18_sim {α : Type} (R : α → α → Prop) (m m' : ConvM α) : Prop :=
  ∀ st st', c18_rel st st' → c18_simR R (m.run st) (m'.run st')

/-- `m` never raises and leaves note references / referenced comments alone -/
def c18_quiet {α : Type} (m : ConvM α) : Prop :=
  ∀ st, ∃ a s, m.run st = .ok (a, s) ∧ s.noteRefs = st.noteRefs ∧ s.refComments = st.refComments

abbrev c18_any {α : Type} : α → α → Prop := fun _ _ => True

theorem c18_sim_of_quiet {α : Type} {m m' : ConvM α} (h : c18_quiet m) (h' : c18_quiet m') :
    c18_sim c18_any m m' := by
  intro st st' hr
  obtain ⟨a, s, e, n1, n2⟩ := h st
  obtain ⟨a', s', e', n1', n2'⟩ := h' st'
  rw [e, e']
  exact ⟨trivial, by rw [n1, n1']; exact hr.1, by rw [n2, n2']; exact hr.2⟩

theorem c18_sim_pure {α : Type} {R : α → α → Prop} {a a' : α} (h : R a a') :
    c18_sim R (pure a : ConvM α) (pure a') := by
  intro st st' hr
  exact ⟨h, hr⟩

theorem c18_sim_throw {α : Type} (R : α → α → Prop) (e : Err) :
    c18_sim R (throw e : ConvM α) (throw e) := by
  intro st st' hr
  exact rfl

theorem c18_sim_bind {α β : Type} {R : α → α → Prop} {Q : β → β → Prop} {m m' : ConvM α}
    {f f' : α → ConvM β} (hm : c18_sim R m m')
    (hf : ∀ a a', R a a' → c18_sim Q (f a) (f' a')) : c18_sim Q (m >>= f) (m' >>= f') := by
  intro st st' hr
  have h := hm st st' hr
  rw [StateT.run_bind, StateT.run_bind]
  cases e : m.run st with
  | error err =>
    cases e' : m'.run st' with
    | error err' => rw [e, e'] at h; exact h
    | ok p' => rw [e, e'] at h; exact h.elim
  | ok p =>
    cases e' : m'.run st' with
    | error err' => rw [e, e'] at h; exact h.elim
    | ok p' =>
      rw [e, e'] at h
      obtain ⟨a, s⟩ := p
      obtain ⟨a', s'⟩ := p'
      exact hf a a' h.1 s s' h.2

theorem c18_sim_weaken {α : Type} {R Q : α → α → Prop} {m m' : ConvM α}
    (h : c18_sim R m m') (hq : ∀ a a', R a a' → Q a a') : c18_sim Q m m' := by
  intro st st' hr
  have := h st st' hr
  cases e : m.run st with
  | error err =>
    cases e' : m'.run st' with
    | error err' => rw [e, e'] at this; exact this
    | ok p' => rw [e, e'] at this; exact this.elim
  | ok p =>
    cases e' : m'.run st' with
    | error err' => rw [e, e'] at this; exact this.elim
    | ok p' =>
      rw [e, e'] at this
      obtain ⟨a, s⟩ := p
      obtain ⟨a', s'⟩ := p'
      exact ⟨hq _ _ this.1, this.2⟩

theorem c18_sim_modify (f f' : ConvState → ConvState)
    (h : ∀ s s', c18_rel s s' → c18_rel (f s) (f' s')) :
    c18_sim c18_any (modify f : ConvM PUnit) (modify f') := by
  intro st st' hr
  exact ⟨trivial, h _ _ hr⟩

theorem c18_sim_get : c18_sim c18_rel (get : ConvM ConvState) get := by
  intro st st' hr
  exact ⟨hr, hr⟩

/-! ### quiet computations -/

theorem c18_quiet_pure {α : Type} (a : α) : c18_quiet (pure a : ConvM α) :=
  fun st => ⟨a, st, rfl, rfl, rfl⟩

theorem c18_quiet_modify (f : ConvState → ConvState) (h1 : ∀ s, (f s).noteRefs = s.noteRefs)
    (h2 : ∀ s, (f s).refComments = s.refComments) : c18_quiet (modify f : ConvM PUnit) :=
  fun st => ⟨⟨⟩, f st, rfl, h1 st, h2 st⟩

theorem c18_quiet_bind {α β : Type} {m : ConvM α} {f : α → ConvM β} (hm : c18_quiet m)
    (hf : ∀ a, c18_quiet (f a)) : c18_quiet (m >>= f) := by
  intro st
  obtain ⟨a, s, e, n1, n2⟩ := hm st
  obtain ⟨b, s2, e2, m1, m2⟩ := hf a s
  refine ⟨b, s2, ?_, m1.trans n1, m2.trans n2⟩
  rw [StateT.run_bind, e]
  exact e2

theorem c18_quiet_warn (m : Str) : c18_quiet (warn m) :=
  c18_quiet_modify _ (fun _ => rfl) (fun _ => rfl)

theorem c18_quiet_findPathWarn (cfg : Cfg) (t : Target) (kind : Str) (sid sname : Option Str)
    (dflt : HtmlPath) : c18_quiet (findPathWarn cfg t kind sid sname dflt) := by
  unfold findPathWarn
  split
  · exact c18_quiet_pure _
  · dsimp only
    split
    · exact c18_quiet_bind (c18_quiet_warn _) (fun _ => c18_quiet_pure _)
    · exact c18_quiet_pure _

theorem c18_quiet_openImage_linked (cfg : Cfg) (uri : Str) :
    c18_quiet (openImage cfg (.linked uri)) := by
  intro st
  cases habs : isAbsoluteUri uri with
  | true => exact ⟨_, _, c18_openImage_abs cfg uri st habs, rfl, rfl⟩
  | false =>
    cases hb : cfg.base with
    | none => exact ⟨_, _, c18_openImage_noname cfg uri st habs hb, rfl, rfl⟩
    | some b => exact ⟨_, _, c18_openImage_rel cfg uri b st habs hb, rfl, rfl⟩

/-- a quiet computation that returns a value determined independently of the state -/
theorem c18_sim_eq_of_quiet_const {α : Type} {m m' : ConvM α} (v : α)
    (h : ∀ st, ∃ s, m.run st = .ok (v, s) ∧ s.noteRefs = st.noteRefs ∧ s.refComments = st.refComments)
    (h' : ∀ st, ∃ s, m'.run st = .ok (v, s) ∧ s.noteRefs = st.noteRefs ∧ s.refComments = st.refComments) :
    c18_sim Eq m m' := by
  intro st st' hr
  obtain ⟨s, e, n1, n2⟩ := h st
  obtain ⟨s', e', n1', n2'⟩ := h' st'
  rw [e, e']
  exact ⟨rfl, by rw [n1, n1']; exact hr.1, by rw [n2, n2']; exact hr.2⟩

theorem c18_findPathWarn_const (cfg : Cfg) (t : Target) (kind : Str) (sid sname : Option Str)
    (dflt : HtmlPath) (st : ConvState) :
    ∃ s, (findPathWarn cfg t kind sid sname dflt).run st =
        .ok ((findPath cfg t).getD dflt, s) ∧
      s.noteRefs = st.noteRefs ∧ s.refComments = st.refComments := by
  unfold findPathWarn
  cases findPath cfg t with
  | some p => exact ⟨st, rfl, rfl, rfl⟩
  | none =>
    cases sid with
    | none => exact ⟨st, rfl, rfl, rfl⟩
    | some s => exact ⟨_, rfl, rfl, rfl⟩

theorem c18_sim_findPathWarn (cfg : Cfg) (b : Option Str) (w : Str → Option Bytes) (t : Target)
    (kind : Str) (sid sname : Option Str) (dflt : HtmlPath) :
    c18_sim Eq (findPathWarn cfg t kind sid sname dflt)
      (findPathWarn (c18_reworld cfg b w) t kind sid sname dflt) :=
  c18_sim_eq_of_quiet_const ((findPath cfg t).getD dflt)
    (c18_findPathWarn_const cfg t kind sid sname dflt)
    (c18_findPathWarn_const (c18_reworld cfg b w) t kind sid sname dflt)

theorem c18_sim_openImage (cfg : Cfg) (b : Option Str) (w : Str → Option Bytes) (src : ImageSrc) :
    c18_sim c18_any (openImage cfg src) (openImage (c18_reworld cfg b w) src) := by
  cases src with
  | linked uri =>
    exact c18_sim_of_quiet (c18_quiet_openImage_linked _ _) (c18_quiet_openImage_linked _ _)
  | embedded name =>
    simp only [openImage]
    split
    · exact c18_sim_pure trivial
    · exact c18_sim_throw _ _

theorem c18_quiet_imgResult (f : Bytes → List Node) (r : Except Str Bytes) :
    c18_quiet (match r with
      | .ok bytes => (pure (f bytes) : ConvM (List Node))
      | .error msg => do warn msg; pure []) := by
  cases r with
  | ok bs => exact c18_quiet_pure _
  | error m => exact c18_quiet_bind (c18_quiet_warn _) (fun _ => c18_quiet_pure _)

theorem c18_sim_convertImage (cfg : Cfg) (b : Option Str) (w : Str → Option Bytes) (i : ImageProps) :
    c18_sim c18_any (convertImage cfg i) (convertImage (c18_reworld cfg b w) i) := by
  unfold convertImage
  refine c18_sim_bind (c18_sim_modify _ _ (fun s s' h => h)) ?_
  intro _ _ _
  dsimp only
  cases cfg.imageConv with
  | dataUri =>
    dsimp only
    refine c18_sim_bind (c18_sim_openImage cfg b w i.src) ?_
    intro r r' _
    exact c18_sim_of_quiet (c18_quiet_imgResult _ r) (c18_quiet_imgResult _ r')
  | fixed attrs opens =>
    dsimp only
    cases opens with
    | false => exact c18_sim_pure trivial
    | true =>
      simp only [if_true]
      refine c18_sim_bind (c18_sim_openImage cfg b w i.src) ?_
      intro r r' _
      exact c18_sim_of_quiet (c18_quiet_imgResult _ r) (c18_quiet_imgResult _ r')

end Mammoth
