/-
  C05 — the converse of Proofs/C05_RBalanced.lean: when the reading-order depth function UNDERFLOWS
  (`c05_rdepth … = none`), the reader does not return normally.  Together with "only fuel or IndexError" and
  "fuel is enough" this makes `c05_balanced` exact: a statically well-formed body is read iff it is balanced
  in reading order.
-/
import Proofs.C05_RBalanced
import Proofs.C05_FuelAll
namespace Mammoth

/-- if the depth function underflows, the reader does not return normally -/
def c05_nrel (o : Option c05_DS) (x : Except Err (ReadResult × RState)) : Prop :=
  o = none → ∀ a, x ≠ .ok a

theorem c05_nrel_some (s : c05_DS) (x : Except Err (ReadResult × RState)) : c05_nrel (some s) x :=
  fun h => by cases h

theorem c05_nrel_ite2 (c : Prop) [Decidable c] (o1 o2 : Option c05_DS) (x1 x2 : Except Err (ReadResult × RState))
    (h1 : c → c05_nrel o1 x1) (h2 : ¬ c → c05_nrel o2 x2) :
    c05_nrel (if c then o1 else o2) (if c then x1 else x2) := by
  by_cases hc : c
  · rw [if_pos hc, if_pos hc]; exact h1 hc
  · rw [if_neg hc, if_neg hc]; exact h2 hc

theorem c05_nrel_iteR (c : Prop) [Decidable c] (o : Option c05_DS) (x1 x2 : Except Err (ReadResult × RState))
    (h1 : c → c05_nrel o x1) (h2 : ¬ c → c05_nrel o x2) : c05_nrel o (if c then x1 else x2) := by
  by_cases hc : c
  · rw [if_pos hc]; exact h1 hc
  · rw [if_neg hc]; exact h2 hc

theorem c05_nrel_bind (o : Option c05_DS) (x : Except Err (ReadResult × RState))
    (f : ReadResult × RState → Except Err (ReadResult × RState)) (hx : c05_nrel o x) : c05_nrel o (x >>= f) := by
  intro ho a h
  cases hxx : x with
  | error e => rw [hxx] at h; simp [bind, Except.bind] at h
  | ok b => exact hx ho b hxx

theorem c05_nrel_bindR {α} (o : Option c05_DS) (x : Except Err α)
    (f : α → Except Err (ReadResult × RState)) (hf : ∀ b, c05_nrel o (f b)) : c05_nrel o (x >>= f) := by
  intro ho a h
  cases hxx : x with
  | error e => rw [hxx] at h; simp [bind, Except.bind] at h
  | ok b => rw [hxx] at h; exact hf b ho a h

theorem c05_readFldChar_nrel (st : RState) (as : Attrs) (cs : List XmlNode) :
    c05_nrel ((c05_fldDepth st.stack.length as).map fun d => (d, st.deleted)) (readFldChar st as cs) := by
  unfold readFldChar c05_fldDepth
  dsimp only
  by_cases h1 : (attr? S!"w:fldCharType" as == some S!"begin") = true
  · rw [if_pos h1, if_pos h1]; exact c05_nrel_some _ _
  rw [if_neg h1, if_neg h1]
  by_cases h2 : (attr? S!"w:fldCharType" as == some S!"end") = true
  · rw [if_pos h2, if_pos h2]
    cases hst : st.stack with
    | nil => intro _ a h; cases h
    | cons top rest => intro ho; simp [List.length] at ho
  rw [if_neg h2, if_neg h2]
  by_cases h3 : (attr? S!"w:fldCharType" as == some S!"separate") = true
  · rw [if_pos h3, if_pos h3]
    cases hst : st.stack with
    | nil => intro _ a h; cases h
    | cons top rest => intro ho; simp [List.length] at ho
  · rw [if_neg h3, if_neg h3]; exact c05_nrel_some _ _

theorem c05_readBody_rnone (env : REnv) (ra : c05_RdAll)
    (all : c05_DS → List XmlNode → Option c05_DS)
    (ih : ∀ st ns, c05_staticL env ns = true → c05_staticL env st.deleted = true →
      c05_nrel (all (st.stack.length, st.deleted) ns) (ra st ns))
    (st : RState) (name : Str) (as : Attrs) (cs : List XmlNode)
    (hcs : c05_staticL env cs = true) (hdel : c05_staticL env st.deleted = true) :
    c05_nrel (c05_rdepthBody all (st.stack.length, st.deleted) name as cs) (c05_readBody env ra st name as cs) := by
  unfold c05_readBody c05_rdepthBody
  cases hg : handlerOf name with
  | none => exact c05_nrel_some _ _
  | some g =>
    dsimp only
    repeat' (first
      | with_reducible refine c05_nrel_ite2 _ _ _ _ _ (fun _ => ?_) (fun _ => ?_)
      | exact c05_nrel_some _ _
      | exact ih _ _ hcs hdel
      | exact ih _ _ (c05_staticL_findChild env _ cs hcs) hdel
      | exact c05_readFldChar_nrel st as cs
      | exact c05_nrel_bind _ _ _ (ih _ _ hcs hdel)
      | exact c05_nrel_bind _ _ _ (ih { st with deleted := [] } (st.deleted ++ cs)
          (by rw [c05_staticL_append, hdel, hcs]; rfl) rfl)
      | refine c05_nrel_bindR _ _ _ (fun _ => ?_)
      | exact (c05_some_none_contra (o := findChild S!"wordml:checkbox" (findChildOrNull S!"w:sdtPr" cs).2)
          (by assumption) (by assumption)).elim
      | with_reducible refine c05_nrel_iteR _ _ _ _ (fun _ => ?_) (fun _ => ?_)
      | split
      | dsimp only)

theorem c05_readAllWith_rnone (env : REnv) (rd : c05_Rd) (dp : c05_DS → XmlNode → Option c05_DS)
    (hrd : ∀ st n, c05_static env n = true → c05_staticL env st.deleted = true →
      c05_rrel (dp (st.stack.length, st.deleted) n) (rd st n))
    (hst : ∀ st n, c05_static env n = true → c05_staticL env st.deleted = true →
      c05_spec c05_allowed (c05_Q env) (rd st n))
    (hno : ∀ st n, c05_static env n = true → c05_staticL env st.deleted = true →
      c05_nrel (dp (st.stack.length, st.deleted) n) (rd st n)) :
    ∀ (ns : List XmlNode) (st : RState), c05_staticL env ns = true → c05_staticL env st.deleted = true →
      c05_nrel (c05_rdepthAllWith dp (st.stack.length, st.deleted) ns) (readAllWith rd st ns)
  | [], st, _, _ => by simp only [readAllWith, c05_rdepthAllWith]; exact c05_nrel_some _ _
  | .text _ :: rest, st, hs, hd => by
    simp only [readAllWith, c05_rdepthAllWith]
    simp only [c05_staticL, Bool.and_eq_true] at hs
    exact c05_readAllWith_rnone env rd dp hrd hst hno rest st hs.2 hd
  | .elem n as cs :: rest, st, hs, hd => by
    simp only [readAllWith, c05_rdepthAllWith]
    simp only [c05_staticL, Bool.and_eq_true] at hs
    intro ho a h
    cases hdp : dp (st.stack.length, st.deleted) (.elem n as cs) with
    | none =>
      cases h1 : rd st (.elem n as cs) with
      | error e => rw [h1] at h; simp [bind, Except.bind] at h
      | ok b => exact hno _ _ hs.1 hd hdp b h1
    | some s1 =>
      rw [hdp] at ho
      simp only [Option.bind] at ho
      cases h1 : rd st (.elem n as cs) with
      | error e => rw [h1] at h; simp [bind, Except.bind] at h
      | ok b =>
        rw [h1] at h
        simp only [bind, Except.bind] at h
        have hb := ((hrd _ _ hs.1 hd).h s1 hdp).ok b h1
        have hsb := (hst _ _ hs.1 hd).ok b h1
        have hrest := c05_readAllWith_rnone env rd dp hrd hst hno rest b.2 hs.2 hsb
        have hs1 : (b.2.stack.length, b.2.deleted) = s1 := Prod.ext hb.1 hb.2
        rw [hs1] at hrest
        cases h2 : readAllWith rd b.2 rest with
        | error e => rw [h2] at h; simp at h
        | ok c => exact hrest ho c h2

theorem c05_readElem_rnone (env : REnv) (hn : c05_numOk env) :
    ∀ (f : Nat) (st : RState) (n : XmlNode), c05_static env n = true → c05_staticL env st.deleted = true →
      c05_nrel (c05_rdepth f (st.stack.length, st.deleted) n) (readElem env f st n)
  | f, st, .text s, _, _ => by
    have : c05_rdepth f (st.stack.length, st.deleted) (.text s) = some (st.stack.length, st.deleted) := by
      cases f <;> rfl
    rw [this]; exact c05_nrel_some _ _
  | 0, st, .elem name as cs, _, _ => c05_nrel_some _ _
  | f+1, st, .elem name as cs, hs, hd => by
    rw [c05_readElem_succ]
    simp only [c05_static, Bool.and_eq_true] at hs
    show c05_nrel (c05_rdepthBody (c05_rdepthAllWith (c05_rdepth f)) (st.stack.length, st.deleted) name as cs) _
    exact c05_readBody_rnone env _ _
      (fun st ns h1 h2 => c05_readAllWith_rnone env _ _ (c05_readElem_rbal env hn f)
        (c05_readElem_specG env hn f) (c05_readElem_rnone env hn f) ns st h1 h2)
      st name as cs hs.2 hd

/-- UNBALANCED ⟹ IndexError: statically well-formed nodes, enough fuel, the depth function underflows ⟹ the
    reader fails, and the failure is `pop()` on the empty complex-field stack -/
theorem c05_readAll_unbalanced (env : REnv) (hl : c05_linksAcyclic env = true) (fuel : Nat) (st : RState)
    (ns : List XmlNode) (hs : c05_staticL env ns = true) (hd : c05_staticL env st.deleted = true)
    (hb : c05_rdepthL fuel (st.stack.length, st.deleted) ns = none)
    (hf : xmlSizeL ns + xmlSizeL st.deleted ≤ fuel) : ∃ w, readAll env fuel st ns = .error (.index w) := by
  have hn := c05_numOk_of_acyclic env hl
  have hno := c05_readAllWith_rnone env _ _ (c05_readElem_rbal env hn fuel) (c05_readElem_specG env hn fuel)
    (c05_readElem_rnone env hn fuel) ns st hs hd hb
  have hsp := c05_readAllWith_spec env _ (c05_readElem_specG env hn fuel) ns st hs hd
  have hnf := c05_readAllWith_nofuelA _ fuel (c05_readElem_nofuelA env fuel) ns st hf
  unfold readAll
  cases h : readAllWith (readElem env fuel) st ns with
  | ok a => exact absurd h (hno a)
  | error e =>
    rcases hsp.err e h with he | ⟨w, he⟩
    · exact absurd he (hnf.err e h)
    · exact ⟨w, by rw [he]⟩

end Mammoth
