/-
  C06_Parse — the parser on the intended token lists.
-/
import Proofs.C06_Escape
import Proofs.C06_Num
namespace Mammoth

/-! ### single steps -/

@[simp] theorem c06_trySkip_hit (ty : TokTy) (v : Str) (ts : List Token) :
    trySkip ty v (⟨ty, v⟩ :: ts) = some ts := by simp [trySkip]

@[simp] theorem c06_trySkip_sym (v : Str) (ts : List Token) :
    trySkip .symbol v (c06_sym v :: ts) = some ts := by simp [trySkip, c06_sym]

@[simp] theorem c06_trySkip_kw (v : Str) (ts : List Token) :
    trySkip .identifier v (c06_kw v :: ts) = some ts := by simp [trySkip, c06_kw]

@[simp] theorem c06_parseIdentifier_id (s : Str) (ts : List Token) :
    parseIdentifier (c06_id s :: ts) = some (s, ts) := by
  simp [parseIdentifier, nextValue, c06_id, c06_decode_printIdent]

@[simp] theorem c06_parseString_str (s : Str) (ts : List Token) :
    parseString (c06_str s :: ts) = some (s, ts) := by
  simp only [parseString, nextValue, c06_str]
  simp [c06_printString, c06_decode_stringBody]

/-- the head of a token list is not the symbol `v` -/
def c06_headNotSym (v : Str) : List Token → Bool
  | [] => true
  | t :: _ => !(t.ty == .symbol && t.val == v)

/-- the head of a token list is not a symbol at all -/
def c06_headNoSym : List Token → Bool
  | [] => true
  | t :: _ => t.ty != .symbol

/-- the head of a token list is the END token (or the list is empty) -/
def c06_headEnd : List Token → Bool
  | [] => true
  | t :: _ => t.ty == .end

theorem c06_headNoSym_notSym (v : Str) (ts : List Token) (h : c06_headNoSym ts = true) :
    c06_headNotSym v ts = true := by
  cases ts with
  | nil => rfl
  | cons t ts => simp [c06_headNoSym] at h; simp [c06_headNotSym, h]

theorem c06_headEnd_noSym (ts : List Token) (h : c06_headEnd ts = true) : c06_headNoSym ts = true := by
  cases ts with
  | nil => rfl
  | cons t ts => simp [c06_headEnd] at h; simp [c06_headNoSym, h]

theorem c06_trySkip_miss (v : Str) (ts : List Token) (h : c06_headNotSym v ts = true) :
    trySkip .symbol v ts = none := by
  cases ts with
  | nil => rfl
  | cons t ts => simp [c06_headNotSym] at h; simp [trySkip]; intro h1 h2; cases h <;> contradiction

/-! ### document matcher -/

theorem c06_parse_sid (sid : Option Str) (rest : List Token) (h : c06_headNotSym ['.'] rest = true) :
    tryParseClassName (c06_sidToks sid ++ rest) = some (sid, rest) := by
  cases sid with
  | none => simp [c06_sidToks, tryParseClassName, c06_trySkip_miss _ _ h]
  | some s => simp [c06_sidToks, tryParseClassName]

theorem c06_parse_sn (sn : Option StrMatch) (rest : List Token) (h : c06_headNotSym ['['] rest = true) :
    parseStyleName (c06_snToks sn ++ rest) = some (sn, rest) := by
  cases sn with
  | none => simp [c06_snToks, parseStyleName, c06_trySkip_miss _ _ h]
  | some m =>
    cases m with
    | equalTo v => simp [c06_snToks, c06_smToks, parseStyleName, parseStringMatcher]
    | startsWith v =>
      have : trySkip .symbol ['='] (c06_sym ['^', '='] :: c06_str v :: c06_sym [']'] :: rest) = none := by
        simp [trySkip, c06_sym]
      simp [c06_snToks, c06_smToks, parseStyleName, parseStringMatcher, this]

theorem c06_parse_num (num : Option c06_Level) (rest : List Token) (hok : c06_levelOK num = true)
    (h : c06_headNotSym [':'] rest = true) :
    parseNumbering (c06_numToks num ++ rest) = some (num.map c06_denoteLevel, rest) := by
  cases num with
  | none => simp [c06_numToks, parseNumbering, c06_trySkip_miss _ _ h]
  | some l =>
    simp only [c06_levelOK, Bool.and_eq_true, decide_eq_true_eq] at hok
    have hlen : ¬ (c06_printNat l.n).length > maxStrDigits := by omega
    obtain ⟨o, n⟩ := l
    cases o <;>
      simp [c06_numToks, parseNumbering, nextValue, c06_kw, c06_listWord, hlen, c06_denoteLevel,
        c06_levelIndexOf_printNat _ hok.1]

theorem c06_parse_bracket (key v : Str) (rest : List Token) :
    parseBracketString key (c06_bracketToks key v ++ rest) = some (v, rest) := by
  simp [parseBracketString, c06_bracketToks]

theorem c06_headNotSym_sn (v : Str) (hv : v ≠ ['[']) (sn : Option StrMatch) (rest : List Token)
    (h : c06_headNotSym v rest = true) : c06_headNotSym v (c06_snToks sn ++ rest) = true := by
  cases sn with
  | none => simpa [c06_snToks] using h
  | some m => simp [c06_snToks, c06_headNotSym, c06_sym]; intro h'; exact absurd h'.symm hv

theorem c06_headNotSym_num (v : Str) (hv : v ≠ [':']) (num : Option c06_Level) (rest : List Token)
    (h : c06_headNotSym v rest = true) : c06_headNotSym v (c06_numToks num ++ rest) = true := by
  cases num with
  | none => simpa [c06_numToks] using h
  | some m => simp [c06_numToks, c06_headNotSym, c06_sym]; intro h'; exact absurd h'.symm hv

/-- the matcher parser on the intended tokens, followed by anything that does not start with a symbol -/
theorem c06_parse_matcher (m : c06_Matcher) (rest : List Token) (hok : c06_matcherOK m = true)
    (h : c06_headNoSym rest = true) :
    parseDocumentMatcher (c06_matcherToks m ++ rest) = some (c06_denoteMatcher m, rest) := by
  have hn := fun v => c06_headNoSym_notSym v rest h
  cases m with
  | paragraph sid sn num =>
    simp only [c06_matcherOK, Bool.and_eq_true] at hok
    simp only [c06_matcherToks, c06_kw, List.cons_append, parseDocumentMatcher, List.append_assoc]
    simp [c06_parse_sid sid _ (c06_headNotSym_sn _ (by decide) sn _ (c06_headNotSym_num _ (by decide) num _ (hn _))),
      c06_parse_sn sn _ (c06_headNotSym_num _ (by decide) num _ (hn _)),
      c06_parse_num num _ hok.2 (hn _), c06_denoteMatcher]
  | run sid sn =>
    simp only [c06_matcherToks, c06_kw, List.cons_append, parseDocumentMatcher, List.append_assoc]
    simp [c06_parse_sid sid _ (c06_headNotSym_sn _ (by decide) sn _ (hn _)),
      c06_parse_sn sn _ (hn _), c06_denoteMatcher]
  | table sid sn =>
    simp only [c06_matcherToks, c06_kw, List.cons_append, parseDocumentMatcher, List.append_assoc]
    simp [c06_parse_sid sid _ (c06_headNotSym_sn _ (by decide) sn _ (hn _)),
      c06_parse_sn sn _ (hn _), c06_denoteMatcher]
  | highlight c =>
    cases c with
    | none =>
      simp [c06_matcherToks, c06_kw, parseDocumentMatcher, c06_trySkip_miss _ _ (hn _), c06_denoteMatcher]
    | some c =>
      simp [c06_matcherToks, c06_kw, parseDocumentMatcher, c06_parse_bracket, c06_denoteMatcher,
        show trySkip .symbol ['['] (c06_bracketToks S!"color" c ++ rest) = some
          (c06_kw S!"color" :: c06_sym ['='] :: c06_str c :: c06_sym [']'] :: rest) from by simp [c06_bracketToks]]
  | brk ty =>
    cases ty <;>
      simp [c06_matcherToks, c06_kw, parseDocumentMatcher, c06_parse_bracket, c06_denoteMatcher, c06_Brk.str]
  | _ => simp [c06_matcherToks, c06_kw, parseDocumentMatcher, c06_denoteMatcher]

/-! ### HTML path -/

theorem c06_altToks_length (as : List Str) : (c06_altToks as).length = 2 * as.length := by
  induction as with
  | nil => rfl
  | cons a as ih => simp [c06_altToks, ih]; omega

theorem c06_eventToks_length (evs : List AttrOrClass) : evs.length ≤ (c06_eventToks evs).length := by
  induction evs with
  | nil => simp
  | cons e evs ih => cases e <;> simp [c06_eventToks] <;> omega

theorem c06_parse_alts (as : List Str) : ∀ (f : Nat) (rest : List Token), as.length ≤ f →
    c06_headNotSym ['|'] rest = true → parseAlts f (c06_altToks as ++ rest) = some (as, rest) := by
  induction as with
  | nil =>
    intro f rest _ h
    cases f with
    | zero => simp [parseAlts, c06_altToks]
    | succ f => simp [parseAlts, c06_altToks, c06_trySkip_miss _ _ h]
  | cons a as ih =>
    intro f rest hf h
    cases f with
    | zero => simp at hf
    | succ f =>
      have := ih f rest (by simpa using hf) h
      simp [parseAlts, c06_altToks, this]

theorem c06_parseAttrs_stop (f : Nat) (rest : List Token) (h1 : c06_headNotSym ['['] rest = true)
    (h2 : c06_headNotSym ['.'] rest = true) : parseAttrs f rest = some ([], rest) := by
  cases f with
  | zero => simp [parseAttrs]
  | succ f =>
    unfold parseAttrs
    split
    · simp [c06_headNotSym] at h1
    · simp [c06_headNotSym] at h2
    · rfl

theorem c06_parse_events (evs : List AttrOrClass) : ∀ (f : Nat) (rest : List Token), evs.length ≤ f →
    c06_headNotSym ['['] rest = true → c06_headNotSym ['.'] rest = true →
    parseAttrs f (c06_eventToks evs ++ rest) = some (evs, rest) := by
  induction evs with
  | nil => intro f rest _ h1 h2; simpa [c06_eventToks] using c06_parseAttrs_stop f rest h1 h2
  | cons e evs ih =>
    intro f rest hf h1 h2
    cases f with
    | zero => simp at hf
    | succ f =>
      have := ih f rest (by simpa using hf) h1 h2
      cases e with
      | attr n v => simp [parseAttrs, c06_eventToks, c06_sym, this]
      | cls c => simp [parseAttrs, c06_eventToks, c06_sym, this]

theorem c06_colonWord_miss (w : Str) (rest : List Token) (h : c06_headNotSym [':'] rest = true) :
    trySkipColonWord w rest = none := by
  unfold trySkipColonWord
  split
  · simp [c06_headNotSym] at h
  · rfl

theorem c06_headNotSym_alts (v : Str) (hv : v ≠ ['|']) (as : List Str) (rest : List Token)
    (h : c06_headNotSym v rest = true) : c06_headNotSym v (c06_altToks as ++ rest) = true := by
  cases as with
  | nil => simpa [c06_altToks] using h
  | cons a as => simp [c06_altToks, c06_headNotSym, c06_sym]; intro h'; exact absurd h'.symm hv

theorem c06_headNotSym_events (v : Str) (hv1 : v ≠ ['[']) (hv2 : v ≠ ['.']) (evs : List AttrOrClass)
    (rest : List Token) (h : c06_headNotSym v rest = true) :
    c06_headNotSym v (c06_eventToks evs ++ rest) = true := by
  cases evs with
  | nil => simpa [c06_eventToks] using h
  | cons e evs =>
    cases e with
    | attr n w => simp [c06_eventToks, c06_headNotSym, c06_sym]; intro h'; exact absurd h'.symm hv1
    | cls c => simp [c06_eventToks, c06_headNotSym, c06_sym]; intro h'; exact absurd h'.symm hv2

theorem c06_headNotSym_fresh (v : Str) (hv : v ≠ [':']) (b : Bool) (rest : List Token)
    (h : c06_headNotSym v rest = true) : c06_headNotSym v (c06_freshToks b ++ rest) = true := by
  cases b with
  | false => simpa [c06_freshToks] using h
  | true => simp [c06_freshToks, c06_headNotSym, c06_sym]; intro h'; exact absurd h'.symm hv

theorem c06_headNotSym_sep (v : Str) (hv : v ≠ [':']) (s : Option Str) (rest : List Token)
    (h : c06_headNotSym v rest = true) : c06_headNotSym v (c06_sepToks s ++ rest) = true := by
  cases s with
  | none => simpa [c06_sepToks] using h
  | some s => simp [c06_sepToks, c06_headNotSym, c06_sym]; intro h'; exact absurd h'.symm hv

/-- `:fresh` then `:separator('…')` -/
theorem c06_parse_fresh (b : Bool) (s : Option Str) (rest : List Token) (h : c06_headNoSym rest = true) :
    trySkipColonWord S!"fresh" (c06_freshToks b ++ (c06_sepToks s ++ rest)) =
      if b then some (c06_sepToks s ++ rest) else none := by
  cases b with
  | true => simp [c06_freshToks, trySkipColonWord, c06_sym, c06_kw]
  | false =>
    cases s with
    | none => simpa [c06_freshToks, c06_sepToks] using c06_colonWord_miss _ rest (c06_headNoSym_notSym _ _ h)
    | some s => simp [c06_freshToks, c06_sepToks, trySkipColonWord, c06_sym, c06_kw]

theorem c06_parse_sep (s : Option Str) (rest : List Token) (h : c06_headNoSym rest = true) :
    trySkipColonWord S!"separator" (c06_sepToks s ++ rest) =
      s.map (fun v => c06_sym ['('] :: c06_str v :: c06_sym [')'] :: rest) := by
  cases s with
  | none => simpa [c06_sepToks] using c06_colonWord_miss _ rest (c06_headNoSym_notSym _ _ h)
  | some s => simp [c06_sepToks, trySkipColonWord, c06_sym, c06_kw]

/-- one element, followed by anything that does not start with a symbol -/
theorem c06_parse_elem (e : c06_Elem) (f : Nat) (rest : List Token) (hf1 : e.alts.length ≤ f)
    (hf2 : e.events.length ≤ f) (h : c06_headNoSym rest = true) :
    parseElement f (c06_elemToks e ++ rest) = some (c06_denoteElem e, rest) := by
  have hn := fun v => c06_headNoSym_notSym v rest h
  obtain ⟨name, alts, events, fresh, sep⟩ := e
  simp only at hf1 hf2
  have hA := c06_parse_alts alts f
    (c06_eventToks events ++ (c06_freshToks fresh ++ (c06_sepToks sep ++ rest))) hf1
    (c06_headNotSym_events _ (by decide) (by decide) _ _
      (c06_headNotSym_fresh _ (by decide) _ _ (c06_headNotSym_sep _ (by decide) _ _ (hn _))))
  have hE := c06_parse_events events f (c06_freshToks fresh ++ (c06_sepToks sep ++ rest)) hf2
    (c06_headNotSym_fresh _ (by decide) _ _ (c06_headNotSym_sep _ (by decide) _ _ (hn _)))
    (c06_headNotSym_fresh _ (by decide) _ _ (c06_headNotSym_sep _ (by decide) _ _ (hn _)))
  have hF := c06_parse_fresh fresh sep rest h
  have hS := c06_parse_sep sep rest h
  simp only [parseElement, c06_elemToks, List.cons_append, List.append_assoc, c06_parseIdentifier_id,
    Option.bind_eq_bind, Option.bind_some, hA, hE, hF]
  cases fresh <;> cases sep <;>
    simp only [c06_freshToks, Bool.false_eq_true, if_false, if_true, List.nil_append, hS, Option.map] <;>
    simp [c06_denoteElem, c06_sepToks]

theorem c06_elemToks_length (e : c06_Elem) :
    e.alts.length + e.events.length + 1 ≤ (c06_elemToks e).length := by
  have h1 := c06_altToks_length e.alts
  have h2 := c06_eventToks_length e.events
  simp [c06_elemToks]; omega

theorem c06_headNoSym_more (es : List c06_Elem) (rest : List Token) (h : c06_headEnd rest = true) :
    c06_headNoSym (c06_moreToks es ++ rest) = true := by
  cases es with
  | nil => simpa [c06_moreToks] using c06_headEnd_noSym rest h
  | cons e es => simp [c06_moreToks, c06_headNoSym, c06_sp]

theorem c06_parseMore_stop (f : Nat) (rest : List Token) (h : c06_headEnd rest = true) :
    parseMoreElements f rest = some ([], rest) := by
  cases f with
  | zero => simp [parseMoreElements]
  | succ f =>
    unfold parseMoreElements
    split
    · simp [c06_headEnd] at h
    · rfl

/-- ` > element` repeated; fuel = number of tokens suffices -/
theorem c06_parse_more (es : List c06_Elem) : ∀ (f : Nat) (rest : List Token),
    (c06_moreToks es).length ≤ f → c06_headEnd rest = true →
    parseMoreElements f (c06_moreToks es ++ rest) = some (es.map c06_denoteElem, rest) := by
  induction es with
  | nil => intro f rest _ h; simpa [c06_moreToks] using c06_parseMore_stop f rest h
  | cons e es ih =>
    intro f rest hf h
    have hl := c06_elemToks_length e
    simp only [c06_moreToks, List.length_cons, List.length_append] at hf
    cases f with
    | zero => omega
    | succ f =>
      have hE := c06_parse_elem e (f + 1) (c06_moreToks es ++ rest) (by omega) (by omega)
        (c06_headNoSym_more es rest h)
      have hM := ih f rest (by omega) h
      simp [parseMoreElements, c06_moreToks, c06_sp, c06_sym, trySkipTy, hE, hM]

theorem c06_headEnd_end (ts : List Token) : c06_headEnd (c06_end :: ts) = true := rfl

/-- the path parser on the intended tokens followed by END -/
theorem c06_parse_path (p : c06_Path) (f : Nat) (rest : List Token) (hf : (c06_pathToks p).length ≤ f)
    (h : c06_headEnd rest = true) :
    parseHtmlPath f (c06_pathToks p ++ rest) = some (c06_denotePath p, rest) := by
  cases p with
  | ignore => simp [c06_pathToks, parseHtmlPath, c06_denotePath]
  | elems es =>
    cases es with
    | nil =>
      have h1 := c06_trySkip_miss ['!'] rest (c06_headNoSym_notSym _ _ (c06_headEnd_noSym _ h))
      simp only [c06_pathToks, List.nil_append, parseHtmlPath, h1, c06_denotePath, List.map_nil]
      split
      · simp [c06_headEnd] at h
      · rfl
    | cons e es =>
      have hl := c06_elemToks_length e
      simp only [c06_pathToks, List.length_append] at hf
      have hE := c06_parse_elem e f (c06_moreToks es ++ rest) (by omega) (by omega)
        (c06_headNoSym_more es rest h)
      have hM := c06_parse_more es f rest (by omega) h
      have h1 : trySkip .symbol ['!'] (c06_elemToks e ++ (c06_moreToks es ++ rest)) = none := by
        simp [c06_elemToks, trySkip, c06_id]
      simp only [c06_pathToks, List.append_assoc, parseHtmlPath, h1]
      rw [show c06_elemToks e ++ (c06_moreToks es ++ rest) =
        ⟨.identifier, c06_printIdent e.name⟩ :: ((c06_altToks e.alts ++ (c06_eventToks e.events ++
          (c06_freshToks e.fresh ++ c06_sepToks e.sep))) ++ (c06_moreToks es ++ rest)) from by
        simp [c06_elemToks, c06_id]]
      simp only []
      rw [show (⟨.identifier, c06_printIdent e.name⟩ : Token) :: ((c06_altToks e.alts ++ (c06_eventToks e.events ++
          (c06_freshToks e.fresh ++ c06_sepToks e.sep))) ++ (c06_moreToks es ++ rest)) =
          c06_elemToks e ++ (c06_moreToks es ++ rest) from by simp [c06_elemToks, c06_id]]
      simp [hE, hM, c06_denotePath]

theorem c06_skipWs_path (p : c06_Path) (rest : List Token) :
    trySkipTy .whitespace (c06_pathToks p ++ c06_end :: rest) = none := by
  cases p with
  | ignore => simp [c06_pathToks, trySkipTy, c06_sym]
  | elems es =>
    cases es with
    | nil => simp [c06_pathToks, trySkipTy, c06_end]
    | cons e es => simp [c06_pathToks, c06_elemToks, trySkipTy, c06_id]

/-- the whole parser on the intended token list -/
theorem c06_parse_tokens (sp : Bool) (m : c06_Mapping) (hok : c06_expressible m = true) :
    parseStyleMapping (c06_tokens sp m ++ [c06_end]) = some (c06_denote m) := by
  simp only [c06_expressible, Bool.and_eq_true] at hok
  have hM := c06_parse_matcher m.matcher
    (c06_sp :: c06_sym ['=', '>'] :: ((if sp then [c06_sp] else []) ++ c06_pathToks m.path) ++ [c06_end])
    hok.1 (by simp [c06_headNoSym, c06_sp])
  have hP := c06_parse_path m.path (c06_tokens sp m ++ [c06_end]).length [c06_end]
    (by simp [c06_tokens]; omega) rfl
  unfold parseStyleMapping
  simp only [c06_tokens, List.append_assoc, List.cons_append] at hM hP ⊢
  rw [hM]
  cases sp with
  | true =>
    simp only [if_true, List.cons_append, List.nil_append] at hP ⊢
    simp [c06_sp, c06_sym, trySkipTy, trySkip, c06_end] at hP ⊢
    simp [hP, c06_denote]
  | false =>
    simp only [Bool.false_eq_true, if_false, List.nil_append] at hP ⊢
    have hw := c06_skipWs_path m.path []
    simp [c06_sp, c06_sym, trySkipTy, trySkip, c06_end] at hP hw ⊢
    simp [hP, hw, c06_denote]

end Mammoth
