/-
  C17 — composition: from the XML of a story, through reader, converter, `strip_empty`, `collapse` and
  the writer, to the `<img … />` tags of the HTML text, for the default image converter (`data_uri`).
-/
import Proofs.C17_ReadImages
import Proofs.C17_VisitDoc
import Proofs.C17_RenderVisit
import Proofs.C02_ConvertNames
import Proofs.C01_Plain
namespace Mammoth

/-! ### without `!` mappings every image is visible -/

mutual
theorem c17_visImages_noIgnore (cfg : Cfg) (hm : c01_noIgnoreMap cfg = true) (e : Elem) :
    c17_visImages cfg e = c17_elemImages e := by
  match e with
  | .paragraph p cs =>
    simp only [c17_visImages, c17_elemImages, c01_noIgnore_path cfg hm, Bool.false_eq_true, if_false]
    exact c17_visImagesL_noIgnore cfg hm cs
  | .run r cs =>
    simp only [c17_visImages, c17_elemImages, c01_noIgnore_runPaths cfg hm, Bool.false_eq_true, if_false]
    exact c17_visImagesL_noIgnore cfg hm cs
  | .table sid sname rows =>
    simp only [c17_visImages, c17_elemImages, c01_noIgnore_path cfg hm, Bool.false_eq_true, if_false]
    exact c17_visImagesL_noIgnore cfg hm rows
  | .hyperlink _ cs => simp only [c17_visImages, c17_elemImages]; exact c17_visImagesL_noIgnore cfg hm cs
  | .row _ cs => simp only [c17_visImages, c17_elemImages]; exact c17_visImagesL_noIgnore cfg hm cs
  | .cell _ _ _ cs => simp only [c17_visImages, c17_elemImages]; exact c17_visImagesL_noIgnore cfg hm cs
  | .image i => simp [c17_visImages, c17_elemImages]
  | .text _ => simp [c17_visImages, c17_elemImages]
  | .tab => simp [c17_visImages, c17_elemImages]
  | .noteRef _ _ => simp [c17_visImages, c17_elemImages]
  | .commentRef _ => simp [c17_visImages, c17_elemImages]
  | .checkbox _ => simp [c17_visImages, c17_elemImages]
  | .brk _ => simp [c17_visImages, c17_elemImages]
  | .bookmark _ => simp [c17_visImages, c17_elemImages]
theorem c17_visImagesL_noIgnore (cfg : Cfg) (hm : c01_noIgnoreMap cfg = true) (es : List Elem) :
    c17_visImagesL cfg es = c17_elemImagesL es := by
  match es with
  | [] => simp [c17_visImagesL]
  | e :: es =>
    simp only [c17_visImagesL, c17_elemImagesL_cons, c17_visImages_noIgnore cfg hm e,
      c17_visImagesL_noIgnore cfg hm es]
end

/-- all images of a document in output order: body, rendered notes, rendered comments -/
def c17_docAllImages (cfg : Cfg) (d : Document) : List ImageProps :=
  c17_elemImagesL d.children ++
  (c10_docNotes cfg d).flatMap (fun n => c17_elemImagesL n.body) ++
  (c10_docComments cfg d).flatMap (fun c => c17_elemImagesL c.body)

theorem c17_docImages_noIgnore (cfg : Cfg) (hm : c01_noIgnoreMap cfg = true) (d : Document) :
    c17_docImages cfg d = c17_docAllImages cfg d := by
  unfold c17_docImages c17_docAllImages
  simp only [c17_visImagesL_noIgnore cfg hm]

/-! ### what the reader of the HTML sees of an `img` -/

/-- the `src` and `alt` attributes of a tag -/
def c17_srcAltOf (attrs : List (Str × Str)) : Option Str × Option Str :=
  (Dict.get? S!"src" attrs, Dict.get? S!"alt" attrs)

/-- the alt text that reaches the output: an empty one is left out -/
def c17_altOut (i : ImageProps) : Option Str :=
  match i.altText with
  | some a => if a.isEmpty then none else some a
  | none => none

/-- what the default converter must produce for an image whose bytes can be read: `src` = the data URI
    of exactly those bytes under the image's content type, `alt` = its alt text -/
def c17_expected (cfg : Cfg) (i : ImageProps) : Option (Option Str × Option Str) :=
  (c17_opened cfg i.src).map fun bytes => (some (c17_dataUri i bytes), c17_altOut i)

theorem c17_srcAlt_dataUri (i : ImageProps) (src : Str) :
    c17_srcAltOf (c17_imgTag (c17_altAttr i ++ [(S!"src", src)])).attrs = (some src, c17_altOut i) := by
  unfold c17_srcAltOf c17_imgTag c17_altOut
  simp only [c17_get_ofList, c17_lookupLast_append]
  refine Prod.ext ?_ ?_
  · simp [lookupLast]
  · unfold c17_altAttr
    cases i.altText with
    | none => simp [lookupLast]
    | some a => by_cases ha : a.isEmpty <;> simp [lookupLast, ha]

theorem c17_imgOf_dataUri (cfg : Cfg) (hc : cfg.imageConv = .dataUri) (i : ImageProps) :
    (c17_imgOf cfg i).map (fun t => c17_srcAltOf t.attrs) = (c17_expected cfg i).toList := by
  unfold c17_imgOf c17_expected
  simp only [hc]
  cases c17_opened cfg i.src with
  | none => rfl
  | some b => simp [c17_srcAlt_dataUri]

theorem c17_imgsOf_dataUri (cfg : Cfg) (hc : cfg.imageConv = .dataUri) (is : List ImageProps) :
    (is.flatMap (c17_imgOf cfg)).map (fun t => c17_srcAltOf t.attrs) = is.filterMap (c17_expected cfg) := by
  induction is with
  | nil => rfl
  | cons i is ih =>
    simp only [List.flatMap_cons, List.map_append, ih, c17_imgOf_dataUri cfg hc i, List.filterMap_cons]
    cases c17_expected cfg i <;> simp

/-- every image can be read: embedded ones are in the archive, linked ones exist in the outside world -/
def c17_allPresent (cfg : Cfg) (is : List ImageProps) : Bool := is.all fun i => (c17_opened cfg i.src).isSome

theorem c17_expected_length (cfg : Cfg) (is : List ImageProps) (h : c17_allPresent cfg is = true) :
    (is.filterMap (c17_expected cfg)).length = is.length := by
  induction is with
  | nil => rfl
  | cons i is ih =>
    simp only [c17_allPresent, List.all_cons, Bool.and_eq_true] at h
    unfold c17_expected
    cases ho : c17_opened cfg i.src with
    | none => rw [ho] at h; cases h.1
    | some b =>
      simp only [List.filterMap_cons, ho, Option.map_some, List.length_cons]
      have := ih h.2
      unfold c17_expected at this
      rw [this]

/-! ### the composition -/

/-- reader + converter + rendering, for a story `ns` read as the body of a document with the given (already
    read) notes and comments -/
theorem c17_xml_to_imgs (env : REnv) (fuel : Nat) (ns : List XmlNode) (r : ReadResult) (st' : RState)
    (h : readAll env fuel {} ns = .ok (r, st')) (hv : c01_noVMergeL ns = true)
    (cfg : Cfg) (hconv : cfg.imageConv = .dataUri) (hig : c01_noIgnoreMap cfg = true)
    (hi : c17_noImgMap cfg = true) (hp : c02_plainCfg cfg = true)
    (notes : List Note) (comments : List Comment) (res : ConvResult)
    (hr : convertDoc cfg { children := r.elements, notes := notes, comments := comments } = .ok res) :
    ∃ toks, c02_lexHtml (render res.nodes) = some toks ∧
      c17_tokImgs toks = c17_tokVoidImgs toks ∧
      (c17_tokVoidImgs toks).map c17_srcAltOf =
        (c17_storyImages env ns ++
          (c10_docNotes { cfg with comments := comments } ⟨r.elements, notes, comments⟩).flatMap
            (fun n => c17_elemImagesL n.body) ++
          (c10_docComments { cfg with comments := comments } ⟨r.elements, notes, comments⟩).flatMap
            (fun c => c17_elemImagesL c.body)).filterMap (c17_expected cfg) ∧
      res.imageCalls =
        c17_storyImages env ns ++
          (c10_docNotes { cfg with comments := comments } ⟨r.elements, notes, comments⟩).flatMap
            (fun n => c17_elemImagesL n.body) ++
          (c10_docComments { cfg with comments := comments } ⟨r.elements, notes, comments⟩).flatMap
            (fun c => c17_elemImagesL c.body) := by
  -- reader
  have p := c17_readAll_images env fuel {} ns r st' h
  have hs := p.sim
  rw [show c17_pend env ({} : RState).deleted = [] from c17_pend_nil env] at hs
  have hv' : (c01_noVMergeL ({} : RState).deleted && c01_noVMergeL ns) = true := by
    rw [hv]; rfl
  rw [hv'] at hs
  have hread : c17_elemImagesL r.elements = c17_storyImages env ns := c17_Pre_eq hs.1
  -- converter
  obtain ⟨hcalls, himgs⟩ := c17_convertDoc_images cfg _ res hr
  have himgs := himgs hi
  have hdoc : c17_docImages (c10_docCfg cfg ⟨r.elements, notes, comments⟩) ⟨r.elements, notes, comments⟩ =
      c17_storyImages env ns ++
        (c10_docNotes { cfg with comments := comments } ⟨r.elements, notes, comments⟩).flatMap
          (fun n => c17_elemImagesL n.body) ++
        (c10_docComments { cfg with comments := comments } ⟨r.elements, notes, comments⟩).flatMap
          (fun c => c17_elemImagesL c.body) := by
    rw [c17_docImages_noIgnore (c10_docCfg cfg _) hig]
    unfold c17_docAllImages
    rw [hread]
    rfl
  rw [hdoc] at hcalls himgs
  -- rendering
  have hplain := c02_plain_convertDoc cfg hp _ res hr
  have hgood := c17_good_convertDoc cfg hi _ res hr
  obtain ⟨toks, hl, h1, h2⟩ := c17_written_imgs res.nodes hplain hgood
  refine ⟨toks, hl, h1.trans h2.symm, ?_, hcalls⟩
  rw [h2, himgs, List.map_map]
  exact c17_imgsOf_dataUri cfg hconv _

end Mammoth
