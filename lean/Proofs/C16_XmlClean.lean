/-
  C16, reader half — clean XML is silent.

  `c16_xmlClean env n` is a decidable predicate on the XML tree: the tree is made only of supported
  constructs (every element has a reader or is on the ignore list), every paragraph / run / table style id
  is defined in `styles.xml`, breaks and symbols are supported, every picture resolves to an image of a
  type browsers show, and the direct content of every table is rows, of every row cells (judged statically
  by `c16_gridOk`, which does not accept field characters there).

  `c16_xmlQuiet`: on a clean tree the specification reports nothing, in every field state and with every
  silent buffer, and leaves a silent buffer.
-/
import Proofs.C16_ReadSpec
namespace Mammoth

/-! ### the predicate -/

def c16_xStyleOk (propsTag tag : Str) (table : List (Option Str × Option Str)) (cs : List XmlNode) : Bool :=
  match childAttr tag S!"w:val" (findChildOrNull propsTag cs).2 with
  | none => true
  | some sid => (lookupLast (some sid) table).isSome

def c16_breakOk (as : Attrs) : Bool :=
  match attr? S!"w:type" as with
  | none => true
  | some t => decide (t = [] ∨ t = S!"textWrapping" ∨ t = S!"page" ∨ t = S!"column")

def c16_xImageOk (env : REnv) (path : Str) : Bool :=
  match findContentType env.contentTypes path with
  | some c => decide (c ∈ Generated.browserImageTypes)
  | none => false

def c16_embeddedOk (env : REnv) (rid : Str) : Bool :=
  match env.rels.targetById rid with
  | .ok target => c16_xImageOk env (uriToZipEntryName S!"word" target)
  | .error _ => false

def c16_blipOk (env : REnv) (as : Attrs) : Bool :=
  match attr? S!"r:embed" as with
  | some rid => c16_embeddedOk env rid
  | none =>
    match attr? S!"r:link" as with
    | some rid =>
      (match env.rels.targetById rid with
       | .ok target => c16_xImageOk env target
       | .error _ => false)
    | none => false

def c16_imagedataOk (env : REnv) (as : Attrs) : Bool :=
  match attr? S!"r:id" as with
  | none => false
  | some rid => c16_embeddedOk env rid

mutual
/-- read as the content of a table (`cells = false`) or of a row (`cells = true`), the node contributes
    only rows / only cells — or nothing: judged from the element names alone -/
def c16_gridOk (cells : Bool) : XmlNode → Bool
  | .text _ => true
  | .elem name as cs =>
    match c16_kindOf name with
    | .unknown => true
    | .instrText => true
    | .pict => true
    | .row => !cells
    | .cell => cells
    | .through => c16_gridOkL cells cs
    | .hyperlink => !((attr? S!"r:id" as).isSome || (attr? S!"w:anchor" as).isSome) && c16_gridOkL cells cs
    | .alt => c16_gridOkIn cells S!"mc:Fallback" cs
    | .sdt => !c16_isCheckboxSdt cs && c16_gridOkIn cells S!"w:sdtContent" cs
    | _ => false
def c16_gridOkL (cells : Bool) : List XmlNode → Bool
  | [] => true
  | c :: cs => c16_gridOk cells c && c16_gridOkL cells cs
def c16_gridOkIn (cells : Bool) (child : Str) : List XmlNode → Bool
  | [] => true
  | .text _ :: rest => c16_gridOkIn cells child rest
  | .elem n _ cs :: rest => if n = child then c16_gridOkL cells cs else c16_gridOkIn cells child rest
end

mutual
/-- MADE ONLY OF SUPPORTED CONSTRUCTS WITH DEFINED STYLES -/
def c16_xmlClean (env : REnv) : XmlNode → Bool
  | .text _ => true
  | .elem name as cs =>
    match c16_kindOf name with
    | .unknown => decide (name ∈ Generated.ignored)
    | .atom => true
    | .sym => (c16_symChar as).isSome
    | .br => c16_breakOk as
    | .bookmark => true
    | .fldChar => true
    | .instrText => true
    | .inline => (c16_blips cs).all (c16_blipOk env)
    | .imagedata => c16_imagedataOk env as
    | .run => c16_xStyleOk S!"w:rPr" S!"w:rStyle" env.styles.character cs && c16_xmlCleanL env cs
    | .paragraph => c16_xStyleOk S!"w:pPr" S!"w:pStyle" env.styles.paragraph cs && c16_xmlCleanL env cs
    | .table =>
      c16_xStyleOk S!"w:tblPr" S!"w:tblStyle" env.styles.table cs && c16_xmlCleanL env cs && c16_gridOkL false cs
    | .row => c16_xmlCleanL env cs && c16_gridOkL true cs
    | .cell => c16_xmlCleanL env cs
    | .through => c16_xmlCleanL env cs
    | .pict => c16_xmlCleanL env cs
    | .hyperlink => c16_xmlCleanL env cs
    | .alt => c16_xmlCleanIn env S!"mc:Fallback" cs
    | .sdt => c16_isCheckboxSdt cs || c16_xmlCleanIn env S!"w:sdtContent" cs
def c16_xmlCleanL (env : REnv) : List XmlNode → Bool
  | [] => true
  | c :: cs => c16_xmlClean env c && c16_xmlCleanL env cs
def c16_xmlCleanIn (env : REnv) (child : Str) : List XmlNode → Bool
  | [] => true
  | .text _ :: rest => c16_xmlCleanIn env child rest
  | .elem n _ cs :: rest => if n = child then c16_xmlCleanL env cs else c16_xmlCleanIn env child rest
end

theorem c16_xmlCleanL_append (env : REnv) (a b : List XmlNode) :
    c16_xmlCleanL env (a ++ b) = (c16_xmlCleanL env a && c16_xmlCleanL env b) := by
  induction a with
  | nil => simp [c16_xmlCleanL]
  | cons x xs ih => simp [c16_xmlCleanL, ih, Bool.and_assoc]

/-! ### local conditions imply no local warning -/

theorem c16_xStyleOk_warn (kind propsTag tag : Str) (table : List (Option Str × Option Str)) (cs : List XmlNode)
    (h : c16_xStyleOk propsTag tag table cs = true) : c16_styleWarn kind propsTag tag table cs = [] := by
  unfold c16_xStyleOk at h
  unfold c16_styleWarn
  split
  · rfl
  · rename_i sid hs
    rw [hs] at h
    simp only at h
    rw [if_pos h]

theorem c16_breakOk_warn (as : Attrs) (h : c16_breakOk as = true) : c16_breakWarn as = [] := by
  unfold c16_breakOk at h
  unfold c16_breakWarn
  split
  · rfl
  · rename_i t ht
    rw [ht] at h
    simp only [decide_eq_true_eq] at h
    rw [if_pos h]

theorem c16_xImageOk_warn (env : REnv) (path : Str) (h : c16_xImageOk env path = true) : c16_imageWarn env path = [] := by
  unfold c16_xImageOk at h
  unfold c16_imageWarn
  split
  · rename_i c hc
    rw [hc] at h
    simp only [decide_eq_true_eq] at h
    rw [if_pos h]
  · rename_i hc
    rw [hc] at h; cases h

theorem c16_embeddedOk_warn (env : REnv) (rid : Str) (h : c16_embeddedOk env rid = true) :
    c16_embeddedWarn env rid = [] := by
  unfold c16_embeddedOk at h
  unfold c16_embeddedWarn
  split
  · rename_i t ht
    rw [ht] at h
    exact c16_xImageOk_warn env _ h
  · rfl

theorem c16_blipOk_warn (env : REnv) (as : Attrs) (h : c16_blipOk env as = true) : c16_blipWarn env as = [] := by
  unfold c16_blipOk at h
  unfold c16_blipWarn
  split
  · rename_i rid hr
    rw [hr] at h
    exact c16_embeddedOk_warn env rid h
  · rename_i hr
    rw [hr] at h
    split
    · rename_i rid hl
      rw [hl] at h
      simp only at h
      split
      · rename_i t ht
        rw [ht] at h
        exact c16_xImageOk_warn env _ h
      · rfl
    · rename_i hl
      rw [hl] at h; cases h

theorem c16_blipsOk_warn (env : REnv) (bl : List Attrs) (h : bl.all (c16_blipOk env) = true) :
    c16_blipsWarn env bl = [] := by
  induction bl with
  | nil => rfl
  | cons a bl ih =>
    simp only [List.all_cons, Bool.and_eq_true] at h
    simp [c16_blipsWarn, c16_blipOk_warn env a h.1, ih h.2]

theorem c16_imagedataOk_warn (env : REnv) (as : Attrs) (h : c16_imagedataOk env as = true) :
    c16_imagedataWarn env as = [] := by
  unfold c16_imagedataOk at h
  unfold c16_imagedataWarn
  split
  · rename_i hr
    rw [hr] at h; cases h
  · rename_i rid hr
    rw [hr] at h
    exact c16_embeddedOk_warn env rid h

/-! ### clean trees are silent -/

/-- nothing deferred reports anything -/
def c16_BufSilent (b : c16_Buf) : Prop := ∀ k fs, (b k fs).msgs = []

theorem c16_BufSilent_noBuf : c16_BufSilent c16_noBuf := fun _ _ => rfl

theorem c16_BufSilent_tail {b : c16_Buf} (h : c16_BufSilent b) : c16_BufSilent (c16_bufTail b) :=
  fun k fs => h (k + 1) fs

theorem c16_BufSilent_cons {e : c16_Eff} {b : c16_Buf} (he : ∀ fs, (e fs).msgs = []) (h : c16_BufSilent b) :
    c16_BufSilent (c16_bufCons e b) := by
  intro k fs
  cases k with
  | zero => exact he fs
  | succ k => exact h k fs

/-- the step reports nothing, leaves nothing that reports, and — where the grid flags say so — yields
    only rows of cells / only cells -/
structure c16_XQuiet (s : c16_Step) (g0 g1 : Bool) : Prop where
  msgs : ∀ fs, (s.eff fs).msgs = []
  buf : c16_BufSilent s.buf
  rows : g0 = true → ∀ fs, (s.eff fs).code = 0
  cells : g1 = true → ∀ fs, (s.eff fs).cells = true

theorem c16_XQuiet_emit_none (b : c16_Buf) (hb : c16_BufSilent b) (g0 g1 : Bool) :
    c16_XQuiet ⟨c16_emit [] false, b⟩ g0 g1 := ⟨fun _ => rfl, hb, fun _ _ => rfl, fun _ _ => rfl⟩

theorem c16_XQuiet_emit_one (b : c16_Buf) (hb : c16_BufSilent b) :
    c16_XQuiet ⟨c16_emit [] true, b⟩ false false :=
  ⟨fun _ => rfl, hb, (fun h => by cases h), (fun h => by cases h)⟩

theorem c16_XQuiet_seq {a s : c16_Step} {g0 g1 h0 h1 : Bool} (ha : c16_XQuiet a g0 g1) (hs : c16_XQuiet s h0 h1) :
    c16_XQuiet ⟨c16_seq a.eff s.eff, s.buf⟩ (g0 && h0) (g1 && h1) := by
  refine ⟨fun fs => ?_, hs.buf, fun hg fs => ?_, fun hg fs => ?_⟩
  · simp [c16_seq, ha.msgs, hs.msgs]
  · simp only [Bool.and_eq_true] at hg
    simp [c16_seq, ha.rows hg.1, hs.rows hg.2]
  · simp only [Bool.and_eq_true] at hg
    simp [c16_seq, ha.cells hg.1, hs.cells hg.2]

theorem c16_XQuiet_weaken {s : c16_Step} {g0 g1 h0 h1 : Bool} (h : c16_XQuiet s g0 g1)
    (i0 : h0 = true → g0 = true) (i1 : h1 = true → g1 = true) : c16_XQuiet s h0 h1 :=
  ⟨h.msgs, h.buf, fun hg => h.rows (i0 hg), fun hg => h.cells (i1 hg)⟩

mutual
theorem c16_xmlQuiet (env : REnv) (n : XmlNode) (b : c16_Buf) (hc : c16_xmlClean env n = true)
    (hb : c16_BufSilent b) : c16_XQuiet (c16_spec env n b) (c16_gridOk false n) (c16_gridOk true n) := by
  match n with
  | .text s =>
    rw [c16_spec_text]
    exact ⟨fun _ => rfl, hb, fun _ _ => rfl, fun _ _ => rfl⟩
  | .elem name as cs =>
    cases hk : c16_kindOf name with
    | unknown =>
      rw [c16_spec_unknown env as cs b hk]
      simp only [c16_xmlClean, hk, decide_eq_true_eq] at hc
      simp only [c16_unknownWarn, if_pos hc]
      exact c16_XQuiet_emit_none b hb _ _
    | atom =>
      rw [c16_spec_atom env as cs b hk]
      simp only [c16_gridOk, hk]
      exact c16_XQuiet_emit_one b hb
    | sym =>
      rw [c16_spec_sym env as cs b hk]
      simp only [c16_xmlClean, hk] at hc
      simp only [c16_gridOk, hk, c16_symWarn, hc, if_true]
      exact c16_XQuiet_emit_one b hb
    | br =>
      rw [c16_spec_br env as cs b hk]
      simp only [c16_xmlClean, hk] at hc
      simp only [c16_gridOk, hk, c16_breakOk_warn as hc]
      exact c16_XQuiet_emit_one b hb
    | bookmark =>
      rw [c16_spec_bookmark env as cs b hk]
      simp only [c16_gridOk, hk]
      exact ⟨fun _ => rfl, hb, (fun h => by cases h), (fun h => by cases h)⟩
    | fldChar =>
      rw [c16_spec_fldChar env as cs b hk]
      simp only [c16_gridOk, hk]
      refine ⟨fun fs => ?_, hb, (fun h => by cases h), (fun h => by cases h)⟩
      unfold c16_fldChar
      dsimp only
      repeat' split
      all_goals rfl
    | instrText =>
      rw [c16_spec_instrText env as cs b hk]
      exact ⟨fun _ => rfl, hb, fun _ _ => rfl, fun _ _ => rfl⟩
    | inline =>
      rw [c16_spec_inline env as cs b hk]
      simp only [c16_xmlClean, hk] at hc
      simp only [c16_gridOk, hk, c16_blipsOk_warn env _ hc]
      exact ⟨fun _ => rfl, hb, (fun h => by cases h), (fun h => by cases h)⟩
    | imagedata =>
      rw [c16_spec_imagedata env as cs b hk]
      simp only [c16_xmlClean, hk] at hc
      simp only [c16_gridOk, hk, c16_imagedataOk_warn env _ hc]
      exact ⟨fun _ => rfl, hb, (fun h => by cases h), (fun h => by cases h)⟩
    | run =>
      rw [c16_spec_run env as cs b hk]
      simp only [c16_xmlClean, hk, Bool.and_eq_true] at hc
      have ih := c16_xmlQuietL env cs b hc.2 hb
      simp only [c16_gridOk, hk, c16_xStyleOk_warn _ _ _ _ _ hc.1]
      exact ⟨fun fs => by simp [c16_box, ih.msgs], ih.buf, (fun h => by cases h), (fun h => by cases h)⟩
    | paragraph =>
      rw [c16_spec_paragraph env as cs b hk]
      simp only [c16_xmlClean, hk, Bool.and_eq_true] at hc
      have ih := c16_xmlQuietL env cs (c16_bufTail b) hc.2 (c16_BufSilent_tail hb)
      have hall : ∀ fs, (c16_seq (c16_bufHead b) (c16_specL env cs (c16_bufTail b)).eff fs).msgs = [] := by
        intro fs
        simp only [c16_seq, c16_bufHead, hb 0 fs, ih.msgs, List.append_nil]
      simp only [c16_gridOk, hk, c16_xStyleOk_warn _ _ _ _ _ hc.1]
      split
      · exact ⟨fun _ => rfl, c16_BufSilent_cons hall ih.buf, (fun h => by cases h), (fun h => by cases h)⟩
      · exact ⟨fun fs => by simp [c16_box, hall], ih.buf, (fun h => by cases h), (fun h => by cases h)⟩
    | table =>
      rw [c16_spec_table env as cs b hk]
      simp only [c16_xmlClean, hk, Bool.and_eq_true] at hc
      have ih := c16_xmlQuietL env cs b hc.1.2 hb
      simp only [c16_gridOk, hk, c16_xStyleOk_warn _ _ _ _ _ hc.1.1]
      refine ⟨fun fs => ?_, ih.buf, (fun h => by cases h), (fun h => by cases h)⟩
      simp [c16_tableEff, ih.msgs, ih.rows hc.2, c16_gridWarn]
    | row =>
      rw [c16_spec_row env as cs b hk]
      simp only [c16_xmlClean, hk, Bool.and_eq_true] at hc
      have ih := c16_xmlQuietL env cs b hc.1 hb
      simp only [c16_gridOk, hk]
      refine ⟨fun fs => by simp [c16_rowEff, ih.msgs], ih.buf, fun _ fs => ?_, (fun h => by cases h)⟩
      simp [c16_rowEff, ih.cells hc.2]
    | cell =>
      rw [c16_spec_cell env as cs b hk]
      simp only [c16_xmlClean, hk] at hc
      have ih := c16_xmlQuietL env cs b hc hb
      simp only [c16_gridOk, hk]
      exact ⟨fun fs => by simp [c16_cellEff, ih.msgs], ih.buf, (fun h => by cases h), fun _ _ => rfl⟩
    | through =>
      rw [c16_spec_through env as cs b hk]
      simp only [c16_xmlClean, hk] at hc
      simp only [c16_gridOk, hk]
      exact c16_xmlQuietL env cs b hc hb
    | pict =>
      rw [c16_spec_pict env as cs b hk]
      simp only [c16_xmlClean, hk] at hc
      have ih := c16_xmlQuietL env cs b hc hb
      exact ⟨fun fs => by simp [c16_pictEff, ih.msgs], ih.buf, fun _ _ => rfl, fun _ _ => rfl⟩
    | hyperlink =>
      rw [c16_spec_hyperlink env as cs b hk]
      simp only [c16_xmlClean, hk] at hc
      have ih := c16_xmlQuietL env cs b hc hb
      simp only [c16_gridOk, hk]
      split
      · rename_i hw
        rw [hw]
        exact ⟨fun fs => by simp [c16_box, ih.msgs], ih.buf, (fun h => by cases h), (fun h => by cases h)⟩
      · rename_i hw
        have : ((attr? S!"r:id" as).isSome || (attr? S!"w:anchor" as).isSome) = false := by simpa using hw
        rw [this]
        simpa using ih
    | alt =>
      simp only [c16_spec, hk]
      simp only [c16_xmlClean, hk] at hc
      simp only [c16_gridOk, hk]
      exact c16_xmlQuietIn env S!"mc:Fallback" cs b hc hb
    | sdt =>
      simp only [c16_spec, hk]
      simp only [c16_xmlClean, hk, Bool.or_eq_true] at hc
      simp only [c16_gridOk, hk]
      split
      · rename_i hcb
        rw [hcb]
        exact c16_XQuiet_emit_one b hb
      · rename_i hcb
        have hcb' : c16_isCheckboxSdt cs = false := by simpa using hcb
        rw [hcb'] at hc ⊢
        simpa using c16_xmlQuietIn env S!"w:sdtContent" cs b (by simpa using hc) hb
theorem c16_xmlQuietL (env : REnv) (ns : List XmlNode) (b : c16_Buf) (hc : c16_xmlCleanL env ns = true)
    (hb : c16_BufSilent b) : c16_XQuiet (c16_specL env ns b) (c16_gridOkL false ns) (c16_gridOkL true ns) := by
  match ns with
  | [] =>
    rw [c16_specL_nil]
    exact ⟨fun _ => rfl, hb, fun _ _ => rfl, fun _ _ => rfl⟩
  | n :: ns =>
    simp only [c16_xmlCleanL, Bool.and_eq_true] at hc
    have h1 := c16_xmlQuiet env n b hc.1 hb
    have h2 := c16_xmlQuietL env ns _ hc.2 h1.buf
    rw [c16_specL_cons]
    simp only [c16_gridOkL]
    exact c16_XQuiet_seq h1 h2
theorem c16_xmlQuietIn (env : REnv) (child : Str) (ns : List XmlNode) (b : c16_Buf)
    (hc : c16_xmlCleanIn env child ns = true) (hb : c16_BufSilent b) :
    c16_XQuiet (c16_specIn env child ns b) (c16_gridOkIn false child ns) (c16_gridOkIn true child ns) := by
  match ns with
  | [] =>
    simp only [c16_specIn]
    exact ⟨fun _ => rfl, hb, fun _ _ => rfl, fun _ _ => rfl⟩
  | .text s :: rest =>
    simp only [c16_xmlCleanIn] at hc
    simp only [c16_specIn, c16_gridOkIn]
    exact c16_xmlQuietIn env child rest b hc hb
  | .elem n as cs :: rest =>
    simp only [c16_xmlCleanIn] at hc
    simp only [c16_specIn, c16_gridOkIn]
    split
    · rename_i hn
      rw [if_pos hn] at hc
      exact c16_xmlQuietL env cs b hc hb
    · rename_i hn
      rw [if_neg hn] at hc
      exact c16_xmlQuietIn env child rest b hc hb
end

/-- nodes held back by the reader, if clean, stand for a silent buffer -/
theorem c16_pend_silent (env : REnv) (ds : List XmlNode) (h : c16_xmlCleanL env ds = true) :
    c16_BufSilent (c16_pend env ds) := by
  have q := c16_xmlQuietL env ds c16_noBuf h c16_BufSilent_noBuf
  exact c16_BufSilent_cons q.msgs q.buf

/-- CLEAN XML IS READ WITHOUT ANY MESSAGE (whatever the field state; the nodes already held back must be
    clean as well, since they are read with the next paragraph) -/
theorem c16_read_clean_silent (env : REnv) (f : Nat) (st : RState) (ns : List XmlNode) (r : ReadResult)
    (st' : RState) (hc : c16_xmlCleanL env ns = true) (hd : c16_xmlCleanL env st.deleted = true)
    (h : readAll env f st ns = .ok (r, st')) : r.messages = [] := by
  have hp := c16_readAll_spec env f st ns r st' h
  have q := c16_xmlQuietL env ns _ hc (c16_pend_silent env _ hd)
  rw [hp.sum.msgs]
  exact q.msgs _

end Mammoth
