/-
  C05 — the whole API on its domain: `c05_inDomain p` (decidable) and enough fuel ⟹ `apiConvert` (HTML and
  markdown, every combination of options) and `apiRawText` return normally.
-/
import Proofs.C05_Package
import Proofs.C05_Api
namespace Mammoth

/-- READABLE: every part that is present parses (`c05_view`), the `w:numStyleLink` chains are acyclic, and
    each of the four node lists handed to the body reader is statically well-formed and has balanced complex
    fields in reading order; note and comment elements carry `w:id` -/
def c05_readable (p : Package) : Bool :=
  match c05_view p with
  | none => false
  | some v => c05_viewReadable v

/-- REFERENCES RESOLVE: every note / comment reference and every embedded-image relationship anywhere in
    the nodes read points to a note / comment the package defines, resp. to a zip entry that is not XML -/
def c05_refsResolve (p : Package) : Bool :=
  match c05_view p with
  | none => false
  | some v => c05_viewRefsOk ((archiveBytes p).map (·.1)) v

/-- the embedded style map, if present, is a UTF-8 text entry -/
def c05_styleMapOk (p : Package) : Bool :=
  match lookupLast S!"mammoth/style-map" p.parts with
  | none => true
  | some (.bytes b) => (utf8Decode b).isSome
  | some (.xml _) => false

/-- THE DOMAIN of C05 -/
def c05_inDomain (p : Package) : Bool := c05_readable p && c05_refsResolve p && c05_styleMapOk p

/-- the fuel that is enough: the largest of the four node lists handed to the body reader -/
def c05_fuelBound (p : Package) : Nat :=
  match c05_view p with
  | none => 0
  | some v => c05_viewFuel v

theorem c05_readPackage_total (p : Package) (fuel : Nat) (h : c05_readable p = true)
    (hf : c05_fuelBound p ≤ fuel) : ∃ dm, readPackage p fuel = .ok dm := by
  unfold c05_readable at h
  unfold c05_fuelBound at hf
  cases hv : c05_view p with
  | none => rw [hv] at h; cases h
  | some v =>
    rw [hv] at h hf; dsimp only at h hf
    rw [c05_readPackage_view p v fuel hv]
    exact c05_readView_total v fuel h hf

theorem c05_readEmbeddedStyleMap_ok (p : Package) (h : c05_styleMapOk p = true) :
    ∃ s, readEmbeddedStyleMap p = .ok s := by
  unfold c05_styleMapOk at h
  unfold readEmbeddedStyleMap
  split
  · exact ⟨_, rfl⟩
  · rename_i b hb
    rw [hb] at h; dsimp only at h
    cases hu : utf8Decode b with
    | none => rw [hu] at h; cases h
    | some s => exact ⟨_, rfl⟩
  · rename_i x hx
    rw [hx] at h; cases h

/-- every document `readPackage` returns on a package whose references resolve passes the converter's
    precondition `c05_docOk`, for EVERY configuration that uses the package's archive -/
theorem c05_readPackage_docOk (p : Package) (fuel : Nat) (doc : Document) (msgs : List Str) (cfg : Cfg)
    (harch : cfg.archive = archiveBytes p) (h : c05_refsResolve p = true)
    (hr : readPackage p fuel = .ok (doc, msgs)) : c05_docOk cfg doc = true := by
  unfold c05_refsResolve at h
  cases hv : c05_view p with
  | none => rw [hv] at h; cases h
  | some v =>
    rw [hv] at h; dsimp only at h
    rw [c05_readPackage_view p v fuel hv] at hr
    obtain ⟨h1, h2, h3⟩ := c05_readView_refs _ v fuel doc msgs hr h
    exact c05_docOk_of_docRefsOk _ cfg doc (by rw [harch]; exact fun n hn => hn) h2 h3 h1

/-- composition: once the package is read into a document that passes the converter's precondition (after
    the caller's transformation), `apiConvert` returns normally -/
theorem c05_apiConvert_ok_of_docOk (p : Package) (fuel : Nat) (base : Option Str) (world : Str → Option Bytes)
    (transform : Document → Document) (o : Options) (doc : Document) (msgs : List Str)
    (hs : c05_styleMapOk p = true) (hr : readPackage p fuel = .ok (doc, msgs))
    (hd : ∀ emb, c05_docOk (c05_apiCfg p base world o emb) (transform doc) = true) :
    ∃ out, apiConvert p fuel base world transform o = .ok out := by
  obtain ⟨s, hs⟩ := c05_readEmbeddedStyleMap_ok p hs
  unfold apiConvert
  have key : ∀ emb, ∃ out, (do
      let (doc, readMsgs) ← readPackage p fuel
      let doc := transform doc
      let r ← convertDoc (c05_apiCfg p base world o emb) doc
      (pure
          { value := writeWith o.format (collapse (stripEmpty r.nodes)),
            messages := unique ((readOptions o.styleMap emb o.includeDefault).snd ++ readMsgs ++ r.messages),
            nodes := r.nodes, document := doc, ioTrace := r.ioTrace, imageCalls := r.imageCalls }
          : Except Err ApiOut)) = .ok out := by
    intro emb
    obtain ⟨r, hc⟩ := c05_convertDoc_ok _ _ (hd emb)
    rw [hr]
    simp only [bind, Except.bind]
    rw [hc]
    exact ⟨_, rfl⟩
  by_cases hi : o.includeEmbedded = true
  · rw [if_pos hi, hs]
    exact key s
  · rw [if_neg hi]
    exact key none

/-- the references of a document resolve within the document itself and the zip entries `arch` -/
def c05_docSelfOk (arch : List Str) (d : Document) : Bool :=
  c05_docRefsOk { arch := arch, notes := d.notes.map fun n => (n.ty, n.id), comments := d.comments.map (·.id) } d

theorem c05_docOk_of_docSelfOk (cfg : Cfg) (d : Document)
    (h : c05_docSelfOk (cfg.archive.map (·.1)) d = true) : c05_docOk cfg d = true :=
  c05_docOk_of_docRefsOk _ cfg d (fun _ hn => hn) (fun _ hk => hk) (fun _ hc => hc) h

/-- with a `transform_document` function whose result is self-contained -/
theorem c05_apiConvert_total_transform (p : Package) (fuel : Nat) (base : Option Str) (world : Str → Option Bytes)
    (transform : Document → Document) (o : Options) (doc : Document) (msgs : List Str)
    (hs : c05_styleMapOk p = true) (hr : readPackage p fuel = .ok (doc, msgs))
    (hd : c05_docSelfOk ((archiveBytes p).map (·.1)) (transform doc) = true) :
    ∃ out, apiConvert p fuel base world transform o = .ok out :=
  c05_apiConvert_ok_of_docOk p fuel base world transform o doc msgs hs hr
    (fun emb => c05_docOk_of_docSelfOk (c05_apiCfg p base world o emb) _ hd)

/-- THE API IS TOTAL ON ITS DOMAIN -/
theorem c05_apiConvert_total (p : Package) (fuel : Nat) (base : Option Str) (world : Str → Option Bytes)
    (o : Options) (h : c05_inDomain p = true) (hf : c05_fuelBound p ≤ fuel) :
    ∃ out, apiConvert p fuel base world id o = .ok out := by
  simp only [c05_inDomain, Bool.and_eq_true] at h
  obtain ⟨⟨h1, h2⟩, h3⟩ := h
  obtain ⟨⟨doc, msgs⟩, hr⟩ := c05_readPackage_total p fuel h1 hf
  exact c05_apiConvert_ok_of_docOk p fuel base world id o doc msgs h3 hr
    (fun emb => c05_readPackage_docOk p fuel doc msgs _ rfl h2 hr)

theorem c05_apiRawText_total (p : Package) (fuel : Nat) (h : c05_readable p = true)
    (hf : c05_fuelBound p ≤ fuel) : ∃ out, apiRawText p fuel = .ok out := by
  obtain ⟨dm, hr⟩ := c05_readPackage_total p fuel h hf
  unfold apiRawText
  rw [hr]
  exact ⟨_, rfl⟩

/-! ### the clauses of the domain, one by one (for the examples: which clause does a package violate?) -/

def c05_idsOk (elems : List (Attrs × List XmlNode)) : Bool := elems.all fun e => (attr? S!"w:id" e.1).isSome

/-- the clauses of `c05_inDomain`, in order: parts parse; acyclic links; footnotes (ids, static, balanced);
    endnotes (ids, static, balanced); comments (ids, static, balanced); body (static, balanced); references
    resolve in footnotes, endnotes, comments, body; embedded style map is text -/
def c05_clauses (p : Package) : List Bool :=
  match c05_view p with
  | none => [false]
  | some v =>
    let R := c05_viewRefs ((archiveBytes p).map (·.1)) v
    [ true, c05_linksAcyclic v.shared,
      c05_idsOk v.fnElems, c05_staticL { v.shared with rels := v.fnRels } (c05_flat v.fnElems), c05_balanced (c05_flat v.fnElems),
      c05_idsOk v.enElems, c05_staticL { v.shared with rels := v.enRels } (c05_flat v.enElems), c05_balanced (c05_flat v.enElems),
      c05_idsOk v.cmElems, c05_staticL { v.shared with rels := v.cmRels } (c05_flat v.cmElems), c05_balanced (c05_flat v.cmElems),
      c05_staticL { v.shared with rels := v.bodyRels } v.body, c05_balanced v.body,
      c05_xrefsL { v.shared with rels := v.fnRels } R (c05_flat v.fnElems),
      c05_xrefsL { v.shared with rels := v.enRels } R (c05_flat v.enElems),
      c05_xrefsL { v.shared with rels := v.cmRels } R (c05_flat v.cmElems),
      c05_xrefsL { v.shared with rels := v.bodyRels } R v.body,
      c05_styleMapOk p ]

/-- the domain is exactly the conjunction of its clauses -/
theorem c05_inDomain_eq_clauses (p : Package) : c05_inDomain p = (c05_clauses p).all id := by
  unfold c05_inDomain c05_readable c05_refsResolve c05_clauses
  cases c05_view p with
  | none => simp
  | some v =>
    simp only [c05_viewReadable, c05_partOk, c05_viewRefsOk, c05_idsOk, List.all_cons, List.all_nil, id,
      Bool.and_true, Bool.true_and, Bool.and_assoc]

end Mammoth
