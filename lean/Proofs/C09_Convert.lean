/-
  C09 (conversion side) — helper lemmas about the table cases of `visit`.
-/
import MammothModel.Reader
namespace Mammoth

/-! ### `bodyIndex` -/

theorem c09_bodyIndex_eq (rows : List Elem) :
    bodyIndex rows = (rows.takeWhile isHeaderRow).length := by
  induction rows with
  | nil => rfl
  | cons r rs ih =>
    by_cases h : isHeaderRow r = true
    · simp [bodyIndex, h, ih]; omega
    · simp [bodyIndex, h]

theorem c09_take_bodyIndex (rows : List Elem) :
    rows.take (bodyIndex rows) = rows.takeWhile isHeaderRow := by
  induction rows with
  | nil => rfl
  | cons r rs ih =>
    by_cases h : isHeaderRow r = true
    · simp [bodyIndex, h, Nat.add_comm 1, ih]
    · simp [bodyIndex, h]

theorem c09_drop_bodyIndex (rows : List Elem) :
    rows.drop (bodyIndex rows) = rows.dropWhile isHeaderRow := by
  induction rows with
  | nil => rfl
  | cons r rs ih =>
    by_cases h : isHeaderRow r = true
    · simp [bodyIndex, h, Nat.add_comm 1, ih]
    · simp [bodyIndex, h]

/-! ### equations for the table cases of `visit` -/

theorem c09_visit_cell (cfg : Cfg) (hdr : Bool) (colspan rowspan : Nat) (vm : Bool) (cs : List Elem) :
    visit cfg hdr (.cell colspan rowspan vm cs) =
      (do let ns ← visitAll cfg hdr cs
          pure [el (if hdr then S!"th" else S!"td") (cellAttrs colspan rowspan) (.forceWrite :: ns)]) := by
  rw [visit]

theorem c09_visit_row (cfg : Cfg) (hdr h : Bool) (cells : List Elem) :
    visit cfg hdr (.row h cells) =
      (do let ns ← visitAll cfg hdr cells
          pure [el S!"tr" [] (.forceWrite :: ns)]) := by
  rw [visit]

theorem c09_visit_table (cfg : Cfg) (hdr : Bool) (sid sname : Option Str) (rows : List Elem) :
    visit cfg hdr (.table sid sname rows) =
      (match (findPath cfg (.table sid sname)).getD (.elements [pathElem S!"table" true]) with
       | .ignore => pure []
       | .elements es => do
         let (head, body) ← visitRows cfg true rows
         pure (wrapElems es (.forceWrite ::
           (if bodyIndex rows == 0 then body else [el S!"thead" [] head, el S!"tbody" [] body])))) := by
  rw [visit]
  rfl

theorem c09_visitAll_nil (cfg : Cfg) (hdr : Bool) : visitAll cfg hdr [] = pure [] := by
  rw [visitAll]

theorem c09_visitAll_cons (cfg : Cfg) (hdr : Bool) (e : Elem) (es : List Elem) :
    visitAll cfg hdr (e :: es) =
      (do let a ← visit cfg hdr e
          let b ← visitAll cfg hdr es
          pure (a ++ b)) := by
  rw [visitAll]

/-- outside the head part every row is a body row -/
theorem c09_visitRows_false (cfg : Cfg) (rows : List Elem) :
    visitRows cfg false rows = (do let b ← visitAll cfg false rows; pure ([], b)) := by
  induction rows with
  | nil => rw [visitRows, visitAll]; simp
  | cons r rs ih =>
    rw [visitRows, visitAll]
    simp [ih]

/-- `visitRows` visits the leading header rows with the header flag and the others without -/
theorem c09_visitRows_true (cfg : Cfg) (rows : List Elem) :
    visitRows cfg true rows =
      (do let h ← visitAll cfg true (rows.take (bodyIndex rows))
          let b ← visitAll cfg false (rows.drop (bodyIndex rows))
          pure (h, b)) := by
  induction rows with
  | nil => rw [visitRows]; simp [bodyIndex, c09_visitAll_nil]
  | cons r rs ih =>
    rw [visitRows]
    by_cases h : isHeaderRow r = true
    · simp [h, bodyIndex, Nat.add_comm 1, ih, c09_visitAll_cons]
    · simp [h, bodyIndex, c09_visitRows_false, c09_visitAll_cons, c09_visitAll_nil]


/-! ### successful runs: inversion of `>>=` and the shape of the emitted nodes -/

theorem c09_bind_ok {α β} (m : ConvM α) (f : α → ConvM β) (s : ConvState) (b : β) (s'' : ConvState) :
    (m >>= f).run s = .ok (b, s'') ↔
      ∃ a s', m.run s = .ok (a, s') ∧ (f a).run s' = .ok (b, s'') := by
  simp only [StateT.run_bind]
  cases h : m.run s with
  | error e => simp [bind, Except.bind]
  | ok p =>
    obtain ⟨a, s'⟩ := p
    simp only [bind, Except.bind, Except.ok.injEq, Prod.mk.injEq]
    constructor
    · intro h; exact ⟨a, s', ⟨rfl, rfl⟩, h⟩
    · rintro ⟨a', s1, ⟨rfl, rfl⟩, h⟩; exact h

theorem c09_pure_ok {α} (a b : α) (s s' : ConvState) :
    (pure a : ConvM α).run s = .ok (b, s') ↔ a = b ∧ s = s' := by
  simp only [StateT.run_pure]
  simp [pure, Except.pure]

/-- pointwise relation between two lists of the same length (core has no `List.Forall₂`) -/
inductive c09_Forall2 {α β} (R : α → β → Prop) : List α → List β → Prop where
  | nil : c09_Forall2 R [] []
  | cons {a b as bs} : R a b → c09_Forall2 R as bs → c09_Forall2 R (a :: as) (b :: bs)

theorem c09_Forall2.length_eq {α β} {R : α → β → Prop} {as : List α} {bs : List β}
    (h : c09_Forall2 R as bs) : as.length = bs.length := by
  induction h with
  | nil => rfl
  | cons _ _ ih => simp [ih]

theorem c09_Forall2.get {α β} {R : α → β → Prop} {as : List α} {bs : List β}
    (h : c09_Forall2 R as bs) : ∀ (i : Nat) (a : α), as[i]? = some a → ∃ b, bs[i]? = some b ∧ R a b := by
  induction h with
  | nil => intro i a h; simp at h
  | cons hab _ ih =>
    intro i a h
    cases i with
    | zero => simp at h; subst h; exact ⟨_, by simp, hab⟩
    | succ i => simp at h; simpa using ih i a h

/-- the element emitted for one table cell, given the nodes of its content -/
def c09_cellNode (hdr : Bool) (colspan rowspan : Nat) (ns : List Node) : Node :=
  el (if hdr then S!"th" else S!"td") (cellAttrs colspan rowspan) (.forceWrite :: ns)

/-- the element emitted for one table row, given the nodes of its cells -/
def c09_rowNode (ns : List Node) : Node := el S!"tr" [] (.forceWrite :: ns)

/-- `n` is the `th`/`td` element of the cell `e` (some content `ns`) -/
def c09_cellRel (hdr : Bool) (e : Elem) (n : Node) : Prop :=
  ∃ c r vm cs ns, e = .cell c r vm cs ∧ n = c09_cellNode hdr c r ns

/-- `n` is the `tr` element of the row `e`: one cell element per cell, in order -/
def c09_rowRel (hdr : Bool) (e : Elem) (n : Node) : Prop :=
  ∃ h cells ns, e = .row h cells ∧ n = c09_rowNode ns ∧ c09_Forall2 (c09_cellRel hdr) cells ns

theorem c09_visitAll_cells (cfg : Cfg) (hdr : Bool) (cells : List Elem) (hc : cells.all isCell = true) :
    ∀ (s s' : ConvState) (ns : List Node), (visitAll cfg hdr cells).run s = .ok (ns, s') →
      c09_Forall2 (c09_cellRel hdr) cells ns := by
  induction cells with
  | nil =>
    intro s s' ns h
    rw [c09_visitAll_nil, c09_pure_ok] at h
    rw [← h.1]; exact .nil
  | cons e es ih =>
    intro s s' ns h
    simp only [List.all_cons, Bool.and_eq_true] at hc
    rw [c09_visitAll_cons, c09_bind_ok] at h
    obtain ⟨a, s1, h1, h⟩ := h
    rw [c09_bind_ok] at h
    obtain ⟨b, s2, h2, h⟩ := h
    rw [c09_pure_ok] at h
    cases e with
    | cell c r vm cs =>
      rw [c09_visit_cell, c09_bind_ok] at h1
      obtain ⟨cn, s0, _, h1⟩ := h1
      rw [c09_pure_ok] at h1
      rw [← h.1, ← h1.1]
      exact .cons ⟨c, r, vm, cs, cn, rfl, rfl⟩ (ih hc.2 s1 s2 b h2)
    | _ => simp [isCell] at hc

theorem c09_visitAll_rows (cfg : Cfg) (hdr : Bool) (rows : List Elem)
    (hr : rows.all (fun r => isRow r && (rowCells r).all isCell) = true) :
    ∀ (s s' : ConvState) (ns : List Node), (visitAll cfg hdr rows).run s = .ok (ns, s') →
      c09_Forall2 (c09_rowRel hdr) rows ns := by
  induction rows with
  | nil =>
    intro s s' ns h
    rw [c09_visitAll_nil, c09_pure_ok] at h
    rw [← h.1]; exact .nil
  | cons e es ih =>
    intro s s' ns h
    simp only [List.all_cons, Bool.and_eq_true] at hr
    rw [c09_visitAll_cons, c09_bind_ok] at h
    obtain ⟨a, s1, h1, h⟩ := h
    rw [c09_bind_ok] at h
    obtain ⟨b, s2, h2, h⟩ := h
    rw [c09_pure_ok] at h
    cases e with
    | row hh cells =>
      rw [c09_visit_row, c09_bind_ok] at h1
      obtain ⟨cn, s0, h0, h1⟩ := h1
      rw [c09_pure_ok] at h1
      rw [← h.1, ← h1.1]
      have hcells : cells.all isCell = true := by simpa [rowCells] using hr.1.2
      exact .cons ⟨hh, cells, cn, rfl, rfl, c09_visitAll_cells cfg hdr cells hcells s s0 cn h0⟩
        (ih hr.2 s1 s2 b h2)
    | _ => simp [isRow] at hr

end Mammoth
