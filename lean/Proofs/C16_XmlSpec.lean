/-
  C16, reader half — the specification of the reader's warnings.

  `c16_spec` says, by recursion on the XML tree (element names, never handler names; no fuel), which
  warnings a piece of a story (`word/document.xml` body, a note, a comment) must produce and in which
  order.  The warnings are

    * an element that is neither supported nor on the ignore list     "An unrecognised element was ignored: N"
    * a paragraph / run / table style id that `styles.xml` does not define
                                                                      "K style with ID I was referenced but …"
    * `w:br` with an unsupported `w:type`                             "Unsupported break type: T"
    * `w:sym` whose (font, char) is not in the dingbat table          "A w:sym element with an unsupported …"
    * `a:blip` with neither `r:embed` nor `r:link`                    "Could not find image file for a:blip element"
    * an image whose content type browsers are unlikely to show       "Image of type T is unlikely to display …"
    * `v:imagedata` without `r:id`                                    "A v:imagedata element without a …"
    * a table whose content is not only rows, a row whose content is not only cells
                                                                      "unexpected non-row / non-cell element …"

  in READING order: a container reports its own style warning, then what its content reports, a table
  reports its shape warning last; the content of text boxes (`w:pict`) reports where it is read, not
  where it is placed.

  Two things make the reading order differ from a plain document-order walk, and both are explicit here:

    * DELETED PARAGRAPH MARKS.  The content of a paragraph whose mark is a tracked deletion is read
      when the next paragraph is opened (as the first part of that paragraph's content).  The
      specification threads a buffer (`c16_Buf`) of deferred *effects*, exactly as `c01_xmlLiveD`
      threads a buffer of deferred leaves: level 0 is what the next opened paragraph reads first, the
      deeper levels are the buffer with which that paragraph's content is traversed.
    * COMPLEX FIELDS.  Whether a `w:fldChar` of type `end` leaves a check box in the document depends
      on the fields opened before it in reading order; a check box directly inside `w:tbl`/`w:tr` is an
      "unexpected non-row / non-cell element".  What the traversal reports is therefore a function of the
      field state (`c16_FS`: for each open field, whether its instruction has been parsed and says
      FORMCHECKBOX; the instruction text collected so far), and returns the field state afterwards.
      Nothing else about the reader's state matters for the messages.
-/
import MammothModel.Reader
namespace Mammoth

/-! ### the field state, and what a piece of XML reports -/

/-- for each open complex field (innermost first): `none` — begun, instruction not parsed yet;
    `some b` — parsed, `b` says whether it is a check box.  `instr`: instruction text collected so far -/
structure c16_FS where
  stack : List (Option Bool) := []
  instr : Str := []
deriving DecidableEq, Repr, Inhabited

/-- what reading a piece of XML produces, as far as messages are concerned -/
structure c16_Out where
  /-- the warnings, in order -/
  msgs : List Str := []
  /-- the in-line elements read as the content of a table: 0 — only rows made of cells only,
      1 — only rows, one of them with a non-cell, 2 — something that is not a row -/
  code : Nat := 0
  /-- the in-line elements are all table cells -/
  cells : Bool := true
  /-- the field state afterwards -/
  fs : c16_FS := {}
deriving DecidableEq, Repr, Inhabited

/-- reports as a function of the field state in which the piece is read -/
abbrev c16_Eff := c16_FS → c16_Out

/-- nothing read -/
def c16_skip : c16_Eff := fun fs => ⟨[], 0, true, fs⟩

/-- the messages `ms`, and one element that is neither row nor cell iff `elem` -/
def c16_emit (ms : List Str) (elem : Bool) : c16_Eff := fun fs => ⟨ms, if elem then 2 else 0, !elem, fs⟩

/-- first `a`, then `b` -/
def c16_seq (a b : c16_Eff) : c16_Eff := fun fs =>
  ⟨(a fs).msgs ++ (b (a fs).fs).msgs, max (a fs).code (b (a fs).fs).code, (a fs).cells && (b (a fs).fs).cells,
   (b (a fs).fs).fs⟩

/-- one element that is neither a row nor a cell (run, paragraph, hyperlink), reporting `pre` and then
    what its content reports -/
def c16_box (pre : List Str) (e : c16_Eff) : c16_Eff := fun fs => ⟨pre ++ (e fs).msgs, 2, false, (e fs).fs⟩

/-- the shape warning of a table whose content has code `c` -/
def c16_gridWarn (c : Nat) : List Str :=
  if c = 2 then [S!"unexpected non-row element in table, cell merging may be incorrect"]
  else if c = 1 then [S!"unexpected non-cell element in table row, cell merging may be incorrect"]
  else []

/-- `w:tbl`: style warning, content, shape warning -/
def c16_tableEff (pre : List Str) (e : c16_Eff) : c16_Eff := fun fs =>
  ⟨pre ++ ((e fs).msgs ++ c16_gridWarn (e fs).code), 2, false, (e fs).fs⟩

/-- `w:tr`: one row; it is made of cells only iff its content is -/
def c16_rowEff (e : c16_Eff) : c16_Eff := fun fs => ⟨(e fs).msgs, if (e fs).cells then 0 else 1, false, (e fs).fs⟩

/-- `w:tc`: one cell -/
def c16_cellEff (e : c16_Eff) : c16_Eff := fun fs => ⟨(e fs).msgs, 2, true, (e fs).fs⟩

/-- `w:pict`: the content is read here but placed after the enclosing paragraph: nothing in line -/
def c16_pictEff (e : c16_Eff) : c16_Eff := fun fs => ⟨(e fs).msgs, 0, true, (e fs).fs⟩

/-! ### the buffer of deferred content -/

/-- deferred effects by level; beyond the levels in use every level is `c16_skip` -/
abbrev c16_Buf := Nat → c16_Eff

def c16_noBuf : c16_Buf := fun _ => c16_skip
def c16_bufHead (b : c16_Buf) : c16_Eff := b 0
def c16_bufTail (b : c16_Buf) : c16_Buf := fun n => b (n + 1)
def c16_bufCons (e : c16_Eff) (b : c16_Buf) : c16_Buf
  | 0 => e
  | n + 1 => b n

/-- what a piece reports, and the buffer afterwards -/
structure c16_Step where
  eff : c16_Eff
  buf : c16_Buf

/-! ### element names -/

inductive c16_Kind where
  | unknown      -- no reader for this name: ignored silently if on the ignore list, reported otherwise
  | atom         -- always exactly one element, never a message
  | sym | br | bookmark | fldChar | instrText
  | run | paragraph | table | row | cell | through | pict | hyperlink
  | inline | imagedata | alt | sdt
deriving DecidableEq, Repr, Inhabited

def c16_kinds : List (Str × c16_Kind) := [
  (S!"w:t", .atom), (S!"w:tab", .atom), (S!"w:noBreakHyphen", .atom), (S!"w:softHyphen", .atom),
  (S!"w:footnoteReference", .atom), (S!"w:endnoteReference", .atom), (S!"w:commentReference", .atom),
  (S!"w:sym", .sym), (S!"w:br", .br), (S!"w:bookmarkStart", .bookmark),
  (S!"w:fldChar", .fldChar), (S!"w:instrText", .instrText),
  (S!"w:r", .run), (S!"w:p", .paragraph), (S!"w:tbl", .table), (S!"w:tr", .row), (S!"w:tc", .cell),
  (S!"w:ins", .through), (S!"w:smartTag", .through), (S!"w:object", .through), (S!"w:drawing", .through),
  (S!"v:group", .through), (S!"v:rect", .through), (S!"v:roundrect", .through), (S!"v:shape", .through),
  (S!"v:textbox", .through), (S!"w:txbxContent", .through),
  (S!"w:pict", .pict), (S!"w:hyperlink", .hyperlink),
  (S!"wp:inline", .inline), (S!"wp:anchor", .inline), (S!"v:imagedata", .imagedata),
  (S!"mc:AlternateContent", .alt), (S!"w:sdt", .sdt)]

def c16_kindIn : List (Str × c16_Kind) → Str → c16_Kind
  | [], _ => .unknown
  | (k, v) :: rest, name => if name = k then v else c16_kindIn rest name

def c16_kindOf (name : Str) : c16_Kind := c16_kindIn c16_kinds name

/-! ### the warnings of single elements -/

def c16_unknownWarn (name : Str) : List Str :=
  if name ∈ Generated.ignored then [] else [S!"An unrecognised element was ignored: " ++ name]

/-- a style reference `<props><tag w:val=ID/></props>` among the children `cs`: reported iff `table`
    (the styles of that type in `styles.xml`) has no entry for the id -/
def c16_styleWarn (kind propsTag tag : Str) (table : List (Option Str × Option Str)) (cs : List XmlNode) : List Str :=
  match childAttr tag S!"w:val" (findChildOrNull propsTag cs).2 with
  | none => []
  | some sid =>
    if (lookupLast (some sid) table).isSome then []
    else [kind ++ S!" style with ID " ++ sid ++ S!" was referenced but not defined in the document"]

/-- `w:br`: the supported types are none, empty, `textWrapping`, `page`, `column` -/
def c16_breakWarn (as : Attrs) : List Str :=
  match attr? S!"w:type" as with
  | none => []
  | some t =>
    if t = [] ∨ t = S!"textWrapping" ∨ t = S!"page" ∨ t = S!"column" then []
    else [S!"Unsupported break type: " ++ t]

/-- the character for (font, code) in the dingbat table; a code `F0xy` also counts as `xy` -/
def c16_symLook (font : Option Str) (ch : Str) : Option Nat :=
  let look (digits : Str) : Option Nat := (parseHex digits).bind (dingbat font)
  let alt : Option Nat :=
    match ch with
    | 'F' :: '0' :: a :: b :: _ => if a = '\n' ∨ b = '\n' then none else look (ch.drop 2)
    | _ => none
  (look ch).orElse (fun _ => alt)

/-- `w:sym`: font `w:font`, code `w:char` -/
def c16_symChar (as : Attrs) : Option Nat :=
  match attr? S!"w:char" as with
  | none => none
  | some ch => c16_symLook (attr? S!"w:font" as) ch

def c16_symWarn (as : Attrs) : List Str :=
  if (c16_symChar as).isSome then []
  else [S!"A w:sym element with an unsupported character was ignored: char " ++ pyOpt (attr? S!"w:char" as) ++
          S!" in font " ++ pyOpt (attr? S!"w:font" as)]

/-- an image stored (or linked) at `path` -/
def c16_imageWarn (env : REnv) (path : Str) : List Str :=
  match findContentType env.contentTypes path with
  | some c =>
    if c ∈ Generated.browserImageTypes then []
    else [S!"Image of type " ++ c ++ S!" is unlikely to display in web browsers"]
  | none => [S!"Image of type None is unlikely to display in web browsers"]

/-- an embedded image given by relationship id (a dangling id is an error of the reader, not a warning) -/
def c16_embeddedWarn (env : REnv) (rid : Str) : List Str :=
  match env.rels.targetById rid with
  | .ok target => c16_imageWarn env (uriToZipEntryName S!"word" target)
  | .error _ => []

def c16_blipWarn (env : REnv) (as : Attrs) : List Str :=
  match attr? S!"r:embed" as with
  | some rid => c16_embeddedWarn env rid
  | none =>
    match attr? S!"r:link" as with
    | some rid =>
      (match env.rels.targetById rid with
       | .ok target => c16_imageWarn env target
       | .error _ => [])
    | none => [S!"Could not find image file for a:blip element"]

def c16_blipHasImage (as : Attrs) : Bool := (attr? S!"r:embed" as).isSome || (attr? S!"r:link" as).isSome

/-- the `a:blip` elements of a DrawingML picture: `a:graphic/a:graphicData/pic:pic/pic:blipFill/a:blip` -/
def c16_blips (cs : List XmlNode) : List Attrs :=
  (((((findChildren S!"a:graphic" cs).flatMap fun g => findChildren S!"a:graphicData" g.2).flatMap
      fun d => findChildren S!"pic:pic" d.2).flatMap fun p => findChildren S!"pic:blipFill" p.2).flatMap
      fun f => findChildren S!"a:blip" f.2).map (·.1)

def c16_blipsWarn (env : REnv) : List Attrs → List Str
  | [] => []
  | as :: rest => c16_blipWarn env as ++ c16_blipsWarn env rest

def c16_imagedataWarn (env : REnv) (as : Attrs) : List Str :=
  match attr? S!"r:id" as with
  | none => [S!"A v:imagedata element without a relationship ID was ignored"]
  | some rid => c16_embeddedWarn env rid

/-- the instruction says FORMCHECKBOX (and is not a HYPERLINK, which is tried first) -/
def c16_isCheckboxInstr (instr : Str) : Bool :=
  (matchExternalLink instr).isNone && (matchInternalLink instr).isNone && matchCheckbox instr

/-- `w:fldChar`: `begin` opens a field and clears the instruction text, `separate` parses the
    instruction of the innermost field, `end` closes it — leaving a check box iff it is one -/
def c16_fldChar (as : Attrs) : c16_Eff := fun fs =>
  let ty := attr? S!"w:fldCharType" as
  if ty = some S!"begin" then ⟨[], 0, true, ⟨none :: fs.stack, []⟩⟩
  else if ty = some S!"end" then
    match fs.stack with
    | [] => ⟨[], 0, true, fs⟩
    | top :: rest =>
      if top.getD (c16_isCheckboxInstr fs.instr) then ⟨[], 2, false, ⟨rest, fs.instr⟩⟩
      else ⟨[], 0, true, ⟨rest, fs.instr⟩⟩
  else if ty = some S!"separate" then
    match fs.stack with
    | [] => ⟨[], 0, true, fs⟩
    | _ :: rest => ⟨[], 0, true, ⟨some (c16_isCheckboxInstr fs.instr) :: rest, fs.instr⟩⟩
  else ⟨[], 0, true, fs⟩

/-- the paragraph mark is a tracked deletion -/
def c16_delMark (cs : List XmlNode) : Bool :=
  (findChild S!"w:del" (findChildOrNull S!"w:rPr" (findChildOrNull S!"w:pPr" cs).2).2).isSome

/-- a structured-document tag that is a check-box control -/
def c16_isCheckboxSdt (cs : List XmlNode) : Bool :=
  (findChild S!"wordml:checkbox" (findChildOrNull S!"w:sdtPr" cs).2).isSome

/-! ### the traversal -/

mutual
def c16_spec (env : REnv) : XmlNode → c16_Buf → c16_Step
  | .text _, b => ⟨c16_skip, b⟩
  | .elem name as cs, b =>
    match c16_kindOf name with
    | .unknown => ⟨c16_emit (c16_unknownWarn name) false, b⟩
    | .atom => ⟨c16_emit [] true, b⟩
    | .sym => ⟨c16_emit (c16_symWarn as) (c16_symChar as).isSome, b⟩
    | .br => ⟨c16_emit (c16_breakWarn as) (c16_breakWarn as).isEmpty, b⟩
    | .bookmark => ⟨c16_emit [] (decide (attr? S!"w:name" as ≠ some S!"_GoBack")), b⟩
    | .fldChar => ⟨c16_fldChar as, b⟩
    | .instrText => ⟨fun fs => ⟨[], 0, true, ⟨fs.stack, fs.instr ++ innerTextL cs⟩⟩, b⟩
    | .inline => ⟨c16_emit (c16_blipsWarn env (c16_blips cs)) ((c16_blips cs).any c16_blipHasImage), b⟩
    | .imagedata => ⟨c16_emit (c16_imagedataWarn env as) (attr? S!"r:id" as).isSome, b⟩
    | .run =>
      ⟨c16_box (c16_styleWarn S!"Run" S!"w:rPr" S!"w:rStyle" env.styles.character cs) (c16_specL env cs b).eff,
       (c16_specL env cs b).buf⟩
    | .paragraph =>
      -- the next opened paragraph reads level 0 of the buffer first; its content is traversed with
      -- the deeper levels
      let s := c16_specL env cs (c16_bufTail b)
      let all := c16_seq (c16_bufHead b) s.eff
      if c16_delMark cs then ⟨c16_skip, c16_bufCons all s.buf⟩
      else ⟨c16_box (c16_styleWarn S!"Paragraph" S!"w:pPr" S!"w:pStyle" env.styles.paragraph cs) all, s.buf⟩
    | .table =>
      ⟨c16_tableEff (c16_styleWarn S!"Table" S!"w:tblPr" S!"w:tblStyle" env.styles.table cs) (c16_specL env cs b).eff,
       (c16_specL env cs b).buf⟩
    | .row => ⟨c16_rowEff (c16_specL env cs b).eff, (c16_specL env cs b).buf⟩
    | .cell => ⟨c16_cellEff (c16_specL env cs b).eff, (c16_specL env cs b).buf⟩
    | .through => c16_specL env cs b
    | .pict => ⟨c16_pictEff (c16_specL env cs b).eff, (c16_specL env cs b).buf⟩
    | .hyperlink =>
      if (attr? S!"r:id" as).isSome || (attr? S!"w:anchor" as).isSome then
        ⟨c16_box [] (c16_specL env cs b).eff, (c16_specL env cs b).buf⟩
      else c16_specL env cs b
    | .alt => c16_specIn env S!"mc:Fallback" cs b
    | .sdt => if c16_isCheckboxSdt cs then ⟨c16_emit [] true, b⟩ else c16_specIn env S!"w:sdtContent" cs b
def c16_specL (env : REnv) : List XmlNode → c16_Buf → c16_Step
  | [], b => ⟨c16_skip, b⟩
  | c :: cs, b =>
    ⟨c16_seq (c16_spec env c b).eff (c16_specL env cs (c16_spec env c b).buf).eff,
     (c16_specL env cs (c16_spec env c b).buf).buf⟩
/-- the content of the first child element called `child` -/
def c16_specIn (env : REnv) (child : Str) : List XmlNode → c16_Buf → c16_Step
  | [], b => ⟨c16_skip, b⟩
  | .text _ :: rest, b => c16_specIn env child rest b
  | .elem n _ cs :: rest, b => if n = child then c16_specL env cs b else c16_specIn env child rest b
end

/-- the buffer that stands for XML nodes held back by the reader: what they report, traversed from the
    empty buffer, and what that traversal itself leaves deferred -/
def c16_pend (env : REnv) (ds : List XmlNode) : c16_Buf :=
  c16_bufCons (c16_specL env ds c16_noBuf).eff (c16_specL env ds c16_noBuf).buf

/-- THE WARNINGS OF A STORY: the nodes `ns` read from the initial state (no open field, nothing deferred) -/
def c16_xmlWarnings (env : REnv) (ns : List XmlNode) : List Str :=
  ((c16_specL env ns c16_noBuf).eff {}).msgs

/-! ### basic equations -/

theorem c16_seq_skip_left (e : c16_Eff) : c16_seq c16_skip e = e := by
  funext fs; simp [c16_seq, c16_skip]
theorem c16_seq_skip_right (e : c16_Eff) : c16_seq e c16_skip = e := by
  funext fs; simp [c16_seq, c16_skip]
theorem c16_seq_assoc (a b c : c16_Eff) : c16_seq (c16_seq a b) c = c16_seq a (c16_seq b c) := by
  funext fs; simp [c16_seq, List.append_assoc, Nat.max_assoc, Bool.and_assoc]

@[simp] theorem c16_bufHead_cons (e : c16_Eff) (b : c16_Buf) : c16_bufHead (c16_bufCons e b) = e := rfl
@[simp] theorem c16_bufTail_cons (e : c16_Eff) (b : c16_Buf) : c16_bufTail (c16_bufCons e b) = b := rfl
@[simp] theorem c16_bufHead_noBuf : c16_bufHead c16_noBuf = c16_skip := rfl
@[simp] theorem c16_bufTail_noBuf : c16_bufTail c16_noBuf = c16_noBuf := rfl

theorem c16_bufCons_skip_noBuf : c16_bufCons c16_skip c16_noBuf = c16_noBuf := by
  funext n; cases n <;> rfl

@[simp] theorem c16_specL_nil (env : REnv) (b : c16_Buf) : c16_specL env [] b = ⟨c16_skip, b⟩ := by
  simp [c16_specL]
theorem c16_specL_cons (env : REnv) (c : XmlNode) (cs : List XmlNode) (b : c16_Buf) :
    c16_specL env (c :: cs) b =
      ⟨c16_seq (c16_spec env c b).eff (c16_specL env cs (c16_spec env c b).buf).eff,
       (c16_specL env cs (c16_spec env c b).buf).buf⟩ := by simp [c16_specL]
@[simp] theorem c16_spec_text (env : REnv) (s : Str) (b : c16_Buf) : c16_spec env (.text s) b = ⟨c16_skip, b⟩ := by
  simp [c16_spec]

@[simp] theorem c16_pend_nil (env : REnv) : c16_pend env [] = c16_noBuf := by
  simp [c16_pend, c16_bufCons_skip_noBuf]

/-- traversal of a concatenation: the second part starts with the buffer the first part leaves -/
theorem c16_specL_append (env : REnv) (xs ys : List XmlNode) (b : c16_Buf) :
    c16_specL env (xs ++ ys) b =
      ⟨c16_seq (c16_specL env xs b).eff (c16_specL env ys (c16_specL env xs b).buf).eff,
       (c16_specL env ys (c16_specL env xs b).buf).buf⟩ := by
  induction xs generalizing b with
  | nil => simp [c16_seq_skip_left]
  | cons x xs ih => simp [c16_specL_cons, ih, c16_seq_assoc]

theorem c16_specIn_eq (env : REnv) (child : Str) (cs : List XmlNode) (b : c16_Buf) :
    c16_specIn env child cs b = c16_specL env (findChildOrNull child cs).2 b := by
  unfold findChildOrNull
  induction cs with
  | nil => simp [c16_specIn, findChild]
  | cons c cs ih =>
    cases c with
    | text s => simp only [c16_specIn, findChild]; exact ih
    | elem n as ccs =>
      simp only [c16_specIn, findChild]
      by_cases hn : n = child
      · simp [hn]
      · have : (n == child) = false := by simpa using hn
        simp only [hn, if_false, this]; exact ih

end Mammoth
