/-
  C16 — "clean documents report nothing": a sufficient, decidable cleanliness predicate on
  document elements under which the converter records no message.
-/
import Proofs.C03_Lemmas
namespace Mammoth

/-- the messages are unchanged; referenced comments only come from `cms` -/
def c16_keeps (cms : List Comment) (st st' : ConvState) : Prop :=
  st'.messages = st.messages ∧ ∀ lc ∈ st'.refComments, lc ∈ st.refComments ∨ lc.2 ∈ cms

theorem c16_keeps_refl (cms : List Comment) (st : ConvState) : c16_keeps cms st st :=
  ⟨rfl, fun _ h => Or.inl h⟩

theorem c16_keeps_trans {cms : List Comment} {a b c : ConvState}
    (h1 : c16_keeps cms a b) (h2 : c16_keeps cms b c) : c16_keeps cms a c := by
  refine ⟨h2.1.trans h1.1, fun lc h => ?_⟩
  rcases h2.2 lc h with h | h
  · exact h1.2 lc h
  · exact Or.inr h

/-- `m` records no message (and only references comments of `cms`); its result satisfies `P` -/
def c16_quietP (cms : List Comment) {α} (m : ConvM α) (P : α → Prop) : Prop :=
  ∀ st a st', m.run st = .ok (a, st') → c16_keeps cms st st' ∧ P a

abbrev c16_quiet (cms : List Comment) {α} (m : ConvM α) : Prop := c16_quietP cms m (fun _ => True)

theorem c16_quiet_pure (cms : List Comment) {α} (a : α) : c16_quiet cms (pure a : ConvM α) := by
  intro st b st' h
  have e : (pure a : ConvM α).run st = .ok (a, st) := rfl
  rw [e] at h; cases h
  exact ⟨c16_keeps_refl _ _, trivial⟩

theorem c16_quietP_pure (cms : List Comment) {α} (a : α) (P : α → Prop) (h : P a) :
    c16_quietP cms (pure a : ConvM α) P := by
  intro st b st' hr
  have e : (pure a : ConvM α).run st = .ok (a, st) := rfl
  rw [e] at hr; cases hr
  exact ⟨c16_keeps_refl _ _, h⟩

theorem c16_quiet_throw (cms : List Comment) {α} (e : Err) (P : α → Prop) :
    c16_quietP cms (throw e : ConvM α) P := by
  intro st b st' h
  have e' : (throw e : ConvM α).run st = .error e := rfl
  rw [e'] at h; cases h

theorem c16_quiet_bind (cms : List Comment) {α β} (m : ConvM α) (f : α → ConvM β)
    (P : α → Prop) (Q : β → Prop)
    (hm : c16_quietP cms m P) (hf : ∀ a, P a → c16_quietP cms (f a) Q) :
    c16_quietP cms (m >>= f) Q := by
  intro st b st' h
  rw [c03_bind_run] at h
  cases hr : m.run st with
  | error e => rw [hr] at h; cases h
  | ok r =>
    obtain ⟨a, s1⟩ := r
    rw [hr] at h
    have h1 := hm st a s1 hr
    have h2 := hf a h1.2 s1 b st' h
    exact ⟨c16_keeps_trans h1.1 h2.1, h2.2⟩

theorem c16_quiet_weaken (cms : List Comment) {α} (m : ConvM α) (P : α → Prop)
    (h : c16_quietP cms m P) : c16_quiet cms m :=
  fun st a st' hr => ⟨(h st a st' hr).1, trivial⟩

theorem c16_quiet_modify (cms : List Comment) (f : ConvState → ConvState)
    (hf : ∀ s, c16_keeps cms s (f s)) : c16_quiet cms (modify f : ConvM Unit) := by
  intro st b st' h
  have e : (modify f : ConvM Unit).run st = .ok ((), f st) := rfl
  rw [e] at h; cases h
  exact ⟨hf st, trivial⟩

theorem c16_quiet_get (cms : List Comment) : c16_quiet cms (get : ConvM ConvState) := by
  intro st b st' h
  have e : (get : ConvM ConvState).run st = .ok (st, st) := rfl
  rw [e] at h; cases h
  exact ⟨c16_keeps_refl _ _, trivial⟩

theorem c16_lookupLast_mem {α β} [DecidableEq α] (k : α) (l : List (α × β)) (v : β)
    (h : lookupLast k l = some v) : (k, v) ∈ l := by
  induction l with
  | nil => cases h
  | cons kv rest ih =>
    obtain ⟨k', v'⟩ := kv
    unfold lookupLast at h
    cases hr : lookupLast k rest with
    | some w =>
      rw [hr] at h; cases h
      exact List.mem_cons_of_mem _ (ih hr)
    | none =>
      rw [hr] at h
      simp only at h
      split at h
      · cases h; rename_i hk; subst hk; exact List.mem_cons_self
      · cases h

/-! ### cleanliness -/

/-- a mapping matches, or there is no style id to complain about -/
def c16_styleOk (cfg : Cfg) (t : Target) (sid : Option Str) : Bool :=
  (findStyle cfg.upper cfg.styleMap t).isSome || sid.isNone

/-- opening the image succeeds -/
def c16_srcOk (cfg : Cfg) (src : ImageSrc) : Bool :=
  match src with
  | .embedded _ => true
  | .linked uri =>
    if isAbsoluteUri uri then (cfg.world uri).isSome
    else match cfg.base with
      | some b => (cfg.world (osPathJoin b uri)).isSome
      | none => false

/-- the image converter does not open the image, or opening it succeeds -/
def c16_imageOk (cfg : Cfg) (i : ImageProps) : Bool :=
  (match cfg.imageConv with | .dataUri => false | .fixed _ opens => !opens) || c16_srcOk cfg i.src

mutual
def c16_clean (cfg : Cfg) : Elem → Bool
  | .paragraph p cs => c16_styleOk cfg (.paragraph p) p.styleId && c16_cleanL cfg cs
  | .run r cs => c16_styleOk cfg (.run r.styleId r.styleName) r.styleId && c16_cleanL cfg cs
  | .text _ => true
  | .hyperlink _ cs => c16_cleanL cfg cs
  | .checkbox _ => true
  | .table _ _ rows => c16_cleanL cfg rows
  | .row _ cells => c16_cleanL cfg cells
  | .cell _ _ _ cs => c16_cleanL cfg cs
  | .brk _ => true
  | .tab => true
  | .image i => c16_imageOk cfg i
  | .bookmark _ => true
  | .noteRef _ _ => true
  | .commentRef _ => true
def c16_cleanL (cfg : Cfg) : List Elem → Bool
  | [] => true
  | e :: es => c16_clean cfg e && c16_cleanL cfg es
end

theorem c16_quiet_findPathWarn (cms : List Comment) (cfg : Cfg) (t : Target) (kind : Str)
    (sid sname : Option Str) (d : HtmlPath) (h : c16_styleOk cfg t sid = true) :
    c16_quiet cms (findPathWarn cfg t kind sid sname d) := by
  intro st a st' hr
  rw [c03_findPathWarn_run] at hr; cases hr
  refine ⟨?_, trivial⟩
  unfold c16_styleOk at h
  unfold c03_warnState findPath
  cases hf : findStyle cfg.upper cfg.styleMap t with
  | some s => exact c16_keeps_refl _ _
  | none =>
    cases sid with
    | none => exact c16_keeps_refl _ _
    | some i => simp [hf] at h

theorem c16_quiet_openImage (cms : List Comment) (cfg : Cfg) (src : ImageSrc)
    (h : c16_srcOk cfg src = true) :
    c16_quietP cms (openImage cfg src) (fun r => ∃ b, r = .ok b) := by
  unfold openImage
  unfold c16_srcOk at h
  cases src with
  | embedded name =>
    simp only
    split
    · exact c16_quietP_pure _ _ _ ⟨_, rfl⟩
    · exact c16_quiet_throw _ _ _
  | linked uri =>
    simp only at h ⊢
    by_cases habs : isAbsoluteUri uri = true
    · simp only [habs, if_true] at h ⊢
      apply c16_quiet_bind _ _ _ (fun _ => True)
      · exact c16_quiet_modify _ _ (fun s => c16_keeps_refl _ _)
      · intro _ _
        cases hw : cfg.world uri with
        | some b => exact c16_quietP_pure _ _ _ ⟨_, rfl⟩
        | none => simp [hw] at h
    · simp only [habs, Bool.false_eq_true, if_false] at h ⊢
      cases hb : cfg.base with
      | none => simp [hb] at h
      | some b =>
        simp only [hb] at h ⊢
        apply c16_quiet_bind _ _ _ (fun _ => True)
        · exact c16_quiet_modify _ _ (fun s => c16_keeps_refl _ _)
        · intro _ _
          cases hw : cfg.world (osPathJoin b uri) with
          | some b => exact c16_quietP_pure _ _ _ ⟨_, rfl⟩
          | none => simp [hw] at h

theorem c16_quiet_convertImage (cms : List Comment) (cfg : Cfg) (i : ImageProps)
    (h : c16_imageOk cfg i = true) : c16_quiet cms (convertImage cfg i) := by
  unfold convertImage
  apply c16_quiet_bind _ _ _ (fun _ => True)
  · exact c16_quiet_modify _ _ (fun s => c16_keeps_refl _ _)
  · intro _ _
    unfold c16_imageOk at h
    simp only
    cases hc : cfg.imageConv with
    | dataUri =>
      simp only [hc, Bool.false_or] at h ⊢
      apply c16_quiet_bind _ _ _ _ _ (c16_quiet_openImage cms cfg i.src h)
      rintro r ⟨b, rfl⟩
      exact c16_quiet_pure _ _
    | fixed attrs opens =>
      simp only [hc] at h ⊢
      cases opens with
      | false => exact c16_quiet_pure _ _
      | true =>
        simp only [Bool.not_true, Bool.false_or, if_true] at h ⊢
        apply c16_quiet_bind _ _ _ _ _ (c16_quiet_openImage cms cfg i.src h)
        rintro r ⟨b, rfl⟩
        exact c16_quiet_pure _ _

mutual
theorem c16_quiet_visit (cfg : Cfg) (hdr : Bool) (e : Elem) (h : c16_clean cfg e = true) :
    c16_quiet cfg.comments (visit cfg hdr e) := by
  match e with
  | .paragraph p cs =>
    rw [c16_clean, Bool.and_eq_true] at h
    rw [visit]
    apply c16_quiet_bind _ _ _ (fun _ => True)
    · exact c16_quiet_findPathWarn _ _ _ _ _ _ _ h.1
    · intro path _
      cases path with
      | ignore => exact c16_quiet_pure _ _
      | elements es =>
        exact c16_quiet_bind _ _ _ _ _ (c16_quiet_visitAll cfg hdr cs h.2) (fun _ _ => c16_quiet_pure _ _)
  | .run r cs =>
    rw [c16_clean, Bool.and_eq_true] at h
    rw [visit]
    apply c16_quiet_bind _ _ _ (fun _ => True)
    · exact c16_quiet_findPathWarn _ _ _ _ _ _ _ h.1
    · intro sp _
      simp only
      split
      · exact c16_quiet_pure _ _
      · exact c16_quiet_bind _ _ _ _ _ (c16_quiet_visitAll cfg hdr cs h.2) (fun _ _ => c16_quiet_pure _ _)
  | .text s => rw [visit]; exact c16_quiet_pure _ _
  | .hyperlink l cs =>
    rw [c16_clean] at h
    rw [visit]
    exact c16_quiet_bind _ _ _ _ _ (c16_quiet_visitAll cfg hdr cs h) (fun _ _ => c16_quiet_pure _ _)
  | .checkbox c => rw [visit]; exact c16_quiet_pure _ _
  | .table sid sname rows =>
    rw [c16_clean] at h
    rw [visit]
    simp only
    split
    · exact c16_quiet_pure _ _
    · exact c16_quiet_bind _ _ _ _ _ (c16_quiet_visitRows cfg true rows h) (fun _ _ => c16_quiet_pure _ _)
  | .row b cells =>
    rw [c16_clean] at h
    rw [visit]
    exact c16_quiet_bind _ _ _ _ _ (c16_quiet_visitAll cfg hdr cells h) (fun _ _ => c16_quiet_pure _ _)
  | .cell c r v cs =>
    rw [c16_clean] at h
    rw [visit]
    exact c16_quiet_bind _ _ _ _ _ (c16_quiet_visitAll cfg hdr cs h) (fun _ _ => c16_quiet_pure _ _)
  | .brk ty =>
    rw [visit]
    split
    · exact c16_quiet_pure _ _
    · exact c16_quiet_pure _ _
    · split <;> exact c16_quiet_pure _ _
  | .tab => rw [visit]; exact c16_quiet_pure _ _
  | .image i =>
    rw [c16_clean] at h
    rw [visit]; exact c16_quiet_convertImage _ _ _ h
  | .bookmark n => rw [visit]; exact c16_quiet_pure _ _
  | .noteRef ty id =>
    rw [visit]
    apply c16_quiet_bind _ _ _ (fun _ => True)
    · exact c16_quiet_modify _ _ (fun _ => c16_keeps_refl _ _)
    · intro _ _
      exact c16_quiet_bind _ _ _ _ _ (c16_quiet_get _) (fun _ _ => c16_quiet_pure _ _)
  | .commentRef id =>
    rw [visit]
    split
    · exact c16_quiet_pure _ _
    · exact c16_quiet_pure _ _
    · split
      · exact c16_quiet_throw _ _ _
      · rename_i c hc
        have hmem : c ∈ cfg.comments := by
          have := c16_lookupLast_mem _ _ _ hc
          rw [List.mem_map] at this
          obtain ⟨c', hc', he⟩ := this
          cases he; exact hc'
        apply c16_quiet_bind _ _ _ _ _ (c16_quiet_get _)
        intro _ _
        apply c16_quiet_bind _ _ _ (fun _ => True)
        · apply c16_quiet_modify
          intro s
          refine ⟨rfl, fun lc hlc => ?_⟩
          simp only [List.mem_append, List.mem_singleton] at hlc
          rcases hlc with hlc | hlc
          · exact Or.inl hlc
          · subst hlc; exact Or.inr hmem
        · intro _ _; exact c16_quiet_pure _ _
theorem c16_quiet_visitAll (cfg : Cfg) (hdr : Bool) (es : List Elem) (h : c16_cleanL cfg es = true) :
    c16_quiet cfg.comments (visitAll cfg hdr es) := by
  match es with
  | [] => rw [visitAll]; exact c16_quiet_pure _ _
  | e :: es =>
    rw [c16_cleanL, Bool.and_eq_true] at h
    rw [visitAll]
    apply c16_quiet_bind _ _ _ _ _ (c16_quiet_visit cfg hdr e h.1)
    intro _ _
    exact c16_quiet_bind _ _ _ _ _ (c16_quiet_visitAll cfg hdr es h.2) (fun _ _ => c16_quiet_pure _ _)
theorem c16_quiet_visitRows (cfg : Cfg) (inHead : Bool) (rs : List Elem)
    (h : c16_cleanL cfg rs = true) : c16_quiet cfg.comments (visitRows cfg inHead rs) := by
  match rs with
  | [] => rw [visitRows]; exact c16_quiet_pure _ _
  | r :: rs =>
    rw [c16_cleanL, Bool.and_eq_true] at h
    rw [visitRows]
    split
    · apply c16_quiet_bind _ _ _ _ _ (c16_quiet_visit cfg true r h.1)
      intro _ _
      exact c16_quiet_bind _ _ _ _ _ (c16_quiet_visitRows cfg true rs h.2) (fun _ _ => c16_quiet_pure _ _)
    · apply c16_quiet_bind _ _ _ _ _ (c16_quiet_visit cfg false r h.1)
      intro _ _
      exact c16_quiet_bind _ _ _ _ _ (c16_quiet_visitRows cfg false rs h.2) (fun _ _ => c16_quiet_pure _ _)
end

/-! ### the whole document -/

theorem c16_quiet_mapMConcat (cms : List Comment) {α} (f : α → ConvM (List Node)) (xs : List α)
    (h : ∀ x ∈ xs, c16_quiet cms (f x)) : c16_quiet cms (mapMConcat f xs) := by
  induction xs with
  | nil => rw [mapMConcat]; exact c16_quiet_pure _ _
  | cons x xs ih =>
    rw [mapMConcat]
    apply c16_quiet_bind _ _ _ _ _ (h x List.mem_cons_self)
    intro _ _
    exact c16_quiet_bind _ _ _ _ _ (ih (fun y hy => h y (List.mem_cons_of_mem _ hy)))
      (fun _ _ => c16_quiet_pure _ _)

theorem c16_quiet_visitNote (cfg : Cfg) (n : Note) (h : c16_cleanL cfg n.body = true) :
    c16_quiet cfg.comments (visitNote cfg n) := by
  unfold visitNote
  exact c16_quiet_bind _ _ _ _ _ (c16_quiet_visitAll cfg false n.body h) (fun _ _ => c16_quiet_pure _ _)

theorem c16_quiet_visitComment (cfg : Cfg) (lc : Str × Comment) (h : c16_cleanL cfg lc.2.body = true) :
    c16_quiet cfg.comments (visitComment cfg lc) := by
  unfold visitComment
  exact c16_quiet_bind _ _ _ _ _ (c16_quiet_visitAll cfg false lc.2.body h) (fun _ _ => c16_quiet_pure _ _)

theorem c16_resolveNote_mem (notes : List Note) (ref : Str × Str) (n : Note)
    (h : resolveNote notes ref = .ok n) : n ∈ notes := by
  unfold resolveNote at h
  split at h
  · rename_i n' hl
    cases h
    have := c16_lookupLast_mem _ _ _ hl
    rw [List.mem_map] at this
    obtain ⟨m, hm, he⟩ := this
    cases he; exact hm
  · cases h

theorem c16_mapM_resolve (notes : List Note) (refs : List (Str × Str)) (l : List Note)
    (h : refs.mapM (resolveNote notes) = .ok l) : ∀ n ∈ l, n ∈ notes := by
  induction refs generalizing l with
  | nil =>
    simp only [List.mapM_nil, pure, Except.pure] at h
    cases h; intro n hn; cases hn
  | cons r rs ih =>
    simp only [List.mapM_cons, bind, Except.bind, pure, Except.pure] at h
    cases hr : resolveNote notes r with
    | error e => rw [hr] at h; cases h
    | ok n0 =>
      rw [hr] at h
      simp only at h
      cases hrs : rs.mapM (resolveNote notes) with
      | error e => rw [hrs] at h; cases h
      | ok l0 =>
        rw [hrs] at h
        cases h
        intro n hn
        rcases List.mem_cons.mp hn with rfl | hn
        · exact c16_resolveNote_mem _ _ _ hr
        · exact ih l0 hrs n hn

/-- a clean document leaves the message list of the state alone -/
theorem c16_visitDocument_quiet (cfg : Cfg) (d : Document) (st st' : ConvState) (nodes : List Node)
    (hrefs : ∀ lc ∈ st.refComments, lc.2 ∈ cfg.comments)
    (hc : c16_cleanL cfg d.children = true)
    (hn : ∀ n ∈ d.notes, c16_cleanL cfg n.body = true)
    (hcm : ∀ c ∈ cfg.comments, c16_cleanL cfg c.body = true)
    (h : (visitDocument cfg d).run st = .ok (nodes, st')) : st'.messages = st.messages := by
  unfold visitDocument at h
  rw [c03_bind_run] at h
  cases h1 : (visitAll cfg false d.children).run st with
  | error e => rw [h1] at h; cases h
  | ok r1 =>
    obtain ⟨nodes1, s1⟩ := r1
    rw [h1] at h
    have k1 := (c16_quiet_visitAll cfg false d.children hc st nodes1 s1 h1).1
    have hrefs1 : ∀ lc ∈ s1.refComments, lc.2 ∈ cfg.comments := by
      intro lc hlc
      rcases k1.2 lc hlc with h' | h'
      · exact hrefs lc h'
      · exact h'
    simp only at h
    rw [c03_bind_run] at h
    have eg : ∀ s : ConvState, (get : ConvM ConvState).run s = .ok (s, s) := fun _ => rfl
    rw [eg] at h
    simp only at h
    cases hm : List.mapM (resolveNote d.notes) s1.noteRefs with
    | error e =>
      rw [hm] at h
      simp only at h
      rw [c03_bind_run] at h
      have : (throw e : ConvM (List Note)).run s1 = .error e := rfl
      simp only [this] at h
      cases h
    | ok notes =>
      rw [hm] at h
      simp only at h
      rw [c03_bind_run] at h
      have : (pure notes : ConvM (List Note)).run s1 = .ok (notes, s1) := rfl
      simp only [this] at h
      rw [c03_bind_run] at h
      cases h2 : (mapMConcat (visitNote cfg) notes).run s1 with
      | error e => rw [h2] at h; cases h
      | ok r2 =>
        obtain ⟨nn, s2⟩ := r2
        rw [h2] at h
        have hnotes := c16_mapM_resolve _ _ _ hm
        have k2 := (c16_quiet_mapMConcat cfg.comments (visitNote cfg) notes
          (fun n hmem => c16_quiet_visitNote cfg n (hn n (hnotes n hmem))) s1 nn s2 h2).1
        have hrefs2 : ∀ lc ∈ s2.refComments, lc.2 ∈ cfg.comments := by
          intro lc hlc
          rcases k2.2 lc hlc with h' | h'
          · exact hrefs1 lc h'
          · exact h'
        simp only at h
        rw [c03_bind_run, eg] at h
        simp only at h
        rw [c03_bind_run] at h
        cases h3 : (mapMConcat (visitComment cfg) s2.refComments).run s2 with
        | error e => rw [h3] at h; cases h
        | ok r3 =>
          obtain ⟨cn, s3⟩ := r3
          rw [h3] at h
          have k3 := (c16_quiet_mapMConcat cfg.comments (visitComment cfg) s2.refComments
            (fun lc hmem => c16_quiet_visitComment cfg lc (hcm lc.2 (hrefs2 lc hmem))) s2 cn s3 h3).1
          simp only at h
          have : ∀ x : List Node, (pure x : ConvM (List Node)).run s3 = .ok (x, s3) := fun _ => rfl
          rw [this] at h
          cases h
          rw [k3.1, k2.1, k1.1]

/-- cleanliness does not depend on the comment table of the configuration -/
theorem c16_styleOk_comments (cfg : Cfg) (cms : List Comment) (t : Target) (sid : Option Str) :
    c16_styleOk { cfg with comments := cms } t sid = c16_styleOk cfg t sid := rfl

theorem c16_imageOk_comments (cfg : Cfg) (cms : List Comment) (i : ImageProps) :
    c16_imageOk { cfg with comments := cms } i = c16_imageOk cfg i := rfl

mutual
theorem c16_clean_comments (cfg : Cfg) (cms : List Comment) (e : Elem) :
    c16_clean { cfg with comments := cms } e = c16_clean cfg e := by
  match e with
  | .paragraph p cs => rw [c16_clean, c16_clean, c16_cleanL_comments cfg cms cs, c16_styleOk_comments]
  | .run r cs => rw [c16_clean, c16_clean, c16_cleanL_comments cfg cms cs, c16_styleOk_comments]
  | .text _ => rw [c16_clean, c16_clean]
  | .hyperlink _ cs => rw [c16_clean, c16_clean, c16_cleanL_comments cfg cms cs]
  | .checkbox _ => rw [c16_clean, c16_clean]
  | .table _ _ rows => rw [c16_clean, c16_clean, c16_cleanL_comments cfg cms rows]
  | .row _ cells => rw [c16_clean, c16_clean, c16_cleanL_comments cfg cms cells]
  | .cell _ _ _ cs => rw [c16_clean, c16_clean, c16_cleanL_comments cfg cms cs]
  | .brk _ => rw [c16_clean, c16_clean]
  | .tab => rw [c16_clean, c16_clean]
  | .image i => rw [c16_clean, c16_clean, c16_imageOk_comments]
  | .bookmark _ => rw [c16_clean, c16_clean]
  | .noteRef _ _ => rw [c16_clean, c16_clean]
  | .commentRef _ => rw [c16_clean, c16_clean]
theorem c16_cleanL_comments (cfg : Cfg) (cms : List Comment) (es : List Elem) :
    c16_cleanL { cfg with comments := cms } es = c16_cleanL cfg es := by
  match es with
  | [] => rw [c16_cleanL, c16_cleanL]
  | e :: es =>
    rw [c16_cleanL, c16_cleanL, c16_clean_comments cfg cms e, c16_cleanL_comments cfg cms es]
end

end Mammoth
