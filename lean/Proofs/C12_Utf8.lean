/-
  C12 helper: the model's UTF-8 decoder inverts its encoder (`bytes.decode('utf8')` after
  `str.encode('utf8')`), for every string.
-/
import MammothModel.Embed
namespace Mammoth

theorem c12_toUInt8_toNat (n : Nat) (h : n < 256) : n.toUInt8.toNat = n := by
  simp [Nat.toUInt8]; omega

theorem c12_char_valid (c : Char) : c.toNat < 0xD800 ∨ (0xDFFF < c.toNat ∧ c.toNat < 0x110000) := 
  c.valid

theorem c12_dec1 (b0 : UInt8) (rest : Bytes) (h : b0.toNat < 0x80) :
    utf8DecodeL (b0 :: rest) = (utf8DecodeL rest).map (Char.ofNat b0.toNat :: ·) := by
  conv => lhs; unfold utf8DecodeL
  simp only [h, if_true]

theorem c12_dec2 (b0 b1 : UInt8) (rest : Bytes) (h0 : 0xC2 ≤ b0.toNat) (h0' : b0.toNat < 0xE0)
    (h1 : 0x80 ≤ b1.toNat) (h1' : b1.toNat < 0xC0) :
    utf8DecodeL (b0 :: b1 :: rest) =
      (utf8DecodeL rest).map (Char.ofNat ((b0.toNat - 0xC0) * 64 + (b1.toNat - 0x80)) :: ·) := by
  conv => lhs; unfold utf8DecodeL
  have a1 : ¬ b0.toNat < 0x80 := by omega
  have a2 : ¬ b0.toNat < 0xC2 := by omega
  simp [a1, a2, h0', utf8IsCont, h1, h1']

theorem c12_dec3 (b0 b1 b2 : UInt8) (rest : Bytes) (h0 : 0xE0 ≤ b0.toNat) (h0' : b0.toNat < 0xF0)
    (h1 : 0x80 ≤ b1.toNat) (h1' : b1.toNat < 0xC0) (h2 : 0x80 ≤ b2.toNat) (h2' : b2.toNat < 0xC0)
    (n : Nat) (hn : (b0.toNat - 0xE0) * 4096 + (b1.toNat - 0x80) * 64 + (b2.toNat - 0x80) = n)
    (hr : 0x800 ≤ n) (hs : n < 0xD800 ∨ 0xE000 ≤ n) :
    utf8DecodeL (b0 :: b1 :: b2 :: rest) = (utf8DecodeL rest).map (Char.ofNat n :: ·) := by
  conv => lhs; unfold utf8DecodeL
  have a1 : ¬ b0.toNat < 0x80 := by omega
  have a2 : ¬ b0.toNat < 0xC2 := by omega
  have a3 : ¬ b0.toNat < 0xE0 := by omega
  have a4 : ¬ n < 0x800 := by omega
  simp only [a1, a2, a3, h0', utf8IsCont, h1, h1', h2, h2', hn, a4, if_true, if_false, decide_true,
    decide_false, Bool.and_self, Bool.false_or]
  by_cases h5 : 0xD800 ≤ n
  · have h6 : ¬ n < 0xE000 := by omega
    simp [h5, h6]
  · simp [h5]

theorem c12_dec4 (b0 b1 b2 b3 : UInt8) (rest : Bytes) (h0 : 0xF0 ≤ b0.toNat) (h0' : b0.toNat < 0xF5)
    (h1 : 0x80 ≤ b1.toNat) (h1' : b1.toNat < 0xC0) (h2 : 0x80 ≤ b2.toNat) (h2' : b2.toNat < 0xC0)
    (h3 : 0x80 ≤ b3.toNat) (h3' : b3.toNat < 0xC0)
    (n : Nat) (hn : (b0.toNat - 0xF0) * 262144 + (b1.toNat - 0x80) * 4096 + (b2.toNat - 0x80) * 64 + (b3.toNat - 0x80) = n)
    (hr : 0x10000 ≤ n) (hs : n < 0x110000) :
    utf8DecodeL (b0 :: b1 :: b2 :: b3 :: rest) = (utf8DecodeL rest).map (Char.ofNat n :: ·) := by
  conv => lhs; unfold utf8DecodeL
  have a1 : ¬ b0.toNat < 0x80 := by omega
  have a2 : ¬ b0.toNat < 0xC2 := by omega
  have a3 : ¬ b0.toNat < 0xE0 := by omega
  have a3' : ¬ b0.toNat < 0xF0 := by omega
  have a4 : ¬ n < 0x10000 := by omega
  have a5 : ¬ 0x110000 ≤ n := by omega
  simp only [a1, a2, a3, a3', h0', utf8IsCont, h1, h1', h2, h2', h3, h3', hn, a4, a5, if_true, if_false,
    decide_true, decide_false, Bool.and_self, Bool.or_self]
  simp

theorem c12_utf8_char (c : Char) (rest : Bytes) :
    utf8DecodeL (utf8EncodeChar c ++ rest) = (utf8DecodeL rest).map (c :: ·) := by
  have hv := c12_char_valid c
  have hc := Char.ofNat_toNat c
  generalize hn : c.toNat = n at hv hc
  unfold utf8EncodeChar
  simp only [hn]
  by_cases h1 : n < 0x80
  · simp only [h1, if_true, List.cons_append, List.nil_append]
    rw [c12_dec1 _ _ (by rw [c12_toUInt8_toNat n (by omega)]; exact h1), c12_toUInt8_toNat n (by omega), hc]
  · by_cases h2 : n < 0x800
    · simp only [h1, h2, if_true, if_false, List.cons_append, List.nil_append]
      have e0 := c12_toUInt8_toNat (0xC0 + n / 64) (by omega)
      have e1 := c12_toUInt8_toNat (0x80 + n % 64) (by omega)
      rw [c12_dec2 _ _ _ (by omega) (by omega) (by omega) (by omega), e0, e1]
      have : (0xC0 + n / 64 - 0xC0) * 64 + (0x80 + n % 64 - 0x80) = n := by omega
      rw [this, hc]
    · by_cases h3 : n < 0x10000
      · simp only [h1, h2, h3, if_true, if_false, List.cons_append, List.nil_append]
        have e0 := c12_toUInt8_toNat (0xE0 + n / 4096) (by omega)
        have e1 := c12_toUInt8_toNat (0x80 + n / 64 % 64) (by omega)
        have e2 := c12_toUInt8_toNat (0x80 + n % 64) (by omega)
        rw [c12_dec3 _ _ _ _ (by omega) (by omega) (by omega) (by omega) (by omega) (by omega) n
          (by omega) (by omega) (by omega), hc]
      · simp only [h1, h2, h3, if_false, List.cons_append, List.nil_append]
        have e0 := c12_toUInt8_toNat (0xF0 + n / 262144) (by omega)
        have e1 := c12_toUInt8_toNat (0x80 + n / 4096 % 64) (by omega)
        have e2 := c12_toUInt8_toNat (0x80 + n / 64 % 64) (by omega)
        have e3 := c12_toUInt8_toNat (0x80 + n % 64) (by omega)
        rw [c12_dec4 _ _ _ _ _ (by omega) (by omega) (by omega) (by omega) (by omega) (by omega)
          (by omega) (by omega) n (by omega) (by omega) (by omega), hc]

theorem c12_utf8_roundtrip (s : Str) : utf8DecodeL (utf8Encode s) = some s := by
  induction s with
  | nil => simp [utf8Encode, utf8DecodeL]
  | cons c cs ih => simp [utf8Encode, c12_utf8_char, ih]

end Mammoth
