/-
  C06_Tokenise — the tokeniser on the printed text of a mapping gives back the intended tokens.
-/
import Proofs.C06_Lex
namespace Mammoth

/-! ### one token -/

def c06_symbols : List Str :=
  [[':'], ['>'], ['=', '>'], ['^', '='], ['='], ['('], [')'], ['['], [']'], ['|'], ['!'], ['.']]

/-- the text starts with a character that is not `c` -/
def c06_headNe (p : Char → Bool) : Str → Bool
  | [] => true
  | c :: _ => !p c

theorem c06_lexOne_of_ident (X m r : Str) (h : lexIdent X = some (m, r)) :
    lexOne X = some (⟨.identifier, m⟩, r) := by
  unfold lexOne; rw [h]

theorem c06_lexOne_of_symbol (X m r : Str) (h1 : lexIdent X = none) (h : lexSymbol X = some (m, r)) :
    lexOne X = some (⟨.symbol, m⟩, r) := by
  unfold lexOne; rw [h1, h]

theorem c06_lexOne_of_ws (X m r : Str) (h1 : lexIdent X = none) (h2 : lexSymbol X = none)
    (h : lexWs X = some (m, r)) : lexOne X = some (⟨.whitespace, m⟩, r) := by
  unfold lexOne; rw [h1, h2, h]

theorem c06_lexOne_of_string (X m r : Str) (ty : TokTy) (h1 : lexIdent X = none) (h2 : lexSymbol X = none)
    (h3 : lexWs X = none) (h : lexString X = some (ty, m, r)) : lexOne X = some (⟨ty, m⟩, r) := by
  unfold lexOne; rw [h1, h2, h3, h]

theorem c06_lexOne_of_int (X m r : Str) (h1 : lexIdent X = none) (h2 : lexSymbol X = none)
    (h3 : lexWs X = none) (h4 : lexString X = none) (h : lexInt X = some (m, r)) :
    lexOne X = some (⟨.integer, m⟩, r) := by
  unfold lexOne; rw [h1, h2, h3, h4, h]

theorem c06_lexOne_id (s rest : Str) (hs : s ≠ []) (h : c06_stop rest = true) :
    lexOne (c06_printIdent s ++ rest) = some (c06_id s, rest) := by
  exact c06_lexOne_of_ident _ _ _ (c06_lexIdent_print s rest hs h)

theorem c06_lexIdent_none (c : Char) (X : Str) (h1 : c ≠ '\\') (h2 : isIdentStart c = false) :
    lexIdent (c :: X) = none := by
  rw [lexIdent.eq_def]
  split
  · rename_i heq; simp at heq; exact absurd heq.1 h1
  · rename_i heq; simp at heq; obtain ⟨rfl, rfl⟩ := heq; simp [h2]
  · rfl

theorem c06_lexSymbol_eq (c : Char) (cs : Str) (h : c ≠ '>') :
    lexSymbol ('=' :: c :: cs) = some (['='], c :: cs) := by
  rw [lexSymbol.eq_def]
  split <;> simp_all

theorem c06_lexSymbol_digit (d : Char) (X : Str) (hdd : isDigit d = true) : lexSymbol (d :: X) = none := by
  rw [lexSymbol.eq_def]
  split <;> first | rfl | (rename_i heq; simp at heq; exfalso; revert hdd; rw [heq.1]; decide)

theorem c06_lexSymbol_of (v rest : Str) (hv : v ∈ c06_symbols)
    (h : v = ['='] → c06_headNe (· == '>') rest = true) :
    lexIdent (v ++ rest) = none ∧ lexSymbol (v ++ rest) = some (v, rest) := by
  simp only [c06_symbols, List.mem_cons, List.not_mem_nil, or_false] at hv
  rcases hv with rfl | rfl | rfl | rfl | rfl | rfl | rfl | rfl | rfl | rfl | rfl | rfl
  case inr.inr.inr.inr.inl =>
    refine ⟨c06_lexIdent_none _ _ (by decide) (by decide), ?_⟩
    have h' := h rfl
    cases rest with
    | nil => simp [lexSymbol]
    | cons c cs =>
      simp only [c06_headNe, Bool.not_eq_true', beq_eq_false_iff_ne] at h'
      exact c06_lexSymbol_eq c cs h'
  all_goals exact ⟨c06_lexIdent_none _ _ (by decide) (by decide), by simp [lexSymbol]⟩

theorem c06_lexOne_sym (v rest : Str) (hv : v ∈ c06_symbols)
    (h : v = ['='] → c06_headNe (· == '>') rest = true) :
    lexOne (v ++ rest) = some (c06_sym v, rest) := by
  obtain ⟨h1, h2⟩ := c06_lexSymbol_of v rest hv h
  exact c06_lexOne_of_symbol _ _ _ h1 h2

theorem c06_lexOne_sp (rest : Str) (h : c06_headNe isSpace rest = true) :
    lexOne (' ' :: rest) = some (c06_sp, rest) := by
  have hw := c06_lexWs_blank rest (by
    intro c t e; subst e; simpa [c06_headNe] using h)
  have h1 : lexIdent (' ' :: rest) = none := c06_lexIdent_none _ _ (by decide) (by decide)
  have h2 : lexSymbol (' ' :: rest) = none := by simp [lexSymbol]
  exact c06_lexOne_of_ws _ _ _ h1 h2 hw

theorem c06_lexOne_str (s rest : Str) :
    lexOne (c06_printString s ++ rest) = some (c06_str s, rest) := by
  have h4 := c06_lexString_print s rest
  simp only [c06_printString, List.cons_append] at h4 ⊢
  have h1 : ∀ X, lexIdent ('\'' :: X) = none := fun X => c06_lexIdent_none _ _ (by decide) (by decide)
  have h2 : ∀ X, lexSymbol ('\'' :: X) = none := by intro X; simp [lexSymbol]
  have h3 : ∀ X, lexWs ('\'' :: X) = none := by intro X; simp [lexWs, spanP, isSpace]
  exact c06_lexOne_of_string _ _ _ _ (h1 _) (h2 _) (h3 _) h4

theorem c06_lexOne_int (ds rest : Str) (hne : ds ≠ []) (hd : ∀ c ∈ ds, isDigit c = true)
    (hr : c06_headNe isDigit rest = true) :
    lexOne (ds ++ rest) = some (⟨.integer, ds⟩, rest) := by
  have hI := c06_lexInt_digits ds rest hne hd (by intro c t e; subst e; simpa [c06_headNe] using hr)
  cases ds with
  | nil => exact absurd rfl hne
  | cons d ds =>
    have hdd := hd d (List.mem_cons_self)
    obtain ⟨hsp, hid⟩ := c06_digit_facts d hdd
    have hbs : d ≠ '\\' := by intro e; subst e; revert hdd; decide
    have h1 : lexIdent (d :: (ds ++ rest)) = none := c06_lexIdent_none _ _ hbs hid
    have h2 : lexSymbol (d :: (ds ++ rest)) = none := c06_lexSymbol_digit _ _ hdd
    have h3 : lexWs (d :: (ds ++ rest)) = none := by simp [lexWs, spanP, hsp]
    have h4 : lexString (d :: (ds ++ rest)) = none := by
      have : d ≠ '\'' := by intro e; subst e; revert hdd; decide
      rw [lexString.eq_def]
      split
      · rename_i heq; simp at heq; exact absurd heq.1 this
      · rfl
    simp only [List.cons_append] at hI ⊢
    exact c06_lexOne_of_int _ _ _ h1 h2 h3 h4 hI

/-! ### chains of tokens -/

/-- every token of the list is what the tokeniser produces at its position, when the list's text
    is followed by `rest` -/
def c06_chain : List Token → Str → Prop
  | [], _ => True
  | t :: ts, rest =>
    t.val ≠ [] ∧ lexOne (t.val ++ (c06_text ts ++ rest)) = some (t, c06_text ts ++ rest) ∧ c06_chain ts rest

theorem c06_text_append (a b : List Token) : c06_text (a ++ b) = c06_text a ++ c06_text b := by
  induction a with
  | nil => rfl
  | cons t ts ih => simp [c06_text, ih]

theorem c06_chain_append (a b : List Token) (rest : Str) (ha : c06_chain a (c06_text b ++ rest))
    (hb : c06_chain b rest) : c06_chain (a ++ b) rest := by
  induction a with
  | nil => simpa using hb
  | cons t ts ih =>
    obtain ⟨h1, h2, h3⟩ := ha
    refine ⟨h1, ?_, ih h3⟩
    simpa [c06_text_append, List.append_assoc] using h2

theorem c06_tokeniseFuel_chain (ts : List Token) : ∀ (f : Nat), (c06_text ts).length ≤ f →
    c06_chain ts [] → tokeniseFuel f (c06_text ts) = some (ts ++ [c06_end]) := by
  induction ts with
  | nil => intro f _ _; simp [c06_text, tokeniseFuel, c06_end]
  | cons t ts ih =>
    intro f hf hc
    obtain ⟨h1, h2, h3⟩ := hc
    simp only [List.append_nil] at h2
    simp only [c06_text, List.length_append] at hf
    have hl : 0 < t.val.length := List.length_pos_iff.mpr h1
    cases f with
    | zero => omega
    | succ f =>
      have := ih f (by omega) h3
      cases hv : t.val ++ c06_text ts with
      | nil => simp at hv; exact absurd hv.1 h1
      | cons c cs =>
        rw [hv] at h2
        simp only [c06_text, hv, tokeniseFuel, h2, this]
        simp

theorem c06_tokenise_chain (ts : List Token) (h : c06_chain ts []) :
    tokenise (c06_text ts) = some (ts ++ [c06_end]) :=
  c06_tokeniseFuel_chain ts _ (Nat.le_refl _) h

end Mammoth
