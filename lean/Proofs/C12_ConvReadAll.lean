/-
  C12 (conversion) — `read_all`, the note reader and the comment reader under the two environments of
  `Proofs/C12_ConvRead.lean`.
-/
import Proofs.C12_ConvRead
namespace Mammoth

theorem c12_readAllWith_ag {chk : Bool} {env : REnv} (rd' rd : c05_Rd)
    (hrd : ∀ st n, c12_useOk chk env n = true → c12_useOkL chk env st.deleted = true →
      c12_ag (c12_I chk env) (rd' st n) (rd st n)) :
    ∀ (ns : List XmlNode) (st : RState), c12_useOkL chk env ns = true → c12_useOkL chk env st.deleted = true →
      c12_ag (c12_I chk env) (readAllWith rd' st ns) (readAllWith rd st ns)
  | [], st, _, hd => by simp only [readAllWith]; exact c12_ag_ok _ hd
  | .text _ :: rest, st, hs, hd => by
    simp only [readAllWith]
    simp only [c12_useOkL, Bool.and_eq_true] at hs
    exact c12_readAllWith_ag rd' rd hrd rest st hs.2 hd
  | .elem n as cs :: rest, st, hs, hd => by
    simp only [readAllWith]
    simp only [c12_useOkL, Bool.and_eq_true] at hs
    refine c12_ag_bind (hrd _ _ hs.1 hd) (fun a ha => ?_)
    refine c12_ag_bind (c12_readAllWith_ag rd' rd hrd rest _ hs.2 ha) (fun b hb => ?_)
    exact c12_ag_pure _ hb

theorem c12_readElem_ag {chk : Bool} {env : REnv} {rels' : Rels} {ct' : ContentTypes}
    (hs : c12_EnvSim chk env rels' ct') :
    ∀ (f : Nat) (st : RState) (n : XmlNode), c12_useOk chk env n = true → c12_useOkL chk env st.deleted = true →
      c12_ag (c12_I chk env) (readElem (c12_reenv env rels' ct') f st n) (readElem env f st n)
  | f, st, .text s, _, hd => by rw [c05_readElem_text, c05_readElem_text]; exact c12_ag_ok _ hd
  | 0, st, .elem name as cs, _, _ => by
    rw [c05_readElem_zero, c05_readElem_zero]; exact c12_ag_err _
  | f+1, st, .elem name as cs, hu, hd => by
    rw [c05_readElem_succ, c05_readElem_succ]
    simp only [c12_useOk, Bool.and_eq_true] at hu
    exact c12_readBody_ag hs _ _
      (fun st ns h1 h2 => c12_readAllWith_ag _ _ (c12_readElem_ag hs f) ns st h1 h2)
      st name as cs hu.1 hu.2 hd

/-- `read_all` gives the same result under both environments -/
theorem c12_readAll_ag {chk : Bool} {env : REnv} {rels' : Rels} {ct' : ContentTypes}
    (hs : c12_EnvSim chk env rels' ct') (fuel : Nat) (st : RState) (ns : List XmlNode)
    (hns : c12_useOkL chk env ns = true) (hd : c12_useOkL chk env st.deleted = true) :
    c12_ag (c12_I chk env) (readAll (c12_reenv env rels' ct') fuel st ns) (readAll env fuel st ns) :=
  c12_readAllWith_ag _ _ (c12_readElem_ag hs fuel) ns st hns hd

/-- the children of every listed element are fine -/
def c12_elemsOk (chk : Bool) (env : REnv) (xs : List (Attrs × List XmlNode)) : Bool :=
  xs.all fun x => c12_useOkL chk env x.2

theorem c12_elemsOk_findChildren (chk : Bool) (env : REnv) (name : Str) (cs : List XmlNode)
    (h : c12_useOkL chk env cs = true) : c12_elemsOk chk env (findChildren name cs) = true := by
  unfold c12_elemsOk
  induction cs with
  | nil => simp [findChildren]
  | cons c cs ih =>
    simp only [c12_useOkL, Bool.and_eq_true] at h
    cases c with
    | text s => simp only [findChildren]; exact ih h.2
    | elem n as ccs =>
      simp only [findChildren]
      have h1 := h.1
      simp only [c12_useOk, Bool.and_eq_true] at h1
      split
      · simp only [List.all_cons, Bool.and_eq_true]; exact ⟨h1.2, ih h.2⟩
      · exact ih h.2

theorem c12_elemsOk_filter (chk : Bool) (env : REnv) (q : Attrs × List XmlNode → Bool)
    (xs : List (Attrs × List XmlNode)) (h : c12_elemsOk chk env xs = true) :
    c12_elemsOk chk env (xs.filter q) = true := by
  unfold c12_elemsOk at h ⊢
  rw [List.all_eq_true] at h ⊢
  exact fun x hx => h x (List.mem_filter.mp hx).1

theorem c12_readNoteElems_eq {chk : Bool} {env : REnv} {rels' : Rels} {ct' : ContentTypes}
    (hs : c12_EnvSim chk env rels' ct') (fuel : Nat) (ty : Str) :
    ∀ (xs : List (Attrs × List XmlNode)) (st : RState), c12_elemsOk chk env xs = true →
      c12_useOkL chk env st.deleted = true →
      readNoteElems (c12_reenv env rels' ct') fuel ty st xs = readNoteElems env fuel ty st xs
  | [], st, _, _ => by simp only [readNoteElems]
  | (as, cs) :: rest, st, hx, hd => by
    simp only [c12_elemsOk, List.all_cons, Bool.and_eq_true] at hx
    simp only [readNoteElems, bind, Except.bind]
    obtain ⟨he, hI⟩ := c12_readAll_ag hs fuel st cs hx.1 hd
    rw [he]
    cases hr : readAll env fuel st cs with
    | error e => simp only
    | ok a =>
      have := c12_readNoteElems_eq hs fuel ty rest a.2 hx.2 (hI a hr)
      simp only
      rw [this]

theorem c12_readCommentElems_eq {chk : Bool} {env : REnv} {rels' : Rels} {ct' : ContentTypes}
    (hs : c12_EnvSim chk env rels' ct') (fuel : Nat) :
    ∀ (xs : List (Attrs × List XmlNode)) (st : RState), c12_elemsOk chk env xs = true →
      c12_useOkL chk env st.deleted = true →
      readCommentElems (c12_reenv env rels' ct') fuel st xs = readCommentElems env fuel st xs
  | [], st, _, _ => by simp only [readCommentElems]
  | (as, cs) :: rest, st, hx, hd => by
    simp only [c12_elemsOk, List.all_cons, Bool.and_eq_true] at hx
    simp only [readCommentElems, bind, Except.bind]
    obtain ⟨he, hI⟩ := c12_readAll_ag hs fuel st cs hx.1 hd
    rw [he]
    cases hr : readAll env fuel st cs with
    | error e => simp only
    | ok a =>
      have := c12_readCommentElems_eq hs fuel rest a.2 hx.2 (hI a hr)
      simp only
      rw [this]

end Mammoth
