/-
  C09 — the document grid of a valid table is total: every position inside the grid has an owner,
  positions outside have none.
-/
import Proofs.C09_LayoutProof
namespace Mammoth

theorem c09_cellAt_isSome (cells : c09_Row) :
    ∀ (ci i x : Nat), ci ≤ x → ((c09_cellAt cells ci i x).isSome = true ↔ x < ci + c09_width cells) := by
  induction cells with
  | nil => intro ci i x h; simp [c09_cellAt, c09_width]; omega
  | cons d ds ih =>
    intro ci i x h
    by_cases hlt : x < ci + d.span
    · rw [c09_cellAt_lt ci i x d ds hlt]; simp [c09_width]; omega
    · rw [c09_cellAt_ge d ds ci i x hlt, ih _ _ x (by omega)]; simp [c09_width]; omega

/-- if the row above is completely owned, so is this row -/
theorem c09_docRow_isSome (pp prev row : c09_Row) (prevOwn : Nat → Option c09_Id) (y : Nat)
    (hpp : c09_rowOkFrom pp prev 0 = true) (hok : c09_rowOkFrom prev row 0 = true)
    (hown : ∀ x, (c09_cellAt prev 0 0 x).isSome = true → (prevOwn x).isSome = true) (x : Nat) :
    (c09_docRow prevOwn y row x).isSome = true ↔ (c09_cellAt row 0 0 x).isSome = true := by
  cases hc : c09_cellAt row 0 0 x with
  | none => simp [c09_docRow_none hc]
  | some p =>
    obtain ⟨s, i, c⟩ := p
    rw [c09_docRow_some hc]
    cases hd : c.isCont with
    | false => simp
    | true =>
      obtain ⟨i0, c0, h0, _⟩ := c09_cont_above pp prev row x s i c hpp hok hc hd
      have := hown x (by simp [h0])
      simpa using this

theorem c09_docRows_isSome (rest : List c09_Row) :
    ∀ (pp prev : c09_Row) (prevOwn : Nat → Option c09_Id) (y : Nat), c09_rowOkFrom pp prev 0 = true →
      c09_validFrom prev rest = true →
      (∀ x, (c09_cellAt prev 0 0 x).isSome = true → (prevOwn x).isSome = true) →
      ∀ j x, (c09_ownAt (c09_docRows prevOwn y rest) j x).isSome = true ↔
        ∃ row, rest[j]? = some row ∧ x < c09_width row := by
  induction rest with
  | nil => intro pp prev prevOwn y _ _ _ j x; simp [c09_docRows, c09_ownAt]
  | cons row rest ih =>
    intro pp prev prevOwn y hpp hv hown j x
    simp only [c09_validFrom, Bool.and_eq_true] at hv
    have hrow := c09_docRow_isSome pp prev row prevOwn y hpp hv.1 hown
    cases j with
    | zero =>
      simp only [c09_docRows, c09_ownAt, List.getElem?_cons_zero, Option.some.injEq, exists_eq_left']
      rw [hrow x, c09_cellAt_isSome row 0 0 x (Nat.zero_le _)]; simp
    | succ j =>
      have := ih prev row (c09_docRow prevOwn y row) (y + 1) hv.1 hv.2 (fun x h => (hrow x).mpr h) j x
      simpa [c09_docRows, c09_ownAt] using this

theorem c09_docGrid_isSome (rows : List c09_Row) (hv : c09_validFrom [] rows = true) (y x : Nat) :
    (c09_docGrid rows y x).isSome = true ↔ ∃ row, rows[y]? = some row ∧ x < c09_width row :=
  c09_docRows_isSome rows [] [] (fun _ => none) 0 rfl hv (fun x h => by simp [c09_cellAt] at h) y x

end Mammoth
