/-
  C10, global part 4: reasoning about event lists only — every id is prefixed, the classification of the
  ids (bookmarks / reference ids / referent ids), and which hrefs resolve.
-/
import Proofs.C10_GlobalDoc
namespace Mammoth

/-! ### ids are `id_prefix` + a suffix -/

/-- the reference id of key (type, id) without the prefix: `type-ref-id` -/
def c10_refSfx (k : Str × Str) : Str := k.1 ++ S!"-ref-" ++ k.2
/-- the referent id of key (type, id) without the prefix: `type-id` -/
def c10_itemSfx (k : Str × Str) : Str := k.1 ++ S!"-" ++ k.2

def c10_evSuffix : c10_Ev → List Str
  | .bookmark n => [n]
  | .noteRef ty id => [c10_refSfx (ty, id)]
  | .commentRef id => [c10_refSfx (c10_commentTy, id)]
  | .item ty id => [c10_itemSfx (ty, id)]
  | _ => []
/-- the ids of the output without their prefix, in document order -/
def c10_evSuffixes (evs : List c10_Ev) : List Str := evs.flatMap c10_evSuffix

theorem c10_evIds_eq (cfg : Cfg) (evs : List c10_Ev) :
    c10_evIds cfg evs = (c10_evSuffixes evs).map (cfg.idPrefix ++ ·) := by
  induction evs with
  | nil => rfl
  | cons ev evs ih =>
    simp only [c10_evIds, c10_evSuffixes, List.flatMap_cons, List.map_append] at ih ⊢
    rw [ih]
    cases ev <;>
      simp [c10_evId, c10_evSuffix, htmlId, referenceId, referentId, c10_refSfx, c10_itemSfx, List.append_assoc]

theorem c10_evIds_prefixed (cfg : Cfg) (evs : List c10_Ev) : ∀ x ∈ c10_evIds cfg evs, cfg.idPrefix <+: x := by
  intro x hx
  rw [c10_evIds_eq, List.mem_map] at hx
  obtain ⟨s, _, rfl⟩ := hx
  exact ⟨s, rfl⟩

theorem c10_nodup_map_prefix (p : Str) (l : List Str) : (l.map (p ++ ·)).Nodup ↔ l.Nodup := by
  unfold List.Nodup
  rw [List.pairwise_map]
  constructor
  · intro h; exact h.imp (fun hne e => hne (by rw [e]))
  · intro h; exact h.imp (fun hne e => hne (List.append_cancel_left e))

theorem c10_mem_map_prefix (p a : Str) (l : List Str) : p ++ a ∈ l.map (p ++ ·) ↔ a ∈ l := by
  rw [List.mem_map]
  constructor
  · rintro ⟨b, hb, e⟩; rw [← List.append_cancel_left e]; exact hb
  · intro h; exact ⟨a, h, rfl⟩

/-! ### classifying events -/

def c10_evBookmarks : List c10_Ev → List Str
  | [] => []
  | .bookmark n :: r => n :: c10_evBookmarks r
  | _ :: r => c10_evBookmarks r
/-- the keys of all references: note references as (type, id), comment references as ("comment", id) -/
def c10_evKeys : List c10_Ev → List (Str × Str)
  | [] => []
  | .noteRef ty id :: r => (ty, id) :: c10_evKeys r
  | .commentRef id :: r => (c10_commentTy, id) :: c10_evKeys r
  | _ :: r => c10_evKeys r
/-- the keys of the items (`li`, `dt`) -/
def c10_evItems : List c10_Ev → List (Str × Str)
  | [] => []
  | .item ty id :: r => (ty, id) :: c10_evItems r
  | _ :: r => c10_evItems r

theorem c10_evBookmarks_append (a b : List c10_Ev) :
    c10_evBookmarks (a ++ b) = c10_evBookmarks a ++ c10_evBookmarks b := by
  induction a with
  | nil => rfl
  | cons x xs ih => cases x <;> simp [c10_evBookmarks, ih]
theorem c10_evKeys_append (a b : List c10_Ev) : c10_evKeys (a ++ b) = c10_evKeys a ++ c10_evKeys b := by
  induction a with
  | nil => rfl
  | cons x xs ih => cases x <;> simp [c10_evKeys, ih]
theorem c10_evItems_append (a b : List c10_Ev) : c10_evItems (a ++ b) = c10_evItems a ++ c10_evItems b := by
  induction a with
  | nil => rfl
  | cons x xs ih => cases x <;> simp [c10_evItems, ih]

theorem c10_flatMap_hom {α β} (F : List c10_Ev → List β) (h0 : F [] = [])
    (ha : ∀ a b, F (a ++ b) = F a ++ F b) (f : α → List c10_Ev) (l : List α) :
    F (l.flatMap f) = l.flatMap (fun x => F (f x)) := by
  induction l with
  | nil => simpa using h0
  | cons x xs ih => simp [List.flatMap_cons, ha, ih]

theorem c10_suffixes_perm (evs : List c10_Ev) :
    (c10_evSuffixes evs).Perm
      (c10_evBookmarks evs ++ ((c10_evKeys evs).map c10_refSfx ++ (c10_evItems evs).map c10_itemSfx)) := by
  induction evs with
  | nil => exact List.Perm.refl _
  | cons ev evs ih =>
    cases ev with
    | bookmark n =>
      simpa [c10_evSuffixes, c10_evSuffix, c10_evBookmarks, c10_evKeys, c10_evItems] using ih
    | link h => simpa [c10_evSuffixes, c10_evSuffix, c10_evBookmarks, c10_evKeys, c10_evItems] using ih
    | back ty id => simpa [c10_evSuffixes, c10_evSuffix, c10_evBookmarks, c10_evKeys, c10_evItems] using ih
    | noteRef ty id =>
      simp only [c10_evSuffixes, List.flatMap_cons, c10_evSuffix, c10_evBookmarks, c10_evKeys, c10_evItems,
        List.map_cons, List.cons_append] at ih ⊢
      exact (List.Perm.cons _ ih).trans List.perm_middle.symm
    | commentRef id =>
      simp only [c10_evSuffixes, List.flatMap_cons, c10_evSuffix, c10_evBookmarks, c10_evKeys, c10_evItems,
        List.map_cons, List.cons_append] at ih ⊢
      exact (List.Perm.cons _ ih).trans List.perm_middle.symm
    | item ty id =>
      simp only [c10_evSuffixes, List.flatMap_cons, c10_evSuffix, c10_evBookmarks, c10_evKeys, c10_evItems,
        List.map_cons, List.singleton_append] at ih ⊢
      refine (List.Perm.cons _ ih).trans ?_
      rw [← List.append_assoc, ← List.append_assoc]
      exact List.perm_middle.symm

/-- the reference keys: note keys and comment keys, regrouped -/
theorem c10_keys_perm (evs : List c10_Ev) :
    (c10_evKeys evs).Perm (c10_evRefs evs ++ (c10_evCRefs evs).map (fun i => (c10_commentTy, i))) := by
  induction evs with
  | nil => exact List.Perm.refl _
  | cons ev evs ih =>
    cases ev with
    | noteRef ty id => simpa [c10_evKeys, c10_evRefs, c10_evCRefs] using ih
    | commentRef id =>
      simp only [c10_evKeys, c10_evRefs, c10_evCRefs, List.map_cons]
      exact (List.Perm.cons _ ih).trans List.perm_middle.symm
    | bookmark n => simpa [c10_evKeys, c10_evRefs, c10_evCRefs] using ih
    | link h => simpa [c10_evKeys, c10_evRefs, c10_evCRefs] using ih
    | back ty id => simpa [c10_evKeys, c10_evRefs, c10_evCRefs] using ih
    | item ty id => simpa [c10_evKeys, c10_evRefs, c10_evCRefs] using ih

theorem c10_mem_evRefs (evs : List c10_Ev) (ty id : Str) : (ty, id) ∈ c10_evRefs evs ↔ .noteRef ty id ∈ evs := by
  induction evs with
  | nil => simp [c10_evRefs]
  | cons ev evs ih => cases ev <;> simp [c10_evRefs, ih]
theorem c10_mem_evCRefs (evs : List c10_Ev) (id : Str) : id ∈ c10_evCRefs evs ↔ .commentRef id ∈ evs := by
  induction evs with
  | nil => simp [c10_evCRefs]
  | cons ev evs ih => cases ev <;> simp [c10_evCRefs, ih]
theorem c10_mem_evBookmarks (evs : List c10_Ev) (n : Str) : n ∈ c10_evBookmarks evs ↔ .bookmark n ∈ evs := by
  induction evs with
  | nil => simp [c10_evBookmarks]
  | cons ev evs ih => cases ev <;> simp [c10_evBookmarks, ih]
theorem c10_mem_evItems (evs : List c10_Ev) (ty id : Str) : (ty, id) ∈ c10_evItems evs ↔ .item ty id ∈ evs := by
  induction evs with
  | nil => simp [c10_evItems]
  | cons ev evs ih => cases ev <;> simp [c10_evItems, ih]

/-! ### the events of the body contain no item and no back-link -/

def c10_isBodyEv : c10_Ev → Bool
  | .item _ _ => false
  | .back _ _ => false
  | _ => true

mutual
theorem c10_evs_body (cfg : Cfg) (e : Elem) : ∀ ev ∈ c10_evs cfg e, c10_isBodyEv ev = true := by
  match e with
  | .paragraph p cs =>
    rw [c10_evs]; split
    · simp
    · exact c10_evsL_body cfg cs
  | .run r cs =>
    rw [c10_evs]; split
    · simp
    · exact c10_evsL_body cfg cs
  | .hyperlink h cs =>
    rw [c10_evs]
    intro ev hev
    rw [List.mem_cons] at hev
    rcases hev with rfl | hev
    · rfl
    · exact c10_evsL_body cfg cs ev hev
  | .table sid sname rows =>
    rw [c10_evs]; split
    · simp
    · exact c10_evsL_body cfg rows
  | .row _ cells => rw [c10_evs]; exact c10_evsL_body cfg cells
  | .cell _ _ _ cs => rw [c10_evs]; exact c10_evsL_body cfg cs
  | .bookmark n => rw [c10_evs]; simp [c10_isBodyEv]
  | .noteRef ty id => rw [c10_evs]; simp [c10_isBodyEv]
  | .commentRef id => rw [c10_evs]; split <;> simp [c10_isBodyEv]
  | .text _ => simp [c10_evs]
  | .checkbox _ => simp [c10_evs]
  | .brk _ => simp [c10_evs]
  | .tab => simp [c10_evs]
  | .image _ => simp [c10_evs]
theorem c10_evsL_body (cfg : Cfg) (es : List Elem) : ∀ ev ∈ c10_evsL cfg es, c10_isBodyEv ev = true := by
  match es with
  | [] => simp [c10_evsL]
  | e :: es =>
    rw [c10_evsL]
    intro ev hev
    rw [List.mem_append] at hev
    exact hev.elim (c10_evs_body cfg e ev) (c10_evsL_body cfg es ev)
end

theorem c10_evItems_body (evs : List c10_Ev) (h : ∀ ev ∈ evs, c10_isBodyEv ev = true) : c10_evItems evs = [] := by
  induction evs with
  | nil => rfl
  | cons ev evs ih =>
    have h1 := h ev (List.mem_cons_self ..)
    have h2 := ih (fun e he => h e (List.mem_cons_of_mem _ he))
    cases ev <;> simp_all [c10_evItems, c10_isBodyEv]

/-! ### the three parts of a document's events -/

/-- events of the body -/
def c10_E0 (cfg : Cfg) (d : Document) : List c10_Ev := c10_evsL cfg d.children
/-- events of the notes list -/
def c10_E1 (cfg : Cfg) (d : Document) : List c10_Ev := (c10_docNotes cfg d).flatMap (c10_noteEvs cfg)
/-- events of the comments list -/
def c10_E2 (cfg : Cfg) (d : Document) : List c10_Ev := (c10_docComments cfg d).flatMap (c10_commentEvs cfg)

theorem c10_docEvents_eq (cfg : Cfg) (d : Document) :
    c10_docEvents cfg d = c10_E0 cfg d ++ c10_E1 cfg d ++ c10_E2 cfg d := rfl

theorem c10_docComments_eq (cfg : Cfg) (d : Document) :
    c10_docComments cfg d = c10_evComments cfg (c10_E0 cfg d ++ c10_E1 cfg d) := rfl

/-- what a successful conversion tells about the document (all in terms of the input) -/
structure c10_DocOK (cfg : Cfg) (d : Document) : Prop where
  /-- every note reference of the body resolves: the rendered notes have exactly these keys, in order -/
  notes : (c10_docNotes cfg d).map (fun n => (n.ty, n.id)) = c10_evRefs (c10_E0 cfg d)
  /-- every visited comment reference finds its comment -/
  found : ∀ id ∈ c10_evCRefs (c10_docEvents cfg d), (c10_findComment cfg id).isSome = true

theorem c10_filterMap_ids (cfg : Cfg) : ∀ (l : List Str),
    (∀ id ∈ l, (c10_findComment cfg id).isSome = true) →
    (l.filterMap (c10_findComment cfg)).map (·.id) = l
  | [], _ => rfl
  | id :: l, h => by
    have h1 := h id (List.mem_cons_self ..)
    cases hf : c10_findComment cfg id with
    | none => rw [hf] at h1; cases h1
    | some c =>
      have := c10_lookup_key (fun c : Comment => c.id) id cfg.comments c hf
      simp only [List.filterMap_cons, hf, List.map_cons, this]
      rw [c10_filterMap_ids cfg l (fun i hi => h i (List.mem_cons_of_mem _ hi))]

theorem c10_docComments_ids (cfg : Cfg) (d : Document) (ok : c10_DocOK cfg d) :
    (c10_docComments cfg d).map (·.id) = c10_evCRefs (c10_E0 cfg d ++ c10_E1 cfg d) := by
  rw [c10_docComments_eq, c10_evComments]
  apply c10_filterMap_ids
  intro id hid
  apply ok.found
  rw [c10_docEvents_eq, c10_evCRefs_append, List.mem_append]
  exact Or.inl hid

theorem c10_mem_noteEvs (cfg : Cfg) (n : Note) (ev : c10_Ev) (h : ev ∈ c10_noteEvs cfg n) :
    ev = .item n.ty n.id ∨ (ev ∈ c10_evsL cfg n.body ∧ c10_isBodyEv ev = true) ∨ ev = .back n.ty n.id := by
  simp only [c10_noteEvs, List.cons_append, List.mem_cons, List.mem_append, List.not_mem_nil, or_false] at h
  rcases h with h | h | h
  · exact Or.inl h
  · exact Or.inr (Or.inl ⟨h, c10_evsL_body cfg n.body ev h⟩)
  · exact Or.inr (Or.inr h)

theorem c10_mem_commentEvs (cfg : Cfg) (c : Comment) (ev : c10_Ev) (h : ev ∈ c10_commentEvs cfg c) :
    ev = .item c10_commentTy c.id ∨ (ev ∈ c10_evsL cfg c.body ∧ c10_isBodyEv ev = true) ∨
      ev = .back c10_commentTy c.id := by
  simp only [c10_commentEvs, List.cons_append, List.mem_cons, List.mem_append, List.not_mem_nil, or_false] at h
  rcases h with h | h | h
  · exact Or.inl h
  · exact Or.inr (Or.inl ⟨h, c10_evsL_body cfg c.body ev h⟩)
  · exact Or.inr (Or.inr h)

theorem c10_mem_evIds (cfg : Cfg) (evs : List c10_Ev) (ev : c10_Ev) (x : Str) (h : ev ∈ evs)
    (hx : x ∈ c10_evId cfg ev) : x ∈ c10_evIds cfg evs :=
  List.mem_flatMap.mpr ⟨ev, h, hx⟩

/-- the `li` of every note the body references is there -/
theorem c10_item_of_ref (cfg : Cfg) (d : Document) (ok : c10_DocOK cfg d) (ty id : Str)
    (h : (ty, id) ∈ c10_evRefs (c10_E0 cfg d)) : .item ty id ∈ c10_E1 cfg d := by
  rw [← ok.notes, List.mem_map] at h
  obtain ⟨n, hn, e⟩ := h
  simp only [Prod.mk.injEq] at e
  rw [c10_E1, List.mem_flatMap]
  refine ⟨n, hn, ?_⟩
  rw [← e.1, ← e.2]
  simp [c10_noteEvs]

/-- every rendered note is referenced from the body -/
theorem c10_ref_of_note (cfg : Cfg) (d : Document) (ok : c10_DocOK cfg d) (n : Note)
    (h : n ∈ c10_docNotes cfg d) : .noteRef n.ty n.id ∈ c10_E0 cfg d := by
  rw [← c10_mem_evRefs, ← ok.notes, List.mem_map]
  exact ⟨n, h, rfl⟩

/-- the `dt` of every comment referenced from the body or a rendered note is there -/
theorem c10_item_of_cref (cfg : Cfg) (d : Document) (ok : c10_DocOK cfg d) (id : Str)
    (h : id ∈ c10_evCRefs (c10_E0 cfg d ++ c10_E1 cfg d)) : .item c10_commentTy id ∈ c10_E2 cfg d := by
  rw [← c10_docComments_ids cfg d ok, List.mem_map] at h
  obtain ⟨c, hc, e⟩ := h
  rw [c10_E2, List.mem_flatMap]
  refine ⟨c, hc, ?_⟩
  rw [← e]
  simp [c10_commentEvs]

/-- every rendered comment is referenced from the body or a rendered note -/
theorem c10_cref_of_comment (cfg : Cfg) (d : Document) (ok : c10_DocOK cfg d) (c : Comment)
    (h : c ∈ c10_docComments cfg d) : .commentRef c.id ∈ c10_E0 cfg d ++ c10_E1 cfg d := by
  rw [← c10_mem_evCRefs, ← c10_docComments_ids cfg d ok, List.mem_map]
  exact ⟨c, h, rfl⟩

/-! ### which hrefs resolve -/

/-- note bodies and comment bodies reference only notes the body references too, and comment bodies
    reference only comments referenced from the body or a rendered note -/
def c10_refsClosed (cfg : Cfg) (d : Document) : Bool :=
  (c10_evRefs (c10_E1 cfg d ++ c10_E2 cfg d)).all (fun r => (c10_evRefs (c10_E0 cfg d)).contains r) &&
  (c10_evCRefs (c10_E2 cfg d)).all (fun i => (c10_evCRefs (c10_E0 cfg d ++ c10_E1 cfg d)).contains i)

/-- the simple sufficient condition: the rendered note and comment bodies contain no note references, the
    rendered comment bodies no comment references -/
def c10_bodiesPlain (cfg : Cfg) (d : Document) : Bool :=
  (c10_evRefs (c10_E1 cfg d ++ c10_E2 cfg d)).isEmpty && (c10_evCRefs (c10_E2 cfg d)).isEmpty

theorem c10_bodiesPlain_closed (cfg : Cfg) (d : Document) (h : c10_bodiesPlain cfg d = true) :
    c10_refsClosed cfg d = true := by
  simp only [c10_bodiesPlain, Bool.and_eq_true, List.isEmpty_iff] at h
  simp [c10_refsClosed, h.1, h.2]

def c10_isLink : c10_Ev → Bool
  | .link _ => true
  | _ => false

theorem c10_hrefs_resolve (cfg : Cfg) (d : Document) (ok : c10_DocOK cfg d)
    (hcl : c10_refsClosed cfg d = true) (ev : c10_Ev) (hev : ev ∈ c10_docEvents cfg d)
    (hl : c10_isLink ev = false) (h : Str) (hh : h ∈ c10_evHref cfg ev) :
    ∃ x, h = '#' :: x ∧ x ∈ c10_evIds cfg (c10_docEvents cfg d) := by
  simp only [c10_refsClosed, Bool.and_eq_true, List.all_eq_true, List.contains_iff_mem] at hcl
  obtain ⟨hcl1, hcl2⟩ := hcl
  have hE := c10_docEvents_eq cfg d
  cases ev with
  | link l => simp [c10_isLink] at hl
  | bookmark n => simp [c10_evHref] at hh
  | item ty id => simp [c10_evHref] at hh
  | noteRef ty id =>
    simp only [c10_evHref, List.mem_singleton] at hh
    refine ⟨referentId cfg ty id, by simpa using hh, ?_⟩
    have hr : (ty, id) ∈ c10_evRefs (c10_E0 cfg d) := by
      have : (ty, id) ∈ c10_evRefs (c10_docEvents cfg d) := (c10_mem_evRefs _ ty id).mpr hev
      rw [hE, List.append_assoc, c10_evRefs_append, List.mem_append] at this
      exact this.elim (fun x => x) (hcl1 _)
    refine c10_mem_evIds cfg _ (.item ty id) _ ?_ (by simp [c10_evId])
    rw [hE]
    exact List.mem_append_left _ (List.mem_append_right _ (c10_item_of_ref cfg d ok ty id hr))
  | commentRef id =>
    simp only [c10_evHref, List.mem_singleton] at hh
    refine ⟨referentId cfg c10_commentTy id, by simpa using hh, ?_⟩
    have hr : id ∈ c10_evCRefs (c10_E0 cfg d ++ c10_E1 cfg d) := by
      have : id ∈ c10_evCRefs (c10_docEvents cfg d) := (c10_mem_evCRefs _ id).mpr hev
      rw [hE, c10_evCRefs_append, List.mem_append] at this
      exact this.elim (fun x => x) (hcl2 _)
    refine c10_mem_evIds cfg _ (.item c10_commentTy id) _ ?_ (by simp [c10_evId])
    rw [hE]
    exact List.mem_append_right _ (c10_item_of_cref cfg d ok id hr)
  | back ty id =>
    simp only [c10_evHref, List.mem_singleton] at hh
    refine ⟨referenceId cfg ty id, by simpa using hh, ?_⟩
    rw [hE, List.mem_append, List.mem_append] at hev
    rcases hev with (hev | hev) | hev
    · have := c10_evsL_body cfg d.children _ hev
      simp [c10_isBodyEv] at this
    · rw [c10_E1, List.mem_flatMap] at hev
      obtain ⟨n, hn, hmem⟩ := hev
      rcases c10_mem_noteEvs cfg n _ hmem with e | ⟨_, hb⟩ | e
      · cases e
      · simp [c10_isBodyEv] at hb
      · cases e
        refine c10_mem_evIds cfg _ (.noteRef n.ty n.id) _ ?_ (by simp [c10_evId])
        rw [hE]
        exact List.mem_append_left _ (List.mem_append_left _ (c10_ref_of_note cfg d ok n hn))
    · rw [c10_E2, List.mem_flatMap] at hev
      obtain ⟨c, hc, hmem⟩ := hev
      rcases c10_mem_commentEvs cfg c _ hmem with e | ⟨_, hb⟩ | e
      · cases e
      · simp [c10_isBodyEv] at hb
      · cases e
        refine c10_mem_evIds cfg _ (.commentRef c.id) _ ?_ (by simp [c10_evId])
        rw [hE]
        exact List.mem_append_left _ (c10_cref_of_comment cfg d ok c hc)

/-- back-links always resolve, with no hypothesis on the bodies -/
theorem c10_backlinks_resolve (cfg : Cfg) (d : Document) (ok : c10_DocOK cfg d) (ty id : Str)
    (hev : .back ty id ∈ c10_docEvents cfg d) :
    referenceId cfg ty id ∈ c10_evIds cfg (c10_docEvents cfg d) := by
  have hE := c10_docEvents_eq cfg d
  rw [hE, List.mem_append, List.mem_append] at hev
  rcases hev with (hev | hev) | hev
  · have := c10_evsL_body cfg d.children _ hev
    simp [c10_isBodyEv] at this
  · rw [c10_E1, List.mem_flatMap] at hev
    obtain ⟨n, hn, hmem⟩ := hev
    rcases c10_mem_noteEvs cfg n _ hmem with e | ⟨_, hb⟩ | e
    · cases e
    · simp [c10_isBodyEv] at hb
    · cases e
      refine c10_mem_evIds cfg _ (.noteRef n.ty n.id) _ ?_ (by simp [c10_evId])
      rw [hE]
      exact List.mem_append_left _ (List.mem_append_left _ (c10_ref_of_note cfg d ok n hn))
  · rw [c10_E2, List.mem_flatMap] at hev
    obtain ⟨c, hc, hmem⟩ := hev
    rcases c10_mem_commentEvs cfg c _ hmem with e | ⟨_, hb⟩ | e
    · cases e
    · simp [c10_isBodyEv] at hb
    · cases e
      refine c10_mem_evIds cfg _ (.commentRef c.id) _ ?_ (by simp [c10_evId])
      rw [hE]
      exact List.mem_append_left _ (c10_cref_of_comment cfg d ok c hc)

/-! ### internal links -/

theorem c10_mem_suffixes (evs : List c10_Ev) (a : Str) :
    a ∈ c10_evSuffixes evs ↔
      a ∈ c10_evBookmarks evs ∨ a ∈ (c10_evKeys evs).map c10_refSfx ∨ a ∈ (c10_evItems evs).map c10_itemSfx := by
  rw [(c10_suffixes_perm evs).mem_iff, List.mem_append, List.mem_append]

/-- the id `prefix ++ a` is in the output iff `a` is the name of a visited bookmark or one of the
    generated reference / referent suffixes -/
theorem c10_internal_target (cfg : Cfg) (evs : List c10_Ev) (a : Str) :
    cfg.idPrefix ++ a ∈ c10_evIds cfg evs ↔
      a ∈ c10_evBookmarks evs ∨ a ∈ (c10_evKeys evs).map c10_refSfx ∨ a ∈ (c10_evItems evs).map c10_itemSfx := by
  rw [c10_evIds_eq, c10_mem_map_prefix, c10_mem_suffixes]

end Mammoth
