/-
  C12 (conversion) — what the relationship reader and the content-types reader make of a part in which
  one entry was replaced by, or extended with, the style-map entry: every lookup the converter performs
  (targets by one of the looked-up relationship types, target by an id other than `rMammothStyleMap`,
  content type of a path other than `mammoth/style-map`) gives the same answer.
-/
import Proofs.C12_ConvXml
namespace Mammoth

def c12_relName : Str := S!"relationships:Relationship"
def c12_overrideName : Str := S!"content-types:Override"
def c12_defaultName : Str := S!"content-types:Default"
def c12_smId : Str := S!"rMammothStyleMap"

/-! ### `lookupLast` under append / replace -/

theorem c12_lookupLast_append {α β} [DecidableEq α] (k : α) (A B : List (α × β)) :
    lookupLast k (A ++ B) = match lookupLast k B with
      | some w => some w
      | none => lookupLast k A := by
  induction A with
  | nil => cases h : lookupLast k B <;> simp [lookupLast, h]
  | cons x A ih =>
    obtain ⟨k', v⟩ := x
    simp only [List.cons_append, lookupLast, ih]
    cases lookupLast k B <;> simp

theorem c12_lookupLast_replace {α β} [DecidableEq α] (k k' : α) (v w : β) (A B : List (α × β))
    (h : k' ≠ k) : lookupLast k' (A ++ (k, w) :: B) = lookupLast k' (A ++ (k, v) :: B) := by
  rw [c12_lookupLast_append, c12_lookupLast_append]
  simp only [lookupLast, h, if_false]

theorem c12_lookupLast_snoc {α β} [DecidableEq α] (k k' : α) (w : β) (A : List (α × β))
    (h : k' ≠ k) : lookupLast k' (A ++ [(k, w)]) = lookupLast k' A := by
  rw [c12_lookupLast_append]
  simp only [lookupLast, h, if_false]

/-! ### `mapM` under append / replace -/

theorem c12_mapM_replace {α β} (f : α → Except Err β) (A B : List α) (o n : α) (ro rn : β)
    (ho : f o = .ok ro) (hn : f n = .ok rn) :
    (∃ e, (A ++ o :: B).mapM f = .error e ∧ (A ++ n :: B).mapM f = .error e) ∨
    (∃ ra rb, (A ++ o :: B).mapM f = .ok (ra ++ ro :: rb) ∧ (A ++ n :: B).mapM f = .ok (ra ++ rn :: rb)) := by
  simp only [List.mapM_append, List.mapM_cons, ho, hn]
  cases A.mapM f with
  | error e => exact Or.inl ⟨e, rfl, rfl⟩
  | ok ra =>
    cases B.mapM f with
    | error e => exact Or.inl ⟨e, rfl, rfl⟩
    | ok rb => exact Or.inr ⟨ra, rb, rfl, rfl⟩

theorem c12_mapM_snoc {α β} (f : α → Except Err β) (A : List α) (n : α) (rn : β) (hn : f n = .ok rn) :
    (∃ e, A.mapM f = .error e ∧ (A ++ [n]).mapM f = .error e) ∨
    (∃ ra, A.mapM f = .ok ra ∧ (A ++ [n]).mapM f = .ok (ra ++ [rn])) := by
  simp only [List.mapM_append, List.mapM_cons, List.mapM_nil, hn]
  cases A.mapM f with
  | error e => exact Or.inl ⟨e, rfl, rfl⟩
  | ok ra => exact Or.inr ⟨ra, rfl, rfl⟩

/-! ### relationships -/

/-- one `Relationship` element, as `read_relationships_xml_element` reads it -/
def c12_relOf (as : Attrs) : Except Err Rel :=
  match attr? S!"Id" as, attr? S!"Target" as, attr? S!"Type" as with
  | some i, some t, some ty => .ok ⟨i, t, normRelType ty⟩
  | _, _, _ => .error (.key S!"Id/Target/Type")

theorem c12_readRelsXml_eq (cs : List XmlNode) :
    readRelsXml cs = (c12_attrsOf c12_relName cs).mapM c12_relOf := by
  unfold readRelsXml c12_attrsOf c12_relName
  rw [List.mapM_map]
  rfl

/-- the relationship the embed writes -/
def c12_smRel : Rel := ⟨c12_smId, styleMapAbsPath, S!"http://schemas.zwobble.org/mammoth/style-map"⟩

theorem c12_relOf_sm : c12_relOf styleMapRelAttrs = .ok c12_smRel := by rfl

/-- the relationship types `_find_part_paths` looks up in the main document's relationships -/
def c12_lookedUp : List Str :=
  [relTypePrefix ++ S!"comments", relTypePrefix ++ S!"endnotes", relTypePrefix ++ S!"footnotes",
   relTypePrefix ++ S!"numbering", relTypePrefix ++ S!"styles"]

/-- all the converter asks of the relationships gives the same answer -/
structure c12_RelsSim (rels rels' : Rels) : Prop where
  byId : ∀ rid, rid ≠ c12_smId → rels'.targetById rid = rels.targetById rid
  byType : ∀ ty, ty ∈ c12_lookedUp → rels'.targetsByType ty = rels.targetsByType ty

theorem c12_RelsSim_refl (rels : Rels) : c12_RelsSim rels rels := ⟨fun _ _ => rfl, fun _ _ => rfl⟩

theorem c12_smRel_ty_notLooked : ∀ ty, ty ∈ c12_lookedUp → (c12_smRel.ty == ty) = false := by
  decide +kernel

theorem c12_RelsSim_snoc (rels : Rels) : c12_RelsSim rels (rels ++ [c12_smRel]) := by
  constructor
  · intro rid hr
    unfold Rels.targetById
    have := c12_lookupLast_snoc c12_smId rid c12_smRel.target (rels.map fun r => (r.id, r.target)) hr
    rw [List.map_append, List.map_cons, List.map_nil, show c12_smRel.id = c12_smId from rfl, this]
  · intro ty ht
    unfold Rels.targetsByType
    rw [List.filter_append]
    simp [c12_smRel_ty_notLooked ty ht]

theorem c12_RelsSim_replace (ra rb : Rels) (ro : Rel) (hid : ro.id = c12_smId)
    (hty : c12_lookedUp.contains ro.ty = false) :
    c12_RelsSim (ra ++ ro :: rb) (ra ++ c12_smRel :: rb) := by
  constructor
  · intro rid hr
    unfold Rels.targetById
    have := c12_lookupLast_replace c12_smId rid ro.target c12_smRel.target
      (ra.map fun r => (r.id, r.target)) (rb.map fun r => (r.id, r.target)) hr
    rw [List.map_append, List.map_cons, List.map_append, List.map_cons, hid,
      show c12_smRel.id = c12_smId from rfl, this]
  · intro ty ht
    unfold Rels.targetsByType
    have h1 : (c12_smRel.ty == ty) = false := c12_smRel_ty_notLooked ty ht
    have h2 : (ro.ty == ty) = false := by
      cases h : ro.ty == ty with
      | false => rfl
      | true =>
        have := eq_of_beq h
        rw [this] at hty
        have hc : c12_lookedUp.contains ty = true := by simpa using ht
        rw [hc] at hty; cases hty
    simp [List.filter_append, h1, h2]

/-- the element the embed overwrites is a complete relationship of a type that is not looked up -/
def c12_relAttrsOk (old : Attrs) : Bool :=
  match c12_relOf old with
  | .ok r => !c12_lookedUp.contains r.ty
  | .error _ => false

/-- the relationships read from the children `cs'` of an updated part, compared with the original `cs` -/
theorem c12_readRelsXml_D1L {old : Attrs} {cs cs' : List XmlNode}
    (h : c12_D1L (xMatches c12_relName S!"Id" styleMapRelAttrs) old styleMapRelAttrs cs cs')
    (hold : c12_relAttrsOk old = true) :
    (∃ e, readRelsXml cs = .error e ∧ readRelsXml cs' = .error e) ∨
    (∃ rels rels', readRelsXml cs = .ok rels ∧ readRelsXml cs' = .ok rels' ∧ c12_RelsSim rels rels') := by
  rw [c12_readRelsXml_eq, c12_readRelsXml_eq]
  rcases c12_attrsOf_D1L c12_relName h with h | ⟨hp, A, B, h1, h2⟩
  · rw [h]
    cases hm : (c12_attrsOf c12_relName cs).mapM c12_relOf with
    | error e => exact Or.inl ⟨e, rfl, rfl⟩
    | ok rels => exact Or.inr ⟨rels, rels, rfl, rfl, c12_RelsSim_refl rels⟩
  · rw [h1, h2]
    unfold c12_relAttrsOk at hold
    cases hro : c12_relOf old with
    | error e => rw [hro] at hold; cases hold
    | ok ro =>
      rw [hro] at hold
      have hty : c12_lookedUp.contains ro.ty = false := by simpa using hold
      have hid : ro.id = c12_smId := by
        -- the identifying attribute matched
        simp only [xMatches, Bool.and_eq_true] at hp
        have hid' : attr? S!"Id" old = some c12_smId := by
          have := eq_of_beq hp.2
          rw [this]; decide +kernel
        unfold c12_relOf at hro
        rw [hid'] at hro
        split at hro
        · rename_i i t ty hi _ _
          cases hi; cases hro; rfl
        · cases hro
      rcases c12_mapM_replace c12_relOf A B old styleMapRelAttrs ro c12_smRel hro c12_relOf_sm with
        ⟨e, e1, e2⟩ | ⟨ra, rb, e1, e2⟩
      · exact Or.inl ⟨e, e1, e2⟩
      · exact Or.inr ⟨_, _, e1, e2, c12_RelsSim_replace ra rb ro hid hty⟩

/-- … and of a part to whose root the style-map relationship was appended -/
theorem c12_readRelsXml_snoc (cs : List XmlNode) :
    (∃ e, readRelsXml cs = .error e ∧ readRelsXml (cs ++ [.elem c12_relName styleMapRelAttrs []]) = .error e) ∨
    (∃ rels rels', readRelsXml cs = .ok rels ∧
      readRelsXml (cs ++ [.elem c12_relName styleMapRelAttrs []]) = .ok rels' ∧ c12_RelsSim rels rels') := by
  rw [c12_readRelsXml_eq, c12_readRelsXml_eq, c12_attrsOf_append, c12_attrsOf_cons_elem, c12_attrsOf_nil]
  simp only [beq_self_eq_true, if_true, List.append_nil]
  rcases c12_mapM_snoc c12_relOf (c12_attrsOf c12_relName cs) styleMapRelAttrs c12_smRel c12_relOf_sm with
    ⟨e, e1, e2⟩ | ⟨ra, e1, e2⟩
  · exact Or.inl ⟨e, e1, e2⟩
  · exact Or.inr ⟨_, _, e1, e2, c12_RelsSim_snoc ra⟩

/-! ### content types -/

def c12_defaultOf (as : Attrs) : Except Err (Str × Str) :=
  match attr? S!"Extension" as, attr? S!"ContentType" as with
  | some e, some c => .ok (e, c)
  | _, _ => .error (Err.key S!"Extension/ContentType")

def c12_overrideOf (as : Attrs) : Except Err (Str × Str) :=
  match attr? S!"PartName" as, attr? S!"ContentType" as with
  | some p, some c => .ok (lstripChar '/' p, c)
  | _, _ => .error (Err.key S!"PartName/ContentType")

theorem c12_readContentTypesXml_eq (cs : List XmlNode) :
    readContentTypesXml cs = (do
      let ds ← (c12_attrsOf c12_defaultName cs).mapM c12_defaultOf
      let os ← (c12_attrsOf c12_overrideName cs).mapM c12_overrideOf
      pure { defaults := ds, overrides := os }) := by
  unfold readContentTypesXml c12_attrsOf c12_defaultName c12_overrideName
  rw [List.mapM_map, List.mapM_map]
  rfl

/-- the override the embed writes -/
def c12_smOverride : Str × Str := (styleMapPath, S!"text/prs.mammoth.style-map")

theorem c12_overrideOf_sm : c12_overrideOf styleMapOverrideAttrs = .ok c12_smOverride := by rfl

/-- the content type of every path other than `mammoth/style-map` is the same -/
def c12_CtSim (ct ct' : ContentTypes) : Prop :=
  ∀ path, path ≠ styleMapPath → findContentType ct' path = findContentType ct path

theorem c12_CtSim_refl (ct : ContentTypes) : c12_CtSim ct ct := fun _ _ => rfl

theorem c12_CtSim_snoc (ds os : List (Str × Str)) :
    c12_CtSim { defaults := ds, overrides := os } { defaults := ds, overrides := os ++ [c12_smOverride] } := by
  intro path hp
  unfold findContentType
  dsimp only
  rw [show c12_smOverride = (styleMapPath, c12_smOverride.2) from rfl, c12_lookupLast_snoc _ _ _ _ hp]

theorem c12_CtSim_replace (ds A B : List (Str × Str)) (c : Str) :
    c12_CtSim { defaults := ds, overrides := A ++ (styleMapPath, c) :: B }
      { defaults := ds, overrides := A ++ c12_smOverride :: B } := by
  intro path hp
  unfold findContentType
  dsimp only
  rw [show c12_smOverride = (styleMapPath, c12_smOverride.2) from rfl,
    c12_lookupLast_replace styleMapPath path c c12_smOverride.2 A B hp]

/-- the `Override` the embed overwrites has a content type -/
def c12_overrideAttrsOk (old : Attrs) : Bool := (attr? S!"ContentType" old).isSome

theorem c12_readContentTypesXml_D1L {old : Attrs} {cs cs' : List XmlNode}
    (h : c12_D1L (xMatches c12_overrideName S!"PartName" styleMapOverrideAttrs) old styleMapOverrideAttrs cs cs')
    (hold : c12_overrideAttrsOk old = true) :
    (∃ e, readContentTypesXml cs = .error e ∧ readContentTypesXml cs' = .error e) ∨
    (∃ ct ct', readContentTypesXml cs = .ok ct ∧ readContentTypesXml cs' = .ok ct' ∧ c12_CtSim ct ct') := by
  rw [c12_readContentTypesXml_eq, c12_readContentTypesXml_eq]
  have hd : c12_attrsOf c12_defaultName cs' = c12_attrsOf c12_defaultName cs := by
    rcases c12_attrsOf_D1L c12_defaultName h with h | ⟨hp, _⟩
    · exact h
    · simp only [xMatches, Bool.and_eq_true] at hp
      exact absurd hp.1 (by decide +kernel)
  rw [hd]
  cases hds : (c12_attrsOf c12_defaultName cs).mapM c12_defaultOf with
  | error e => exact Or.inl ⟨e, rfl, rfl⟩
  | ok ds =>
    simp only [bind, Except.bind, pure, Except.pure]
    rcases c12_attrsOf_D1L c12_overrideName h with h | ⟨hp, A, B, h1, h2⟩
    · rw [h]
      cases (c12_attrsOf c12_overrideName cs).mapM c12_overrideOf with
      | error e => exact Or.inl ⟨e, rfl, rfl⟩
      | ok os => exact Or.inr ⟨_, _, rfl, rfl, c12_CtSim_refl _⟩
    · rw [h1, h2]
      simp only [xMatches, Bool.and_eq_true] at hp
      have hpn : attr? S!"PartName" old = some styleMapAbsPath := by
        have := eq_of_beq hp.2
        rw [this]; decide +kernel
      unfold c12_overrideAttrsOk at hold
      cases hc : attr? S!"ContentType" old with
      | none => rw [hc] at hold; cases hold
      | some c =>
        have hro : c12_overrideOf old = .ok (styleMapPath, c) := by
          unfold c12_overrideOf
          rw [hpn, hc]
          show Except.ok (lstripChar '/' styleMapAbsPath, c) = _
          have : lstripChar '/' styleMapAbsPath = styleMapPath := by decide +kernel
          rw [this]
        rcases c12_mapM_replace c12_overrideOf A B old styleMapOverrideAttrs _ _ hro c12_overrideOf_sm with
          ⟨e, e1, e2⟩ | ⟨ra, rb, e1, e2⟩
        · rw [e1, e2]; exact Or.inl ⟨e, rfl, rfl⟩
        · rw [e1, e2]; exact Or.inr ⟨_, _, rfl, rfl, c12_CtSim_replace ds ra rb c⟩

theorem c12_readContentTypesXml_snoc (cs : List XmlNode) :
    (∃ e, readContentTypesXml cs = .error e ∧
      readContentTypesXml (cs ++ [.elem c12_overrideName styleMapOverrideAttrs []]) = .error e) ∨
    (∃ ct ct', readContentTypesXml cs = .ok ct ∧
      readContentTypesXml (cs ++ [.elem c12_overrideName styleMapOverrideAttrs []]) = .ok ct' ∧
      c12_CtSim ct ct') := by
  rw [c12_readContentTypesXml_eq, c12_readContentTypesXml_eq, c12_attrsOf_append, c12_attrsOf_append,
    c12_attrsOf_cons_elem, c12_attrsOf_cons_elem, c12_attrsOf_nil]
  have hne : (c12_overrideName == c12_defaultName) = false := by decide +kernel
  simp only [c12_attrsOf_nil, hne, beq_self_eq_true, if_true, List.append_nil, Bool.false_eq_true, if_false]
  cases hds : (c12_attrsOf c12_defaultName cs).mapM c12_defaultOf with
  | error e => exact Or.inl ⟨e, rfl, rfl⟩
  | ok ds =>
    simp only [bind, Except.bind, pure, Except.pure]
    rcases c12_mapM_snoc c12_overrideOf (c12_attrsOf c12_overrideName cs) styleMapOverrideAttrs _
      c12_overrideOf_sm with ⟨e, e1, e2⟩ | ⟨ra, e1, e2⟩
    · rw [e1, e2]; exact Or.inl ⟨e, rfl, rfl⟩
    · rw [e1, e2]; exact Or.inr ⟨_, _, rfl, rfl, c12_CtSim_snoc ds ra⟩

end Mammoth
