/-
  C05 — a concrete package in the domain: main document with a DELETED PARAGRAPH MARK, a complex field
  spanning the deleted and the following paragraph, a numbering with a `w:numStyleLink`, a dangling paragraph
  style, a footnote and a comment (both referenced), an embedded image, a hyperlink; no content-types part, no
  endnotes part.  And variants that violate one clause of the domain each.
-/
import Proofs.C05_ApiTotal
namespace Mammoth

def c05_exRel (id ty target : Str) : XmlNode :=
  .elem S!"relationships:Relationship" [(S!"Id", id), (S!"Type", relTypePrefix ++ ty), (S!"Target", target)] []

def c05_exWv (name val : Str) : XmlNode := .elem name [(S!"w:val", val)] []
def c05_exRun (cs : List XmlNode) : XmlNode := .elem S!"w:r" [] cs
def c05_exTxt (s : Str) : XmlNode := c05_exRun [.elem S!"w:t" [] [.text s]]
def c05_exFld (ty : Str) : XmlNode := c05_exRun [.elem S!"w:fldChar" [(S!"w:fldCharType", ty)] []]
def c05_exDelPPr : XmlNode := .elem S!"w:pPr" [] [.elem S!"w:rPr" [] [.elem S!"w:del" [] []]]

def c05_exDrawing (rid : Str) : XmlNode :=
  .elem S!"w:drawing" [] [.elem S!"wp:inline" [] [
    .elem S!"wp:docPr" [(S!"descr", S!"a picture")] [],
    .elem S!"a:graphic" [] [.elem S!"a:graphicData" [] [.elem S!"pic:pic" [] [.elem S!"pic:blipFill" [] [
      .elem S!"a:blip" [(S!"r:embed", rid)] []]]]]]]

/-- the body, parameterised by what the variants change: the numId of the second paragraph, the type of the
    last field mark, the footnote id, the comment id, the image relationship -/
def c05_exBody (numId lastFld noteId commentId imgRel : Str) : List XmlNode :=
  [ .elem S!"w:p" [] [c05_exDelPPr, c05_exFld S!"begin",
                      c05_exRun [.elem S!"w:instrText" [] [.text S!" HYPERLINK \"http://x\" "]]],
    .elem S!"w:p" [] [
      .elem S!"w:pPr" [] [c05_exWv S!"w:pStyle" S!"NoSuchStyle",
                          .elem S!"w:numPr" [] [c05_exWv S!"w:numId" numId, c05_exWv S!"w:ilvl" S!"0"]],
      c05_exFld S!"separate", c05_exTxt S!"x", c05_exFld lastFld,
      c05_exRun [.elem S!"w:footnoteReference" [(S!"w:id", noteId)] []],
      c05_exRun [.elem S!"w:commentReference" [(S!"w:id", commentId)] []],
      c05_exRun [c05_exDrawing imgRel],
      .elem S!"w:hyperlink" [(S!"r:id", S!"rId1")] [c05_exTxt S!"y"]],
    .elem S!"w:sectPr" [] [] ]

def c05_exNumbering (styleNumId : Str) : List (Str × Part) :=
  [ (S!"word/numbering.xml", .xml (.elem S!"w:numbering" [] [
      .elem S!"w:abstractNum" [(S!"w:abstractNumId", S!"0")] [
        .elem S!"w:lvl" [(S!"w:ilvl", S!"0")] [c05_exWv S!"w:numFmt" S!"decimal"]],
      .elem S!"w:abstractNum" [(S!"w:abstractNumId", S!"1")] [c05_exWv S!"w:numStyleLink" S!"ListStyle"],
      .elem S!"w:abstractNum" [(S!"w:abstractNumId", S!"2")] [c05_exWv S!"w:numStyleLink" S!"NoSuchStyle"],
      .elem S!"w:num" [(S!"w:numId", S!"1")] [c05_exWv S!"w:abstractNumId" S!"0"],
      .elem S!"w:num" [(S!"w:numId", S!"2")] [c05_exWv S!"w:abstractNumId" S!"1"],
      .elem S!"w:num" [(S!"w:numId", S!"3")] [c05_exWv S!"w:abstractNumId" S!"2"]])),
    (S!"word/styles.xml", .xml (.elem S!"w:styles" [] [
      .elem S!"w:style" [(S!"w:type", S!"numbering"), (S!"w:styleId", S!"ListStyle")] [
        .elem S!"w:pPr" [] [.elem S!"w:numPr" [] [c05_exWv S!"w:numId" styleNumId]]]])) ]

def c05_exParts (body : List XmlNode) (styleNumId : Str) (footnote : List XmlNode) : List (Str × Part) :=
  [ (S!"_rels/.rels", .xml (.elem S!"relationships:Relationships" [] [
      c05_exRel S!"rId1" S!"officeDocument" S!"word/document.xml"])),
    (S!"word/_rels/document.xml.rels", .xml (.elem S!"relationships:Relationships" [] [
      c05_exRel S!"rId1" S!"hyperlink" S!"http://example.com",
      c05_exRel S!"rId2" S!"image" S!"media/a.png",
      c05_exRel S!"rId3" S!"footnotes" S!"footnotes.xml",
      c05_exRel S!"rId4" S!"comments" S!"comments.xml",
      c05_exRel S!"rId5" S!"numbering" S!"numbering.xml",
      c05_exRel S!"rId6" S!"styles" S!"styles.xml",
      c05_exRel S!"rId7" S!"image" S!"media/missing.png"])),
    (S!"word/document.xml", .xml (.elem S!"w:document" [] [.elem S!"w:body" [] body])),
    (S!"word/footnotes.xml", .xml (.elem S!"w:footnotes" [] [
      .elem S!"w:footnote" [(S!"w:id", S!"0"), (S!"w:type", S!"separator")] [],
      .elem S!"w:footnote" [(S!"w:id", S!"1")] footnote])),
    (S!"word/comments.xml", .xml (.elem S!"w:comments" [] [
      .elem S!"w:comment" [(S!"w:id", S!"0"), (S!"w:author", S!"A")] [.elem S!"w:p" [] [c05_exTxt S!"a comment"]]])),
    (S!"word/media/a.png", .bytes [1, 2, 3]) ] ++ c05_exNumbering styleNumId

def c05_exFootnote : List XmlNode := [.elem S!"w:p" [] [c05_exTxt S!"a note"]]

/-- THE EXAMPLE in the domain -/
def c05_exPackage : Package :=
  { parts := c05_exParts (c05_exBody S!"2" S!"end" S!"1" S!"0" S!"rId2") S!"1" c05_exFootnote }

/-- options that do not need the built-in style map (keeps kernel evaluation of the examples cheap) -/
def c05_exOptions : Options := { includeDefault := false, styleMap := some S!"comment-reference => sup" }

/-! variants, each violating ONE clause -/

/-- the relationships part of the main document is not XML -/
def c05_exBadParse : Package :=
  { parts := c05_exPackage.parts ++ [(S!"word/_rels/document.xml.rels", .bytes [0])] }
/-- cyclic `w:numStyleLink`: the style "ListStyle" points to numId 2, whose abstractNum links to "ListStyle" -/
def c05_exCyclic : Package :=
  { parts := c05_exParts (c05_exBody S!"2" S!"end" S!"1" S!"0" S!"rId2") S!"2" c05_exFootnote }
/-- not static: the drawing uses an undefined relationship id -/
def c05_exNotStatic : Package :=
  { parts := c05_exParts (c05_exBody S!"2" S!"end" S!"1" S!"0" S!"rId99") S!"1" c05_exFootnote }
/-- unbalanced: a second `separate`… instead of the `end`, then an `end` too many in the footnote part -/
def c05_exUnbalanced : Package :=
  { parts := c05_exParts (c05_exBody S!"2" S!"end" S!"1" S!"0" S!"rId2") S!"1"
      [.elem S!"w:p" [] [c05_exFld S!"end"]] }
/-- a note element without `w:id` -/
def c05_exNoteNoId : Package :=
  { parts := c05_exPackage.parts ++ [(S!"word/footnotes.xml", .xml (.elem S!"w:footnotes" [] [
      .elem S!"w:footnote" [] c05_exFootnote]))] }
/-- dangling footnote reference -/
def c05_exDanglingNote : Package :=
  { parts := c05_exParts (c05_exBody S!"2" S!"end" S!"7" S!"0" S!"rId2") S!"1" c05_exFootnote }
/-- dangling comment reference -/
def c05_exDanglingComment : Package :=
  { parts := c05_exParts (c05_exBody S!"2" S!"end" S!"1" S!"7" S!"rId2") S!"1" c05_exFootnote }
/-- embedded image whose zip entry is missing -/
def c05_exMissingImage : Package :=
  { parts := c05_exParts (c05_exBody S!"2" S!"end" S!"1" S!"0" S!"rId7") S!"1" c05_exFootnote }
/-- embedded style map that is not UTF-8 -/
def c05_exBadStyleMap : Package :=
  { parts := c05_exPackage.parts ++ [(S!"mammoth/style-map", .bytes [0xff])] }

end Mammoth
