/-
  C09 extension 7: helper lemmas for
  * the warnings of `calculate_row_spans` (exactly when, and that the rows are then returned untouched),
  * tables without any vertical-merge continuation mark are returned unchanged,
  * the `thead`/`tbody` split point (`bodyIndex`) is decided by the document's header flags alone,
  * a table mapped to `!` produces nothing and does not visit its content.
-/
import Proofs.C09_General
import Proofs.C09_Convert
import Proofs.C09_Grid
namespace Mammoth

/-! ### 1. the warnings -/

def c09e7_msgRow : Str := S!"unexpected non-row element in table, cell merging may be incorrect"
def c09e7_msgCell : Str := S!"unexpected non-cell element in table row, cell merging may be incorrect"

/-- all children are rows and all their children are cells -/
def c09e7_shape (rows : List Elem) : Bool := rows.all fun r => isRow r && (rowCells r).all isCell

theorem c09e7_shape_iff (rows : List Elem) :
    c09e7_shape rows = true ↔ (rows.all isRow = true ∧ (rows.all fun r => (rowCells r).all isCell) = true) := by
  simp only [c09e7_shape, List.all_eq_true, Bool.and_eq_true]
  constructor
  · intro h; exact ⟨fun x hx => (h x hx).1, fun x hx => (h x hx).2⟩
  · intro h x hx; exact ⟨h.1 x hx, h.2 x hx⟩

theorem c09e7_cases (rows : List Elem) :
    (rows.all isRow = false → calculateRowSpans rows = (rows, [c09e7_msgRow])) ∧
    (rows.all isRow = true → (rows.all fun r => (rowCells r).all isCell) = false →
        calculateRowSpans rows = (rows, [c09e7_msgCell])) ∧
    (c09e7_shape rows = true → calculateRowSpans rows = (rebuildRows (sweepRows rows 0 {}) rows 0, [])) := by
  refine ⟨fun h => ?_, fun h1 h2 => ?_, fun h => ?_⟩
  · simp [calculateRowSpans, h, c09e7_msgRow]
  · simp [calculateRowSpans, h1, h2, c09e7_msgCell]
  · obtain ⟨h1, h2⟩ := (c09e7_shape_iff rows).mp h
    simp [calculateRowSpans, h1, h2]

theorem c09e7_messages_nil_iff (rows : List Elem) :
    (calculateRowSpans rows).2 = [] ↔ c09e7_shape rows = true := by
  constructor
  · intro h
    by_cases h1 : rows.all isRow = true
    · by_cases h2 : (rows.all fun r => (rowCells r).all isCell) = true
      · exact (c09e7_shape_iff rows).mpr ⟨h1, h2⟩
      · rw [((c09e7_cases rows).2.1 h1 (by simpa using h2))] at h; simp at h
    · rw [((c09e7_cases rows).1 (by simpa using h1))] at h; simp at h
  · intro h; rw [(c09e7_cases rows).2.2 h]

/-! ### 2. no continuation mark: nothing changes -/

/-- a cell without the `_vmerge` mark -/
def c09e7_plainCell : Elem → Bool
  | .cell _ _ vm _ => !vm
  | _ => false

/-- a row all of whose children are cells without the `_vmerge` mark -/
def c09e7_plainRow : Elem → Bool
  | .row _ cells => cells.all c09e7_plainCell
  | _ => false

theorem c09e7_sweepCells_plain (r : Nat) (cells : List Elem) (h : cells.all c09e7_plainCell = true) :
    ∀ pos ci sw, (sweepCells r cells pos ci sw).incs = sw.incs ∧ (sweepCells r cells pos ci sw).drops = sw.drops := by
  induction cells with
  | nil => intro pos ci sw; simp [sweepCells]
  | cons c cs ih =>
    intro pos ci sw
    simp only [List.all_cons, Bool.and_eq_true] at h
    cases c with
    | cell colspan rowspan vm content =>
      have hvm : vm = false := by simpa [c09e7_plainCell] using h.1
      subst hvm
      simp only [sweepCells, Bool.false_eq_true, if_false]
      exact ih h.2 _ _ _
    | _ => simp [c09e7_plainCell] at h

theorem c09e7_sweepRows_plain (rows : List Elem) (h : rows.all c09e7_plainRow = true) :
    ∀ r sw, (sweepRows rows r sw).incs = sw.incs ∧ (sweepRows rows r sw).drops = sw.drops := by
  induction rows with
  | nil => intro r sw; simp [sweepRows]
  | cons c cs ih =>
    intro r sw
    simp only [List.all_cons, Bool.and_eq_true] at h
    cases c with
    | row hd cells =>
      simp only [sweepRows]
      have h1 := c09e7_sweepCells_plain r cells (by simpa [c09e7_plainRow] using h.1) 0 0 sw
      have h2 := ih h.2 (r + 1) (sweepCells r cells 0 0 sw)
      exact ⟨h2.1.trans h1.1, h2.2.trans h1.2⟩
    | _ => simp [c09e7_plainRow] at h

theorem c09e7_rebuildCells_plain (sw : Sweep) (hi : sw.incs = []) (hd : sw.drops = []) (r : Nat)
    (cells : List Elem) (h : cells.all c09e7_plainCell = true) :
    ∀ pos, rebuildCells sw r cells pos = cells := by
  induction cells with
  | nil => intro pos; simp [rebuildCells]
  | cons c cs ih =>
    intro pos
    simp only [List.all_cons, Bool.and_eq_true] at h
    cases c with
    | cell colspan rowspan vm content =>
      have hvm : vm = false := by simpa [c09e7_plainCell] using h.1
      subst hvm
      simp [rebuildCells, hi, hd, ih h.2]
    | _ => simp [c09e7_plainCell] at h

theorem c09e7_rebuildRows_plain (sw : Sweep) (hi : sw.incs = []) (hd : sw.drops = [])
    (rows : List Elem) (h : rows.all c09e7_plainRow = true) :
    ∀ r, rebuildRows sw rows r = rows := by
  induction rows with
  | nil => intro r; simp [rebuildRows]
  | cons c cs ih =>
    intro r
    simp only [List.all_cons, Bool.and_eq_true] at h
    cases c with
    | row hd' cells =>
      simp only [rebuildRows]
      rw [c09e7_rebuildCells_plain sw hi hd r cells (by simpa [c09e7_plainRow] using h.1) 0, ih h.2]
    | _ => simp [c09e7_plainRow] at h

theorem c09e7_plain_shape (rows : List Elem) (h : rows.all c09e7_plainRow = true) : c09e7_shape rows = true := by
  simp only [c09e7_shape, List.all_eq_true, Bool.and_eq_true] at h ⊢
  intro x hx
  have hx' := h x hx
  cases x with
  | row hd cells =>
    refine ⟨rfl, ?_⟩
    simp only [rowCells]
    intro c hc
    have := (List.all_eq_true.mp (by simpa [c09e7_plainRow] using hx')) c hc
    cases c <;> simp_all [c09e7_plainCell, isCell]
  | _ => simp [c09e7_plainRow] at hx'

theorem c09e7_plain_identity (rows : List Elem) (h : rows.all c09e7_plainRow = true) :
    calculateRowSpans rows = (rows, []) := by
  rw [(c09e7_cases rows).2.2 (c09e7_plain_shape rows h)]
  have hs := c09e7_sweepRows_plain rows h 0 {}
  rw [c09e7_rebuildRows_plain _ hs.1 hs.2 rows h 0]

/-! ### 3. the `thead`/`tbody` split point -/

theorem c09e7_isHeaderRow_flag (e : Elem) : isHeaderRow e = (c09_rowFlag e).getD false := by
  cases e <;> rfl

theorem c09e7_bodyIndex_flags : ∀ (l l' : List Elem), l'.map c09_rowFlag = l.map c09_rowFlag →
    bodyIndex l' = bodyIndex l := by
  intro l
  induction l with
  | nil => intro l' h; cases l' with
    | nil => rfl
    | cons _ _ => simp at h
  | cons a as ih =>
    intro l' h
    cases l' with
    | nil => simp at h
    | cons b bs =>
      simp only [List.map_cons, List.cons.injEq] at h
      simp only [bodyIndex, c09e7_isHeaderRow_flag, h.1, ih bs h.2]

/-- number of consecutive indices `r, r+1, …` (at most `n` of them) at which `hdr` holds -/
def c09e7_lead (hdr : Nat → Bool) : Nat → Nat → Nat
  | _, 0 => 0
  | r, n + 1 => if hdr r then 1 + c09e7_lead hdr (r + 1) n else 0

theorem c09e7_bodyIndex_toElemsFrom (hdr : Nat → Bool) (rows : List c09_Row) :
    ∀ r, bodyIndex (c09_toElemsFrom hdr r rows) = c09e7_lead hdr r rows.length := by
  induction rows with
  | nil => intro r; rfl
  | cons row rest ih =>
    intro r
    simp only [c09_toElemsFrom, bodyIndex, isHeaderRow, List.length_cons, c09e7_lead, ih (r + 1)]

theorem c09e7_bodyIndex_calculate (rows : List Elem) :
    bodyIndex (calculateRowSpans rows).1 = bodyIndex rows :=
  c09e7_bodyIndex_flags rows _
    (c09_Forall2_map_eq c09_rowFlag (fun _ _ => c09_rowKept_flag) (c09_calculate_kept rows))

/-! ### 4. a table mapped to `!` -/

theorem c09e7_visit_table_ignored (cfg : Cfg) (hdr : Bool) (sid sname : Option Str) (rows : List Elem)
    (hpath : findPath cfg (.table sid sname) = some .ignore) :
    visit cfg hdr (.table sid sname rows) = pure [] := by
  rw [c09_visit_table, hpath]
  rfl

end Mammoth
