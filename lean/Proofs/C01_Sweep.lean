/-
  C01, reader half — what `calculate_row_spans` does to the leaves of a table.

  The reader applies `calculateRowSpans` to the rows of every table it builds; the sweep removes the
  cells it recognises as vertical-merge continuations, content included (property C09 says which).
  `c01_spans` applies that sweep to every table of a tree, innermost first — exactly where the reader
  applies it.  The sweep can only remove leaves (`c01_spans_sublist`), and removes none when no cell
  is marked as a continuation (`c01_spans_leaves`).
-/
import Proofs.C01_XmlSpec
namespace Mammoth

mutual
/-- `calculate_row_spans` applied to every table of the tree, inner tables first -/
def c01_spans : Elem → Elem
  | .paragraph p cs => .paragraph p (c01_spansL cs)
  | .run r cs => .run r (c01_spansL cs)
  | .hyperlink h cs => .hyperlink h (c01_spansL cs)
  | .table a b rows => .table a b (calculateRowSpans (c01_spansL rows)).1
  | .row h cs => .row h (c01_spansL cs)
  | .cell c r v cs => .cell c r v (c01_spansL cs)
  | .text s => .text s
  | .tab => .tab
  | .noteRef ty id => .noteRef ty id
  | .commentRef id => .commentRef id
  | .checkbox b => .checkbox b
  | .brk ty => .brk ty
  | .image i => .image i
  | .bookmark n => .bookmark n
def c01_spansL : List Elem → List Elem
  | [] => []
  | e :: es => c01_spans e :: c01_spansL es
end

mutual
/-- no cell anywhere in the tree is marked as a vertical-merge continuation -/
def c01_noVm : Elem → Bool
  | .paragraph _ cs => c01_noVmL cs
  | .run _ cs => c01_noVmL cs
  | .hyperlink _ cs => c01_noVmL cs
  | .table _ _ rows => c01_noVmL rows
  | .row _ cs => c01_noVmL cs
  | .cell _ _ v cs => !v && c01_noVmL cs
  | .text _ => true
  | .tab => true
  | .noteRef _ _ => true
  | .commentRef _ => true
  | .checkbox _ => true
  | .brk _ => true
  | .image _ => true
  | .bookmark _ => true
def c01_noVmL : List Elem → Bool
  | [] => true
  | e :: es => c01_noVm e && c01_noVmL es
end

@[simp] theorem c01_spansL_nil : c01_spansL [] = [] := by simp [c01_spansL]
@[simp] theorem c01_spansL_cons (e : Elem) (es : List Elem) :
    c01_spansL (e :: es) = c01_spans e :: c01_spansL es := by simp [c01_spansL]
theorem c01_spansL_append (a b : List Elem) : c01_spansL (a ++ b) = c01_spansL a ++ c01_spansL b := by
  induction a with
  | nil => simp
  | cons x xs ih => simp [ih]

@[simp] theorem c01_noVmL_nil : c01_noVmL [] = true := by simp [c01_noVmL]
@[simp] theorem c01_noVmL_cons (e : Elem) (es : List Elem) :
    c01_noVmL (e :: es) = (c01_noVm e && c01_noVmL es) := by simp [c01_noVmL]
theorem c01_noVmL_append (a b : List Elem) : c01_noVmL (a ++ b) = (c01_noVmL a && c01_noVmL b) := by
  induction a with
  | nil => simp
  | cons x xs ih => simp [ih, Bool.and_assoc]

/-! ### the sweep only removes -/

theorem c01_rebuildCells_sublist (sw : Sweep) (r : Nat) (cells : List Elem) (pos : Nat) :
    (c01_elemLeavesL (rebuildCells sw r cells pos)).Sublist (c01_elemLeavesL cells) := by
  induction cells generalizing pos with
  | nil => simp [rebuildCells]
  | cons c cs ih =>
    cases c with
    | cell colspan rowspan vm ch =>
      simp only [rebuildCells]
      split
      · simp only [c01_elemLeavesL_cons]
        exact (ih (pos + 1)).trans (List.sublist_append_right _ _)
      · simp only [c01_elemLeavesL_cons, c01_elemLeaves]
        exact List.Sublist.append (List.Sublist.refl _) (ih (pos + 1))
    | _ =>
      simp only [rebuildCells, c01_elemLeavesL_cons]
      exact List.Sublist.append (List.Sublist.refl _) (ih (pos + 1))

theorem c01_rebuildRows_sublist (sw : Sweep) (rows : List Elem) (r : Nat) :
    (c01_elemLeavesL (rebuildRows sw rows r)).Sublist (c01_elemLeavesL rows) := by
  induction rows generalizing r with
  | nil => simp [rebuildRows]
  | cons c cs ih =>
    cases c with
    | row h cells =>
      simp only [rebuildRows, c01_elemLeavesL_cons, c01_elemLeaves]
      exact List.Sublist.append (c01_rebuildCells_sublist sw r cells 0) (ih (r + 1))
    | _ =>
      simp only [rebuildRows, c01_elemLeavesL_cons]
      exact List.Sublist.append (List.Sublist.refl _) (ih (r + 1))

/-- the leaves of the rows after `calculate_row_spans` are a subsequence of the leaves before -/
theorem c01_calculate_sublist (rows : List Elem) :
    (c01_elemLeavesL (calculateRowSpans rows).1).Sublist (c01_elemLeavesL rows) := by
  unfold calculateRowSpans
  split
  · exact List.Sublist.refl _
  · split
    · exact List.Sublist.refl _
    · exact c01_rebuildRows_sublist _ rows 0

/-! ### without continuation marks the sweep removes nothing -/

theorem c01_sweepCells_drops (r : Nat) (cells : List Elem) (pos ci : Nat) (sw : Sweep)
    (hn : c01_noVmL cells = true) (hd : sw.drops = []) : (sweepCells r cells pos ci sw).drops = [] := by
  induction cells generalizing pos ci sw with
  | nil => simpa [sweepCells] using hd
  | cons c cs ih =>
    simp only [c01_noVmL_cons, Bool.and_eq_true] at hn
    cases c with
    | cell colspan rowspan vm ch =>
      have hvm : vm = false := by
        have := hn.1; simp only [c01_noVm, Bool.and_eq_true, Bool.not_eq_true'] at this; exact this.1
      subst hvm
      simp only [sweepCells]
      exact ih _ _ _ hn.2 hd
    | _ => simp only [sweepCells]; exact ih _ _ _ hn.2 hd

theorem c01_sweepRows_drops (rows : List Elem) (r : Nat) (sw : Sweep)
    (hn : c01_noVmL rows = true) (hd : sw.drops = []) : (sweepRows rows r sw).drops = [] := by
  induction rows generalizing r sw with
  | nil => simpa [sweepRows] using hd
  | cons c cs ih =>
    simp only [c01_noVmL_cons, Bool.and_eq_true] at hn
    cases c with
    | row h cells =>
      simp only [sweepRows]
      exact ih _ _ hn.2 (c01_sweepCells_drops r cells 0 0 sw (by simpa [c01_noVm] using hn.1) hd)
    | _ => simp only [sweepRows]; exact ih _ _ hn.2 hd

theorem c01_rebuildCells_keep (sw : Sweep) (hd : sw.drops = []) (r : Nat) (cells : List Elem) (pos : Nat)
    (hn : c01_noVmL cells = true) :
    c01_elemLeavesL (rebuildCells sw r cells pos) = c01_elemLeavesL cells ∧
    c01_noVmL (rebuildCells sw r cells pos) = true := by
  induction cells generalizing pos with
  | nil => simp [rebuildCells]
  | cons c cs ih =>
    simp only [c01_noVmL_cons, Bool.and_eq_true] at hn
    have ih' := ih (pos + 1) hn.2
    cases c with
    | cell colspan rowspan vm ch =>
      have hch : c01_noVmL ch = true := by
        have := hn.1; simp only [c01_noVm, Bool.and_eq_true] at this; exact this.2
      simp only [rebuildCells, hd, List.contains_nil, Bool.false_eq_true, if_false, c01_elemLeavesL_cons,
        c01_elemLeaves, c01_noVmL_cons, c01_noVm, ih'.1, ih'.2, hch]
      simp
    | _ =>
      simp only [rebuildCells, c01_elemLeavesL_cons, c01_noVmL_cons, ih'.1, ih'.2, hn.1]
      simp

theorem c01_rebuildRows_keep (sw : Sweep) (hd : sw.drops = []) (rows : List Elem) (r : Nat)
    (hn : c01_noVmL rows = true) :
    c01_elemLeavesL (rebuildRows sw rows r) = c01_elemLeavesL rows ∧
    c01_noVmL (rebuildRows sw rows r) = true := by
  induction rows generalizing r with
  | nil => simp [rebuildRows]
  | cons c cs ih =>
    simp only [c01_noVmL_cons, Bool.and_eq_true] at hn
    have ih' := ih (r + 1) hn.2
    cases c with
    | row h cells =>
      have hc := c01_rebuildCells_keep sw hd r cells 0 (by simpa [c01_noVm] using hn.1)
      simp only [rebuildRows, c01_elemLeavesL_cons, c01_elemLeaves, c01_noVmL_cons, c01_noVm, hc.1, hc.2,
        ih'.1, ih'.2]
      simp
    | _ =>
      simp only [rebuildRows, c01_elemLeavesL_cons, c01_noVmL_cons, ih'.1, ih'.2, hn.1]
      simp

/-- without continuation marks, `calculate_row_spans` keeps every leaf (and adds no mark) -/
theorem c01_calculate_keep (rows : List Elem) (hn : c01_noVmL rows = true) :
    c01_elemLeavesL (calculateRowSpans rows).1 = c01_elemLeavesL rows ∧
    c01_noVmL (calculateRowSpans rows).1 = true := by
  unfold calculateRowSpans
  split
  · exact ⟨rfl, hn⟩
  · split
    · exact ⟨rfl, hn⟩
    · exact c01_rebuildRows_keep _ (c01_sweepRows_drops rows 0 {} hn rfl) rows 0 hn

/-! ### the same for whole trees -/

mutual
theorem c01_spans_sublist (e : Elem) : (c01_elemLeaves (c01_spans e)).Sublist (c01_elemLeaves e) := by
  match e with
  | .paragraph p cs => simp only [c01_spans, c01_elemLeaves]; exact c01_spansL_sublist cs
  | .run r cs => simp only [c01_spans, c01_elemLeaves]; exact c01_spansL_sublist cs
  | .hyperlink h cs => simp only [c01_spans, c01_elemLeaves]; exact c01_spansL_sublist cs
  | .table a b rows =>
    simp only [c01_spans, c01_elemLeaves]
    exact (c01_calculate_sublist _).trans (c01_spansL_sublist rows)
  | .row h cs => simp only [c01_spans, c01_elemLeaves]; exact c01_spansL_sublist cs
  | .cell c r v cs => simp only [c01_spans, c01_elemLeaves]; exact c01_spansL_sublist cs
  | .text s => simp [c01_spans]
  | .tab => simp [c01_spans]
  | .noteRef ty id => simp [c01_spans]
  | .commentRef id => simp [c01_spans]
  | .checkbox b => simp [c01_spans]
  | .brk ty => simp [c01_spans]
  | .image i => simp [c01_spans]
  | .bookmark n => simp [c01_spans]
theorem c01_spansL_sublist (es : List Elem) :
    (c01_elemLeavesL (c01_spansL es)).Sublist (c01_elemLeavesL es) := by
  match es with
  | [] => simp
  | e :: es =>
    simp only [c01_spansL_cons, c01_elemLeavesL_cons]
    exact List.Sublist.append (c01_spans_sublist e) (c01_spansL_sublist es)
end

mutual
theorem c01_spans_leaves (e : Elem) (hn : c01_noVm e = true) :
    c01_elemLeaves (c01_spans e) = c01_elemLeaves e ∧ c01_noVm (c01_spans e) = true := by
  match e with
  | .paragraph p cs =>
    simp only [c01_noVm] at hn; simp only [c01_spans, c01_elemLeaves, c01_noVm]; exact c01_spansL_leaves cs hn
  | .run r cs =>
    simp only [c01_noVm] at hn; simp only [c01_spans, c01_elemLeaves, c01_noVm]; exact c01_spansL_leaves cs hn
  | .hyperlink h cs =>
    simp only [c01_noVm] at hn; simp only [c01_spans, c01_elemLeaves, c01_noVm]; exact c01_spansL_leaves cs hn
  | .table a b rows =>
    simp only [c01_noVm] at hn
    have h1 := c01_spansL_leaves rows hn
    have h2 := c01_calculate_keep (c01_spansL rows) h1.2
    simp only [c01_spans, c01_elemLeaves, c01_noVm]
    exact ⟨h2.1.trans h1.1, h2.2⟩
  | .row h cs =>
    simp only [c01_noVm] at hn; simp only [c01_spans, c01_elemLeaves, c01_noVm]; exact c01_spansL_leaves cs hn
  | .cell c r v cs =>
    simp only [c01_noVm, Bool.and_eq_true] at hn
    have := c01_spansL_leaves cs hn.2
    simp only [c01_spans, c01_elemLeaves, c01_noVm, Bool.and_eq_true]
    exact ⟨this.1, hn.1, this.2⟩
  | .text s => simp [c01_spans, c01_noVm]
  | .tab => simp [c01_spans, c01_noVm]
  | .noteRef ty id => simp [c01_spans, c01_noVm]
  | .commentRef id => simp [c01_spans, c01_noVm]
  | .checkbox b => simp [c01_spans, c01_noVm]
  | .brk ty => simp [c01_spans, c01_noVm]
  | .image i => simp [c01_spans, c01_noVm]
  | .bookmark n => simp [c01_spans, c01_noVm]
theorem c01_spansL_leaves (es : List Elem) (hn : c01_noVmL es = true) :
    c01_elemLeavesL (c01_spansL es) = c01_elemLeavesL es ∧ c01_noVmL (c01_spansL es) = true := by
  match es with
  | [] => simp
  | e :: es =>
    simp only [c01_noVmL_cons, Bool.and_eq_true] at hn
    have h1 := c01_spans_leaves e hn.1
    have h2 := c01_spansL_leaves es hn.2
    simp only [c01_spansL_cons, c01_elemLeavesL_cons, c01_noVmL_cons, h1.1, h1.2, h2.1, h2.2]
    simp
end

/-! ### the relation between what the reader returns and the tree before any sweep -/

/-- `es` is the row-span sweep of some tree `pe` whose leaves are exactly `ls`; when `nv` holds,
    `pe` has no continuation mark (so the sweep removed nothing) -/
def c01_Pre (nv : Bool) (es : List Elem) (ls : List c01_Leaf) : Prop :=
  ∃ pe, c01_spansL pe = es ∧ c01_elemLeavesL pe = ls ∧ (nv = true → c01_noVmL pe = true)

theorem c01_Pre_sublist {nv : Bool} {es : List Elem} {ls : List c01_Leaf} (h : c01_Pre nv es ls) :
    (c01_elemLeavesL es).Sublist ls := by
  obtain ⟨pe, h1, h2, _⟩ := h
  rw [← h1, ← h2]; exact c01_spansL_sublist pe

theorem c01_Pre_eq {es : List Elem} {ls : List c01_Leaf} (h : c01_Pre true es ls) : c01_elemLeavesL es = ls := by
  obtain ⟨pe, h1, h2, h3⟩ := h
  rw [← h1, ← h2]; exact (c01_spansL_leaves pe (h3 rfl)).1

theorem c01_Pre_mono {nv nv' : Bool} {es : List Elem} {ls : List c01_Leaf} (hm : nv' = true → nv = true)
    (h : c01_Pre nv es ls) : c01_Pre nv' es ls := by
  obtain ⟨pe, h1, h2, h3⟩ := h
  exact ⟨pe, h1, h2, fun h' => h3 (hm h')⟩

theorem c01_Pre_nil (nv : Bool) : c01_Pre nv [] [] := ⟨[], by simp, by simp, fun _ => by simp⟩

theorem c01_Pre_append {nv : Bool} {a b : List Elem} {la lb : List c01_Leaf}
    (ha : c01_Pre nv a la) (hb : c01_Pre nv b lb) : c01_Pre nv (a ++ b) (la ++ lb) := by
  obtain ⟨pa, a1, a2, a3⟩ := ha
  obtain ⟨pb, b1, b2, b3⟩ := hb
  refine ⟨pa ++ pb, ?_, ?_, fun h => ?_⟩
  · rw [c01_spansL_append, a1, b1]
  · rw [c01_elemLeavesL_append, a2, b2]
  · rw [c01_noVmL_append, a3 h, b3 h]; rfl

/-- an element without children -/
def c01_atom : Elem → Bool
  | .text _ => true
  | .tab => true
  | .noteRef _ _ => true
  | .commentRef _ => true
  | .checkbox _ => true
  | .brk _ => true
  | .image _ => true
  | .bookmark _ => true
  | _ => false

theorem c01_atom_spans (e : Elem) (h : c01_atom e = true) : c01_spans e = e ∧ c01_noVm e = true := by
  cases e <;> simp_all [c01_atom, c01_spans, c01_noVm]

theorem c01_Pre_atoms (nv : Bool) (es : List Elem) (h : es.all c01_atom = true) :
    c01_Pre nv es (c01_elemLeavesL es) := by
  refine ⟨es, ?_, rfl, fun _ => ?_⟩
  · induction es with
    | nil => simp
    | cons e es ih =>
      simp only [List.all_cons, Bool.and_eq_true] at h
      simp [(c01_atom_spans e h.1).1, ih h.2]
  · induction es with
    | nil => simp
    | cons e es ih =>
      simp only [List.all_cons, Bool.and_eq_true] at h
      simp [(c01_atom_spans e h.1).2, ih h.2]

theorem c01_Pre_atom (nv : Bool) (e : Elem) (h : c01_atom e = true) : c01_Pre nv [e] (c01_elemLeaves e) := by
  have := c01_Pre_atoms nv [e] (by simp [h])
  simpa using this

theorem c01_Pre_run {nv : Bool} {es : List Elem} {ls : List c01_Leaf} (p : RunProps) (h : c01_Pre nv es ls) :
    c01_Pre nv [.run p es] ls := by
  obtain ⟨pe, h1, h2, h3⟩ := h
  exact ⟨[.run p pe], by simp [c01_spans, h1], by simp [c01_elemLeaves, h2], fun h => by simp [c01_noVm, h3 h]⟩

theorem c01_Pre_hyperlink {nv : Bool} {es : List Elem} {ls : List c01_Leaf} (p : LinkProps) (h : c01_Pre nv es ls) :
    c01_Pre nv [.hyperlink p es] ls := by
  obtain ⟨pe, h1, h2, h3⟩ := h
  exact ⟨[.hyperlink p pe], by simp [c01_spans, h1], by simp [c01_elemLeaves, h2], fun h => by simp [c01_noVm, h3 h]⟩

theorem c01_Pre_paragraph {nv : Bool} {es : List Elem} {ls : List c01_Leaf} (p : ParaProps) (h : c01_Pre nv es ls) :
    c01_Pre nv [.paragraph p es] ls := by
  obtain ⟨pe, h1, h2, h3⟩ := h
  exact ⟨[.paragraph p pe], by simp [c01_spans, h1], by simp [c01_elemLeaves, h2], fun h => by simp [c01_noVm, h3 h]⟩

theorem c01_Pre_row {nv : Bool} {es : List Elem} {ls : List c01_Leaf} (b : Bool) (h : c01_Pre nv es ls) :
    c01_Pre nv [.row b es] ls := by
  obtain ⟨pe, h1, h2, h3⟩ := h
  exact ⟨[.row b pe], by simp [c01_spans, h1], by simp [c01_elemLeaves, h2], fun h => by simp [c01_noVm, h3 h]⟩

theorem c01_Pre_cell {nv : Bool} {es : List Elem} {ls : List c01_Leaf} (c r : Nat) (v : Bool)
    (hv : nv = true → v = false) (h : c01_Pre nv es ls) : c01_Pre nv [.cell c r v es] ls := by
  obtain ⟨pe, h1, h2, h3⟩ := h
  exact ⟨[.cell c r v pe], by simp [c01_spans, h1], by simp [c01_elemLeaves, h2],
    fun h => by simp [c01_noVm, h3 h, hv h]⟩

theorem c01_Pre_table {nv : Bool} {es : List Elem} {ls : List c01_Leaf} (a b : Option Str) (h : c01_Pre nv es ls) :
    c01_Pre nv [.table a b (calculateRowSpans es).1] ls := by
  obtain ⟨pe, h1, h2, h3⟩ := h
  exact ⟨[.table a b pe], by simp [c01_spans, h1], by simp [c01_elemLeaves, h2], fun h => by simp [c01_noVm, h3 h]⟩

end Mammoth
