/-
  C10 helpers, part 1: the instruction-text matchers (`HYPERLINK "url"`, `HYPERLINK \l "name"`) and
  `replaceFragment`.
-/
import MammothModel.Reader
namespace Mammoth

/-- all characters are white space (`\s*`) -/
def c10_allWs (s : Str) : Bool := s.all isSpace

theorem c10_lstripWs_ws (ws s : Str) (h : c10_allWs ws = true) : lstripWs (ws ++ s) = lstripWs s := by
  induction ws with
  | nil => rfl
  | cons c cs ih =>
    simp only [c10_allWs, List.all_cons, Bool.and_eq_true] at h
    simp only [List.cons_append, lstripWs, h.1, if_true]
    exact ih h.2

theorem c10_lstripWs_nonspace (c : Char) (s : Str) (h : isSpace c = false) : lstripWs (c :: s) = c :: s := by
  simp [lstripWs, h]

theorem c10_stripPrefix_append (p s : Str) : stripPrefix? (p ++ s) p = some s := by
  induction p with
  | nil => cases s <;> rfl
  | cons c cs ih => simp [stripPrefix?, ih]

/-- `\s+` followed by a non-space character consumes exactly the white space -/
theorem c10_ws1_ws (ws s : Str) (c : Char) (hne : ws ≠ []) (h : c10_allWs ws = true) (hc : isSpace c = false) :
    ws1 (ws ++ c :: s) = some (c :: s) := by
  cases ws with
  | nil => contradiction
  | cons w ws' =>
    simp only [c10_allWs, List.all_cons, Bool.and_eq_true] at h
    simp only [List.cons_append, ws1, h.1, if_true, skipWs]
    rw [c10_lstripWs_ws ws' _ h.2, c10_lstripWs_nonspace c s hc]

theorem c10_takeWhile_stop (q : Char) (url rest : Str) (h : q ∉ url) :
    (url ++ q :: rest).takeWhile (· != q) = url := by
  induction url with
  | nil => simp
  | cons c cs ih =>
    simp only [List.mem_cons, not_or] at h
    have : (c != q) = true := by simpa using fun e => h.1 e.symm
    simp [this, ih h.2]

theorem c10_takeWhile_all (q : Char) (s : Str) (h : q ∉ s) : s.takeWhile (· != q) = s := by
  induction s with
  | nil => rfl
  | cons c cs ih =>
    simp only [List.mem_cons, not_or] at h
    have hc : (c != q) = true := by simpa using fun e => h.1 e.symm
    simp [hc, ih h.2]

/-- `"([^"]*)"` -/
theorem c10_quoted (url rest : Str) (h : '"' ∉ url) : quoted ('"' :: (url ++ '"' :: rest)) = some url := by
  simp only [quoted, c10_takeWhile_stop '"' url rest h]
  simp

/-- `\s*HYPERLINK` at the start of the instruction -/
theorem c10_keyword (w1 tail : Str) (h1 : c10_allWs w1 = true) :
    stripPrefix? (skipWs (w1 ++ (S!"HYPERLINK" ++ tail))) S!"HYPERLINK" = some tail := by
  simp only [skipWs]
  rw [c10_lstripWs_ws w1 _ h1]
  rw [show S!"HYPERLINK" ++ tail = 'H' :: (S!"YPERLINK" ++ tail) from rfl]
  rw [c10_lstripWs_nonspace 'H' _ (by decide)]
  exact c10_stripPrefix_append S!"HYPERLINK" tail

theorem c10_external (w1 w2 url rest : Str) (h1 : c10_allWs w1 = true) (h2 : c10_allWs w2 = true)
    (hne : w2 ≠ []) (hq : '"' ∉ url) :
    matchExternalLink (w1 ++ S!"HYPERLINK" ++ w2 ++ ['"'] ++ url ++ ['"'] ++ rest) = some url := by
  have e : w1 ++ S!"HYPERLINK" ++ w2 ++ ['"'] ++ url ++ ['"'] ++ rest =
      w1 ++ (S!"HYPERLINK" ++ (w2 ++ '"' :: (url ++ '"' :: rest))) := by simp
  rw [e]
  unfold matchExternalLink
  rw [c10_keyword w1 _ h1]
  simp only [Option.bind_eq_bind, Option.bind_some]
  rw [c10_ws1_ws w2 _ '"' hne h2 (by decide)]
  simp only [Option.bind_some]
  exact c10_quoted url rest hq

theorem c10_internal (w1 w2 w3 name rest : Str) (h1 : c10_allWs w1 = true) (h2 : c10_allWs w2 = true)
    (hne2 : w2 ≠ []) (h3 : c10_allWs w3 = true) (hne3 : w3 ≠ []) (hq : '"' ∉ name) :
    matchInternalLink (w1 ++ S!"HYPERLINK" ++ w2 ++ S!"\\l" ++ w3 ++ ['"'] ++ name ++ ['"'] ++ rest) = some name := by
  have e : w1 ++ S!"HYPERLINK" ++ w2 ++ S!"\\l" ++ w3 ++ ['"'] ++ name ++ ['"'] ++ rest =
      w1 ++ (S!"HYPERLINK" ++ (w2 ++ '\\' :: (['l'] ++ (w3 ++ '"' :: (name ++ '"' :: rest))))) := by simp
  rw [e]
  unfold matchInternalLink
  rw [c10_keyword w1 _ h1]
  simp only [Option.bind_eq_bind, Option.bind_some]
  rw [c10_ws1_ws w2 _ '\\' hne2 h2 (by decide)]
  simp only [Option.bind_some]
  rw [show '\\' :: (['l'] ++ (w3 ++ '"' :: (name ++ '"' :: rest))) = S!"\\l" ++ (w3 ++ '"' :: (name ++ '"' :: rest)) from rfl]
  rw [c10_stripPrefix_append]
  simp only [Option.bind_some]
  rw [c10_ws1_ws w3 _ '"' hne3 h3 (by decide)]
  simp only [Option.bind_some]
  exact c10_quoted name rest hq

/-- after `HYPERLINK\s+` an external link needs a `"`; a `\l` switch is not one -/
theorem c10_external_none (w1 w2 rest : Str) (h1 : c10_allWs w1 = true) (h2 : c10_allWs w2 = true)
    (hne : w2 ≠ []) : matchExternalLink (w1 ++ S!"HYPERLINK" ++ w2 ++ S!"\\l" ++ rest) = none := by
  have e : w1 ++ S!"HYPERLINK" ++ w2 ++ S!"\\l" ++ rest =
      w1 ++ (S!"HYPERLINK" ++ (w2 ++ '\\' :: ('l' :: rest))) := by simp
  rw [e]
  unfold matchExternalLink
  rw [c10_keyword w1 _ h1]
  simp only [Option.bind_eq_bind, Option.bind_some]
  rw [c10_ws1_ws w2 _ '\\' hne h2 (by decide)]
  rfl

/-! ### replaceFragment -/

theorem c10_replaceFragment_hash (pre old f : Str) (h : '#' ∉ pre) :
    replaceFragment (pre ++ '#' :: old) f = pre ++ '#' :: f := by
  simp [replaceFragment, c10_takeWhile_stop '#' pre old h]

theorem c10_replaceFragment_nohash (uri f : Str) (h : '#' ∉ uri) :
    replaceFragment uri f = uri ++ '#' :: f := by
  simp [replaceFragment, c10_takeWhile_all '#' uri h]

end Mammoth
