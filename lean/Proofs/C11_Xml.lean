/-
  C11, from the XML — the formatting of a run read off the `w:rPr` element, written as a specification over the
  XML (independent of the reader's helper functions), and the reader half of the end-to-end theorem:
  what `readElem` makes of a `w:r` element.
-/
import Proofs.C11_Lemmas
import Proofs.C10_Fields
namespace Mammoth

/-! ### looking into XML, specification style -/

/-- the child ELEMENTS of `ns` called `name`, in document order, as (attributes, children) -/
def c11x_named (name : Str) (ns : List XmlNode) : List (Attrs × List XmlNode) :=
  ns.filterMap fun n =>
    match n with
    | .elem m as cs => if m = name then some (as, cs) else none
    | .text _ => none

/-- the value of attribute `k`: that of its last occurrence in the attribute list -/
def c11x_attr (k : Str) (as : Attrs) : Option Str :=
  ((as.filter fun p => p.1 = k).getLast?).map (·.2)

/-- `w:val` of the FIRST element called `name` among `props`:
    `none` — there is no such element; `some none` — it has no `w:val`; `some (some v)` — its value -/
def c11x_propVal (name : Str) (props : List XmlNode) : Option (Option Str) :=
  (c11x_named name props).head?.map fun p => c11x_attr S!"w:val" p.1

/-- the children of the first child element called `name` (nothing if there is none) -/
def c11x_childrenOf (name : Str) (cs : List XmlNode) : List XmlNode :=
  ((c11x_named name cs).head?.map (·.2)).getD []

theorem c11x_findChild (name : Str) (ns : List XmlNode) :
    findChild name ns = (c11x_named name ns).head? := by
  induction ns with
  | nil => rfl
  | cons n ns ih =>
    cases n with
    | text s => simpa [findChild, c11x_named] using ih
    | elem m as cs =>
      by_cases h : m = name
      · simp [findChild, c11x_named, h]
      · simp only [findChild, beq_iff_eq, h, if_false, ih]
        simp [c11x_named, h]

theorem c11x_attr_eq (k : Str) (as : Attrs) : attr? k as = c11x_attr k as := by
  unfold attr? c11x_attr
  induction as with
  | nil => rfl
  | cons p as ih =>
    obtain ⟨k', v⟩ := p
    simp only [lookupLast, ih]
    by_cases h : k' = k
    · subst h
      simp only [List.filter_cons, decide_true, if_true, List.getLast?_cons]
      cases (as.filter fun p => decide (p.1 = k')).getLast? <;> simp
    · have h' : ¬ k = k' := fun e => h e.symm
      simp only [List.filter_cons, h, decide_false, Bool.false_eq_true, if_false, h']
      cases (as.filter fun p => decide (p.1 = k)).getLast? <;> simp

theorem c11x_childrenOf_eq (name : Str) (cs : List XmlNode) :
    (findChildOrNull name cs).2 = c11x_childrenOf name cs := by
  unfold findChildOrNull c11x_childrenOf
  rw [c11x_findChild]
  cases (c11x_named name cs).head? <;> rfl

theorem c11x_childAttr (name : Str) (props : List XmlNode) :
    childAttr name S!"w:val" props = (c11x_propVal name props).join := by
  unfold childAttr findChildOrNull c11x_propVal
  rw [c11x_findChild]
  cases (c11x_named name props).head? with
  | none => rfl
  | some p => simp [c11x_attr_eq]

/-! ### the formatting of a run, read off the XML property list -/

/-- an on/off property (`w:b`, `w:i`, `w:strike`, `w:caps`, `w:smallCaps`): ON iff the element is present and its
    `w:val` is not `false` / `0` (no `w:val` counts as on) -/
def c11x_toggle (name : Str) (props : List XmlNode) : Bool :=
  match c11x_propVal name props with
  | none => false
  | some none => true
  | some (some v) => decide (v ≠ S!"false" ∧ v ≠ S!"0")

/-- underline: ON iff `w:u` is present with a `w:val` that is not `false` / `0` / `none` -/
def c11x_underline (props : List XmlNode) : Bool :=
  match c11x_propVal S!"w:u" props with
  | some (some v) => decide (v ≠ S!"false" ∧ v ≠ S!"0" ∧ v ≠ S!"none")
  | _ => false

/-- highlight colour: the `w:val` of `w:highlight`, unless absent, empty or `none` -/
def c11x_highlight (props : List XmlNode) : Option Str :=
  match c11x_propVal S!"w:highlight" props with
  | some (some v) => if v = [] ∨ v = S!"none" then none else some v
  | _ => none

/-- the raw `w:val` of `w:vertAlign` -/
def c11x_vertAlign (props : List XmlNode) : Option Str := (c11x_propVal S!"w:vertAlign" props).join

/-- the id of the run style: the `w:val` of `w:rStyle` -/
def c11x_styleId (props : List XmlNode) : Option Str := (c11x_propVal S!"w:rStyle" props).join

/-- the name under which that id is defined among the character styles (none if undefined or unnamed) -/
def c11x_styleName (env : REnv) (props : List XmlNode) : Option Str :=
  match c11x_styleId props with
  | none => none
  | some sid => (lookupLast (some sid) env.styles.character).join

/-- the reader's warning about an undefined run style -/
def c11x_styleMsgs (env : REnv) (props : List XmlNode) : List Str :=
  match c11x_styleId props with
  | none => []
  | some sid =>
    match lookupLast (some sid) env.styles.character with
    | none => [S!"Run style with ID " ++ sid ++ S!" was referenced but not defined in the document"]
    | some _ => []

/-- the run properties specified by the XML property list -/
def c11x_runProps (env : REnv) (props : List XmlNode) : RunProps :=
  { styleId := c11x_styleId props, styleName := c11x_styleName env props,
    bold := c11x_toggle S!"w:b" props, italic := c11x_toggle S!"w:i" props,
    underline := c11x_underline props, strike := c11x_toggle S!"w:strike" props,
    allCaps := c11x_toggle S!"w:caps" props, smallCaps := c11x_toggle S!"w:smallCaps" props,
    vertAlign := c11x_vertAlign props, highlight := c11x_highlight props }

/-- THE FORMATTING PATHS OF A RUN, FROM ITS XML PROPERTIES, innermost first: highlight (only if a mapping matches the
    colour), small caps, all caps (mapped path, else no element), strikethrough (mapped, else `s`), underline (mapped,
    else no element), `sub` / `sup`, italic (mapped, else `em`), bold (mapped, else `strong`) -/
def c11x_formatPaths (cfg : Cfg) (props : List XmlNode) : List HtmlPath :=
  c11_highlightSpec cfg (c11x_highlight props) ++
  c11_propSpec cfg (c11x_toggle S!"w:smallCaps" props) .smallCaps none ++
  c11_propSpec cfg (c11x_toggle S!"w:caps" props) .allCaps none ++
  c11_propSpec cfg (c11x_toggle S!"w:strike" props) .strikethrough (some S!"s") ++
  c11_propSpec cfg (c11x_underline props) .underline none ++
  c11_vertSpec (c11x_vertAlign props) ++
  c11_propSpec cfg (c11x_toggle S!"w:i" props) .italic (some S!"em") ++
  c11_propSpec cfg (c11x_toggle S!"w:b" props) .bold (some S!"strong")

/-- the path of the run style: that of the first matching run mapping, else no element -/
def c11x_stylePath (env : REnv) (cfg : Cfg) (props : List XmlNode) : HtmlPath :=
  match findStyle cfg.upper cfg.styleMap (.run (c11x_styleId props) (c11x_styleName env props)) with
  | some s => s.path
  | none => .elements []

/-- all the paths of a run, innermost first -/
def c11x_paths (env : REnv) (cfg : Cfg) (props : List XmlNode) : List HtmlPath :=
  c11x_formatPaths cfg props ++ [c11x_stylePath env cfg props]

/-! ### the reader's helper functions compute these -/

theorem c11x_readBoolElem (name : Str) (props : List XmlNode) :
    readBoolElem name props = c11x_toggle name props := by
  unfold readBoolElem c11x_toggle c11x_propVal
  rw [c11x_findChild]
  cases (c11x_named name props).head? with
  | none => rfl
  | some p =>
    obtain ⟨as, cs⟩ := p
    simp only [Option.map_some, c11x_attr_eq, readBoolAttr]
    cases c11x_attr S!"w:val" as with
    | none => rfl
    | some v =>
      by_cases h1 : v = S!"false"
      · subst h1; rfl
      · by_cases h2 : v = S!"0"
        · subst h2; rfl
        · simp [h1, h2]

theorem c11x_readUnderline (props : List XmlNode) : readUnderline props = c11x_underline props := by
  unfold readUnderline c11x_underline c11x_propVal
  rw [c11x_findChild]
  cases (c11x_named S!"w:u" props).head? with
  | none => rfl
  | some p =>
    obtain ⟨as, cs⟩ := p
    simp only [Option.map_some, c11x_attr_eq]
    cases c11x_attr S!"w:val" as with
    | none => rfl
    | some v =>
      by_cases h1 : v = S!"false"
      · subst h1; rfl
      · by_cases h2 : v = S!"0"
        · subst h2; rfl
        · by_cases h3 : v = S!"none"
          · subst h3; rfl
          · simp [h1, h2, h3]

theorem c11x_readHighlight (props : List XmlNode) :
    readHighlight (childAttr S!"w:highlight" S!"w:val" props) = c11x_highlight props := by
  rw [c11x_childAttr]
  unfold readHighlight c11x_highlight
  cases c11x_propVal S!"w:highlight" props with
  | none => rfl
  | some o =>
    cases o with
    | none => rfl
    | some v =>
      simp only [Option.join]
      by_cases h1 : v = []
      · subst h1; rfl
      · by_cases h2 : v = S!"none"
        · subst h2; rfl
        · simp [h1, h2, List.isEmpty_iff]

theorem c11x_readStyle (env : REnv) (props : List XmlNode) :
    readStyle props S!"w:rStyle" S!"Run" env.styles.character =
      ((c11x_styleId props, c11x_styleName env props), c11x_styleMsgs env props) := by
  unfold readStyle c11x_styleName c11x_styleMsgs
  rw [c11x_childAttr]
  show (match c11x_styleId props with | none => _ | some sid => _) = _
  cases c11x_styleId props with
  | none => rfl
  | some sid =>
    dsimp only
    cases lookupLast (some sid) env.styles.character <;> rfl

theorem c11x_readRunProps (env : REnv) (props : List XmlNode) :
    readRunProps props (c11x_styleId props, c11x_styleName env props) = c11x_runProps env props := by
  unfold readRunProps c11x_runProps
  rw [c11x_readHighlight]
  simp only [c11x_readBoolElem, c11x_readUnderline, c11x_childAttr, c11x_vertAlign]

/-! ### the reader on `w:r` -/

/-- the run properties are those of the first `w:rPr` child -/
abbrev c11x_rPr (cs : List XmlNode) : List XmlNode := c11x_childrenOf S!"w:rPr" cs

/-- READING A RUN.  If reading the children `cs` of a `w:r` gives `r` and ends in a state with no open hyperlink
    field, the run is read as one `run` element with the properties specified by its `w:rPr`, around the elements
    of the children. -/
theorem c11x_read_run (env : REnv) (f : Nat) (st st1 : RState) (as : Attrs) (cs : List XmlNode) (r : ReadResult)
    (hcs : readAllWith (readElem env f) st cs = .ok (r, st1))
    (hfld : currentHyperlink st1.stack = none) :
    readElem env (f+1) st (.elem S!"w:r" as cs) =
      .ok ({ elements := [.run (c11x_runProps env (c11x_rPr cs)) r.elements], extra := r.extra,
             messages := c11x_styleMsgs env (c11x_rPr cs) ++ r.messages }, st1) := by
  rw [c10_reader_run, hcs]
  simp only [bind, Except.bind, pure, Except.pure, c10_runResult, hfld, c11x_childrenOf_eq, c11x_readStyle,
    c11x_readRunProps]

/-- with an open hyperlink field the elements of the children are put in a hyperlink inside the run -/
theorem c11x_read_run_field (env : REnv) (f : Nat) (st st1 : RState) (as : Attrs) (cs : List XmlNode) (r : ReadResult)
    (kw : LinkProps) (hcs : readAllWith (readElem env f) st cs = .ok (r, st1))
    (hfld : currentHyperlink st1.stack = some kw) :
    readElem env (f+1) st (.elem S!"w:r" as cs) =
      .ok ({ elements := [.run (c11x_runProps env (c11x_rPr cs)) [.hyperlink kw r.elements]], extra := r.extra,
             messages := c11x_styleMsgs env (c11x_rPr cs) ++ r.messages }, st1) := by
  rw [c10_reader_run, hcs]
  simp only [bind, Except.bind, pure, Except.pure, c10_runResult, hfld, c11x_childrenOf_eq, c11x_readStyle,
    c11x_readRunProps]

/-- the `w:rPr` element itself reads as nothing -/
theorem c11x_read_rPr (env : REnv) (f : Nat) (st : RState) (as : Attrs) (cs : List XmlNode) :
    readElem env (f+1) st (.elem S!"w:rPr" as cs) = .ok ({}, st) := rfl

/-! ### the specified paths are the converter's -/

theorem c11x_runPropPaths (env : REnv) (cfg : Cfg) (props : List XmlNode) :
    runPropPaths cfg (c11x_runProps env props) = c11x_formatPaths cfg props := by
  unfold runPropPaths c11x_formatPaths
  simp only [c11_prop_eq]
  simp only [List.append_assoc]
  rw [← List.append_assoc (if ((c11x_runProps env props).vertAlign == some S!"subscript") = true then _ else _),
    c11_vert_eq]
  congr 1
  exact c11_highlight_eq cfg _

theorem c11x_stylePath_eq (env : REnv) (cfg : Cfg) (props : List XmlNode) :
    (findPath cfg (.run (c11x_runProps env props).styleId (c11x_runProps env props).styleName)).getD (.elements []) =
      c11x_stylePath env cfg props := by
  unfold findPath c11x_stylePath
  show ((findStyle cfg.upper cfg.styleMap (.run (c11x_styleId props) (c11x_styleName env props))).map _).getD _ = _
  cases findStyle cfg.upper cfg.styleMap (.run (c11x_styleId props) (c11x_styleName env props)) <;> rfl

/-! ### everything off -/

/-- NO FORMATTING: every on/off property and underline absent or switched off, no sub/superscript, highlight absent,
    `none` or not mapped, and no run-style mapping applies -/
def c11x_plain (env : REnv) (cfg : Cfg) (props : List XmlNode) : Bool :=
  !c11x_toggle S!"w:b" props && !c11x_toggle S!"w:i" props && !c11x_underline props &&
  !c11x_toggle S!"w:strike" props && !c11x_toggle S!"w:caps" props && !c11x_toggle S!"w:smallCaps" props &&
  decide (c11x_vertAlign props ≠ some S!"subscript") && decide (c11x_vertAlign props ≠ some S!"superscript") &&
  (match c11x_highlight props with
    | none => true
    | some c => (findStyle cfg.upper cfg.styleMap (.highlight c)).isNone) &&
  (findStyle cfg.upper cfg.styleMap (.run (c11x_styleId props) (c11x_styleName env props))).isNone

theorem c11x_plain_paths (env : REnv) (cfg : Cfg) (props : List XmlNode) (h : c11x_plain env cfg props = true) :
    c11x_paths env cfg props = [.elements []] := by
  unfold c11x_plain at h
  simp only [Bool.and_eq_true, Bool.not_eq_true', decide_eq_true_eq, Option.isNone_iff_eq_none] at h
  obtain ⟨⟨⟨⟨⟨⟨⟨⟨⟨hb, hi⟩, hu⟩, hs⟩, hc⟩, hsc⟩, hsub⟩, hsup⟩, hh⟩, hst⟩ := h
  have h1 : c11_highlightSpec cfg (c11x_highlight props) = [] := by
    unfold c11_highlightSpec
    cases hc : c11x_highlight props with
    | none => rfl
    | some c => rw [hc] at hh; simp only [Option.isNone_iff_eq_none] at hh; simp [hh]
  simp [c11x_paths, c11x_formatPaths, c11x_stylePath, h1, c11_propSpec, c11_vertSpec, hb, hi, hu, hs, hc, hsc,
    hsub, hsup, hst]

end Mammoth
