/-
  C16, converter half — the specification of the converter's messages.

  `c16_cevs cfg e` lists, by recursion over the document tree, what the converter records while visiting
  `e`, in order: the warnings ("Unrecognised paragraph/run style …" when no mapping matches an element that
  has a style id; the warning of `Image.open` for an image that cannot be opened), the note references and
  the (enabled) comment references.  Nothing is recorded below a paragraph, run or table that a mapping
  sends to `!` (its content is never visited).

  `c16_docEvents cfg d`: the body, then the notes that the body references (in order of reference), then
  the comments referenced from the body and from those notes.

  `c16_visit_events` … `c16_convertDoc_messages`: the converter's state after visiting records exactly
  these events; the messages of `convertDoc` are `unique` of the warnings among them.
-/
import Proofs.C16_Image
import Proofs.C10_Convert
import Proofs.C01_Refine
namespace Mammoth

/-- what the converter records -/
inductive c16_CEv where
  | warn (m : Str)
  | noteRef (ty id : Str)
  | commentRef (id : Str)
deriving DecidableEq, Repr

/-- a paragraph / run with a style id that no mapping matches -/
def c16_unrecognised (cfg : Cfg) (t : Target) (kind : Str) (sid sname : Option Str) : List c16_CEv :=
  match findPath cfg t, sid with
  | none, some i =>
    [.warn (S!"Unrecognised " ++ kind ++ S!" style: " ++ pyOpt sname ++ S!" (Style ID: " ++ i ++ S!")")]
  | _, _ => []

/-- an image: the warning of `Image.open`, when the image converter opens images and opening fails -/
def c16_imageEvents (cfg : Cfg) (i : ImageProps) : List c16_CEv :=
  if c16_opens cfg then
    match c16_openError cfg i.src with
    | some m => [.warn m]
    | none => []
  else []

mutual
def c16_cevs (cfg : Cfg) : Elem → List c16_CEv
  | .paragraph p cs =>
    c16_unrecognised cfg (.paragraph p) S!"paragraph" p.styleId p.styleName ++
      (if (c01_path cfg (.paragraph p) (.elements [pathElem S!"p" true])).isIgnore then [] else c16_cevsL cfg cs)
  | .run r cs =>
    c16_unrecognised cfg (.run r.styleId r.styleName) S!"run" r.styleId r.styleName ++
      (if (c01_runPaths cfg r).any HtmlPath.isIgnore then [] else c16_cevsL cfg cs)
  | .hyperlink _ cs => c16_cevsL cfg cs
  | .table sid sname rows =>
    if (c01_path cfg (.table sid sname) (.elements [pathElem S!"table" true])).isIgnore then []
    else c16_cevsL cfg rows
  | .row _ cells => c16_cevsL cfg cells
  | .cell _ _ _ cs => c16_cevsL cfg cs
  | .image i => c16_imageEvents cfg i
  | .noteRef ty id => [.noteRef ty id]
  | .commentRef id =>
    match findPath cfg .commentReference with
    | some (.elements _) => [.commentRef id]
    | _ => []
  | _ => []
def c16_cevsL (cfg : Cfg) : List Elem → List c16_CEv
  | [] => []
  | e :: es => c16_cevs cfg e ++ c16_cevsL cfg es
end

def c16_cWarns : List c16_CEv → List Str
  | [] => []
  | .warn m :: r => m :: c16_cWarns r
  | _ :: r => c16_cWarns r
def c16_cRefs : List c16_CEv → List (Str × Str)
  | [] => []
  | .noteRef ty id :: r => (ty, id) :: c16_cRefs r
  | _ :: r => c16_cRefs r
def c16_cCRefs : List c16_CEv → List Str
  | [] => []
  | .commentRef id :: r => id :: c16_cCRefs r
  | _ :: r => c16_cCRefs r

/-- `self._comments[id]` (last wins) -/
def c16_findComment (cfg : Cfg) (id : Str) : Option Comment :=
  lookupLast id (cfg.comments.map fun c => (c.id, c))

/-- `Notes.resolve` -/
def c16_findNote (notes : List Note) (ref : Str × Str) : Option Note :=
  lookupLast ref (notes.map fun n => ((n.ty, n.id), n))

def c16_cComments (cfg : Cfg) (evs : List c16_CEv) : List Comment :=
  (c16_cCRefs evs).filterMap (c16_findComment cfg)

/-- THE EVENTS OF A DOCUMENT: body; the notes referenced from the body, in order of reference; the comments
    referenced from the body and from those notes, in order of reference -/
def c16_docEvents (cfg : Cfg) (d : Document) : List c16_CEv :=
  let body := c16_cevsL cfg d.children
  let notes := (c16_cRefs body).filterMap (c16_findNote d.notes)
  let noteEvs := notes.flatMap fun n => c16_cevsL cfg n.body
  let comments := c16_cComments cfg (body ++ noteEvs)
  body ++ noteEvs ++ comments.flatMap fun c => c16_cevsL cfg c.body

/-- THE WARNINGS THE CONVERTER MUST PRODUCE FOR A DOCUMENT (before `unique`) -/
def c16_docWarnings (cfg : Cfg) (d : Document) : List Str :=
  c16_cWarns (c16_docEvents { cfg with comments := d.comments } d)

theorem c16_cWarns_append (a b : List c16_CEv) : c16_cWarns (a ++ b) = c16_cWarns a ++ c16_cWarns b := by
  induction a with
  | nil => rfl
  | cons x xs ih => cases x <;> simp [c16_cWarns, ih]
theorem c16_cRefs_append (a b : List c16_CEv) : c16_cRefs (a ++ b) = c16_cRefs a ++ c16_cRefs b := by
  induction a with
  | nil => rfl
  | cons x xs ih => cases x <;> simp [c16_cRefs, ih]
theorem c16_cCRefs_append (a b : List c16_CEv) : c16_cCRefs (a ++ b) = c16_cCRefs a ++ c16_cCRefs b := by
  induction a with
  | nil => rfl
  | cons x xs ih => cases x <;> simp [c16_cCRefs, ih]
theorem c16_cComments_append (cfg : Cfg) (a b : List c16_CEv) :
    c16_cComments cfg (a ++ b) = c16_cComments cfg a ++ c16_cComments cfg b := by
  simp [c16_cComments, c16_cCRefs_append]

/-! ### the Hoare-style statement -/

/-- running from `st` to `st'` has recorded exactly the events `evs` -/
structure c16_CPost (cfg : Cfg) (st : ConvState) (evs : List c16_CEv) (st' : ConvState) : Prop where
  msgs : st'.messages = st.messages ++ c16_cWarns evs
  refs : st'.noteRefs = st.noteRefs ++ c16_cRefs evs
  comments : st'.refComments.map Prod.snd = st.refComments.map Prod.snd ++ c16_cComments cfg evs

def c16_CH (cfg : Cfg) {α} (m : ConvM α) (evs : List c16_CEv) : Prop :=
  ∀ st a st', m.run st = .ok (a, st') → c16_CPost cfg st evs st'

theorem c16_CPost_refl (cfg : Cfg) (st : ConvState) : c16_CPost cfg st [] st :=
  ⟨by simp [c16_cWarns], by simp [c16_cRefs], by simp [c16_cComments, c16_cCRefs]⟩

theorem c16_CPost_trans {cfg : Cfg} {a b c : ConvState} {e1 e2 : List c16_CEv}
    (p : c16_CPost cfg a e1 b) (q : c16_CPost cfg b e2 c) : c16_CPost cfg a (e1 ++ e2) c :=
  ⟨by rw [q.msgs, p.msgs, c16_cWarns_append, List.append_assoc],
   by rw [q.refs, p.refs, c16_cRefs_append, List.append_assoc],
   by rw [q.comments, p.comments, c16_cComments_append, List.append_assoc]⟩

theorem c16_CH_pure (cfg : Cfg) {α} (a : α) : c16_CH cfg (pure a : ConvM α) [] := by
  intro st b st' h
  rw [c10_run_pure] at h; cases h
  exact c16_CPost_refl cfg st

theorem c16_CH_bind (cfg : Cfg) {α β} (m : ConvM α) (f : α → ConvM β) (e1 e2 : List c16_CEv)
    (hm : c16_CH cfg m e1) (hf : ∀ a, c16_CH cfg (f a) e2) : c16_CH cfg (m >>= f) (e1 ++ e2) := by
  intro st b st' h
  rw [c10_run_bind] at h
  split at h
  · rename_i a s hr
    exact c16_CPost_trans (hm st a s hr) (hf a s b st' h)
  · cases h

/-- a step that records nothing, then `f` -/
theorem c16_CH_bind_nil (cfg : Cfg) {α β} (m : ConvM α) (f : α → ConvM β) (evs : List c16_CEv)
    (hm : c16_CH cfg m []) (hf : ∀ a, c16_CH cfg (f a) evs) : c16_CH cfg (m >>= f) evs := by
  have := c16_CH_bind cfg m f [] evs hm hf
  simpa using this

/-- `m`, then a pure repackaging of the result -/
theorem c16_CH_map (cfg : Cfg) {α β} (m : ConvM α) (g : α → β) (evs : List c16_CEv)
    (hm : c16_CH cfg m evs) : c16_CH cfg (m >>= fun a => pure (g a)) evs := by
  have := c16_CH_bind cfg m (fun a => (pure (g a) : ConvM β)) evs [] hm (fun a => c16_CH_pure cfg _)
  simpa using this

theorem c16_CH_modify_other (cfg : Cfg) (f : ConvState → ConvState)
    (hf : ∀ s, (f s).messages = s.messages ∧ (f s).noteRefs = s.noteRefs ∧ (f s).refComments = s.refComments) :
    c16_CH cfg (modify f : ConvM PUnit) [] := by
  intro st b st' h
  rw [c10_run_modify] at h; cases h
  obtain ⟨h1, h2, h3⟩ := hf st
  exact ⟨by simp [c16_cWarns, h1], by simp [c16_cRefs, h2], by simp [c16_cComments, c16_cCRefs, h3]⟩

theorem c16_CH_warn (cfg : Cfg) (m : Str) : c16_CH cfg (warn m) [.warn m] := by
  intro st b st' h
  unfold warn at h
  rw [c10_run_modify] at h; cases h
  exact ⟨rfl, by simp [c16_cRefs], by simp [c16_cComments, c16_cCRefs]⟩

theorem c16_CH_throw (cfg : Cfg) {α} (e : Err) (evs : List c16_CEv) : c16_CH cfg (throw e : ConvM α) evs := by
  intro st b st' h
  rw [c10_run_throw] at h; cases h

theorem c16_CPost_warnState (cfg : Cfg) (t : Target) (kind : Str) (sid sname : Option Str) (st : ConvState) :
    c16_CPost cfg st (c16_unrecognised cfg t kind sid sname) (c01_warnState cfg t kind sid sname st) := by
  unfold c01_warnState c16_unrecognised
  cases findPath cfg t with
  | some p => exact c16_CPost_refl cfg st
  | none =>
    cases sid with
    | none => exact c16_CPost_refl cfg st
    | some i => exact ⟨rfl, by simp [c16_cRefs], by simp [c16_cComments, c16_cCRefs]⟩

theorem c16_CH_findPathWarn (cfg : Cfg) {β} (t : Target) (kind : Str) (sid sname : Option Str) (d : HtmlPath)
    (f : HtmlPath → ConvM β) (evs : List c16_CEv) (hf : c16_CH cfg (f (c01_path cfg t d)) evs) :
    c16_CH cfg (findPathWarn cfg t kind sid sname d >>= f) (c16_unrecognised cfg t kind sid sname ++ evs) := by
  intro st b st' h
  rw [c10_run_bind] at h
  have e : (findPathWarn cfg t kind sid sname d).run st =
      .ok (c01_path cfg t d, c01_warnState cfg t kind sid sname st) := c01_findPathWarn_run ..
  rw [e] at h
  exact c16_CPost_trans (c16_CPost_warnState cfg t kind sid sname st) (hf _ b st' h)

/-! ### images -/

theorem c16_openImage_post (cfg : Cfg) (src : ImageSrc) (st : ConvState) (res : Except Str Bytes)
    (st1 : ConvState) (h : (openImage cfg src).run st = .ok (res, st1)) :
    c16_CPost cfg st [] st1 ∧
      c16_openError cfg src = (match res with | .error m => some m | .ok _ => none) := by
  unfold openImage at h
  unfold c16_openError
  cases src with
  | embedded n =>
    simp only at h ⊢
    split at h
    · rw [c10_run_pure] at h; cases h
      exact ⟨c16_CPost_refl cfg st, rfl⟩
    · rw [c10_run_throw] at h; cases h
  | linked uri =>
    simp only at h ⊢
    by_cases habs : isAbsoluteUri uri = true
    · simp only [habs, if_true] at h ⊢
      rw [c10_run_bind, c10_run_modify] at h
      simp only at h
      cases hw : cfg.world uri with
      | some b =>
        rw [hw] at h
        simp only [c10_run_pure] at h; cases h
        exact ⟨⟨by simp [c16_cWarns], by simp [c16_cRefs], by simp [c16_cComments, c16_cCRefs]⟩, rfl⟩
      | none =>
        rw [hw] at h
        simp only [c10_run_pure] at h; cases h
        exact ⟨⟨by simp [c16_cWarns], by simp [c16_cRefs], by simp [c16_cComments, c16_cCRefs]⟩, rfl⟩
    · simp only [habs, Bool.false_eq_true, if_false] at h ⊢
      cases hb : cfg.base with
      | none =>
        rw [hb] at h
        simp only [c10_run_pure] at h; cases h
        exact ⟨c16_CPost_refl cfg st, rfl⟩
      | some b =>
        rw [hb] at h
        simp only at h ⊢
        rw [c10_run_bind, c10_run_modify] at h
        simp only at h
        cases hw : cfg.world (osPathJoin b uri) with
        | some bs =>
          rw [hw] at h
          simp only [c10_run_pure] at h; cases h
          exact ⟨⟨by simp [c16_cWarns], by simp [c16_cRefs], by simp [c16_cComments, c16_cCRefs]⟩, rfl⟩
        | none =>
          rw [hw] at h
          simp only [c10_run_pure] at h; cases h
          exact ⟨⟨by simp [c16_cWarns], by simp [c16_cRefs], by simp [c16_cComments, c16_cCRefs]⟩, rfl⟩

/-- opening the image, then an `img` or the warning -/
theorem c16_CH_open (cfg : Cfg) (i : ImageProps) (g : Bytes → List Node) :
    c16_CH cfg (do
        match ← openImage cfg i.src with
        | .ok bytes => pure (g bytes)
        | .error msg => do warn msg; pure [])
      (match c16_openError cfg i.src with | some m => [.warn m] | none => []) := by
  intro st b st' h
  rw [c10_run_bind] at h
  split at h
  · rename_i res s hr
    obtain ⟨p, he⟩ := c16_openImage_post cfg i.src st res s hr
    rw [he]
    cases res with
    | ok bytes =>
      simp only [c10_run_pure] at h; cases h
      exact p
    | error msg =>
      simp only at h ⊢
      have := c16_CH_bind_nil cfg (warn msg) (fun _ => (pure [] : ConvM (List Node))) [.warn msg]
      have hw := c16_CH_map cfg (warn msg) (fun _ => ([] : List Node)) [.warn msg] (c16_CH_warn cfg msg) s b st' h
      exact c16_CPost_trans p hw
  · cases h

theorem c16_CH_convertImage (cfg : Cfg) (i : ImageProps) :
    c16_CH cfg (convertImage cfg i) (c16_imageEvents cfg i) := by
  unfold convertImage c16_imageEvents c16_opens
  apply c16_CH_bind_nil
  · exact c16_CH_modify_other cfg _ (fun s => ⟨rfl, rfl, rfl⟩)
  · intro _
    simp only
    cases cfg.imageConv with
    | dataUri =>
      simp only [if_true]
      exact c16_CH_open cfg i _
    | fixed attrs opens =>
      simp only
      cases opens with
      | true =>
        simp only [if_true]
        exact c16_CH_open cfg i _
      | false =>
        simp only [Bool.false_eq_true, if_false]
        exact c16_CH_pure cfg _

/-! ### the visitor -/

mutual
theorem c16_visit_events (cfg : Cfg) (hdr : Bool) (e : Elem) : c16_CH cfg (visit cfg hdr e) (c16_cevs cfg e) := by
  match e with
  | .paragraph p cs =>
    rw [visit, c16_cevs]
    apply c16_CH_findPathWarn
    cases hpath : c01_path cfg (.paragraph p) (.elements [pathElem S!"p" true]) with
    | ignore => exact c16_CH_pure cfg _
    | elements es =>
      simp only [HtmlPath.isIgnore, Bool.false_eq_true, if_false]
      exact c16_CH_map cfg _ _ _ (c16_visitAll_events cfg hdr cs)
  | .run r cs =>
    rw [visit, c16_cevs]
    apply c16_CH_findPathWarn
    simp only
    rw [← c01_runPaths]
    split
    · exact c16_CH_pure cfg _
    · exact c16_CH_map cfg _ _ _ (c16_visitAll_events cfg hdr cs)
  | .text s => rw [visit]; simp only [c16_cevs]; exact c16_CH_pure cfg _
  | .hyperlink h cs =>
    rw [visit, c16_cevs]
    exact c16_CH_map cfg _ _ _ (c16_visitAll_events cfg hdr cs)
  | .checkbox c => rw [visit]; simp only [c16_cevs]; exact c16_CH_pure cfg _
  | .table sid sname rows =>
    rw [visit, c16_cevs]
    rw [← c01_path]
    cases hpath : c01_path cfg (.table sid sname) (.elements [pathElem S!"table" true]) with
    | ignore => exact c16_CH_pure cfg _
    | elements es =>
      simp only [HtmlPath.isIgnore, Bool.false_eq_true, if_false]
      exact c16_CH_map cfg _ _ _ (c16_visitRows_events cfg true rows)
  | .row h cells =>
    rw [visit, c16_cevs]
    exact c16_CH_map cfg _ _ _ (c16_visitAll_events cfg hdr cells)
  | .cell a b c cs =>
    rw [visit, c16_cevs]
    exact c16_CH_map cfg _ _ _ (c16_visitAll_events cfg hdr cs)
  | .brk ty =>
    rw [visit]; simp only [c16_cevs]
    split
    · exact c16_CH_pure cfg _
    · exact c16_CH_pure cfg _
    · split <;> exact c16_CH_pure cfg _
  | .tab => rw [visit]; simp only [c16_cevs]; exact c16_CH_pure cfg _
  | .image i => rw [visit]; simp only [c16_cevs]; exact c16_CH_convertImage cfg i
  | .bookmark n => rw [visit]; simp only [c16_cevs]; exact c16_CH_pure cfg _
  | .noteRef ty id =>
    rw [c16_cevs]
    intro st ns st' h
    rw [c10_visit_noteRef] at h
    cases h
    exact ⟨by simp [c16_cWarns], rfl, by simp [c16_cComments, c16_cCRefs]⟩
  | .commentRef id =>
    rw [c16_cevs]
    cases hp : findPath cfg .commentReference with
    | none => rw [visit]; simp only [hp]; exact c16_CH_pure cfg _
    | some p =>
      cases p with
      | ignore => rw [visit]; simp only [hp]; exact c16_CH_pure cfg _
      | elements es =>
        simp only
        intro st ns st' h
        rw [visit] at h
        simp only [hp] at h
        cases hl : lookupLast id (cfg.comments.map fun c => (c.id, c)) with
        | none => simp only [hl, c10_run_throw] at h; cases h
        | some cm =>
          simp only [hl, c10_run_bind, c10_run_get, c10_run_modify, c10_run_pure] at h
          cases h
          exact ⟨by simp [c16_cWarns], by simp [c16_cRefs],
            by simp [c16_cComments, c16_cCRefs, c16_findComment, hl]⟩
theorem c16_visitAll_events (cfg : Cfg) (hdr : Bool) (es : List Elem) :
    c16_CH cfg (visitAll cfg hdr es) (c16_cevsL cfg es) := by
  match es with
  | [] => rw [visitAll]; simp only [c16_cevsL]; exact c16_CH_pure cfg _
  | e :: es =>
    rw [visitAll, c16_cevsL]
    exact c16_CH_bind cfg _ _ _ _ (c16_visit_events cfg hdr e)
      (fun a => c16_CH_map cfg _ _ _ (c16_visitAll_events cfg hdr es))
theorem c16_visitRows_events (cfg : Cfg) (inHead : Bool) (rs : List Elem) :
    c16_CH cfg (visitRows cfg inHead rs) (c16_cevsL cfg rs) := by
  match rs with
  | [] => rw [visitRows]; simp only [c16_cevsL]; exact c16_CH_pure cfg _
  | r :: rs =>
    rw [visitRows, c16_cevsL]
    split
    · exact c16_CH_bind cfg _ _ _ _ (c16_visit_events cfg true r)
        (fun a => c16_CH_map cfg _ _ _ (c16_visitRows_events cfg true rs))
    · exact c16_CH_bind cfg _ _ _ _ (c16_visit_events cfg false r)
        (fun a => c16_CH_map cfg _ _ _ (c16_visitRows_events cfg false rs))
end

/-! ### notes, comments, the document -/

theorem c16_CH_mapMConcat (cfg : Cfg) {α} (f : α → ConvM (List Node)) (g : α → List c16_CEv)
    (h : ∀ x, c16_CH cfg (f x) (g x)) : ∀ xs : List α, c16_CH cfg (mapMConcat f xs) (xs.flatMap g)
  | [] => by rw [mapMConcat]; exact c16_CH_pure cfg _
  | x :: xs => by
    rw [mapMConcat, List.flatMap_cons]
    exact c16_CH_bind cfg _ _ _ _ (h x) (fun a => c16_CH_map cfg _ _ _ (c16_CH_mapMConcat cfg f g h xs))

theorem c16_CH_visitNote (cfg : Cfg) (n : Note) : c16_CH cfg (visitNote cfg n) (c16_cevsL cfg n.body) := by
  unfold visitNote
  exact c16_CH_map cfg _ _ _ (c16_visitAll_events cfg false n.body)

theorem c16_CH_visitComment (cfg : Cfg) (lc : Str × Comment) :
    c16_CH cfg (visitComment cfg lc) (c16_cevsL cfg lc.2.body) := by
  unfold visitComment
  exact c16_CH_map cfg _ _ _ (c16_visitAll_events cfg false lc.2.body)

theorem c16_mapM_resolve_eq (notes : List Note) : ∀ (refs : List (Str × Str)) (l : List Note),
    refs.mapM (resolveNote notes) = .ok l → l = refs.filterMap (c16_findNote notes)
  | [], l, h => by
    simp only [List.mapM_nil, pure, Except.pure, Except.ok.injEq] at h
    subst h; rfl
  | ref :: refs, l, h => by
    rw [List.mapM_cons] at h
    cases hr : resolveNote notes ref with
    | error e => rw [hr] at h; cases h
    | ok n =>
      cases hl : refs.mapM (resolveNote notes) with
      | error e => rw [hr, hl] at h; cases h
      | ok l1 =>
        rw [hr, hl] at h
        simp only [bind, Except.bind, pure, Except.pure, Except.ok.injEq] at h
        subst h
        have hf : c16_findNote notes ref = some n := by
          unfold resolveNote at hr
          unfold c16_findNote
          cases hlk : lookupLast ref (notes.map fun n => ((n.ty, n.id), n)) with
          | none => rw [hlk] at hr; cases hr
          | some m => rw [hlk] at hr; cases hr; rfl
        simp only [List.filterMap_cons, hf]
        rw [c16_mapM_resolve_eq notes refs l1 hl]

/-- the whole run of `visitDocument` from a state without references: the state afterwards has recorded
    exactly the events of the document -/
theorem c16_visitDocument_events (cfg : Cfg) (d : Document) (st st' : ConvState) (ns : List Node)
    (hn : st.noteRefs = []) (hc : st.refComments = [])
    (h : (visitDocument cfg d).run st = .ok (ns, st')) : c16_CPost cfg st (c16_docEvents cfg d) st' := by
  unfold visitDocument at h
  simp only [c10_run_bind, c10_run_get] at h
  split at h
  · rename_i nodes st1 h1
    have p1 := c16_visitAll_events cfg false d.children st nodes st1 h1
    cases hm : st1.noteRefs.mapM (resolveNote d.notes) with
    | error e => simp only [hm, c10_run_bind, c10_run_throw] at h; cases h
    | ok notes =>
      simp only [hm, c10_run_bind, c10_run_pure, c10_run_get] at h
      split at h
      · rename_i noteNodes st2 h2
        have p2 := c16_CH_mapMConcat cfg (visitNote cfg) (fun n => c16_cevsL cfg n.body)
          (c16_CH_visitNote cfg) notes st1 noteNodes st2 h2
        split at h
        · rename_i commentNodes st3 h3
          have p3 := c16_CH_mapMConcat cfg (visitComment cfg) (fun lc => c16_cevsL cfg lc.2.body)
            (c16_CH_visitComment cfg) st2.refComments st2 commentNodes st3 h3
          cases h
          have hnotes : notes = (c16_cRefs (c16_cevsL cfg d.children)).filterMap (c16_findNote d.notes) := by
            have := c16_mapM_resolve_eq d.notes _ notes hm
            rw [p1.refs, hn, List.nil_append] at this
            exact this
          have p12 := c16_CPost_trans p1 p2
          have hcomments : st2.refComments.map Prod.snd =
              c16_cComments cfg (c16_cevsL cfg d.children ++ notes.flatMap fun n => c16_cevsL cfg n.body) := by
            rw [p12.comments, hc]; rfl
          have e : st2.refComments.flatMap (fun lc => c16_cevsL cfg lc.2.body) =
              (st2.refComments.map Prod.snd).flatMap (fun c => c16_cevsL cfg c.body) := by
            rw [List.flatMap_map]
          rw [e, hcomments] at p3
          have p123 := c16_CPost_trans p12 p3
          rw [hnotes] at p123
          exact p123
        · cases h
      · cases h
  · cases h

/-- THE MESSAGES OF THE CONVERTER are `unique` of the warnings the specification prescribes -/
theorem c16_convertDoc_messages (cfg : Cfg) (d : Document) (cr : ConvResult)
    (h : convertDoc cfg d = .ok cr) : cr.messages = unique (c16_docWarnings cfg d) := by
  unfold convertDoc at h
  split at h
  · rename_i nodes st hv
    cases h
    have p := c16_visitDocument_events { cfg with comments := d.comments } d {} st nodes rfl rfl hv
    show unique st.messages = _
    rw [p.msgs]
    rfl
  · cases h

end Mammoth
