/-
  C19 helpers: specification functions and lemmas for `MammothModel/Transforms.lean`.
-/
import MammothModel.Transforms
namespace Mammoth

/-! ### specification functions -/

mutual
/-- all nodes of `e` in post-order (children left to right, each before its parent), `e` last -/
def c19_postorder : Elem → List Elem
  | .paragraph p cs => c19_postorderL cs ++ [.paragraph p cs]
  | .run r cs => c19_postorderL cs ++ [.run r cs]
  | .hyperlink h cs => c19_postorderL cs ++ [.hyperlink h cs]
  | .table a b cs => c19_postorderL cs ++ [.table a b cs]
  | .row h cs => c19_postorderL cs ++ [.row h cs]
  | .cell c r v cs => c19_postorderL cs ++ [.cell c r v cs]
  | .text s => [.text s]
  | .checkbox b => [.checkbox b]
  | .brk t => [.brk t]
  | .tab => [.tab]
  | .image i => [.image i]
  | .bookmark n => [.bookmark n]
  | .noteRef t i => [.noteRef t i]
  | .commentRef i => [.commentRef i]
def c19_postorderL : List Elem → List Elem
  | [] => []
  | c :: cs => c19_postorder c ++ c19_postorderL cs
end

mutual
/-- number of nodes of `e`, itself included -/
def c19_size : Elem → Nat
  | .paragraph _ cs => c19_sizeL cs + 1
  | .run _ cs => c19_sizeL cs + 1
  | .hyperlink _ cs => c19_sizeL cs + 1
  | .table _ _ cs => c19_sizeL cs + 1
  | .row _ cs => c19_sizeL cs + 1
  | .cell _ _ _ cs => c19_sizeL cs + 1
  | .text _ => 1
  | .checkbox _ => 1
  | .brk _ => 1
  | .tab => 1
  | .image _ => 1
  | .bookmark _ => 1
  | .noteRef _ _ => 1
  | .commentRef _ => 1
def c19_sizeL : List Elem → Nat
  | [] => 0
  | c :: cs => c19_size c + c19_sizeL cs
end

/-- the argument list contributed by one node: itself if it is a target -/
def c19_callIf (isT : Elem → Bool) (e : Elem) : List Elem := if isT e then [e] else []

mutual
/-- the arguments the element transform `g` is called with, in call order: for every node, after
    the calls for its children, the node REBUILT with its transformed children — if that is a target -/
def c19_calls (isT : Elem → Bool) (g : Elem → Elem) : Elem → List Elem
  | .paragraph p cs => c19_callsL isT g cs ++ c19_callIf isT (.paragraph p (transformL isT g cs))
  | .run r cs => c19_callsL isT g cs ++ c19_callIf isT (.run r (transformL isT g cs))
  | .hyperlink h cs => c19_callsL isT g cs ++ c19_callIf isT (.hyperlink h (transformL isT g cs))
  | .table a b cs => c19_callsL isT g cs ++ c19_callIf isT (.table a b (transformL isT g cs))
  | .row h cs => c19_callsL isT g cs ++ c19_callIf isT (.row h (transformL isT g cs))
  | .cell c r v cs => c19_callsL isT g cs ++ c19_callIf isT (.cell c r v (transformL isT g cs))
  | .text s => c19_callIf isT (.text s)
  | .checkbox b => c19_callIf isT (.checkbox b)
  | .brk t => c19_callIf isT (.brk t)
  | .tab => c19_callIf isT .tab
  | .image i => c19_callIf isT (.image i)
  | .bookmark n => c19_callIf isT (.bookmark n)
  | .noteRef t i => c19_callIf isT (.noteRef t i)
  | .commentRef i => c19_callIf isT (.commentRef i)
def c19_callsL (isT : Elem → Bool) (g : Elem → Elem) : List Elem → List Elem
  | [] => []
  | c :: cs => c19_calls isT g c ++ c19_callsL isT g cs
end

/-- the logging monad: state = the list of arguments seen so far -/
abbrev c19_LogM := StateM (List Elem)

/-- a callback that records its argument and then answers like the pure `g` -/
def c19_logged (g : Elem → Elem) (e : Elem) : c19_LogM Elem := do
  modify (· ++ [e])
  pure (g e)

/-- `isT` looks at the class (and own fields) of an element only, not at its children -/
def c19_shapeOnly (isT : Elem → Bool) : Prop := ∀ (e : Elem) (cs : List Elem), isT (e.withChildren cs) = isT e

theorem c19_shapeOnly_isParagraph : c19_shapeOnly isParagraph := by
  intro e cs; cases e <;> rfl
theorem c19_shapeOnly_isRun : c19_shapeOnly isRun := by
  intro e cs; cases e <;> rfl

/-! ### simp lemmas -/

@[simp] theorem c19_transformL_nil (isT : Elem → Bool) (f : Elem → Elem) : transformL isT f [] = [] := by
  simp [transformL]
@[simp] theorem c19_transformL_cons (isT : Elem → Bool) (f : Elem → Elem) (c : Elem) (cs : List Elem) :
    transformL isT f (c :: cs) = transform isT f c :: transformL isT f cs := by simp [transformL]
@[simp] theorem c19_postorderL_nil : c19_postorderL [] = [] := by simp [c19_postorderL]
@[simp] theorem c19_postorderL_cons (c : Elem) (cs : List Elem) :
    c19_postorderL (c :: cs) = c19_postorder c ++ c19_postorderL cs := by simp [c19_postorderL]
@[simp] theorem c19_descendantsL_nil : descendantsL [] = [] := by simp [descendantsL]
@[simp] theorem c19_descendantsL_cons (c : Elem) (cs : List Elem) :
    descendantsL (c :: cs) = descendants c ++ c :: descendantsL cs := by simp [descendantsL]
@[simp] theorem c19_sizeL_nil : c19_sizeL [] = 0 := by simp [c19_sizeL]
@[simp] theorem c19_sizeL_cons (c : Elem) (cs : List Elem) : c19_sizeL (c :: cs) = c19_size c + c19_sizeL cs := by
  simp [c19_sizeL]
@[simp] theorem c19_callsL_nil (isT : Elem → Bool) (g : Elem → Elem) : c19_callsL isT g [] = [] := by
  simp [c19_callsL]
@[simp] theorem c19_callsL_cons (isT : Elem → Bool) (g : Elem → Elem) (c : Elem) (cs : List Elem) :
    c19_callsL isT g (c :: cs) = c19_calls isT g c ++ c19_callsL isT g cs := by simp [c19_callsL]

theorem c19_transformL_eq_map (isT : Elem → Bool) (f : Elem → Elem) (cs : List Elem) :
    transformL isT f cs = cs.map (transform isT f) := by
  induction cs with
  | nil => rfl
  | cons c cs ih => simp [ih]

theorem c19_descendantsL_append (a b : List Elem) : descendantsL (a ++ b) = descendantsL a ++ descendantsL b := by
  induction a with
  | nil => simp
  | cons x xs ih => simp [ih]

theorem c19_descendantsL_flatMap (cs : List Elem) :
    descendantsL cs = cs.flatMap (fun c => descendants c ++ [c]) := by
  induction cs with
  | nil => rfl
  | cons c cs ih => simp [ih]

/-- uniform description of one step of the traversal -/
theorem c19_transform_step (isT : Elem → Bool) (f : Elem → Elem) (e : Elem) :
    transform isT f e = applyIf isT f (e.withChildren (transformL isT f e.children)) := by
  cases e <;> simp [transform, Elem.withChildren, Elem.children]

theorem c19_descendants_children (e : Elem) : descendants e = descendantsL e.children := by
  cases e <;> simp [descendants, Elem.children]

theorem c19_postorder_step (e : Elem) : c19_postorder e = c19_postorderL e.children ++ [e] := by
  cases e <;> simp [c19_postorder, Elem.children]

theorem c19_size_step (e : Elem) : c19_size e = c19_sizeL e.children + 1 := by
  cases e <;> simp [c19_size, Elem.children]

theorem c19_calls_step (isT : Elem → Bool) (g : Elem → Elem) (e : Elem) :
    c19_calls isT g e = c19_callsL isT g e.children
      ++ c19_callIf isT (e.withChildren (transformL isT g e.children)) := by
  cases e <;> simp [c19_calls, Elem.withChildren, Elem.children]

/-! ### identity -/

mutual
theorem c19_transform_id (isT : Elem → Bool) (e : Elem) : transform isT id e = e := by
  match e with
  | .paragraph p cs => simp [transform, applyIf, c19_transformL_id isT cs]
  | .run r cs => simp [transform, applyIf, c19_transformL_id isT cs]
  | .hyperlink h cs => simp [transform, applyIf, c19_transformL_id isT cs]
  | .table a b cs => simp [transform, applyIf, c19_transformL_id isT cs]
  | .row h cs => simp [transform, applyIf, c19_transformL_id isT cs]
  | .cell c r v cs => simp [transform, applyIf, c19_transformL_id isT cs]
  | .text _ | .checkbox _ | .brk _ | .tab | .image _ | .bookmark _ | .noteRef _ _ | .commentRef _ =>
    simp [transform, applyIf]
theorem c19_transformL_id (isT : Elem → Bool) (es : List Elem) : transformL isT id es = es := by
  match es with
  | [] => simp
  | c :: cs => simp [c19_transform_id isT c, c19_transformL_id isT cs]
end

/-! ### nothing to do -/

mutual
theorem c19_transform_noTarget (isT : Elem → Bool) (f : Elem → Elem) (e : Elem)
    (h : (c19_postorder e).all (fun x => !isT x) = true) : transform isT f e = e := by
  match e with
  | .paragraph p cs =>
    simp only [c19_postorder, List.all_append, Bool.and_eq_true, List.all_cons, List.all_nil, Bool.and_true,
      Bool.not_eq_true'] at h
    simp [transform, applyIf, c19_transformL_noTarget isT f cs h.1, h.2]
  | .run r cs =>
    simp only [c19_postorder, List.all_append, Bool.and_eq_true, List.all_cons, List.all_nil, Bool.and_true,
      Bool.not_eq_true'] at h
    simp [transform, applyIf, c19_transformL_noTarget isT f cs h.1, h.2]
  | .hyperlink x cs =>
    simp only [c19_postorder, List.all_append, Bool.and_eq_true, List.all_cons, List.all_nil, Bool.and_true,
      Bool.not_eq_true'] at h
    simp [transform, applyIf, c19_transformL_noTarget isT f cs h.1, h.2]
  | .table a b cs =>
    simp only [c19_postorder, List.all_append, Bool.and_eq_true, List.all_cons, List.all_nil, Bool.and_true,
      Bool.not_eq_true'] at h
    simp [transform, applyIf, c19_transformL_noTarget isT f cs h.1, h.2]
  | .row x cs =>
    simp only [c19_postorder, List.all_append, Bool.and_eq_true, List.all_cons, List.all_nil, Bool.and_true,
      Bool.not_eq_true'] at h
    simp [transform, applyIf, c19_transformL_noTarget isT f cs h.1, h.2]
  | .cell c r v cs =>
    simp only [c19_postorder, List.all_append, Bool.and_eq_true, List.all_cons, List.all_nil, Bool.and_true,
      Bool.not_eq_true'] at h
    simp [transform, applyIf, c19_transformL_noTarget isT f cs h.1, h.2]
  | .text _ | .checkbox _ | .brk _ | .tab | .image _ | .bookmark _ | .noteRef _ _ | .commentRef _ =>
    simp only [c19_postorder, List.all_cons, List.all_nil, Bool.and_true, Bool.not_eq_true'] at h
    simp [transform, applyIf, h]
theorem c19_transformL_noTarget (isT : Elem → Bool) (f : Elem → Elem) (es : List Elem)
    (h : (c19_postorderL es).all (fun x => !isT x) = true) : transformL isT f es = es := by
  match es with
  | [] => simp
  | c :: cs =>
    simp only [c19_postorderL_cons, List.all_append, Bool.and_eq_true] at h
    simp [c19_transform_noTarget isT f c h.1, c19_transformL_noTarget isT f cs h.2]
end

/-! ### descendants, post-order, size -/

mutual
theorem c19_postorder_eq (e : Elem) : c19_postorder e = descendants e ++ [e] := by
  match e with
  | .paragraph p cs => simp [c19_postorder, descendants, c19_postorderL_eq cs]
  | .run r cs => simp [c19_postorder, descendants, c19_postorderL_eq cs]
  | .hyperlink h cs => simp [c19_postorder, descendants, c19_postorderL_eq cs]
  | .table a b cs => simp [c19_postorder, descendants, c19_postorderL_eq cs]
  | .row h cs => simp [c19_postorder, descendants, c19_postorderL_eq cs]
  | .cell c r v cs => simp [c19_postorder, descendants, c19_postorderL_eq cs]
  | .text _ | .checkbox _ | .brk _ | .tab | .image _ | .bookmark _ | .noteRef _ _ | .commentRef _ =>
    simp [c19_postorder, descendants]
theorem c19_postorderL_eq (es : List Elem) : c19_postorderL es = descendantsL es := by
  match es with
  | [] => simp
  | c :: cs => simp [c19_postorder_eq c, c19_postorderL_eq cs]
end

mutual
theorem c19_descendants_length (e : Elem) : (descendants e).length + 1 = c19_size e := by
  match e with
  | .paragraph p cs => simp [c19_size, descendants, c19_descendantsL_length cs]
  | .run r cs => simp [c19_size, descendants, c19_descendantsL_length cs]
  | .hyperlink h cs => simp [c19_size, descendants, c19_descendantsL_length cs]
  | .table a b cs => simp [c19_size, descendants, c19_descendantsL_length cs]
  | .row h cs => simp [c19_size, descendants, c19_descendantsL_length cs]
  | .cell c r v cs => simp [c19_size, descendants, c19_descendantsL_length cs]
  | .text _ | .checkbox _ | .brk _ | .tab | .image _ | .bookmark _ | .noteRef _ _ | .commentRef _ =>
    simp [c19_size, descendants]
theorem c19_descendantsL_length (es : List Elem) : (descendantsL es).length = c19_sizeL es := by
  match es with
  | [] => simp
  | c :: cs =>
    have h1 := c19_descendants_length c
    have h2 := c19_descendantsL_length cs
    simp only [c19_descendantsL_cons, List.length_append, List.length_cons, c19_sizeL_cons]
    omega
end

/-! ### the calls, for a record-only callback and in general -/

mutual
theorem c19_calls_id (isT : Elem → Bool) (e : Elem) : c19_calls isT id e = (c19_postorder e).filter isT := by
  match e with
  | .paragraph p cs =>
    simp [c19_calls, c19_postorder, c19_callsL_id isT cs, c19_transformL_id, c19_callIf, List.filter_cons]
  | .run r cs =>
    simp [c19_calls, c19_postorder, c19_callsL_id isT cs, c19_transformL_id, c19_callIf, List.filter_cons]
  | .hyperlink h cs =>
    simp [c19_calls, c19_postorder, c19_callsL_id isT cs, c19_transformL_id, c19_callIf, List.filter_cons]
  | .table a b cs =>
    simp [c19_calls, c19_postorder, c19_callsL_id isT cs, c19_transformL_id, c19_callIf, List.filter_cons]
  | .row h cs =>
    simp [c19_calls, c19_postorder, c19_callsL_id isT cs, c19_transformL_id, c19_callIf, List.filter_cons]
  | .cell c r v cs =>
    simp [c19_calls, c19_postorder, c19_callsL_id isT cs, c19_transformL_id, c19_callIf, List.filter_cons]
  | .text _ | .checkbox _ | .brk _ | .tab | .image _ | .bookmark _ | .noteRef _ _ | .commentRef _ =>
    simp [c19_calls, c19_postorder, c19_callIf, List.filter_cons]
theorem c19_callsL_id (isT : Elem → Bool) (es : List Elem) :
    c19_callsL isT id es = (c19_postorderL es).filter isT := by
  match es with
  | [] => simp
  | c :: cs => simp [c19_calls_id isT c, c19_callsL_id isT cs]
end

/-- what a target node is shown as: itself with its children already transformed -/
def c19_view (isT : Elem → Bool) (g : Elem → Elem) (x : Elem) : Elem :=
  x.withChildren (transformL isT g x.children)

mutual
theorem c19_calls_shape (isT : Elem → Bool) (g : Elem → Elem) (hT : c19_shapeOnly isT) (e : Elem) :
    c19_calls isT g e = ((c19_postorder e).filter isT).map (c19_view isT g) := by
  match e with
  | .paragraph p cs =>
    have := hT (.paragraph p cs) (transformL isT g cs)
    simp only [Elem.withChildren] at this
    simp [c19_calls, c19_postorder, c19_callsL_shape isT g hT cs, c19_callIf, List.filter_cons, this]
    split <;> simp [c19_view, Elem.withChildren, Elem.children]
  | .run r cs =>
    have := hT (.run r cs) (transformL isT g cs)
    simp only [Elem.withChildren] at this
    simp [c19_calls, c19_postorder, c19_callsL_shape isT g hT cs, c19_callIf, List.filter_cons, this]
    split <;> simp [c19_view, Elem.withChildren, Elem.children]
  | .hyperlink h cs =>
    have := hT (.hyperlink h cs) (transformL isT g cs)
    simp only [Elem.withChildren] at this
    simp [c19_calls, c19_postorder, c19_callsL_shape isT g hT cs, c19_callIf, List.filter_cons, this]
    split <;> simp [c19_view, Elem.withChildren, Elem.children]
  | .table a b cs =>
    have := hT (.table a b cs) (transformL isT g cs)
    simp only [Elem.withChildren] at this
    simp [c19_calls, c19_postorder, c19_callsL_shape isT g hT cs, c19_callIf, List.filter_cons, this]
    split <;> simp [c19_view, Elem.withChildren, Elem.children]
  | .row h cs =>
    have := hT (.row h cs) (transformL isT g cs)
    simp only [Elem.withChildren] at this
    simp [c19_calls, c19_postorder, c19_callsL_shape isT g hT cs, c19_callIf, List.filter_cons, this]
    split <;> simp [c19_view, Elem.withChildren, Elem.children]
  | .cell c r v cs =>
    have := hT (.cell c r v cs) (transformL isT g cs)
    simp only [Elem.withChildren] at this
    simp [c19_calls, c19_postorder, c19_callsL_shape isT g hT cs, c19_callIf, List.filter_cons, this]
    split <;> simp [c19_view, Elem.withChildren, Elem.children]
  | .text _ | .checkbox _ | .brk _ | .tab | .image _ | .bookmark _ | .noteRef _ _ | .commentRef _ =>
    simp [c19_calls, c19_postorder, c19_callIf, List.filter_cons]
    split <;> simp [c19_view, Elem.withChildren]
theorem c19_callsL_shape (isT : Elem → Bool) (g : Elem → Elem) (hT : c19_shapeOnly isT) (es : List Elem) :
    c19_callsL isT g es = ((c19_postorderL es).filter isT).map (c19_view isT g) := by
  match es with
  | [] => simp
  | c :: cs => simp [c19_calls_shape isT g hT c, c19_callsL_shape isT g hT cs]
end

/-! ### running the monadic traversal with the logging callback -/

theorem c19_applyIfM_logged (isT : Elem → Bool) (g : Elem → Elem) (e : Elem) (log : List Elem) :
    (applyIfM isT (c19_logged g) e).run log = (applyIf isT g e, log ++ c19_callIf isT e) := by
  unfold applyIfM applyIf c19_callIf
  by_cases h : isT e = true
  · simp only [h, if_true]; rfl
  · simp only [h]; simp; rfl

theorem c19_run_bind {α β} (x : c19_LogM α) (f : α → c19_LogM β) (log : List Elem) :
    (x >>= f).run log = (f (x.run log).1).run (x.run log).2 := rfl

mutual
theorem c19_transformM_logged (isT : Elem → Bool) (g : Elem → Elem) (e : Elem) (log : List Elem) :
    (transformM isT (c19_logged g) e).run log = (transform isT g e, log ++ c19_calls isT g e) := by
  match e with
  | .paragraph p cs =>
    simp only [transformM, transform, c19_calls, c19_run_bind, c19_transformLM_logged isT g cs log,
      c19_applyIfM_logged, List.append_assoc]
  | .run r cs =>
    simp only [transformM, transform, c19_calls, c19_run_bind, c19_transformLM_logged isT g cs log,
      c19_applyIfM_logged, List.append_assoc]
  | .hyperlink h cs =>
    simp only [transformM, transform, c19_calls, c19_run_bind, c19_transformLM_logged isT g cs log,
      c19_applyIfM_logged, List.append_assoc]
  | .table a b cs =>
    simp only [transformM, transform, c19_calls, c19_run_bind, c19_transformLM_logged isT g cs log,
      c19_applyIfM_logged, List.append_assoc]
  | .row h cs =>
    simp only [transformM, transform, c19_calls, c19_run_bind, c19_transformLM_logged isT g cs log,
      c19_applyIfM_logged, List.append_assoc]
  | .cell c r v cs =>
    simp only [transformM, transform, c19_calls, c19_run_bind, c19_transformLM_logged isT g cs log,
      c19_applyIfM_logged, List.append_assoc]
  | .text _ | .checkbox _ | .brk _ | .tab | .image _ | .bookmark _ | .noteRef _ _ | .commentRef _ =>
    simp only [transformM, transform, c19_calls, c19_applyIfM_logged]
theorem c19_transformLM_logged (isT : Elem → Bool) (g : Elem → Elem) (es : List Elem) (log : List Elem) :
    (transformLM isT (c19_logged g) es).run log = (transformL isT g es, log ++ c19_callsL isT g es) := by
  match es with
  | [] => simp [transformLM]; rfl
  | c :: cs =>
    simp only [transformLM, c19_run_bind, c19_transformM_logged isT g c log,
      c19_transformLM_logged isT g cs (log ++ c19_calls isT g c), c19_transformL_cons, c19_callsL_cons,
      List.append_assoc]
    rfl
end

/-! ### the monadic traversal in the identity monad is the pure one -/

theorem c19_applyIfM_Id (isT : Elem → Bool) (f : Elem → Elem) (e : Elem) :
    applyIfM (m := Id) isT (fun x => pure (f x)) e = pure (applyIf isT f e) := by
  unfold applyIfM applyIf
  split <;> rfl

mutual
theorem c19_transformM_Id (isT : Elem → Bool) (f : Elem → Elem) (e : Elem) :
    transformM (m := Id) isT (fun x => pure (f x)) e = pure (transform isT f e) := by
  match e with
  | .paragraph p cs => simp only [transformM, transform, c19_transformLM_Id isT f cs, pure_bind, c19_applyIfM_Id]
  | .run r cs => simp only [transformM, transform, c19_transformLM_Id isT f cs, pure_bind, c19_applyIfM_Id]
  | .hyperlink h cs => simp only [transformM, transform, c19_transformLM_Id isT f cs, pure_bind, c19_applyIfM_Id]
  | .table a b cs => simp only [transformM, transform, c19_transformLM_Id isT f cs, pure_bind, c19_applyIfM_Id]
  | .row h cs => simp only [transformM, transform, c19_transformLM_Id isT f cs, pure_bind, c19_applyIfM_Id]
  | .cell c r v cs => simp only [transformM, transform, c19_transformLM_Id isT f cs, pure_bind, c19_applyIfM_Id]
  | .text _ | .checkbox _ | .brk _ | .tab | .image _ | .bookmark _ | .noteRef _ _ | .commentRef _ =>
    simp only [transformM, transform, c19_applyIfM_Id]
theorem c19_transformLM_Id (isT : Elem → Bool) (f : Elem → Elem) (es : List Elem) :
    transformLM (m := Id) isT (fun x => pure (f x)) es = pure (transformL isT f es) := by
  match es with
  | [] => simp [transformLM]
  | c :: cs =>
    simp only [transformLM, c19_transformM_Id isT f c, c19_transformLM_Id isT f cs, pure_bind, c19_transformL_cons]
end

/-! ### the result depends on `f` only through its values on the actual call arguments -/

theorem c19_applyIf_congr (isT : Elem → Bool) (f g : Elem → Elem) (n : Elem)
    (h : ∀ x ∈ c19_callIf isT n, f x = g x) : applyIf isT f n = applyIf isT g n := by
  unfold applyIf
  by_cases ht : isT n = true
  · simp only [ht, if_true]; exact h n (by simp [c19_callIf, ht])
  · simp only [ht]; rfl

mutual
theorem c19_transform_congr (isT : Elem → Bool) (f g : Elem → Elem) (e : Elem)
    (h : ∀ x ∈ c19_calls isT f e, f x = g x) : transform isT f e = transform isT g e := by
  match e with
  | .paragraph p cs =>
    simp only [c19_calls, List.mem_append] at h
    have ih := c19_transformL_congr isT f g cs (fun x hx => h x (Or.inl hx))
    simp only [transform]
    rw [← ih]
    exact c19_applyIf_congr isT f g _ (fun x hx => h x (Or.inr hx))
  | .run r cs =>
    simp only [c19_calls, List.mem_append] at h
    have ih := c19_transformL_congr isT f g cs (fun x hx => h x (Or.inl hx))
    simp only [transform]
    rw [← ih]
    exact c19_applyIf_congr isT f g _ (fun x hx => h x (Or.inr hx))
  | .hyperlink l cs =>
    simp only [c19_calls, List.mem_append] at h
    have ih := c19_transformL_congr isT f g cs (fun x hx => h x (Or.inl hx))
    simp only [transform]
    rw [← ih]
    exact c19_applyIf_congr isT f g _ (fun x hx => h x (Or.inr hx))
  | .table a b cs =>
    simp only [c19_calls, List.mem_append] at h
    have ih := c19_transformL_congr isT f g cs (fun x hx => h x (Or.inl hx))
    simp only [transform]
    rw [← ih]
    exact c19_applyIf_congr isT f g _ (fun x hx => h x (Or.inr hx))
  | .row l cs =>
    simp only [c19_calls, List.mem_append] at h
    have ih := c19_transformL_congr isT f g cs (fun x hx => h x (Or.inl hx))
    simp only [transform]
    rw [← ih]
    exact c19_applyIf_congr isT f g _ (fun x hx => h x (Or.inr hx))
  | .cell c r v cs =>
    simp only [c19_calls, List.mem_append] at h
    have ih := c19_transformL_congr isT f g cs (fun x hx => h x (Or.inl hx))
    simp only [transform]
    rw [← ih]
    exact c19_applyIf_congr isT f g _ (fun x hx => h x (Or.inr hx))
  | .text _ | .checkbox _ | .brk _ | .tab | .image _ | .bookmark _ | .noteRef _ _ | .commentRef _ =>
    simp only [c19_calls] at h
    simp only [transform]
    exact c19_applyIf_congr isT f g _ h
theorem c19_transformL_congr (isT : Elem → Bool) (f g : Elem → Elem) (es : List Elem)
    (h : ∀ x ∈ c19_callsL isT f es, f x = g x) : transformL isT f es = transformL isT g es := by
  match es with
  | [] => simp
  | c :: cs =>
    simp only [c19_callsL_cons, List.mem_append] at h
    simp only [c19_transformL_cons, c19_transform_congr isT f g c (fun x hx => h x (Or.inl hx)),
      c19_transformL_congr isT f g cs (fun x hx => h x (Or.inr hx))]
end

end Mammoth
