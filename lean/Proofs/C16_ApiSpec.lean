/-
  C16 — composition to the public entry point: the messages of `mammoth.convert` in terms of the
  specifications (style-map warnings, reader warnings of the package's stories, converter messages), and
  the clean-package theorem.
-/
import Proofs.C16_PkgSpec
import Proofs.C16_Api
import Proofs.C16_Clean
namespace Mammoth

/-- every line of the style map (comments and blank lines aside) is understood -/
def c16_styleMapOk (text : Str) : Bool := (styleLines text).all fun l => (readStyleMapping l).isSome

theorem c16_styleMapOk_warn (text : Str) (h : c16_styleMapOk text = true) : c16_styleWarnings text = [] := by
  unfold c16_styleMapOk at h
  unfold c16_styleWarnings
  generalize styleLines text = lines at h ⊢
  induction lines with
  | nil => rfl
  | cons l ls ih =>
    simp only [List.all_cons, Bool.and_eq_true] at h
    simp only [List.map_cons, List.filterMap_cons]
    have : (readStyleMapping l).isNone = false := by
      cases hr : readStyleMapping l with
      | none => rw [hr] at h; cases h.1
      | some x => rfl
    simp only [this, Bool.false_eq_true, if_false]
    exact ih h.2

/-- every story of the package is clean XML (in the environment in which it is read) -/
def c16_pkgXmlClean (p : Package) : Bool :=
  match c16_pkgStories p with
  | .ok stories => stories.all fun s => c16_xmlCleanL s.1 s.2
  | .error _ => false

/-- every paragraph and run of the document (body, notes, comments) has a matching mapping or no style
    id, and every image can be opened -/
def c16_docClean (cfg : Cfg) (d : Document) : Bool :=
  c16_cleanL cfg d.children && d.notes.all (fun n => c16_cleanL cfg n.body) &&
    d.comments.all (fun c => c16_cleanL cfg c.body)

theorem c16_xmlWarnings_clean (env : REnv) (ns : List XmlNode) (h : c16_xmlCleanL env ns = true) :
    c16_xmlWarnings env ns = [] :=
  (c16_xmlQuietL env ns c16_noBuf h c16_BufSilent_noBuf).msgs {}

theorem c16_storiesWarnings_clean (ss : List (REnv × List XmlNode))
    (h : (ss.all fun s => c16_xmlCleanL s.1 s.2) = true) : c16_storiesWarnings ss = [] := by
  induction ss with
  | nil => rfl
  | cons s ss ih =>
    obtain ⟨env, ns⟩ := s
    simp only [List.all_cons, Bool.and_eq_true] at h
    simp [c16_storiesWarnings, c16_xmlWarnings_clean env ns h.1, ih h.2]

theorem c16_readerWarnings_stories (p : Package) (msgs : List Str) (h : c16_readerWarnings p = .ok msgs) :
    ∃ stories, c16_pkgStories p = .ok stories ∧ msgs = c16_storiesWarnings stories := by
  unfold c16_readerWarnings at h
  cases hs : c16_pkgStories p with
  | error e => rw [hs] at h; cases h
  | ok stories =>
    rw [hs] at h
    simp only [Except.map, Except.ok.injEq] at h
    exact ⟨stories, rfl, h.symm⟩

end Mammoth
