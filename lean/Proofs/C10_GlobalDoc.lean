/-
  C10, global part 3: the events of a whole document (body, then the notes the body references, then the
  comments referenced by body and notes) and the theorem that `visitDocument` / `convertDoc` output a
  forest whose ids, hrefs and anchors are exactly the ones these events prescribe.
-/
import Proofs.C10_GlobalVisit
namespace Mammoth

theorem c10_anyContent_append (a b : List Node) : anyContent (a ++ b) = (anyContent a || anyContent b) := by
  induction a with
  | nil => simp [anyContent]
  | cons x xs ih => simp [anyContent, ih, Bool.or_assoc]

/-! ### notes and comments -/

/-- the events of one rendered note: its `li`, the events of its body, its back-link -/
def c10_noteEvs (cfg : Cfg) (n : Note) : List c10_Ev :=
  .item n.ty n.id :: c10_evsL cfg n.body ++ [.back n.ty n.id]
/-- the events of one rendered comment: its `dt`, the events of its body, its back-link -/
def c10_commentEvs (cfg : Cfg) (c : Comment) : List c10_Ev :=
  .item c10_commentTy c.id :: c10_evsL cfg c.body ++ [.back c10_commentTy c.id]

theorem c10_sum_backLink (href : Str) : c10_sum [backLink href] = ([], [href], [], true) := by
  have e : Dict.ofList [(S!"href", href)] = [(S!"href", href)] := rfl
  unfold backLink
  rw [c10_sum_cel _ _ _ rfl, c10_sum_text_cons]
  simp [el, e, c10_sum_elem, c10_tagSum, c10_tagVals, c10_tagAnchor, c10_add, c10_zero]

theorem c10_hasContent_backLink (href : Str) : hasContent (backLink href) = true := by
  simp [backLink, cel, hasContent, anyContent]

theorem c10_hasContent_snoc (t : Tag) (body : List Node) (x : Node) (hx : hasContent x = true) :
    hasContent (.elem t (body ++ [x])) = true := by
  simp [hasContent, c10_anyContent_append, anyContent, hx]

theorem c10_sum_noteItem (cfg : Cfg) (ty id : Str) (body : List Node) :
    c10_sum [el S!"li" [(S!"id", referentId cfg ty id)] (body ++ [backLink (['#'] ++ referenceId cfg ty id)])] =
      c10_add (c10_evSum cfg 0 0 [.item ty id]) (c10_add (c10_sum body) (c10_evSum cfg 0 0 [.back ty id])) := by
  unfold el
  rw [c10_sum_elem, c10_sum_append, c10_sum_backLink, c10_ofList_id]
  simp [c10_tagSum, c10_tagVals, c10_tagAnchor, c10_add, c10_evSum, c10_evIds, c10_evHrefs, c10_evId, c10_evHref,
    c10_evAnchors, c10_hasContent_snoc, c10_hasContent_backLink]

theorem c10_H_visitNote (cfg : Cfg) (hc : c10_cleanCfg cfg = true) (n : Note) :
    c10_H cfg (visitNote cfg n) (c10_noteEvs cfg n) := by
  unfold visitNote c10_noteEvs
  have := c10_H_wrap cfg (visitAll cfg false n.body)
    (fun body => [el S!"li" [(S!"id", referentId cfg n.ty n.id)]
      (body ++ [backLink (['#'] ++ referenceId cfg n.ty n.id)])])
    [.item n.ty n.id] (c10_evsL cfg n.body) [.back n.ty n.id] (c10_H_visitAll cfg hc false n.body)
    ⟨rfl, rfl, fun _ _ => rfl⟩ ⟨rfl, rfl, fun _ _ => rfl⟩ (fun ns => c10_sum_noteItem cfg n.ty n.id ns)
  simp only [List.cons_append] at this
  exact this

theorem c10_sum_commentItem (cfg : Cfg) (label id : Str) (body : List Node) :
    c10_sum [el S!"dt" [(S!"id", referentId cfg S!"comment" id)] [.text (S!"Comment " ++ label)],
             el S!"dd" [] (body ++ [backLink (['#'] ++ referenceId cfg S!"comment" id)])] =
      c10_add (c10_evSum cfg 0 0 [.item c10_commentTy id])
        (c10_add (c10_sum body) (c10_evSum cfg 0 0 [.back c10_commentTy id])) := by
  rw [c10_sum_cons, c10_sum_el S!"dd" _ _ rfl, c10_sum_append, c10_sum_backLink]
  unfold el
  rw [c10_sum_elem, c10_ofList_id]
  simp [c10_tagSum, c10_tagVals, c10_tagAnchor, c10_add, c10_evSum, c10_evIds, c10_evHrefs, c10_evId, c10_evHref,
    c10_evAnchors, hasContent, anyContent, c10_commentTy, c10_zero]

theorem c10_H_visitComment (cfg : Cfg) (hc : c10_cleanCfg cfg = true) (lc : Str × Comment) :
    c10_H cfg (visitComment cfg lc) (c10_commentEvs cfg lc.2) := by
  unfold visitComment c10_commentEvs
  have := c10_H_wrap cfg (visitAll cfg false lc.2.body)
    (fun body => [el S!"dt" [(S!"id", referentId cfg S!"comment" lc.2.id)] [.text (S!"Comment " ++ lc.1)],
        el S!"dd" [] (body ++ [backLink (['#'] ++ referenceId cfg S!"comment" lc.2.id)])])
    [.item c10_commentTy lc.2.id] (c10_evsL cfg lc.2.body) [.back c10_commentTy lc.2.id]
    (c10_H_visitAll cfg hc false lc.2.body)
    ⟨rfl, rfl, fun _ _ => rfl⟩ ⟨rfl, rfl, fun _ _ => rfl⟩ (fun ns => c10_sum_commentItem cfg lc.1 lc.2.id ns)
  simp only [List.cons_append] at this
  exact this

theorem c10_H_mapMConcat {α} (cfg : Cfg) (f : α → ConvM (List Node)) (g : α → List c10_Ev)
    (h : ∀ x, c10_H cfg (f x) (g x)) : ∀ xs : List α, c10_H cfg (mapMConcat f xs) (xs.flatMap g)
  | [] => by rw [mapMConcat]; exact c10_H_nil _ _ rfl
  | x :: xs => by
    rw [mapMConcat, List.flatMap_cons]
    exact c10_H_seq cfg _ _ _ _ (h x) (c10_H_mapMConcat cfg f g h xs)

/-! ### the document -/

/-- the whole run of `visitDocument` from state `st` -/
theorem c10_visitDocument_post (cfg : Cfg) (hc : c10_cleanCfg cfg = true) (d : Document) (st st' : ConvState)
    (ns : List Node) (h : (visitDocument cfg d).run st = .ok (ns, st')) :
    ∃ (notes : List Note) (comments : List Comment),
      (st.noteRefs ++ c10_evRefs (c10_evsL cfg d.children)).mapM (resolveNote d.notes) = .ok notes ∧
      comments = st.refComments.map Prod.snd ++
        c10_evComments cfg (c10_evsL cfg d.children ++ notes.flatMap (c10_noteEvs cfg)) ∧
      c10_Post cfg st (c10_evsL cfg d.children ++ notes.flatMap (c10_noteEvs cfg) ++
        comments.flatMap (c10_commentEvs cfg)) ns st' ∧
      ∃ body items cnodes, ns = body ++ [el S!"ol" [] items, el S!"dl" [] cnodes] ∧
        items.map c10_nodeId = notes.map (fun n => some (referentId cfg n.ty n.id)) := by
  unfold visitDocument at h
  simp only [c10_run_bind, c10_run_get] at h
  split at h
  · rename_i nodes st1 h1
    have p1 := c10_H_visitAll cfg hc false d.children st nodes st1 h1
    cases hm : st1.noteRefs.mapM (resolveNote d.notes) with
    | error e => simp only [hm, c10_run_bind, c10_run_throw] at h; cases h
    | ok notes =>
      simp only [hm, c10_run_bind, c10_run_pure, c10_run_get] at h
      split at h
      · rename_i noteNodes st2 h2
        have p2 := c10_H_mapMConcat cfg (visitNote cfg) (c10_noteEvs cfg) (c10_H_visitNote cfg hc) notes
          st1 noteNodes st2 h2
        split at h
        · rename_i commentNodes st3 h3
          have p3 := c10_H_mapMConcat cfg (visitComment cfg) (fun lc => c10_commentEvs cfg lc.2)
            (c10_H_visitComment cfg hc) st2.refComments st2 commentNodes st3 h3
          cases h
          have p12 := c10_Post_seq cfg st st1 st2 _ _ _ _ p1 p2
          have p123 := c10_Post_seq cfg st st2 st' _ _ _ _ p12 p3
          refine ⟨notes, st2.refComments.map Prod.snd, ?_, ?_, ?_,
            ⟨nodes, noteNodes, commentNodes, rfl, c10_noteItems_ids cfg notes st1 st2 noteNodes h2⟩⟩
          · rw [← p1.2.1]; exact hm
          · exact p12.2.2.1
          · have e : (st2.refComments.map Prod.snd).flatMap (c10_commentEvs cfg) =
                st2.refComments.flatMap (fun lc => c10_commentEvs cfg lc.2) := by
              rw [List.flatMap_map]
            rw [e]
            obtain ⟨q1, q2, q3, q4⟩ := p123
            refine ⟨?_, q2, q3, q4⟩
            rw [← q1]
            simp only [c10_sum_append]
            rw [c10_sum_cons (el S!"ol" [] noteNodes), c10_sum_el _ _ _ rfl, c10_sum_el _ _ _ rfl,
              c10_add_assoc]
        · cases h
      · cases h
  · cases h

/-! ### the events of a document, as a function of the document -/

/-- `Notes.resolve`: the LAST note with that (type, id) -/
def c10_findNote (d : Document) (ref : Str × Str) : Option Note :=
  lookupLast ref (d.notes.map fun n => ((n.ty, n.id), n))

/-- the notes rendered in the notes list: those the BODY references, in reference order -/
def c10_docNotes (cfg : Cfg) (d : Document) : List Note :=
  (c10_evRefs (c10_evsL cfg d.children)).filterMap (c10_findNote d)

/-- the events of the body and of the notes list -/
def c10_docEvents01 (cfg : Cfg) (d : Document) : List c10_Ev :=
  c10_evsL cfg d.children ++ (c10_docNotes cfg d).flatMap (c10_noteEvs cfg)

/-- the comments rendered in the comments list: those referenced by the body and by the rendered notes -/
def c10_docComments (cfg : Cfg) (d : Document) : List Comment :=
  c10_evComments cfg (c10_docEvents01 cfg d)

/-- all events of the output, in document order -/
def c10_docEvents (cfg : Cfg) (d : Document) : List c10_Ev :=
  c10_docEvents01 cfg d ++ (c10_docComments cfg d).flatMap (c10_commentEvs cfg)

theorem c10_mapM_resolve (d : Document) : ∀ (refs : List (Str × Str)) (ns : List Note),
    refs.mapM (resolveNote d.notes) = .ok ns → refs.filterMap (c10_findNote d) = ns
  | [], ns, h => by simp only [List.mapM_nil] at h; cases h; rfl
  | r :: rs, ns, h => by
    rw [List.mapM_cons] at h
    cases h1 : resolveNote d.notes r with
    | error e => rw [h1] at h; cases h
    | ok n =>
      cases h2 : rs.mapM (resolveNote d.notes) with
      | error e => rw [h1, h2] at h; cases h
      | ok ns' =>
        rw [h1, h2] at h
        cases h
        have e : c10_findNote d r = some n := by
          unfold resolveNote at h1
          unfold c10_findNote
          split at h1
          · rename_i m hm; cases h1; exact hm
          · cases h1
        simp [e, c10_mapM_resolve d rs ns' h2]

/-- the configuration `convertDoc` actually runs with: the comments are the document's -/
def c10_docCfg (cfg : Cfg) (d : Document) : Cfg := { cfg with comments := d.comments }

theorem c10_docCfg_clean (cfg : Cfg) (d : Document) : c10_cleanCfg (c10_docCfg cfg d) = c10_cleanCfg cfg := rfl

/-- MAIN CHARACTERISATION.  If the conversion succeeds under a clean configuration, the ids, hrefs and
    anchors of the output forest are exactly the ones prescribed by the events of the document, every
    element with an id has content, and the recorded note references are the note-reference events. -/
theorem c10_convertDoc_events (cfg : Cfg) (hc : c10_cleanCfg cfg = true) (d : Document) (r : ConvResult)
    (h : convertDoc cfg d = .ok r) :
    idsOf r.nodes = c10_evIds cfg (c10_docEvents (c10_docCfg cfg d) d) ∧
    hrefsOf r.nodes = c10_evHrefs cfg (c10_docEvents (c10_docCfg cfg d) d) ∧
    anchorsOf r.nodes = c10_evAnchors (c10_docCfg cfg d) 0 0 (c10_docEvents (c10_docCfg cfg d) d) ∧
    c10_idContentL r.nodes = true ∧
    r.noteRefs = c10_evRefs (c10_docEvents (c10_docCfg cfg d) d) ∧
    (c10_evRefs (c10_evsL (c10_docCfg cfg d) d.children)).mapM (resolveNote d.notes)
      = .ok (c10_docNotes (c10_docCfg cfg d) d) ∧
    (∀ id ∈ c10_evCRefs (c10_docEvents (c10_docCfg cfg d) d), (c10_findComment (c10_docCfg cfg d) id).isSome = true) ∧
    (∃ body items cnodes, r.nodes = body ++ [el S!"ol" [] items, el S!"dl" [] cnodes] ∧
      items.map c10_nodeId = (c10_evRefs (c10_evsL (c10_docCfg cfg d) d.children)).map
        (fun ref => some (referentId cfg ref.1 ref.2))) := by
  unfold convertDoc at h
  split at h
  · rename_i nodes st hv
    cases h
    obtain ⟨notes, comments, hn, hcm, hp, body, items, cnodes, hshape, hitems⟩ :=
      c10_visitDocument_post (c10_docCfg cfg d) hc d {} st nodes hv
    simp only [List.nil_append, List.map_nil] at hn hcm
    have en : c10_docNotes (c10_docCfg cfg d) d = notes := c10_mapM_resolve d _ _ hn
    have ee : c10_docEvents (c10_docCfg cfg d) d =
        c10_evsL (c10_docCfg cfg d) d.children ++ notes.flatMap (c10_noteEvs (c10_docCfg cfg d)) ++
          comments.flatMap (c10_commentEvs (c10_docCfg cfg d)) := by
      unfold c10_docEvents c10_docComments c10_docEvents01
      rw [en, hcm]
    rw [← ee] at hp
    obtain ⟨q1, q2, q3, q4⟩ := hp
    have q1' : c10_sum nodes = c10_evSum (c10_docCfg cfg d) 0 0 (c10_docEvents (c10_docCfg cfg d) d) := q1
    simp only [c10_sum, c10_evSum, Prod.mk.injEq] at q1'
    refine ⟨q1'.1, q1'.2.1, q1'.2.2.1, q1'.2.2.2, ?_, ?_, q4, body, items, cnodes, hshape, ?_⟩
    · simpa using q2
    · rw [en]; exact hn
    · rw [hitems, ← c10_resolve_all d.notes _ _ hn, List.map_map]
      rfl
  · cases h

end Mammoth
