/-
  C09 — facts about `calculateRowSpans` that hold for every input (no validity assumption).
-/
import Proofs.C09_Convert
import Proofs.C09_Sweep
namespace Mammoth

/-- a cell without its rowspan and `_vmerge` mark (what `calculate_row_spans` must not change);
    other elements as they are -/
def c09_cellKey : Elem → Elem
  | .cell c _ _ cs => .cell c 0 false cs
  | e => e

/-- not a continuation cell -/
def c09_notVm : Elem → Bool
  | .cell _ _ vm _ => !vm
  | _ => true

/-- `b` is the row `a` with some cells removed (order, spans, contents of the others unchanged),
    no cell other than continuation cells removed, header flag unchanged; non-rows are unchanged -/
def c09_rowKept (a b : Elem) : Prop :=
  (∃ h cells cells', a = .row h cells ∧ b = .row h cells' ∧
      (cells'.map c09_cellKey).Sublist (cells.map c09_cellKey) ∧
      ((cells.filter c09_notVm).map c09_cellKey).Sublist (cells'.map c09_cellKey)) ∨
  (isRow a = false ∧ b = a)

theorem c09_rowKept_refl (a : Elem) : c09_rowKept a a := by
  cases h : isRow a with
  | false => exact Or.inr ⟨h, rfl⟩
  | true =>
    cases a with
    | row hh cells =>
      exact Or.inl ⟨hh, cells, cells, rfl, rfl, List.Sublist.refl _,
        List.Sublist.map _ List.filter_sublist⟩
    | _ => simp [isRow] at h

theorem c09_Forall2_refl {α} {R : α → α → Prop} (h : ∀ a, R a a) : ∀ l : List α, c09_Forall2 R l l
  | [] => .nil
  | a :: l => .cons (h a) (c09_Forall2_refl h l)

/-! ### the drops are continuation cells -/

/-- the `_vmerge` mark of the cell at position `pos` of row `r` -/
def c09_vmAt (rows : List Elem) (r pos : Nat) : Bool :=
  match rows[r]? with
  | some (.row _ cells) =>
    (match cells[pos]? with
     | some (.cell _ _ vm _) => vm
     | _ => false)
  | _ => false

theorem c09_sweepCells_drops_vm (r : Nat) (good : Nat × Nat → Prop) (cells : List Elem) :
    ∀ (pos ci : Nat) (sw : Sweep), (∀ v, v ∈ sw.drops → good v) →
      (∀ i c rs ch, cells[i]? = some (.cell c rs true ch) → good (r, pos + i)) →
      ∀ v, v ∈ (sweepCells r cells pos ci sw).drops → good v := by
  induction cells with
  | nil => intro pos ci sw h _ v hv; exact h v hv
  | cons e es ih =>
    intro pos ci sw h hg v hv
    have hg' : ∀ i c rs ch, es[i]? = some (.cell c rs true ch) → good (r, pos + 1 + i) := by
      intro i c rs ch hi
      have := hg (i + 1) c rs ch (by simpa using hi)
      rwa [show pos + (i + 1) = pos + 1 + i by omega] at this
    cases e with
    | cell c rs vm ch =>
      rw [c09_sweepCells_cons] at hv
      refine ih (pos + 1) (ci + c) _ ?_ hg' v hv
      intro w hw
      rcases (c09_drops_step ..).mp hw with hw | hw
      · exact h w hw
      · have hvm : vm = true := by
          have := hw.2; simp [c09_hits] at this; exact this.1
        subst hvm
        rw [hw.1]; exact hg 0 c rs ch rfl
    | _ =>
      simp only [sweepCells] at hv
      exact ih (pos + 1) ci sw h hg' v hv

theorem c09_sweepRows_drops_vm (good : Nat × Nat → Prop) (rows : List Elem) :
    ∀ (r : Nat) (sw : Sweep), (∀ v, v ∈ sw.drops → good v) →
      (∀ j h cells i c rs ch, rows[j]? = some (.row h cells) → cells[i]? = some (.cell c rs true ch) →
        good (r + j, i)) →
      ∀ v, v ∈ (sweepRows rows r sw).drops → good v := by
  induction rows with
  | nil => intro r sw h _ v hv; exact h v hv
  | cons e es ih =>
    intro r sw h hg v hv
    have hg' : ∀ j hh cells i c rs ch, es[j]? = some (.row hh cells) →
        cells[i]? = some (.cell c rs true ch) → good (r + 1 + j, i) := by
      intro j hh cells i c rs ch hj hi
      have := hg (j + 1) hh cells i c rs ch (by simpa using hj) hi
      rwa [show r + (j + 1) = r + 1 + j by omega] at this
    cases e with
    | row hh cells =>
      simp only [sweepRows] at hv
      refine ih (r + 1) _ ?_ hg' v hv
      apply c09_sweepCells_drops_vm r good cells 0 0 sw h
      intro i c rs ch hi
      have := hg 0 hh cells i c rs ch rfl hi
      simpa using this
    | _ =>
      simp only [sweepRows] at hv
      exact ih (r + 1) sw h hg' v hv

/-- every dropped position holds a continuation cell -/
theorem c09_drops_are_vm (rows : List Elem) (v : Nat × Nat) (hv : v ∈ (sweepRows rows 0 {}).drops) :
    c09_vmAt rows v.1 v.2 = true := by
  apply c09_sweepRows_drops_vm (fun v => c09_vmAt rows v.1 v.2 = true) rows 0 {} (by simp) ?_ v hv
  intro j h cells i c rs ch hj hi
  simp [c09_vmAt, hj, hi]

/-! ### `rebuildCells` / `rebuildRows` -/

theorem c09_rebuildCells_kept (sw : Sweep) (r : Nat) (cells : List Elem) :
    ∀ pos, ((rebuildCells sw r cells pos).map c09_cellKey).Sublist (cells.map c09_cellKey) := by
  induction cells with
  | nil => intro pos; exact List.Sublist.refl _
  | cons e es ih =>
    intro pos
    cases e with
    | cell c rs vm ch =>
      simp only [rebuildCells]
      split
      · exact List.Sublist.cons _ (ih _)
      · exact List.Sublist.cons_cons _ (ih _)
    | _ => simp only [rebuildCells, List.map_cons]; exact List.Sublist.cons_cons _ (ih _)

theorem c09_rebuildCells_keeps (sw : Sweep) (r : Nat) (cells : List Elem) :
    ∀ pos, (∀ i c rs ch, cells[i]? = some (.cell c rs false ch) → ¬ (r, pos + i) ∈ sw.drops) →
      ((cells.filter c09_notVm).map c09_cellKey).Sublist ((rebuildCells sw r cells pos).map c09_cellKey) := by
  induction cells with
  | nil => intro pos _; exact List.Sublist.refl _
  | cons e es ih =>
    intro pos hg
    have hg' : ∀ i c rs ch, es[i]? = some (.cell c rs false ch) → ¬ (r, pos + 1 + i) ∈ sw.drops := by
      intro i c rs ch hi
      have := hg (i + 1) c rs ch (by simpa using hi)
      rwa [show pos + (i + 1) = pos + 1 + i by omega] at this
    cases e with
    | cell c rs vm ch =>
      simp only [rebuildCells]
      cases vm with
      | true =>
        simp only [List.filter_cons, c09_notVm, Bool.not_true, Bool.false_eq_true, if_false]
        split
        · exact ih _ hg'
        · exact List.Sublist.cons _ (ih _ hg')
      | false =>
        have : sw.drops.contains (r, pos) = false := by
          have := hg 0 c rs ch rfl
          simpa using this
        simp only [this, Bool.false_eq_true, if_false, List.filter_cons, c09_notVm, Bool.not_false, if_true,
          List.map_cons, c09_cellKey]
        exact List.Sublist.cons_cons _ (ih _ hg')
    | _ =>
      simp only [rebuildCells, List.filter_cons, c09_notVm, if_true, List.map_cons]
      exact List.Sublist.cons_cons _ (ih _ hg')

theorem c09_rebuildRows_kept (sw : Sweep) (rows : List Elem) :
    ∀ r, (∀ j h cells i c rs ch, rows[j]? = some (.row h cells) → cells[i]? = some (.cell c rs false ch) →
        ¬ (r + j, i) ∈ sw.drops) →
      c09_Forall2 c09_rowKept rows (rebuildRows sw rows r) := by
  induction rows with
  | nil => intro r _; exact .nil
  | cons e es ih =>
    intro r hg
    have hg' : ∀ j hh cells i c rs ch, es[j]? = some (.row hh cells) →
        cells[i]? = some (.cell c rs false ch) → ¬ (r + 1 + j, i) ∈ sw.drops := by
      intro j hh cells i c rs ch hj hi
      have := hg (j + 1) hh cells i c rs ch (by simpa using hj) hi
      rwa [show r + (j + 1) = r + 1 + j by omega] at this
    cases e with
    | row hh cells =>
      simp only [rebuildRows]
      refine .cons (Or.inl ⟨hh, cells, _, rfl, rfl, c09_rebuildCells_kept sw r cells 0, ?_⟩) (ih _ hg')
      apply c09_rebuildCells_keeps sw r cells 0
      intro i c rs ch hi
      have := hg 0 hh cells i c rs ch rfl hi
      simpa using this
    | _ =>
      simp only [rebuildRows]
      exact .cons (Or.inr ⟨rfl, rfl⟩) (ih _ hg')

theorem c09_calculate_kept (rows : List Elem) :
    c09_Forall2 c09_rowKept rows (calculateRowSpans rows).1 := by
  unfold calculateRowSpans
  split
  · exact c09_Forall2_refl c09_rowKept_refl rows
  · split
    · exact c09_Forall2_refl c09_rowKept_refl rows
    · apply c09_rebuildRows_kept
      intro j h cells i c rs ch hj hi hmem
      have := c09_drops_are_vm rows _ hmem
      simp [c09_vmAt, hj, hi] at this

/-- the optional header flag of a table child (`none` for a non-row) -/
def c09_rowFlag : Elem → Option Bool
  | .row h _ => some h
  | _ => none

theorem c09_rowKept_flag {a b : Elem} (h : c09_rowKept a b) : c09_rowFlag b = c09_rowFlag a := by
  rcases h with ⟨hh, cells, cells', rfl, rfl, _⟩ | ⟨_, rfl⟩ <;> rfl

theorem c09_Forall2_map_eq {α β} {R : α → α → Prop} (f : α → β) (hf : ∀ a b, R a b → f b = f a) :
    ∀ {l l' : List α}, c09_Forall2 R l l' → l'.map f = l.map f := by
  intro l l' h
  induction h with
  | nil => rfl
  | cons hab _ ih => simp [hf _ _ hab, ih]

end Mammoth
