/-
  C13 helpers, part 2: the body reader and the part lookup.
-/
import MammothModel.Package
namespace Mammoth

/-! ### `_inner_text` -/

@[simp] theorem c13_innerTextL_nil : innerTextL [] = [] := by simp [innerTextL]
@[simp] theorem c13_innerTextL_cons (c : XmlNode) (cs : List XmlNode) :
    innerTextL (c :: cs) = innerText c ++ innerTextL cs := by simp [innerTextL]
@[simp] theorem c13_innerText_text (s : Str) : innerText (.text s) = s := by simp [innerText]
@[simp] theorem c13_innerText_elem (n : Str) (as : Attrs) (cs : List XmlNode) :
    innerText (.elem n as cs) = innerTextL cs := by simp [innerText]

theorem c13_innerTextL_append (a b : List XmlNode) : innerTextL (a ++ b) = innerTextL a ++ innerTextL b := by
  induction a with
  | nil => simp
  | cons x xs ih => simp [ih, List.append_assoc]

mutual
/-- merge every run of adjacent text nodes into one text node, at every depth -/
def c13_mergeText : XmlNode → XmlNode
  | .text s => .text s
  | .elem n as cs => .elem n as (c13_mergeTextL cs)
def c13_mergeTextL : List XmlNode → List XmlNode
  | [] => []
  | c :: cs =>
    match c13_mergeText c, c13_mergeTextL cs with
    | .text s, .text t :: rest => .text (s ++ t) :: rest
    | c', rest => c' :: rest
end

mutual
theorem c13_innerText_merge (n : XmlNode) : innerText (c13_mergeText n) = innerText n := by
  match n with
  | .text s => simp [c13_mergeText]
  | .elem nm as cs => simp [c13_mergeText, c13_innerTextL_merge cs]
theorem c13_innerTextL_merge (ns : List XmlNode) : innerTextL (c13_mergeTextL ns) = innerTextL ns := by
  match ns with
  | [] => simp [c13_mergeTextL]
  | c :: cs =>
    have ihc := c13_innerText_merge c
    have ih := c13_innerTextL_merge cs
    unfold c13_mergeTextL
    split
    · next s t rest h1 h2 =>
      rw [h1] at ihc; rw [h2] at ih
      simp at ihc ih
      simp [← ihc, ← ih, List.append_assoc]
    · next c' rest _ =>
      simp [ihc, ih]
end

/-! ### `_read_xml_elements` -/

def c13_isElem : XmlNode → Bool
  | .elem _ _ _ => true
  | .text _ => false

@[simp] theorem c13_concat_empty_left (r : ReadResult) : ReadResult.concat {} r = r := by
  cases r; simp [ReadResult.concat]

@[simp] theorem c13_concat_empty_right (r : ReadResult) : ReadResult.concat r {} = r := by
  cases r; simp [ReadResult.concat]

theorem c13_readAllWith_text (rd : RState → XmlNode → Except Err (ReadResult × RState)) (st : RState)
    (s : Str) (rest : List XmlNode) : readAllWith rd st (.text s :: rest) = readAllWith rd st rest := by
  simp [readAllWith]

theorem c13_readAllWith_elem (rd : RState → XmlNode → Except Err (ReadResult × RState)) (st : RState)
    (n : Str) (as : Attrs) (cs rest : List XmlNode) :
    readAllWith rd st (.elem n as cs :: rest) =
      (do let (r1, st1) ← rd st (.elem n as cs)
          let (r2, st2) ← readAllWith rd st1 rest
          pure (r1.concat r2, st2)) := by
  simp [readAllWith]

/-- text nodes between elements are skipped by the dispatcher loop -/
theorem c13_readAllWith_filter (rd : RState → XmlNode → Except Err (ReadResult × RState)) (st : RState)
    (ns : List XmlNode) : readAllWith rd st (ns.filter c13_isElem) = readAllWith rd st ns := by
  induction ns generalizing st with
  | nil => rfl
  | cons c cs ih =>
    cases c with
    | text s => simp [c13_isElem, c13_readAllWith_text, ih]
    | elem n as cs' =>
      simp only [List.filter_cons, c13_isElem, if_true, c13_readAllWith_elem]
      cases rd st (.elem n as cs') with
      | error e => rfl
      | ok p => simp [bind, Except.bind, ih]

/-- a node that the element reader maps to the empty result without touching the state can be
    inserted anywhere in (or removed from) the list -/
theorem c13_readAllWith_insert (rd : RState → XmlNode → Except Err (ReadResult × RState))
    (n : XmlNode) (hn : ∀ st, rd st n = .ok ({}, st)) (a b : List XmlNode) (st : RState) :
    readAllWith rd st (a ++ n :: b) = readAllWith rd st (a ++ b) := by
  induction a generalizing st with
  | nil =>
    cases n with
    | text s => simp [c13_readAllWith_text]
    | elem nm as cs =>
      simp only [List.nil_append, c13_readAllWith_elem, hn st]
      simp only [bind, Except.bind]
      cases readAllWith rd st b with
      | error e => rfl
      | ok p => simp [pure, Except.pure]
  | cons c cs ih =>
    cases c with
    | text s => simp only [List.cons_append, c13_readAllWith_text, ih]
    | elem nm as cs' =>
      simp only [List.cons_append, c13_readAllWith_elem]
      cases rd st (.elem nm as cs') with
      | error e => rfl
      | ok p => simp [bind, Except.bind, ih]

/-! ### ignored elements -/

/-- no ignored name has a handler (checked on the extracted tables) -/
theorem c13_ignored_no_handler :
    Generated.ignored.all (fun n => (handlerOf n).isNone) = true := by decide

theorem c13_handlerOf_ignored (name : Str) (h : Generated.ignored.contains name = true) :
    handlerOf name = none := by
  have hall := c13_ignored_no_handler
  rw [List.all_eq_true] at hall
  have hm : name ∈ Generated.ignored := by simpa using h
  have := hall name hm
  simpa using this

theorem c13_readElem_ignored (env : REnv) (f : Nat) (st : RState) (name : Str) (as : Attrs)
    (cs : List XmlNode) (h : Generated.ignored.contains name = true) :
    readElem env (f + 1) st (.elem name as cs) = .ok ({}, st) := by
  -- (the equation lemmas of `readElem` cannot be generated within the heartbeat limit)
  delta readElem
  delta readElem._f
  dsimp only
  simp only [c13_handlerOf_ignored name h, h, if_true]

/-! ### paths -/

theorem c13_lstripChar_id (ch : Char) (s : Str) (h : startsWith s [ch] = false) : lstripChar ch s = s := by
  cases s with
  | nil => rfl
  | cons c cs =>
    simp only [startsWith, Bool.and_true] at h
    simp [lstripChar, h]

theorem c13_joinPath_absolute (base rest : Str) :
    joinPath [base, '/' :: rest] = '/' :: rest := by
  by_cases hb : base.isEmpty = true
  · simp [joinPath, hb, startsWith, joinWith]
  · simp [joinPath, hb, startsWith, joinWith]

theorem c13_joinPath_relative (base x : Str) (hb : base.isEmpty = false) (hx : x.isEmpty = false)
    (hxs : startsWith x ['/'] = false) :
    joinPath [base, x] = base ++ ['/'] ++ x := by
  by_cases hbs : startsWith base ['/'] = true
  · simp [joinPath, hb, hx, hxs, hbs, joinWith]
  · simp [joinPath, hb, hx, hxs, hbs, joinWith]

theorem c13_startsWith_append (a b : Str) (ch : Char) (ha : a.isEmpty = false) :
    startsWith (a ++ b) [ch] = startsWith a [ch] := by
  cases a with
  | nil => simp at ha
  | cons c cs => simp [startsWith]

/-- the first element satisfying `p`, spelled with `filter` as in the code -/
theorem c13_filter_head {α} (p : α → Bool) (pre : List α) (t : α) (post : List α)
    (hpre : pre.all (fun x => !p x) = true) (ht : p t = true) :
    (pre ++ t :: post).filter p = t :: post.filter p := by
  induction pre with
  | nil => simp [ht]
  | cons x xs ih =>
    simp only [List.all_cons, Bool.and_eq_true, Bool.not_eq_true'] at hpre
    have h1 : p x = false := hpre.1
    simp only [List.cons_append, List.filter_cons, h1]
    exact ih hpre.2

theorem c13_filter_none {α} (p : α → Bool) (xs : List α) (h : xs.all (fun x => !p x) = true) :
    xs.filter p = [] := by
  induction xs with
  | nil => rfl
  | cons x xs ih =>
    simp only [List.all_cons, Bool.and_eq_true, Bool.not_eq_true'] at h
    simp [h.1, ih h.2]

/-- `target.lstrip("/")` of `join_path(base, target)` -/
def c13_normTarget (base t : Str) : Str := lstripChar '/' (joinPath [base, t])

end Mammoth
