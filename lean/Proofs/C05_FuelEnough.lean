/-
  C05 — fuel at least the size of the tree is enough (no deleted paragraph marks): the reader never
  reports `.fuel`.
-/
import Proofs.C05_BalancedSpec
namespace Mammoth

abbrev c05_notFuel : Err → Prop := fun e => e ≠ Err.fuel
abbrev c05_Qd : ReadResult × RState → Prop := fun p => p.2.deleted = []

theorem c05_spec_err {α} {E : Err → Prop} {Q : α → Prop} (e0 : Err) (h : E e0) : c05_spec E Q (.error e0) :=
  ⟨fun _ he => (by cases he; exact h), fun _ ha => (by cases ha)⟩

theorem c05_spec_mapM {α β} {E : Err → Prop} (f : α → Except Err β) (l : List α)
    (h : ∀ a, c05_spec E (fun _ => True) (f a)) : c05_spec E (fun _ => True) (l.mapM f) := by
  induction l with
  | nil => exact ⟨fun e he => (by simp [pure, Except.pure] at he), fun _ _ => trivial⟩
  | cons a l ih =>
    rw [List.mapM_cons]
    refine c05_spec_bind (Q := fun _ => True) _ _ (h a) (fun _ _ => ?_)
    refine c05_spec_bind (Q := fun _ => True) _ _ ih (fun _ _ => ?_)
    exact c05_spec_pure _ trivial

macro "c05_nf_leaf" : tactic =>
  `(tactic| first
    | exact c05_spec_ok _ trivial
    | exact c05_spec_pure _ trivial
    | exact c05_spec_err _ (by intro h; cases h))

theorem c05_readSymbol_nf (as : Attrs) : c05_spec c05_notFuel (fun _ => True) (readSymbol as) := by
  unfold readSymbol
  dsimp only
  repeat' (first | c05_nf_leaf | split)

theorem c05_targetById_nf (rs : Rels) (rid : Str) : c05_spec c05_notFuel (fun _ => True) (rs.targetById rid) := by
  unfold Rels.targetById
  repeat' (first | c05_nf_leaf | split)

theorem c05_readEmbeddedImage_nf (env : REnv) (rid : Str) (alt : Option Str) :
    c05_spec c05_notFuel (fun _ => True) (readEmbeddedImage env rid alt) := by
  unfold readEmbeddedImage
  refine c05_spec_bind (Q := fun _ => True) _ _ (c05_targetById_nf _ _) (fun _ _ => ?_)
  c05_nf_leaf

theorem c05_readBlip_nf (env : REnv) (as : Attrs) (alt : Option Str) :
    c05_spec c05_notFuel (fun _ => True) (readBlip env as alt) := by
  unfold readBlip
  repeat' (first
    | exact c05_readEmbeddedImage_nf _ _ _
    | refine c05_spec_bind (Q := fun _ => True) _ _ (c05_targetById_nf _ _) (fun _ _ => ?_)
    | c05_nf_leaf | split)

theorem c05_readInline_nf (env : REnv) (cs : List XmlNode) :
    c05_spec c05_notFuel (fun _ => True) (readInline env cs) := by
  unfold readInline
  dsimp only
  refine c05_spec_bind (Q := fun _ => True) _ _ (c05_spec_mapM _ _ (fun a => ?_)) (fun _ _ => ?_)
  · exact c05_readBlip_nf _ _ _
  · c05_nf_leaf

theorem c05_findLevel_nf (n : Numbering) : ∀ (f : Nat) (numId : Option Str) (lvl : Str),
    c05_spec c05_notFuel (fun _ => True) (findLevel n f numId lvl)
  | 0, _, _ => by unfold findLevel; c05_nf_leaf
  | f+1, numId, lvl => by
    unfold findLevel
    repeat' (first | exact c05_findLevel_nf n f _ _ | c05_nf_leaf | split)

theorem c05_readNumberingProps_nf (env : REnv) (sid : Option Str) (numPr : List XmlNode) :
    c05_spec c05_notFuel (fun _ => True) (readNumberingProps env sid numPr) := by
  unfold readNumberingProps
  repeat' (first | exact c05_findLevel_nf _ _ _ _ | c05_nf_leaf | split)

theorem c05_readFldChar_nf (st : RState) (as : Attrs) (cs : List XmlNode) :
    c05_spec c05_notFuel (fun p => p.2.deleted = st.deleted) (readFldChar st as cs) := by
  unfold readFldChar
  dsimp only
  repeat' (first
    | exact c05_spec_ok _ rfl
    | exact c05_spec_err _ (by intro h; cases h)
    | refine c05_spec_ite _ _ _ (fun _ => ?_) (fun _ => ?_)
    | split)

theorem c05_xmlSizeL_findChild (name : Str) (cs : List XmlNode) :
    xmlSizeL (findChildOrNull name cs).2 ≤ xmlSizeL cs := by
  unfold findChildOrNull
  induction cs with
  | nil => simp [findChild, xmlSizeL]
  | cons c cs ih =>
    cases c with
    | text s => simp only [findChild, xmlSizeL]; omega
    | elem n as ccs =>
      simp only [findChild]
      split
      · simp only [Option.getD, xmlSizeL, xmlSize]; omega
      · simp only [xmlSizeL]; omega

theorem c05_readBody_nofuel (env : REnv) (ra : c05_RdAll) (F : Nat)
    (ih : ∀ st ns, c05_noDelL ns = true → st.deleted = [] → xmlSizeL ns ≤ F →
      c05_spec c05_notFuel c05_Qd (ra st ns))
    (st : RState) (name : Str) (as : Attrs) (cs : List XmlNode)
    (hnd : c05_elemNoDel name cs = true) (hncs : c05_noDelL cs = true) (hdel : st.deleted = [])
    (hsz : xmlSizeL cs ≤ F) :
    c05_spec c05_notFuel c05_Qd (c05_readBody env ra st name as cs) := by
  unfold c05_readBody
  cases hg : handlerOf name with
  | none =>
    dsimp only
    split <;> exact c05_spec_ok _ hdel
  | some g =>
    dsimp only
    repeat' (first
      | with_reducible refine c05_spec_ite _ _ _ (fun _ => ?_) (fun _ => ?_)
      | exact c05_spec_ok _ hdel
      | exact c05_spec_pure _ (by assumption)
      | exact c05_spec_err _ (by intro h; cases h)
      | exact ih _ _ hncs hdel hsz
      | exact ih _ _ (c05_noDelL_findChild _ cs hncs) hdel (Nat.le_trans (c05_xmlSizeL_findChild _ cs) hsz)
      | exact c05_spec_weaken (c05_readFldChar_nf st as cs) (fun a ha => by show a.2.deleted = []; rw [ha]; exact hdel)
      | refine c05_spec_bind (Q := c05_Qd) _ _ (ih _ _ hncs hdel hsz) (fun _ _ => ?_)
      | (rw [show st.deleted ++ cs = cs from by simp [hdel]]
         refine c05_spec_bind (Q := c05_Qd) _ _ (ih { st with deleted := [] } cs hncs rfl hsz) (fun _ _ => ?_))
      | refine c05_spec_bind (Q := fun _ => True) _ _ (c05_readNumberingProps_nf env _ _) (fun _ _ => ?_)
      | refine c05_spec_bind (Q := fun _ => True) _ _ (c05_targetById_nf _ _) (fun _ _ => ?_)
      | refine c05_spec_bind (Q := fun _ => True) _ _ (c05_spec_err _ (by intro h; cases h)) (fun _ _ => ?_)
      | exact c05_spec_map _ _ (c05_readSymbol_nf as) (fun _ _ => hdel)
      | exact c05_spec_map _ _ (c05_readInline_nf env cs) (fun _ _ => hdel)
      | exact c05_spec_map _ _ (c05_readEmbeddedImage_nf env _ _) (fun _ _ => hdel)
      | exact absurd (by assumption) (c05_elemNoDel_para name g cs hg (by assumption) hnd)
      | split
      | dsimp only)

theorem c05_readAllWith_nofuel (rd : c05_Rd) (F : Nat)
    (hrd : ∀ st n, c05_noDel n = true → st.deleted = [] → xmlSize n ≤ F →
      c05_spec c05_notFuel c05_Qd (rd st n)) :
    ∀ (ns : List XmlNode) (st : RState), c05_noDelL ns = true → st.deleted = [] → xmlSizeL ns ≤ F →
      c05_spec c05_notFuel c05_Qd (readAllWith rd st ns)
  | [], st, _, hd, _ => by simp only [readAllWith]; exact c05_spec_ok _ hd
  | .text _ :: rest, st, hn, hd, hsz => by
    simp only [readAllWith]
    simp only [c05_noDelL, Bool.and_eq_true] at hn
    simp only [xmlSizeL] at hsz
    exact c05_readAllWith_nofuel rd F hrd rest st hn.2 hd (by omega)
  | .elem n as cs :: rest, st, hn, hd, hsz => by
    simp only [readAllWith]
    simp only [c05_noDelL, Bool.and_eq_true] at hn
    simp only [xmlSizeL] at hsz
    refine c05_spec_bind (Q := c05_Qd) _ _ (hrd _ _ hn.1 hd (by omega)) (fun a ha => ?_)
    refine c05_spec_bind (Q := c05_Qd) _ _ (c05_readAllWith_nofuel rd F hrd rest _ hn.2 ha (by omega)) (fun b hb => ?_)
    exact c05_spec_pure _ hb

theorem c05_readElem_nofuel (env : REnv) :
    ∀ (f : Nat) (st : RState) (n : XmlNode), c05_noDel n = true → st.deleted = [] → xmlSize n ≤ f →
      c05_spec c05_notFuel c05_Qd (readElem env f st n)
  | f, st, .text s, _, hd, _ => by rw [c05_readElem_text]; exact c05_spec_ok _ hd
  | 0, st, .elem name as cs, _, _, hsz => by simp only [xmlSize] at hsz; omega
  | f+1, st, .elem name as cs, hnd, hd, hsz => by
    rw [c05_readElem_succ]
    simp only [c05_noDel, Bool.and_eq_true] at hnd
    simp only [xmlSize] at hsz
    exact c05_readBody_nofuel env _ f
      (fun st ns h1 h2 h3 => c05_readAllWith_nofuel _ f (c05_readElem_nofuel env f) ns st h1 h2 h3)
      st name as cs hnd.1 hnd.2 hd (by omega)

end Mammoth
