/-
  C07 — the IDENTIFIER rule run by the backtracking regex matcher: linear cost, and agreement
  with the hand-written `lexIdent` / `lexIdentRest`.
-/
import Proofs.C07_Regex
namespace Mammoth

theorem c07_test_digit (c : Char) : c07_ccDigit.test c = isDigit c := by
  simp [c07_ccDigit, C07Class.test, c07_inRanges, isDigit]

theorem c07_test_identStart (c : Char) : c07_ccIdentStart.test c = isIdentStart c := by
  have e1 : (c == '-') = ('-'.toNat ≤ c.toNat && c.toNat ≤ '-'.toNat) := by
    rw [Bool.eq_iff_iff]; simp [← Char.toNat_inj]; omega
  have e2 : (c == '_') = ('_'.toNat ≤ c.toNat && c.toNat ≤ '_'.toNat) := by
    rw [Bool.eq_iff_iff]; simp [← Char.toNat_inj]; omega
  simp only [c07_ccIdentStart, C07Class.test, c07_inRanges, isIdentStart, e1, e2, List.any_cons, List.any_nil,
    Char.isAlpha, Char.isUpper, Char.isLower]
  rw [Bool.eq_iff_iff]
  simp [UInt32.le_iff_toNat_le]
  omega

/-- `(?:(?:[a-zA-Z\-_]|\\.)|[0-9])` -/
def c07_identBody : C07Regex := .alt c07_identChar (.chr c07_ccDigit)

theorem c07_identChar_run (s : Str) (k : Str → C07Res) : c07_identChar.run s k =
    (((C07Regex.chr c07_ccIdentStart).run s k).orElse
      ((C07Regex.chr c07_ccBackslash).run s fun s' => (C07Regex.chr .any).run s' k)).tick := rfl

theorem c07_identBody_run (s : Str) (k : Str → C07Res) : c07_identBody.run s k =
    ((c07_identChar.run s k).orElse ((C07Regex.chr c07_ccDigit).run s k)).tick := rfl

theorem c07_identLoop (s : Str) :
    ((C07Regex.star c07_identBody).run s c07_k0).1 ≤ 8 * s.length + 8 ∧
    ((C07Regex.star c07_identBody).run s c07_k0).2 = some (lexIdentRest s).2 := by
  have h1 : isIdentStart '\\' = false := by decide
  have h2 : isDigit '\\' = false := by decide
  fun_induction lexIdentRest s
  case case1 c cs hc m r hx ih =>
    have hc' : (c != '\n') = true := hc
    have hl : cs.length < cs.length + 1 + 1 := by omega
    rw [c07_star_unfold, c07_identBody_run, c07_identChar_run]
    simp only [c07_run_chr_cons, c07_test_identStart, c07_test_digit, c07_test_bs, c07_test_any, hc']
    rw [hx] at ih
    generalize (C07Regex.star c07_identBody).run cs c07_k0 = R at ih ⊢
    obtain ⟨n, o⟩ := R
    simp only at ih
    obtain ⟨ih1, rfl⟩ := ih
    simp [h1, hl, C07Res.orElse, C07Res.tick]
    omega
  case case2 c cs hc =>
    have hc' : (c != '\n') = false := by simpa [isDot] using hc
    rw [c07_star_unfold, c07_identBody_run, c07_identChar_run]
    simp only [c07_run_chr_cons, c07_test_identStart, c07_test_digit, c07_test_bs, c07_test_any, hc']
    simp [h1, h2, c07_k0, C07Res.orElse, C07Res.tick]
  case case3 c cs hx hc m r hx' ih =>
    rw [c07_star_unfold, c07_identBody_run, c07_identChar_run]
    simp only [c07_run_chr_cons, c07_test_identStart, c07_test_digit, c07_test_bs]
    rw [hx'] at ih
    generalize (C07Regex.star c07_identBody).run cs c07_k0 = R at ih ⊢
    obtain ⟨n, o⟩ := R
    simp only at ih
    obtain ⟨ih1, rfl⟩ := ih
    by_cases hi : isIdentStart c = true
    · simp [hi, C07Res.orElse, C07Res.tick]; omega
    · have hd : isDigit c = true := by simpa [hi] using hc
      have hb : (c == '\\') = false := by
        cases hcb : c == '\\' with
        | false => rfl
        | true => simp at hcb; subst hcb; simp [h2] at hd
      simp [hi, hd, hb, C07Res.orElse, C07Res.tick]; omega
  case case4 c cs hx hc =>
    simp at hc
    rw [c07_star_unfold, c07_identBody_run, c07_identChar_run]
    simp only [c07_run_chr_cons, c07_test_identStart, c07_test_digit, c07_test_bs]
    by_cases hb : c = '\\'
    · subst hb
      cases cs with
      | nil => simp [h1, h2, c07_k0, c07_run_chr_nil, C07Res.orElse, C07Res.tick]
      | cons d ds => exact absurd rfl (fun h => hx d ds rfl h)
    · have hb' : (c == '\\') = false := by simpa using hb
      simp [hc.1, hc.2, hb', c07_k0, C07Res.orElse, C07Res.tick]
  case case5 =>
    rw [c07_star_unfold, c07_identBody_run, c07_identChar_run]
    simp [c07_run_chr_nil, c07_k0, C07Res.orElse, C07Res.tick]

theorem c07_identRule_exec (s : Str) :
    c07_identRule.exec s = c07_identChar.run s fun s' => (C07Regex.star c07_identBody).run s' c07_k0 := rfl

theorem c07_ident_agrees (s : Str) :
    (c07_identRule.exec s).1 ≤ 8 * (s.length + 1) ∧
    (c07_identRule.exec s).2 = (lexIdent s).map (·.2) := by
  have h1 : isIdentStart '\\' = false := by decide
  rw [c07_identRule_exec, c07_identChar_run]
  fun_cases lexIdent s
  case case1 c cs hc m r hx =>
    have hc' : (c != '\n') = true := hc
    have := c07_identLoop cs
    rw [hx] at this
    simp only [c07_run_chr_cons, c07_test_identStart, c07_test_bs, c07_test_any, hc']
    generalize (C07Regex.star c07_identBody).run cs c07_k0 = R at this ⊢
    obtain ⟨n, o⟩ := R
    simp only at this
    obtain ⟨ih1, rfl⟩ := this
    simp [h1, C07Res.orElse, C07Res.tick]
    omega
  case case2 c cs hc =>
    have hc' : (c != '\n') = false := by simpa [isDot] using hc
    simp only [c07_run_chr_cons, c07_test_identStart, c07_test_bs, c07_test_any, hc']
    simp [h1, C07Res.orElse, C07Res.tick]
    omega
  case case3 c cs hx hc m r hx' =>
    have := c07_identLoop cs
    rw [hx'] at this
    simp only [c07_run_chr_cons, c07_test_identStart, c07_test_bs]
    generalize (C07Regex.star c07_identBody).run cs c07_k0 = R at this ⊢
    obtain ⟨n, o⟩ := R
    simp only at this
    obtain ⟨ih1, rfl⟩ := this
    simp [hc, C07Res.orElse, C07Res.tick]
    omega
  case case4 c cs hx hc =>
    simp only [c07_run_chr_cons, c07_test_identStart, c07_test_bs]
    by_cases hb : c = '\\'
    · subst hb
      cases cs with
      | nil => simp [h1, c07_run_chr_nil, C07Res.orElse, C07Res.tick]
      | cons d ds => exact absurd rfl (fun h => hx d ds rfl h)
    · have hb' : (c == '\\') = false := by simpa using hb
      simp [hc, hb', C07Res.orElse, C07Res.tick]
      omega
  case case5 =>
    simp [c07_run_chr_nil, C07Res.orElse, C07Res.tick]

end Mammoth
