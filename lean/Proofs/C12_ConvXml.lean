/-
  C12 (conversion) — `_add_or_update_element` on the trees the CONVERTER reads (`XmlNode`: names in
  `prefix:local` form, text nodes kept), and what `office_xml.read` (`collapseAlt`) + `find_children`
  see of its effect.

  `xAddOrUpdate` mirrors `_add_or_update_element` / `_find_child` of mammoth/docx/style_map.py line by
  line: the first element in `parent.iter()` order (the parent itself, then all descendants in document
  order) with the tag and the same value of the identifying attribute gets `attrib = attributes`;
  if there is none, a new child is appended to the PARENT (the root).
-/
import MammothModel.Embed
namespace Mammoth

/-- the test inside `_find_child` -/
def xMatches (name idAttr : Str) (attrs : Attrs) (n : Str) (as : Attrs) : Bool :=
  n == name && attr? idAttr as == attr? idAttr attrs

mutual
/-- `existing_child.attrib = attributes` for the first element (document order) satisfying `p` -/
def xSetFirst (p : Str → Attrs → Bool) (attrs : Attrs) : XmlNode → Option XmlNode
  | .text _ => none
  | .elem n as cs =>
    if p n as then some (.elem n attrs cs)
    else match xSetFirstL p attrs cs with
      | some cs' => some (.elem n as cs')
      | none => none
def xSetFirstL (p : Str → Attrs → Bool) (attrs : Attrs) : List XmlNode → Option (List XmlNode)
  | [] => none
  | c :: cs =>
    match xSetFirst p attrs c with
    | some c' => some (c' :: cs)
    | none =>
      match xSetFirstL p attrs cs with
      | some cs' => some (c :: cs')
      | none => none
end

mutual
/-- the attributes of the element `_find_child` returns -/
def xFindFirst (p : Str → Attrs → Bool) : XmlNode → Option Attrs
  | .text _ => none
  | .elem n as cs => if p n as then some as else xFindFirstL p cs
def xFindFirstL (p : Str → Attrs → Bool) : List XmlNode → Option Attrs
  | [] => none
  | c :: cs =>
    match xFindFirst p c with
    | some as => some as
    | none => xFindFirstL p cs
end

/-- `_add_or_update_element(parent, name, identifying_attribute, attributes)`; `none`: the document
    element is not an element (impossible for a parsed file) -/
def xAddOrUpdate (root : XmlNode) (name idAttr : Str) (attrs : Attrs) : Option XmlNode :=
  match root with
  | .text _ => none
  | .elem n as cs =>
    match xSetFirst (xMatches name idAttr attrs) attrs (.elem n as cs) with
    | some r' => some r'
    | none => some (.elem n as (cs ++ [.elem name attrs []]))

/-! ### the shape of an update: exactly one element changes its attributes -/

/-- `t'` is `t` with the attributes `old` of ONE element satisfying `p` replaced by `new` -/
inductive c12_D1 (p : Str → Attrs → Bool) (old new : Attrs) : XmlNode → XmlNode → Prop
  | here (n : Str) (cs : List XmlNode) : p n old = true →
      c12_D1 p old new (.elem n old cs) (.elem n new cs)
  | under (n : Str) (as : Attrs) (a : List XmlNode) (c c' : XmlNode) (b : List XmlNode) :
      c12_D1 p old new c c' → c12_D1 p old new (.elem n as (a ++ c :: b)) (.elem n as (a ++ c' :: b))

/-- the same for lists of nodes: equal, or one node changed -/
def c12_D1L (p : Str → Attrs → Bool) (old new : Attrs) (l l' : List XmlNode) : Prop :=
  l' = l ∨ ∃ a c c' b, l = a ++ c :: b ∧ l' = a ++ c' :: b ∧ c12_D1 p old new c c'

theorem c12_D1L_refl {p old new} (l : List XmlNode) : c12_D1L p old new l l := Or.inl rfl

theorem c12_D1L_one {p old new} {c c' : XmlNode} (a b : List XmlNode) (h : c12_D1 p old new c c') :
    c12_D1L p old new (a ++ c :: b) (a ++ c' :: b) := Or.inr ⟨a, c, c', b, rfl, rfl, h⟩

theorem c12_D1L_append {p old new} {l l' : List XmlNode} (x y : List XmlNode)
    (h : c12_D1L p old new l l') : c12_D1L p old new (x ++ l ++ y) (x ++ l' ++ y) := by
  rcases h with h | ⟨a, c, c', b, h1, h2, hd⟩
  · subst h; exact Or.inl rfl
  · subst h1; subst h2
    refine Or.inr ⟨x ++ a, c, c', b ++ y, ?_, ?_, hd⟩ <;> simp

theorem c12_D1_name {p old new} {t t' : XmlNode} (h : c12_D1 p old new t t') :
    ∃ n as cs as' cs', t = .elem n as cs ∧ t' = .elem n as' cs' := by
  cases h with
  | here n cs _ => exact ⟨_, _, _, _, _, rfl, rfl⟩
  | under n as a c c' b _ => exact ⟨_, _, _, _, _, rfl, rfl⟩

/-- inversion: the element itself changed (same children), or one child did (same attributes) -/
theorem c12_D1_inv {p old new} {n n' : Str} {as as' : Attrs} {cs cs' : List XmlNode}
    (h : c12_D1 p old new (.elem n as cs) (.elem n' as' cs')) :
    n' = n ∧ ((cs' = cs ∧ as = old ∧ as' = new ∧ p n old = true) ∨
      (as' = as ∧ ∃ a c c' b, cs = a ++ c :: b ∧ cs' = a ++ c' :: b ∧ c12_D1 p old new c c')) := by
  cases h with
  | here _ _ hp => exact ⟨rfl, Or.inl ⟨rfl, rfl, rfl, hp⟩⟩
  | under _ _ a c c' b hd => exact ⟨rfl, Or.inr ⟨rfl, a, c, c', b, rfl, rfl, hd⟩⟩

mutual
theorem c12_xSetFirst_D1 (p : Str → Attrs → Bool) (new : Attrs) (t t' : XmlNode)
    (h : xSetFirst p new t = some t') :
    ∃ old, xFindFirst p t = some old ∧ c12_D1 p old new t t' := by
  match t with
  | .text _ => simp [xSetFirst] at h
  | .elem n as cs =>
    simp only [xSetFirst] at h
    simp only [xFindFirst]
    by_cases hp : p n as = true
    · rw [if_pos hp] at h ⊢
      cases h
      exact ⟨as, rfl, .here n cs hp⟩
    · rw [if_neg hp] at h ⊢
      cases hl : xSetFirstL p new cs with
      | none => rw [hl] at h; cases h
      | some cs' =>
        rw [hl] at h; cases h
        obtain ⟨old, hf, a, c, c', b, h1, h2, hd⟩ := c12_xSetFirstL_D1 p new cs cs' hl
        subst h1; subst h2
        exact ⟨old, hf, .under n as a c c' b hd⟩
theorem c12_xSetFirstL_D1 (p : Str → Attrs → Bool) (new : Attrs) (cs cs' : List XmlNode)
    (h : xSetFirstL p new cs = some cs') :
    ∃ old, xFindFirstL p cs = some old ∧
      ∃ a c c' b, cs = a ++ c :: b ∧ cs' = a ++ c' :: b ∧ c12_D1 p old new c c' := by
  match cs with
  | [] => simp [xSetFirstL] at h
  | x :: xs =>
    simp only [xSetFirstL] at h
    simp only [xFindFirstL]
    cases hx : xSetFirst p new x with
    | some x' =>
      rw [hx] at h; cases h
      obtain ⟨old, hf, hd⟩ := c12_xSetFirst_D1 p new x x' hx
      rw [hf]
      exact ⟨old, rfl, [], x, x', xs, rfl, rfl, hd⟩
    | none =>
      rw [hx] at h
      have hnone : xFindFirst p x = none := c12_xSetFirst_none p new x hx
      rw [hnone]
      cases hl : xSetFirstL p new xs with
      | none => rw [hl] at h; cases h
      | some xs' =>
        rw [hl] at h; cases h
        obtain ⟨old, hf, a, c, c', b, h1, h2, hd⟩ := c12_xSetFirstL_D1 p new xs xs' hl
        subst h1; subst h2
        exact ⟨old, hf, x :: a, c, c', b, rfl, rfl, hd⟩
theorem c12_xSetFirst_none (p : Str → Attrs → Bool) (new : Attrs) (t : XmlNode)
    (h : xSetFirst p new t = none) : xFindFirst p t = none := by
  match t with
  | .text _ => rfl
  | .elem n as cs =>
    simp only [xSetFirst] at h
    simp only [xFindFirst]
    by_cases hp : p n as = true
    · rw [if_pos hp] at h; cases h
    · rw [if_neg hp] at h ⊢
      cases hl : xSetFirstL p new cs with
      | some cs' => rw [hl] at h; cases h
      | none => exact c12_xSetFirstL_none p new cs hl
theorem c12_xSetFirstL_none (p : Str → Attrs → Bool) (new : Attrs) (cs : List XmlNode)
    (h : xSetFirstL p new cs = none) : xFindFirstL p cs = none := by
  match cs with
  | [] => rfl
  | x :: xs =>
    simp only [xSetFirstL] at h
    simp only [xFindFirstL]
    cases hx : xSetFirst p new x with
    | some x' => rw [hx] at h; cases h
    | none =>
      rw [hx] at h
      rw [c12_xSetFirst_none p new x hx]
      cases hl : xSetFirstL p new xs with
      | some xs' => rw [hl] at h; cases h
      | none => exact c12_xSetFirstL_none p new xs hl
end

/-! ### `office_xml.read` keeps that shape -/

def c12_acName : Str := S!"mc:AlternateContent"
def c12_fbName : Str := S!"mc:Fallback"

theorem c12_collapseAlt_elem_ne (n : Str) (as : Attrs) (cs : List XmlNode) (h : (n == c12_acName) = false) :
    collapseAlt (.elem n as cs) = [.elem n as (collapseAltL cs)] := by
  unfold c12_acName at h
  simp [collapseAlt, h]

theorem c12_collapseAlt_elem_ac (n : Str) (as : Attrs) (cs : List XmlNode) (h : (n == c12_acName) = true) :
    collapseAlt (.elem n as cs) = collapseAltFallback cs := by
  unfold c12_acName at h
  simp [collapseAlt, h]

theorem c12_collapseAltL_append (xs ys : List XmlNode) :
    collapseAltL (xs ++ ys) = collapseAltL xs ++ collapseAltL ys := by
  induction xs with
  | nil => simp [collapseAltL]
  | cons x xs ih => simp [collapseAltL, ih]

theorem c12_collapseAltL_cons (x : XmlNode) (xs : List XmlNode) :
    collapseAltL (x :: xs) = collapseAlt x ++ collapseAltL xs := by simp [collapseAltL]

/-- the fallback of `a ++ c :: b` when `c` changes inside -/
theorem c12_fallback_D1 {p old new} (c c' : XmlNode) (b : List XmlNode)
    (hd : c12_D1 p old new c c') (ih : c12_D1L p old new (collapseAlt c) (collapseAlt c')) :
    ∀ a : List XmlNode, c12_D1L p old new (collapseAltFallback (a ++ c :: b)) (collapseAltFallback (a ++ c' :: b))
  | [] => by
    obtain ⟨n, as, cs, as', cs', rfl, rfl⟩ := c12_D1_name hd
    simp only [List.nil_append, collapseAltFallback]
    by_cases hf : (n == S!"mc:Fallback") = true
    · rw [if_pos hf, if_pos hf]
      have hne : (n == c12_acName) = false := by
        have := eq_of_beq hf; subst this; decide
      rw [c12_collapseAlt_elem_ne n as cs hne, c12_collapseAlt_elem_ne n as' cs' hne] at ih
      obtain ⟨_, hinv⟩ := c12_D1_inv hd
      rcases hinv with ⟨hcs, _, _, _⟩ | ⟨_, a2, d, d', b2, h1, h2, hdd⟩
      · subst hcs; exact Or.inl rfl
      · -- use the induction hypothesis on the singleton lists
        rcases ih with ih | ⟨a3, e, e', b3, h3, h4, hee⟩
        · injection ih with ih _
          injection ih with _ _ ih
          exact Or.inl ih
        · -- the singleton decomposes only as `[] ++ e :: []`
          have ha3 : a3 = [] := by
            cases a3 with
            | nil => rfl
            | cons y ys =>
              have := congrArg List.length h3
              simp at this
          subst ha3
          simp only [List.nil_append] at h3 h4
          injection h3 with h3 hb3
          injection h4 with h4 _
          subst h3; subst h4
          obtain ⟨_, hinv2⟩ := c12_D1_inv hee
          rcases hinv2 with ⟨hcs2, _, _, _⟩ | ⟨_, a4, f, f', b4, h5, h6, hff⟩
          · exact Or.inl hcs2
          · exact Or.inr ⟨a4, f, f', b4, h5, h6, hff⟩
    · rw [if_neg hf, if_neg hf]; exact Or.inl rfl
  | .text _ :: a => by
    simp only [List.cons_append, collapseAltFallback]
    exact c12_fallback_D1 c c' b hd ih a
  | .elem n as cs :: a => by
    simp only [List.cons_append, collapseAltFallback]
    by_cases hf : (n == S!"mc:Fallback") = true
    · rw [if_pos hf, if_pos hf]; exact Or.inl rfl
    · rw [if_neg hf, if_neg hf]
      exact c12_fallback_D1 c c' b hd ih a

/-- `collapseAlt` of a tree in which one element (not an `mc:AlternateContent`) changed its
    attributes: nothing visible changed, or one element of the result changed the same way -/
theorem c12_collapseAlt_D1 {p old new} (hp : ∀ n, p n old = true → (n == c12_acName) = false)
    {t t' : XmlNode} (h : c12_D1 p old new t t') :
    c12_D1L p old new (collapseAlt t) (collapseAlt t') := by
  induction h with
  | here n cs hpn =>
    rw [c12_collapseAlt_elem_ne n old cs (hp n hpn), c12_collapseAlt_elem_ne n new cs (hp n hpn)]
    exact c12_D1L_one [] [] (.here n _ hpn)
  | under n as a c c' b hd ih =>
    by_cases hac : (n == c12_acName) = true
    · rw [c12_collapseAlt_elem_ac n as _ hac, c12_collapseAlt_elem_ac n as _ hac]
      exact c12_fallback_D1 c c' b hd ih a
    · have hac' : (n == c12_acName) = false := by simpa using hac
      rw [c12_collapseAlt_elem_ne n as _ hac', c12_collapseAlt_elem_ne n as _ hac']
      rw [c12_collapseAltL_append, c12_collapseAltL_append, c12_collapseAltL_cons, c12_collapseAltL_cons]
      rcases ih with ih | ⟨a2, d, d', b2, h1, h2, hdd⟩
      · rw [ih]; exact Or.inl rfl
      · rw [h1, h2]
        have e1 : collapseAltL a ++ ((a2 ++ d :: b2) ++ collapseAltL b)
            = (collapseAltL a ++ a2) ++ d :: (b2 ++ collapseAltL b) := by simp
        have e2 : collapseAltL a ++ ((a2 ++ d' :: b2) ++ collapseAltL b)
            = (collapseAltL a ++ a2) ++ d' :: (b2 ++ collapseAltL b) := by simp
        rw [e1, e2]
        exact c12_D1L_one [] [] (.under n as _ d d' _ hdd)

/-- a new child appended to an `mc:AlternateContent` is never its fallback -/
theorem c12_fallback_append (cs : List XmlNode) (n : Str) (as : Attrs) (ks : List XmlNode)
    (hn : (n == S!"mc:Fallback") = false) :
    collapseAltFallback (cs ++ [.elem n as ks]) = collapseAltFallback cs := by
  induction cs with
  | nil => simp [collapseAltFallback, hn]
  | cons x xs ih =>
    cases x with
    | text s => simp only [List.cons_append, collapseAltFallback]; exact ih
    | elem m bs js =>
      simp only [List.cons_append, collapseAltFallback]
      by_cases hf : (m == S!"mc:Fallback") = true
      · rw [if_pos hf, if_pos hf]
      · rw [if_neg hf, if_neg hf]; exact ih

/-! ### what `find_children(name)` sees -/

/-- the attribute dictionaries of the children named `nm`, in order -/
def c12_attrsOf (nm : Str) (cs : List XmlNode) : List Attrs := (findChildren nm cs).map (·.1)

theorem c12_attrsOf_nil (nm : Str) : c12_attrsOf nm [] = [] := by simp [c12_attrsOf, findChildren]

theorem c12_attrsOf_cons_elem (nm n : Str) (as : Attrs) (ks cs : List XmlNode) :
    c12_attrsOf nm (.elem n as ks :: cs) = (if n == nm then [as] else []) ++ c12_attrsOf nm cs := by
  simp only [c12_attrsOf, findChildren]
  split <;> simp

theorem c12_attrsOf_cons_text (nm s : Str) (cs : List XmlNode) :
    c12_attrsOf nm (.text s :: cs) = c12_attrsOf nm cs := by
  simp only [c12_attrsOf, findChildren]

theorem c12_attrsOf_append (nm : Str) (xs ys : List XmlNode) :
    c12_attrsOf nm (xs ++ ys) = c12_attrsOf nm xs ++ c12_attrsOf nm ys := by
  induction xs with
  | nil => simp [c12_attrsOf_nil]
  | cons x xs ih =>
    cases x with
    | text s => simp only [List.cons_append, c12_attrsOf_cons_text, ih]
    | elem n as ks => simp only [List.cons_append, c12_attrsOf_cons_elem, ih, List.append_assoc]

/-- one node changed: the attribute dictionaries seen are the same, or the dictionary `old` of an
    element named `nm` satisfying `p` became `new` -/
theorem c12_attrsOf_D1L {p old new} (nm : Str) {cs cs' : List XmlNode} (h : c12_D1L p old new cs cs') :
    c12_attrsOf nm cs' = c12_attrsOf nm cs ∨
    (p nm old = true ∧ ∃ A B, c12_attrsOf nm cs = A ++ old :: B ∧ c12_attrsOf nm cs' = A ++ new :: B) := by
  rcases h with h | ⟨a, c, c', b, h1, h2, hd⟩
  · exact Or.inl (by rw [h])
  · subst h1; subst h2
    cases hd with
    | here n ks hpn =>
      by_cases hn : (n == nm) = true
      · have := eq_of_beq hn; subst this
        refine Or.inr ⟨hpn, c12_attrsOf n a, c12_attrsOf n b, ?_, ?_⟩ <;>
          simp [c12_attrsOf_append, c12_attrsOf_cons_elem]
      · refine Or.inl ?_
        simp [c12_attrsOf_append, c12_attrsOf_cons_elem, hn]
    | under n as a2 d d' b2 hdd =>
      refine Or.inl ?_
      simp [c12_attrsOf_append, c12_attrsOf_cons_elem]

/-- the first element of the collapsed document: `(attributes, children)` as `_read_entry` returns them -/
def c12_rootOf (l : List XmlNode) : Except Err (Attrs × List XmlNode) :=
  match l with
  | .elem _ as cs :: _ => .ok (as, cs)
  | _ => .error (.index S!"root")

theorem c12_rootOf_D1L {p old new} {l l' : List XmlNode} (h : c12_D1L p old new l l') :
    (∃ e, c12_rootOf l = .error e ∧ c12_rootOf l' = .error e) ∨
    (∃ as cs as' cs', c12_rootOf l = .ok (as, cs) ∧ c12_rootOf l' = .ok (as', cs') ∧
      c12_D1L p old new cs cs') := by
  rcases h with h | ⟨a, c, c', b, h1, h2, hd⟩
  · subst h
    cases hl : c12_rootOf l' with
    | error e => exact Or.inl ⟨e, rfl, rfl⟩
    | ok r => exact Or.inr ⟨r.1, r.2, r.1, r.2, rfl, rfl, Or.inl rfl⟩
  · subst h1; subst h2
    cases a with
    | nil =>
      obtain ⟨n, as, cs, as', cs', rfl, rfl⟩ := c12_D1_name hd
      refine Or.inr ⟨as, cs, as', cs', rfl, rfl, ?_⟩
      obtain ⟨_, hinv⟩ := c12_D1_inv hd
      rcases hinv with ⟨hcs, _, _, _⟩ | ⟨_, a2, d, d', b2, h1, h2, hdd⟩
      · exact Or.inl hcs
      · exact Or.inr ⟨a2, d, d', b2, h1, h2, hdd⟩
    | cons x xs =>
      cases x with
      | text s => exact Or.inl ⟨_, rfl, rfl⟩
      | elem n as cs => exact Or.inr ⟨as, cs, as, cs, rfl, rfl, Or.inl rfl⟩

end Mammoth
