/-
  C01, reader half — small facts used by the refinement proofs:
  element names versus handler names, the childless results (symbols, breaks, images),
  and the predicate "no cell is marked as a vertical-merge continuation" on XML.
-/
import Proofs.C01_Sweep
import Proofs.C05_Balanced
namespace Mammoth

theorem c01_bind_ok {α β} {x : Except Err α} {f : α → Except Err β} {b : β} (h : (x >>= f) = .ok b) :
    ∃ a, x = .ok a ∧ f a = .ok b := by
  cases x with
  | error e => cases h
  | ok a => exact ⟨a, rfl, h⟩

/-! ### element names and handlers -/

/-- the kind of text content each handler of the reader stands for -/
def c01_handlerKind (h : Str) : c01_Kind :=
  if h = S!"text" then .text else if h = S!"tab" then .tab
  else if h = S!"no_break_hyphen" then .noBreakHyphen else if h = S!"soft_hyphen" then .softHyphen
  else if h = S!"symbol" then .sym
  else if h = S!"note_reference:footnote" then .noteRef S!"footnote"
  else if h = S!"note_reference:endnote" then .noteRef S!"endnote"
  else if h = S!"read_comment_reference" then .commentRef
  else if h = S!"paragraph" then .paragraph else if h = S!"pict" then .pict
  else if h = S!"alternate_content" then .alt else if h = S!"read_sdt" then .sdt
  else if h ∈ [S!"run", S!"table", S!"table_row", S!"table_cell", S!"read_child_elements", S!"hyperlink"] then .through
  else .skip

theorem c01_kinds_agree :
    Generated.handlers.all (fun p => decide (c01_kindOf p.1 = c01_handlerKind p.2)) = true := by decide

theorem c01_kinds_known : c01_kinds.all (fun p => (handlerOf p.1).isSome) = true := by decide

/-- a name with a handler has the kind of that handler -/
theorem c01_kindOf_handler {name h : Str} (hh : handlerOf name = some h) : c01_kindOf name = c01_handlerKind h := by
  have hm := c05_lookupLast_mem _ _ _ hh
  have := List.all_eq_true.mp c01_kinds_agree _ hm
  simpa using this

theorem c01_kindIn_skip (tbl : List (Str × c01_Kind)) (name : Str) :
    c01_kindIn tbl name = .skip ∨ ∃ p ∈ tbl, p.1 = name := by
  induction tbl with
  | nil => exact Or.inl rfl
  | cons p tbl ih =>
    obtain ⟨k, v⟩ := p
    simp only [c01_kindIn]
    split
    · rename_i hk; exact Or.inr ⟨(k, v), List.mem_cons_self, hk.symm⟩
    · rcases ih with h | ⟨q, hq, hqn⟩
      · exact Or.inl h
      · exact Or.inr ⟨q, List.mem_cons_of_mem _ hq, hqn⟩

/-- a name without a handler is skipped -/
theorem c01_kindOf_none {name : Str} (hh : handlerOf name = none) : c01_kindOf name = .skip := by
  rcases c01_kindIn_skip c01_kinds name with h | ⟨p, hp, hpn⟩
  · exact h
  · have := List.all_eq_true.mp c01_kinds_known p hp
    rw [hpn, hh] at this
    cases this

theorem c01_cell_name : Generated.handlers.all (fun p => p.2 != S!"table_cell" || p.1 == S!"w:tc") = true := by decide

theorem c01_handler_cell {name : Str} (hh : handlerOf name = some S!"table_cell") : name = S!"w:tc" := by
  have hm := c05_lookupLast_mem _ _ _ hh
  have := List.all_eq_true.mp c01_cell_name _ hm
  simpa using this

/-! ### equations of the specification, by kind -/

section
variable {name : Str} (as : Attrs) (cs : List XmlNode)

theorem c01_xmlLive_skip (h : c01_kindOf name = .skip) : c01_xmlLive (.elem name as cs) = {} := by
  simp [c01_xmlLive, h]
theorem c01_xmlLive_textK (h : c01_kindOf name = .text) :
    c01_xmlLive (.elem name as cs) = ⟨[.text (innerTextL cs)], []⟩ := by simp [c01_xmlLive, h]
theorem c01_xmlLive_tab (h : c01_kindOf name = .tab) : c01_xmlLive (.elem name as cs) = ⟨[.tab], []⟩ := by
  simp [c01_xmlLive, h]
theorem c01_xmlLive_nbh (h : c01_kindOf name = .noBreakHyphen) :
    c01_xmlLive (.elem name as cs) = ⟨[.text [Char.ofNat 0x2011]], []⟩ := by simp [c01_xmlLive, h]
theorem c01_xmlLive_sh (h : c01_kindOf name = .softHyphen) :
    c01_xmlLive (.elem name as cs) = ⟨[.text [Char.ofNat 0xAD]], []⟩ := by simp [c01_xmlLive, h]
theorem c01_xmlLive_sym (h : c01_kindOf name = .sym) :
    c01_xmlLive (.elem name as cs) = ⟨c01_symLeaf as, []⟩ := by simp [c01_xmlLive, h]
theorem c01_xmlLive_noteRef {ty : Str} (h : c01_kindOf name = .noteRef ty) :
    c01_xmlLive (.elem name as cs) =
      (match attr? S!"w:id" as with | some id => ⟨[.noteRef ty id], []⟩ | none => {}) := by
  simp only [c01_xmlLive, h]; rfl
theorem c01_xmlLive_commentRef (h : c01_kindOf name = .commentRef) :
    c01_xmlLive (.elem name as cs) =
      (match attr? S!"w:id" as with | some id => ⟨[.commentRef id], []⟩ | none => {}) := by
  simp only [c01_xmlLive, h]; rfl
theorem c01_xmlLive_through (h : c01_kindOf name = .through) :
    c01_xmlLive (.elem name as cs) = c01_xmlLiveL cs := by simp [c01_xmlLive, h]
theorem c01_xmlLive_paragraph (h : c01_kindOf name = .paragraph) :
    c01_xmlLive (.elem name as cs) = ⟨(c01_xmlLiveL cs).inline ++ (c01_xmlLiveL cs).extra, []⟩ := by
  simp [c01_xmlLive, h]
theorem c01_xmlLive_pict (h : c01_kindOf name = .pict) :
    c01_xmlLive (.elem name as cs) = ⟨[], (c01_xmlLiveL cs).extra ++ (c01_xmlLiveL cs).inline⟩ := by
  simp [c01_xmlLive, h]
theorem c01_xmlLive_alt (h : c01_kindOf name = .alt) :
    c01_xmlLive (.elem name as cs) = c01_xmlLiveL (findChildOrNull S!"mc:Fallback" cs).2 := by
  simp [c01_xmlLive, h, c01_xmlLiveIn_eq]
theorem c01_xmlLive_sdt (h : c01_kindOf name = .sdt) :
    c01_xmlLive (.elem name as cs) =
      if c01_isCheckboxSdt cs then {} else c01_xmlLiveL (findChildOrNull S!"w:sdtContent" cs).2 := by
  simp [c01_xmlLive, h, c01_xmlLiveIn_eq]
end

/-! ### no vertical-merge continuation cells, as a predicate on the XML -/

/-- the cell is not marked `w:vMerge` = continue -/
def c01_elemNoVMerge (name : Str) (cs : List XmlNode) : Bool :=
  !(name == S!"w:tc") || !readVmerge (findChildOrNull S!"w:tcPr" cs).2

mutual
/-- no `w:tc` anywhere in the tree is a vertical-merge continuation cell -/
def c01_noVMerge : XmlNode → Bool
  | .text _ => true
  | .elem name _ cs => c01_elemNoVMerge name cs && c01_noVMergeL cs
def c01_noVMergeL : List XmlNode → Bool
  | [] => true
  | c :: cs => c01_noVMerge c && c01_noVMergeL cs
end

theorem c01_noVMergeL_append (a b : List XmlNode) :
    c01_noVMergeL (a ++ b) = (c01_noVMergeL a && c01_noVMergeL b) := by
  induction a with
  | nil => simp [c01_noVMergeL]
  | cons x xs ih => simp [c01_noVMergeL, ih, Bool.and_assoc]

theorem c01_noVMergeL_findChild (name : Str) (cs : List XmlNode) (h : c01_noVMergeL cs = true) :
    c01_noVMergeL (findChildOrNull name cs).2 = true := by
  unfold findChildOrNull
  induction cs with
  | nil => simp [findChild, c01_noVMergeL]
  | cons c cs ih =>
    simp only [c01_noVMergeL, Bool.and_eq_true] at h
    cases c with
    | text s => simp only [findChild]; exact ih h.2
    | elem n as ccs =>
      simp only [findChild]
      split
      · simp only [Option.getD]
        have := h.1; simp only [c01_noVMerge, Bool.and_eq_true] at this; exact this.2
      · exact ih h.2

/-! ### childless results -/

/-- a result made of childless elements that are not leaves, with nothing in the extra channel -/
def c01_silent (r : ReadResult) : Prop :=
  r.extra = [] ∧ r.elements.all c01_atom = true ∧ c01_elemLeavesL r.elements = []

theorem c01_silent_empty : c01_silent {} := ⟨rfl, rfl, by simp⟩
theorem c01_silent_msg (m : Str) : c01_silent (rrMsg m) := ⟨rfl, rfl, by simp [rrMsg]⟩

theorem c01_silent_concat {a b : ReadResult} (ha : c01_silent a) (hb : c01_silent b) : c01_silent (a.concat b) := by
  obtain ⟨a1, a2, a3⟩ := ha
  obtain ⟨b1, b2, b3⟩ := hb
  refine ⟨by simp [ReadResult.concat, a1, b1], by simp only [ReadResult.concat, List.all_append, a2, b2]; rfl, ?_⟩
  simp [ReadResult.concat, c01_elemLeavesL_append, a3, b3]

theorem c01_silent_break (as : Attrs) : c01_silent (readBreak as) := by
  unfold readBreak
  repeat' split
  all_goals first
    | exact c01_silent_msg _
    | exact ⟨rfl, rfl, by simp [rrElems, c01_elemLeaves]⟩

theorem c01_silent_image (env : REnv) (path : Str) (src : ImageSrc) (alt : Option Str) :
    c01_silent (readImage env path src alt) := by
  unfold readImage
  dsimp only
  repeat' split
  all_goals exact ⟨rfl, rfl, by simp [rrElems, c01_elemLeaves]⟩

theorem c01_silent_embedded (env : REnv) (rid : Str) (alt : Option Str) (r : ReadResult)
    (h : readEmbeddedImage env rid alt = .ok r) : c01_silent r := by
  unfold readEmbeddedImage at h
  cases ht : env.rels.targetById rid with
  | error e => rw [ht] at h; cases h
  | ok t =>
    rw [ht] at h
    simp only [bind, Except.bind, pure, Except.pure, Except.ok.injEq] at h
    rw [← h]; exact c01_silent_image _ _ _ _

theorem c01_silent_blip (env : REnv) (as : Attrs) (alt : Option Str) (r : ReadResult)
    (h : readBlip env as alt = .ok r) : c01_silent r := by
  unfold readBlip at h
  split at h
  · exact c01_silent_embedded _ _ _ _ h
  · split at h
    · rename_i rid _
      cases ht : env.rels.targetById rid with
      | error e => rw [ht] at h; cases h
      | ok t =>
        rw [ht] at h
        simp only [bind, Except.bind, pure, Except.pure, Except.ok.injEq] at h
        rw [← h]; exact c01_silent_image _ _ _ _
    · cases h; exact c01_silent_msg _

theorem c01_mapM_all {α β} (f : α → Except Err β) (P : β → Prop) (hf : ∀ a b, f a = .ok b → P b) :
    ∀ (l : List α) (bs : List β), l.mapM f = .ok bs → ∀ b ∈ bs, P b := by
  intro l
  induction l with
  | nil =>
    intro bs h b hb
    simp only [List.mapM_nil, pure, Except.pure, Except.ok.injEq] at h
    subst h; cases hb
  | cons a l ih =>
    intro bs h b hb
    rw [List.mapM_cons] at h
    cases hfa : f a with
    | error e => rw [hfa] at h; cases h
    | ok b1 =>
      cases hl : l.mapM f with
      | error e => rw [hfa, hl] at h; cases h
      | ok bs1 =>
        rw [hfa, hl] at h
        simp only [bind, Except.bind, pure, Except.pure, Except.ok.injEq] at h
        subst h
        rcases List.mem_cons.mp hb with rfl | hb'
        · exact hf a _ hfa
        · exact ih bs1 hl b hb'

theorem c01_silent_foldl (rs : List ReadResult) (acc : ReadResult) (hacc : c01_silent acc)
    (h : ∀ r ∈ rs, c01_silent r) : c01_silent (rs.foldl ReadResult.concat acc) := by
  induction rs generalizing acc with
  | nil => exact hacc
  | cons r rs ih =>
    simp only [List.foldl_cons]
    exact ih _ (c01_silent_concat hacc (h r List.mem_cons_self)) (fun r' hr' => h r' (List.mem_cons_of_mem _ hr'))

theorem c01_silent_inline (env : REnv) (cs : List XmlNode) (r : ReadResult)
    (h : readInline env cs = .ok r) : c01_silent r := by
  unfold readInline at h
  dsimp only at h
  obtain ⟨rs, hrs, h⟩ := c01_bind_ok h
  simp only [pure, Except.pure, Except.ok.injEq] at h
  rw [← h]
  refine c01_silent_foldl rs {} c01_silent_empty ?_
  exact c01_mapM_all _ c01_silent (fun a b hab => c01_silent_blip env _ _ b hab) _ rs hrs

theorem c01_sym_cp (font : Option Str) (ch : Str) (code : Nat) :
    ((dingbat font code).orElse fun _ =>
      match ch with
      | 'F' :: '0' :: a :: b :: _ =>
        if a = '\n' ∨ b = '\n' then none else (parseHex (ch.drop 2)).bind (dingbat font)
      | _ => none) =
    (match dingbat font code with
      | some c => some c
      | none =>
        match ch with
        | 'F' :: '0' :: a :: b :: _ =>
          if a != '\n' && b != '\n' then (parseHex (ch.drop 2)).bind (dingbat font) else none
        | _ => none) := by
  cases dingbat font code with
  | some c => rfl
  | none =>
    simp only [Option.orElse]
    split
    · rename_i a b tail
      by_cases ha : a = '\n'
      · simp [ha]
      · by_cases hb : b = '\n'
        · simp [hb]
        · simp [ha, hb]
    · rfl

/-- `w:sym`: the reader's element is the character of the specification -/
theorem c01_readSymbol_leaves (as : Attrs) (r : ReadResult) (h : readSymbol as = .ok r) :
    r.extra = [] ∧ r.elements.all c01_atom = true ∧ c01_elemLeavesL r.elements = c01_symLeaf as := by
  unfold readSymbol at h
  unfold c01_symLeaf
  dsimp only at h ⊢
  split at h
  · rename_i hch
    cases h; rw [hch]; exact ⟨rfl, rfl, by simp [rrMsg]⟩
  · rename_i ch hch
    rw [hch]; dsimp only
    split at h
    · cases h
    · rename_i code hcode
      rw [hcode]
      simp only [Option.bind_some]
      split at h
      · rename_i c hc
        cases h
        erw [(c01_sym_cp _ ch code).trans hc]
        exact ⟨rfl, rfl, by simp [rrElems, c01_elemLeaves]⟩
      · rename_i hc
        cases h
        erw [(c01_sym_cp _ ch code).trans hc]
        exact ⟨rfl, rfl, by simp [rrMsg]⟩

end Mammoth
