/-
  C05 — the reader does not invent references: if every reference in the XML read (and in the deferred
  content) resolves (`c05_xrefs`), every reference in the document elements produced resolves
  (`c05_refsOk`), and the deferred content left behind still satisfies `c05_xrefs`.
-/
import Proofs.C05_Refs
import Proofs.C05_FuelEnough
namespace Mammoth

abbrev c05_anyErr : Err → Prop := fun _ => True

/-- the elements and the extra elements of a reader result resolve -/
abbrev c05_Px (R : c05_Refs) : ReadResult → Prop :=
  fun r => c05_refsOkL R r.elements = true ∧ c05_refsOkL R r.extra = true

abbrev c05_Qx (env : REnv) (R : c05_Refs) : ReadResult × RState → Prop :=
  fun p => c05_Px R p.1 ∧ c05_xrefsL env R p.2.deleted = true

theorem c05_Px_empty (R : c05_Refs) : c05_Px R {} := ⟨rfl, rfl⟩

theorem c05_Px_concat (R : c05_Refs) (a b : ReadResult) (ha : c05_Px R a) (hb : c05_Px R b) :
    c05_Px R (a.concat b) := by
  unfold ReadResult.concat
  exact ⟨by rw [c05_refsOkL_append, ha.1, hb.1]; rfl, by rw [c05_refsOkL_append, ha.2, hb.2]; rfl⟩

/-! ### tables: `calculate_row_spans` keeps the cells' children -/

theorem c05_refsOkL_rebuildCells (R : c05_Refs) (sw : Sweep) (r : Nat) (cells : List Elem) (pos : Nat)
    (h : c05_refsOkL R cells = true) : c05_refsOkL R (rebuildCells sw r cells pos) = true := by
  fun_induction rebuildCells sw r cells pos with
  | case1 => rfl
  | case2 colspan rowspan vm cs rest pos hdrop ih =>
    simp only [c05_refsOkL, Bool.and_eq_true] at h
    exact ih h.2
  | case3 colspan rowspan vm cs rest pos hdrop ih =>
    simp only [c05_refsOkL, c05_refsOk, Bool.and_eq_true] at h ⊢
    exact ⟨h.1, ih h.2⟩
  | case4 e rest pos hne ih =>
    simp only [c05_refsOkL, Bool.and_eq_true] at h ⊢
    exact ⟨h.1, ih h.2⟩

theorem c05_refsOkL_rebuildRows (R : c05_Refs) (sw : Sweep) (rows : List Elem) (r : Nat)
    (h : c05_refsOkL R rows = true) : c05_refsOkL R (rebuildRows sw rows r) = true := by
  fun_induction rebuildRows sw rows r with
  | case1 => rfl
  | case2 hd cells rest r ih =>
    simp only [c05_refsOkL, c05_refsOk, Bool.and_eq_true] at h ⊢
    exact ⟨c05_refsOkL_rebuildCells R sw r cells 0 h.1, ih h.2⟩
  | case3 e rest r hne ih =>
    simp only [c05_refsOkL, Bool.and_eq_true] at h ⊢
    exact ⟨h.1, ih h.2⟩

theorem c05_refsOkL_rowSpans (R : c05_Refs) (rows : List Elem) (h : c05_refsOkL R rows = true) :
    c05_refsOkL R (calculateRowSpans rows).1 = true := by
  unfold calculateRowSpans
  split
  · exact h
  · split
    · exact h
    · exact c05_refsOkL_rebuildRows R _ rows 0 h

/-! ### leaf readers -/

theorem c05_readFldChar_rx (R : c05_Refs) (st : RState) (as : Attrs) (cs : List XmlNode) :
    c05_spec c05_anyErr (fun p => c05_Px R p.1 ∧ p.2.deleted = st.deleted) (readFldChar st as cs) := by
  unfold readFldChar
  dsimp only
  repeat' (first
    | exact c05_spec_ok _ ⟨⟨rfl, rfl⟩, rfl⟩
    | exact c05_spec_err _ trivial
    | refine c05_spec_ite _ _ _ (fun _ => ?_) (fun _ => ?_)
    | split)

theorem c05_readSymbol_rx (R : c05_Refs) (as : Attrs) : c05_spec c05_anyErr (c05_Px R) (readSymbol as) := by
  unfold readSymbol
  dsimp only
  repeat' (first
    | exact c05_spec_ok _ ⟨rfl, rfl⟩
    | exact c05_spec_err _ trivial
    | split)

theorem c05_readBreak_px (R : c05_Refs) (as : Attrs) : c05_Px R (readBreak as) := by
  unfold readBreak
  repeat' (first | exact ⟨rfl, rfl⟩ | split)

theorem c05_readImage_px (env : REnv) (R : c05_Refs) (path : Str) (src : ImageSrc) (alt : Option Str)
    (h : c05_refsOk R (.image { altText := alt, contentType := findContentType env.contentTypes path, src := src }) = true) :
    c05_Px R (readImage env path src alt) := by
  have hi : ∀ e, c05_refsOk R e = true → c05_refsOkL R [e] = true :=
    fun e he => by simp only [c05_refsOkL, he, Bool.and_self]
  unfold readImage
  dsimp only
  repeat' split
  all_goals exact ⟨hi _ h, rfl⟩

theorem c05_readEmbeddedImage_rx (env : REnv) (R : c05_Refs) (rid : Str) (alt : Option Str)
    (h : c05_embedOk env R rid = true) : c05_spec c05_anyErr (c05_Px R) (readEmbeddedImage env rid alt) := by
  unfold readEmbeddedImage Rels.targetById
  unfold c05_embedOk at h
  cases hl : lookupLast rid (env.rels.map fun r => (r.id, r.target)) with
  | none => exact c05_spec_err _ trivial
  | some t =>
    rw [hl] at h; dsimp only at h
    exact c05_spec_ok _ (c05_readImage_px env R _ _ alt (by simp only [c05_refsOk]; exact h))

theorem c05_readBlip_rx (env : REnv) (R : c05_Refs) (as : Attrs) (alt : Option Str)
    (h : (match attr? S!"r:embed" as with | some rid => c05_embedOk env R rid | none => true) = true) :
    c05_spec c05_anyErr (c05_Px R) (readBlip env as alt) := by
  unfold readBlip
  split
  · rename_i rid hr; rw [hr] at h; exact c05_readEmbeddedImage_rx env R rid alt h
  · split
    · unfold Rels.targetById
      split
      · exact c05_spec_ok _ (c05_readImage_px env R _ _ alt rfl)
      · exact c05_spec_err _ trivial
    · exact c05_spec_ok _ ⟨rfl, rfl⟩

theorem c05_mapM_all {α β} (f : α → Except Err β) (Q : β → Prop) :
    ∀ (l : List α) (bs : List β), l.mapM f = .ok bs → (∀ a ∈ l, ∀ b, f a = .ok b → Q b) → ∀ b ∈ bs, Q b
  | [], bs, h, _ => by
    simp only [List.mapM_nil, pure, Except.pure] at h
    cases h; intro b hb; cases hb
  | a :: l, bs, h, hq => by
    rw [List.mapM_cons] at h
    cases ha : f a with
    | error e => rw [ha] at h; simp [bind, Except.bind] at h
    | ok b =>
      rw [ha] at h
      cases hl : l.mapM f with
      | error e => rw [hl] at h; simp [bind, Except.bind] at h
      | ok bs' =>
        rw [hl] at h
        simp only [bind, Except.bind, pure, Except.pure] at h
        cases h
        intro b' hb'
        rcases List.mem_cons.mp hb' with rfl | hb'
        · exact hq a List.mem_cons_self _ ha
        · exact c05_mapM_all f Q l bs' hl (fun a' ha' => hq a' (List.mem_cons_of_mem _ ha')) b' hb'

theorem c05_Px_foldl (R : c05_Refs) (rs : List ReadResult) (acc : ReadResult) (hacc : c05_Px R acc)
    (h : ∀ r ∈ rs, c05_Px R r) : c05_Px R (rs.foldl ReadResult.concat acc) := by
  induction rs generalizing acc with
  | nil => exact hacc
  | cons r rs ih =>
    simp only [List.foldl]
    exact ih _ (c05_Px_concat R _ _ hacc (h r List.mem_cons_self)) (fun r' hr' => h r' (List.mem_cons_of_mem _ hr'))

theorem c05_readInline_rx (env : REnv) (R : c05_Refs) (cs : List XmlNode)
    (h : ((c05_blips cs).all fun b =>
      match attr? S!"r:embed" b.1 with | some rid => c05_embedOk env R rid | none => true) = true) :
    c05_spec c05_anyErr (c05_Px R) (readInline env cs) := by
  refine ⟨fun _ _ => trivial, fun r hr => ?_⟩
  unfold readInline at hr
  dsimp only at hr
  rw [List.all_eq_true] at h
  generalize halt : (if !(strip ((attr? S!"descr" (findChildOrNull S!"wp:docPr" cs).1).getD [])).isEmpty
       then attr? S!"descr" (findChildOrNull S!"wp:docPr" cs).1
       else attr? S!"title" (findChildOrNull S!"wp:docPr" cs).1) = alt at hr
  cases hm : (c05_blips cs).mapM (fun (x : Attrs × List XmlNode) => readBlip env x.1 alt) with
  | error e =>
    unfold c05_blips at hm
    rw [hm] at hr; simp [bind, Except.bind] at hr
  | ok rs =>
    have hall := c05_mapM_all _ (c05_Px R) _ rs hm
      (fun b hb r' hr' => (c05_readBlip_rx env R b.1 alt (h b hb)).ok r' hr')
    unfold c05_blips at hm
    rw [hm] at hr
    simp only [bind, Except.bind, pure, Except.pure] at hr
    cases hr
    exact c05_Px_foldl R rs {} (c05_Px_empty R) hall

/-! ### the element reader -/

theorem c05_spec_triv {α} (x : Except Err α) : c05_spec c05_anyErr (fun _ => True) x :=
  ⟨fun _ _ => trivial, fun _ _ => trivial⟩

theorem c05_xrefOk_inline (env : REnv) (R : c05_Refs) (name h : Str) (as : Attrs) (cs : List XmlNode)
    (hh : handlerOf name = some h) (hc : (h == S!"inline") = true) (hel : c05_xrefOk env R name as cs = true) :
    ((c05_blips cs).all fun b =>
      match attr? S!"r:embed" b.1 with | some rid => c05_embedOk env R rid | none => true) = true := by
  have := eq_of_beq hc; subst this
  unfold c05_xrefOk at hel; rw [hh] at hel
  exact hel

theorem c05_xrefOk_imagedata (env : REnv) (R : c05_Refs) (name h : Str) (as : Attrs) (cs : List XmlNode) (rid : Str)
    (hh : handlerOf name = some h) (hc : (h == S!"read_imagedata") = true)
    (hel : c05_xrefOk env R name as cs = true) (hr : attr? S!"r:id" as = some rid) : c05_embedOk env R rid = true := by
  have := eq_of_beq hc; subst this
  unfold c05_xrefOk at hel; rw [hh] at hel
  have : (match attr? S!"r:id" as with | none => true | some rid => c05_embedOk env R rid) = true := hel
  rw [hr] at this; exact this

theorem c05_xrefOk_noteRef (env : REnv) (R : c05_Refs) (name h : Str) (as : Attrs) (cs : List XmlNode) (id : Str)
    (hh : handlerOf name = some h)
    (hc : (h == S!"note_reference:footnote" || h == S!"note_reference:endnote") = true)
    (hel : c05_xrefOk env R name as cs = true) (hr : attr? S!"w:id" as = some id) :
    R.notes.contains (h.drop 15, id) = true := by
  rw [Bool.or_eq_true] at hc
  rcases hc with hc | hc
  · have := eq_of_beq hc; subst this
    unfold c05_xrefOk at hel; rw [hh] at hel
    have : (match attr? S!"w:id" as with
      | none => true | some id => R.notes.contains ((S!"note_reference:footnote").drop 15, id)) = true := hel
    rw [hr] at this; exact this
  · have := eq_of_beq hc; subst this
    unfold c05_xrefOk at hel; rw [hh] at hel
    have : (match attr? S!"w:id" as with
      | none => true | some id => R.notes.contains ((S!"note_reference:endnote").drop 15, id)) = true := hel
    rw [hr] at this; exact this

theorem c05_xrefOk_commentRef (env : REnv) (R : c05_Refs) (name h : Str) (as : Attrs) (cs : List XmlNode) (id : Str)
    (hh : handlerOf name = some h) (hc : (h == S!"read_comment_reference") = true)
    (hn : ¬ (h == S!"note_reference:footnote" || h == S!"note_reference:endnote") = true)
    (hel : c05_xrefOk env R name as cs = true) (hr : attr? S!"w:id" as = some id) :
    R.comments.contains id = true := by
  have := eq_of_beq hc; subst this
  unfold c05_xrefOk at hel; rw [hh] at hel
  have : (match attr? S!"w:id" as with | none => true | some id => R.comments.contains id) = true := hel
  rw [hr] at this; exact this

/-- `elements := [e]` where `e` wraps exactly the elements read -/
theorem c05_Qx_wrap {env : REnv} {R : c05_Refs} {r : ReadResult} {st1 : RState} {e : Elem} {msgs : List Str}
    (h : c05_Qx env R (r, st1)) (he : c05_refsOk R e = c05_refsOkL R r.elements) :
    c05_Qx env R ({ elements := [e], extra := r.extra, messages := msgs }, st1) :=
  ⟨⟨by simp only [c05_refsOkL, he, h.1.1, Bool.and_self], h.1.2⟩, h.2⟩

theorem c05_Qx_run {env : REnv} {R : c05_Refs} {r : ReadResult} {st1 : RState} {props : RunProps}
    {children : List Elem} {msgs : List Str} (h : c05_Qx env R (r, st1))
    (hch : children = r.elements ∨ ∃ kw, children = [.hyperlink kw r.elements]) :
    c05_Qx env R ({ elements := [.run props children], extra := r.extra, messages := msgs }, st1) := by
  refine ⟨⟨?_, h.1.2⟩, h.2⟩
  rcases hch with rfl | ⟨kw, rfl⟩
  · simp only [c05_refsOkL, c05_refsOk, h.1.1, Bool.and_self]
  · simp only [c05_refsOkL, c05_refsOk, h.1.1, Bool.and_self]

theorem c05_Qx_para {env : REnv} {R : c05_Refs} {r : ReadResult} {st1 : RState} {pp : ParaProps}
    {msgs : List Str} (h : c05_Qx env R (r, st1)) :
    c05_Qx env R ({ elements := .paragraph pp r.elements :: r.extra, extra := [], messages := msgs }, st1) :=
  ⟨⟨by simp only [c05_refsOkL, c05_refsOk, h.1.1, h.1.2, Bool.and_self], rfl⟩, h.2⟩

theorem c05_Qx_table {env : REnv} {R : c05_Refs} {r : ReadResult} {st1 : RState} {s1 s2 : Option Str}
    {rows : List Elem} {rmsgs msgs : List Str} (h : c05_Qx env R (r, st1))
    (heq : calculateRowSpans r.elements = (rows, rmsgs)) :
    c05_Qx env R ({ elements := [.table s1 s2 rows], extra := r.extra, messages := msgs }, st1) := by
  have := c05_refsOkL_rowSpans R r.elements h.1.1
  rw [heq] at this
  exact ⟨⟨by simp only [c05_refsOkL, c05_refsOk, this, Bool.and_self], h.1.2⟩, h.2⟩

theorem c05_Qx_table' {env : REnv} {R : c05_Refs} {r : ReadResult} {st1 : RState} {s1 s2 : Option Str}
    {msgs : List Str} (h : c05_Qx env R (r, st1)) :
    c05_Qx env R ({ elements := [.table s1 s2 (calculateRowSpans r.elements).1], extra := r.extra,
                    messages := msgs }, st1) :=
  c05_Qx_table h rfl

theorem c05_Qx_pict {env : REnv} {R : c05_Refs} {r : ReadResult} {st1 : RState} {msgs : List Str}
    (h : c05_Qx env R (r, st1)) :
    c05_Qx env R ({ elements := [], extra := r.extra ++ r.elements, messages := msgs }, st1) :=
  ⟨⟨rfl, by rw [c05_refsOkL_append, h.1.1, h.1.2]; rfl⟩, h.2⟩

theorem c05_Px_ref (R : c05_Refs) (e : Elem) (h : c05_refsOk R e = true) : c05_Px R (rrElems [e]) :=
  ⟨by simp only [rrElems, c05_refsOkL, h, Bool.and_self], rfl⟩

theorem c05_readBody_rx (env : REnv) (R : c05_Refs) (ra : c05_RdAll)
    (ih : ∀ st ns, c05_xrefsL env R ns = true → c05_xrefsL env R st.deleted = true →
      c05_spec c05_anyErr (c05_Qx env R) (ra st ns))
    (st : RState) (name : Str) (as : Attrs) (cs : List XmlNode)
    (hel : c05_xrefOk env R name as cs = true) (hcs : c05_xrefsL env R cs = true)
    (hdel : c05_xrefsL env R st.deleted = true) :
    c05_spec c05_anyErr (c05_Qx env R) (c05_readBody env ra st name as cs) := by
  have hdefer : c05_xrefsL env R (st.deleted ++ cs) = true := by rw [c05_xrefsL_append, hdel, hcs]; rfl
  unfold c05_readBody
  cases hg : handlerOf name with
  | none =>
    dsimp only
    split <;> exact c05_spec_ok _ ⟨⟨rfl, rfl⟩, hdel⟩
  | some g =>
    dsimp only
    repeat' (first
      | with_reducible refine c05_spec_ite _ _ _ (fun _ => ?_) (fun _ => ?_)
      | exact c05_spec_ok _ ⟨⟨rfl, rfl⟩, hdel⟩
      | exact c05_spec_ok _ ⟨⟨rfl, rfl⟩, hdefer⟩
      | exact c05_spec_ok _ ⟨c05_readBreak_px R as, hdel⟩
      | exact c05_spec_err _ trivial
      | exact c05_spec_pure _ (by assumption)
      | exact c05_spec_pure _ (c05_Qx_wrap (by assumption) rfl)
      | exact c05_spec_pure _ (c05_Qx_para (by assumption))
      | exact c05_spec_pure _ (c05_Qx_pict (by assumption))
      | exact c05_spec_pure _ (c05_Qx_table (by assumption) (by assumption))
      | exact c05_spec_pure _ (c05_Qx_table' (by assumption))
      | exact c05_spec_pure _ (c05_Qx_run (by assumption) (by split <;> first | exact Or.inl rfl | exact Or.inr ⟨_, rfl⟩))
      | exact ih _ _ hcs hdel
      | exact ih _ _ (c05_xrefsL_findChild env R _ cs hcs) hdel
      | exact c05_spec_weaken (c05_readFldChar_rx R st as cs)
          (fun a ha => ⟨ha.1, by show c05_xrefsL env R a.2.deleted = true; rw [ha.2]; exact hdel⟩)
      | refine c05_spec_bind (Q := c05_Qx env R) _ _ (ih _ _ hcs hdel) (fun _ _ => ?_)
      | refine c05_spec_bind (Q := c05_Qx env R) _ _ (ih { st with deleted := [] } _ hdefer rfl) (fun _ _ => ?_)
      | exact c05_spec_map _ _ (c05_readSymbol_rx R as) (fun _ h => ⟨h, hdel⟩)
      | exact c05_spec_map _ _ (c05_readInline_rx env R cs
          (c05_xrefOk_inline env R name g as cs hg (by assumption) hel)) (fun _ h => ⟨h, hdel⟩)
      | exact c05_spec_map _ _ (c05_readEmbeddedImage_rx env R _ _
          (c05_xrefOk_imagedata env R name g as cs _ hg (by assumption) hel (by assumption))) (fun _ h => ⟨h, hdel⟩)
      | exact c05_spec_ok _ ⟨c05_Px_ref R _ (by
          simp only [c05_refsOk]
          exact c05_xrefOk_noteRef env R name g as cs _ hg (by assumption) hel (by assumption)), hdel⟩
      | exact c05_spec_ok _ ⟨c05_Px_ref R _ (by
          simp only [c05_refsOk]
          exact c05_xrefOk_commentRef env R name g as cs _ hg (by assumption) (by assumption) hel (by assumption)), hdel⟩
      | refine c05_spec_bind (Q := fun _ => True) _ _ (c05_spec_triv _) (fun _ _ => ?_)
      | split
      | dsimp only)

theorem c05_readAllWith_rx (env : REnv) (R : c05_Refs) (rd : c05_Rd)
    (hrd : ∀ st n, c05_xrefs env R n = true → c05_xrefsL env R st.deleted = true →
      c05_spec c05_anyErr (c05_Qx env R) (rd st n)) :
    ∀ (ns : List XmlNode) (st : RState), c05_xrefsL env R ns = true → c05_xrefsL env R st.deleted = true →
      c05_spec c05_anyErr (c05_Qx env R) (readAllWith rd st ns)
  | [], st, _, hd => by simp only [readAllWith]; exact c05_spec_ok _ ⟨⟨rfl, rfl⟩, hd⟩
  | .text _ :: rest, st, hs, hd => by
    simp only [readAllWith]
    simp only [c05_xrefsL, Bool.and_eq_true] at hs
    exact c05_readAllWith_rx env R rd hrd rest st hs.2 hd
  | .elem n as cs :: rest, st, hs, hd => by
    simp only [readAllWith]
    simp only [c05_xrefsL, Bool.and_eq_true] at hs
    refine c05_spec_bind (Q := c05_Qx env R) _ _ (hrd _ _ hs.1 hd) (fun a ha => ?_)
    refine c05_spec_bind (Q := c05_Qx env R) _ _ (c05_readAllWith_rx env R rd hrd rest _ hs.2 ha.2) (fun b hb => ?_)
    exact c05_spec_pure _ ⟨c05_Px_concat R _ _ ha.1 hb.1, hb.2⟩

theorem c05_readElem_rx (env : REnv) (R : c05_Refs) :
    ∀ (f : Nat) (st : RState) (n : XmlNode), c05_xrefs env R n = true → c05_xrefsL env R st.deleted = true →
      c05_spec c05_anyErr (c05_Qx env R) (readElem env f st n)
  | f, st, .text s, _, hd => by rw [c05_readElem_text]; exact c05_spec_ok _ ⟨⟨rfl, rfl⟩, hd⟩
  | 0, st, .elem name as cs, _, _ => by rw [c05_readElem_zero]; exact c05_spec_err _ trivial
  | f+1, st, .elem name as cs, hs, hd => by
    rw [c05_readElem_succ]
    simp only [c05_xrefs, Bool.and_eq_true] at hs
    exact c05_readBody_rx env R _
      (fun st ns h1 h2 => c05_readAllWith_rx env R _ (c05_readElem_rx env R f) ns st h1 h2)
      st name as cs hs.1 hs.2 hd

/-- reading a list of nodes whose references resolve yields elements whose references resolve -/
theorem c05_readAll_rx (env : REnv) (R : c05_Refs) (fuel : Nat) (st : RState) (ns : List XmlNode)
    (r : ReadResult) (st' : RState) (hs : c05_xrefsL env R ns = true) (hd : c05_xrefsL env R st.deleted = true)
    (h : readAll env fuel st ns = .ok (r, st')) :
    c05_refsOkL R r.elements = true ∧ c05_xrefsL env R st'.deleted = true :=
  have := (c05_readAllWith_rx env R _ (c05_readElem_rx env R fuel) ns st hs hd).ok _ h
  ⟨this.1.1, this.2⟩

end Mammoth
