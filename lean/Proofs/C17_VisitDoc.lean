/-
  C17, converter half — whole documents: body, the notes the body references (in reference order), the
  comments referenced by body and rendered notes.
-/
import Proofs.C17_Visit
namespace Mammoth

/-- the images of a whole document in the order of the output: the visible images of the body, of the
    rendered notes (`c10_docNotes`: those the body references, in reference order), of the rendered
    comments (`c10_docComments`: those referenced by the body and the rendered notes) -/
def c17_docImages (cfg : Cfg) (d : Document) : List ImageProps :=
  c17_visImagesL cfg d.children ++
  (c10_docNotes cfg d).flatMap (fun n => c17_visImagesL cfg n.body) ++
  (c10_docComments cfg d).flatMap (fun c => c17_visImagesL cfg c.body)

theorem c17_imgs_backLink (href : Str) : c17_imgs [backLink href] = [] := by
  simp [backLink, cel, el, c17_imgsN_elem]

theorem c17_H_visitNote (cfg : Cfg) (n : Note) :
    c17_H cfg (visitNote cfg n) (c17_visImagesL cfg n.body) (c10_noteEvs cfg n) := by
  unfold visitNote
  intro st ns st' hr
  have := c17_H_map cfg (visitAll cfg false n.body)
    (fun body => [el S!"li" [(S!"id", referentId cfg n.ty n.id)]
        (body ++ [backLink (['#'] ++ referenceId cfg n.ty n.id)])]) _ _ (c17_H_visitAll cfg false n.body)
    (fun _ ns => by rw [c17_imgs_el _ _ _ (by decide), c17_imgs_append, c17_imgs_backLink, List.append_nil])
    st ns st' hr
  obtain ⟨p0, p1, p2, p3⟩ := this
  refine ⟨p0, p1, ?_, ?_⟩
  · rw [p2]; simp [c10_noteEvs, c10_evRefs, c10_evRefs_append]
  · rw [p3]; simp [c10_noteEvs, c10_evComments, c10_evCRefs, c10_evCRefs_append]

theorem c17_H_visitComment (cfg : Cfg) (lc : Str × Comment) :
    c17_H cfg (visitComment cfg lc) (c17_visImagesL cfg lc.2.body) (c10_commentEvs cfg lc.2) := by
  unfold visitComment
  intro st ns st' hr
  have := c17_H_map cfg (visitAll cfg false lc.2.body)
    (fun body => [el S!"dt" [(S!"id", referentId cfg S!"comment" lc.2.id)] [.text (S!"Comment " ++ lc.1)],
        el S!"dd" [] (body ++ [backLink (['#'] ++ referenceId cfg S!"comment" lc.2.id)])]) _ _
    (c17_H_visitAll cfg false lc.2.body)
    (fun _ ns => by
      have e : ∀ (a b : Node), c17_imgs [a, b] = c17_imgs [a] ++ c17_imgs [b] := by
        intro a b; rw [← c17_imgs_append]; rfl
      rw [e, c17_imgs_el _ _ _ (by decide), c17_imgs_el _ _ _ (by decide), c17_imgs_append, c17_imgs_backLink]
      simp)
    st ns st' hr
  obtain ⟨p0, p1, p2, p3⟩ := this
  refine ⟨p0, p1, ?_, ?_⟩
  · rw [p2]; simp [c10_commentEvs, c10_evRefs, c10_evRefs_append]
  · rw [p3]; simp [c10_commentEvs, c10_evComments, c10_evCRefs, c10_evCRefs_append]

theorem c17_H_mapMConcat {α} (cfg : Cfg) (f : α → ConvM (List Node)) (gi : α → List ImageProps)
    (g : α → List c10_Ev) (h : ∀ x, c17_H cfg (f x) (gi x) (g x)) :
    ∀ xs : List α, c17_H cfg (mapMConcat f xs) (xs.flatMap gi) (xs.flatMap g)
  | [] => by rw [mapMConcat]; exact c17_H_nil _ _ (fun _ => rfl)
  | x :: xs => by
    rw [mapMConcat, List.flatMap_cons, List.flatMap_cons]
    exact c17_H_seq cfg _ _ _ _ _ _ (h x) (c17_H_mapMConcat cfg f gi g h xs)

/-- the whole run of `visitDocument` from state `st` -/
theorem c17_visitDocument_post (cfg : Cfg) (d : Document) (st st' : ConvState)
    (ns : List Node) (h : (visitDocument cfg d).run st = .ok (ns, st')) :
    ∃ (notes : List Note) (comments : List Comment),
      (st.noteRefs ++ c10_evRefs (c10_evsL cfg d.children)).mapM (resolveNote d.notes) = .ok notes ∧
      comments = st.refComments.map Prod.snd ++
        c10_evComments cfg (c10_evsL cfg d.children ++ notes.flatMap (c10_noteEvs cfg)) ∧
      c17_Post cfg st
        (c17_visImagesL cfg d.children ++ notes.flatMap (fun n => c17_visImagesL cfg n.body) ++
          comments.flatMap (fun c => c17_visImagesL cfg c.body))
        (c10_evsL cfg d.children ++ notes.flatMap (c10_noteEvs cfg) ++ comments.flatMap (c10_commentEvs cfg))
        ns st' := by
  unfold visitDocument at h
  simp only [c10_run_bind, c10_run_get] at h
  split at h
  · rename_i nodes st1 h1
    have p1 := c17_H_visitAll cfg false d.children st nodes st1 h1
    cases hmap : st1.noteRefs.mapM (resolveNote d.notes) with
    | error e => simp only [hmap, c10_run_bind, c10_run_throw] at h; cases h
    | ok notes =>
      simp only [hmap, c10_run_bind, c10_run_pure, c10_run_get] at h
      split at h
      · rename_i noteNodes st2 h2
        have p2 := c17_H_mapMConcat cfg (visitNote cfg) (fun n => c17_visImagesL cfg n.body) (c10_noteEvs cfg)
          (c17_H_visitNote cfg) notes st1 noteNodes st2 h2
        split at h
        · rename_i commentNodes st3 h3
          have p3 := c17_H_mapMConcat cfg (visitComment cfg) (fun lc => c17_visImagesL cfg lc.2.body)
            (fun lc => c10_commentEvs cfg lc.2) (c17_H_visitComment cfg) st2.refComments st2 commentNodes st3 h3
          cases h
          have p12 := c17_Post_seq cfg st st1 st2 _ _ _ _ _ _ p1 p2
          have p123 := c17_Post_seq cfg st st2 st' _ _ _ _ _ _ p12 p3
          refine ⟨notes, st2.refComments.map Prod.snd, ?_, ?_, ?_⟩
          · rw [← p1.2.2.1]; exact hmap
          · exact p12.2.2.2
          · have e : (st2.refComments.map Prod.snd).flatMap (c10_commentEvs cfg) =
                st2.refComments.flatMap (fun lc => c10_commentEvs cfg lc.2) := by
              rw [List.flatMap_map]
            have e' : (st2.refComments.map Prod.snd).flatMap (fun c => c17_visImagesL cfg c.body) =
                st2.refComments.flatMap (fun lc => c17_visImagesL cfg lc.2.body) := by
              rw [List.flatMap_map]
            rw [e, e']
            obtain ⟨q0, q1, q2, q3⟩ := p123
            refine ⟨q0, fun hm => ?_, q2, q3⟩
            rw [← q1 hm]
            simp only [c17_imgs_append]
            have e2 : c17_imgs [el S!"ol" [] noteNodes, el S!"dl" [] commentNodes] =
                c17_imgs [el S!"ol" [] noteNodes] ++ c17_imgs [el S!"dl" [] commentNodes] := by
              rw [← c17_imgs_append]; rfl
            rw [e2, c17_imgs_el _ _ _ (by decide), c17_imgs_el _ _ _ (by decide), List.append_assoc]
        · cases h
      · cases h
  · cases h

/-- MAIN CHARACTERISATION, whole documents: the calls (every configuration) and, when no style mapping
    produces an element named `img`, the `img` elements of the forest. -/
theorem c17_convertDoc_images (cfg : Cfg) (d : Document) (r : ConvResult)
    (h : convertDoc cfg d = .ok r) :
    r.imageCalls = c17_docImages (c10_docCfg cfg d) d ∧
    (c17_noImgMap cfg = true →
      c17_imgs r.nodes = (c17_docImages (c10_docCfg cfg d) d).flatMap (c17_imgOf cfg)) := by
  unfold convertDoc at h
  split at h
  · rename_i nodes st hv
    cases h
    obtain ⟨notes, comments, hn, hcm, hp⟩ :=
      c17_visitDocument_post (c10_docCfg cfg d) d {} st nodes hv
    simp only [List.nil_append, List.map_nil] at hn hcm
    have en : c10_docNotes (c10_docCfg cfg d) d = notes := c10_mapM_resolve d _ _ hn
    have ee : c17_docImages (c10_docCfg cfg d) d =
        c17_visImagesL (c10_docCfg cfg d) d.children ++
          notes.flatMap (fun n => c17_visImagesL (c10_docCfg cfg d) n.body) ++
          comments.flatMap (fun c => c17_visImagesL (c10_docCfg cfg d) c.body) := by
      unfold c17_docImages c10_docComments c10_docEvents01
      rw [en, hcm]
    rw [← ee] at hp
    obtain ⟨q0, q1, _, _⟩ := hp
    refine ⟨by simpa using q0, fun hm => ?_⟩
    rw [q1 hm]
    rfl
  · cases h

end Mammoth
