/-
  Stability of collapsed forests and idempotence of `collapse`.
-/
import Proofs.Collapse
namespace Mammoth

/-- would `b` be merged into `a` if `a` were the last sibling? -/
def mergeable (a b : Node) : Bool :=
  match a, b with
  | .elem lt _, .elem t _ => t.collapsible && isMatch lt t
  | _, _ => false

mutual
def stable : Node → Bool
  | .elem _ cs => stableL cs
  | _ => true
/-- all nodes stable and no adjacent pair mergeable -/
def stableL : List Node → Bool
  | [] => true
  | c :: cs => stable c && headOk c cs && stableL cs
/-- the first of `cs` (if any) cannot merge into `c` -/
def headOk (c : Node) : List Node → Bool
  | [] => true
  | d :: _ => !mergeable c d
end

theorem addC_of_not_mergeable (acc : List Node) (n : Node)
    (h : ∀ l, acc.getLast? = some l → mergeable l n = false) : addC acc n = acc ++ [n] := by
  match n with
  | .text s => exact addC_text acc s
  | .forceWrite => exact addC_fw acc
  | .elem t cs =>
    unfold addC
    split
    · rename_i lt lcs hl
      have := h _ hl
      simp only [mergeable] at this
      simp [this]
    · rfl

theorem stableL_append_single (xs : List Node) (y : Node) :
    stableL (xs ++ [y]) = (stableL xs && stable y &&
      (match xs.getLast? with | some l => !mergeable l y | none => true)) := by
  induction xs with
  | nil => simp [stableL, headOk]
  | cons a as ih =>
    cases as with
    | nil => simp [stableL, headOk, Bool.and_comm, Bool.and_assoc, Bool.and_left_comm]
    | cons b bs =>
      have e1 : ∀ c cs, stableL (c :: cs) = (stable c && headOk c cs && stableL cs) := by
        intro c cs; simp [stableL]
      have lhs : stableL ((a :: b :: bs) ++ [y]) = (stable a && !mergeable a b && stableL ((b :: bs) ++ [y])) := by
        rw [List.cons_append, e1]; simp [headOk]
      have rhs1 : stableL (a :: b :: bs) = (stable a && !mergeable a b && stableL (b :: bs)) := by
        rw [e1]; simp [headOk]
      rw [lhs, ih, rhs1, List.getLast?_cons_cons]
      simp only [Bool.and_assoc]

theorem mergeable_congr_left (lt : Tag) (a b : List Node) (n : Node) :
    mergeable (.elem lt a) n = mergeable (.elem lt b) n := by
  cases n <;> simp [mergeable]

theorem mergeable_congr_right (l : Node) (t : Tag) (a b : List Node) :
    mergeable l (.elem t a) = mergeable l (.elem t b) := by
  cases l <;> simp [mergeable]

theorem stableL_replace_last (init : List Node) (lt : Tag) (a b : List Node)
    (h : stableL (init ++ [.elem lt a]) = true) (hb : stableL b = true) :
    stableL (init ++ [.elem lt b]) = true := by
  rw [stableL_append_single] at h ⊢
  simp only [Bool.and_eq_true] at h ⊢
  refine ⟨⟨h.1.1, by simpa [stable] using hb⟩, ?_⟩
  cases hl : init.getLast? with
  | none => simp
  | some l =>
    have := h.2
    rw [hl] at this
    simp only at this ⊢
    rw [mergeable_congr_right l lt b a]
    exact this

theorem getLast?_append_single {α} (xs : List α) (y : α) : (xs ++ [y]).getLast? = some y := by
  simp

mutual
theorem stableL_addC (acc : List Node) (n : Node) (ha : stableL acc = true) (hn : stable n = true) :
    stableL (addC acc n) = true := by
  match n with
  | .text s =>
    rw [addC_text, stableL_append_single]
    cases acc.getLast? <;> simp [ha, stable, mergeable]
  | .forceWrite =>
    rw [addC_fw, stableL_append_single]
    cases acc.getLast? <;> simp [ha, stable, mergeable]
  | .elem t cs =>
    have hcs : stableL cs = true := by simpa [stable] using hn
    unfold addC
    split
    · rename_i lt lcs hl
      split
      · rename_i hcond
        have hacc := getLast?_eq_some_append acc _ hl
        rw [hacc] at ha
        have hlcs : stableL lcs = true := by
          rw [stableL_append_single] at ha
          simp only [Bool.and_eq_true] at ha
          simpa [stable] using ha.1.2
        have hsep : stableL (lcs ++ sepText t) = true := by
          unfold sepText
          split
          · split
            · simpa using hlcs
            · rw [stableL_append_single]
              cases lcs.getLast? <;> simp [hlcs, stable]
              · rename_i l; cases l <;> simp [mergeable]
          · simpa using hlcs
        exact stableL_replace_last _ lt lcs _ ha (stableL_addAllC _ cs hsep hcs)
      · rename_i hcond
        rw [stableL_append_single, hl]
        simp only [Bool.not_eq_true] at hcond
        simp [ha, hn, mergeable, hcond]
    · rename_i hno
      rw [stableL_append_single]
      cases hl : acc.getLast? with
      | none => simp [ha, hn]
      | some l =>
        cases l with
        | elem lt lcs => exact absurd hl (hno lt lcs)
        | text s => simp [ha, hn, mergeable]
        | forceWrite => simp [ha, hn, mergeable]
theorem stableL_addAllC (acc ns : List Node) (ha : stableL acc = true) (h : stableL ns = true) :
    stableL (addAllC acc ns) = true := by
  match ns with
  | [] => simpa using ha
  | c :: cs =>
    have h' := h
    simp only [stableL, Bool.and_eq_true] at h'
    simp only [addAllC_cons]
    exact stableL_addAllC _ cs (stableL_addC acc c ha h'.1.1) h'.2
end

mutual
theorem stable_collapseNode (n : Node) : stable (collapseNode n) = true := by
  match n with
  | .text s => simp [collapseNode, stable]
  | .forceWrite => simp [collapseNode, stable]
  | .elem t cs =>
    simp only [collapseNode, stable]
    exact stableL_collapseFrom [] cs (by simp [stableL])
theorem stableL_collapseFrom (acc ns : List Node) (ha : stableL acc = true) :
    stableL (collapseFrom acc ns) = true := by
  match ns with
  | [] => simpa [collapseFrom] using ha
  | c :: cs =>
    unfold collapseFrom
    exact stableL_collapseFrom _ cs (stableL_addC acc _ ha (stable_collapseNode c))
end

theorem stable_collapse (ns : List Node) : stableL (collapse ns) = true :=
  stableL_collapseFrom [] ns (by simp [stableL])

theorem stableL_cons_eq (c : Node) (cs : List Node) :
    stableL (c :: cs) = (stable c && headOk c cs && stableL cs) := by simp [stableL]

theorem stableL_append_split : ∀ (xs ys : List Node), stableL (xs ++ ys) = true →
    stableL xs = true ∧ stableL ys = true ∧
      (∀ l y, xs.getLast? = some l → ys.head? = some y → mergeable l y = false)
  | [], ys, h => by simpa [stableL] using h
  | [a], ys, h => by
    have h' : stableL (a :: ys) = true := h
    rw [stableL_cons_eq] at h'
    simp only [Bool.and_eq_true] at h'
    refine ⟨by simp [stableL, headOk, h'.1.1], h'.2, ?_⟩
    intro l y hl hy
    simp at hl
    subst hl
    cases ys with
    | nil => simp at hy
    | cons d ds =>
      simp at hy; subst hy
      simpa [headOk] using h'.1.2
  | a :: b :: rest, ys, h => by
    have h' : stableL (a :: ((b :: rest) ++ ys)) = true := h
    rw [stableL_cons_eq] at h'
    simp only [Bool.and_eq_true] at h'
    have ih := stableL_append_split (b :: rest) ys h'.2
    refine ⟨?_, ih.2.1, ?_⟩
    · rw [stableL_cons_eq]
      simp only [Bool.and_eq_true]
      exact ⟨⟨h'.1.1, by simpa [headOk] using h'.1.2⟩, ih.1⟩
    · intro l y hl hy
      rw [List.getLast?_cons_cons] at hl
      exact ih.2.2 l y hl hy

/-! ### a stable forest is a fixed point -/
mutual
theorem collapseNode_of_stable (n : Node) (h : stable n = true) : collapseNode n = n := by
  match n with
  | .text s => simp [collapseNode]
  | .forceWrite => simp [collapseNode]
  | .elem t cs =>
    have hcs : stableL cs = true := by simpa [stable] using h
    simp only [collapseNode]
    have := collapseFrom_of_stable [] cs (by simpa using hcs)
    simpa using congrArg (Node.elem t) this
theorem collapseFrom_of_stable (acc ns : List Node) (h : stableL (acc ++ ns) = true) :
    collapseFrom acc ns = acc ++ ns := by
  match ns with
  | [] => simp [collapseFrom]
  | c :: cs =>
    unfold collapseFrom
    have h1 : acc ++ c :: cs = (acc ++ [c]) ++ cs := by simp
    have hc : stable c = true ∧ (∀ l, acc.getLast? = some l → mergeable l c = false) := by
      have sp := stableL_append_split acc (c :: cs) h
      have hcs := sp.2.1
      rw [stableL_cons_eq] at hcs
      simp only [Bool.and_eq_true] at hcs
      exact ⟨hcs.1.1, fun l hl => sp.2.2 l c hl (by simp)⟩
    rw [collapseNode_of_stable c hc.1, addC_of_not_mergeable acc c hc.2, h1]
    exact collapseFrom_of_stable (acc ++ [c]) cs (by rw [← h1]; exact h)
end

theorem collapse_of_stable (ns : List Node) (h : stableL ns = true) : collapse ns = ns := by
  simpa [collapse] using collapseFrom_of_stable [] ns (by simpa using h)

theorem collapse_idem (ns : List Node) : collapse (collapse ns) = collapse ns :=
  collapse_of_stable _ (stable_collapse ns)

end Mammoth
