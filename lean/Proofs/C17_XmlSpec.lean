/-
  C17, reader half — the specification.

  `c17_xmlImages env b n` says, by recursion on the XML tree (element names, never handler names, no
  reader state, no fuel), which images a piece of `word/document.xml` carries and in which order.

    * `wp:inline` / `wp:anchor` (DrawingML): one image for every `a:blip` reached from it along
      `a:graphic / a:graphicData / pic:pic / pic:blipFill / a:blip` (depth first, document order) that has
      an `r:embed` attribute (the part named by that relationship) or else an `r:link` attribute (the
      linked target); all of them carry the alt text of the drawing: the `descr` attribute of its
      `wp:docPr` when that is not blank, else its `title` attribute;
    * `v:imagedata` (VML) with an `r:id`: the part named by that relationship, alt text = attribute `o:title`;
    * the source of an embedded image is the zip entry named by the LAST relationship with that id
      (`/x` ↦ `x`, `x` ↦ `word/x`); the content type is `c17_contentTypeSpec` of that entry name (of the
      target itself for a linked image): override, else default by extension, else built-in table;
      an id without relationship gives no image (the reader fails there);
    * read-through containers (`w:r`, `w:ins`, `w:smartTag`, `w:hyperlink`, `w:tbl`, `w:tr`, `w:tc`,
      `w:object`, `w:drawing`, the VML shapes, `w:txbxContent`) → their children, in order;
      `mc:AlternateContent` → the children of its first `mc:Fallback`;
      `w:sdt` → the children of its first `w:sdtContent` (nothing for a check-box control);
    * `w:pict` → nothing in line; its content goes to the *extra* channel;
    * `w:p` → its in-line images followed by the extra images of its content (text boxes come after
      their host paragraph); a paragraph whose mark is a tracked deletion emits nothing: its content is
      deferred (buffer `b`, exactly as in `c01_xmlLiveD`) to the next paragraph opened in reading order;
    * everything else (`w:del`, `w:t`, `w:pPr`, …, unknown elements, text nodes) → nothing.

  `c17_storyImages env ns` is the resulting list for a story (children of `w:body`, of a note, …).
-/
import MammothModel.Reader
import Proofs.C17_Images
import Proofs.C01_XmlDefer
namespace Mammoth

/-- images in line, and images waiting to be placed after the enclosing paragraph (text boxes) -/
structure c17_Imgs where
  inline : List ImageProps := []
  extra : List ImageProps := []
deriving DecidableEq, Repr, Inhabited

def c17_Imgs.append (a b : c17_Imgs) : c17_Imgs := ⟨a.inline ++ b.inline, a.extra ++ b.extra⟩

/-- what an element name means for the images -/
inductive c17_Kind where
  | skip | drawing | imagedata | through | paragraph | pict | alt | sdt
deriving DecidableEq, Repr, Inhabited

def c17_kinds : List (Str × c17_Kind) := [
  (S!"wp:inline", .drawing), (S!"wp:anchor", .drawing), (S!"v:imagedata", .imagedata),
  (S!"w:p", .paragraph), (S!"w:pict", .pict), (S!"mc:AlternateContent", .alt), (S!"w:sdt", .sdt),
  (S!"w:r", .through), (S!"w:ins", .through), (S!"w:smartTag", .through), (S!"w:hyperlink", .through),
  (S!"w:tbl", .through), (S!"w:tr", .through), (S!"w:tc", .through),
  (S!"w:object", .through), (S!"w:drawing", .through), (S!"v:group", .through), (S!"v:rect", .through),
  (S!"v:roundrect", .through), (S!"v:shape", .through), (S!"v:textbox", .through), (S!"w:txbxContent", .through)]

def c17_kindIn : List (Str × c17_Kind) → Str → c17_Kind
  | [], _ => .skip
  | (k, v) :: rest, name => if name = k then v else c17_kindIn rest name

/-- every name that is not listed is skipped -/
def c17_kindOf (name : Str) : c17_Kind := c17_kindIn c17_kinds name

/-! ### one image -/

/-- the target of the LAST relationship with this id -/
def c17_relTarget : Rels → Str → Option Str
  | [], _ => none
  | r :: rest, id => (c17_relTarget rest id).or (if r.id = id then some r.target else none)

/-- the zip entry a relationship target of the main document part names: absolute targets lose their
    leading `/`, relative ones are taken from `word/` -/
def c17_partName : Str → Str
  | '/' :: rest => rest
  | target => S!"word/" ++ target

/-- the image with this source and alt text, typed by the package's declaration for `path` -/
def c17_image (env : REnv) (path : Str) (src : ImageSrc) (alt : Option Str) : ImageProps :=
  { altText := alt, contentType := c17_contentTypeSpec env.contentTypes path, src := src }

def c17_embedded (env : REnv) (rid : Str) (alt : Option Str) : List ImageProps :=
  match c17_relTarget env.rels rid with
  | some t => [c17_image env (c17_partName t) (.embedded (c17_partName t)) alt]
  | none => []

def c17_linked (env : REnv) (rid : Str) (alt : Option Str) : List ImageProps :=
  match c17_relTarget env.rels rid with
  | some t => [c17_image env t (.linked t) alt]
  | none => []

/-- an `a:blip`: embedded if it has `r:embed`, else linked if it has `r:link`, else no image -/
def c17_blip (env : REnv) (as : Attrs) (alt : Option Str) : List ImageProps :=
  match attr? S!"r:embed" as with
  | some rid => c17_embedded env rid alt
  | none =>
    match attr? S!"r:link" as with
    | some rid => c17_linked env rid alt
    | none => []

/-- only white space (Python's `str.isspace` characters), or empty -/
def c17_isBlank (s : Str) : Bool := s.all isSpace

/-- the alt text of a drawing, from the attributes of its `wp:docPr` -/
def c17_altText (docPr : Attrs) : Option Str :=
  match attr? S!"descr" docPr with
  | some d => if c17_isBlank d then attr? S!"title" docPr else some d
  | none => attr? S!"title" docPr

/-- the attributes of the elements reached by following the child names of `path`, depth first -/
def c17_descend : List Str → List XmlNode → List Attrs
  | [], _ => []
  | [n], cs => (findChildren n cs).map (·.1)
  | n :: m :: rest, cs => (findChildren n cs).flatMap fun p => c17_descend (m :: rest) p.2

def c17_blipPath : List Str :=
  [S!"a:graphic", S!"a:graphicData", S!"pic:pic", S!"pic:blipFill", S!"a:blip"]

/-- the images of a `wp:inline` / `wp:anchor` with children `cs` -/
def c17_drawing (env : REnv) (cs : List XmlNode) : List ImageProps :=
  (c17_descend c17_blipPath cs).flatMap fun as =>
    c17_blip env as (c17_altText (findChildOrNull S!"wp:docPr" cs).1)

/-- the image of a `v:imagedata` with attributes `as` -/
def c17_imagedata (env : REnv) (as : Attrs) : List ImageProps :=
  match attr? S!"r:id" as with
  | some rid => c17_embedded env rid (attr? S!"o:title" as)
  | none => []

/-! ### the traversal, with the buffer of deferred images (levels as in `c01_Buf`) -/

abbrev c17_Buf := List c17_Imgs

def c17_bufHead (b : c17_Buf) : c17_Imgs := b.headD {}
def c17_bufTail (b : c17_Buf) : c17_Buf := b.tail

/-- a buffer with `l` at level 0 and `b` below; nothing deferred at all is the empty buffer -/
def c17_bufCons (l : c17_Imgs) (b : c17_Buf) : c17_Buf :=
  if l.inline = [] ∧ l.extra = [] ∧ b = [] then [] else l :: b

/-- images produced here, and the buffer afterwards -/
structure c17_ImgsD where
  live : c17_Imgs := {}
  buf : c17_Buf := []
deriving DecidableEq, Repr, Inhabited

mutual
def c17_xmlImages (env : REnv) (b : c17_Buf) : XmlNode → c17_ImgsD
  | .text _ => ⟨{}, b⟩
  | .elem name as cs =>
    match c17_kindOf name with
    | .skip => ⟨{}, b⟩
    | .drawing => ⟨⟨c17_drawing env cs, []⟩, b⟩
    | .imagedata => ⟨⟨c17_imagedata env as, []⟩, b⟩
    | .through => c17_xmlImagesL env b cs
    | .paragraph =>
      if c01_delMark cs then
        ⟨{}, c17_bufCons ((c17_bufHead b).append (c17_xmlImagesL env (c17_bufTail b) cs).live)
               (c17_xmlImagesL env (c17_bufTail b) cs).buf⟩
      else
        ⟨⟨((c17_bufHead b).append (c17_xmlImagesL env (c17_bufTail b) cs).live).inline ++
            ((c17_bufHead b).append (c17_xmlImagesL env (c17_bufTail b) cs).live).extra, []⟩,
          (c17_xmlImagesL env (c17_bufTail b) cs).buf⟩
    | .pict =>
      ⟨⟨[], (c17_xmlImagesL env b cs).live.extra ++ (c17_xmlImagesL env b cs).live.inline⟩,
        (c17_xmlImagesL env b cs).buf⟩
    | .alt => c17_xmlImagesIn env S!"mc:Fallback" b cs
    | .sdt => if c01_isCheckboxSdt cs then ⟨{}, b⟩ else c17_xmlImagesIn env S!"w:sdtContent" b cs
def c17_xmlImagesL (env : REnv) (b : c17_Buf) : List XmlNode → c17_ImgsD
  | [] => ⟨{}, b⟩
  | c :: cs =>
    ⟨(c17_xmlImages env b c).live.append (c17_xmlImagesL env (c17_xmlImages env b c).buf cs).live,
     (c17_xmlImagesL env (c17_xmlImages env b c).buf cs).buf⟩
/-- the content of the first child element called `child` -/
def c17_xmlImagesIn (env : REnv) (child : Str) (b : c17_Buf) : List XmlNode → c17_ImgsD
  | [] => ⟨{}, b⟩
  | .text _ :: rest => c17_xmlImagesIn env child b rest
  | .elem n _ cs :: rest => if n = child then c17_xmlImagesL env b cs else c17_xmlImagesIn env child b rest
end

/-- the images of a story, in reading order: those of the elements the reader returns -/
def c17_storyImages (env : REnv) (ns : List XmlNode) : List ImageProps :=
  (c17_xmlImagesL env [] ns).live.inline

/-- the images of top-level text boxes of a story (the reader's `extra` result, dropped for the body) -/
def c17_storyExtra (env : REnv) (ns : List XmlNode) : List ImageProps :=
  (c17_xmlImagesL env [] ns).live.extra

/-- the buffer that stands for XML nodes held back by the reader -/
def c17_pend (env : REnv) (ds : List XmlNode) : c17_Buf :=
  c17_bufCons (c17_xmlImagesL env [] ds).live (c17_xmlImagesL env [] ds).buf

/-! ### the same without deferral (documents without deleted paragraph marks) -/

mutual
def c17_xmlImagesPlain (env : REnv) : XmlNode → c17_Imgs
  | .text _ => {}
  | .elem name as cs =>
    match c17_kindOf name with
    | .skip => {}
    | .drawing => ⟨c17_drawing env cs, []⟩
    | .imagedata => ⟨c17_imagedata env as, []⟩
    | .through => c17_xmlImagesPlainL env cs
    | .paragraph => ⟨(c17_xmlImagesPlainL env cs).inline ++ (c17_xmlImagesPlainL env cs).extra, []⟩
    | .pict => ⟨[], (c17_xmlImagesPlainL env cs).extra ++ (c17_xmlImagesPlainL env cs).inline⟩
    | .alt => c17_xmlImagesPlainIn env S!"mc:Fallback" cs
    | .sdt => if c01_isCheckboxSdt cs then {} else c17_xmlImagesPlainIn env S!"w:sdtContent" cs
def c17_xmlImagesPlainL (env : REnv) : List XmlNode → c17_Imgs
  | [] => {}
  | c :: cs => (c17_xmlImagesPlain env c).append (c17_xmlImagesPlainL env cs)
def c17_xmlImagesPlainIn (env : REnv) (child : Str) : List XmlNode → c17_Imgs
  | [] => {}
  | .text _ :: rest => c17_xmlImagesPlainIn env child rest
  | .elem n _ cs :: rest => if n = child then c17_xmlImagesPlainL env cs else c17_xmlImagesPlainIn env child rest
end

/-! ### basic equations -/

@[simp] theorem c17_Imgs_append_empty_left (l : c17_Imgs) : c17_Imgs.append {} l = l := by
  cases l; simp [c17_Imgs.append]
@[simp] theorem c17_Imgs_append_empty_right (l : c17_Imgs) : c17_Imgs.append l {} = l := by
  cases l; simp [c17_Imgs.append]
theorem c17_Imgs_append_assoc (a b c : c17_Imgs) : (a.append b).append c = a.append (b.append c) := by
  simp [c17_Imgs.append, List.append_assoc]
@[simp] theorem c17_Imgs_append_inline (a b : c17_Imgs) : (a.append b).inline = a.inline ++ b.inline := rfl
@[simp] theorem c17_Imgs_append_extra (a b : c17_Imgs) : (a.append b).extra = a.extra ++ b.extra := rfl

theorem c17_bufHead_cons (l : c17_Imgs) (b : c17_Buf) : c17_bufHead (c17_bufCons l b) = l := by
  unfold c17_bufCons
  split
  · rename_i h
    cases l
    simp only at h
    simp [c17_bufHead, h.1, h.2.1]
  · rfl

theorem c17_bufTail_cons (l : c17_Imgs) (b : c17_Buf) : c17_bufTail (c17_bufCons l b) = b := by
  unfold c17_bufCons
  split
  · rename_i h; simp [c17_bufTail, h.2.2]
  · rfl

@[simp] theorem c17_bufHead_nil : c17_bufHead [] = {} := rfl
@[simp] theorem c17_bufTail_nil : c17_bufTail [] = [] := rfl

@[simp] theorem c17_xmlImagesL_nil (env : REnv) (b : c17_Buf) : c17_xmlImagesL env b [] = ⟨{}, b⟩ := by
  simp [c17_xmlImagesL]
theorem c17_xmlImagesL_cons (env : REnv) (b : c17_Buf) (c : XmlNode) (cs : List XmlNode) :
    c17_xmlImagesL env b (c :: cs) =
      ⟨(c17_xmlImages env b c).live.append (c17_xmlImagesL env (c17_xmlImages env b c).buf cs).live,
       (c17_xmlImagesL env (c17_xmlImages env b c).buf cs).buf⟩ := by simp [c17_xmlImagesL]
@[simp] theorem c17_xmlImages_text (env : REnv) (b : c17_Buf) (s : Str) :
    c17_xmlImages env b (.text s) = ⟨{}, b⟩ := by simp [c17_xmlImages]

@[simp] theorem c17_pend_nil (env : REnv) : c17_pend env [] = [] := by simp [c17_pend, c17_bufCons]

/-- traversal of a concatenation: the second part starts with the buffer the first part leaves -/
theorem c17_xmlImagesL_append (env : REnv) (b : c17_Buf) (xs ys : List XmlNode) :
    c17_xmlImagesL env b (xs ++ ys) =
      ⟨(c17_xmlImagesL env b xs).live.append (c17_xmlImagesL env (c17_xmlImagesL env b xs).buf ys).live,
       (c17_xmlImagesL env (c17_xmlImagesL env b xs).buf ys).buf⟩ := by
  induction xs generalizing b with
  | nil => simp
  | cons x xs ih => simp [c17_xmlImagesL_cons, ih, c17_Imgs_append_assoc]

theorem c17_xmlImagesIn_eq (env : REnv) (child : Str) (b : c17_Buf) (cs : List XmlNode) :
    c17_xmlImagesIn env child b cs = c17_xmlImagesL env b (findChildOrNull child cs).2 := by
  unfold findChildOrNull
  induction cs with
  | nil => simp [c17_xmlImagesIn, findChild]
  | cons c cs ih =>
    cases c with
    | text s => simp only [c17_xmlImagesIn, findChild]; exact ih
    | elem n as ccs =>
      simp only [c17_xmlImagesIn, findChild]
      by_cases hn : n = child
      · simp [hn]
      · have : (n == child) = false := by simpa using hn
        simp only [hn, if_false, this]; exact ih

/-- a paragraph that opens with the nodes `ds` held back: traversing `ds ++ cs` from the empty buffer is
    taking level 0 of `c17_pend ds` and traversing `cs` with the deeper levels -/
theorem c17_pend_key (env : REnv) (ds cs : List XmlNode) :
    (c17_xmlImagesL env [] (ds ++ cs)).live =
        (c17_bufHead (c17_pend env ds)).append (c17_xmlImagesL env (c17_bufTail (c17_pend env ds)) cs).live ∧
    (c17_xmlImagesL env [] (ds ++ cs)).buf = (c17_xmlImagesL env (c17_bufTail (c17_pend env ds)) cs).buf := by
  rw [c17_xmlImagesL_append]
  unfold c17_pend
  rw [c17_bufHead_cons, c17_bufTail_cons]
  exact ⟨rfl, rfl⟩

@[simp] theorem c17_xmlImagesPlainL_nil (env : REnv) : c17_xmlImagesPlainL env [] = {} := by
  simp [c17_xmlImagesPlainL]
@[simp] theorem c17_xmlImagesPlainL_cons (env : REnv) (c : XmlNode) (cs : List XmlNode) :
    c17_xmlImagesPlainL env (c :: cs) = (c17_xmlImagesPlain env c).append (c17_xmlImagesPlainL env cs) := by
  simp [c17_xmlImagesPlainL]

/-! ### equations of the specification, by kind -/

section
variable {name : Str} (env : REnv) (b : c17_Buf) (as : Attrs) (cs : List XmlNode)

theorem c17_xmlImages_skip (h : c17_kindOf name = .skip) :
    c17_xmlImages env b (.elem name as cs) = ⟨{}, b⟩ := by simp [c17_xmlImages, h]
theorem c17_xmlImages_drawing (h : c17_kindOf name = .drawing) :
    c17_xmlImages env b (.elem name as cs) = ⟨⟨c17_drawing env cs, []⟩, b⟩ := by simp [c17_xmlImages, h]
theorem c17_xmlImages_imagedata (h : c17_kindOf name = .imagedata) :
    c17_xmlImages env b (.elem name as cs) = ⟨⟨c17_imagedata env as, []⟩, b⟩ := by simp [c17_xmlImages, h]
theorem c17_xmlImages_through (h : c17_kindOf name = .through) :
    c17_xmlImages env b (.elem name as cs) = c17_xmlImagesL env b cs := by simp [c17_xmlImages, h]
theorem c17_xmlImages_paragraph (h : c17_kindOf name = .paragraph) :
    c17_xmlImages env b (.elem name as cs) =
      if c01_delMark cs then
        ⟨{}, c17_bufCons ((c17_bufHead b).append (c17_xmlImagesL env (c17_bufTail b) cs).live)
               (c17_xmlImagesL env (c17_bufTail b) cs).buf⟩
      else
        ⟨⟨((c17_bufHead b).append (c17_xmlImagesL env (c17_bufTail b) cs).live).inline ++
            ((c17_bufHead b).append (c17_xmlImagesL env (c17_bufTail b) cs).live).extra, []⟩,
          (c17_xmlImagesL env (c17_bufTail b) cs).buf⟩ := by
  simp [c17_xmlImages, h]
theorem c17_xmlImages_pict (h : c17_kindOf name = .pict) :
    c17_xmlImages env b (.elem name as cs) =
      ⟨⟨[], (c17_xmlImagesL env b cs).live.extra ++ (c17_xmlImagesL env b cs).live.inline⟩,
        (c17_xmlImagesL env b cs).buf⟩ := by
  simp [c17_xmlImages, h]
theorem c17_xmlImages_alt (h : c17_kindOf name = .alt) :
    c17_xmlImages env b (.elem name as cs) = c17_xmlImagesL env b (findChildOrNull S!"mc:Fallback" cs).2 := by
  simp [c17_xmlImages, h, c17_xmlImagesIn_eq]
theorem c17_xmlImages_sdt (h : c17_kindOf name = .sdt) :
    c17_xmlImages env b (.elem name as cs) =
      if c01_isCheckboxSdt cs then ⟨{}, b⟩ else c17_xmlImagesL env b (findChildOrNull S!"w:sdtContent" cs).2 := by
  simp [c17_xmlImages, h, c17_xmlImagesIn_eq]
end

end Mammoth
