/-
  C18 — exact behaviour of `openImage` / `convertImage` on linked images.
-/
import Proofs.C18_Io
namespace Mammoth

/-- the warning text of `Files.open` when the open itself fails -/
def c18_openMsg (uri : Str) (dir : Str) : Str :=
  S!"could not open external image: '" ++ uri ++ S!"' (document directory: '" ++ dir ++ S!"')"

/-- the warning text of `Files.open` for a relative uri when the input has no file name -/
def c18_noNameMsg (uri : Str) : Str :=
  S!"could not find external image '" ++ uri ++ S!"', fileobj has no name"

theorem c18_openImage_noname (cfg : Cfg) (uri : Str) (st : ConvState)
    (habs : isAbsoluteUri uri = false) (hb : cfg.base = none) :
    (openImage cfg (.linked uri)).run st = .ok (.error (c18_noNameMsg uri), st) := by
  simp only [openImage, habs, hb]
  rfl

theorem c18_openImage_abs (cfg : Cfg) (uri : Str) (st : ConvState)
    (habs : isAbsoluteUri uri = true) :
    (openImage cfg (.linked uri)).run st =
      .ok ((match cfg.world uri with
            | some b => .ok b
            | none => .error (c18_openMsg uri (pyOpt cfg.base))),
           { st with ioTrace := st.ioTrace ++ [.urlopen uri] }) := by
  simp only [openImage, habs]
  cases cfg.world uri <;> rfl

theorem c18_openImage_rel (cfg : Cfg) (uri b : Str) (st : ConvState)
    (habs : isAbsoluteUri uri = false) (hb : cfg.base = some b) :
    (openImage cfg (.linked uri)).run st =
      .ok ((match cfg.world (osPathJoin b uri) with
            | some bs => .ok bs
            | none => .error (c18_openMsg uri b)),
           { st with ioTrace := st.ioTrace ++ [.openFile (osPathJoin b uri)] }) := by
  simp only [openImage, habs, hb]
  cases cfg.world (osPathJoin b uri) <;> rfl

/-- when the image converter opens the image and the open yields a warning text, `convertImage`
    records the call, emits that warning and produces no node -/
theorem c18_convertImage_warn (cfg : Cfg) (i : ImageProps) (st s : ConvState) (msg : Str)
    (ho : c18_opens cfg = true)
    (h : (openImage cfg i.src).run { st with imageCalls := st.imageCalls ++ [i] }
          = .ok (.error msg, s)) :
    (convertImage cfg i).run st = .ok ([], { s with messages := s.messages ++ [msg] }) := by
  unfold convertImage
  rw [StateT.run_bind, StateT.run_modify]
  unfold c18_opens at ho
  split at ho
  · rename_i hc
    simp only [hc, pure_bind]
    show (openImage cfg i.src >>= _).run _ = _
    rw [StateT.run_bind, h]
    rfl
  · rename_i attrs opens hc
    subst ho
    simp only [hc, pure_bind, if_true]
    show (openImage cfg i.src >>= _).run _ = _
    rw [StateT.run_bind, h]
    rfl

theorem c18_openImage_linked_ok (cfg : Cfg) (uri : Str) (st : ConvState) :
    ∃ r, (openImage cfg (.linked uri)).run st = .ok r := by
  cases habs : isAbsoluteUri uri with
  | true => exact ⟨_, c18_openImage_abs cfg uri st habs⟩
  | false =>
    cases hb : cfg.base with
    | none => exact ⟨_, c18_openImage_noname cfg uri st habs hb⟩
    | some b => exact ⟨_, c18_openImage_rel cfg uri b st habs hb⟩

theorem c18_convertImage_ok_of_open (cfg : Cfg) (i : ImageProps) (st : ConvState)
    (h : ∀ s, ∃ r, (openImage cfg i.src).run s = .ok r) :
    ∃ r, (convertImage cfg i).run st = .ok r := by
  unfold convertImage
  rw [StateT.run_bind, StateT.run_modify]
  simp only [pure_bind]
  obtain ⟨⟨x, s⟩, hx⟩ := h { st with imageCalls := st.imageCalls ++ [i] }
  cases hc : cfg.imageConv with
  | dataUri =>
    simp only []
    show ∃ r, (openImage cfg i.src >>= _).run _ = _
    rw [StateT.run_bind, hx]
    cases x <;> exact ⟨_, rfl⟩
  | fixed attrs opens =>
    cases opens with
    | false => exact ⟨_, rfl⟩
    | true =>
      simp only [if_true]
      show ∃ r, (openImage cfg i.src >>= _).run _ = _
      rw [StateT.run_bind, hx]
      cases x <;> exact ⟨_, rfl⟩

end Mammoth
