/-
  C09, from the XML — validity of a grid, its document grid and what `calculate_row_spans` makes of it do not depend
  on the contents of the cells; so they can be stated on the grid read off the XML alone (`c09x_xmlGrid`).
-/
import Proofs.C09_Xml
import Proofs.C09_DocGrid
import Proofs.C05_Fuel
namespace Mammoth

abbrev c09x_stripRow (row : c09_Row) : c09_Row := row.map c09x_strip
abbrev c09x_stripGrid (rows : List c09_Row) : List c09_Row := rows.map c09x_stripRow

theorem c09x_strip_isCont (c : c09_Cell) : (c09x_strip c).isCont = c.isCont := rfl

theorem c09x_findStart_strip (row : c09_Row) : ∀ (ci s : Nat),
    c09_findStart (c09x_stripRow row) ci s = (c09_findStart row ci s).map c09x_strip := by
  induction row with
  | nil => intro ci s; rfl
  | cons c cs ih =>
    intro ci s
    simp only [c09x_stripRow, List.map_cons, c09_findStart]
    by_cases h : ci = s
    · simp [h]
    · simp only [h, if_false]; exact ih _ s

theorem c09x_rowOkFrom_strip (prev row : c09_Row) : ∀ ci : Nat,
    c09_rowOkFrom (c09x_stripRow prev) (c09x_stripRow row) ci = c09_rowOkFrom prev row ci := by
  induction row with
  | nil => intro ci; rfl
  | cons c cs ih =>
    intro ci
    simp only [c09x_stripRow, List.map_cons, c09_rowOkFrom]
    have := c09x_findStart_strip prev 0 ci
    simp only [c09x_stripRow] at this ih
    rw [this, ih]
    cases c09_findStart prev 0 ci <;> rfl

theorem c09x_width_strip (row : c09_Row) : c09_width (c09x_stripRow row) = c09_width row := by
  induction row with
  | nil => rfl
  | cons c cs ih => simp only [c09x_stripRow, List.map_cons, c09_width] at ih ⊢; rw [ih]; rfl

theorem c09x_validFrom_strip (rows : List c09_Row) : ∀ prev : c09_Row,
    c09_validFrom (c09x_stripRow prev) (c09x_stripGrid rows) = c09_validFrom prev rows := by
  induction rows with
  | nil => intro prev; rfl
  | cons row rest ih =>
    intro prev
    simp only [c09x_stripGrid, List.map_cons, c09_validFrom]
    rw [c09x_rowOkFrom_strip]
    have := ih row
    simp only [c09x_stripGrid] at this
    rw [this]

theorem c09x_validGrid_strip (rows : List c09_Row) : c09_validGrid (c09x_stripGrid rows) = c09_validGrid rows := by
  unfold c09_validGrid
  have h1 := c09x_validFrom_strip rows []
  simp only [c09x_stripRow, List.map_nil] at h1
  rw [h1]
  cases rows with
  | nil => rfl
  | cons r rs =>
    simp only [c09x_stripGrid, List.map_cons, List.all_map]
    congr 1
    apply List.all_congr rfl
    intro r'
    simp only [Function.comp, c09x_width_strip]

theorem c09x_cellAt_strip (row : c09_Row) : ∀ (ci i x : Nat),
    c09_cellAt (c09x_stripRow row) ci i x = (c09_cellAt row ci i x).map fun p => (p.1, p.2.1, c09x_strip p.2.2) := by
  induction row with
  | nil => intro ci i x; rfl
  | cons c cs ih =>
    intro ci i x
    simp only [c09x_stripRow, List.map_cons, c09_cellAt]
    by_cases h : x < ci + c.span
    · have : x < ci + (c09x_strip c).span := h
      simp [h, this]
    · have : ¬ x < ci + (c09x_strip c).span := h
      simp only [h, this, if_false, c09x_strip_isCont]
      exact ih _ _ x

theorem c09x_docRow_strip (prevOwn : Nat → Option c09_Id) (y : Nat) (row : c09_Row) :
    c09_docRow prevOwn y (c09x_stripRow row) = c09_docRow prevOwn y row := by
  funext x
  simp only [c09_docRow, c09x_cellAt_strip]
  cases c09_cellAt row 0 0 x with
  | none => rfl
  | some p => obtain ⟨a, i, c⟩ := p; rfl

theorem c09x_docRows_strip (rows : List c09_Row) : ∀ (prevOwn : Nat → Option c09_Id) (y : Nat),
    c09_docRows prevOwn y (c09x_stripGrid rows) = c09_docRows prevOwn y rows := by
  induction rows with
  | nil => intro _ _; rfl
  | cons row rest ih =>
    intro prevOwn y
    simp only [c09x_stripGrid, List.map_cons, c09_docRows, c09x_docRow_strip]
    have := ih (c09_docRow prevOwn y row) (y + 1)
    simp only [c09x_stripGrid] at this
    rw [this]

theorem c09x_docGrid_strip (rows : List c09_Row) (y x : Nat) :
    c09_docGrid (c09x_stripGrid rows) y x = c09_docGrid rows y x := by
  unfold c09_docGrid; rw [c09x_docRows_strip]

/-! ### the rows that `calculate_row_spans` returns on a valid grid are rows of cells -/

theorem c09x_expectedCells_cells (below : List c09_Row) (row : c09_Row) : ∀ ci : Nat,
    (c09_expectedCells below row ci).all isCell = true := by
  induction row with
  | nil => intro ci; rfl
  | cons c cs ih =>
    intro ci
    simp only [c09_expectedCells]
    split
    · exact ih _
    · simp only [List.all_cons, isCell, Bool.true_and]; exact ih _

theorem c09x_expected_rows (hdr : Nat → Bool) (rows : List c09_Row) : ∀ r : Nat,
    (c09_expectedFrom hdr r rows).all (fun e => isRow e && (rowCells e).all isCell) = true := by
  induction rows with
  | nil => intro r; rfl
  | cons row rest ih =>
    intro r
    simp only [c09_expectedFrom, List.all_cons, isRow, rowCells, Bool.true_and, Bool.and_eq_true]
    exact ⟨c09x_expectedCells_cells rest row 0, ih _⟩

/-! ### reading a table whose XML grid is valid -/

/-- If the structured reading of the rows of a table succeeds, the grid it reads is, cell contents apart, the grid read
    off the XML; so on a valid XML grid the table that the reader returns has exactly the expected rows. -/
theorem c09x_read_valid (env : REnv) (f : Nat) (st : RState) (cs : List XmlNode)
    (p : c09x_Res (List (Bool × c09_Row)))
    (hvalid : c09_validGrid (c09x_xmlGrid cs) = true)
    (hread : c09x_readRows env f st cs = .ok p) :
    c09x_stripGrid (p.1.1.map (·.2)) = c09x_xmlGrid cs ∧
    p.1.1.map (·.1) = c09x_xmlHdr cs ∧
    c09_validGrid (p.1.1.map (·.2)) = true ∧
    c09x_tableResult env cs p =
      ({ elements := [.table (c09x_tblStyle env cs).1.1 (c09x_tblStyle env cs).1.2
                        (c09_expected (c09x_hdrFn (c09x_xmlHdr cs)) (p.1.1.map (·.2)))],
         extra := p.1.2.1, messages := (c09x_tblStyle env cs).2 ++ p.1.2.2 }, p.2) := by
  obtain ⟨hg, hh⟩ := c09x_readRows_grid env f cs st p hread
  have hg' : c09x_stripGrid (p.1.1.map (·.2)) = c09x_xmlGrid cs := by
    rw [← hg]; simp [c09x_stripGrid, c09x_stripRow, List.map_map, Function.comp]
  have hv : c09_validGrid (p.1.1.map (·.2)) = true := by
    rw [← c09x_validGrid_strip, hg']; exact hvalid
  refine ⟨hg', hh, hv, ?_⟩
  have hv' : c09_validFrom [] (p.1.1.map (·.2)) = true := by
    simp only [c09_validGrid, Bool.and_eq_true] at hv; exact hv.1
  simp only [c09x_tableResult, hh, c09_rowspans_spec_from _ _ hv', List.append_nil]

end Mammoth
