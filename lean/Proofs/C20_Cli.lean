/-
  C20 helpers: decimal numerals, the image writer's counter, path functions, stderr lines.
-/
import MammothModel.Cli
namespace Mammoth

/-! ### decimal numerals -/

theorem c20_natToStr_eq (n : Nat) : natToStr n = Nat.toDigits 10 n := by
  simp [natToStr]

theorem c20_natToStr_digit (n : Nat) (c : Char) (h : c ∈ natToStr n) : c.isDigit = true := by
  rw [c20_natToStr_eq] at h
  exact Nat.isDigit_of_mem_toDigits (by decide) (by decide) h

theorem c20_natToStr_no_dot (n : Nat) : '.' ∉ natToStr n := by
  intro h; have := c20_natToStr_digit n '.' h; revert this; decide

theorem c20_natToStr_no_slash (n : Nat) : '/' ∉ natToStr n := by
  intro h; have := c20_natToStr_digit n '/' h; revert this; decide

theorem c20_natToStr_ne_nil (n : Nat) : natToStr n ≠ [] := by
  rw [c20_natToStr_eq]; exact Nat.toDigits_ne_nil

theorem c20_natToStr_inj (n m : Nat) (h : natToStr n = natToStr m) : n = m := by
  rw [c20_natToStr_eq, c20_natToStr_eq] at h
  have := congrArg (fun l => Nat.ofDigitChars 10 l 0) h
  simpa [Nat.ofDigitChars_ten_toDigits] using this

/-- a separator-free prefix is determined by the whole -/
theorem c20_prefix_inj (c : Char) (a b x y : Str) (ha : c ∉ a) (hb : c ∉ b)
    (h : a ++ c :: x = b ++ c :: y) : a = b ∧ x = y := by
  induction a generalizing b with
  | nil =>
    cases b with
    | nil => simp at h; exact ⟨rfl, h⟩
    | cons d b =>
      simp only [List.nil_append, List.cons_append, List.cons.injEq] at h
      exact absurd (h.1 ▸ List.mem_cons_self ..) hb
  | cons d a ih =>
    cases b with
    | nil =>
      simp only [List.nil_append, List.cons_append, List.cons.injEq] at h
      exact absurd (h.1 ▸ List.mem_cons_self ..) ha
    | cons e b =>
      simp only [List.cons_append, List.cons.injEq] at h
      obtain ⟨r1, r2⟩ := ih b (fun hh => ha (List.mem_cons_of_mem _ hh))
        (fun hh => hb (List.mem_cons_of_mem _ hh)) h.2
      exact ⟨by rw [h.1, r1], r2⟩

/-- the image file name `"{n}.{subtype}"` -/
def c20_imageName (n : Nat) (contentType : Str) : Str :=
  natToStr n ++ ['.'] ++ imageSubtype contentType

theorem c20_imageName_inj (n m : Nat) (c1 c2 : Str) (h : c20_imageName n c1 = c20_imageName m c2) :
    n = m := by
  simp only [c20_imageName, List.append_assoc, List.cons_append, List.nil_append] at h
  exact c20_natToStr_inj n m
    (c20_prefix_inj '.' _ _ _ _ (c20_natToStr_no_dot n) (c20_natToStr_no_dot m) h).1

theorem c20_imageName_not_abs (n : Nat) (ct : Str) : startsWith (c20_imageName n ct) ['/'] = false := by
  have hne := c20_natToStr_ne_nil n
  have hs := c20_natToStr_no_slash n
  unfold c20_imageName
  cases hd : natToStr n with
  | nil => exact absurd hd hne
  | cons d ds =>
    have : d ≠ '/' := fun e => hs (by rw [hd, e]; exact List.mem_cons_self ..)
    simp [startsWith, this]

theorem c20_posixJoin_inj (dir a b : Str) (ha : startsWith a ['/'] = false)
    (hb : startsWith b ['/'] = false) (h : posixJoin dir a = posixJoin dir b) : a = b := by
  unfold posixJoin at h
  simp only [ha, hb, Bool.false_eq_true, if_false] at h
  split at h
  · exact List.append_cancel_left h
  · exact List.append_cancel_left h

/-! ### the image writer -/

theorem c20_step (n : Nat) (ct : Str) (b : Bytes) :
    imageWriterStep n ct b = (c20_imageName n ct, n + 1) := rfl

theorem c20_run_cons (dir : Str) (n : Nat) (ct : Str) (b : Bytes) (rest : List (Str × Bytes)) :
    imageWriterRun dir n ((ct, b) :: rest) =
      ((posixJoin dir (c20_imageName n ct), b) :: (imageWriterRun dir (n + 1) rest).1,
       c20_imageName n ct :: (imageWriterRun dir (n + 1) rest).2.1,
       (imageWriterRun dir (n + 1) rest).2.2) := rfl

/-- counter invariant: after the run the counter has advanced by the number of images -/
theorem c20_run_counter (dir : Str) (n : Nat) (imgs : List (Str × Bytes)) :
    (imageWriterRun dir n imgs).2.2 = n + imgs.length := by
  induction imgs generalizing n with
  | nil => rfl
  | cons i rest ih =>
    obtain ⟨ct, b⟩ := i
    rw [c20_run_cons]; simp only [ih, List.length_cons]; omega

theorem c20_run_lengths (dir : Str) (n : Nat) (imgs : List (Str × Bytes)) :
    (imageWriterRun dir n imgs).1.length = imgs.length ∧
    (imageWriterRun dir n imgs).2.1.length = imgs.length := by
  induction imgs generalizing n with
  | nil => exact ⟨rfl, rfl⟩
  | cons i rest ih =>
    obtain ⟨ct, b⟩ := i
    rw [c20_run_cons]; simp [ih]

/-- the image at (0-based) position `k` is written under number `n + k` with exactly its bytes -/
theorem c20_run_get (dir : Str) (n : Nat) (imgs : List (Str × Bytes)) (k : Nat) (ct : Str)
    (b : Bytes) (h : imgs[k]? = some (ct, b)) :
    (imageWriterRun dir n imgs).1[k]? = some (posixJoin dir (c20_imageName (n + k) ct), b) ∧
    (imageWriterRun dir n imgs).2.1[k]? = some (c20_imageName (n + k) ct) := by
  induction imgs generalizing n k with
  | nil => simp at h
  | cons i rest ih =>
    obtain ⟨ct0, b0⟩ := i
    rw [c20_run_cons]
    cases k with
    | zero =>
      simp only [List.getElem?_cons_zero, Option.some.injEq, Prod.mk.injEq] at h
      obtain ⟨rfl, rfl⟩ := h
      simp
    | succ k =>
      simp only [List.getElem?_cons_succ] at h
      have := ih (n + 1) k h
      have e : n + 1 + k = n + (k + 1) := by omega
      rw [e] at this
      simpa using this

/-- every name produced by a run started at `n` carries a number `≥ n` -/
theorem c20_run_srcs_mem (dir : Str) (n : Nat) (imgs : List (Str × Bytes)) (s : Str)
    (h : s ∈ (imageWriterRun dir n imgs).2.1) : ∃ m ct, n ≤ m ∧ s = c20_imageName m ct := by
  induction imgs generalizing n with
  | nil => simp [imageWriterRun] at h
  | cons i rest ih =>
    obtain ⟨ct0, b0⟩ := i
    rw [c20_run_cons] at h
    rcases List.mem_cons.mp h with rfl | h
    · exact ⟨n, ct0, Nat.le_refl _, rfl⟩
    · obtain ⟨m, ct, hm, e⟩ := ih (n + 1) h
      exact ⟨m, ct, by omega, e⟩

theorem c20_run_srcs_nodup (dir : Str) (n : Nat) (imgs : List (Str × Bytes)) :
    (imageWriterRun dir n imgs).2.1.Nodup := by
  induction imgs generalizing n with
  | nil => simp [imageWriterRun]
  | cons i rest ih =>
    obtain ⟨ct0, b0⟩ := i
    rw [c20_run_cons]
    simp only [List.nodup_cons]
    refine ⟨?_, ih (n + 1)⟩
    intro h
    obtain ⟨m, ct, hm, e⟩ := c20_run_srcs_mem dir (n + 1) rest _ h
    have := c20_imageName_inj n m ct0 ct e
    omega

theorem c20_run_files_eq (dir : Str) (n : Nat) (imgs : List (Str × Bytes)) :
    (imageWriterRun dir n imgs).1.map (·.1) = (imageWriterRun dir n imgs).2.1.map (posixJoin dir) ∧
    (imageWriterRun dir n imgs).1.map (·.2) = imgs.map (·.2) := by
  induction imgs generalizing n with
  | nil => exact ⟨rfl, rfl⟩
  | cons i rest ih =>
    obtain ⟨ct0, b0⟩ := i
    rw [c20_run_cons]; simp [ih (n + 1)]

theorem c20_nodup_map_on {α β} (f : α → β) (l : List α)
    (hinj : ∀ a ∈ l, ∀ b ∈ l, f a = f b → a = b) (h : l.Nodup) : (l.map f).Nodup := by
  induction l with
  | nil => simp
  | cons x xs ih =>
    simp only [List.map_cons, List.nodup_cons] at h ⊢
    refine ⟨?_, ih (fun a ha b hb => hinj a (List.mem_cons_of_mem _ ha) b (List.mem_cons_of_mem _ hb)) h.2⟩
    intro hm
    obtain ⟨y, hy, e⟩ := List.mem_map.mp hm
    have := hinj y (List.mem_cons_of_mem _ hy) x (List.mem_cons_self ..) e
    exact h.1 (this ▸ hy)

theorem c20_run_paths_nodup (dir : Str) (n : Nat) (imgs : List (Str × Bytes)) :
    ((imageWriterRun dir n imgs).1.map (·.1)).Nodup := by
  rw [(c20_run_files_eq dir n imgs).1]
  refine c20_nodup_map_on _ _ ?_ (c20_run_srcs_nodup dir n imgs)
  intro a ha b hb hab
  obtain ⟨m1, c1, _, rfl⟩ := c20_run_srcs_mem dir n imgs a ha
  obtain ⟨m2, c2, _, rfl⟩ := c20_run_srcs_mem dir n imgs b hb
  exact c20_posixJoin_inj dir _ _ (c20_imageName_not_abs m1 c1) (c20_imageName_not_abs m2 c2) hab

/-! ### images without content type / that cannot be opened -/

/-- all images have a content type and open -/
def c20_lift (imgs : List (Str × Bytes)) : List (Option Str × Option Bytes) :=
  imgs.map fun i => (some i.1, some i.2)

/-- the images that open, with their content types (`none` if some content type is missing) -/
def c20_opened : List (Option Str × Option Bytes) → List (Str × Bytes)
  | [] => []
  | (some ct, some b) :: rest => (ct, b) :: c20_opened rest
  | _ :: rest => c20_opened rest

/-- every image has a content type -/
def c20_typed (imgs : List (Option Str × Option Bytes)) : Bool := imgs.all (·.1.isSome)

theorem c20_runO_lift (dir : Str) (n : Nat) (imgs : List (Str × Bytes)) :
    imageWriterRunO dir n (c20_lift imgs) =
      ((imageWriterRun dir n imgs).1, (imageWriterRun dir n imgs).2.1,
       (imageWriterRun dir n imgs).2.2, false) := by
  induction imgs generalizing n with
  | nil => rfl
  | cons i rest ih =>
    obtain ⟨ct, b⟩ := i
    simp only [c20_lift, List.map_cons] at ih ⊢
    rw [imageWriterRunO, c20_run_cons, c20_step]
    simp only []
    rw [ih (n + 1)]

/-- with all content types known: the `src`s and the counter are those of a run over the images
    that could be opened; every file written is one of that run or an empty file left by a failed
    open; and all files of that run are written, in order -/
theorem c20_runO_typed (dir : Str) (n : Nat) (imgs : List (Option Str × Option Bytes))
    (h : c20_typed imgs = true) :
    (imageWriterRunO dir n imgs).2.1 = (imageWriterRun dir n (c20_opened imgs)).2.1 ∧
    (imageWriterRunO dir n imgs).2.2.1 = n + (c20_opened imgs).length ∧
    (imageWriterRunO dir n imgs).2.2.2 = false ∧
    (∀ f ∈ (imageWriterRunO dir n imgs).1,
        f ∈ (imageWriterRun dir n (c20_opened imgs)).1 ∨ f.2 = []) ∧
    (imageWriterRun dir n (c20_opened imgs)).1.Sublist (imageWriterRunO dir n imgs).1 := by
  induction imgs generalizing n with
  | nil => simp [imageWriterRunO, imageWriterRun, c20_opened]
  | cons i rest ih =>
    have hr : c20_typed rest = true := by
      simp only [c20_typed, List.all_cons, Bool.and_eq_true] at h; exact h.2
    obtain ⟨ct, b⟩ := i
    cases ct with
    | none => simp [c20_typed] at h
    | some ct =>
      cases b with
      | none =>
        obtain ⟨i1, i2, i3, i4, i5⟩ := ih n hr
        rw [imageWriterRunO]
        simp only [c20_opened]
        refine ⟨i1, i2, i3, ?_, i5.cons _⟩
        intro f hf
        rcases List.mem_cons.mp hf with rfl | hf
        · exact Or.inr rfl
        · exact i4 f hf
      | some b =>
        obtain ⟨i1, i2, i3, i4, i5⟩ := ih (n + 1) hr
        rw [imageWriterRunO, c20_step]
        simp only [c20_opened]
        rw [c20_run_cons]
        refine ⟨by simp only []; rw [i1], by simp only [List.length_cons]; rw [i2]; omega, i3, ?_,
          i5.cons_cons _⟩
        intro f hf
        rcases List.mem_cons.mp hf with rfl | hf
        · exact Or.inl (List.mem_cons_self ..)
        · rcases i4 f hf with h1 | h1
          · exact Or.inl (List.mem_cons_of_mem _ h1)
          · exact Or.inr h1

/-- an image without content type crashes the writer -/
theorem c20_runO_crash (dir : Str) (n : Nat) (imgs : List (Option Str × Option Bytes))
    (h : c20_typed imgs = false) : (imageWriterRunO dir n imgs).2.2.2 = true := by
  induction imgs generalizing n with
  | nil => simp [c20_typed] at h
  | cons i rest ih =>
    obtain ⟨ct, b⟩ := i
    cases ct with
    | none => rfl
    | some ct =>
      have hr : c20_typed rest = false := by
        simp only [c20_typed, List.all_cons] at h ⊢; simpa using h
      cases b with
      | none => rw [imageWriterRunO]; exact ih n hr
      | some b => rw [imageWriterRunO]; exact ih _ hr

/-! ### stderr -/

theorem c20_splitOnChar_ne_nil (sep : Char) (s : Str) : splitOnChar sep s ≠ [] := by
  cases s with
  | nil => simp [splitOnChar]
  | cons c cs =>
    unfold splitOnChar
    cases splitOnChar sep cs with
    | nil => simp
    | cons p ps => by_cases h : (c == sep) = true <;> simp [h]

theorem c20_splitOnChar_line (sep : Char) (m rest : Str) (h : sep ∉ m) :
    splitOnChar sep (m ++ sep :: rest) = m :: splitOnChar sep rest := by
  induction m with
  | nil =>
    simp only [List.nil_append]
    conv => lhs; unfold splitOnChar
    cases hs : splitOnChar sep rest with
    | nil => exact absurd hs (c20_splitOnChar_ne_nil sep rest)
    | cons p ps => simp
  | cons c m ih =>
    have hc : (c == sep) = false := by
      simp only [beq_eq_false_iff_ne, ne_eq]; intro e; exact h (e ▸ List.mem_cons_self ..)
    have ih' := ih (fun hh => h (List.mem_cons_of_mem _ hh))
    simp only [List.cons_append]
    conv => lhs; unfold splitOnChar
    rw [ih']
    simp [hc]

theorem c20_stderr_lines (ms : List Str) (h : ∀ m ∈ ms, '\n' ∉ m) :
    splitOnChar '\n' (stderrTextOf ms) = ms ++ [[]] := by
  induction ms with
  | nil => simp [stderrTextOf, splitOnChar]
  | cons m ms ih =>
    simp only [stderrTextOf, List.append_assoc, List.cons_append, List.nil_append]
    rw [c20_splitOnChar_line '\n' m _ (h m (List.mem_cons_self ..)),
      ih (fun x hx => h x (List.mem_cons_of_mem _ hx))]

/-! ### `basename`, `splitext` -/

theorem c20_rfindNext_absent (c : Char) (s : Str) (h : c ∉ s) : rfindNext c s = 0 := by
  induction s with
  | nil => rfl
  | cons x xs ih =>
    have hx : (x == c) = false := by
      simp only [beq_eq_false_iff_ne, ne_eq]; intro e; exact h (e ▸ List.mem_cons_self ..)
    simp [rfindNext, ih (fun hh => h (List.mem_cons_of_mem _ hh)), hx]

theorem c20_rfindNext_last (c : Char) (a b : Str) (h : c ∉ b) :
    rfindNext c (a ++ c :: b) = a.length + 1 := by
  induction a with
  | nil => simp [rfindNext, c20_rfindNext_absent c b h]
  | cons x xs ih => simp [rfindNext, ih]

theorem c20_rfindNext_le (c : Char) (s : Str) : rfindNext c s ≤ s.length := by
  induction s with
  | nil => simp [rfindNext]
  | cons x xs ih =>
    simp only [rfindNext, List.length_cons]
    split
    · omega
    · split <;> omega

theorem c20_basename_no_sep (p : Str) : '/' ∉ basename p := by
  unfold basename
  induction p with
  | nil => simp [rfindNext]
  | cons x xs ih =>
    simp only [rfindNext]
    by_cases hr : rfindNext '/' xs ≠ 0
    · rw [if_pos hr]; simpa using ih
    · rw [if_neg hr]
      have hr0 : rfindNext '/' xs = 0 := by omega
      rw [hr0] at ih
      simp only [List.drop_zero] at ih
      by_cases hx : (x == '/') = true
      · rw [if_pos hx]; simpa using ih
      · rw [if_neg hx]
        simp only [List.drop_zero, List.mem_cons, not_or]
        refine ⟨?_, ih⟩
        intro e; apply hx; rw [← e]; rfl

/-- `basename` is a suffix of the path: `path = dirpart ++ basename path` -/
theorem c20_basename_suffix (p : Str) : p.take (rfindNext '/' p) ++ basename p = p :=
  List.take_append_drop _ _

theorem c20_splitext_concat (p : Str) : (splitext p).1 ++ (splitext p).2 = p := by
  unfold splitext
  simp only []
  split
  · split
    · exact List.take_append_drop _ _
    · simp
  · simp

/-- no dot in a slash-free name: no extension -/
theorem c20_splitext_nodot (p : Str) (hd : '.' ∉ p) : splitext p = (p, []) := by
  unfold splitext
  simp [c20_rfindNext_absent '.' p hd]

/-- `stem.ext` with a real stem (some character other than a dot) -/
theorem c20_splitext_ext (stem ext : Str) (hs : '/' ∉ stem) (he : '/' ∉ ext) (hd : '.' ∉ ext)
    (hstem : stem.any (· != '.') = true) :
    splitext (stem ++ '.' :: ext) = (stem, '.' :: ext) := by
  have h1 : rfindNext '/' (stem ++ '.' :: ext) = 0 := by
    apply c20_rfindNext_absent
    simp only [List.mem_append, List.mem_cons, not_or]
    exact ⟨hs, by decide, he⟩
  have h2 := c20_rfindNext_last '.' stem ext hd
  unfold splitext
  simp only [h1, h2, List.drop_zero, Nat.add_sub_cancel, List.take_left', List.drop_left']
  have : stem.length + 1 > 0 := by omega
  simp only [this, if_true]
  rw [if_pos hstem]

/-- only dots before the last dot (".hidden", "..x", "."): no extension -/
theorem c20_splitext_dots (stem ext : Str) (he : '/' ∉ ext) (hd : '.' ∉ ext)
    (hstem : stem.any (· != '.') = false) :
    splitext (stem ++ '.' :: ext) = (stem ++ '.' :: ext, []) := by
  have hs : '/' ∉ stem := by
    intro h
    have := List.any_eq_false.mp hstem '/' h
    revert this; decide
  have h1 : rfindNext '/' (stem ++ '.' :: ext) = 0 := by
    apply c20_rfindNext_absent
    simp only [List.mem_append, List.mem_cons, not_or]
    exact ⟨hs, by decide, he⟩
  have h2 := c20_rfindNext_last '.' stem ext hd
  unfold splitext
  simp only [h1, h2, List.drop_zero, Nat.add_sub_cancel, List.take_left']
  have : stem.length + 1 > 0 := by omega
  simp only [this, if_true]
  rw [if_neg (by rw [hstem]; simp)]

end Mammoth
