/-
  C08 — what the converter emits for one paragraph: the style's path wrapped around the content.
-/
import MammothModel.Convert
namespace Mammoth

theorem c08_visit_paragraph (cfg : Cfg) (hdr : Bool) (p : ParaProps) (cs : List Elem) (s : Style)
    (es : List Tag) (h : findStyle cfg.upper cfg.styleMap (.paragraph p) = some s)
    (hp : s.path = .elements es) :
    visit cfg hdr (.paragraph p cs) =
      (do let content ← visitAll cfg hdr cs
          pure (wrapElems es (if cfg.ignoreEmpty then content else .forceWrite :: content))) := by
  rw [visit]
  simp [findPathWarn, findPath, h, hp]

theorem c08_visit_paragraph_default (cfg : Cfg) (hdr : Bool) (p : ParaProps) (cs : List Elem)
    (h : findStyle cfg.upper cfg.styleMap (.paragraph p) = none) :
    visit cfg hdr (.paragraph p cs) =
      (do (match p.styleId with
            | some sid => warn (S!"Unrecognised paragraph style: " ++ pyOpt p.styleName ++
                                S!" (Style ID: " ++ sid ++ S!")")
            | none => pure ())
          let content ← visitAll cfg hdr cs
          pure (wrapElems [pathElem S!"p" true]
                  (if cfg.ignoreEmpty then content else .forceWrite :: content))) := by
  rw [visit]
  simp [findPathWarn, findPath, h]
  cases p.styleId <;> simp

end Mammoth
