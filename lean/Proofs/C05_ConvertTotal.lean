/-
  C05 — the converter stage returns normally when every reference it follows resolves.
-/
import Proofs.C05_Convert
namespace Mammoth

/-- does the image converter call `image.open()`? -/
def c05_opens : ImageConv → Bool
  | .dataUri => true
  | .fixed _ o => o

mutual
/-- every reference the converter follows below this element resolves: note references in `notes`,
    comment references (when a `comment-reference` mapping is in force) in `cfg.comments`, embedded
    image paths (when the image converter opens images) in `cfg.archive` -/
def c05_convOk (cfg : Cfg) (notes : List Note) : Elem → Bool
  | .paragraph _ cs => c05_convOkL cfg notes cs
  | .run _ cs => c05_convOkL cfg notes cs
  | .hyperlink _ cs => c05_convOkL cfg notes cs
  | .table _ _ cs => c05_convOkL cfg notes cs
  | .row _ cs => c05_convOkL cfg notes cs
  | .cell _ _ _ cs => c05_convOkL cfg notes cs
  | .image i =>
    match i.src with
    | .embedded name => !c05_opens cfg.imageConv || (lookupLast name cfg.archive).isSome
    | .linked _ => true
  | .noteRef ty id => (lookupLast (ty, id) (notes.map fun n => ((n.ty, n.id), n))).isSome
  | .commentRef id =>
    match findPath cfg .commentReference with
    | some (.elements _) => (lookupLast id (cfg.comments.map fun c => (c.id, c))).isSome
    | _ => true
  | _ => true
def c05_convOkL (cfg : Cfg) (notes : List Note) : List Elem → Bool
  | [] => true
  | e :: es => c05_convOk cfg notes e && c05_convOkL cfg notes es
end

/-- the hypothesis of `C05_convert_total` -/
def c05_docOk (cfg : Cfg) (d : Document) : Bool :=
  let cfg' := { cfg with comments := d.comments }
  c05_convOkL cfg' d.notes d.children &&
  d.notes.all (fun n => c05_convOkL cfg' d.notes n.body) &&
  d.comments.all (fun c => c05_convOkL cfg' d.notes c.body)

/-- state invariant: every recorded note reference resolves, every recorded comment is one of the
    document's comments -/
def c05_stOk (cfg : Cfg) (notes : List Note) (st : ConvState) : Prop :=
  (∀ r ∈ st.noteRefs, (lookupLast r (notes.map fun n => ((n.ty, n.id), n))).isSome = true) ∧
  (∀ lc ∈ st.refComments, lc.2 ∈ cfg.comments)

structure c05_tot {α} (P : ConvState → Prop) (Q : α → Prop) (m : ConvM α) : Prop where
  h : ∀ st, P st → ∃ a st', m.run st = .ok (a, st') ∧ P st' ∧ Q a

abbrev c05_tot' {α} (P : ConvState → Prop) (m : ConvM α) : Prop := c05_tot P (fun _ => True) m

theorem c05_tot_weaken {α} {P} {Q : α → Prop} {m : ConvM α} (h : c05_tot P Q m) : c05_tot' P m :=
  ⟨fun st hp => by obtain ⟨a, st', h1, h2, _⟩ := h.h st hp; exact ⟨a, st', h1, h2, trivial⟩⟩

theorem c05_tot_pure {α} {P} (a : α) : c05_tot' P (pure a : ConvM α) :=
  ⟨fun st hp => ⟨a, st, by simp [pure, StateT.pure, StateT.run, Except.pure], hp, trivial⟩⟩

theorem c05_tot_pureQ {α} {P} {Q : α → Prop} (a : α) (hq : Q a) : c05_tot P Q (pure a : ConvM α) :=
  ⟨fun st hp => ⟨a, st, by simp [pure, StateT.pure, StateT.run, Except.pure], hp, hq⟩⟩

theorem c05_tot_bindQ {α β} {P} {Q : α → Prop} {R : β → Prop} (m : ConvM α) (f : α → ConvM β)
    (hm : c05_tot P Q m) (hf : ∀ a, Q a → c05_tot P R (f a)) : c05_tot P R (m >>= f) := by
  constructor; intro st hp
  obtain ⟨a, st1, h1, hp1, hq⟩ := hm.h st hp
  obtain ⟨b, st2, h2, hp2, hr⟩ := (hf a hq).h st1 hp1
  refine ⟨b, st2, ?_, hp2, hr⟩
  rw [StateT.run_bind, h1]
  simpa [bind, Except.bind] using h2

theorem c05_tot_bind {α β} {P} {R : β → Prop} (m : ConvM α) (f : α → ConvM β)
    (hm : c05_tot' P m) (hf : ∀ a, c05_tot P R (f a)) : c05_tot P R (m >>= f) :=
  c05_tot_bindQ m f hm (fun a _ => hf a)

theorem c05_tot_modify {P : ConvState → Prop} (g : ConvState → ConvState) (hg : ∀ st, P st → P (g st)) :
    c05_tot' P (modify g : ConvM Unit) :=
  ⟨fun st hp => ⟨(), g st, by simp [modify, modifyGet, MonadStateOf.modifyGet, StateT.modifyGet, StateT.run, pure, Except.pure], hg st hp, trivial⟩⟩

theorem c05_tot_get {P : ConvState → Prop} : c05_tot P P (get : ConvM ConvState) :=
  ⟨fun st hp => ⟨st, st, by simp [get, getThe, MonadStateOf.get, StateT.get, StateT.run, pure, Except.pure], hp, hp⟩⟩

theorem c05_tot_get' {P : ConvState → Prop} : c05_tot' P (get : ConvM ConvState) := c05_tot_weaken c05_tot_get


macro "c05_tot_step" : tactic =>
  `(tactic| first
    | apply c05_tot_pure | apply c05_tot_get'
    | (apply c05_tot_modify; intro st hp; exact hp)
    | apply c05_tot_bind | intro _ | split | dsimp only)

theorem c05_warn_tot (cfg : Cfg) (notes : List Note) (m : Str) : c05_tot' (c05_stOk cfg notes) (warn m) := by
  unfold warn; apply c05_tot_modify; intro st hp; exact hp

theorem c05_findPathWarn_tot (cfg : Cfg) (notes : List Note) (t k a b d) :
    c05_tot' (c05_stOk cfg notes) (findPathWarn cfg t k a b d) := by
  unfold findPathWarn
  repeat (first | apply c05_warn_tot | c05_tot_step)

def c05_srcOk (cfg : Cfg) : ImageSrc → Bool
  | .embedded name => (lookupLast name cfg.archive).isSome
  | .linked _ => true

theorem c05_openImage_tot (cfg : Cfg) (notes : List Note) (src : ImageSrc) (h : c05_srcOk cfg src = true) :
    c05_tot' (c05_stOk cfg notes) (openImage cfg src) := by
  unfold openImage
  cases src with
  | embedded name =>
    simp only [c05_srcOk] at h
    dsimp only
    split
    · apply c05_tot_pure
    · rename_i hn; rw [hn] at h; cases h
  | linked uri =>
    dsimp only
    repeat c05_tot_step

theorem c05_convertImage_tot (cfg : Cfg) (notes : List Note) (i : ImageProps)
    (h : c05_convOk cfg notes (.image i) = true) :
    c05_tot' (c05_stOk cfg notes) (convertImage cfg i) := by
  unfold convertImage
  have hsrc : c05_opens cfg.imageConv = true → c05_srcOk cfg i.src = true := by
    intro ho
    simp only [c05_convOk, ho] at h
    cases hs : i.src with
    | embedded name => rw [hs] at h; simpa [c05_srcOk] using h
    | linked u => rfl
  cases hc : cfg.imageConv with
  | dataUri =>
    have := hsrc (by rw [hc]; rfl)
    repeat (first | exact c05_openImage_tot cfg notes _ this | apply c05_warn_tot | c05_tot_step)
  | fixed attrs opens =>
    cases opens with
    | false => repeat (first | apply c05_warn_tot | c05_tot_step)
    | true =>
      have := hsrc (by rw [hc]; rfl)
      repeat (first | exact c05_openImage_tot cfg notes _ this | apply c05_warn_tot | c05_tot_step)

theorem c05_lookupLast_map_mem {α κ} [DecidableEq κ] (f : α → κ) (k : κ) (l : List α) (x : α)
    (h : lookupLast k (l.map fun a => (f a, a)) = some x) : x ∈ l := by
  induction l with
  | nil => simp [lookupLast] at h
  | cons a l ih =>
    simp only [List.map, lookupLast] at h
    split at h
    · rename_i w hw; cases h; exact List.mem_cons_of_mem _ (ih hw)
    · split at h
      · cases h; exact List.mem_cons_self
      · cases h

macro "c05_and_split" h:ident : tactic =>
  `(tactic| (simp only [c05_convOk, c05_convOkL, Bool.and_eq_true] at $h:ident))

mutual
theorem c05_visit_tot (cfg : Cfg) (notes : List Note) (hdr : Bool) (e : Elem)
    (h : c05_convOk cfg notes e = true) : c05_tot' (c05_stOk cfg notes) (visit cfg hdr e) := by
  match e with
  | .paragraph p cs =>
    unfold visit; simp only [c05_convOk] at h
    repeat (first | apply c05_findPathWarn_tot | exact c05_visitAll_tot cfg notes hdr cs h | c05_tot_step)
  | .run r cs =>
    unfold visit; simp only [c05_convOk] at h
    repeat (first | apply c05_findPathWarn_tot | exact c05_visitAll_tot cfg notes hdr cs h | c05_tot_step)
  | .text s => unfold visit; repeat c05_tot_step
  | .hyperlink _ cs =>
    unfold visit; simp only [c05_convOk] at h
    repeat (first | exact c05_visitAll_tot cfg notes hdr cs h | c05_tot_step)
  | .checkbox c => unfold visit; repeat c05_tot_step
  | .table sid sname rows =>
    unfold visit; simp only [c05_convOk] at h
    repeat (first | exact c05_visitRows_tot cfg notes true rows h | c05_tot_step)
  | .row _ cells =>
    unfold visit; simp only [c05_convOk] at h
    repeat (first | exact c05_visitAll_tot cfg notes hdr cells h | c05_tot_step)
  | .cell _ _ _ cs =>
    unfold visit; simp only [c05_convOk] at h
    repeat (first | exact c05_visitAll_tot cfg notes hdr cs h | c05_tot_step)
  | .brk ty => unfold visit; repeat c05_tot_step
  | .tab => unfold visit; repeat c05_tot_step
  | .image i => unfold visit; exact c05_convertImage_tot cfg notes i h
  | .bookmark name => unfold visit; repeat c05_tot_step
  | .noteRef ty id =>
    unfold visit; simp only [c05_convOk] at h
    apply c05_tot_bind
    · apply c05_tot_modify
      intro st hp
      refine ⟨?_, hp.2⟩
      intro r hr
      simp only [List.mem_append, List.mem_singleton] at hr
      rcases hr with hr | rfl
      · exact hp.1 r hr
      · exact h
    · repeat c05_tot_step
  | .commentRef id =>
    unfold visit; simp only [c05_convOk] at h
    split
    · apply c05_tot_pure
    · apply c05_tot_pure
    · rename_i es hes
      rw [hes] at h; dsimp only at h
      split
      · rename_i hn; rw [hn] at h; cases h
      · rename_i c hc
        apply c05_tot_bind
        · apply c05_tot_get'
        intro s
        apply c05_tot_bind
        · apply c05_tot_modify
          intro st hp
          refine ⟨hp.1, ?_⟩
          intro lc hlc
          simp only [List.mem_append, List.mem_singleton] at hlc
          rcases hlc with hlc | rfl
          · exact hp.2 lc hlc
          · exact c05_lookupLast_map_mem _ _ _ _ hc
        · repeat c05_tot_step
theorem c05_visitAll_tot (cfg : Cfg) (notes : List Note) (hdr : Bool) (es : List Elem)
    (h : c05_convOkL cfg notes es = true) : c05_tot' (c05_stOk cfg notes) (visitAll cfg hdr es) := by
  match es with
  | [] => unfold visitAll; repeat c05_tot_step
  | e :: es =>
    unfold visitAll
    simp only [c05_convOkL, Bool.and_eq_true] at h
    repeat (first | exact c05_visit_tot cfg notes hdr e h.1 | exact c05_visitAll_tot cfg notes hdr es h.2 | c05_tot_step)
theorem c05_visitRows_tot (cfg : Cfg) (notes : List Note) (inHead : Bool) (es : List Elem)
    (h : c05_convOkL cfg notes es = true) : c05_tot' (c05_stOk cfg notes) (visitRows cfg inHead es) := by
  match es with
  | [] => unfold visitRows; repeat c05_tot_step
  | e :: es =>
    unfold visitRows
    simp only [c05_convOkL, Bool.and_eq_true] at h
    repeat (first | exact c05_visit_tot cfg notes _ e h.1 | exact c05_visitRows_tot cfg notes _ es h.2 | c05_tot_step)
end

theorem c05_mapMConcat_tot {α} {P} (f : α → ConvM (List Node)) (xs : List α)
    (hf : ∀ x ∈ xs, c05_tot' P (f x)) : c05_tot' P (mapMConcat f xs) := by
  induction xs with
  | nil => unfold mapMConcat; apply c05_tot_pure
  | cons x xs ih =>
    unfold mapMConcat
    apply c05_tot_bind
    · exact hf x List.mem_cons_self
    intro a
    apply c05_tot_bind
    · exact ih (fun y hy => hf y (List.mem_cons_of_mem _ hy))
    intro b
    apply c05_tot_pure

theorem c05_visitNote_tot (cfg : Cfg) (notes : List Note) (n : Note)
    (h : c05_convOkL cfg notes n.body = true) : c05_tot' (c05_stOk cfg notes) (visitNote cfg n) := by
  unfold visitNote
  repeat (first | exact c05_visitAll_tot cfg notes false _ h | c05_tot_step)

theorem c05_visitComment_tot (cfg : Cfg) (notes : List Note) (lc : Str × Comment)
    (h : c05_convOkL cfg notes lc.2.body = true) : c05_tot' (c05_stOk cfg notes) (visitComment cfg lc) := by
  unfold visitComment
  repeat (first | exact c05_visitAll_tot cfg notes false _ h | c05_tot_step)

theorem c05_mapM_resolve_ok (notes : List Note) (refs : List (Str × Str))
    (h : ∀ r ∈ refs, (lookupLast r (notes.map fun n => ((n.ty, n.id), n))).isSome = true) :
    ∃ ns, refs.mapM (resolveNote notes) = .ok ns ∧ ∀ n ∈ ns, n ∈ notes := by
  induction refs with
  | nil => exact ⟨[], by simp [pure, Except.pure], by simp⟩
  | cons r rs ih =>
    obtain ⟨ns, hns, hmem⟩ := ih (fun r' hr' => h r' (List.mem_cons_of_mem _ hr'))
    have hr := h r List.mem_cons_self
    cases hl : lookupLast r (notes.map fun n => ((n.ty, n.id), n)) with
    | none => rw [hl] at hr; cases hr
    | some n =>
      refine ⟨n :: ns, ?_, ?_⟩
      · rw [List.mapM_cons, hns]
        simp [resolveNote, hl, bind, Except.bind, pure, Except.pure]
      · intro n' hn'
        rcases List.mem_cons.mp hn' with rfl | hn'
        · exact c05_lookupLast_map_mem _ _ _ _ hl
        · exact hmem _ hn'

theorem c05_visitDocument_tot (cfg : Cfg) (d : Document)
    (hc : cfg.comments = d.comments)
    (h1 : c05_convOkL cfg d.notes d.children = true)
    (h2 : ∀ n ∈ d.notes, c05_convOkL cfg d.notes n.body = true)
    (h3 : ∀ c ∈ d.comments, c05_convOkL cfg d.notes c.body = true) :
    c05_tot' (c05_stOk cfg d.notes) (visitDocument cfg d) := by
  unfold visitDocument
  apply c05_tot_bind
  · exact c05_visitAll_tot cfg d.notes false _ h1
  intro nodes
  apply c05_tot_bindQ (Q := c05_stOk cfg d.notes)
  · exact c05_tot_get
  intro s hs
  dsimp only
  obtain ⟨ns, hns, hmem⟩ := c05_mapM_resolve_ok d.notes s.noteRefs hs.1
  rw [hns]; dsimp only
  apply c05_tot_bindQ (Q := fun ns => ∀ n ∈ ns, n ∈ d.notes)
  · exact c05_tot_pureQ ns hmem
  intro ns' hmem'
  apply c05_tot_bind
  · apply c05_mapMConcat_tot
    intro n hn
    exact c05_visitNote_tot cfg d.notes n (h2 n (hmem' n hn))
  intro noteNodes
  apply c05_tot_bindQ (Q := c05_stOk cfg d.notes)
  · exact c05_tot_get
  intro s2 hs2
  apply c05_tot_bind
  · apply c05_mapMConcat_tot
    intro lc hlc
    exact c05_visitComment_tot cfg d.notes lc (h3 _ (hc ▸ hs2.2 lc hlc))
  intro cn
  apply c05_tot_pure

theorem c05_stOk_init (cfg : Cfg) (notes : List Note) : c05_stOk cfg notes {} := by
  unfold c05_stOk
  exact ⟨fun r hr => absurd hr List.not_mem_nil, fun r hr => absurd hr List.not_mem_nil⟩

theorem c05_convertDoc_ok (cfg : Cfg) (d : Document) (h : c05_docOk cfg d = true) :
    ∃ r, convertDoc cfg d = .ok r := by
  simp only [c05_docOk, Bool.and_eq_true, List.all_eq_true] at h
  obtain ⟨⟨h1, h2⟩, h3⟩ := h
  have := (c05_visitDocument_tot { cfg with comments := d.comments } d rfl h1 h2 h3).h {}
    (c05_stOk_init _ _)
  obtain ⟨a, st', hrun, _, _⟩ := this
  unfold convertDoc
  rw [hrun]
  exact ⟨_, rfl⟩

end Mammoth
