/-
  C09 — the HTML table layout of what `calculateRowSpans` returns reproduces the document grid.
-/
import Proofs.C09_Layout
namespace Mammoth

/-- where the document says the non-continuation cells of row `y` lie -/
def c09_docPlaced (y : Nat) (below : List c09_Row) : c09_Row → Nat → Nat → List c09_Seg
  | [], _, _ => []
  | c :: cs, ci, i =>
    if c.isCont then c09_docPlaced y below cs (ci + c.span) i
    else ⟨ci, c.span, 1 + c09_chain below ci, (y, i)⟩ :: c09_docPlaced y below cs (ci + c.span) (i + 1)

theorem c09_docPlaced_cont (y : Nat) (below : List c09_Row) (d : c09_Cell) (ds : c09_Row) (ci i : Nat)
    (h : d.isCont = true) :
    c09_docPlaced y below (d :: ds) ci i = c09_docPlaced y below ds (ci + d.span) i := by
  simp [c09_docPlaced, h]

theorem c09_docPlaced_keep (y : Nat) (below : List c09_Row) (d : c09_Cell) (ds : c09_Row) (ci i : Nat)
    (h : ¬ d.isCont = true) :
    c09_docPlaced y below (d :: ds) ci i =
      ⟨ci, d.span, 1 + c09_chain below ci, (y, i)⟩ :: c09_docPlaced y below ds (ci + d.span) (i + 1) := by
  simp [c09_docPlaced, h]

theorem c09_specSpans_cont (below : List c09_Row) (d : c09_Cell) (ds : c09_Row) (ci : Nat)
    (h : d.isCont = true) :
    c09_specSpans below (d :: ds) ci = c09_specSpans below ds (ci + d.span) := by
  simp [c09_specSpans, h]

theorem c09_specSpans_keep (below : List c09_Row) (d : c09_Cell) (ds : c09_Row) (ci : Nat)
    (h : ¬ d.isCont = true) :
    c09_specSpans below (d :: ds) ci = (d.span, 1 + c09_chain below ci) :: c09_specSpans below ds (ci + d.span) := by
  simp [c09_specSpans, h]

theorem c09_filter_map_filter {α} (p q : α → Bool) (f : α → α) (hp : ∀ e, p (f e) = p e) (l : List α) :
    ((l.filter q).map f).filter p = ((l.filter p).filter q).map f := by
  induction l with
  | nil => rfl
  | cons e es ih =>
    by_cases h1 : q e = true <;> by_cases h2 : p e = true <;> simp [h1, h2, hp, ih]

/-- column `x` lies in a continuation cell -/
def c09_contAt (cells : c09_Row) (ci i x : Nat) : Bool :=
  match c09_cellAt cells ci i x with
  | some (_, _, d) => d.isCont
  | none => false

theorem c09_contAt_lt (c : c09_Cell) (cs : c09_Row) (ci i x : Nat) (h : x < ci + c.span) :
    c09_contAt (c :: cs) ci i x = c.isCont := by simp [c09_contAt, c09_cellAt, h]

theorem c09_contAt_ge (c : c09_Cell) (cs : c09_Row) (ci i x : Nat) (h : ¬ x < ci + c.span) :
    c09_contAt (c :: cs) ci i x = c09_contAt cs (ci + c.span) (if c.isCont then i else i + 1) x := by
  simp [c09_contAt, c09_cellAt, h]

theorem c09_contAt_some {cells : c09_Row} {ci i x s j : Nat} {c : c09_Cell}
    (hc : c09_cellAt cells ci i x = some (s, j, c)) : c09_contAt cells ci i x = c.isCont := by
  simp only [c09_contAt, hc]

theorem c09_contAt_none {cells : c09_Row} {ci i x : Nat}
    (hc : c09_cellAt cells ci i x = none) : c09_contAt cells ci i x = false := by
  simp only [c09_contAt, hc]

theorem c09_docRow_some {prevOwn : Nat → Option c09_Id} {y : Nat} {row : c09_Row} {x s i : Nat} {c : c09_Cell}
    (hc : c09_cellAt row 0 0 x = some (s, i, c)) :
    c09_docRow prevOwn y row x = if c.isCont then prevOwn x else some (y, i) := by
  simp only [c09_docRow, hc]

theorem c09_docRow_none {prevOwn : Nat → Option c09_Id} {y : Nat} {row : c09_Row} {x : Nat}
    (hc : c09_cellAt row 0 0 x = none) : c09_docRow prevOwn y row x = none := by
  simp only [c09_docRow, hc]

/-- the HTML placement puts every kept cell at its document start column, provided the occupied columns
    of the row are exactly the columns of its continuation cells -/
theorem c09_placeRow_eq (carry : List c09_Seg) (y : Nat) (below : List c09_Row) (prev cells : c09_Row) :
    ∀ (ci i x : Nat), c09_rowOkFrom prev cells ci = true → x ≤ ci →
      (∀ c, x ≤ c → c < ci → c09_occ carry c = true) →
      (∀ c, ci ≤ c → c09_occ carry c = c09_contAt cells ci i c) →
      c09_placeRow carry y (c09_specSpans below cells ci) i x = c09_docPlaced y below cells ci i := by
  induction cells with
  | nil => intro ci i x _ _ _ _; rfl
  | cons d ds ih =>
    intro ci i x hok hx hocc hrest
    obtain ⟨hspan, hok'⟩ := c09_rowOk_span prev d ds ci hok
    by_cases hd : d.isCont = true
    · rw [c09_specSpans_cont below d ds ci hd, c09_docPlaced_cont y below d ds ci i hd]
      apply ih (ci + d.span) i x hok' (by omega)
      · intro c h1 h2
        by_cases hc : c < ci
        · exact hocc c h1 hc
        · rw [hrest c (by omega), c09_contAt_lt d ds ci i c h2, hd]
      · intro c hc
        rw [hrest c (by omega), c09_contAt_ge d ds ci i c (by omega)]
        simp [hd]
    · rw [c09_specSpans_keep below d ds ci hd, c09_docPlaced_keep y below d ds ci i hd]
      simp only [c09_placeRow]
      have hfree : c09_occ carry ci = false := by
        rw [hrest ci (Nat.le_refl _), c09_contAt_lt d ds ci i ci (by omega)]; simpa using hd
      have hfuel : ci - x ≤ c09_bound carry - x := by
        by_cases hxc : x = ci
        · omega
        · have := c09_occ_lt_bound carry (ci - 1) (hocc (ci - 1) (by omega) (by omega))
          omega
      rw [c09_nextFree_eq (c09_occ carry) ci _ x hx hocc hfree hfuel]
      congr 1
      apply ih (ci + d.span) (i + 1) (ci + d.span) hok' (Nat.le_refl _)
      · intro c h1 h2; omega
      · intro c hc
        rw [hrest c (by omega), c09_contAt_ge d ds ci i c (by omega)]
        simp [hd]

theorem c09_docPlaced_filter_lt (y : Nat) (below : List c09_Row) (cells : c09_Row) :
    ∀ (ci i x : Nat), x < ci → (c09_docPlaced y below cells ci i).filter (·.covers x) = [] := by
  induction cells with
  | nil => intro ci i x _; rfl
  | cons d ds ih =>
    intro ci i x hx
    by_cases hd : d.isCont = true
    · rw [c09_docPlaced_cont y below d ds ci i hd]; exact ih _ _ x (by omega)
    · rw [c09_docPlaced_keep y below d ds ci i hd, List.filter_cons]
      have : (c09_Seg.covers ⟨ci, d.span, 1 + c09_chain below ci, (y, i)⟩ x) = false := by
        simp [c09_Seg.covers]; omega
      rw [this]; exact ih _ _ x (by omega)

theorem c09_docPlaced_filter (y : Nat) (below : List c09_Row) (cells : c09_Row) :
    ∀ (ci i x : Nat), ci ≤ x →
      (c09_docPlaced y below cells ci i).filter (·.covers x) =
        match c09_cellAt cells ci i x with
        | some (s, j, c) => if c.isCont then [] else [⟨s, c.span, 1 + c09_chain below s, (y, j)⟩]
        | none => [] := by
  induction cells with
  | nil => intro ci i x _; rfl
  | cons d ds ih =>
    intro ci i x hx
    by_cases hlt : x < ci + d.span
    · rw [c09_cellAt_lt ci i x d ds hlt]
      by_cases hd : d.isCont = true
      · rw [c09_docPlaced_cont y below d ds ci i hd]
        simp only [hd, if_true]
        exact c09_docPlaced_filter_lt y below ds _ _ x hlt
      · rw [c09_docPlaced_keep y below d ds ci i hd, List.filter_cons]
        simp only [hd, Bool.false_eq_true, if_false]
        have : (c09_Seg.covers ⟨ci, d.span, 1 + c09_chain below ci, (y, i)⟩ x) = true := by
          simp [c09_Seg.covers]; omega
        rw [this, if_pos rfl, c09_docPlaced_filter_lt y below ds _ _ x hlt]
    · rw [c09_cellAt_ge d ds ci i x hlt]
      by_cases hd : d.isCont = true
      · rw [c09_docPlaced_cont y below d ds ci i hd]
        simp only [hd, if_true]
        exact ih _ _ x (by omega)
      · rw [c09_docPlaced_keep y below d ds ci i hd, List.filter_cons]
        simp only [hd, Bool.false_eq_true, if_false]
        have : (c09_Seg.covers ⟨ci, d.span, 1 + c09_chain below ci, (y, i)⟩ x) = false := by
          simp [c09_Seg.covers]; omega
        rw [this]
        exact ih _ _ x (by omega)

theorem c09_carryNext_filter (segs : List c09_Seg) (x : Nat) :
    (c09_carryNext segs).filter (·.covers x) =
      ((segs.filter (·.covers x)).filter fun e => decide (1 < e.rem)).map fun e => { e with rem := e.rem - 1 } := by
  unfold c09_carryNext
  exact c09_filter_map_filter (fun e : c09_Seg => e.covers x) (fun e => decide (1 < e.rem))
    (fun e => { e with rem := e.rem - 1 }) (fun e => rfl) segs

/-! ### the invariant -/

/-- the cells growing down into `row` lie exactly on its continuation cells: on the columns of a continuation
    cell starting at `s` there is exactly one, with the same start and width, coming from the owner of
    these columns in the row above, and it still has `1 + chain rest s` rows to cover; nothing lies on the
    other columns -/
structure c09_CarryOk (carry : List c09_Seg) (prevOwn : Nat → Option c09_Id) (row : c09_Row)
    (rest : List c09_Row) : Prop where
  cont : ∀ x s i c, c09_cellAt row 0 0 x = some (s, i, c) → c.isCont = true →
    ∃ id, prevOwn x = some id ∧ carry.filter (·.covers x) = [⟨s, c.span, 1 + c09_chain rest s, id⟩]
  other : ∀ x s i c, c09_cellAt row 0 0 x = some (s, i, c) → c.isCont = false → carry.filter (·.covers x) = []
  out : ∀ x, c09_cellAt row 0 0 x = none → carry.filter (·.covers x) = []

theorem c09_CarryOk.occ {carry prevOwn row rest} (h : c09_CarryOk carry prevOwn row rest) (x : Nat) :
    c09_occ carry x = c09_contAt row 0 0 x := by
  simp only [c09_occ, c09_any_eq_filter]
  cases hc : c09_cellAt row 0 0 x with
  | none => rw [c09_contAt_none hc, h.out x hc]; rfl
  | some p =>
    obtain ⟨s, i, c⟩ := p
    rw [c09_contAt_some hc]
    cases hd : c.isCont with
    | true => obtain ⟨id, _, hf⟩ := h.cont x s i c hc hd; rw [hf]; rfl
    | false => rw [h.other x s i c hc hd]; rfl

/-- all the cells lying on column `x` of the row -/
theorem c09_segs_filter_some {carry prevOwn row rest} (h : c09_CarryOk carry prevOwn row rest) (y x s i : Nat)
    (c : c09_Cell) (hc : c09_cellAt row 0 0 x = some (s, i, c)) :
    ∃ o, c09_docRow prevOwn y row x = some o ∧
      (carry ++ c09_docPlaced y rest row 0 0).filter (·.covers x) = [⟨s, c.span, 1 + c09_chain rest s, o⟩] := by
  rw [List.filter_append, c09_docPlaced_filter y rest row 0 0 x (Nat.zero_le _), hc, c09_docRow_some hc]
  cases hd : c.isCont with
  | true =>
    obtain ⟨id, hid, hf⟩ := h.cont x s i c hc hd
    exact ⟨id, by simp [hid], by simp [hf, hd]⟩
  | false =>
    exact ⟨(y, i), by simp, by simp [h.other x s i c hc hd, hd]⟩

theorem c09_segs_filter_none {carry prevOwn row rest} (h : c09_CarryOk carry prevOwn row rest) (y x : Nat)
    (hc : c09_cellAt row 0 0 x = none) :
    c09_docRow prevOwn y row x = none ∧
      (carry ++ c09_docPlaced y rest row 0 0).filter (·.covers x) = [] := by
  rw [List.filter_append, c09_docPlaced_filter y rest row 0 0 x (Nat.zero_le _), hc]
  exact ⟨c09_docRow_none hc, by simp [h.out x hc]⟩

theorem c09_slot_segs {carry prevOwn row rest} (h : c09_CarryOk carry prevOwn row rest) (y x : Nat) :
    c09_slot (carry ++ c09_docPlaced y rest row 0 0) x = (c09_docRow prevOwn y row x).toList := by
  unfold c09_slot
  cases hc : c09_cellAt row 0 0 x with
  | none => obtain ⟨h1, h2⟩ := c09_segs_filter_none h y x hc; rw [h1, h2]; rfl
  | some p =>
    obtain ⟨s, i, c⟩ := p
    obtain ⟨o, h1, h2⟩ := c09_segs_filter_some h y x s i c hc
    rw [h1, h2]; rfl

/-! ### from one row to the next -/

theorem c09_hasContAt_iff (row : c09_Row) (s : Nat) :
    c09_hasContAt row s = true ↔ ∃ d, c09_findStart row 0 s = some d ∧ d.isCont = true := by
  simp only [c09_hasContAt, c09_hasContAtFrom]
  cases c09_findStart row 0 s with
  | none => simp
  | some d => simp

/-- a merge chain continues below a cell: the continuation covers the same columns -/
theorem c09_cont_below (prev row row' : c09_Row) (x s i : Nat) (c : c09_Cell)
    (hok : c09_rowOkFrom prev row 0 = true) (hok' : c09_rowOkFrom row row' 0 = true)
    (hc : c09_cellAt row 0 0 x = some (s, i, c)) (hcont : c09_hasContAt row' s = true) :
    ∃ j d, c09_cellAt row' 0 0 x = some (s, j, d) ∧ d.isCont = true ∧ d.span = c.span := by
  obtain ⟨d, hd, hdc⟩ := (c09_hasContAt_iff row' s).mp hcont
  obtain ⟨p, hp, hps, _⟩ := c09_rowOk_above row row' 0 s d hok' hd hdc
  obtain ⟨hfc, h1, h2⟩ := c09_cellAt_findStart prev row 0 0 x s i c hok (Nat.zero_le _) hc
  rw [hfc] at hp
  obtain rfl := Option.some.inj hp
  obtain ⟨j, hj⟩ := c09_findStart_cellAt row row' 0 0 x s d hok' hd h1 (by omega)
  exact ⟨j, d, hj, hdc, hps.symm⟩

/-- a continuation cell lies under a cell with the same columns -/
theorem c09_cont_above (prev row row' : c09_Row) (x s' i' : Nat) (c' : c09_Cell)
    (hok : c09_rowOkFrom prev row 0 = true) (hok' : c09_rowOkFrom row row' 0 = true)
    (hc : c09_cellAt row' 0 0 x = some (s', i', c')) (hcont : c'.isCont = true) :
    ∃ i c, c09_cellAt row 0 0 x = some (s', i, c) ∧ c.span = c'.span ∧ c09_hasContAt row' s' = true := by
  obtain ⟨hfc, h1, h2⟩ := c09_cellAt_findStart row row' 0 0 x s' i' c' hok' (Nat.zero_le _) hc
  obtain ⟨p, hp, hps, _⟩ := c09_rowOk_above row row' 0 s' c' hok' hfc hcont
  obtain ⟨j, hj⟩ := c09_findStart_cellAt prev row 0 0 x s' p hok hp h1 (by omega)
  exact ⟨j, p, hj, hps, (c09_hasContAt_iff row' s').mpr ⟨c', hfc, hcont⟩⟩

theorem c09_CarryOk.next {carry prevOwn} {prev row row' : c09_Row} {rest : List c09_Row} (y : Nat)
    (hok : c09_rowOkFrom prev row 0 = true) (hok' : c09_rowOkFrom row row' 0 = true)
    (h : c09_CarryOk carry prevOwn row (row' :: rest)) :
    c09_CarryOk (c09_carryNext (carry ++ c09_docPlaced y (row' :: rest) row 0 0))
      (c09_docRow prevOwn y row) row' rest := by
  -- nothing continues on column `x` unless `row'` has a continuation cell there
  have hnone : ∀ x, (∀ s j d, c09_cellAt row' 0 0 x = some (s, j, d) → d.isCont = false) →
      (c09_carryNext (carry ++ c09_docPlaced y (row' :: rest) row 0 0)).filter (·.covers x) = [] := by
    intro x hx
    rw [c09_carryNext_filter]
    cases hc : c09_cellAt row 0 0 x with
    | none => rw [(c09_segs_filter_none h y x hc).2]; rfl
    | some p =>
      obtain ⟨s, i, c⟩ := p
      obtain ⟨o, _, hf⟩ := c09_segs_filter_some h y x s i c hc
      rw [hf]
      have hnc : c09_hasContAt row' s = false := by
        cases hh : c09_hasContAt row' s with
        | false => rfl
        | true =>
          obtain ⟨j, d, hd, hdc, _⟩ := c09_cont_below prev row row' x s i c hok hok' hc hh
          rw [hx s j d hd] at hdc; simp at hdc
      simp [c09_chain, hnc]
  refine ⟨?_, ?_, ?_⟩
  · intro x s' i' c' hc hcont
    obtain ⟨i, c, hrow, hspan, hhas⟩ := c09_cont_above prev row row' x s' i' c' hok hok' hc hcont
    obtain ⟨o, ho, hf⟩ := c09_segs_filter_some h y x s' i c hrow
    refine ⟨o, ho, ?_⟩
    rw [c09_carryNext_filter, hf]
    have hch : c09_chain (row' :: rest) s' = 1 + c09_chain rest s' := by simp [c09_chain, hhas]
    rw [hch, hspan]
    have hlt : decide (1 < 1 + (1 + c09_chain rest s')) = true := decide_eq_true (by omega)
    simp only [List.filter_cons, hlt, if_true, List.filter_nil, List.map_cons, List.map_nil]
    have : 1 + (1 + c09_chain rest s') - 1 = 1 + c09_chain rest s' := by omega
    rw [this]
  · intro x s' i' c' hc hcont
    apply hnone x
    intro s j d hd; rw [hc] at hd
    simp only [Option.some.injEq, Prod.mk.injEq] at hd
    rw [← hd.2.2]; exact hcont
  · intro x hc
    apply hnone x
    intro s j d hd; rw [hc] at hd; simp at hd

/-! ### the main induction -/

theorem c09_layout_main (rest : List c09_Row) :
    ∀ (prev : c09_Row) (prevOwn : Nat → Option c09_Id) (carry : List c09_Seg) (y : Nat),
      c09_validFrom prev rest = true →
      (∀ row rest', rest = row :: rest' → c09_CarryOk carry prevOwn row rest') →
      ∀ j x, c09_slotAt (c09_htmlRows carry y (c09_specCells rest)) j x
        = (c09_ownAt (c09_docRows prevOwn y rest) j x).toList := by
  induction rest with
  | nil => intro prev prevOwn carry y _ _ j x; simp [c09_specCells, c09_htmlRows, c09_docRows, c09_slotAt, c09_ownAt]
  | cons row rest ih =>
    intro prev prevOwn carry y hv hcarry j x
    simp only [c09_validFrom, Bool.and_eq_true] at hv
    have hC := hcarry row rest rfl
    have hplace : c09_placeRow carry y (c09_specSpans rest row 0) 0 0 = c09_docPlaced y rest row 0 0 :=
      c09_placeRow_eq carry y rest prev row 0 0 0 hv.1 (Nat.le_refl _) (fun c h1 h2 => by omega)
        (fun c _ => hC.occ c)
    simp only [c09_specCells, c09_htmlRows, c09_docRows, hplace]
    cases j with
    | zero =>
      simp only [c09_slotAt, c09_ownAt, List.getElem?_cons_zero]
      exact c09_slot_segs hC y x
    | succ j =>
      simp only [c09_slotAt, c09_ownAt, List.getElem?_cons_succ]
      have := ih row (c09_docRow prevOwn y row) (c09_carryNext (carry ++ c09_docPlaced y rest row 0 0)) (y + 1)
        hv.2 (by
          intro row' rest' hr; subst hr
          simp only [c09_validFrom, Bool.and_eq_true] at hv
          exact hC.next y hv.1 hv.2.1) j x
      simpa [c09_slotAt, c09_ownAt] using this

theorem c09_CarryOk_init (row : c09_Row) (rest : List c09_Row) (hok : c09_rowOkFrom [] row 0 = true) :
    c09_CarryOk [] (fun _ => none) row rest := by
  refine ⟨?_, fun _ _ _ _ _ _ => rfl, fun _ _ => rfl⟩
  intro x s i c hc hcont
  obtain ⟨hfc, _, _⟩ := c09_cellAt_findStart [] row 0 0 x s i c hok (Nat.zero_le _) hc
  obtain ⟨p, hp, _⟩ := c09_rowOk_above [] row 0 s c hok hfc hcont
  simp [c09_findStart] at hp

theorem c09_layout_eq_spec (rows : List c09_Row) (hv : c09_validFrom [] rows = true) (y x : Nat) :
    c09_htmlLayout (c09_specCells rows) y x = (c09_docGrid rows y x).toList := by
  unfold c09_htmlLayout c09_docGrid
  apply c09_layout_main rows [] (fun _ => none) [] 0 hv
  intro row rest hr; subst hr
  simp only [c09_validFrom, Bool.and_eq_true] at hv
  exact c09_CarryOk_init row rest hv.1

end Mammoth
