/-
  C17 helpers, part 2: `Dict.ofList` is last-wins, run-lemmas for `ConvM`, `convertImage`,
  content types, extensions, the reader's alt text.
-/
import MammothModel.Reader
namespace Mammoth

/-! ### `Dict.ofList` read back with `Dict.get?` is the last-wins lookup -/

theorem c17_get_insert {β} (k k' : Str) (v : β) (d : Dict β) :
    Dict.get? k (Dict.insert k' v d) = if k = k' then some v else Dict.get? k d := by
  induction d with
  | nil => simp [Dict.insert, Dict.get?]
  | cons hd tl ih =>
    obtain ⟨k'', v''⟩ := hd
    simp only [Dict.insert]
    split
    · subst_vars; simp only [Dict.get?]; split <;> rfl
    · split
      · simp only [Dict.get?]
      · simp only [Dict.get?, ih]
        split
        · split
          · subst_vars; contradiction
          · rfl
        · rfl

theorem c17_get_foldl {β} (k : Str) (kvs : List (Str × β)) (d : Dict β) :
    Dict.get? k (kvs.foldl (fun d kv => Dict.insert kv.1 kv.2 d) d) =
      (lookupLast k kvs).or (Dict.get? k d) := by
  induction kvs generalizing d with
  | nil => simp [lookupLast]
  | cons hd tl ih =>
    obtain ⟨k', v⟩ := hd
    simp only [List.foldl_cons, ih, c17_get_insert, lookupLast]
    cases lookupLast k tl <;> simp
    split <;> simp

theorem c17_get_ofList {β} (k : Str) (kvs : List (Str × β)) :
    Dict.get? k (Dict.ofList kvs) = lookupLast k kvs := by
  simp [Dict.ofList, c17_get_foldl, Dict.get?]

theorem c17_lookupLast_append {α β} [DecidableEq α] (k : α) (a b : List (α × β)) :
    lookupLast k (a ++ b) = (lookupLast k b).or (lookupLast k a) := by
  induction a with
  | nil => simp [lookupLast]
  | cons hd tl ih =>
    obtain ⟨k', v⟩ := hd
    simp only [List.cons_append, lookupLast, ih]
    cases lookupLast k b <;> simp

/-! ### running `ConvM` programs; `convertImage` -/

theorem c17_run_bind {α β} (m : ConvM α) (f : α → ConvM β) (st : ConvState) :
    (m >>= f).run st = match m.run st with
      | .ok (a, s) => (f a).run s
      | .error e => .error e := by
  simp only [StateT.run, bind, StateT.bind, Except.bind]
  split <;> simp_all
theorem c17_run_pure {α} (a : α) (st : ConvState) : (pure a : ConvM α).run st = .ok (a, st) := rfl
theorem c17_run_modify (f : ConvState → ConvState) (st : ConvState) :
    (modify f : ConvM PUnit).run st = .ok (⟨⟩, f st) := rfl
theorem c17_run_throw {α} (e : Err) (st : ConvState) : (throw e : ConvM α).run st = .error e := rfl
theorem c17_run_warn (m : Str) (st : ConvState) :
    (warn m).run st = .ok ((), { st with messages := st.messages ++ [m] }) := rfl

def c17_altAttr (i : ImageProps) : List (Str × Str) :=
  match i.altText with
  | some a => if a.isEmpty then [] else [(S!"alt", a)]
  | none => []

def c17_logged (st : ConvState) (i : ImageProps) : ConvState := { st with imageCalls := st.imageCalls ++ [i] }

/-- what the converter does with the opened image -/
def c17_finish (cfg : Cfg) (i : ImageProps) : ConvM (List Node) :=
  match cfg.imageConv with
  | .dataUri => do
    match ← openImage cfg i.src with
    | .ok bytes =>
      pure [el S!"img" (c17_altAttr i ++ [(S!"src", S!"data:" ++ pyOpt i.contentType ++ S!";base64," ++ b64encode bytes)]) []]
    | .error msg => do warn msg; pure []
  | .fixed attrs opens => do
    if opens then
      match ← openImage cfg i.src with
      | .ok bytes => pure [el S!"img" (c17_altAttr i ++ attrs ++ [(S!"data-len", natToStr bytes.length)]) []]
      | .error msg => do warn msg; pure []
    else pure [el S!"img" (c17_altAttr i ++ attrs) []]

theorem c17_convertImage_run (cfg : Cfg) (i : ImageProps) (st : ConvState) :
    (convertImage cfg i).run st = (c17_finish cfg i).run (c17_logged st i) := rfl

theorem c17_convert_dataUri (cfg : Cfg) (i : ImageProps) (name : Str) (bytes : Bytes) (st : ConvState)
    (hc : cfg.imageConv = .dataUri) (hs : i.src = .embedded name)
    (h : lookupLast name cfg.archive = some bytes) :
    (convertImage cfg i).run st = .ok ([el S!"img" (c17_altAttr i ++
        [(S!"src", S!"data:" ++ pyOpt i.contentType ++ S!";base64," ++ b64encode bytes)]) []], c17_logged st i) := by
  rw [c17_convertImage_run]
  unfold c17_finish
  simp only [hc, hs, openImage, h]
  rfl

theorem c17_openImage_calls (cfg : Cfg) (src : ImageSrc) (st st' : ConvState) (r : Except Str Bytes)
    (h : (openImage cfg src).run st = .ok (r, st')) : st'.imageCalls = st.imageCalls := by
  unfold openImage at h
  cases src with
  | embedded name =>
    simp only at h
    split at h
    · cases h; rfl
    · cases h
  | linked uri =>
    simp only at h
    split at h
    · simp only [c17_run_bind, c17_run_modify] at h
      split at h <;> (cases h; rfl)
    · split at h
      · simp only [c17_run_bind, c17_run_modify] at h
        split at h <;> (cases h; rfl)
      · cases h; rfl

theorem c17_after_open (cfg : Cfg) (src : ImageSrc) (f : Bytes → List Node)
    (st st' : ConvState) (ns : List Node)
    (h : (do match ← openImage cfg src with
              | .ok bytes => pure (f bytes)
              | .error msg => do warn msg; pure [] : ConvM (List Node)).run st = .ok (ns, st')) :
    st'.imageCalls = st.imageCalls := by
  simp only [c17_run_bind] at h
  split at h
  · rename_i r s hop
    have := c17_openImage_calls _ _ _ _ _ hop
    cases r with
    | ok b => simp only [c17_run_pure] at h; cases h; exact this
    | error m => simp only [c17_run_bind, c17_run_warn, c17_run_pure] at h; cases h; exact this
  · cases h

theorem c17_finish_calls (cfg : Cfg) (i : ImageProps) (st st' : ConvState) (ns : List Node)
    (h : (c17_finish cfg i).run st = .ok (ns, st')) : st'.imageCalls = st.imageCalls := by
  unfold c17_finish at h
  split at h
  · exact c17_after_open cfg i.src _ st st' ns h
  · split at h
    · exact c17_after_open cfg i.src _ st st' ns h
    · cases h; rfl

/-! ### extensions, content types, the alt text of `wp:inline` -/

theorem c17_split_no_sep (sep : Char) (s : Str) (h : sep ∉ s) : splitOnChar sep s = [s] := by
  induction s with
  | nil => rfl
  | cons c cs ih =>
    simp only [List.mem_cons, not_or] at h
    simp only [splitOnChar, ih h.2]
    have : (c == sep) = false := by simpa using fun e => h.1 e.symm
    simp [this]

theorem c17_split_append (sep : Char) (pre ext : Str) :
    ∃ q l, splitOnChar sep (pre ++ sep :: ext) = (q :: l) ++ splitOnChar sep ext := by
  induction pre with
  | nil =>
    refine ⟨[], [], ?_⟩
    simp only [List.nil_append, splitOnChar]
    split
    · rename_i h; simp [h]
    · rename_i h; simp [h]
  | cons c cs ih =>
    obtain ⟨q, l, h⟩ := ih
    simp only [List.cons_append, splitOnChar]
    simp only [List.cons_append] at h
    rw [h]
    by_cases hc : (c == sep) = true
    · exact ⟨[], q :: l, by simp [hc]⟩
    · exact ⟨c :: q, l, by simp [hc]⟩

theorem c17_split_ne_nil (sep : Char) (s : Str) : splitOnChar sep s ≠ [] := by
  cases s with
  | nil => simp [splitOnChar]
  | cons c cs => simp only [splitOnChar]; split <;> (try split) <;> simp

theorem c17_getExtension_dot (pre ext : Str) (h : '.' ∉ ext) : getExtension (pre ++ '.' :: ext) = ext := by
  obtain ⟨q, l, e⟩ := c17_split_append '.' pre ext
  unfold getExtension
  rw [e, c17_split_no_sep '.' ext h, List.getLast?_concat]
  rfl

theorem c17_getExtension_nodot (path : Str) (h : '.' ∉ path) : getExtension path = path := by
  simp [getExtension, c17_split_no_sep '.' path h]

def c17_contentTypeSpec (ct : ContentTypes) (path : Str) : Option Str :=
  (lookupLast path ct.overrides).or
    ((lookupLast (getExtension path) ct.defaults).or
      ((lookupLast (lowerAscii (getExtension path)) Generated.imageExtensions).map (S!"image/" ++ ·)))

theorem c17_findContentType_eq (ct : ContentTypes) (path : Str) :
    findContentType ct path = c17_contentTypeSpec ct path := by
  unfold findContentType c17_contentTypeSpec
  cases lookupLast path ct.overrides <;> simp only [Option.some_or, Option.none_or]
  cases lookupLast (getExtension path) ct.defaults <;> simp only [Option.some_or, Option.none_or]

def c17_inlineAlt (cs : List XmlNode) : Option Str :=
  let props := (findChildOrNull S!"wp:docPr" cs).1
  if !(strip ((attr? S!"descr" props).getD [])).isEmpty then attr? S!"descr" props else attr? S!"title" props

def c17_inlineBlips (cs : List XmlNode) : List (Attrs × List XmlNode) :=
  flatChildren S!"a:blip" (flatChildren S!"pic:blipFill" (flatChildren S!"pic:pic"
                 (flatChildren S!"a:graphicData" (findChildren S!"a:graphic" cs))))

theorem c17_readInline_eq (env : REnv) (cs : List XmlNode) :
    readInline env cs = ((c17_inlineBlips cs).mapM fun (b : Attrs × List XmlNode) => readBlip env b.1 (c17_inlineAlt cs)).map
      (fun (rs : List ReadResult) => rs.foldl ReadResult.concat {}) := by
  unfold readInline
  simp only [c17_inlineAlt, c17_inlineBlips, bind_pure_comp]
  rfl

end Mammoth
