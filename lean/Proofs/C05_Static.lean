/-
  C05 — the static well-formedness predicate on XML trees and the small lemmas about the
  leaf readers (symbols, images, relationships, numbering, complex fields).
-/
import Proofs.C05_ReadBody
namespace Mammoth

/-- the failures that remain possible on statically well-formed input: the model's fuel running out,
    and `complex_field_stack.pop()` on an empty stack (unbalanced `w:fldChar`) -/
def c05_allowed (e : Err) : Prop := e = .fuel ∨ ∃ w, e = Err.index w

/-- `x` fails only with an error satisfying `E`, and its results satisfy `Q` -/
structure c05_spec {α} (E : Err → Prop) (Q : α → Prop) (x : Except Err α) : Prop where
  err : ∀ e, x = .error e → E e
  ok : ∀ a, x = .ok a → Q a

theorem c05_spec_ok {α} {E : Err → Prop} {Q : α → Prop} (a : α) (h : Q a) : c05_spec E Q (.ok a) :=
  ⟨fun _ he => (by cases he), fun _ ha => (by cases ha; exact h)⟩

theorem c05_spec_pure {α} {E : Err → Prop} {Q : α → Prop} (a : α) (h : Q a) : c05_spec E Q (pure a) :=
  c05_spec_ok a h

theorem c05_spec_bind {α β} {E : Err → Prop} {Q : α → Prop} {R : β → Prop}
    (x : Except Err α) (f : α → Except Err β)
    (hx : c05_spec E Q x) (hf : ∀ a, Q a → c05_spec E R (f a)) : c05_spec E R (x >>= f) := by
  cases hxx : x with
  | error e =>
    refine ⟨fun e' he => ?_, fun a ha => ?_⟩
    · simp only [bind, Except.bind] at he; cases he; exact hx.err e hxx
    · simp only [bind, Except.bind] at ha; cases ha
  | ok a => exact hf a (hx.ok a hxx)

theorem c05_spec_map {α β} {E : Err → Prop} {Q : α → Prop} {R : β → Prop}
    (x : Except Err α) (f : α → β)
    (hx : c05_spec E Q x) (hf : ∀ a, Q a → R (f a)) : c05_spec E R (x.map f) := by
  cases hxx : x with
  | error e =>
    refine ⟨fun e' he => ?_, fun a ha => ?_⟩
    · simp only [Except.map] at he; cases he; exact hx.err e hxx
    · simp only [Except.map] at ha; cases ha
  | ok a => exact c05_spec_ok _ (hf a (hx.ok a hxx))

theorem c05_spec_ite {α} {E : Err → Prop} {Q : α → Prop} (c : Prop) [Decidable c] (a b : Except Err α)
    (h1 : c → c05_spec E Q a) (h2 : ¬ c → c05_spec E Q b) : c05_spec E Q (if c then a else b) := by
  by_cases hc : c
  · rw [if_pos hc]; exact h1 hc
  · rw [if_neg hc]; exact h2 hc

theorem c05_spec_weaken {α} {E : Err → Prop} {Q R : α → Prop} {x : Except Err α}
    (hx : c05_spec E Q x) (h : ∀ a, Q a → R a) : c05_spec E R x :=
  ⟨hx.err, fun a ha => h a (hx.ok a ha)⟩

/-! ### the static predicate -/

/-- the relationship id is defined in the part's relationships -/
def c05_relOk (env : REnv) (rid : Str) : Bool :=
  (lookupLast rid (env.rels.map fun r => (r.id, r.target))).isSome

/-- an `a:blip`: its `r:embed` (or else its `r:link`), when present, is a defined relationship id -/
def c05_blipOk (env : REnv) (as : Attrs) : Bool :=
  match attr? S!"r:embed" as with
  | some rid => c05_relOk env rid
  | none =>
    match attr? S!"r:link" as with
    | some rid => c05_relOk env rid
    | none => true

/-- the `a:blip` elements `inline()` looks at: `a:graphic/a:graphicData/pic:pic/pic:blipFill/a:blip` -/
def c05_blips (cs : List XmlNode) : List (Attrs × List XmlNode) :=
  flatChildren S!"a:blip" (flatChildren S!"pic:blipFill" (flatChildren S!"pic:pic"
    (flatChildren S!"a:graphicData" (findChildren S!"a:graphic" cs))))

/-- a non-empty string of decimal digits -/
def c05_isDec (s : Str) : Bool := !s.isEmpty && s.all parseDec.isDigit

/-- a non-empty string of hexadecimal digits -/
def c05_isHex (s : Str) : Bool := !s.isEmpty && s.all fun c => (hexVal c).isSome

/-- the local, per-element part of the static predicate (by handler of the element name) -/
def c05_elemOk (env : REnv) (name : Str) (as : Attrs) (cs : List XmlNode) : Bool :=
  match handlerOf name with
  | none => true
  | some h =>
    if h == S!"symbol" then
      (match attr? S!"w:char" as with | none => true | some ch => c05_isHex ch)
    else if h == S!"table_cell" then
      (match childAttr S!"w:gridSpan" S!"w:val" (findChildOrNull S!"w:tcPr" cs).2 with
       | none => true | some g => c05_isDec g)
    else if h == S!"hyperlink" then
      (match attr? S!"r:id" as with | none => true | some rid => c05_relOk env rid)
    else if h == S!"inline" then (c05_blips cs).all fun b => c05_blipOk env b.1
    else if h == S!"read_imagedata" then
      (match attr? S!"r:id" as with | none => true | some rid => c05_relOk env rid)
    else if h == S!"note_reference:footnote" || h == S!"note_reference:endnote" then (attr? S!"w:id" as).isSome
    else if h == S!"read_comment_reference" then (attr? S!"w:id" as).isSome
    else true

mutual
/-- STATIC well-formedness of an XML tree w.r.t. the part's relationships: every element satisfies
    `c05_elemOk`, everywhere in the tree -/
def c05_static (env : REnv) : XmlNode → Bool
  | .text _ => true
  | .elem name as cs => c05_elemOk env name as cs && c05_staticL env cs
def c05_staticL (env : REnv) : List XmlNode → Bool
  | [] => true
  | c :: cs => c05_static env c && c05_staticL env cs
end

/-- no abstract numbering definition carries a `w:numStyleLink` (or there are no numbering styles):
    `find_level` never follows a link, hence cannot recurse forever -/
def c05_noStyleLinks (env : REnv) : Bool :=
  env.numbering.abstractNums.all (fun p => p.2.numStyleLink.isNone) || env.numbering.styles.numbering.isEmpty

theorem c05_staticL_append (env : REnv) (xs ys : List XmlNode) :
    c05_staticL env (xs ++ ys) = (c05_staticL env xs && c05_staticL env ys) := by
  induction xs with
  | nil => simp [c05_staticL]
  | cons x xs ih => simp [c05_staticL, ih, Bool.and_assoc]

theorem c05_staticL_findChild (env : REnv) (name : Str) (cs : List XmlNode) (h : c05_staticL env cs = true) :
    c05_staticL env (findChildOrNull name cs).2 = true := by
  unfold findChildOrNull
  induction cs with
  | nil => simp [findChild, c05_staticL]
  | cons c cs ih =>
    simp only [c05_staticL, Bool.and_eq_true] at h
    cases c with
    | text s => simp only [findChild]; exact ih h.2
    | elem n as ccs =>
      simp only [findChild]
      split
      · simp only [Option.getD]
        have := h.1; simp only [c05_static, Bool.and_eq_true] at this; exact this.2
      · exact ih h.2


theorem c05_spec_of_isOk {α} {E : Err → Prop} (x : Except Err α) (h : ∃ a, x = .ok a) :
    c05_spec E (fun _ => True) x := by
  obtain ⟨a, rfl⟩ := h; exact c05_spec_ok a trivial

theorem c05_parseHex_ok (s : Str) (h : c05_isHex s = true) : ∃ n, parseHex s = some n := by
  simp only [c05_isHex, Bool.and_eq_true, Bool.not_eq_true', List.all_eq_true] at h
  obtain ⟨hne, hall⟩ := h
  unfold parseHex
  rw [hne]
  simp only [Bool.false_eq_true, if_false]
  have key : ∀ (l : Str) (n : Nat), (∀ c ∈ l, (hexVal c).isSome = true) →
      ∃ m, l.foldl (fun acc c => do let a ← acc; let v ← hexVal c; pure (a * 16 + v)) (some n) = some m := by
    intro l
    induction l with
    | nil => intro n _; exact ⟨n, rfl⟩
    | cons c l ih =>
      intro n hl
      have hc := hl c List.mem_cons_self
      cases hv : hexVal c with
      | none => rw [hv] at hc; cases hc
      | some v =>
        simp only [List.foldl, hv]
        exact ih _ (fun c' hc' => hl c' (List.mem_cons_of_mem _ hc'))
  exact key s 0 hall

theorem c05_parseDec_ok (s : Str) (h : c05_isDec s = true) : ∃ n, parseDec s = some n := by
  simp only [c05_isDec, Bool.and_eq_true, Bool.not_eq_true'] at h
  unfold parseDec
  rw [h.1, h.2]
  exact ⟨_, rfl⟩

theorem c05_readSymbol_ok (as : Attrs)
    (h : (match attr? S!"w:char" as with | none => true | some ch => c05_isHex ch) = true) :
    ∃ r, readSymbol as = .ok r := by
  unfold readSymbol
  dsimp only
  split
  · exact ⟨_, rfl⟩
  · rename_i ch hch
    rw [hch] at h; dsimp only at h
    obtain ⟨n, hn⟩ := c05_parseHex_ok ch h
    rw [hn]; dsimp only
    split <;> exact ⟨_, rfl⟩

theorem c05_targetById_ok (env : REnv) (rid : Str) (h : c05_relOk env rid = true) :
    ∃ t, env.rels.targetById rid = .ok t := by
  unfold Rels.targetById
  unfold c05_relOk at h
  split
  · exact ⟨_, rfl⟩
  · rename_i hn; rw [hn] at h; cases h

theorem c05_readEmbeddedImage_ok (env : REnv) (rid : Str) (alt : Option Str) (h : c05_relOk env rid = true) :
    ∃ r, readEmbeddedImage env rid alt = .ok r := by
  obtain ⟨t, ht⟩ := c05_targetById_ok env rid h
  unfold readEmbeddedImage
  rw [ht]
  exact ⟨_, rfl⟩

theorem c05_readBlip_ok (env : REnv) (as : Attrs) (alt : Option Str) (h : c05_blipOk env as = true) :
    ∃ r, readBlip env as alt = .ok r := by
  unfold readBlip
  unfold c05_blipOk at h
  split
  · rename_i rid hr; rw [hr] at h; exact c05_readEmbeddedImage_ok env rid alt h
  · rename_i hr; rw [hr] at h; dsimp only at h
    split
    · rename_i rid hl; rw [hl] at h; dsimp only at h
      obtain ⟨t, ht⟩ := c05_targetById_ok env rid h
      rw [ht]; exact ⟨_, rfl⟩
    · exact ⟨_, rfl⟩

theorem c05_mapM_ok {α β} (f : α → Except Err β) (l : List α) (h : ∀ a ∈ l, ∃ b, f a = .ok b) :
    ∃ bs, l.mapM f = .ok bs := by
  induction l with
  | nil => exact ⟨[], by simp [pure, Except.pure]⟩
  | cons a l ih =>
    obtain ⟨b, hb⟩ := h a List.mem_cons_self
    obtain ⟨bs, hbs⟩ := ih (fun a' ha' => h a' (List.mem_cons_of_mem _ ha'))
    refine ⟨b :: bs, ?_⟩
    rw [List.mapM_cons, hb, hbs]
    rfl

theorem c05_readInline_ok (env : REnv) (cs : List XmlNode)
    (h : ((c05_blips cs).all fun b => c05_blipOk env b.1) = true) :
    ∃ r, readInline env cs = .ok r := by
  unfold readInline
  simp only [List.all_eq_true] at h
  dsimp only
  have := c05_mapM_ok (fun (x : Attrs × List XmlNode) => readBlip env x.1
      (if !(strip ((attr? S!"descr" (findChildOrNull S!"wp:docPr" cs).1).getD [])).isEmpty
       then attr? S!"descr" (findChildOrNull S!"wp:docPr" cs).1
       else attr? S!"title" (findChildOrNull S!"wp:docPr" cs).1)) (c05_blips cs)
    (fun b hb => c05_readBlip_ok env b.1 _ (h b hb))
  obtain ⟨bs, hbs⟩ := this
  unfold c05_blips at hbs
  rw [hbs]
  exact ⟨_, rfl⟩

theorem c05_lookupLast_mem {α β} [DecidableEq α] (k : α) (l : List (α × β)) (v : β)
    (h : lookupLast k l = some v) : (k, v) ∈ l := by
  induction l with
  | nil => simp [lookupLast] at h
  | cons a l ih =>
    obtain ⟨k', v'⟩ := a
    simp only [lookupLast] at h
    split at h
    · rename_i w hw; cases h; exact List.mem_cons_of_mem _ (ih hw)
    · split at h
      · rename_i hk; cases h; subst hk; exact List.mem_cons_self
      · cases h

theorem c05_findLevel_ok (env : REnv) (hn : c05_noStyleLinks env = true) (f : Nat) (numId : Option Str) (lvl : Str) :
    ∃ r, findLevel env.numbering (f+1) numId lvl = .ok r := by
  unfold findLevel
  split
  · exact ⟨_, rfl⟩
  · split
    · exact ⟨_, rfl⟩
    · rename_i absId _ an han
      split
      · exact ⟨_, rfl⟩
      · rename_i link hlink
        simp only [c05_noStyleLinks, Bool.or_eq_true, List.all_eq_true, List.isEmpty_iff] at hn
        rcases hn with hn | hn
        · have := hn _ (c05_lookupLast_mem _ _ _ han)
          rw [hlink] at this; cases this
        · rw [hn]; exact ⟨_, rfl⟩

theorem c05_readNumberingProps_ok (env : REnv) (hn : c05_noStyleLinks env = true) (sid : Option Str)
    (numPr : List XmlNode) : ∃ r, readNumberingProps env sid numPr = .ok r := by
  unfold readNumberingProps
  split
  · exact c05_findLevel_ok env hn _ _ _
  · split <;> exact ⟨_, rfl⟩

theorem c05_readFldChar_spec (st : RState) (as : Attrs) (cs : List XmlNode) :
    c05_spec c05_allowed (fun p => p.2.deleted = st.deleted) (readFldChar st as cs) := by
  unfold readFldChar
  dsimp only
  repeat' (first
    | exact c05_spec_ok _ rfl
    | exact ⟨fun e he => (by cases he; exact Or.inr ⟨_, rfl⟩), fun a ha => (by cases ha)⟩
    | refine c05_spec_ite _ _ _ (fun _ => ?_) (fun _ => ?_)
    | split)

end Mammoth
