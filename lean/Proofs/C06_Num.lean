/-
  C06_Num — the decimal printer `c06_printNat` and the model's `digitsToNat`.
-/
import Proofs.C06_Syntax
namespace Mammoth

theorem c06_digitChar_val : ∀ d, d < 10 → (c06_digitChar d).toNat - '0'.toNat = d := by decide

theorem c06_digitChar_isDigit : ∀ d, d < 10 → isDigit (c06_digitChar d) = true := by decide

theorem c06_digitsToNat_snoc (s : Str) (c : Char) :
    digitsToNat (s ++ [c]) = digitsToNat s * 10 + (c.toNat - '0'.toNat) := by
  simp [digitsToNat, List.foldl_append]

theorem c06_digitsToNat_printNatF : ∀ (f n : Nat), n < f → digitsToNat (c06_printNatF f n) = n := by
  intro f
  induction f with
  | zero => intro n h; omega
  | succ f ih =>
    intro n h
    unfold c06_printNatF
    by_cases h10 : n < 10
    · rw [if_pos h10]
      have := c06_digitsToNat_snoc [] (c06_digitChar n)
      simp only [List.nil_append] at this
      rw [this, c06_digitChar_val n h10]; simp [digitsToNat]
    · rw [if_neg h10, c06_digitsToNat_snoc, ih (n / 10) (by omega), c06_digitChar_val _ (by omega)]
      omega

/-- reading back the decimal form gives the number -/
theorem c06_digitsToNat_printNat (n : Nat) : digitsToNat (c06_printNat n) = n :=
  c06_digitsToNat_printNatF (n + 1) n (by omega)

theorem c06_printNatF_digits : ∀ (f n : Nat), ∀ c ∈ c06_printNatF f n, isDigit c = true := by
  intro f
  induction f with
  | zero => intro n c h; simp [c06_printNatF] at h; subst h; decide
  | succ f ih =>
    intro n c h
    unfold c06_printNatF at h
    by_cases h10 : n < 10
    · rw [if_pos h10] at h; simp at h; subst h; exact c06_digitChar_isDigit n h10
    · rw [if_neg h10] at h; simp at h
      rcases h with h | h
      · exact ih _ _ h
      · subst h; exact c06_digitChar_isDigit _ (by omega)

theorem c06_printNat_digits (n : Nat) : ∀ c ∈ c06_printNat n, isDigit c = true :=
  c06_printNatF_digits (n + 1) n

theorem c06_printNatF_ne_nil : ∀ (f n : Nat), c06_printNatF f n ≠ [] := by
  intro f n
  cases f with
  | zero => simp [c06_printNatF]
  | succ f => unfold c06_printNatF; split <;> simp

theorem c06_printNat_ne_nil (n : Nat) : c06_printNat n ≠ [] := c06_printNatF_ne_nil _ _

/-- the level index the model computes from the written number `n ≥ 1` is `str(n - 1)` -/
theorem c06_levelIndexOf_printNat (n : Nat) (h : 1 ≤ n) :
    levelIndexOf (c06_printNat n) = natToStr (n - 1) := by
  unfold levelIndexOf
  simp only [c06_digitsToNat_printNat]
  have : (n == 0) = false := by simp; omega
  simp [this]

end Mammoth
