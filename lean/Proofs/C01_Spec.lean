/-
  C01 — SPECIFICATION of the text of the converter's output.

  The functions below walk the *document* tree (never an HTML node) with the converter's state made
  explicit, and say which characters the output must carry, in which order.  They share with the
  model only the style lookup (`findPath`, `runPropPaths`, `HtmlPath.isIgnore`), the dictionary
  lookups, and — for the state changes of an image, which contribute no text — `convertImage`.
-/
import MammothModel.Convert
import Proofs.Collapse
namespace Mammoth

/-- the path chosen for a styled element: first matching style mapping, else the default -/
def c01_path (cfg : Cfg) (t : Target) (dflt : HtmlPath) : HtmlPath :=
  (findPath cfg t).getD dflt

/-- the only state change of a path lookup: an "Unrecognised … style" warning when nothing matches
    and the element names a style -/
def c01_warnState (cfg : Cfg) (t : Target) (kind : Str) (styleId styleName : Option Str)
    (st : ConvState) : ConvState :=
  match findPath cfg t, styleId with
  | none, some sid =>
    { st with messages := st.messages ++
        [S!"Unrecognised " ++ kind ++ S!" style: " ++ pyOpt styleName ++ S!" (Style ID: " ++ sid ++ S!")"] }
  | _, _ => st

/-- all the paths wrapped around a run's content -/
def c01_runPaths (cfg : Cfg) (r : RunProps) : List HtmlPath :=
  runPropPaths cfg r ++ [c01_path cfg (.run r.styleId r.styleName) (.elements [])]

/-- the marker text of a note reference: `[k]`, k the 1-based number of the reference -/
def c01_noteMarker (st : ConvState) : Str :=
  ['['] ++ natToStr (st.noteRefs.length + 1) ++ [']']

/-- the label of a comment reference: `[` initials count `]` -/
def c01_commentLabel (st : ConvState) (c : Comment) : Str :=
  ['['] ++ commentAuthorLabel c ++ natToStr (st.refComments.length + 1) ++ [']']

mutual
/-- text contributed by one document element, and the converter state after it -/
def c01_elemText (cfg : Cfg) (st : ConvState) : Elem → Except Err (Str × ConvState)
  | .paragraph p cs =>
    let st1 := c01_warnState cfg (.paragraph p) S!"paragraph" p.styleId p.styleName st
    if (c01_path cfg (.paragraph p) (.elements [pathElem S!"p" true])).isIgnore then .ok ([], st1)
    else c01_elemsText cfg st1 cs
  | .run r cs =>
    let st1 := c01_warnState cfg (.run r.styleId r.styleName) S!"run" r.styleId r.styleName st
    if (c01_runPaths cfg r).any HtmlPath.isIgnore then .ok ([], st1)
    else c01_elemsText cfg st1 cs
  | .text s => .ok (s, st)
  | .hyperlink _ cs => c01_elemsText cfg st cs
  | .checkbox _ => .ok ([], st)
  | .table sid sname rows =>
    if (c01_path cfg (.table sid sname) (.elements [pathElem S!"table" true])).isIgnore then .ok ([], st)
    else c01_elemsText cfg st rows
  | .row _ cells => c01_elemsText cfg st cells
  | .cell _ _ _ cs => c01_elemsText cfg st cs
  | .brk _ => .ok ([], st)
  | .tab => .ok (['\t'], st)
  | .image i =>
    -- no text; the state records the converter call, the reads and a possible warning
    match convertImage cfg i st with
    | .ok (_, st1) => .ok ([], st1)
    | .error e => .error e
  | .bookmark _ => .ok ([], st)
  | .noteRef ty id =>
    .ok (c01_noteMarker st, { st with noteRefs := st.noteRefs ++ [(ty, id)] })
  | .commentRef id =>
    match findPath cfg .commentReference with
    | none => .ok ([], st)
    | some .ignore => .ok ([], st)
    | some (.elements _) =>
      match lookupLast id (cfg.comments.map fun c => (c.id, c)) with
      | none => .error (.key id)
      | some c =>
        .ok (c01_commentLabel st c,
             { st with refComments := st.refComments ++ [(c01_commentLabel st c, c)] })
/-- text of a sequence of elements: the concatenation, left to right, threading the state -/
def c01_elemsText (cfg : Cfg) (st : ConvState) : List Elem → Except Err (Str × ConvState)
  | [] => .ok ([], st)
  | e :: es =>
    match c01_elemText cfg st e with
    | .error err => .error err
    | .ok (a, st1) =>
      match c01_elemsText cfg st1 es with
      | .error err => .error err
      | .ok (b, st2) => .ok (a ++ b, st2)
end

/-- concatenate the texts of a sequence of items, left to right, threading the state -/
def c01_seqText {α} (g : ConvState → α → Except Err (Str × ConvState)) (st : ConvState) :
    List α → Except Err (Str × ConvState)
  | [] => .ok ([], st)
  | x :: xs =>
    match g st x with
    | .error e => .error e
    | .ok (a, st1) =>
      match c01_seqText g st1 xs with
      | .error e => .error e
      | .ok (b, st2) => .ok (a ++ b, st2)

/-- a note in the notes list: its body, then the back link " ↑" -/
def c01_noteText (cfg : Cfg) (st : ConvState) (n : Note) : Except Err (Str × ConvState) :=
  match c01_elemsText cfg st n.body with
  | .error e => .error e
  | .ok (t, st1) => .ok (t ++ S!" ↑", st1)

/-- the notes list: one note after the other, threading the state -/
def c01_notesText (cfg : Cfg) (st : ConvState) (ns : List Note) : Except Err (Str × ConvState) :=
  c01_seqText (c01_noteText cfg) st ns

/-- a referenced comment: "Comment " label, its body, then the back link " ↑" -/
def c01_commentText (cfg : Cfg) (st : ConvState) (lc : Str × Comment) : Except Err (Str × ConvState) :=
  match c01_elemsText cfg st lc.2.body with
  | .error e => .error e
  | .ok (t, st1) => .ok (S!"Comment " ++ lc.1 ++ t ++ S!" ↑", st1)

/-- the comments list: one comment after the other, threading the state -/
def c01_commentsText (cfg : Cfg) (st : ConvState) (cs : List (Str × Comment)) : Except Err (Str × ConvState) :=
  c01_seqText (c01_commentText cfg) st cs

/-- the whole document, from a given state: body; then the notes referenced by the body, in
    reference order (every reference is resolved before any note is visited); then the comments
    referenced so far (by the body and by those notes) -/
def c01_docTextSt (cfg : Cfg) (d : Document) (st : ConvState) : Except Err (Str × ConvState) :=
  match c01_elemsText cfg st d.children with
  | .error e => .error e
  | .ok (body, st1) =>
    match st1.noteRefs.mapM (resolveNote d.notes) with
    | .error e => .error e
    | .ok notes =>
      match c01_notesText cfg st1 notes with
      | .error e => .error e
      | .ok (nt, st2) =>
        match c01_commentsText cfg st2 st2.refComments with
        | .error e => .error e
        | .ok (ct, st3) => .ok (body ++ nt ++ ct, st3)

/-- the text `convert_to_html`'s output must have for document `d` -/
def c01_docText (cfg : Cfg) (d : Document) : Except Err Str :=
  match c01_docTextSt { cfg with comments := d.comments } d {} with
  | .ok (t, _) => .ok t
  | .error e => .error e

/-- projection of a converter result to its text -/
def c01_proj : Except Err (List Node × ConvState) → Except Err (Str × ConvState)
  | .ok (ns, st) => .ok (textOfL ns, st)
  | .error e => .error e

/-- projection of a `visitRows` result (head nodes, body nodes) to its text -/
def c01_projRows : Except Err ((List Node × List Node) × ConvState) → Except Err (Str × ConvState)
  | .ok ((h, b), st) => .ok (textOfL h ++ textOfL b, st)
  | .error e => .error e

@[simp] theorem c01_proj_ok (ns : List Node) (st : ConvState) :
    c01_proj (.ok (ns, st)) = .ok (textOfL ns, st) := rfl
@[simp] theorem c01_proj_error (e : Err) : c01_proj (.error e) = .error e := rfl
@[simp] theorem c01_projRows_ok (h b : List Node) (st : ConvState) :
    c01_projRows (.ok ((h, b), st)) = .ok (textOfL h ++ textOfL b, st) := rfl
@[simp] theorem c01_projRows_error (e : Err) : c01_projRows (.error e) = .error e := rfl

end Mammoth
