/-
  C14 — paragraphs, runs and hyperlinks after `strip_empty`, in terms of the nodes of their children.
-/
import Proofs.C14_Sites
namespace Mammoth

def Weight.isFull : Weight → Bool
  | .full => true
  | _ => false

theorem Weight.isFull_iff (w : Weight) : w.isFull = true ↔ w = .full := by
  cases w <;> simp [Weight.isFull]

/-- a path around a forest has content iff the forest has, or the forest is empty and the innermost
    element of the path is void -/
theorem c14_wrap_isFull (es : List Tag) (ns : List Node) :
    ((weightOf ns).wrap es).isFull = (anyContent ns || (ns.isEmpty && endsVoid es)) := by
  unfold weightOf
  cases ha : anyContent ns
  · cases ns with
    | nil =>
      simp only [List.isEmpty_nil, Bool.false_eq_true, if_false, if_true, Weight.wrap_none]
      cases es with
      | nil => rfl
      | cons t ts => cases hv : endsVoid (t :: ts) <;> simp [Weight.isFull]
    | cons c cs => simp [Weight.wrap_hollow, Weight.isFull]
  · simp [Weight.isFull]

/-- `strip_empty` of a path around a forest, by cases on the forest -/
theorem c14_strip_wrapElems (es : List Tag) (ns : List Node) :
    stripEmpty (wrapElems es ns) =
      if (anyContent ns || (ns.isEmpty && endsVoid es)) = true then wrapElems es (stripEmpty ns) else [] := by
  rw [stripEmpty_wrapElems, ← c14_wrap_isFull]
  simp only [Weight.isFull_iff]

/-- the general fact behind C14 at the converter level: what a successful visit of an element returns
    is removed completely by `strip_empty` iff the specification does not say `full` -/
theorem c14_dropped_iff (cfg : Cfg) (hdr : Bool) (e : Elem) (st st' : ConvState) (nodes : List Node)
    (h : visit cfg hdr e st = .ok (nodes, st')) :
    (stripEmpty nodes).isEmpty = !(c14_weight cfg e).isFull := by
  have hw := c14_weight_visit cfg hdr e st nodes st' h
  have hnil := stripEmpty_eq_nil_iff nodes
  rw [hw] at hnil
  cases hf : c14_weight cfg e <;> rw [hf] at hnil
  · simp [Weight.isFull, hnil.mpr (by simp)]
  · simp [Weight.isFull, hnil.mpr (by simp)]
  · have : stripEmpty nodes ≠ [] := fun h0 => (hnil.mp h0) rfl
    cases hs : stripEmpty nodes with
    | nil => exact absurd hs this
    | cons a as => simp [Weight.isFull]

theorem c14_dropped_iff_all (cfg : Cfg) (hdr : Bool) (es : List Elem) (st st' : ConvState) (nodes : List Node)
    (h : visitAll cfg hdr es st = .ok (nodes, st')) :
    (stripEmpty nodes).isEmpty = !(c14_weightL cfg es).isFull := by
  have hw := c14_weight_visitAll cfg hdr es st nodes st' h
  have hnil := stripEmpty_eq_nil_iff nodes
  rw [hw] at hnil
  cases hf : c14_weightL cfg es <;> rw [hf] at hnil
  · simp [Weight.isFull, hnil.mpr (by simp)]
  · simp [Weight.isFull, hnil.mpr (by simp)]
  · have : stripEmpty nodes ≠ [] := fun h0 => (hnil.mp h0) rfl
    cases hs : stripEmpty nodes with
    | nil => exact absurd hs this
    | cons a as => simp [Weight.isFull]

/-! ### paragraphs -/

/-- the stripped nodes of a paragraph not mapped to `!` -/
theorem c14_paragraph_stripped (cfg : Cfg) (hdr : Bool) (p : ParaProps) (cs : List Elem) (es : List Tag)
    (st st' : ConvState) (nodes : List Node)
    (hp : c01_path cfg (.paragraph p) (.elements [pathElem S!"p" true]) = .elements es)
    (h : visit cfg hdr (.paragraph p cs) st = .ok (nodes, st')) :
    ∃ content,
      visitAll cfg hdr cs (c01_warnState cfg (.paragraph p) S!"paragraph" p.styleId p.styleName st)
        = .ok (content, st') ∧
      stripEmpty nodes =
        if cfg.ignoreEmpty then
          (if (anyContent content || (content.isEmpty && endsVoid es)) = true
           then wrapElems es (stripEmpty content) else [])
        else wrapElems es (.forceWrite :: stripEmpty content) := by
  obtain ⟨content, hc, hn⟩ := c14_visit_paragraph cfg hdr p cs es st st' nodes hp h
  refine ⟨content, hc, ?_⟩
  rw [hn]
  cases cfg.ignoreEmpty with
  | true => simp only [if_true]; exact c14_strip_wrapElems es content
  | false => simp only [Bool.false_eq_true, if_false]; exact stripEmpty_wrapElems_fw es content

/-- `ignore_empty_paragraphs=False`: the whole path of the paragraph is written, whatever is inside -/
theorem c14_keep_all_paragraphs (cfg : Cfg) (hdr : Bool) (p : ParaProps) (cs : List Elem) (es : List Tag)
    (st st' : ConvState) (nodes : List Node) (hi : cfg.ignoreEmpty = false)
    (hp : c01_path cfg (.paragraph p) (.elements [pathElem S!"p" true]) = .elements es)
    (h : visit cfg hdr (.paragraph p cs) st = .ok (nodes, st')) :
    ∃ content,
      visitAll cfg hdr cs (c01_warnState cfg (.paragraph p) S!"paragraph" p.styleId p.styleName st)
        = .ok (content, st') ∧
      stripEmpty nodes = wrapElems es (.forceWrite :: stripEmpty content) := by
  obtain ⟨content, hc, hn⟩ := c14_paragraph_stripped cfg hdr p cs es st st' nodes hp h
  exact ⟨content, hc, by simpa [hi] using hn⟩

/-- … in particular the block element (the first element of the path) is there -/
theorem c14_keep_all_paragraphs_head (cfg : Cfg) (hdr : Bool) (p : ParaProps) (cs : List Elem)
    (t : Tag) (ts : List Tag) (st st' : ConvState) (nodes : List Node) (hi : cfg.ignoreEmpty = false)
    (hp : c01_path cfg (.paragraph p) (.elements [pathElem S!"p" true]) = .elements (t :: ts))
    (h : visit cfg hdr (.paragraph p cs) st = .ok (nodes, st')) :
    ∃ kids, stripEmpty nodes = [.elem t kids] := by
  obtain ⟨content, _, hn⟩ := c14_keep_all_paragraphs cfg hdr p cs (t :: ts) st st' nodes hi hp h
  exact ⟨_, by rw [hn]; rfl⟩

/-- default setting, nothing with content below: the paragraph disappears with its whole path (unless
    there is nothing at all below and the innermost element of the path is void) -/
theorem c14_empty_paragraph_dropped (cfg : Cfg) (hdr : Bool) (p : ParaProps) (cs : List Elem) (es : List Tag)
    (st st' : ConvState) (nodes content : List Node) (hi : cfg.ignoreEmpty = true)
    (hp : c01_path cfg (.paragraph p) (.elements [pathElem S!"p" true]) = .elements es)
    (h : visit cfg hdr (.paragraph p cs) st = .ok (nodes, st'))
    (hc : visitAll cfg hdr cs (c01_warnState cfg (.paragraph p) S!"paragraph" p.styleId p.styleName st)
        = .ok (content, st'))
    (hempty : anyContent content = false) (hvoid : (content.isEmpty && endsVoid es) = false) :
    stripEmpty nodes = [] := by
  obtain ⟨content', hc', hn⟩ := c14_paragraph_stripped cfg hdr p cs es st st' nodes hp h
  rw [hc] at hc'
  simp only [Except.ok.injEq, Prod.mk.injEq] at hc'
  rw [← hc'.1] at hn
  simpa [hi, hempty, hvoid] using hn

/-- something with content below: the paragraph is written with its whole path, under both settings -/
theorem c14_contentful_paragraph_kept (cfg : Cfg) (hdr : Bool) (p : ParaProps) (cs : List Elem)
    (es : List Tag) (st st' : ConvState) (nodes content : List Node)
    (hp : c01_path cfg (.paragraph p) (.elements [pathElem S!"p" true]) = .elements es)
    (h : visit cfg hdr (.paragraph p cs) st = .ok (nodes, st'))
    (hc : visitAll cfg hdr cs (c01_warnState cfg (.paragraph p) S!"paragraph" p.styleId p.styleName st)
        = .ok (content, st'))
    (hfull : anyContent content = true) :
    stripEmpty nodes =
      wrapElems es ((if cfg.ignoreEmpty then [] else [.forceWrite]) ++ stripEmpty content) := by
  obtain ⟨content', hc', hn⟩ := c14_paragraph_stripped cfg hdr p cs es st st' nodes hp h
  rw [hc] at hc'
  simp only [Except.ok.injEq, Prod.mk.injEq] at hc'
  rw [← hc'.1] at hn
  cases hi : cfg.ignoreEmpty <;> simpa [hi, hfull] using hn

/-! ### runs and hyperlinks -/

/-- the stripped nodes of a run none of whose paths is `!` -/
theorem c14_run_stripped (cfg : Cfg) (hdr : Bool) (r : RunProps) (cs : List Elem)
    (st st' : ConvState) (nodes : List Node)
    (hno : (c01_runPaths cfg r).any HtmlPath.isIgnore = false)
    (h : visit cfg hdr (.run r cs) st = .ok (nodes, st')) :
    ∃ content,
      visitAll cfg hdr cs (c01_warnState cfg (.run r.styleId r.styleName) S!"run" r.styleId r.styleName st)
        = .ok (content, st') ∧
      stripEmpty nodes =
        if (anyContent content || (content.isEmpty && endsVoid (c14_tags (c01_runPaths cfg r)))) = true
        then wrapElems (c14_tags (c01_runPaths cfg r)) (stripEmpty content) else [] := by
  have := c14_visit_run cfg hdr r cs st st' nodes h
  simp only [hno, Bool.false_eq_true, if_false] at this
  obtain ⟨content, hc, hn⟩ := this
  exact ⟨content, hc, by rw [hn]; exact c14_strip_wrapElems _ content⟩

/-- a run whose children leave nothing with content disappears with all its formatting elements -/
theorem c14_empty_run_dropped (cfg : Cfg) (hdr : Bool) (r : RunProps) (cs : List Elem)
    (st st' : ConvState) (nodes content : List Node)
    (hno : (c01_runPaths cfg r).any HtmlPath.isIgnore = false)
    (h : visit cfg hdr (.run r cs) st = .ok (nodes, st'))
    (hc : visitAll cfg hdr cs (c01_warnState cfg (.run r.styleId r.styleName) S!"run" r.styleId r.styleName st)
        = .ok (content, st'))
    (hempty : anyContent content = false)
    (hvoid : (content.isEmpty && endsVoid (c14_tags (c01_runPaths cfg r))) = false) :
    stripEmpty nodes = [] := by
  obtain ⟨content', hc', hn⟩ := c14_run_stripped cfg hdr r cs st st' nodes hno h
  rw [hc] at hc'
  simp only [Except.ok.injEq, Prod.mk.injEq] at hc'
  rw [← hc'.1] at hn
  simpa [hempty, hvoid] using hn

theorem c14_endsVoid_link (cfg : Cfg) (l : LinkProps) : endsVoid [c14_linkTag cfg l] = false := by
  simp only [endsVoid, voidTag, c14_linkTag]; rfl

/-- a hyperlink: the `a` element around the stripped content if that has content, otherwise nothing -/
theorem c14_hyperlink_stripped (cfg : Cfg) (hdr : Bool) (l : LinkProps) (cs : List Elem)
    (st st' : ConvState) (nodes : List Node)
    (h : visit cfg hdr (.hyperlink l cs) st = .ok (nodes, st')) :
    ∃ content, visitAll cfg hdr cs st = .ok (content, st') ∧
      stripEmpty nodes =
        if anyContent content = true then [.elem (c14_linkTag cfg l) (stripEmpty content)] else [] := by
  obtain ⟨content, hc, hn⟩ := c14_visit_hyperlink cfg hdr l cs st st' nodes h
  refine ⟨content, hc, ?_⟩
  have := c14_strip_wrapElems [c14_linkTag cfg l] content
  rw [c14_endsVoid_link] at this
  simp only [wrapElems, Bool.and_false, Bool.or_false] at this
  rw [hn, this]

/-! ### rows, cells, bookmarks, void elements -/

theorem c14_row_stripped (cfg : Cfg) (hdr hh : Bool) (cells : List Elem) (st st' : ConvState)
    (nodes : List Node) (h : visit cfg hdr (.row hh cells) st = .ok (nodes, st')) :
    ∃ ns, visitAll cfg hdr cells st = .ok (ns, st') ∧
      stripEmpty nodes = [el S!"tr" [] (.forceWrite :: stripEmpty ns)] := by
  obtain ⟨ns, h1, h2⟩ := c14_visit_row cfg hdr hh cells st st' nodes h
  exact ⟨ns, h1, by rw [h2, stripEmpty_el_fw]⟩

theorem c14_cell_stripped (cfg : Cfg) (hdr : Bool) (c r : Nat) (vm : Bool) (cs : List Elem)
    (st st' : ConvState) (nodes : List Node) (h : visit cfg hdr (.cell c r vm cs) st = .ok (nodes, st')) :
    ∃ ns, visitAll cfg hdr cs st = .ok (ns, st') ∧
      stripEmpty nodes =
        [el (if hdr then S!"th" else S!"td") (cellAttrs c r) (.forceWrite :: stripEmpty ns)] := by
  obtain ⟨ns, h1, h2⟩ := c14_visit_cell cfg hdr c r vm cs st st' nodes h
  exact ⟨ns, h1, by rw [h2, stripEmpty_el_fw]⟩

theorem c14_bookmark_stripped (cfg : Cfg) (hdr : Bool) (name : Option Str) (st : ConvState) :
    ∃ nodes, visit cfg hdr (.bookmark name) st = .ok (nodes, st) ∧
      nodes = [.elem { name := S!"a", attrs := [(S!"id", cfg.idPrefix ++ pyOpt name)], collapsible := true }
                [.forceWrite]] ∧
      stripEmpty nodes = nodes := by
  refine ⟨_, c14_visit_bookmark cfg hdr name st, rfl, ?_⟩
  exact stripEmpty_wrapElems_fw [_] []

theorem c14_checkbox_stripped (cfg : Cfg) (hdr : Bool) (c : Bool) (st : ConvState) :
    ∃ nodes, visit cfg hdr (.checkbox c) st = .ok (nodes, st) ∧
      nodes = [el S!"input" ([(S!"type", S!"checkbox")] ++ (if c then [(S!"checked", S!"checked")] else [])) []] ∧
      stripEmpty nodes = nodes := by
  refine ⟨_, c14_visit_checkbox cfg hdr c st, rfl, ?_⟩
  exact stripEmpty_void _ (by rfl)

/-- a line break without a mapping: `<br />`, kept -/
theorem c14_line_break_stripped (cfg : Cfg) (hdr : Bool) (st : ConvState)
    (hf : findPath cfg (.brk S!"line") = none) :
    visit cfg hdr (.brk S!"line") st = .ok ([.elem (pathElem S!"br" true) []], st) ∧
    stripEmpty [.elem (pathElem S!"br" true) []] = [.elem (pathElem S!"br" true) []] := by
  refine ⟨?_, stripEmpty_void _ (by rfl)⟩
  simp only [visit, hf]
  rfl

/-- a break mapped to a path: the path (around nothing) is written iff its innermost element is void -/
theorem c14_mapped_break_stripped (cfg : Cfg) (hdr : Bool) (ty : Str) (es : List Tag) (st : ConvState)
    (hf : findPath cfg (.brk ty) = some (.elements es)) :
    visit cfg hdr (.brk ty) st = .ok (wrapElems es [], st) ∧
    stripEmpty (wrapElems es []) = if endsVoid es = true then wrapElems es [] else [] := by
  refine ⟨?_, ?_⟩
  · simp only [visit, hf]; rfl
  · have := c14_strip_wrapElems es []
    simpa [anyContent, stripEmpty, stripList] using this

/-- an image: whatever is returned (nothing, or one `img`) is kept as it is -/
theorem c14_image_stripped (cfg : Cfg) (hdr : Bool) (i : ImageProps) (st st' : ConvState) (nodes : List Node)
    (h : visit cfg hdr (.image i) st = .ok (nodes, st')) :
    stripEmpty nodes = nodes ∧ nodes.length = if c14_imageShown cfg i then 1 else 0 := by
  have hw := c14_weight_visit cfg hdr (.image i) st nodes st' h
  simp only [visit] at h
  rcases c14_convertImage_shape cfg i st st' nodes h with h0 | ⟨attrs, h1⟩
  · subst h0
    refine ⟨rfl, ?_⟩
    simp only [c14_weight, weightOf_nil] at hw
    cases hs : c14_imageShown cfg i <;> simp [hs] at hw ⊢
  · subst h1
    refine ⟨stripEmpty_void _ (by rfl), ?_⟩
    simp only [c14_weight, c14_weightOf_img] at hw
    cases hs : c14_imageShown cfg i <;> simp [hs] at hw ⊢

end Mammoth
