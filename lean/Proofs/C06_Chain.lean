/-
  C06_Chain — the token list of a printed mapping is a chain: each token is what the tokeniser
  produces at its position.
-/
import Proofs.C06_Tokenise
namespace Mammoth

/-! ### adding one token in front of a chain -/

theorem c06_printIdent_ne_nil (s : Str) (hs : s ≠ []) : c06_printIdent s ≠ [] := by
  obtain ⟨c, t, h, _⟩ := c06_printIdent_head s hs
  rw [h]; simp

theorem c06_identOK_ne (s : Str) (h : c06_identOK s = true) : s ≠ [] := by
  cases s <;> simp_all [c06_identOK]

theorem c06_chain_id (s : Str) (ts : List Token) (rest : Str) (hs : c06_identOK s = true)
    (hstop : c06_stop (c06_text ts ++ rest) = true) (h : c06_chain ts rest) :
    c06_chain (c06_id s :: ts) rest :=
  ⟨c06_printIdent_ne_nil s (c06_identOK_ne s hs), c06_lexOne_id s _ (c06_identOK_ne s hs) hstop, h⟩

theorem c06_chain_kw (w : Str) (ts : List Token) (rest : Str) (hw : c06_printIdent w = w)
    (hne : c06_identOK w = true) (hstop : c06_stop (c06_text ts ++ rest) = true) (h : c06_chain ts rest) :
    c06_chain (c06_kw w :: ts) rest := by
  have : c06_kw w = c06_id w := by simp [c06_kw, c06_id, hw]
  rw [this]; exact c06_chain_id w ts rest hne hstop h

theorem c06_chain_sym (v : Str) (ts : List Token) (rest : Str) (hv : v ∈ c06_symbols) (hne : v ≠ ['='])
    (h : c06_chain ts rest) : c06_chain (c06_sym v :: ts) rest := by
  refine ⟨?_, c06_lexOne_sym v _ hv (fun e => absurd e hne), h⟩
  intro e; simp [c06_sym] at e; subst e; simp [c06_symbols] at hv

theorem c06_chain_str (s : Str) (ts : List Token) (rest : Str) (h : c06_chain ts rest) :
    c06_chain (c06_str s :: ts) rest :=
  ⟨by simp [c06_str, c06_printString], c06_lexOne_str s _, h⟩

theorem c06_chain_eq_str (s : Str) (ts : List Token) (rest : Str) (h : c06_chain ts rest) :
    c06_chain (c06_sym ['='] :: c06_str s :: ts) rest := by
  refine ⟨by simp [c06_sym], c06_lexOne_sym ['='] _ (by simp [c06_symbols]) (fun _ => ?_), c06_chain_str s ts rest h⟩
  simp [c06_text, c06_str, c06_printString, c06_headNe]

theorem c06_chain_sp (ts : List Token) (rest : Str) (hn : c06_headNe isSpace (c06_text ts ++ rest) = true)
    (h : c06_chain ts rest) : c06_chain (c06_sp :: ts) rest :=
  ⟨by simp [c06_sp], c06_lexOne_sp _ hn, h⟩

theorem c06_chain_int (n : Nat) (ts : List Token) (rest : Str)
    (hn : c06_headNe isDigit (c06_text ts ++ rest) = true) (h : c06_chain ts rest) :
    c06_chain (⟨.integer, c06_printNat n⟩ :: ts) rest :=
  ⟨c06_printNat_ne_nil n, c06_lexOne_int _ _ (c06_printNat_ne_nil n) (c06_printNat_digits n) hn, h⟩

/-! ### what may follow an identifier -/

theorem c06_stop_sym (v : Str) (hv : v ∈ c06_symbols) (ts : List Token) (rest : Str) :
    c06_stop (c06_text (c06_sym v :: ts) ++ rest) = true := by
  simp only [c06_symbols, List.mem_cons, List.not_mem_nil, or_false] at hv
  rcases hv with rfl | rfl | rfl | rfl | rfl | rfl | rfl | rfl | rfl | rfl | rfl | rfl <;>
    (simp only [c06_text, c06_sym, List.cons_append, List.nil_append, c06_stop]; decide)

theorem c06_stop_sp (ts : List Token) (rest : Str) :
    c06_stop (c06_text (c06_sp :: ts) ++ rest) = true := by
  simp only [c06_text, c06_sp, List.cons_append, List.nil_append, c06_stop]; decide

theorem c06_stop_sid (sid : Option Str) (rest : Str) (h : c06_stop rest = true) :
    c06_stop (c06_text (c06_sidToks sid) ++ rest) = true := by
  cases sid with
  | none => simpa [c06_sidToks, c06_text] using h
  | some s => exact c06_stop_sym _ (by simp [c06_symbols]) _ _

theorem c06_stop_sn (sn : Option StrMatch) (rest : Str) (h : c06_stop rest = true) :
    c06_stop (c06_text (c06_snToks sn) ++ rest) = true := by
  cases sn with
  | none => simpa [c06_snToks, c06_text] using h
  | some s => exact c06_stop_sym _ (by simp [c06_symbols]) _ _

theorem c06_stop_num (num : Option c06_Level) (rest : Str) (h : c06_stop rest = true) :
    c06_stop (c06_text (c06_numToks num) ++ rest) = true := by
  cases num with
  | none => simpa [c06_numToks, c06_text] using h
  | some s => exact c06_stop_sym _ (by simp [c06_symbols]) _ _

theorem c06_stop_alts (as : List Str) (rest : Str) (h : c06_stop rest = true) :
    c06_stop (c06_text (c06_altToks as) ++ rest) = true := by
  cases as with
  | nil => simpa [c06_altToks, c06_text] using h
  | cons a as => exact c06_stop_sym _ (by simp [c06_symbols]) _ _

theorem c06_stop_events (evs : List AttrOrClass) (rest : Str) (h : c06_stop rest = true) :
    c06_stop (c06_text (c06_eventToks evs) ++ rest) = true := by
  cases evs with
  | nil => simpa [c06_eventToks, c06_text] using h
  | cons e evs => cases e <;> exact c06_stop_sym _ (by simp [c06_symbols]) _ _

theorem c06_stop_fresh (b : Bool) (rest : Str) (h : c06_stop rest = true) :
    c06_stop (c06_text (c06_freshToks b) ++ rest) = true := by
  cases b with
  | false => simpa [c06_freshToks, c06_text] using h
  | true => exact c06_stop_sym _ (by simp [c06_symbols]) _ _

theorem c06_stop_sep (s : Option Str) (rest : Str) (h : c06_stop rest = true) :
    c06_stop (c06_text (c06_sepToks s) ++ rest) = true := by
  cases s with
  | none => simpa [c06_sepToks, c06_text] using h
  | some s => exact c06_stop_sym _ (by simp [c06_symbols]) _ _

/-! ### the matcher -/

theorem c06_chain_sid (sid : Option Str) (rest : Str) (hok : c06_optIdentOK sid = true)
    (h : c06_stop rest = true) : c06_chain (c06_sidToks sid) rest := by
  cases sid with
  | none => trivial
  | some s =>
    exact c06_chain_sym _ _ _ (by simp [c06_symbols]) (by decide)
      (c06_chain_id s [] rest hok (by simpa [c06_text] using h) trivial)

theorem c06_chain_sn (sn : Option StrMatch) (rest : Str) : c06_chain (c06_snToks sn) rest := by
  cases sn with
  | none => trivial
  | some m =>
    refine c06_chain_sym _ _ _ (by simp [c06_symbols]) (by decide) ?_
    cases m with
    | equalTo v =>
      exact c06_chain_kw _ _ _ (by decide) (by decide) (c06_stop_sym _ (by simp [c06_symbols]) _ _)
        (c06_chain_eq_str v _ _ (c06_chain_sym _ _ _ (by simp [c06_symbols]) (by decide) trivial))
    | startsWith v =>
      exact c06_chain_kw _ _ _ (by decide) (by decide) (c06_stop_sym _ (by simp [c06_symbols]) _ _)
        (c06_chain_sym _ _ _ (by simp [c06_symbols]) (by decide)
          (c06_chain_str v _ _ (c06_chain_sym _ _ _ (by simp [c06_symbols]) (by decide) trivial)))

theorem c06_chain_num (num : Option c06_Level) (rest : Str) : c06_chain (c06_numToks num) rest := by
  cases num with
  | none => trivial
  | some l =>
    refine c06_chain_sym _ _ _ (by simp [c06_symbols]) (by decide) ?_
    have hw : c06_printIdent (c06_listWord l.ordered) = c06_listWord l.ordered ∧
        c06_identOK (c06_listWord l.ordered) = true := by
      cases l.ordered <;> decide
    exact c06_chain_kw _ _ _ hw.1 hw.2 (c06_stop_sym _ (by simp [c06_symbols]) _ _)
      (c06_chain_sym _ _ _ (by simp [c06_symbols]) (by decide)
        (c06_chain_int l.n _ _ (by simp [c06_text, c06_sym, c06_headNe]; decide)
          (c06_chain_sym _ _ _ (by simp [c06_symbols]) (by decide) trivial)))

theorem c06_chain_bracket (key v : Str) (rest : Str) (hw : c06_printIdent key = key)
    (hne : c06_identOK key = true) : c06_chain (c06_bracketToks key v) rest :=
  c06_chain_sym _ _ _ (by simp [c06_symbols]) (by decide)
    (c06_chain_kw _ _ _ hw hne (c06_stop_sym _ (by simp [c06_symbols]) _ _)
      (c06_chain_eq_str v _ _ (c06_chain_sym _ _ _ (by simp [c06_symbols]) (by decide) trivial)))

theorem c06_chain_matcher (m : c06_Matcher) (rest : Str) (hok : c06_matcherOK m = true)
    (h : c06_stop rest = true) : c06_chain (c06_matcherToks m) rest := by
  cases m with
  | paragraph sid sn num =>
    simp only [c06_matcherOK, Bool.and_eq_true] at hok
    refine c06_chain_kw _ _ _ (by decide) (by decide) ?_ ?_
    · simp only [c06_text_append, List.append_assoc]
      exact c06_stop_sid _ _ (c06_stop_sn _ _ (c06_stop_num _ _ h))
    · refine c06_chain_append _ _ _ (c06_chain_sid _ _ hok.1 ?_) (c06_chain_append _ _ _ (c06_chain_sn _ _) (c06_chain_num _ _))
      simp only [c06_text_append, List.append_assoc]
      exact c06_stop_sn _ _ (c06_stop_num _ _ h)
  | run sid sn =>
    simp only [c06_matcherOK] at hok
    refine c06_chain_kw _ _ _ (by decide) (by decide) ?_ ?_
    · simp only [c06_text_append, List.append_assoc]
      exact c06_stop_sid _ _ (c06_stop_sn _ _ h)
    · exact c06_chain_append _ _ _ (c06_chain_sid _ _ hok (c06_stop_sn _ _ h)) (c06_chain_sn _ _)
  | table sid sn =>
    simp only [c06_matcherOK] at hok
    refine c06_chain_kw _ _ _ (by decide) (by decide) ?_ ?_
    · simp only [c06_text_append, List.append_assoc]
      exact c06_stop_sid _ _ (c06_stop_sn _ _ h)
    · exact c06_chain_append _ _ _ (c06_chain_sid _ _ hok (c06_stop_sn _ _ h)) (c06_chain_sn _ _)
  | highlight c =>
    cases c with
    | none => exact c06_chain_kw _ _ _ (by decide) (by decide) (by simpa [c06_text] using h) trivial
    | some c =>
      exact c06_chain_kw _ _ _ (by decide) (by decide) (c06_stop_sym _ (by simp [c06_symbols]) _ _)
        (c06_chain_bracket _ _ _ (by decide) (by decide))
  | brk ty =>
    exact c06_chain_kw _ _ _ (by decide) (by decide) (c06_stop_sym _ (by simp [c06_symbols]) _ _)
      (c06_chain_bracket _ _ _ (by decide) (by decide))
  | _ => exact c06_chain_kw _ _ _ (by decide) (by decide) (by simpa [c06_text] using h) trivial

/-! ### the HTML path -/

theorem c06_chain_alts (as : List Str) (rest : Str) (hok : as.all c06_identOK = true)
    (h : c06_stop rest = true) : c06_chain (c06_altToks as) rest := by
  induction as with
  | nil => trivial
  | cons a as ih =>
    simp only [List.all_cons, Bool.and_eq_true] at hok
    exact c06_chain_sym _ _ _ (by simp [c06_symbols]) (by decide)
      (c06_chain_id a _ _ hok.1 (c06_stop_alts as rest h) (ih hok.2))

theorem c06_chain_events (evs : List AttrOrClass) (rest : Str) (hok : evs.all c06_eventOK = true)
    (h : c06_stop rest = true) : c06_chain (c06_eventToks evs) rest := by
  induction evs with
  | nil => trivial
  | cons e evs ih =>
    simp only [List.all_cons, Bool.and_eq_true] at hok
    cases e with
    | attr n v =>
      exact c06_chain_sym _ _ _ (by simp [c06_symbols]) (by decide)
        (c06_chain_id n _ _ hok.1 (c06_stop_sym _ (by simp [c06_symbols]) _ _)
          (c06_chain_eq_str v _ _ (c06_chain_sym _ _ _ (by simp [c06_symbols]) (by decide) (ih hok.2))))
    | cls c =>
      exact c06_chain_sym _ _ _ (by simp [c06_symbols]) (by decide)
        (c06_chain_id c _ _ hok.1 (c06_stop_events evs rest h) (ih hok.2))

theorem c06_chain_fresh (b : Bool) (rest : Str) (h : c06_stop rest = true) :
    c06_chain (c06_freshToks b) rest := by
  cases b with
  | false => trivial
  | true =>
    exact c06_chain_sym _ _ _ (by simp [c06_symbols]) (by decide)
      (c06_chain_kw _ _ _ (by decide) (by decide) (by simpa [c06_text] using h) trivial)

theorem c06_chain_sep (s : Option Str) (rest : Str) : c06_chain (c06_sepToks s) rest := by
  cases s with
  | none => trivial
  | some v =>
    exact c06_chain_sym _ _ _ (by simp [c06_symbols]) (by decide)
      (c06_chain_kw _ _ _ (by decide) (by decide) (c06_stop_sym _ (by simp [c06_symbols]) _ _)
        (c06_chain_sym _ _ _ (by simp [c06_symbols]) (by decide)
          (c06_chain_str v _ _ (c06_chain_sym _ _ _ (by simp [c06_symbols]) (by decide) trivial))))

theorem c06_chain_elem (e : c06_Elem) (rest : Str) (hok : c06_elemOK e = true)
    (h : c06_stop rest = true) : c06_chain (c06_elemToks e) rest := by
  simp only [c06_elemOK, Bool.and_eq_true] at hok
  have h3 := c06_stop_sep e.sep rest h
  have h2 := c06_stop_fresh e.fresh _ h3
  have h1 := c06_stop_events e.events _ h2
  have h0 := c06_stop_alts e.alts _ h1
  refine c06_chain_id _ _ _ hok.1.1 ?_ ?_
  · simpa only [c06_text_append, List.append_assoc] using h0
  · refine c06_chain_append _ _ _ (c06_chain_alts _ _ hok.1.2 ?_) (c06_chain_append _ _ _
      (c06_chain_events _ _ hok.2 ?_) (c06_chain_append _ _ _ (c06_chain_fresh _ _ h3) (c06_chain_sep _ _)))
    · simpa only [c06_text_append, List.append_assoc] using h1
    · simpa only [c06_text_append, List.append_assoc] using h2

theorem c06_headNe_space_ident (s : Str) (hs : c06_identOK s = true) (X : Str) :
    c06_headNe isSpace (c06_printIdent s ++ X) = true := by
  obtain ⟨c, t, h, hc⟩ := c06_printIdent_head s (c06_identOK_ne s hs)
  rw [h]
  rcases hc with rfl | hc
  · simp [c06_headNe]; decide
  · simp [c06_headNe, c06_identStart_not_space c hc]

theorem c06_stop_more (es : List c06_Elem) (rest : Str) (h : c06_stop rest = true) :
    c06_stop (c06_text (c06_moreToks es) ++ rest) = true := by
  cases es with
  | nil => simpa [c06_moreToks, c06_text] using h
  | cons e es => exact c06_stop_sp _ _

theorem c06_chain_more (es : List c06_Elem) (rest : Str) (hok : es.all c06_elemOK = true)
    (h : c06_stop rest = true) : c06_chain (c06_moreToks es) rest := by
  induction es with
  | nil => trivial
  | cons e es ih =>
    simp only [List.all_cons, Bool.and_eq_true] at hok
    have hname : c06_identOK e.name = true := by
      have := hok.1; simp only [c06_elemOK, Bool.and_eq_true] at this; exact this.1.1
    refine c06_chain_sp _ _ (by simp [c06_text, c06_sym, c06_headNe]; decide)
      (c06_chain_sym _ _ _ (by simp [c06_symbols]) (by decide)
        (c06_chain_sp _ _ ?_ (c06_chain_append _ _ _ (c06_chain_elem e _ hok.1 (c06_stop_more es rest h)) (ih hok.2))))
    simp only [c06_elemToks, List.cons_append, c06_text, c06_id, List.append_assoc]
    exact c06_headNe_space_ident _ hname _

theorem c06_chain_path (p : c06_Path) (hok : c06_pathOK p = true) : c06_chain (c06_pathToks p) [] := by
  cases p with
  | ignore => exact c06_chain_sym _ _ _ (by simp [c06_symbols]) (by decide) trivial
  | elems es =>
    cases es with
    | nil => trivial
    | cons e es =>
      simp only [c06_pathOK, List.all_cons, Bool.and_eq_true] at hok
      exact c06_chain_append _ _ _ (c06_chain_elem e _ hok.1 (c06_stop_more es [] rfl))
        (c06_chain_more es [] hok.2 rfl)

theorem c06_headNe_space_path (p : c06_Path) (hok : c06_pathOK p = true) :
    c06_headNe isSpace (c06_text (c06_pathToks p) ++ []) = true := by
  cases p with
  | ignore => simp [c06_pathToks, c06_text, c06_sym, c06_headNe]; decide
  | elems es =>
    cases es with
    | nil => rfl
    | cons e es =>
      simp only [c06_pathOK, List.all_cons, Bool.and_eq_true, c06_elemOK] at hok
      simp only [c06_pathToks, c06_elemToks, List.cons_append, c06_text, c06_id, List.append_assoc]
      exact c06_headNe_space_ident _ hok.1.1.1 _

/-- the whole intended token list is a chain -/
theorem c06_chain_tokens (sp : Bool) (m : c06_Mapping) (hok : c06_expressible m = true) :
    c06_chain (c06_tokens sp m) [] := by
  simp only [c06_expressible, Bool.and_eq_true] at hok
  refine c06_chain_append _ _ _ (c06_chain_matcher _ _ hok.1 (c06_stop_sp _ _)) ?_
  refine c06_chain_sp _ _ (by simp [c06_text, c06_sym, c06_headNe]; decide)
    (c06_chain_sym _ _ _ (by simp [c06_symbols]) (by decide) ?_)
  cases sp with
  | false => simpa using c06_chain_path _ hok.2
  | true =>
    simp only [if_true, List.cons_append, List.nil_append]
    exact c06_chain_sp _ _ (c06_headNe_space_path _ hok.2) (c06_chain_path _ hok.2)

/-- tokenising the printed text gives the intended tokens and END -/
theorem c06_tokenise_print (sp : Bool) (m : c06_Mapping) (hok : c06_expressible m = true) :
    tokenise (c06_print sp m) = some (c06_tokens sp m ++ [c06_end]) :=
  c06_tokenise_chain _ (c06_chain_tokens sp m hok)

end Mammoth
