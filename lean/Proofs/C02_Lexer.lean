/-
  C02 — a strict lexer for exactly the grammar the HTML writer emits, written as a left fold of a
  one-character state transducer, and the lemmas that run it over the pieces of the writer's output.
-/
import Proofs.C02_Escape
import Proofs.C02_Tokens
namespace Mammoth

/-! ### plain names -/

/-- characters allowed in tag names and attribute keys: anything but whitespace and `< > / = " &` -/
def c02_nameChar (c : Char) : Bool :=
  !isSpace c && c != '<' && c != '>' && c != '/' && c != '=' && c != '"' && c != '&'

/-- a non-empty string of name characters -/
def c02_plainName (s : Str) : Bool := !s.isEmpty && s.all c02_nameChar

def c02_plainAttrs (d : Dict Str) : Bool := d.all fun kv => c02_plainName kv.1

mutual
def c02_plainNamesN : Node → Bool
  | .text _ => true
  | .forceWrite => true
  | .elem t cs => c02_plainName t.name && c02_plainAttrs t.attrs && c02_plainNames cs
/-- every tag name and every attribute key of the forest is a plain name (attribute values and text
    are arbitrary) -/
def c02_plainNames : List Node → Bool
  | [] => true
  | c :: cs => c02_plainNamesN c && c02_plainNames cs
end

/-! ### the transducer -/

inductive c02_Mode where
  /-- between tags; `acc` = decoded text since the last tag -/
  | text (acc : Str)
  /-- inside an entity in text; `buf` = characters since the `&` -/
  | ent (acc buf : Str)
  /-- after `<`: reading an element name (`n` = what was read so far) -/
  | name (n : Str)
  /-- inside a start tag, after the name and after the closing quote of each attribute -/
  | attrs (n : Str) (as : List (Str × Str))
  /-- inside a start tag, after a space: an attribute key or `/` must follow -/
  | sp (n : Str) (as : List (Str × Str))
  /-- reading an attribute key -/
  | key (n : Str) (as : List (Str × Str)) (k : Str)
  /-- after `key=`: the opening quote must follow -/
  | eq (n : Str) (as : List (Str × Str)) (k : Str)
  /-- inside a quoted attribute value; `v` = decoded value so far -/
  | val (n : Str) (as : List (Str × Str)) (k v : Str)
  /-- inside an entity in an attribute value -/
  | vent (n : Str) (as : List (Str × Str)) (k v buf : Str)
  /-- after ` /` in a start tag: `>` must follow -/
  | slash (n : Str) (as : List (Str × Str))
  /-- after `</`: reading the name of an end tag -/
  | close (n : Str)
  /-- the input is not in the grammar -/
  | fail
deriving DecidableEq, Repr, Inhabited

structure c02_St where
  toks : List c02_Tok
  mode : c02_Mode
deriving DecidableEq, Repr, Inhabited

/-- the four entity names -/
def c02_entity (buf : Str) : Option Char :=
  if buf = S!"amp" then some '&' else if buf = S!"lt" then some '<'
  else if buf = S!"gt" then some '>' else if buf = S!"quot" then some '"' else none

/-- one character of input -/
def c02_step : c02_St → Char → c02_St
  | ⟨toks, .text acc⟩, c =>
    if c = '<' then ⟨toks ++ c02_flush acc, .name []⟩
    else if c = '&' then ⟨toks, .ent acc []⟩
    else if c = '>' then ⟨toks, .fail⟩
    else if c = '"' then ⟨toks, .fail⟩
    else ⟨toks, .text (acc ++ [c])⟩
  | ⟨toks, .ent acc buf⟩, c =>
    if c = ';' then
      match c02_entity buf with
      | some ch => ⟨toks, .text (acc ++ [ch])⟩
      | none => ⟨toks, .fail⟩
    else ⟨toks, .ent acc (buf ++ [c])⟩
  | ⟨toks, .name n⟩, c =>
    if c02_nameChar c then ⟨toks, .name (n ++ [c])⟩
    else if n.isEmpty then (if c = '/' then ⟨toks, .close []⟩ else ⟨toks, .fail⟩)
    else if c = ' ' then ⟨toks, .sp n []⟩
    else if c = '>' then ⟨toks ++ [.start n []], .text []⟩
    else ⟨toks, .fail⟩
  | ⟨toks, .attrs n as⟩, c =>
    if c = ' ' then ⟨toks, .sp n as⟩
    else if c = '>' then ⟨toks ++ [.start n as], .text []⟩
    else ⟨toks, .fail⟩
  | ⟨toks, .sp n as⟩, c =>
    if c02_nameChar c then ⟨toks, .key n as [c]⟩
    else if c = '/' then ⟨toks, .slash n as⟩
    else ⟨toks, .fail⟩
  | ⟨toks, .key n as k⟩, c =>
    if c02_nameChar c then ⟨toks, .key n as (k ++ [c])⟩
    else if c = '=' then ⟨toks, .eq n as k⟩
    else ⟨toks, .fail⟩
  | ⟨toks, .eq n as k⟩, c =>
    if c = '"' then ⟨toks, .val n as k []⟩ else ⟨toks, .fail⟩
  | ⟨toks, .val n as k v⟩, c =>
    if c = '"' then ⟨toks, .attrs n (as ++ [(k, v)])⟩
    else if c = '&' then ⟨toks, .vent n as k v []⟩
    else if c = '<' then ⟨toks, .fail⟩
    else if c = '>' then ⟨toks, .fail⟩
    else ⟨toks, .val n as k (v ++ [c])⟩
  | ⟨toks, .vent n as k v buf⟩, c =>
    if c = ';' then
      match c02_entity buf with
      | some ch => ⟨toks, .val n as k (v ++ [ch])⟩
      | none => ⟨toks, .fail⟩
    else ⟨toks, .vent n as k v (buf ++ [c])⟩
  | ⟨toks, .slash n as⟩, c =>
    if c = '>' then ⟨toks ++ [.selfClose n as], .text []⟩ else ⟨toks, .fail⟩
  | ⟨toks, .close n⟩, c =>
    if c02_nameChar c then ⟨toks, .close (n ++ [c])⟩
    else if n.isEmpty then ⟨toks, .fail⟩
    else if c = '>' then ⟨toks ++ [.end n], .text []⟩
    else ⟨toks, .fail⟩
  | ⟨toks, .fail⟩, _ => ⟨toks, .fail⟩

/-- the lexer's run: a left fold of `c02_step` -/
def c02_run (st : c02_St) (s : Str) : c02_St := s.foldl c02_step st

/-- Lex a whole document: start between tags with nothing pending, and accept only if the input
    ends between tags.  Text between two tags comes out as ONE decoded text token (none if empty). -/
def c02_lexHtml (s : Str) : Option (List c02_Tok) :=
  match c02_run ⟨[], .text []⟩ s with
  | ⟨toks, .text acc⟩ => some (toks ++ c02_flush acc)
  | _ => none

/-- strip the tags and decode the entities: the concatenated text tokens (`[]` when the input is
    not in the grammar) -/
def c02_htmlText (s : Str) : Str :=
  match c02_lexHtml s with
  | some toks => c02_tokText toks
  | none => []

@[simp] theorem c02_run_nil (st : c02_St) : c02_run st [] = st := rfl
@[simp] theorem c02_run_cons (st : c02_St) (c : Char) (s : Str) :
    c02_run st (c :: s) = c02_run (c02_step st c) s := rfl
theorem c02_run_append (st : c02_St) (a b : Str) : c02_run st (a ++ b) = c02_run (c02_run st a) b := by
  simp [c02_run]

/-! ### facts about name characters -/

theorem c02_nameChar_ne {c : Char} (h : c02_nameChar c = true) :
    c ≠ ' ' ∧ c ≠ '<' ∧ c ≠ '>' ∧ c ≠ '/' ∧ c ≠ '=' ∧ c ≠ '"' ∧ c ≠ '&' := by
  refine ⟨?_, ?_, ?_, ?_, ?_, ?_, ?_⟩ <;> (intro hc; subst hc; revert h; decide)

theorem c02_nameChar_space : c02_nameChar ' ' = false := by decide
theorem c02_nameChar_gt : c02_nameChar '>' = false := by decide
theorem c02_nameChar_slash : c02_nameChar '/' = false := by decide
theorem c02_nameChar_eq : c02_nameChar '=' = false := by decide
theorem c02_nameChar_quot : c02_nameChar '"' = false := by decide

/-! ### running over escaped strings -/

theorem c02_run_text_escape (s : Str) (toks : List c02_Tok) (acc : Str) :
    c02_run ⟨toks, .text acc⟩ (escape s) = ⟨toks, .text (acc ++ s)⟩ := by
  induction s generalizing acc with
  | nil => simp
  | cons c cs ih =>
    rw [c02_escape_cons, c02_run_append]
    rcases c02_char_cases c with h | h | h | h | ⟨h1, h2, h3, h4⟩
    · subst h; rw [c02_escapeChar_quot]
      simp [c02_step, c02_entity, ih]
    · subst h; rw [c02_escapeChar_amp]
      simp [c02_step, c02_entity, ih]
    · subst h; rw [c02_escapeChar_lt]
      simp [c02_step, c02_entity, ih]
    · subst h; rw [c02_escapeChar_gt]
      simp [c02_step, c02_entity, ih]
    · rw [c02_escapeChar_other c h1 h2 h3 h4]
      simp [c02_step, h1, h2, h3, h4, ih]

theorem c02_run_val_escape (s : Str) (toks : List c02_Tok) (n : Str) (as : List (Str × Str)) (k v : Str) :
    c02_run ⟨toks, .val n as k v⟩ (escape s) = ⟨toks, .val n as k (v ++ s)⟩ := by
  induction s generalizing v with
  | nil => simp
  | cons c cs ih =>
    rw [c02_escape_cons, c02_run_append]
    rcases c02_char_cases c with h | h | h | h | ⟨h1, h2, h3, h4⟩
    · subst h; rw [c02_escapeChar_quot]
      simp [c02_step, c02_entity, ih]
    · subst h; rw [c02_escapeChar_amp]
      simp [c02_step, c02_entity, ih]
    · subst h; rw [c02_escapeChar_lt]
      simp [c02_step, c02_entity, ih]
    · subst h; rw [c02_escapeChar_gt]
      simp [c02_step, c02_entity, ih]
    · rw [c02_escapeChar_other c h1 h2 h3 h4]
      simp [c02_step, h1, h2, h3, h4, ih]

/-! ### running over names -/

theorem c02_run_name (s : Str) (hs : s.all c02_nameChar = true) (toks : List c02_Tok) (n : Str) :
    c02_run ⟨toks, .name n⟩ s = ⟨toks, .name (n ++ s)⟩ := by
  induction s generalizing n with
  | nil => simp
  | cons c cs ih =>
    simp only [List.all_cons, Bool.and_eq_true] at hs
    simp [c02_step, hs.1, ih hs.2]

theorem c02_run_key (s : Str) (hs : s.all c02_nameChar = true) (toks : List c02_Tok) (n : Str)
    (as : List (Str × Str)) (k : Str) :
    c02_run ⟨toks, .key n as k⟩ s = ⟨toks, .key n as (k ++ s)⟩ := by
  induction s generalizing k with
  | nil => simp
  | cons c cs ih =>
    simp only [List.all_cons, Bool.and_eq_true] at hs
    simp [c02_step, hs.1, ih hs.2]

theorem c02_run_close (s : Str) (hs : s.all c02_nameChar = true) (toks : List c02_Tok) (n : Str) :
    c02_run ⟨toks, .close n⟩ s = ⟨toks, .close (n ++ s)⟩ := by
  induction s generalizing n with
  | nil => simp
  | cons c cs ih =>
    simp only [List.all_cons, Bool.and_eq_true] at hs
    simp [c02_step, hs.1, ih hs.2]

theorem c02_plainName_iff (s : Str) : c02_plainName s = true ↔ s ≠ [] ∧ s.all c02_nameChar = true := by
  cases s <;> simp [c02_plainName]

/-! ### attributes -/

/-- from the state after a space inside a tag: ` key="escaped value"` (without the space) -/
theorem c02_run_sp_attr (k v : Str) (hk : c02_plainName k = true) (toks : List c02_Tok) (n : Str)
    (as : List (Str × Str)) :
    c02_run ⟨toks, .sp n as⟩ (k ++ S!"=\"" ++ escape v ++ ['"']) = ⟨toks, .attrs n (as ++ [(k, v)])⟩ := by
  obtain ⟨hne, hall⟩ := (c02_plainName_iff k).mp hk
  cases k with
  | nil => exact absurd rfl hne
  | cons c cs =>
    simp only [List.all_cons, Bool.and_eq_true] at hall
    rw [c02_run_append, c02_run_append]
    simp only [List.cons_append, c02_run_cons]
    have h1 : c02_step ⟨toks, .sp n as⟩ c = ⟨toks, .key n as [c]⟩ := by simp [c02_step, hall.1]
    rw [h1, c02_run_append, c02_run_key cs hall.2]
    simp only [c02_run_cons, c02_run_nil]
    have h2 : c02_step ⟨toks, .key n as ([c] ++ cs)⟩ '=' = ⟨toks, .eq n as ([c] ++ cs)⟩ := by
      simp [c02_step, c02_nameChar_eq]
    have h3 : c02_step ⟨toks, .eq n as ([c] ++ cs)⟩ '"' = ⟨toks, .val n as ([c] ++ cs) []⟩ := by
      simp [c02_step]
    rw [h2, h3, c02_run_val_escape]
    simp [c02_step]

theorem c02_attrString_cons (k v : Str) (rest : Dict Str) :
    attrString ((k, v) :: rest) = [' '] ++ (k ++ S!"=\"" ++ escape v ++ ['"']) ++ attrString rest := by
  simp [attrString]

theorem c02_run_attrs (d : Dict Str) (hd : c02_plainAttrs d = true) (toks : List c02_Tok) (n : Str)
    (as : List (Str × Str)) :
    c02_run ⟨toks, .attrs n as⟩ (attrString d) = ⟨toks, .attrs n (as ++ d)⟩ := by
  induction d generalizing as with
  | nil => simp [attrString]
  | cons kv rest ih =>
    obtain ⟨k, v⟩ := kv
    simp only [c02_plainAttrs, List.all_cons, Bool.and_eq_true] at hd
    rw [c02_attrString_cons, c02_run_append, c02_run_append]
    have h1 : c02_run ⟨toks, .attrs n as⟩ [' '] = ⟨toks, .sp n as⟩ := by simp [c02_step]
    rw [h1, c02_run_sp_attr k v hd.1, ih hd.2]
    simp

/-- right after a (non-empty) element name the attributes are read the same way -/
theorem c02_run_name_attrs (d : Dict Str) (hd : c02_plainAttrs d = true) (toks : List c02_Tok) (n : Str)
    (hn : n ≠ []) (c : Char) (hc : c = ' ' ∨ c = '>') :
    c02_step (c02_run ⟨toks, .name n⟩ (attrString d)) c = c02_step ⟨toks, .attrs n d⟩ c := by
  have hne : n.isEmpty = false := by cases n <;> simp_all
  cases d with
  | nil =>
    rcases hc with rfl | rfl
    · simp [attrString, c02_step, c02_nameChar_space, hne]
    · simp [attrString, c02_step, c02_nameChar_gt, hne]
  | cons kv rest =>
    obtain ⟨k, v⟩ := kv
    have h0 := c02_run_attrs ((k, v) :: rest) hd toks n []
    rw [c02_attrString_cons, List.append_assoc, c02_run_append] at h0 ⊢
    have h1 : c02_run ⟨toks, .name n⟩ [' '] = c02_run ⟨toks, .attrs n []⟩ [' '] := by
      simp [c02_step, c02_nameChar_space, hne]
    rw [h1, h0]
    simp

/-- `<name attrs>` -/
theorem c02_run_startTag (t : Tag) (hn : c02_plainName t.name = true) (hd : c02_plainAttrs t.attrs = true)
    (toks : List c02_Tok) (acc : Str) :
    c02_run ⟨toks, .text acc⟩ (['<'] ++ t.name ++ attrString t.attrs ++ ['>'])
      = ⟨toks ++ c02_flush acc ++ [.start t.name t.attrs], .text []⟩ := by
  obtain ⟨hne, hall⟩ := (c02_plainName_iff t.name).mp hn
  rw [c02_run_append, c02_run_append, c02_run_append]
  have h1 : c02_run ⟨toks, .text acc⟩ ['<'] = ⟨toks ++ c02_flush acc, .name []⟩ := by simp [c02_step]
  rw [h1, c02_run_name _ hall]
  simp only [List.nil_append, c02_run_cons, c02_run_nil]
  rw [c02_run_name_attrs _ hd _ _ hne '>' (Or.inr rfl)]
  simp [c02_step]

/-- `<name attrs />` -/
theorem c02_run_selfClose (t : Tag) (hn : c02_plainName t.name = true) (hd : c02_plainAttrs t.attrs = true)
    (toks : List c02_Tok) (acc : Str) :
    c02_run ⟨toks, .text acc⟩ (['<'] ++ t.name ++ attrString t.attrs ++ S!" />")
      = ⟨toks ++ c02_flush acc ++ [.selfClose t.name t.attrs], .text []⟩ := by
  obtain ⟨hne, hall⟩ := (c02_plainName_iff t.name).mp hn
  rw [c02_run_append, c02_run_append, c02_run_append]
  have h1 : c02_run ⟨toks, .text acc⟩ ['<'] = ⟨toks ++ c02_flush acc, .name []⟩ := by simp [c02_step]
  rw [h1, c02_run_name _ hall]
  simp only [List.nil_append, c02_run_cons, c02_run_nil]
  rw [c02_run_name_attrs _ hd _ _ hne ' ' (Or.inl rfl)]
  simp [c02_step, c02_nameChar_slash]

/-- `</name>` -/
theorem c02_run_endTag (name : Str) (hn : c02_plainName name = true) (toks : List c02_Tok) (acc : Str) :
    c02_run ⟨toks, .text acc⟩ (S!"</" ++ name ++ ['>'])
      = ⟨toks ++ c02_flush acc ++ [.end name], .text []⟩ := by
  obtain ⟨hne, hall⟩ := (c02_plainName_iff name).mp hn
  have hem : name.isEmpty = false := by cases name <;> simp_all
  rw [c02_run_append, c02_run_append]
  have h1 : c02_run ⟨toks, .text acc⟩ S!"</" = ⟨toks ++ c02_flush acc, .close []⟩ := by
    simp [c02_step, c02_nameChar_slash]
  rw [h1, c02_run_close _ hall]
  simp [c02_step, c02_nameChar_gt, hem]

/-! ### the writer's output, node by node -/

theorem c02_writeNode_elem (t : Tag) (cs : List Node) :
    writeNode (.elem t cs) =
      if isVoid t cs then ['<'] ++ t.name ++ attrString t.attrs ++ S!" />"
      else (['<'] ++ t.name ++ attrString t.attrs ++ ['>']) ++ writeList cs ++ (S!"</" ++ t.name ++ ['>']) := by
  simp [writeNode]

mutual
theorem c02_run_writeNode (n : Node) (hp : c02_plainNamesN n = true) (toks : List c02_Tok) (acc : Str) :
    c02_run ⟨toks, .text acc⟩ (writeNode n)
      = ⟨(c02_feed (toks, acc) (c02_tokensN n)).1, .text (c02_feed (toks, acc) (c02_tokensN n)).2⟩ := by
  match n with
  | .text s => simp [writeNode, c02_run_text_escape, c02_feedStep]
  | .forceWrite => simp [writeNode]
  | .elem t cs =>
    simp only [c02_plainNamesN, Bool.and_eq_true] at hp
    obtain ⟨⟨hn, hd⟩, hcs⟩ := hp
    rw [c02_writeNode_elem, c02_tokensN_elem]
    by_cases h : isVoid t cs = true
    · simp only [h, if_true]
      rw [c02_run_selfClose t hn hd]
      simp [c02_feedStep]
    · simp only [h, if_false, Bool.false_eq_true]
      rw [c02_run_append _ _ (S!"</" ++ t.name ++ ['>']), c02_run_append _ _ (writeList cs),
        c02_run_startTag t hn hd, c02_run_writeList cs hcs, c02_run_endTag t.name hn]
      simp [c02_feed_append, c02_feedStep]
theorem c02_run_writeList (ns : List Node) (hp : c02_plainNames ns = true) (toks : List c02_Tok) (acc : Str) :
    c02_run ⟨toks, .text acc⟩ (writeList ns)
      = ⟨(c02_feed (toks, acc) (c02_tokens ns)).1, .text (c02_feed (toks, acc) (c02_tokens ns)).2⟩ := by
  match ns with
  | [] => simp [writeList]
  | c :: cs =>
    simp only [c02_plainNames, Bool.and_eq_true] at hp
    rw [writeList, c02_run_append, c02_run_writeNode c hp.1, c02_run_writeList cs hp.2]
    simp [c02_feed_append]
end

end Mammoth
