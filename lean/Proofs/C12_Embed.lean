/-
  C12 helpers: `write_style_map` on archives and on the file.
-/
import Proofs.C12_Utf8
import Proofs.C12_Archive
import Proofs.C12_Xml
namespace Mammoth

/-- the three parts `write_style_map` sets -/
def c12_three : List Str := [styleMapPath, relsPartPath, contentTypesPartPath]

/-- the dictionary handed to `update_zip` -/
def c12_files (x : XmlCodec) (s : Str) (r t : EElem) : List (Str × Bytes) :=
  [(styleMapPath, utf8Encode s), (relsPartPath, x.serialise (relsUpdate r)),
   (contentTypesPartPath, x.serialise (contentTypesUpdate t))]

theorem c12_files_keys (x : XmlCodec) (s : Str) (r t : EElem) :
    (c12_files x s r t).map (·.1) = c12_three := rfl

theorem c12_paths_ne : styleMapPath ≠ relsPartPath ∧ styleMapPath ≠ contentTypesPartPath ∧
    relsPartPath ≠ contentTypesPartPath := by decide

theorem c12_files_get_sm (x : XmlCodec) (s : Str) (r t : EElem) :
    lookupLast styleMapPath (c12_files x s r t) = some (utf8Encode s) := by
  obtain ⟨h1, h2, _⟩ := c12_paths_ne
  simp [c12_files, lookupLast, h1, h2]

theorem c12_files_get_rels (x : XmlCodec) (s : Str) (r t : EElem) :
    lookupLast relsPartPath (c12_files x s r t) = some (x.serialise (relsUpdate r)) := by
  obtain ⟨_, _, h3⟩ := c12_paths_ne
  simp [c12_files, lookupLast, h3]

theorem c12_files_get_ct (x : XmlCodec) (s : Str) (r t : EElem) :
    lookupLast contentTypesPartPath (c12_files x s r t)
      = some (x.serialise (contentTypesUpdate t)) := by
  simp [c12_files, lookupLast]

theorem c12_files_get_other (x : XmlCodec) (s : Str) (r t : EElem) (n : Str) (h : n ∉ c12_three) :
    lookupLast n (c12_files x s r t) = none := by
  rw [c12_lookupLast_none, c12_files_keys]; exact h

/-- a successful embed, taken apart -/
theorem c12_embed_inv (x : XmlCodec) (a a' : Archive) (s : Str) (h : embedArchive x a s = some a') :
    ∃ rb r cb t, a.get? relsPartPath = some rb ∧ x.parse rb = some r ∧
      a.get? contentTypesPartPath = some cb ∧ x.parse cb = some t ∧
      a' = updateZip a (c12_files x s r t) := by
  unfold embedArchive at h
  cases h1 : a.get? relsPartPath with
  | none => rw [h1] at h; cases h
  | some rb =>
    rw [h1] at h
    simp only [generateRelationshipsXml, generateContentTypesXml] at h
    cases h2 : x.parse rb with
    | none => rw [h2] at h; cases h
    | some r =>
      rw [h2] at h
      simp only [Option.map_some] at h
      cases h3 : a.get? contentTypesPartPath with
      | none => rw [h3] at h; cases h
      | some cb =>
        rw [h3] at h
        simp only [] at h
        cases h4 : x.parse cb with
        | none => rw [h4] at h; cases h
        | some t =>
          rw [h4] at h
          simp only [Option.map_some, Option.some.injEq] at h
          exact ⟨rb, r, cb, t, rfl, h2, rfl, h4, h.symm⟩

/-- and put together again -/
theorem c12_embed_intro (x : XmlCodec) (a : Archive) (s : Str) (rb cb : Bytes) (r t : EElem)
    (h1 : a.get? relsPartPath = some rb) (h2 : x.parse rb = some r)
    (h3 : a.get? contentTypesPartPath = some cb) (h4 : x.parse cb = some t) :
    embedArchive x a s = some (updateZip a (c12_files x s r t)) := by
  unfold embedArchive
  simp [h1, h2, h3, h4, generateRelationshipsXml, generateContentTypesXml, c12_files]

theorem c12_embed_get_sm (x : XmlCodec) (a a' : Archive) (s : Str)
    (h : embedArchive x a s = some a') : a'.get? styleMapPath = some (utf8Encode s) := by
  obtain ⟨rb, r, cb, t, _, _, _, _, rfl⟩ := c12_embed_inv x a a' s h
  rw [c12_updateZip_get, c12_files_get_sm]

theorem c12_embed_get_other (x : XmlCodec) (a a' : Archive) (s : Str)
    (h : embedArchive x a s = some a') (n : Str) (hn : n ∉ c12_three) :
    a'.get? n = a.get? n := by
  obtain ⟨rb, r, cb, t, _, _, _, _, rfl⟩ := c12_embed_inv x a a' s h
  rw [c12_updateZip_get, c12_files_get_other x s r t n hn]

theorem c12_embed_names (x : XmlCodec) (a a' : Archive) (s : Str)
    (h : embedArchive x a s = some a') (n : Str) :
    n ∈ a'.names ↔ n ∈ a.names ∨ n ∈ c12_three := by
  obtain ⟨rb, r, cb, t, _, _, _, _, rfl⟩ := c12_embed_inv x a a' s h
  rw [c12_updateZip_names_mem, c12_files_keys]

theorem c12_embed_unique (x : XmlCodec) (a a' : Archive) (s : Str)
    (h : embedArchive x a s = some a') : a'.uniqueNames = true := by
  obtain ⟨rb, r, cb, t, _, _, _, _, rfl⟩ := c12_embed_inv x a a' s h
  exact c12_updateZip_unique _ _

/-- the two XML parts hold the once-updated trees `relsUpdate r`, `contentTypesUpdate t` -/
def c12_partsAre (x : XmlCodec) (a : Archive) (r t : EElem) : Prop :=
  a.get? relsPartPath = some (x.serialise (relsUpdate r)) ∧
  a.get? contentTypesPartPath = some (x.serialise (contentTypesUpdate t))

theorem c12_embed_parts_first (x : XmlCodec) (a a' : Archive) (s : Str)
    (rb cb : Bytes) (r t : EElem)
    (h1 : a.get? relsPartPath = some rb) (h2 : x.parse rb = some r)
    (h3 : a.get? contentTypesPartPath = some cb) (h4 : x.parse cb = some t)
    (h : embedArchive x a s = some a') : c12_partsAre x a' r t := by
  rw [c12_embed_intro x a s rb cb r t h1 h2 h3 h4] at h
  simp only [Option.some.injEq] at h
  subst h
  exact ⟨by rw [c12_updateZip_get, c12_files_get_rels], by rw [c12_updateZip_get, c12_files_get_ct]⟩

theorem c12_relsUpdate_idem (r : EElem) : relsUpdate (relsUpdate r) = relsUpdate r :=
  c12_addOrUpdate_idem r _ _ _

theorem c12_contentTypesUpdate_idem (t : EElem) :
    contentTypesUpdate (contentTypesUpdate t) = contentTypesUpdate t :=
  c12_addOrUpdate_idem t _ _ _

theorem c12_embed_parts_step (x : XmlCodec) (hx : x.Lawful) (a a' : Archive) (s : Str)
    (r t : EElem) (hp : c12_partsAre x a r t) (h : embedArchive x a s = some a') :
    c12_partsAre x a' r t := by
  have := c12_embed_parts_first x a a' s _ _ _ _ hp.1 (hx _) hp.2 (hx _) h
  unfold c12_partsAre at this
  rw [c12_relsUpdate_idem, c12_contentTypesUpdate_idem] at this
  exact this

theorem c12_embedAll_parts (x : XmlCodec) (hx : x.Lawful) (ss : List Str) (a a' : Archive)
    (r t : EElem) (hp : c12_partsAre x a r t) (h : embedAll x a ss = some a') :
    c12_partsAre x a' r t := by
  induction ss generalizing a with
  | nil => simp only [embedAll, Option.some.injEq] at h; subst h; exact hp
  | cons s ss ih =>
    unfold embedAll at h
    cases h1 : embedArchive x a s with
    | none => rw [h1] at h; cases h
    | some a1 =>
      rw [h1] at h
      exact ih a1 (c12_embed_parts_step x hx a a1 s r t hp h1) h

theorem c12_embedAll_other (x : XmlCodec) (ss : List Str) (a a' : Archive)
    (h : embedAll x a ss = some a') (n : Str) (hn : n ∉ c12_three) : a'.get? n = a.get? n := by
  induction ss generalizing a with
  | nil => simp only [embedAll, Option.some.injEq] at h; subst h; rfl
  | cons s ss ih =>
    unfold embedAll at h
    cases h1 : embedArchive x a s with
    | none => rw [h1] at h; cases h
    | some a1 =>
      rw [h1] at h
      rw [ih a1 h, c12_embed_get_other x a a1 s h1 n hn]

theorem c12_embedAll_names (x : XmlCodec) (s : Str) (ss : List Str) (a a' : Archive)
    (h : embedAll x a (s :: ss) = some a') (n : Str) :
    n ∈ a'.names ↔ n ∈ a.names ∨ n ∈ c12_three := by
  induction ss generalizing a s with
  | nil =>
    unfold embedAll at h
    cases h1 : embedArchive x a s with
    | none => rw [h1] at h; cases h
    | some a1 =>
      rw [h1] at h; simp only [embedAll, Option.some.injEq] at h; subst h
      exact c12_embed_names x a a1 s h1 n
  | cons s2 ss ih =>
    unfold embedAll at h
    cases h1 : embedArchive x a s with
    | none => rw [h1] at h; cases h
    | some a1 =>
      rw [h1] at h
      rw [ih s2 a1 h, c12_embed_names x a a1 s h1 n]
      constructor
      · rintro ((h | h) | h)
        · exact Or.inl h
        · exact Or.inr h
        · exact Or.inr h
      · rintro (h | h)
        · exact Or.inl (Or.inl h)
        · exact Or.inr h

theorem c12_embedAll_snoc (x : XmlCodec) (ss : List Str) (s : Str) (a : Archive) :
    embedAll x a (ss ++ [s]) =
      match embedAll x a ss with
      | none => none
      | some a1 => embedArchive x a1 s := by
  induction ss generalizing a with
  | nil => simp only [List.nil_append, embedAll]; cases embedArchive x a s <;> rfl
  | cons s1 ss ih =>
    simp only [List.cons_append, embedAll]
    cases embedArchive x a s1 with
    | none => rfl
    | some a1 => exact ih a1

/-! ### the file -/

theorem c12_writeOver_length (old new : Bytes) :
    (writeOver old new false).length = max old.length new.length := by
  simp [writeOver]; omega

theorem c12_chunkCount_mul (chunk len : Nat) (h : 0 < chunk) : len ≤ chunkCount chunk len * chunk := by
  unfold chunkCount
  have h1 := Nat.div_add_mod (len + chunk - 1) chunk
  have h2 := Nat.mod_lt (len + chunk - 1) h
  rw [Nat.mul_comm] at h1
  omega

/-- a successful `embedFile`, taken apart -/
theorem c12_embedFile_ok (z : ZipCodec) (x : XmlCodec) (chunk : Nat) (file f' : Bytes) (s : Str)
    (h : embedFile z x chunk none file s = (f', true)) :
    ∃ a a', z.parse file = some a ∧ embedArchive x a s = some a' ∧ f' = z.serialise a' := by
  unfold embedFile at h
  cases h1 : z.parse file with
  | none => rw [h1] at h; simp at h
  | some a =>
    rw [h1] at h
    simp only [] at h
    cases h2 : embedArchive x a s with
    | none => rw [h2] at h; simp at h
    | some a' =>
      rw [h2] at h
      simp only [writeOver, if_true, Prod.mk.injEq, and_true] at h
      exact ⟨a, a', rfl, h2, h.symm⟩

theorem c12_embedFile_fail (z : ZipCodec) (x : XmlCodec) (chunk : Nat) (file f' : Bytes) (s : Str)
    (h : embedFile z x chunk none file s = (f', false)) : f' = file := by
  unfold embedFile at h
  cases h1 : z.parse file with
  | none => rw [h1] at h; simp at h; exact h.symm
  | some a =>
    rw [h1] at h
    simp only [] at h
    cases h2 : embedArchive x a s with
    | none => rw [h2] at h; simp at h; exact h.symm
    | some a' => rw [h2] at h; simp at h

/-! ### the two entries the property talks about -/

/-- a `Relationship` element with `Id="rMammothStyleMap"` -/
def c12_isStyleMapRel (l : c12_Label) : Bool :=
  l.1 == relationshipElemName && eAttr? S!"Id" l.2 == some S!"rMammothStyleMap"

/-- an `Override` element with `PartName="/mammoth/style-map"` -/
def c12_isStyleMapOverride (l : c12_Label) : Bool :=
  l.1 == overrideElemName && eAttr? S!"PartName" l.2 == some S!"/mammoth/style-map"

theorem c12_isStyleMapRel_eq :
    c12_isStyleMapRel = c12_matchL relationshipElemName S!"Id" styleMapRelAttrs := rfl

theorem c12_isStyleMapOverride_eq :
    c12_isStyleMapOverride = c12_matchL overrideElemName S!"PartName" styleMapOverrideAttrs := rfl

end Mammoth
