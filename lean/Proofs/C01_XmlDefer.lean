/-
  C01, reader half — the specification with deleted paragraph marks.

  A paragraph whose mark is a tracked deletion (`w:pPr/w:rPr/w:del`) is not a paragraph of the result:
  Word shows its content merged into the following paragraph.  The reader therefore holds the content
  back and hands it to the next paragraph it opens — in reading order, which may be inside a later table
  cell or text box.

  `c01_xmlLiveD` specifies this by recursion on the XML tree with an explicit buffer of deferred leaves,
  threaded through the traversal in reading order.  The buffer is a stack of levels:

    * level 0 (`c01_bufHead`) is what the next opened paragraph receives: its in-line part goes to the
      front of that paragraph's content, its extra part (text boxes of the deleted paragraphs) after the
      paragraph, before the paragraph's own text boxes;
    * the deeper levels (`c01_bufTail`) are the buffer with which the content of that next paragraph is
      traversed: they exist only when a deleted paragraph itself contained a text box that ended with
      deleted paragraph marks.

  A paragraph with a deleted mark emits nothing; its content is traversed with the deeper levels and
  appended to level 0.  A paragraph without the mark takes level 0 and traverses its content with the
  deeper levels; what is left of them afterwards is the new buffer.  Everything else is as in `c01_xmlLive`.
  What is still in the buffer at the end of a story is lost by the reader (no following paragraph).
-/
import Proofs.C01_XmlSpec
namespace Mammoth

/-- deferred leaves, by level -/
abbrev c01_Buf := List c01_Live

def c01_bufHead (b : c01_Buf) : c01_Live := b.headD {}
def c01_bufTail (b : c01_Buf) : c01_Buf := b.tail

/-- a buffer with `l` at level 0 and `b` below; nothing deferred at all is the empty buffer -/
def c01_bufCons (l : c01_Live) (b : c01_Buf) : c01_Buf :=
  if l.inline = [] ∧ l.extra = [] ∧ b = [] then [] else l :: b

/-- leaves produced here, and the buffer afterwards -/
structure c01_LiveD where
  live : c01_Live := {}
  buf : c01_Buf := []
deriving DecidableEq, Repr, Inhabited

/-- the paragraph mark is a tracked deletion -/
def c01_delMark (cs : List XmlNode) : Bool :=
  (findChild S!"w:del" (findChildOrNull S!"w:rPr" (findChildOrNull S!"w:pPr" cs).2).2).isSome

mutual
def c01_xmlLiveD (b : c01_Buf) : XmlNode → c01_LiveD
  | .text _ => ⟨{}, b⟩
  | .elem name as cs =>
    match c01_kindOf name with
    | .through => c01_xmlLiveDL b cs
    | .paragraph =>
      let s := c01_xmlLiveDL (c01_bufTail b) cs
      let all := (c01_bufHead b).append s.live
      if c01_delMark cs then ⟨{}, c01_bufCons all s.buf⟩
      else ⟨⟨all.inline ++ all.extra, []⟩, s.buf⟩
    | .pict => ⟨⟨[], (c01_xmlLiveDL b cs).live.extra ++ (c01_xmlLiveDL b cs).live.inline⟩, (c01_xmlLiveDL b cs).buf⟩
    | .alt => c01_xmlLiveDIn S!"mc:Fallback" b cs
    | .sdt => if c01_isCheckboxSdt cs then ⟨{}, b⟩ else c01_xmlLiveDIn S!"w:sdtContent" b cs
    | _ => ⟨c01_xmlLive (.elem name as cs), b⟩
def c01_xmlLiveDL (b : c01_Buf) : List XmlNode → c01_LiveD
  | [] => ⟨{}, b⟩
  | c :: cs =>
    ⟨(c01_xmlLiveD b c).live.append (c01_xmlLiveDL (c01_xmlLiveD b c).buf cs).live,
     (c01_xmlLiveDL (c01_xmlLiveD b c).buf cs).buf⟩
def c01_xmlLiveDIn (child : Str) (b : c01_Buf) : List XmlNode → c01_LiveD
  | [] => ⟨{}, b⟩
  | .text _ :: rest => c01_xmlLiveDIn child b rest
  | .elem n _ cs :: rest => if n = child then c01_xmlLiveDL b cs else c01_xmlLiveDIn child b rest
end

/-- the buffer that stands for XML nodes held back by the reader: their leaves, traversed from the
    empty buffer, and what that traversal itself leaves deferred -/
def c01_pend (ds : List XmlNode) : c01_Buf :=
  c01_bufCons (c01_xmlLiveDL [] ds).live (c01_xmlLiveDL [] ds).buf

/-! ### basic equations -/

theorem c01_bufHead_cons (l : c01_Live) (b : c01_Buf) : c01_bufHead (c01_bufCons l b) = l := by
  unfold c01_bufCons
  split
  · rename_i h
    cases l
    simp only at h
    simp [c01_bufHead, h.1, h.2.1]
  · rfl

theorem c01_bufTail_cons (l : c01_Live) (b : c01_Buf) : c01_bufTail (c01_bufCons l b) = b := by
  unfold c01_bufCons
  split
  · rename_i h; simp [c01_bufTail, h.2.2]
  · rfl

@[simp] theorem c01_bufHead_nil : c01_bufHead [] = {} := rfl
@[simp] theorem c01_bufTail_nil : c01_bufTail [] = [] := rfl

@[simp] theorem c01_xmlLiveDL_nil (b : c01_Buf) : c01_xmlLiveDL b [] = ⟨{}, b⟩ := by simp [c01_xmlLiveDL]
theorem c01_xmlLiveDL_cons (b : c01_Buf) (c : XmlNode) (cs : List XmlNode) :
    c01_xmlLiveDL b (c :: cs) =
      ⟨(c01_xmlLiveD b c).live.append (c01_xmlLiveDL (c01_xmlLiveD b c).buf cs).live,
       (c01_xmlLiveDL (c01_xmlLiveD b c).buf cs).buf⟩ := by simp [c01_xmlLiveDL]
@[simp] theorem c01_xmlLiveD_text (b : c01_Buf) (s : Str) : c01_xmlLiveD b (.text s) = ⟨{}, b⟩ := by
  simp [c01_xmlLiveD]

@[simp] theorem c01_pend_nil : c01_pend [] = [] := by simp [c01_pend, c01_bufCons]

/-- traversal of a concatenation: the second part starts with the buffer the first part leaves -/
theorem c01_xmlLiveDL_append (b : c01_Buf) (xs ys : List XmlNode) :
    c01_xmlLiveDL b (xs ++ ys) =
      ⟨(c01_xmlLiveDL b xs).live.append (c01_xmlLiveDL (c01_xmlLiveDL b xs).buf ys).live,
       (c01_xmlLiveDL (c01_xmlLiveDL b xs).buf ys).buf⟩ := by
  induction xs generalizing b with
  | nil => simp
  | cons x xs ih => simp [c01_xmlLiveDL_cons, ih, c01_Live_append_assoc]

theorem c01_xmlLiveDIn_eq (child : Str) (b : c01_Buf) (cs : List XmlNode) :
    c01_xmlLiveDIn child b cs = c01_xmlLiveDL b (findChildOrNull child cs).2 := by
  unfold findChildOrNull
  induction cs with
  | nil => simp [c01_xmlLiveDIn, findChild]
  | cons c cs ih =>
    cases c with
    | text s => simp only [c01_xmlLiveDIn, findChild]; exact ih
    | elem n as ccs =>
      simp only [c01_xmlLiveDIn, findChild]
      by_cases hn : n = child
      · simp [hn]
      · have : (n == child) = false := by simpa using hn
        simp only [hn, if_false, this]; exact ih

end Mammoth
