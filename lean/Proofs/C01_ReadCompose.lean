/-
  C01, reader half — two facts about the specifications themselves:
  (1) conservation: deferring the content of paragraphs with a deleted mark moves leaves, it never loses
      or duplicates one — what `c01_xmlLiveD` emits plus what it leaves in the buffer is a permutation of
      what came in the buffer plus the leaves of `c01_xmlLive` (which ignores the marks);
  (2) the state-free text of the converter half (`c01_bodyTextL`) is the text of the leaves.
-/
import Proofs.C01_ReadDefer
import Proofs.C01_Plain
namespace Mammoth

/-! ### conservation -/

def c01_liveAll (l : c01_Live) : List c01_Leaf := l.inline ++ l.extra

def c01_bufAll : c01_Buf → List c01_Leaf
  | [] => []
  | l :: b => c01_liveAll l ++ c01_bufAll b

def c01_cnt (x : c01_Leaf) (l : c01_Live) : Nat := l.inline.count x + l.extra.count x

def c01_bufCnt (x : c01_Leaf) : c01_Buf → Nat
  | [] => 0
  | l :: b => c01_cnt x l + c01_bufCnt x b

theorem c01_cnt_empty (x : c01_Leaf) : c01_cnt x {} = 0 := rfl
theorem c01_cnt_append (x : c01_Leaf) (a b : c01_Live) : c01_cnt x (a.append b) = c01_cnt x a + c01_cnt x b := by
  simp only [c01_cnt, c01_Live.append, List.count_append]; omega

theorem c01_bufCnt_split (x : c01_Leaf) (b : c01_Buf) :
    c01_bufCnt x b = c01_cnt x (c01_bufHead b) + c01_bufCnt x (c01_bufTail b) := by
  cases b with
  | nil => rfl
  | cons l b => rfl

theorem c01_bufCnt_cons (x : c01_Leaf) (l : c01_Live) (b : c01_Buf) :
    c01_bufCnt x (c01_bufCons l b) = c01_cnt x l + c01_bufCnt x b := by
  unfold c01_bufCons
  split
  · rename_i h
    simp [c01_bufCnt, c01_cnt, h.1, h.2.1, h.2.2]
  · rfl

mutual
theorem c01_conserve (x : c01_Leaf) (b : c01_Buf) (n : XmlNode) :
    c01_cnt x (c01_xmlLiveD b n).live + c01_bufCnt x (c01_xmlLiveD b n).buf =
      c01_bufCnt x b + c01_cnt x (c01_xmlLive n) := by
  match n with
  | .text s => simp [c01_cnt_empty]
  | .elem name as cs =>
    by_cases hleaf : c01_leafKind (c01_kindOf name) = true
    · rw [c01_xmlLiveD_leaf _ as cs hleaf]; dsimp only; omega
    · cases hk : c01_kindOf name with
      | through =>
        rw [c01_xmlLiveD_through _ as cs hk, c01_xmlLive_through as cs hk]
        exact c01_conserveL x b cs
      | paragraph =>
        have ih := c01_conserveL x (c01_bufTail b) cs
        have hb := c01_bufCnt_split x b
        rw [c01_xmlLiveD_paragraph _ as cs hk, c01_xmlLive_paragraph as cs hk]
        split
        · simp only [c01_bufCnt_cons, c01_cnt_append, c01_cnt_empty]
          simp only [c01_cnt, List.count_append, List.count_nil] at ih hb ⊢
          omega
        · simp only [c01_cnt, c01_Live.append, List.count_append, List.count_nil] at ih hb ⊢
          omega
      | pict =>
        have ih := c01_conserveL x b cs
        rw [c01_xmlLiveD_pict _ as cs hk, c01_xmlLive_pict as cs hk]
        simp only [c01_cnt, List.count_append, List.count_nil] at ih ⊢
        omega
      | alt =>
        simp only [c01_xmlLiveD, c01_xmlLive, hk]
        exact c01_conserveIn x _ b cs
      | sdt =>
        simp only [c01_xmlLiveD, c01_xmlLive, hk]
        split
        · simp [c01_cnt_empty]
        · exact c01_conserveIn x _ b cs
      | _ => rw [hk] at hleaf; exact absurd rfl hleaf
theorem c01_conserveL (x : c01_Leaf) (b : c01_Buf) (ns : List XmlNode) :
    c01_cnt x (c01_xmlLiveDL b ns).live + c01_bufCnt x (c01_xmlLiveDL b ns).buf =
      c01_bufCnt x b + c01_cnt x (c01_xmlLiveL ns) := by
  match ns with
  | [] => simp [c01_cnt_empty]
  | n :: ns =>
    have h1 := c01_conserve x b n
    have h2 := c01_conserveL x (c01_xmlLiveD b n).buf ns
    rw [c01_xmlLiveDL_cons, c01_xmlLiveL_cons]
    simp only [c01_cnt_append]
    omega
theorem c01_conserveIn (x : c01_Leaf) (child : Str) (b : c01_Buf) (ns : List XmlNode) :
    c01_cnt x (c01_xmlLiveDIn child b ns).live + c01_bufCnt x (c01_xmlLiveDIn child b ns).buf =
      c01_bufCnt x b + c01_cnt x (c01_xmlLiveIn child ns) := by
  match ns with
  | [] => simp [c01_xmlLiveDIn, c01_xmlLiveIn, c01_cnt_empty]
  | .text s :: rest =>
    simp only [c01_xmlLiveDIn, c01_xmlLiveIn]
    exact c01_conserveIn x child b rest
  | .elem n as cs :: rest =>
    simp only [c01_xmlLiveDIn, c01_xmlLiveIn]
    split
    · exact c01_conserveL x b cs
    · exact c01_conserveIn x child b rest
end

theorem c01_count_liveAll (x : c01_Leaf) (l : c01_Live) : (c01_liveAll l).count x = c01_cnt x l := by
  simp [c01_liveAll, c01_cnt, List.count_append]

theorem c01_count_bufAll (x : c01_Leaf) (b : c01_Buf) : (c01_bufAll b).count x = c01_bufCnt x b := by
  induction b with
  | nil => rfl
  | cons l b ih => simp [c01_bufAll, c01_bufCnt, List.count_append, c01_count_liveAll, ih]

/-- nothing lost, nothing duplicated by the deferral: emitted leaves and deferred leaves together are a
    permutation of the leaves that came in the buffer and the leaves of the nodes -/
theorem c01_conserve_perm (b : c01_Buf) (ns : List XmlNode) :
    (c01_liveAll (c01_xmlLiveDL b ns).live ++ c01_bufAll (c01_xmlLiveDL b ns).buf).Perm
      (c01_bufAll b ++ c01_liveAll (c01_xmlLiveL ns)) := by
  rw [List.perm_iff_count]
  intro x
  simp only [List.count_append, c01_count_liveAll, c01_count_bufAll]
  exact c01_conserveL x b ns

/-! ### the text of the leaves -/

mutual
theorem c01_bodyText_leaves (e : Elem) : c01_bodyText e = c01_leavesText (c01_elemLeaves e) := by
  match e with
  | .paragraph _ cs => simp only [c01_bodyText, c01_elemLeaves]; exact c01_bodyTextL_leaves cs
  | .run _ cs => simp only [c01_bodyText, c01_elemLeaves]; exact c01_bodyTextL_leaves cs
  | .hyperlink _ cs => simp only [c01_bodyText, c01_elemLeaves]; exact c01_bodyTextL_leaves cs
  | .table _ _ cs => simp only [c01_bodyText, c01_elemLeaves]; exact c01_bodyTextL_leaves cs
  | .row _ cs => simp only [c01_bodyText, c01_elemLeaves]; exact c01_bodyTextL_leaves cs
  | .cell _ _ _ cs => simp only [c01_bodyText, c01_elemLeaves]; exact c01_bodyTextL_leaves cs
  | .text s => simp [c01_bodyText, c01_elemLeaves, c01_leavesText, c01_leafText]
  | .tab => simp [c01_bodyText, c01_elemLeaves, c01_leavesText, c01_leafText]
  | .noteRef _ _ => simp [c01_bodyText, c01_elemLeaves, c01_leavesText, c01_leafText]
  | .commentRef _ => simp [c01_bodyText, c01_elemLeaves, c01_leavesText, c01_leafText]
  | .checkbox _ => simp [c01_bodyText, c01_elemLeaves, c01_leavesText]
  | .brk _ => simp [c01_bodyText, c01_elemLeaves, c01_leavesText]
  | .image _ => simp [c01_bodyText, c01_elemLeaves, c01_leavesText]
  | .bookmark _ => simp [c01_bodyText, c01_elemLeaves, c01_leavesText]
theorem c01_bodyTextL_leaves (es : List Elem) : c01_bodyTextL es = c01_leavesText (c01_elemLeavesL es) := by
  match es with
  | [] => simp [c01_bodyTextL, c01_leavesText]
  | e :: es =>
    simp only [c01_bodyTextL, c01_elemLeavesL_cons, c01_leavesText_append, c01_bodyText_leaves e,
      c01_bodyTextL_leaves es]
end

end Mammoth
