/-
  C17 helpers, part 1: base64.  Round trip, length and alphabet of `b64encode`.
-/
import MammothModel.Base64
namespace Mammoth

/-- decoding the `n`-th alphabet character gives `n` back (64 cases) -/
theorem c17_val_char_fin : ∀ n : Fin 64, b64Val (b64Char n.val) = some n.val := by decide
/-- no alphabet character is the padding character -/
theorem c17_char_ne_fin : ∀ n : Fin 64, b64Char n.val ≠ '=' := by decide
/-- `b64Char n` really is in the alphabet when `n < 64` (otherwise it is the `'?'` default) -/
theorem c17_char_mem_fin : ∀ n : Fin 64, b64Char n.val ∈ b64Alphabet := by decide

theorem c17_val_char (n : Nat) (h : n < 64) : b64Val (b64Char n) = some n := c17_val_char_fin ⟨n, h⟩
theorem c17_char_ne (n : Nat) (h : n < 64) : b64Char n ≠ '=' := c17_char_ne_fin ⟨n, h⟩
theorem c17_char_mem (n : Nat) (h : n < 64) : b64Char n ∈ b64Alphabet := c17_char_mem_fin ⟨n, h⟩

theorem c17_ofNat_of_eq (a : UInt8) (n : Nat) (h : n = a.toNat) : UInt8.ofNat n = a := by
  subst h; exact UInt8.ofNat_toNat

/-- the round trip, by recursion in steps of three bytes -/
theorem c17_roundtrip : ∀ bs : List UInt8, b64decode (b64encode bs) = some bs
  | [] => by simp [b64encode, b64decode]
  | [a] => by
    have ha : a.toNat < 256 := a.toNat_lt
    simp only [b64encode]
    rw [b64decode.eq_2, c17_val_char _ (by omega), c17_val_char _ (by omega)]
    simp only [Option.bind_eq_bind, Option.bind_some]
    rw [c17_ofNat_of_eq a _ (by omega)]
  | [a, b] => by
    have ha : a.toNat < 256 := a.toNat_lt
    have hb : b.toNat < 256 := b.toNat_lt
    simp only [b64encode]
    rw [b64decode.eq_3 _ _ _ (c17_char_ne _ (by omega)), c17_val_char _ (by omega),
      c17_val_char _ (by omega), c17_val_char _ (by omega)]
    simp only [Option.bind_eq_bind, Option.bind_some]
    rw [c17_ofNat_of_eq a _ (by omega), c17_ofNat_of_eq b _ (by omega)]
  | a :: b :: c :: rest => by
    have ha : a.toNat < 256 := a.toNat_lt
    have hb : b.toNat < 256 := b.toNat_lt
    have hc : c.toNat < 256 := c.toNat_lt
    have ih := c17_roundtrip rest
    simp only [b64encode]
    rw [b64decode.eq_4 _ _ _ _ _ (fun _ h _ => c17_char_ne _ (by omega) h)
        (fun h _ => c17_char_ne _ (by omega) h),
      c17_val_char _ (by omega), c17_val_char _ (by omega),
      c17_val_char _ (by omega), c17_val_char _ (by omega), ih]
    simp only [Option.bind_eq_bind, Option.bind_some]
    rw [c17_ofNat_of_eq a _ (by omega), c17_ofNat_of_eq b _ (by omega), c17_ofNat_of_eq c _ (by omega)]

theorem c17_length : ∀ bs : List UInt8, (b64encode bs).length = 4 * ((bs.length + 2) / 3)
  | [] => by simp [b64encode]
  | [_] => by simp [b64encode]
  | [_, _] => by simp [b64encode]
  | _ :: _ :: _ :: rest => by
    have ih := c17_length rest
    simp only [b64encode, List.length_cons, ih]
    omega

theorem c17_alphabet : ∀ (bs : List UInt8) (ch : Char), ch ∈ b64encode bs → ch ∈ b64Alphabet ∨ ch = '='
  | [], ch, h => by simp [b64encode] at h
  | [a], ch, h => by
    have ha : a.toNat < 256 := a.toNat_lt
    simp only [b64encode, List.mem_cons, List.not_mem_nil, or_false] at h
    rcases h with h | h | h | h
    · exact .inl (h ▸ c17_char_mem _ (by omega))
    · exact .inl (h ▸ c17_char_mem _ (by omega))
    · exact .inr h
    · exact .inr h
  | [a, b], ch, h => by
    have ha : a.toNat < 256 := a.toNat_lt
    have hb : b.toNat < 256 := b.toNat_lt
    simp only [b64encode, List.mem_cons, List.not_mem_nil, or_false] at h
    rcases h with h | h | h | h
    · exact .inl (h ▸ c17_char_mem _ (by omega))
    · exact .inl (h ▸ c17_char_mem _ (by omega))
    · exact .inl (h ▸ c17_char_mem _ (by omega))
    · exact .inr h
  | a :: b :: c :: rest, ch, h => by
    have ha : a.toNat < 256 := a.toNat_lt
    have hb : b.toNat < 256 := b.toNat_lt
    have hc : c.toNat < 256 := c.toNat_lt
    simp only [b64encode, List.mem_cons] at h
    rcases h with h | h | h | h | h
    · exact .inl (h ▸ c17_char_mem _ (by omega))
    · exact .inl (h ▸ c17_char_mem _ (by omega))
    · exact .inl (h ▸ c17_char_mem _ (by omega))
    · exact .inl (h ▸ c17_char_mem _ (by omega))
    · exact c17_alphabet rest ch h

end Mammoth
