/-
  C01 — the converter's visitor refines the text specification `c01_elemText`.
-/
import Proofs.C01_Spec
namespace Mammoth

/-! ### wrapping adds no text -/

@[simp] theorem c01_text_wrapElems (es : List Tag) (ns : List Node) :
    textOfL (wrapElems es ns) = textOfL ns := by
  induction es with
  | nil => simp [wrapElems]
  | cons t ts ih => simp [wrapElems, ih]

/-- a forest without text stays without text, whatever it is wrapped in -/
theorem c01_text_wrapAll_textless (paths : List HtmlPath) (ns : List Node) (h : textOfL ns = []) :
    textOfL (wrapAll paths ns) = [] := by
  induction paths generalizing ns with
  | nil => simpa [wrapAll] using h
  | cons p ps ih =>
    cases p with
    | ignore => simpa [wrapAll] using ih [] (by simp)
    | elements es => simpa [wrapAll] using ih (wrapElems es ns) (by simpa using h)

@[simp] theorem c01_text_wrapAll_nil (paths : List HtmlPath) : textOfL (wrapAll paths []) = [] :=
  c01_text_wrapAll_textless paths [] (by simp)

theorem c01_text_wrapAll (paths : List HtmlPath) (ns : List Node)
    (h : paths.any HtmlPath.isIgnore = false) : textOfL (wrapAll paths ns) = textOfL ns := by
  induction paths generalizing ns with
  | nil => simp [wrapAll]
  | cons p ps ih =>
    cases p with
    | ignore => simp [HtmlPath.isIgnore] at h
    | elements es =>
      have h' : ps.any HtmlPath.isIgnore = false := by
        simpa [HtmlPath.isIgnore] using h
      simp [wrapAll, ih _ h']

/-! ### the monad, unfolded once and for all -/

theorem c01_bind_run {α β} (x : ConvM α) (f : α → ConvM β) (st : ConvState) :
    (x >>= f) st = match x st with
      | .ok (a, s) => f a s
      | .error e => .error e := by
  simp only [bind, StateT.bind, Except.bind]
  cases x st with
  | ok p => rfl
  | error e => rfl

@[simp] theorem c01_pure_run {α} (a : α) (st : ConvState) : (pure a : ConvM α) st = .ok (a, st) := rfl

theorem c01_findPathWarn_run (cfg : Cfg) (t : Target) (kind : Str) (sid sname : Option Str)
    (dflt : HtmlPath) (st : ConvState) :
    findPathWarn cfg t kind sid sname dflt st
      = .ok (c01_path cfg t dflt, c01_warnState cfg t kind sid sname st) := by
  unfold findPathWarn c01_path c01_warnState
  cases findPath cfg t with
  | some p => rfl
  | none =>
    cases sid with
    | none => rfl
    | some s => rfl

@[simp] theorem c01_modify_run (f : ConvState → ConvState) (st : ConvState) :
    (modify f : ConvM PUnit) st = .ok (PUnit.unit, f st) := rfl
@[simp] theorem c01_get_run (st : ConvState) : (get : ConvM ConvState) st = .ok (st, st) := rfl
@[simp] theorem c01_throw_run {α} (e : Err) (st : ConvState) : (throw e : ConvM α) st = .error e := rfl

/-! ### images produce no text -/

/-- a computation whose every successful result is a forest without text -/
def c01_textless (m : ConvM (List Node)) : Prop :=
  ∀ st ns st', m st = .ok (ns, st') → textOfL ns = []

theorem c01_textless_bind {α} (x : ConvM α) (f : α → ConvM (List Node))
    (h : ∀ a, c01_textless (f a)) : c01_textless (x >>= f) := by
  intro st ns st' hr
  rw [c01_bind_run] at hr
  cases hx : x st with
  | error e => simp [hx] at hr
  | ok p =>
    obtain ⟨a, s⟩ := p
    simp only [hx] at hr
    exact h a s ns st' hr

theorem c01_textless_pure (ns : List Node) (h : textOfL ns = []) : c01_textless (pure ns) := by
  intro st ns' st' hr
  cases hr
  exact h

theorem c01_textless_convertImage (cfg : Cfg) (i : ImageProps) : c01_textless (convertImage cfg i) := by
  unfold convertImage
  apply c01_textless_bind; intro _
  extract_lets altAttr
  split
  · apply c01_textless_bind; intro r
    split
    · exact c01_textless_pure _ (by simp [el])
    · apply c01_textless_bind; intro _
      exact c01_textless_pure _ rfl
  · split
    · apply c01_textless_bind; intro r
      split
      · exact c01_textless_pure _ (by simp [el])
      · apply c01_textless_bind; intro _
        exact c01_textless_pure _ rfl
    · exact c01_textless_pure _ (by simp [el])

theorem c01_proj_bind_wrap (x : ConvM (List Node)) (f : List Node → List Node)
    (hf : ∀ ns, textOfL (f ns) = textOfL ns) (st : ConvState) :
    c01_proj ((x >>= fun ns => pure (f ns)) st) = c01_proj (x st) := by
  rw [c01_bind_run]
  cases x st with
  | error e => rfl
  | ok p => obtain ⟨a, s⟩ := p; simp [hf]

theorem c01_visitRows_false_head (cfg : Cfg) :
    ∀ (rs : List Elem) (st : ConvState) (h b : List Node) (st' : ConvState),
      visitRows cfg false rs st = .ok ((h, b), st') → h = []
  | [], st, h, b, st', hr => by
    simp only [visitRows, c01_pure_run, Except.ok.injEq, Prod.mk.injEq] at hr
    exact hr.1.1.symm
  | r :: rs, st, h, b, st', hr => by
    simp only [visitRows, Bool.false_and, Bool.false_eq_true, if_false] at hr
    rw [c01_bind_run] at hr
    cases h1 : visit cfg false r st with
    | error e => simp [h1] at hr
    | ok p =>
      obtain ⟨a, st1⟩ := p
      simp only [h1] at hr
      rw [c01_bind_run] at hr
      cases h2 : visitRows cfg false rs st1 with
      | error e => simp [h2] at hr
      | ok q =>
        obtain ⟨⟨h', b'⟩, st2⟩ := q
        have ih := c01_visitRows_false_head cfg rs st1 h' b' st2 h2
        simp only [h2, c01_pure_run, Except.ok.injEq, Prod.mk.injEq] at hr
        rw [← hr.1.1, ih]

theorem c01_visitRows_head_nil (cfg : Cfg) (rows : List Elem) (hb : bodyIndex rows = 0)
    (st : ConvState) (h b : List Node) (st' : ConvState)
    (hr : visitRows cfg true rows st = .ok ((h, b), st')) : h = [] := by
  cases rows with
  | nil => 
    simp only [visitRows, c01_pure_run, Except.ok.injEq, Prod.mk.injEq] at hr
    exact hr.1.1.symm
  | cons r rs =>
    have hh : isHeaderRow r = false := by
      unfold bodyIndex at hb
      cases hx : isHeaderRow r with
      | false => rfl
      | true => simp [hx] at hb
    have : visitRows cfg true (r :: rs) = visitRows cfg false (r :: rs) := by
      simp [visitRows, hh]
    rw [this] at hr
    exact c01_visitRows_false_head cfg _ st h b st' hr
mutual
theorem c01_text_visit (cfg : Cfg) (hdr : Bool) (e : Elem) (st : ConvState) :
    c01_proj (visit cfg hdr e st) = c01_elemText cfg st e := by
  match e with
  | .paragraph p cs =>
    simp only [visit, c01_elemText]
    rw [c01_bind_run, c01_findPathWarn_run]
    simp only []
    cases c01_path cfg (.paragraph p) (.elements [pathElem S!"p" true]) with
    | ignore => simp [HtmlPath.isIgnore]
    | elements es =>
      simp only [HtmlPath.isIgnore, Bool.false_eq_true, if_false]
      rw [c01_proj_bind_wrap _ _ (by intro ns; split <;> simp)]
      exact c01_text_visitAll cfg hdr cs _
  | .run r cs =>
    simp only [visit, c01_elemText]
    rw [c01_bind_run, c01_findPathWarn_run]
    simp only []
    rw [← c01_runPaths]
    split
    · simp
    · rename_i h
      rw [c01_proj_bind_wrap _ _ (fun ns => c01_text_wrapAll _ ns (by simpa using h))]
      exact c01_text_visitAll cfg hdr cs _
  | .text s => simp [visit, c01_elemText]
  | .hyperlink h cs =>
    simp only [visit, c01_elemText]
    rw [c01_proj_bind_wrap _ _ (by intro ns; simp [cel])]
    exact c01_text_visitAll cfg hdr cs _
  | .checkbox c => simp [visit, c01_elemText, el]
  | .table sid sname rows =>
    simp only [visit, c01_elemText]
    rw [← c01_path]
    generalize c01_path cfg (.table sid sname) (.elements [pathElem S!"table" true]) = x
    cases x with
    | ignore => simp [HtmlPath.isIgnore]
    | elements es =>
      simp only [HtmlPath.isIgnore, Bool.false_eq_true, if_false]
      rw [c01_bind_run]
      have ih := c01_text_visitRows cfg true rows st
      cases hv : visitRows cfg true rows st with
      | error err => rw [hv] at ih; simp [← ih]
      | ok q =>
        obtain ⟨⟨h, b⟩, st1⟩ := q
        rw [hv] at ih
        simp only [c01_projRows_ok] at ih
        rw [← ih]
        simp only [c01_pure_run, c01_proj_ok, c01_text_wrapElems, textOfL_cons, textOf_fw, List.nil_append]
        split
        · rename_i hb
          have : h = [] := c01_visitRows_head_nil cfg rows (by simpa using hb) st h b st1 hv
          simp [this]
        · simp [el]
  | .row h cells =>
    simp only [visit, c01_elemText]
    rw [c01_proj_bind_wrap _ _ (by intro ns; simp [el])]
    exact c01_text_visitAll cfg hdr cells _
  | .cell a b c cs =>
    simp only [visit, c01_elemText]
    rw [c01_proj_bind_wrap _ _ (by intro ns; simp [el])]
    exact c01_text_visitAll cfg hdr cs _
  | .brk ty =>
    simp only [visit, c01_elemText]
    cases findPath cfg (.brk ty) with
    | none => simp only []; split <;> simp
    | some p => cases p <;> simp
  | .tab => simp [visit, c01_elemText]
  | .image i =>
    simp only [visit, c01_elemText]
    cases h : convertImage cfg i st with
    | error err => simp
    | ok p =>
      obtain ⟨ns, st1⟩ := p
      simp [c01_textless_convertImage cfg i st ns st1 h]
  | .bookmark n => simp [visit, c01_elemText, cel]
  | .noteRef ty id => 
    simp only [visit, c01_elemText]
    rw [c01_bind_run, c01_modify_run]
    simp only []
    rw [c01_bind_run, c01_get_run]
    simp [el, c01_noteMarker]
  | .commentRef id => 
    simp only [visit, c01_elemText]
    cases findPath cfg .commentReference with
    | none => simp
    | some p =>
      cases p with
      | ignore => simp
      | elements es =>
        simp only []
        cases lookupLast id (List.map (fun c => (c.id, c)) cfg.comments) with
        | none => simp
        | some c =>
          simp only []
          rw [c01_bind_run, c01_get_run]
          simp only []
          rw [c01_bind_run, c01_modify_run]
          simp [el, c01_commentLabel]
theorem c01_text_visitAll (cfg : Cfg) (hdr : Bool) (es : List Elem) (st : ConvState) :
    c01_proj (visitAll cfg hdr es st) = c01_elemsText cfg st es := by
  match es with
  | [] => simp [visitAll, c01_elemsText]
  | e :: es =>
    simp only [visitAll, c01_elemsText]
    rw [c01_bind_run]
    have ih1 := c01_text_visit cfg hdr e st
    cases h1 : visit cfg hdr e st with
    | error err => rw [h1] at ih1; simp [← ih1]
    | ok p =>
      obtain ⟨a, st1⟩ := p
      rw [h1] at ih1
      simp only [c01_proj_ok] at ih1
      simp only [← ih1]
      rw [c01_bind_run]
      have ih2 := c01_text_visitAll cfg hdr es st1
      cases h2 : visitAll cfg hdr es st1 with
      | error err => rw [h2] at ih2; simp [← ih2]
      | ok q =>
        obtain ⟨b, st2⟩ := q
        rw [h2] at ih2
        simp only [c01_proj_ok] at ih2
        simp [← ih2]
theorem c01_text_visitRows (cfg : Cfg) (inHead : Bool) (rs : List Elem) (st : ConvState) :
    c01_projRows (visitRows cfg inHead rs st) = c01_elemsText cfg st rs := by
  match rs with
  | [] => simp [visitRows, c01_elemsText]
  | r :: rs =>
    simp only [visitRows, c01_elemsText]
    split
    · rw [c01_bind_run]
      have ih1 := c01_text_visit cfg true r st
      cases h1 : visit cfg true r st with
      | error err => rw [h1] at ih1; simp [← ih1]
      | ok p =>
        obtain ⟨a, st1⟩ := p
        rw [h1] at ih1
        simp only [c01_proj_ok] at ih1
        simp only [← ih1]
        rw [c01_bind_run]
        have ih2 := c01_text_visitRows cfg true rs st1
        cases h2 : visitRows cfg true rs st1 with
        | error err => rw [h2] at ih2; simp [← ih2]
        | ok q =>
          obtain ⟨⟨h, b⟩, st2⟩ := q
          rw [h2] at ih2
          simp only [c01_projRows_ok] at ih2
          simp [← ih2]
    · rw [c01_bind_run]
      have ih1 := c01_text_visit cfg false r st
      cases h1 : visit cfg false r st with
      | error err => rw [h1] at ih1; simp [← ih1]
      | ok p =>
        obtain ⟨a, st1⟩ := p
        rw [h1] at ih1
        simp only [c01_proj_ok] at ih1
        simp only [← ih1]
        rw [c01_bind_run]
        have ih2 := c01_text_visitRows cfg false rs st1
        cases h2 : visitRows cfg false rs st1 with
        | error err => rw [h2] at ih2; simp [← ih2]
        | ok q =>
          obtain ⟨⟨h, b⟩, st2⟩ := q
          rw [h2] at ih2
          simp only [c01_projRows_ok] at ih2
          have : h = [] := c01_visitRows_false_head cfg rs st1 h b st2 h2
          subst this
          simp [← ih2]
end
end Mammoth
