/-
  C09 — the sweep over whole rows of an abstract grid: how often a cell's rowspan is incremented,
  which cells are dropped.
-/
import Proofs.C09_Sweep
namespace Mammoth

/-- the sweep over (a suffix of) one row of an abstract grid -/
def c09_sweepRow (r : Nat) (cells : c09_Row) (pos ci : Nat) (sw : Sweep) : Sweep :=
  sweepCells r (cells.map c09_toCell) pos ci sw

theorem c09_sweepRow_nil (r pos ci : Nat) (sw : Sweep) : c09_sweepRow r [] pos ci sw = sw := rfl

theorem c09_sweepRow_cons (r : Nat) (c : c09_Cell) (cs : c09_Row) (pos ci : Nat) (sw : Sweep) :
    c09_sweepRow r (c :: cs) pos ci sw
      = c09_sweepRow r cs (pos + 1) (ci + c.span) (c09_step r pos ci c.isCont sw) := rfl

theorem c09_sweepRows_cons (hdr : Nat → Bool) (r : Nat) (row : c09_Row) (rest : List c09_Row) (sw : Sweep) :
    sweepRows (c09_toElemsFrom hdr r (row :: rest)) r sw
      = sweepRows (c09_toElemsFrom hdr (r + 1) rest) (r + 1) (c09_sweepRow r row 0 0 sw) := rfl

/-- `k` is the open cell of no column except possibly `s` -/
def c09_onlyAt (sw : Sweep) (k : c09_Id) (s : Nat) : Prop := ∀ c, c09_own sw c = some k → c = s

/-! ### one step, seen from an already processed cell `k` -/

theorem c09_step_other {r pos ci s : Nat} {vm : Bool} {sw : Sweep} {k : c09_Id}
    (hne : ci ≠ s) (hb : c09_before k r pos) (ho : c09_onlyAt sw k s) :
    c09_own (c09_step r pos ci vm sw) s = c09_own sw s ∧
    c09_cnt k (c09_step r pos ci vm sw).incs = c09_cnt k sw.incs ∧
    c09_onlyAt (c09_step r pos ci vm sw) k s := by
  refine ⟨?_, ?_, ?_⟩
  · rw [c09_own_step]; have : s ≠ ci := fun h => hne h.symm
    simp [this]
  · rw [c09_cnt_step]
    have : ¬ (vm = true ∧ c09_own sw ci = some k) := fun h => hne (ho ci h.2)
    simp [this]
  · intro c hc
    rw [c09_own_step] at hc
    by_cases hh : c09_hits ci vm sw = true
    · rw [if_pos hh] at hc; exact ho c hc
    · rw [if_neg hh] at hc
      by_cases hcc : c = ci
      · rw [if_pos hcc] at hc
        exact absurd (Option.some.inj hc) (c09_before_ne hb)
      · rw [if_neg hcc] at hc; exact ho c hc

theorem c09_step_at {r pos s : Nat} {vm : Bool} {sw : Sweep} {k : c09_Id}
    (hb : c09_before k r pos) (ho : c09_onlyAt sw k s) :
    c09_cnt k (c09_step r pos s vm sw).incs
      = c09_cnt k sw.incs + (if c09_own sw s = some k ∧ vm = true then 1 else 0) ∧
    c09_onlyAt (c09_step r pos s vm sw) k s ∧
    (c09_own (c09_step r pos s vm sw) s = some k ↔ c09_own sw s = some k ∧ vm = true) := by
  refine ⟨?_, ?_, ?_⟩
  · rw [c09_cnt_step]
    by_cases h : vm = true ∧ c09_own sw s = some k
    · simp [h.1, h.2]
    · have : ¬ (c09_own sw s = some k ∧ vm = true) := fun h' => h ⟨h'.2, h'.1⟩
      simp [h, this]
  · intro c hc
    rw [c09_own_step] at hc
    by_cases hh : c09_hits s vm sw = true
    · rw [if_pos hh] at hc; exact ho c hc
    · rw [if_neg hh] at hc
      by_cases hcc : c = s
      · exact hcc
      · rw [if_neg hcc] at hc; exact ho c hc
  · rw [c09_own_step]
    by_cases hh : c09_hits s vm sw = true
    · rw [if_pos hh]
      have hv : vm = true := by simp [c09_hits] at hh; exact hh.1
      simp [hv]
    · rw [if_neg hh, if_pos rfl]
      constructor
      · intro h; exact absurd (Option.some.inj h) (c09_before_ne hb)
      · rintro ⟨h1, h2⟩; simp [c09_hits, h1, h2] at hh

/-! ### a row suffix, seen from `k` -/

theorem c09_findStart_cons_eq (c : c09_Cell) (cs : c09_Row) (ci : Nat) :
    c09_findStart (c :: cs) ci ci = some c := by simp [c09_findStart]

theorem c09_findStart_cons_ne (c : c09_Cell) (cs : c09_Row) {ci s : Nat} (h : ci ≠ s) :
    c09_findStart (c :: cs) ci s = c09_findStart cs (ci + c.span) s := by simp [c09_findStart, h]

theorem c09_hasContAtFrom_cons_eq (c : c09_Cell) (cs : c09_Row) (ci : Nat) :
    c09_hasContAtFrom (c :: cs) ci ci = c.isCont := by simp [c09_hasContAtFrom, c09_findStart]

theorem c09_hasContAtFrom_cons_ne (c : c09_Cell) (cs : c09_Row) {ci s : Nat} (h : ci ≠ s) :
    c09_hasContAtFrom (c :: cs) ci s = c09_hasContAtFrom cs (ci + c.span) s := by
  simp [c09_hasContAtFrom, c09_findStart, h]

/-- cells that start to the right of column `s` neither touch column `s` nor increment `k` -/
theorem c09_sweepRow_past (r : Nat) (cells : c09_Row) :
    ∀ (pos ci : Nat) (sw : Sweep) (k : c09_Id) (s : Nat), s < ci → c09_before k r pos → c09_onlyAt sw k s →
      c09_own (c09_sweepRow r cells pos ci sw) s = c09_own sw s ∧
      c09_cnt k (c09_sweepRow r cells pos ci sw).incs = c09_cnt k sw.incs ∧
      c09_onlyAt (c09_sweepRow r cells pos ci sw) k s := by
  induction cells with
  | nil => intro pos ci sw k s _ _ ho; exact ⟨rfl, rfl, ho⟩
  | cons c cs ih =>
    intro pos ci sw k s hlt hb ho
    rw [c09_sweepRow_cons]
    obtain ⟨h1, h2, h3⟩ := c09_step_other (vm := c.isCont) (by omega : ci ≠ s) hb ho
    obtain ⟨g1, g2, g3⟩ := ih (pos + 1) (ci + c.span) _ k s (by omega) (c09_before_succ hb) h3
    exact ⟨g1.trans h1, g2.trans h2, g3⟩

theorem c09_sweepRow_spec (r : Nat) (prev cells : c09_Row) :
    ∀ (pos ci : Nat) (sw : Sweep) (k : c09_Id) (s : Nat), c09_rowOkFrom prev cells ci = true →
      c09_before k r pos → c09_onlyAt sw k s →
      c09_cnt k (c09_sweepRow r cells pos ci sw).incs
        = c09_cnt k sw.incs + (if c09_own sw s = some k ∧ c09_hasContAtFrom cells ci s = true then 1 else 0) ∧
      c09_onlyAt (c09_sweepRow r cells pos ci sw) k s ∧
      (c09_own (c09_sweepRow r cells pos ci sw) s = some k ↔
        c09_own sw s = some k ∧ ∀ c, c09_findStart cells ci s = some c → c.isCont = true) := by
  induction cells with
  | nil =>
    intro pos ci sw k s _ _ ho
    simp [c09_sweepRow_nil, c09_hasContAtFrom, c09_findStart, ho]
  | cons c cs ih =>
    intro pos ci sw k s hok hb ho
    obtain ⟨hspan, hok'⟩ := c09_rowOk_span prev c cs ci hok
    rw [c09_sweepRow_cons]
    by_cases hcs : ci = s
    · subst hcs
      obtain ⟨h1, h2, h3⟩ := c09_step_at (vm := c.isCont) hb ho
      obtain ⟨g1, g2, g3⟩ := c09_sweepRow_past r cs (pos + 1) (ci + c.span) _ k ci (by omega)
        (c09_before_succ hb) h2
      refine ⟨?_, g3, ?_⟩
      · rw [g2, h1, c09_hasContAtFrom_cons_eq]
      · rw [g1, h3, c09_findStart_cons_eq]; simp
    · obtain ⟨h1, h2, h3⟩ := c09_step_other (vm := c.isCont) hcs hb ho
      obtain ⟨g1, g2, g3⟩ := ih (pos + 1) (ci + c.span) _ k s hok' (c09_before_succ hb) h3
      refine ⟨?_, g2, ?_⟩
      · rw [g1, h2, h1, c09_hasContAtFrom_cons_ne c cs hcs]
      · rw [g3, h1, c09_findStart_cons_ne c cs hcs]

/-! ### the rows below, seen from `k` -/

theorem c09_chain_gap (row : c09_Row) (rest : List c09_Row) (s : Nat)
    (hv : c09_validFrom row rest = true) (hn : c09_findStart row 0 s = none) : c09_chain rest s = 0 := by
  cases rest with
  | nil => rfl
  | cons row' rest' =>
    simp only [c09_chain]
    cases hc : c09_hasContAt row' s with
    | false => simp
    | true =>
      exfalso
      simp only [c09_validFrom, Bool.and_eq_true] at hv
      simp only [c09_hasContAt, c09_hasContAtFrom] at hc
      cases hf : c09_findStart row' 0 s with
      | none => simp [hf] at hc
      | some c' =>
        simp only [hf] at hc
        obtain ⟨p, hp, _⟩ := c09_rowOk_above row row' 0 s c' hv.1 hf hc
        simp [hn] at hp

/-- an already processed cell `k` that is the open cell of column `s` (and of no other) is incremented by
    the rows below exactly `chain` times -/
theorem c09_sweepRows_cnt (hdr : Nat → Bool) (rest : List c09_Row) :
    ∀ (prev : c09_Row) (r : Nat) (sw : Sweep) (k : c09_Id) (s : Nat), c09_validFrom prev rest = true →
      k.1 < r → c09_onlyAt sw k s →
      c09_cnt k (sweepRows (c09_toElemsFrom hdr r rest) r sw).incs
        = c09_cnt k sw.incs + (if c09_own sw s = some k then c09_chain rest s else 0) := by
  induction rest with
  | nil => intro prev r sw k s _ _ _; simp [c09_toElemsFrom, sweepRows, c09_chain]
  | cons row rest ih =>
    intro prev r sw k s hv hk ho
    simp only [c09_validFrom, Bool.and_eq_true] at hv
    rw [c09_sweepRows_cons]
    obtain ⟨h1, h2, h3⟩ := c09_sweepRow_spec r prev row 0 0 sw k s hv.1 (Or.inl hk) ho
    rw [ih row (r + 1) _ k s hv.2 (by omega) h2, h1]
    by_cases hown : c09_own sw s = some k
    · simp only [hown, true_and, if_true, c09_chain, c09_hasContAt]
      by_cases hc : c09_hasContAtFrom row 0 s = true
      · have : c09_own (c09_sweepRow r row 0 0 sw) s = some k := by
          rw [h3]; refine ⟨hown, ?_⟩
          intro c hf; simpa [c09_hasContAtFrom, hf] using hc
        simp [this, hc]; omega
      · by_cases hown' : c09_own (c09_sweepRow r row 0 0 sw) s = some k
        · have hall := (h3.mp hown').2
          have hn : c09_findStart row 0 s = none := by
            cases hf : c09_findStart row 0 s with
            | none => rfl
            | some c => have := hall c hf; simp [c09_hasContAtFrom, hf, this] at hc
          simp [hown', hc, c09_chain_gap row rest s hv.2 hn]
        · simp [hown', hc]
    · have : ¬ c09_own (c09_sweepRow r row 0 0 sw) s = some k := fun h => hown (h3.mp h).1
      simp [hown, this]

/-! ### the drops -/

theorem c09_sweepRow_drops (r : Nat) (cells : c09_Row) :
    ∀ (pos ci : Nat) (sw : Sweep) (v : c09_Id),
      (v ∈ sw.drops → v ∈ (c09_sweepRow r cells pos ci sw).drops) ∧
      (v ∈ (c09_sweepRow r cells pos ci sw).drops → v ∈ sw.drops ∨ (v.1 = r ∧ pos ≤ v.2)) := by
  induction cells with
  | nil => intro pos ci sw v; exact ⟨id, Or.inl⟩
  | cons c cs ih =>
    intro pos ci sw v
    rw [c09_sweepRow_cons]
    obtain ⟨g1, g2⟩ := ih (pos + 1) (ci + c.span) (c09_step r pos ci c.isCont sw) v
    constructor
    · intro h; exact g1 ((c09_drops_step ..).mpr (Or.inl h))
    · intro h
      rcases g2 h with h | h
      · rcases (c09_drops_step ..).mp h with h | h
        · exact Or.inl h
        · right; rw [h.1]; simp
      · right; omega

theorem c09_sweepRows_drops (hdr : Nat → Bool) (rest : List c09_Row) :
    ∀ (r : Nat) (sw : Sweep) (v : c09_Id),
      (v ∈ sw.drops → v ∈ (sweepRows (c09_toElemsFrom hdr r rest) r sw).drops) ∧
      (v ∈ (sweepRows (c09_toElemsFrom hdr r rest) r sw).drops → v ∈ sw.drops ∨ r ≤ v.1) := by
  induction rest with
  | nil => intro r sw v; exact ⟨id, Or.inl⟩
  | cons row rest ih =>
    intro r sw v
    rw [c09_sweepRows_cons]
    obtain ⟨g1, g2⟩ := ih (r + 1) (c09_sweepRow r row 0 0 sw) v
    obtain ⟨d1, d2⟩ := c09_sweepRow_drops r row 0 0 sw v
    constructor
    · intro h; exact g1 (d1 h)
    · intro h
      rcases g2 h with h | h
      · rcases d2 h with h | h
        · exact Or.inl h
        · right; omega
      · right; omega

/-! ### freshness and column owners along a row -/

theorem c09_sweepRow_fresh (r : Nat) (cells : c09_Row) :
    ∀ (pos ci : Nat) (sw : Sweep), c09_Fresh sw r pos → c09_Fresh (c09_sweepRow r cells pos ci sw) (r + 1) 0 := by
  induction cells with
  | nil =>
    intro pos ci sw h
    exact h.mono (fun v hv => by unfold c09_before at *; omega)
  | cons c cs ih =>
    intro pos ci sw h
    rw [c09_sweepRow_cons]
    exact ih _ _ _ (h.step ci c.isCont)

theorem c09_own_step_some (r pos ci : Nat) (vm : Bool) (sw : Sweep) (c : Nat)
    (h : (c09_own sw c).isSome = true) : (c09_own (c09_step r pos ci vm sw) c).isSome = true := by
  rw [c09_own_step]
  by_cases hh : c09_hits ci vm sw = true
  · simpa [hh] using h
  · by_cases hc : c = ci <;> simp [hh, hc, h]

theorem c09_own_step_self (r pos ci : Nat) (vm : Bool) (sw : Sweep) :
    (c09_own (c09_step r pos ci vm sw) ci).isSome = true := by
  rw [c09_own_step]
  by_cases hh : c09_hits ci vm sw = true
  · simp only [hh, if_true]; simp [c09_hits] at hh; exact hh.2
  · simp [hh]

theorem c09_sweepRow_own_some (r : Nat) (cells : c09_Row) :
    ∀ (pos ci : Nat) (sw : Sweep) (c : Nat), (c09_own sw c).isSome = true →
      (c09_own (c09_sweepRow r cells pos ci sw) c).isSome = true := by
  induction cells with
  | nil => intro pos ci sw c h; exact h
  | cons d ds ih =>
    intro pos ci sw c h
    rw [c09_sweepRow_cons]
    exact ih _ _ _ c (c09_own_step_some r pos ci d.isCont sw c h)

/-- after a row has been swept every start column of the row has an open cell -/
theorem c09_sweepRow_owns (r : Nat) (cells : c09_Row) :
    ∀ (pos ci : Nat) (sw : Sweep) (s : Nat), (c09_findStart cells ci s).isSome = true →
      (c09_own (c09_sweepRow r cells pos ci sw) s).isSome = true := by
  induction cells with
  | nil => intro pos ci sw s h; simp [c09_findStart] at h
  | cons d ds ih =>
    intro pos ci sw s h
    rw [c09_sweepRow_cons]
    by_cases hcs : ci = s
    · subst hcs
      exact c09_sweepRow_own_some r ds _ _ _ ci (c09_own_step_self r pos ci d.isCont sw)
    · simp only [c09_findStart, hcs, if_false] at h
      exact ih _ _ _ s h

end Mammoth
