/-
  C18 — "conversion reads nothing outside the given file except linked images".
  Helper definitions (the specification of the allowed external reads) and the invariant lemmas
  about the converter monad `ConvM`.
-/
import MammothModel.Package
namespace Mammoth

/-! ### specification -/

/-- the uri of an image source when it is a *linked* image -/
def c18_srcLinked : ImageSrc → List Str
  | .linked uri => [uri]
  | .embedded _ => []

mutual
/-- uris of all linked images in an element, document order -/
def c18_linked : Elem → List Str
  | .paragraph _ cs => c18_linkedL cs
  | .run _ cs => c18_linkedL cs
  | .text _ => []
  | .hyperlink _ cs => c18_linkedL cs
  | .checkbox _ => []
  | .table _ _ rows => c18_linkedL rows
  | .row _ cells => c18_linkedL cells
  | .cell _ _ _ cs => c18_linkedL cs
  | .brk _ => []
  | .tab => []
  | .image i => c18_srcLinked i.src
  | .bookmark _ => []
  | .noteRef _ _ => []
  | .commentRef _ => []
def c18_linkedL : List Elem → List Str
  | [] => []
  | e :: es => c18_linked e ++ c18_linkedL es
end

/-- uris of all linked images of a document: body, then every note body, then every comment body -/
def c18_docLinked (d : Document) : List Str :=
  c18_linkedL d.children ++ d.notes.flatMap (fun n => c18_linkedL n.body)
    ++ d.comments.flatMap (fun c => c18_linkedL c.body)

/-- `op` is a read allowed by `Files.open` for one of the linked-image uris `uris`, given the
    directory `base` of the input file: `urlopen uri` for an absolute uri, or opening
    `os.path.join(base, uri)` for a relative one (only possible when there is a `base`). -/
def c18_opOk (base : Option Str) (uris : List Str) (op : IoOp) : Prop :=
  ∃ uri ∈ uris, (op = .urlopen uri ∧ isAbsoluteUri uri = true) ∨
    (∃ b, base = some b ∧ op = .openFile (osPathJoin b uri) ∧ isAbsoluteUri uri = false)

/-- does the configured image converter open the image at all? -/
def c18_opens (cfg : Cfg) : Bool :=
  match cfg.imageConv with
  | .dataUri => true
  | .fixed _ opens => opens

theorem c18_opOk_mono {base : Option Str} {U V : List Str} (h : U ⊆ V) {op : IoOp}
    (ho : c18_opOk base U op) : c18_opOk base V op := by
  obtain ⟨u, hu, r⟩ := ho
  exact ⟨u, h hu, r⟩

theorem c18_opOk_nil (base : Option Str) (op : IoOp) : ¬ c18_opOk base [] op := by
  rintro ⟨u, hu, _⟩
  cases hu

/-! ### the state-transition relation -/

/-- `st'` is reachable from `st` by a conversion step that only reads linked images among `U`
    and only references comments of `cfg.comments` -/
def c18_step (cfg : Cfg) (U : List Str) (st st' : ConvState) : Prop :=
  (∃ ops, st'.ioTrace = st.ioTrace ++ ops ∧
      ∀ op ∈ ops, c18_opens cfg = true ∧ c18_opOk cfg.base U op) ∧
  (∃ new, st'.refComments = st.refComments ++ new ∧ ∀ x ∈ new, x.2 ∈ cfg.comments)

theorem c18_step_refl (cfg : Cfg) (U : List Str) (st : ConvState) : c18_step cfg U st st :=
  ⟨⟨[], by simp, by simp⟩, ⟨[], by simp, by simp⟩⟩

theorem c18_step_of_eq {cfg : Cfg} {U : List Str} {st st' : ConvState}
    (h1 : st'.ioTrace = st.ioTrace) (h2 : st'.refComments = st.refComments) :
    c18_step cfg U st st' :=
  ⟨⟨[], by simp [h1], by simp⟩, ⟨[], by simp [h2], by simp⟩⟩

theorem c18_step_trans {cfg : Cfg} {U : List Str} {s1 s2 s3 : ConvState}
    (h12 : c18_step cfg U s1 s2) (h23 : c18_step cfg U s2 s3) : c18_step cfg U s1 s3 := by
  obtain ⟨⟨o1, e1, p1⟩, ⟨n1, f1, q1⟩⟩ := h12
  obtain ⟨⟨o2, e2, p2⟩, ⟨n2, f2, q2⟩⟩ := h23
  refine ⟨⟨o1 ++ o2, by rw [e2, e1, List.append_assoc], ?_⟩,
          ⟨n1 ++ n2, by rw [f2, f1, List.append_assoc], ?_⟩⟩
  · intro op hop
    rcases List.mem_append.mp hop with h | h
    · exact p1 op h
    · exact p2 op h
  · intro x hx
    rcases List.mem_append.mp hx with h | h
    · exact q1 x h
    · exact q2 x h

theorem c18_step_mono {cfg : Cfg} {U V : List Str} (h : U ⊆ V) {s1 s2 : ConvState}
    (hs : c18_step cfg U s1 s2) : c18_step cfg V s1 s2 := by
  obtain ⟨⟨o1, e1, p1⟩, r⟩ := hs
  exact ⟨⟨o1, e1, fun op hop => ⟨(p1 op hop).1, c18_opOk_mono h (p1 op hop).2⟩⟩, r⟩

/-- every successful run of `m` is a `c18_step` -/
def c18_grows {α : Type} (cfg : Cfg) (U : List Str) (m : ConvM α) : Prop :=
  ∀ st a st', m.run st = .ok (a, st') → c18_step cfg U st st'

theorem c18_grows_mono {α : Type} {cfg : Cfg} {U V : List Str} (h : U ⊆ V) {m : ConvM α}
    (hm : c18_grows cfg U m) : c18_grows cfg V m :=
  fun st a st' hr => c18_step_mono h (hm st a st' hr)

theorem c18_run_bind_ok {α β : Type} (m : ConvM α) (f : α → ConvM β) (st : ConvState) (b : β)
    (st'' : ConvState) (h : (m >>= f).run st = .ok (b, st'')) :
    ∃ a st', m.run st = .ok (a, st') ∧ (f a).run st' = .ok (b, st'') := by
  rw [StateT.run_bind] at h
  cases hm : m.run st with
  | error e => rw [hm] at h; cases h
  | ok p =>
    obtain ⟨a, s⟩ := p
    rw [hm] at h
    exact ⟨a, s, rfl, h⟩

theorem c18_except_bind_ok {α β : Type} (x : Except Err α) (f : α → Except Err β) (b : β)
    (h : (x >>= f) = .ok b) : ∃ a, x = .ok a ∧ f a = .ok b := by
  cases x with
  | error e => cases h
  | ok a => exact ⟨a, rfl, h⟩

theorem c18_grows_pure {α : Type} (cfg : Cfg) (U : List Str) (a : α) :
    c18_grows cfg U (pure a : ConvM α) := by
  intro st a' st' h
  rw [StateT.run_pure] at h
  cases h
  exact c18_step_refl _ _ _

theorem c18_grows_bind {α β : Type} {cfg : Cfg} {U : List Str} {m : ConvM α} {f : α → ConvM β}
    (hm : c18_grows cfg U m) (hf : ∀ a, c18_grows cfg U (f a)) : c18_grows cfg U (m >>= f) := by
  intro st b st'' h
  obtain ⟨a, st', h1, h2⟩ := c18_run_bind_ok m f st b st'' h
  exact c18_step_trans (hm _ _ _ h1) (hf a _ _ _ h2)

theorem c18_grows_throw {α : Type} (cfg : Cfg) (U : List Str) (e : Err) :
    c18_grows cfg U (throw e : ConvM α) := by
  intro st a st' h
  cases h

theorem c18_grows_modify (cfg : Cfg) (U : List Str) (f : ConvState → ConvState)
    (h1 : ∀ s, (f s).ioTrace = s.ioTrace) (h2 : ∀ s, (f s).refComments = s.refComments) :
    c18_grows cfg U (modify f : ConvM PUnit) := by
  intro st a st' h
  rw [StateT.run_modify] at h
  cases h
  exact c18_step_of_eq (h1 _) (h2 _)

theorem c18_grows_warn (cfg : Cfg) (U : List Str) (m : Str) : c18_grows cfg U (warn m) :=
  c18_grows_modify cfg U _ (fun _ => rfl) (fun _ => rfl)

theorem c18_grows_get (cfg : Cfg) (U : List Str) : c18_grows cfg U (get : ConvM ConvState) := by
  intro st a st' h
  rw [StateT.run_get] at h
  cases h
  exact c18_step_refl _ _ _

theorem c18_grows_findPathWarn (cfg : Cfg) (U : List Str) (t : Target) (kind : Str)
    (sid sname : Option Str) (dflt : HtmlPath) :
    c18_grows cfg U (findPathWarn cfg t kind sid sname dflt) := by
  unfold findPathWarn
  split
  · exact c18_grows_pure _ _ _
  · dsimp only
    split
    · exact c18_grows_bind (c18_grows_warn _ _ _) (fun _ => c18_grows_pure _ _ _)
    · exact c18_grows_pure _ _ _

end Mammoth
