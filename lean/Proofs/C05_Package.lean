/-
  C05 — the package reader on its domain.  All notes of one part (and all comments) are read by ONE body
  reader, i.e. with one reader state threaded through them: fields may stay open and deleted paragraphs may
  defer content from one note to the next.  So a part is handled as the concatenation of the children of its
  note elements (`c05_flat`): reading the notes one after the other succeeds iff reading the concatenation
  does (`c05_readAllWith_append_ok`).
-/
import Proofs.C05_View
import Proofs.C05_RefsRead
import Proofs.C05_RBalanced
import Proofs.C05_FuelAll
import Proofs.C05_Fuel
namespace Mammoth

/-- the nodes one part hands to its body reader, in reading order -/
def c05_flat (elems : List (Attrs × List XmlNode)) : List XmlNode := elems.flatMap (·.2)

theorem c05_flat_cons (as : Attrs) (cs : List XmlNode) (rest : List (Attrs × List XmlNode)) :
    c05_flat ((as, cs) :: rest) = cs ++ c05_flat rest := by
  simp [c05_flat, List.flatMap_cons]

theorem c05_readAllWith_append_ok (rd : c05_Rd) :
    ∀ (xs ys : List XmlNode) (st : RState) (r : ReadResult × RState),
      readAllWith rd st (xs ++ ys) = .ok r →
      ∃ r1 st1 r2, readAllWith rd st xs = .ok (r1, st1) ∧ readAllWith rd st1 ys = .ok (r2, r.2)
  | [], ys, st, r, h => ⟨{}, st, r.1, by simp only [readAllWith], h⟩
  | .text _ :: rest, ys, st, r, h => by
    simp only [List.cons_append, readAllWith] at h ⊢
    exact c05_readAllWith_append_ok rd rest ys st r h
  | .elem n as cs :: rest, ys, st, r, h => by
    simp only [List.cons_append, readAllWith] at h ⊢
    cases h1 : rd st (.elem n as cs) with
    | error e => rw [h1] at h; simp [bind, Except.bind] at h
    | ok a =>
      obtain ⟨ra, sta⟩ := a
      rw [h1] at h
      simp only [bind, Except.bind] at h ⊢
      cases h2 : readAllWith rd sta (rest ++ ys) with
      | error e => rw [h2] at h; simp at h
      | ok b =>
        rw [h2] at h
        simp only [pure, Except.pure] at h
        cases h
        obtain ⟨r1, st1, r2, h3, h4⟩ := c05_readAllWith_append_ok rd rest ys sta b h2
        refine ⟨ra.concat r1, st1, r2, ?_, h4⟩
        rw [h3]; rfl

/-! ### notes and comments: totality -/

theorem c05_readNoteElems_ok (env : REnv) (fuel : Nat) (ty : Str) :
    ∀ (elems : List (Attrs × List XmlNode)) (st : RState),
      (∃ r, readAll env fuel st (c05_flat elems) = .ok r) →
      (elems.all fun e => (attr? S!"w:id" e.1).isSome) = true →
      ∃ out, readNoteElems env fuel ty st elems = .ok out
  | [], st, _, _ => ⟨_, c05_readNoteElems_nil env fuel ty st⟩
  | (as, cs) :: rest, st, ⟨r, hr⟩, hid => by
    rw [c05_flat_cons] at hr
    obtain ⟨r1, st1, r2, h1, h2⟩ := c05_readAllWith_append_ok _ cs (c05_flat rest) st r hr
    simp only [List.all_cons, Bool.and_eq_true] at hid
    obtain ⟨out, hout⟩ := c05_readNoteElems_ok env fuel ty rest st1 ⟨_, h2⟩ hid.2
    cases hi : attr? S!"w:id" as with
    | none => rw [hi] at hid; exact absurd hid.1 (by simp)
    | some i =>
      unfold readNoteElems
      unfold readAll
      rw [h1]
      simp only [bind, Except.bind, hi, pure, Except.pure, hout]
      exact ⟨_, rfl⟩

theorem c05_readCommentElems_ok (env : REnv) (fuel : Nat) :
    ∀ (elems : List (Attrs × List XmlNode)) (st : RState),
      (∃ r, readAll env fuel st (c05_flat elems) = .ok r) →
      (elems.all fun e => (attr? S!"w:id" e.1).isSome) = true →
      ∃ out, readCommentElems env fuel st elems = .ok out
  | [], st, _, _ => ⟨_, c05_readCommentElems_nil env fuel st⟩
  | (as, cs) :: rest, st, ⟨r, hr⟩, hid => by
    rw [c05_flat_cons] at hr
    obtain ⟨r1, st1, r2, h1, h2⟩ := c05_readAllWith_append_ok _ cs (c05_flat rest) st r hr
    simp only [List.all_cons, Bool.and_eq_true] at hid
    obtain ⟨out, hout⟩ := c05_readCommentElems_ok env fuel rest st1 ⟨_, h2⟩ hid.2
    cases hi : attr? S!"w:id" as with
    | none => rw [hi] at hid; exact absurd hid.1 (by simp)
    | some i =>
      unfold readCommentElems
      unfold readAll
      rw [h1]
      simp only [bind, Except.bind, hi, pure, Except.pure, hout]
      exact ⟨_, rfl⟩

/-! ### notes and comments: the references in what is read -/

theorem c05_bind_ok {α β} (x : Except Err α) (f : α → Except Err β) (b : β)
    (h : (x >>= f) = .ok b) : ∃ a, x = .ok a ∧ f a = .ok b := by
  cases x with
  | error e => simp [bind, Except.bind] at h
  | ok a => exact ⟨a, rfl, h⟩

/-- the (type, id) keys of the notes a part defines -/
def c05_noteKeys (ty : Str) (elems : List (Attrs × List XmlNode)) : List (Str × Str) :=
  elems.filterMap fun e => (attr? S!"w:id" e.1).map fun id => (ty, id)

/-- the ids of the comments the comments part defines -/
def c05_commentIds (elems : List (Attrs × List XmlNode)) : List Str :=
  elems.filterMap fun e => attr? S!"w:id" e.1

theorem c05_readNoteElems_rx (env : REnv) (R : c05_Refs) (fuel : Nat) (ty : Str) :
    ∀ (elems : List (Attrs × List XmlNode)) (st : RState) (out : List Note × List Str),
      readNoteElems env fuel ty st elems = .ok out →
      c05_xrefsL env R (c05_flat elems) = true → c05_xrefsL env R st.deleted = true →
      (∀ n ∈ out.1, c05_refsOkL R n.body = true) ∧
      (∀ k ∈ c05_noteKeys ty elems, k ∈ out.1.map fun n => (n.ty, n.id))
  | [], st, out, h, _, _ => by
    rw [c05_readNoteElems_nil] at h; cases h
    exact ⟨fun n hn => absurd hn List.not_mem_nil, fun k hk => by simp [c05_noteKeys] at hk⟩
  | (as, cs) :: rest, st, out, h, hx, hd => by
    rw [c05_flat_cons, c05_xrefsL_append, Bool.and_eq_true] at hx
    unfold readNoteElems at h
    obtain ⟨⟨r1, st1⟩, h1, h⟩ := c05_bind_ok _ _ _ h
    obtain ⟨hr1, hst1⟩ := c05_readAll_rx env R fuel st cs r1 st1 hx.1 hd h1
    dsimp only at h
    cases hi : attr? S!"w:id" as with
    | none =>
      rw [hi] at h; dsimp only at h
      obtain ⟨i, h2, _⟩ := c05_bind_ok _ _ _ h
      cases h2
    | some i =>
      rw [hi] at h; dsimp only at h
      obtain ⟨i', h2, h⟩ := c05_bind_ok _ _ _ h
      simp only [pure, Except.pure] at h2
      cases h2
      obtain ⟨⟨ns, ms⟩, h3, h⟩ := c05_bind_ok _ _ _ h
      obtain ⟨ih1, ih2⟩ := c05_readNoteElems_rx env R fuel ty rest st1 _ h3 hx.2 hst1
      simp only [pure, Except.pure] at h
      cases h
      refine ⟨fun n hn => ?_, fun k hk => ?_⟩
      · rcases List.mem_cons.mp hn with rfl | hn
        · exact hr1
        · exact ih1 n hn
      · simp only [c05_noteKeys, List.filterMap_cons, hi, Option.map, List.mem_cons] at hk
        rcases hk with rfl | hk
        · exact List.mem_cons_self
        · exact List.mem_cons_of_mem _ (ih2 k hk)

theorem c05_readCommentElems_rx (env : REnv) (R : c05_Refs) (fuel : Nat) :
    ∀ (elems : List (Attrs × List XmlNode)) (st : RState) (out : List Comment × List Str),
      readCommentElems env fuel st elems = .ok out →
      c05_xrefsL env R (c05_flat elems) = true → c05_xrefsL env R st.deleted = true →
      (∀ c ∈ out.1, c05_refsOkL R c.body = true) ∧
      (∀ k ∈ c05_commentIds elems, k ∈ out.1.map (·.id))
  | [], st, out, h, _, _ => by
    rw [c05_readCommentElems_nil] at h; cases h
    exact ⟨fun n hn => absurd hn List.not_mem_nil, fun k hk => by simp [c05_commentIds] at hk⟩
  | (as, cs) :: rest, st, out, h, hx, hd => by
    rw [c05_flat_cons, c05_xrefsL_append, Bool.and_eq_true] at hx
    unfold readCommentElems at h
    obtain ⟨⟨r1, st1⟩, h1, h⟩ := c05_bind_ok _ _ _ h
    obtain ⟨hr1, hst1⟩ := c05_readAll_rx env R fuel st cs r1 st1 hx.1 hd h1
    dsimp only at h
    cases hi : attr? S!"w:id" as with
    | none =>
      rw [hi] at h; dsimp only at h
      obtain ⟨i, h2, _⟩ := c05_bind_ok _ _ _ h
      cases h2
    | some i =>
      rw [hi] at h; dsimp only at h
      obtain ⟨i', h2, h⟩ := c05_bind_ok _ _ _ h
      simp only [pure, Except.pure] at h2
      cases h2
      obtain ⟨⟨ns, ms⟩, h3, h⟩ := c05_bind_ok _ _ _ h
      obtain ⟨ih1, ih2⟩ := c05_readCommentElems_rx env R fuel rest st1 _ h3 hx.2 hst1
      simp only [pure, Except.pure] at h
      cases h
      refine ⟨fun n hn => ?_, fun k hk => ?_⟩
      · rcases List.mem_cons.mp hn with rfl | hn
        · exact hr1
        · exact ih1 n hn
      · simp only [c05_commentIds, List.filterMap_cons, hi, List.mem_cons] at hk
        rcases hk with rfl | hk
        · exact List.mem_cons_self
        · exact List.mem_cons_of_mem _ (ih2 k hk)

/-! ### the view: totality -/

/-- reader totality on a body (the lemma behind `C05_readAll_total`) -/
theorem c05_readAll_total (env : REnv) (hl : c05_linksAcyclic env = true) (fuel : Nat)
    (ns : List XmlNode) (hs : c05_staticL env ns = true) (hb : c05_balanced ns = true)
    (hf : xmlSizeL ns ≤ fuel) : ∃ r, readAll env fuel {} ns = .ok r := by
  have hn := c05_numOk_of_acyclic env hl
  unfold c05_balanced at hb
  cases hb' : c05_rdepthL (xmlSizeL ns) (0, []) ns with
  | none => rw [hb'] at hb; cases hb
  | some s' =>
    have key := (c05_readAllWith_rbal env _ _ (c05_readElem_rbal env hn (xmlSizeL ns))
      (c05_readElem_specG env hn (xmlSizeL ns)) ns {} hs rfl).h s' hb'
    have nf := c05_readAllWith_nofuelA _ (xmlSizeL ns) (c05_readElem_nofuelA env (xmlSizeL ns)) ns {}
      (by simp [xmlSizeL])
    cases h : readAllWith (readElem env (xmlSizeL ns)) {} ns with
    | error e => exact absurd (key.err e h) (nf.err e h)
    | ok r =>
      obtain ⟨k, rfl⟩ := Nat.exists_eq_add_of_le hf
      exact ⟨r, (c05_readAllWith_le _ _ (fun st n => c05_readElem_le_add env (xmlSizeL ns) k st n) ns {}).h r h⟩

/-- one notes / comments part is readable: every note element has a `w:id`; the children of all note
    elements, in sequence, are statically well-formed and balanced in reading order -/
def c05_partOk (env : REnv) (elems : List (Attrs × List XmlNode)) : Bool :=
  (elems.all fun e => (attr? S!"w:id" e.1).isSome) && c05_staticL env (c05_flat elems) &&
  c05_balanced (c05_flat elems)

/-- everything `docx.read` reads is readable -/
def c05_viewReadable (v : c05_View) : Bool :=
  c05_linksAcyclic v.shared &&
  c05_partOk { v.shared with rels := v.fnRels } v.fnElems &&
  c05_partOk { v.shared with rels := v.enRels } v.enElems &&
  c05_partOk { v.shared with rels := v.cmRels } v.cmElems &&
  c05_staticL { v.shared with rels := v.bodyRels } v.body && c05_balanced v.body

/-- enough fuel for every part -/
def c05_viewFuel (v : c05_View) : Nat :=
  max (xmlSizeL (c05_flat v.fnElems)) (max (xmlSizeL (c05_flat v.enElems))
    (max (xmlSizeL (c05_flat v.cmElems)) (xmlSizeL v.body)))

theorem c05_readView_total (v : c05_View) (fuel : Nat) (h : c05_viewReadable v = true)
    (hf : c05_viewFuel v ≤ fuel) : ∃ dm, c05_readView v fuel = .ok dm := by
  simp only [c05_viewReadable, c05_partOk, Bool.and_eq_true] at h
  obtain ⟨⟨⟨⟨⟨hl, ⟨hf1, hf2⟩, hf3⟩, ⟨he1, he2⟩, he3⟩, ⟨hc1, hc2⟩, hc3⟩, hb1⟩, hb2⟩ := h
  unfold c05_viewFuel at hf
  have hl' : ∀ rels, c05_linksAcyclic { v.shared with rels := rels } = true := fun _ => hl
  obtain ⟨⟨fns, fm⟩, h1⟩ := c05_readNoteElems_ok { v.shared with rels := v.fnRels } fuel S!"footnote" v.fnElems {}
    (c05_readAll_total _ (hl' _) fuel _ hf2 hf3 (by omega)) hf1
  obtain ⟨⟨ens, em⟩, h2⟩ := c05_readNoteElems_ok { v.shared with rels := v.enRels } fuel S!"endnote" v.enElems {}
    (c05_readAll_total _ (hl' _) fuel _ he2 he3 (by omega)) he1
  obtain ⟨⟨cms, cm⟩, h3⟩ := c05_readCommentElems_ok { v.shared with rels := v.cmRels } fuel v.cmElems {}
    (c05_readAll_total _ (hl' _) fuel _ hc2 hc3 (by omega)) hc1
  obtain ⟨⟨r, st'⟩, h4⟩ := c05_readAll_total { v.shared with rels := v.bodyRels } (hl' _) fuel v.body hb1 hb2 (by omega)
  unfold c05_readView
  rw [h1]; simp only [bind, Except.bind]
  rw [h2]; simp only
  rw [h3]; simp only
  rw [h4]
  exact ⟨_, rfl⟩

/-! ### the view: references -/

/-- what the references of this package may point to: the zip entries `arch`, the notes and the comments
    the parts define -/
def c05_viewRefs (arch : List Str) (v : c05_View) : c05_Refs :=
  { arch := arch,
    notes := c05_noteKeys S!"footnote" v.fnElems ++ c05_noteKeys S!"endnote" v.enElems,
    comments := c05_commentIds v.cmElems }

/-- every reference anywhere in the nodes read resolves -/
def c05_viewRefsOk (arch : List Str) (v : c05_View) : Bool :=
  c05_xrefsL { v.shared with rels := v.fnRels } (c05_viewRefs arch v) (c05_flat v.fnElems) &&
  c05_xrefsL { v.shared with rels := v.enRels } (c05_viewRefs arch v) (c05_flat v.enElems) &&
  c05_xrefsL { v.shared with rels := v.cmRels } (c05_viewRefs arch v) (c05_flat v.cmElems) &&
  c05_xrefsL { v.shared with rels := v.bodyRels } (c05_viewRefs arch v) v.body

theorem c05_readView_refs (arch : List Str) (v : c05_View) (fuel : Nat) (doc : Document) (msgs : List Str)
    (h : c05_readView v fuel = .ok (doc, msgs)) (hx : c05_viewRefsOk arch v = true) :
    c05_docRefsOk (c05_viewRefs arch v) doc = true ∧
    (∀ k ∈ (c05_viewRefs arch v).notes, k ∈ doc.notes.map fun n => (n.ty, n.id)) ∧
    (∀ c ∈ (c05_viewRefs arch v).comments, c ∈ doc.comments.map (·.id)) := by
  simp only [c05_viewRefsOk, Bool.and_eq_true] at hx
  obtain ⟨⟨⟨hx1, hx2⟩, hx3⟩, hx4⟩ := hx
  unfold c05_readView at h
  obtain ⟨⟨fns, fm⟩, h1, h⟩ := c05_bind_ok _ _ _ h
  dsimp only at h
  obtain ⟨⟨ens, em⟩, h2, h⟩ := c05_bind_ok _ _ _ h
  dsimp only at h
  obtain ⟨⟨cms, cm⟩, h3, h⟩ := c05_bind_ok _ _ _ h
  dsimp only at h
  obtain ⟨⟨r, st'⟩, h4, h⟩ := c05_bind_ok _ _ _ h
  simp only [pure, Except.pure] at h
  cases h
  obtain ⟨a1, a2⟩ := c05_readNoteElems_rx _ (c05_viewRefs arch v) fuel _ _ {} _ h1 hx1 rfl
  obtain ⟨b1, b2⟩ := c05_readNoteElems_rx _ (c05_viewRefs arch v) fuel _ _ {} _ h2 hx2 rfl
  obtain ⟨c1, c2⟩ := c05_readCommentElems_rx _ (c05_viewRefs arch v) fuel _ {} _ h3 hx3 rfl
  obtain ⟨d1, _⟩ := c05_readAll_rx _ (c05_viewRefs arch v) fuel {} _ r st' hx4 rfl h4
  refine ⟨?_, ?_, ?_⟩
  · simp only [c05_docRefsOk, Bool.and_eq_true, List.all_eq_true]
    refine ⟨⟨d1, fun n hn => ?_⟩, fun c hc => c1 c hc⟩
    rcases List.mem_append.mp hn with hn | hn
    · exact a1 n hn
    · exact b1 n hn
  · intro k hk
    simp only [c05_viewRefs, List.mem_append] at hk
    simp only [List.map_append, List.mem_append]
    rcases hk with hk | hk
    · exact Or.inl (a2 k hk)
    · exact Or.inr (b2 k hk)
  · intro c hc
    exact c2 c hc

end Mammoth
