/-
  C04 — text content under `collapse` for ALL forests (separators included).

  * `IsDecoL ns s` : `s` is the text of `ns` with, in front of the content of SOME collapsible elements,
    that element's own separator inserted (a relation defined by recursion over the input forest; it does not
    mention the algorithm).  `isDecoL_collapse : IsDecoL ns (textOfL (collapse ns))`.
  * conservation: text length + total separator length of the elements present is the same before and after:
    every element that disappears (is merged) leaves exactly its separator.
-/
import Proofs.Stable
namespace Mammoth

/-- the separator string of a tag (`[]` when there is none) -/
def sepStr (t : Tag) : Str :=
  match t.separator with
  | some s => s
  | none => []

theorem textOfL_sepText (t : Tag) : textOfL (sepText t) = sepStr t := by
  unfold sepText sepStr
  cases t.separator with
  | none => simp
  | some s =>
    by_cases h : s.isEmpty
    · have := List.isEmpty_iff.mp h
      subst this; simp
    · simp [h]

theorem sepText_nil_of (t : Tag) (h : sepText t = []) : sepStr t = [] := by
  rw [← textOfL_sepText, h]; simp

mutual
/-- `IsDeco n s`: `s` is the text of `n` where each element may be preceded — directly in front of its
    content — by its own separator, provided it is collapsible (not `:fresh`) -/
def IsDeco : Node → Str → Prop
  | .text x, s => s = x
  | .forceWrite, s => s = []
  | .elem t cs, s => IsDecoL cs s ∨ (t.collapsible = true ∧ ∃ s', s = sepStr t ++ s' ∧ IsDecoL cs s')
def IsDecoL : List Node → Str → Prop
  | [], s => s = []
  | c :: cs, s => ∃ a b, s = a ++ b ∧ IsDeco c a ∧ IsDecoL cs b
end

theorem isDecoL_nil (s : Str) : IsDecoL [] s ↔ s = [] := by simp [IsDecoL]
theorem isDecoL_cons (c : Node) (cs : List Node) (s : Str) :
    IsDecoL (c :: cs) s ↔ ∃ a b, s = a ++ b ∧ IsDeco c a ∧ IsDecoL cs b := by simp [IsDecoL]
theorem isDeco_elem (t : Tag) (cs : List Node) (s : Str) :
    IsDeco (.elem t cs) s ↔
      (IsDecoL cs s ∨ (t.collapsible = true ∧ ∃ s', s = sepStr t ++ s' ∧ IsDecoL cs s')) := by
  simp [IsDeco]

theorem isDecoL_append (xs ys : List Node) (s : Str) :
    IsDecoL (xs ++ ys) s ↔ ∃ a b, s = a ++ b ∧ IsDecoL xs a ∧ IsDecoL ys b := by
  induction xs generalizing s with
  | nil =>
    simp only [List.nil_append, isDecoL_nil]
    constructor
    · intro h; exact ⟨[], s, by simp, rfl, h⟩
    · rintro ⟨a, b, rfl, rfl, hb⟩; simpa using hb
  | cons x xs ih =>
    simp only [List.cons_append, isDecoL_cons]
    constructor
    · rintro ⟨a, b, rfl, ha, hb⟩
      obtain ⟨b1, b2, rfl, h1, h2⟩ := (ih b).mp hb
      exact ⟨a ++ b1, b2, by simp, ⟨a, b1, rfl, ha, h1⟩, h2⟩
    · rintro ⟨a, b, rfl, ⟨a1, a2, rfl, h1, h2⟩, hb⟩
      exact ⟨a1, a2 ++ b, by simp, h1, (ih _).mpr ⟨a2, b, rfl, h2, hb⟩⟩

theorem isDecoL_single (n : Node) (s : Str) : IsDecoL [n] s ↔ IsDeco n s := by
  simp only [isDecoL_cons, isDecoL_nil]
  constructor
  · rintro ⟨a, b, rfl, ha, rfl⟩; simpa using ha
  · intro h; exact ⟨s, [], by simp, h, rfl⟩

theorem isDecoL_sepText (t : Tag) (s : Str) : IsDecoL (sepText t) s ↔ s = sepStr t := by
  unfold sepText sepStr
  cases t.separator with
  | none => simp [isDecoL_nil]
  | some x =>
    by_cases h : x.isEmpty
    · have := List.isEmpty_iff.mp h
      subst this; simp [isDecoL_nil]
    · simp [h, isDecoL_single, IsDeco]

/-! the undecorated text is a decoration -/
mutual
theorem isDeco_plain (n : Node) : IsDeco n (textOf n) := by
  match n with
  | .text s => simp [IsDeco]
  | .forceWrite => simp [IsDeco]
  | .elem t cs => rw [isDeco_elem]; left; simpa using isDecoL_plain cs
theorem isDecoL_plain (ns : List Node) : IsDecoL ns (textOfL ns) := by
  match ns with
  | [] => simp [IsDecoL]
  | c :: cs => rw [isDecoL_cons]; exact ⟨_, _, by simp, isDeco_plain c, isDecoL_plain cs⟩
end

/-! ### merging only shrinks the set of decorations -/
mutual
theorem isDecoL_addC (acc : List Node) (n : Node) (s : Str) (h : IsDecoL (addC acc n) s) :
    ∃ a b, s = a ++ b ∧ IsDecoL acc a ∧ IsDeco n b := by
  match n with
  | .text x =>
    rw [addC_text, isDecoL_append] at h
    obtain ⟨a, b, rfl, ha, hb⟩ := h
    exact ⟨a, b, rfl, ha, (isDecoL_single _ _).mp hb⟩
  | .forceWrite =>
    rw [addC_fw, isDecoL_append] at h
    obtain ⟨a, b, rfl, ha, hb⟩ := h
    exact ⟨a, b, rfl, ha, (isDecoL_single _ _).mp hb⟩
  | .elem t cs =>
    unfold addC at h
    split at h
    · rename_i lt lcs hl
      split at h
      · rename_i hcond
        have hc : t.collapsible = true := by
          simp only [Bool.and_eq_true] at hcond; exact hcond.1
        have hacc := getLast?_eq_some_append acc _ hl
        rw [isDecoL_append] at h
        obtain ⟨a, b, rfl, ha, hb⟩ := h
        rw [isDecoL_single, isDeco_elem] at hb
        -- in either case `b = p ++ x` with `IsDecoL X x` and `p` an admissible prefix for `lt`
        have key : ∀ x, IsDecoL (addAllC (lcs ++ sepText t) cs) x →
            ∃ u1 v, x = u1 ++ (sepStr t ++ v) ∧ IsDecoL lcs u1 ∧ IsDecoL cs v := by
          intro x hx
          obtain ⟨u, v, rfl, hu, hv⟩ := isDecoL_addAllC _ cs x hx
          rw [isDecoL_append] at hu
          obtain ⟨u1, u2, rfl, hu1, hu2⟩ := hu
          rw [isDecoL_sepText] at hu2
          subst hu2
          exact ⟨u1, v, by simp, hu1, hv⟩
        have hn : ∀ v, IsDecoL cs v → IsDeco (.elem t cs) (sepStr t ++ v) := by
          intro v hv; rw [isDeco_elem]; right; exact ⟨hc, v, rfl, hv⟩
        rw [hacc]
        cases hb with
        | inl hx =>
          obtain ⟨u1, v, rfl, hu1, hv⟩ := key _ hx
          refine ⟨a ++ u1, sepStr t ++ v, by simp, ?_, hn v hv⟩
          rw [isDecoL_append]
          exact ⟨a, u1, rfl, ha, (isDecoL_single _ _).mpr ((isDeco_elem _ _ _).mpr (Or.inl hu1))⟩
        | inr hx =>
          obtain ⟨hlc, x, rfl, hx⟩ := hx
          obtain ⟨u1, v, rfl, hu1, hv⟩ := key _ hx
          refine ⟨a ++ (sepStr lt ++ u1), sepStr t ++ v, by simp, ?_, hn v hv⟩
          rw [isDecoL_append]
          exact ⟨a, _, rfl, ha,
            (isDecoL_single _ _).mpr ((isDeco_elem _ _ _).mpr (Or.inr ⟨hlc, u1, rfl, hu1⟩))⟩
      · rw [isDecoL_append] at h
        obtain ⟨a, b, rfl, ha, hb⟩ := h
        exact ⟨a, b, rfl, ha, (isDecoL_single _ _).mp hb⟩
    · rw [isDecoL_append] at h
      obtain ⟨a, b, rfl, ha, hb⟩ := h
      exact ⟨a, b, rfl, ha, (isDecoL_single _ _).mp hb⟩
theorem isDecoL_addAllC (acc ns : List Node) (s : Str) (h : IsDecoL (addAllC acc ns) s) :
    ∃ a b, s = a ++ b ∧ IsDecoL acc a ∧ IsDecoL ns b := by
  match ns with
  | [] => exact ⟨s, [], by simp, by simpa using h, by simp [IsDecoL]⟩
  | c :: cs =>
    rw [addAllC_cons] at h
    obtain ⟨a, b, rfl, ha, hb⟩ := isDecoL_addAllC (addC acc c) cs s h
    obtain ⟨a1, a2, rfl, h1, h2⟩ := isDecoL_addC acc c a ha
    exact ⟨a1, a2 ++ b, by simp, h1, (isDecoL_cons _ _ _).mpr ⟨a2, b, rfl, h2, hb⟩⟩
end

mutual
theorem isDeco_collapseNode (n : Node) (s : Str) (h : IsDeco (collapseNode n) s) : IsDeco n s := by
  match n with
  | .text x => simpa [collapseNode] using h
  | .forceWrite => simpa [collapseNode] using h
  | .elem t cs =>
    simp only [collapseNode] at h
    rw [isDeco_elem] at h ⊢
    have key : ∀ x, IsDecoL (collapseFrom [] cs) x → IsDecoL cs x := by
      intro x hx
      obtain ⟨a, b, rfl, ha, hb⟩ := isDecoL_collapseFrom [] cs x hx
      rw [isDecoL_nil] at ha; subst ha; simpa using hb
    cases h with
    | inl h => exact Or.inl (key _ h)
    | inr h =>
      obtain ⟨hc, x, rfl, hx⟩ := h
      exact Or.inr ⟨hc, x, rfl, key _ hx⟩
theorem isDecoL_collapseFrom (acc ns : List Node) (s : Str) (h : IsDecoL (collapseFrom acc ns) s) :
    ∃ a b, s = a ++ b ∧ IsDecoL acc a ∧ IsDecoL ns b := by
  match ns with
  | [] => exact ⟨s, [], by simp, by simpa [collapseFrom] using h, by simp [IsDecoL]⟩
  | c :: cs =>
    unfold collapseFrom at h
    obtain ⟨a, b, rfl, ha, hb⟩ := isDecoL_collapseFrom (addC acc (collapseNode c)) cs s h
    obtain ⟨a1, a2, rfl, h1, h2⟩ := isDecoL_addC acc (collapseNode c) a ha
    exact ⟨a1, a2 ++ b, by simp, h1,
      (isDecoL_cons _ _ _).mpr ⟨a2, b, rfl, isDeco_collapseNode c a2 h2, hb⟩⟩
end

/-- every decoration of the collapsed forest is a decoration of the original one -/
theorem isDecoL_of_collapse (ns : List Node) (s : Str) (h : IsDecoL (collapse ns) s) : IsDecoL ns s := by
  obtain ⟨a, b, rfl, ha, hb⟩ := isDecoL_collapseFrom [] ns s h
  rw [isDecoL_nil] at ha; subst ha; simpa using hb

/-- the text of the collapsed forest is the original text with separators inserted only in front of the
    content of collapsible elements, each its own -/
theorem isDecoL_collapse (ns : List Node) : IsDecoL ns (textOfL (collapse ns)) :=
  isDecoL_of_collapse ns _ (isDecoL_plain _)

/-! ### what a decoration is: consequences -/
mutual
theorem sublist_of_isDeco (n : Node) (s : Str) (h : IsDeco n s) : (textOf n).Sublist s := by
  match n with
  | .text x => simp only [IsDeco] at h; subst h; simp
  | .forceWrite => simp
  | .elem t cs =>
    rw [isDeco_elem] at h
    rw [textOf_elem]
    cases h with
    | inl h => exact sublistL_of_isDecoL cs s h
    | inr h =>
      obtain ⟨_, x, rfl, hx⟩ := h
      exact (sublistL_of_isDecoL cs x hx).trans (List.sublist_append_right _ _)
theorem sublistL_of_isDecoL (ns : List Node) (s : Str) (h : IsDecoL ns s) : (textOfL ns).Sublist s := by
  match ns with
  | [] => simp
  | c :: cs =>
    rw [isDecoL_cons] at h
    obtain ⟨a, b, rfl, ha, hb⟩ := h
    rw [textOfL_cons]
    exact List.Sublist.append (sublist_of_isDeco c a ha) (sublistL_of_isDecoL cs b hb)
end

mutual
theorem eq_of_isDeco_noSep (n : Node) (s : Str) (h : IsDeco n s) (hn : noSep n = true) : s = textOf n := by
  match n with
  | .text x => simpa [IsDeco] using h
  | .forceWrite => simpa [IsDeco] using h
  | .elem t cs =>
    simp only [noSep, Bool.and_eq_true] at hn
    have hs : sepStr t = [] := sepText_nil_of t (List.isEmpty_iff.mp hn.1)
    rw [isDeco_elem] at h
    rw [textOf_elem]
    cases h with
    | inl h => exact eq_of_isDecoL_noSep cs s h hn.2
    | inr h =>
      obtain ⟨_, x, rfl, hx⟩ := h
      rw [hs]; simpa using eq_of_isDecoL_noSep cs x hx hn.2
theorem eq_of_isDecoL_noSep (ns : List Node) (s : Str) (h : IsDecoL ns s) (hn : noSepL ns = true) :
    s = textOfL ns := by
  match ns with
  | [] => simpa [IsDecoL] using h
  | c :: cs =>
    simp only [noSepL, Bool.and_eq_true] at hn
    rw [isDecoL_cons] at h
    obtain ⟨a, b, rfl, ha, hb⟩ := h
    rw [textOfL_cons, eq_of_isDeco_noSep c a ha hn.1, eq_of_isDecoL_noSep cs b hb hn.2]
end

/-! ### conservation: every merged element leaves exactly its separator -/
mutual
/-- total length of the separators of all elements of the forest -/
def sepWeight : Node → Nat
  | .elem t cs => (textOfL (sepText t)).length + sepWeightL cs
  | _ => 0
def sepWeightL : List Node → Nat
  | [] => 0
  | c :: cs => sepWeight c + sepWeightL cs
end

/-- text length plus separator weight -/
def mass (ns : List Node) : Nat := (textOfL ns).length + sepWeightL ns

theorem sepWeightL_append (a b : List Node) : sepWeightL (a ++ b) = sepWeightL a + sepWeightL b := by
  induction a with
  | nil => simp [sepWeightL]
  | cons x xs ih => simp [sepWeightL, ih, Nat.add_assoc]

theorem mass_append (a b : List Node) : mass (a ++ b) = mass a + mass b := by
  simp only [mass, textOfL_append, List.length_append, sepWeightL_append]; omega

theorem mass_elem (t : Tag) (cs : List Node) :
    mass [.elem t cs] = (textOfL (sepText t)).length + mass cs := by
  simp [mass, sepWeightL, sepWeight]; omega

theorem mass_sepText (t : Tag) : mass (sepText t) = (textOfL (sepText t)).length := by
  unfold sepText
  split
  · split <;> simp [mass, sepWeightL, sepWeight]
  · simp [mass, sepWeightL]

mutual
theorem mass_addC (acc : List Node) (n : Node) : mass (addC acc n) = mass acc + mass [n] := by
  match n with
  | .text s => rw [addC_text, mass_append]
  | .forceWrite => rw [addC_fw, mass_append]
  | .elem t cs =>
    unfold addC
    split
    · rename_i lt lcs hl
      split
      · have hacc := getLast?_eq_some_append acc _ hl
        have ih := mass_addAllC (lcs ++ sepText t) cs
        rw [mass_append, mass_sepText] at ih
        conv => rhs; rw [hacc]
        simp only [mass_append, mass_elem, ih]
        omega
      · rw [mass_append]
    · rw [mass_append]
theorem mass_addAllC (acc ns : List Node) : mass (addAllC acc ns) = mass acc + mass ns := by
  match ns with
  | [] => simp [mass, sepWeightL]
  | c :: cs =>
    have e : c :: cs = [c] ++ cs := rfl
    rw [addAllC_cons, mass_addAllC (addC acc c) cs, mass_addC acc c, e, mass_append]
    omega
end

mutual
theorem mass_collapseNode (n : Node) : mass [collapseNode n] = mass [n] := by
  match n with
  | .text s => simp [collapseNode]
  | .forceWrite => simp [collapseNode]
  | .elem t cs =>
    have := mass_collapseFrom [] cs
    simp only [collapseNode, mass_elem, this]
    simp [mass, sepWeightL]
theorem mass_collapseFrom (acc ns : List Node) : mass (collapseFrom acc ns) = mass acc + mass ns := by
  match ns with
  | [] => simp [collapseFrom, mass, sepWeightL]
  | c :: cs =>
    have e : c :: cs = [c] ++ cs := rfl
    unfold collapseFrom
    rw [mass_collapseFrom (addC acc (collapseNode c)) cs, mass_addC, mass_collapseNode c, e, mass_append]
    omega
end

theorem mass_collapse (ns : List Node) : mass (collapse ns) = mass ns := by
  have := mass_collapseFrom [] ns
  simpa [collapse, mass, sepWeightL] using this

end Mammoth
