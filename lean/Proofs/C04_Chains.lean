/-
  C04 / C11 / C14 — leaves and their chains of enclosing tags.

  `leaves ns` lists the text nodes and force-write markers of a forest in document order, each with the tags of
  its enclosing elements (outermost first).  `collapse` keeps the leaves, in order, and changes a chain only
  position by position into a tag with equal attributes whose name is linked to the original tag's names
  (`tagStep`, possibly several steps: `TagReach`); separators are the only inserted leaves (`LeafEmb`).
  `stripEmpty` keeps exactly the contentful leaves with exactly their chains.
-/
import Proofs.Stable
import Proofs.Strip
namespace Mammoth

/-! ### pointwise relation of two lists (core has no `List.Forall₂`) -/
inductive Forall₂ {α β} (R : α → β → Prop) : List α → List β → Prop where
  | nil : Forall₂ R [] []
  | cons {a b as bs} : R a b → Forall₂ R as bs → Forall₂ R (a :: as) (b :: bs)

theorem Forall₂.refl {α} {R : α → α → Prop} (h : ∀ a, R a a) : ∀ l : List α, Forall₂ R l l
  | [] => .nil
  | a :: l => .cons (h a) (Forall₂.refl h l)

theorem Forall₂.trans {α} {R : α → α → Prop} (h : ∀ a b c, R a b → R b c → R a c)
    {as bs cs : List α} (h1 : Forall₂ R as bs) (h2 : Forall₂ R bs cs) : Forall₂ R as cs := by
  induction h1 generalizing cs with
  | nil => cases h2; exact .nil
  | cons hab _ ih =>
    cases h2 with
    | cons hbc h2' => exact .cons (h _ _ _ hab hbc) (ih h2')

theorem Forall₂.imp {α β} {R Q : α → β → Prop} (h : ∀ a b, R a b → Q a b)
    {as : List α} {bs : List β} (h1 : Forall₂ R as bs) : Forall₂ Q as bs := by
  induction h1 with
  | nil => exact .nil
  | cons hab _ ih => exact .cons (h _ _ hab) ih

theorem Forall₂.length_eq {α β} {R : α → β → Prop} {as : List α} {bs : List β}
    (h : Forall₂ R as bs) : as.length = bs.length := by
  induction h with
  | nil => rfl
  | cons _ _ ih => simp [ih]

theorem Forall₂.append {α β} {R : α → β → Prop} {as cs : List α} {bs ds : List β}
    (h1 : Forall₂ R as bs) (h2 : Forall₂ R cs ds) : Forall₂ R (as ++ cs) (bs ++ ds) := by
  induction h1 with
  | nil => simpa using h2
  | cons hab _ ih => exact .cons hab ih

/-! ### leaves -/
/-- a leaf with the tags of its enclosing elements, outermost first -/
abbrev Leaf := List Tag × Node

def underTag (t : Tag) (ls : List Leaf) : List Leaf := ls.map fun p => (t :: p.1, p.2)

@[simp] theorem underTag_nil (t : Tag) : underTag t [] = [] := rfl
@[simp] theorem underTag_cons (t : Tag) (p : Leaf) (ls : List Leaf) :
    underTag t (p :: ls) = (t :: p.1, p.2) :: underTag t ls := rfl
@[simp] theorem underTag_append (t : Tag) (a b : List Leaf) :
    underTag t (a ++ b) = underTag t a ++ underTag t b := by simp [underTag]

mutual
/-- the text nodes and force-write markers below a node, in order, with their chains -/
def leavesN : Node → List Leaf
  | .text s => [([], .text s)]
  | .forceWrite => [([], .forceWrite)]
  | .elem t cs => underTag t (leavesL cs)
def leavesL : List Node → List Leaf
  | [] => []
  | c :: cs => leavesN c ++ leavesL cs
end

/-- the leaves of a forest -/
def leaves (ns : List Node) : List Leaf := leavesL ns

@[simp] theorem leavesL_nil : leavesL [] = [] := by simp [leavesL]
@[simp] theorem leavesL_cons (c : Node) (cs : List Node) : leavesL (c :: cs) = leavesN c ++ leavesL cs := by
  simp [leavesL]
@[simp] theorem leavesN_text (s : Str) : leavesN (.text s) = [([], .text s)] := by simp [leavesN]
@[simp] theorem leavesN_fw : leavesN .forceWrite = [([], .forceWrite)] := by simp [leavesN]
@[simp] theorem leavesN_elem (t : Tag) (cs : List Node) : leavesN (.elem t cs) = underTag t (leavesL cs) := by
  simp [leavesN]

theorem leavesL_append (a b : List Node) : leavesL (a ++ b) = leavesL a ++ leavesL b := by
  induction a with
  | nil => simp
  | cons x xs ih => simp [ih]

theorem sepText_cases (t : Tag) : sepText t = [] ∨ ∃ s, sepText t = [.text s] := by
  unfold sepText
  cases t.separator with
  | none => simp
  | some s => by_cases h : s.isEmpty <;> simp [h]

/-! ### the relation between chains -/

/-- one merge step on a tag: `o` is the tag of the element that an element with tag `i` is merged into —
    identical attributes, and `o`'s name is `i`'s name or one of its `|` alternatives -/
def tagStep (i o : Tag) : Prop := o.attrs = i.attrs ∧ o.name ∈ i.names

theorem tagStep_refl (t : Tag) : tagStep t t := ⟨rfl, by simp [Tag.names]⟩

theorem tagStep_of_isMatch (lt t : Tag) (h : isMatch lt t = true) : tagStep t lt := by
  simp only [isMatch, Bool.and_eq_true, List.contains_iff_mem, beq_iff_eq] at h
  exact ⟨h.2, h.1⟩

/-- finitely many merge steps -/
inductive TagReach : Tag → Tag → Prop where
  | refl (t : Tag) : TagReach t t
  | step {i m o : Tag} : TagReach i m → tagStep m o → TagReach i o

theorem TagReach.trans {a b c : Tag} (h1 : TagReach a b) (h2 : TagReach b c) : TagReach a c := by
  induction h2 with
  | refl => exact h1
  | step _ hs ih => exact .step ih hs

theorem TagReach.attrs {i o : Tag} (h : TagReach i o) : o.attrs = i.attrs := by
  induction h with
  | refl => rfl
  | step _ hs ih => exact hs.1.trans ih

/-- chains of equal length, related position by position by one merge step (`inp` is the chain in the input,
    `out` the chain in the output) -/
def chainRel (inp out : List Tag) : Prop := Forall₂ tagStep inp out

/-! ### output leaves = input leaves (chains related by `R`) with separator leaves inserted -/
inductive LeafEmb (R : Tag → Tag → Prop) (Sep : Node → Prop) : List Leaf → List Leaf → Prop where
  | nil : LeafEmb R Sep [] []
  | keep {a b : Leaf} {as bs : List Leaf} :
      Forall₂ R a.1 b.1 → a.2 = b.2 → LeafEmb R Sep as bs → LeafEmb R Sep (a :: as) (b :: bs)
  | ins {b : Leaf} {as bs : List Leaf} : Sep b.2 → LeafEmb R Sep as bs → LeafEmb R Sep as (b :: bs)

section
variable {R : Tag → Tag → Prop} {Sep : Node → Prop}

theorem LeafEmb.refl (hr : ∀ t, R t t) : ∀ l : List Leaf, LeafEmb R Sep l l
  | [] => .nil
  | a :: l => .keep (Forall₂.refl hr a.1) rfl (LeafEmb.refl hr l)

theorem LeafEmb.append {as bs cs ds : List Leaf} (h1 : LeafEmb R Sep as bs) (h2 : LeafEmb R Sep cs ds) :
    LeafEmb R Sep (as ++ cs) (bs ++ ds) := by
  induction h1 with
  | nil => simpa using h2
  | keep hc he _ ih => exact .keep hc he ih
  | ins hs _ ih => exact .ins hs ih

theorem LeafEmb.under {t t' : Tag} (ht : R t t') {as bs : List Leaf} (h : LeafEmb R Sep as bs) :
    LeafEmb R Sep (underTag t as) (underTag t' bs) := by
  induction h with
  | nil => exact .nil
  | keep hc he _ ih => exact .keep (.cons ht hc) he ih
  | ins hs _ ih => exact .ins hs ih

theorem LeafEmb.trans (htr : ∀ a b c, R a b → R b c → R a c) {as bs cs : List Leaf}
    (h1 : LeafEmb R Sep as bs) (h2 : LeafEmb R Sep bs cs) : LeafEmb R Sep as cs := by
  induction h2 generalizing as with
  | nil => cases h1; exact .nil
  | keep hc he _ ih =>
    cases h1 with
    | keep hc' he' h1' => exact .keep (hc'.trans htr hc) (he'.trans he) (ih h1')
    | ins hs h1' => exact .ins (he ▸ hs) (ih h1')
  | ins hs _ ih => exact .ins hs (ih h1)

theorem LeafEmb.imp {R' : Tag → Tag → Prop} {Sep' : Node → Prop} (hR : ∀ a b, R a b → R' a b)
    (hS : ∀ n, Sep n → Sep' n) {as bs : List Leaf} (h : LeafEmb R Sep as bs) : LeafEmb R' Sep' as bs := by
  induction h with
  | nil => exact .nil
  | keep hc he _ ih => exact .keep (hc.imp hR) he ih
  | ins hs _ ih => exact .ins (hS _ hs) ih

/-- without separator leaves the embedding is a pointwise relation -/
theorem LeafEmb.forall₂ (hno : ∀ n, ¬ Sep n) {as bs : List Leaf} (h : LeafEmb R Sep as bs) :
    Forall₂ (fun a b => Forall₂ R a.1 b.1 ∧ a.2 = b.2) as bs := by
  induction h with
  | nil => exact .nil
  | keep hc he _ ih => exact .cons ⟨hc, he⟩ ih
  | ins hs _ _ => exact absurd hs (hno _)

/-- every input leaf is found in the output, under a related chain -/
theorem LeafEmb.mem_left {as bs : List Leaf} (h : LeafEmb R Sep as bs) (a : Leaf) (ha : a ∈ as) :
    ∃ b, b ∈ bs ∧ Forall₂ R a.1 b.1 ∧ a.2 = b.2 := by
  induction h with
  | nil => simp at ha
  | keep hc he _ ih =>
    rcases List.mem_cons.mp ha with rfl | ha'
    · exact ⟨_, List.mem_cons_self, hc, he⟩
    · obtain ⟨b, hb, h⟩ := ih ha'
      exact ⟨b, List.mem_cons_of_mem _ hb, h⟩
  | ins _ _ ih =>
    obtain ⟨b, hb, h⟩ := ih ha
    exact ⟨b, List.mem_cons_of_mem _ hb, h⟩

/-- every output leaf is an inserted separator or an input leaf, whose chain is related to its chain -/
theorem LeafEmb.mem_right {as bs : List Leaf} (h : LeafEmb R Sep as bs) (b : Leaf) (hb : b ∈ bs) :
    Sep b.2 ∨ ∃ a, a ∈ as ∧ Forall₂ R a.1 b.1 ∧ a.2 = b.2 := by
  induction h with
  | nil => simp at hb
  | keep hc he _ ih =>
    rcases List.mem_cons.mp hb with rfl | hb'
    · exact Or.inr ⟨_, List.mem_cons_self, hc, he⟩
    · rcases ih hb' with h | ⟨a, ha, h⟩
      · exact Or.inl h
      · exact Or.inr ⟨a, List.mem_cons_of_mem _ ha, h⟩
  | ins hs _ ih =>
    rcases List.mem_cons.mp hb with rfl | hb'
    · exact Or.inl hs
    · exact ih hb'

/-- the leaf nodes themselves: the input's are a subsequence of the output's -/
theorem LeafEmb.sublist {as bs : List Leaf} (h : LeafEmb R Sep as bs) :
    (as.map Prod.snd).Sublist (bs.map Prod.snd) := by
  induction h with
  | nil => simp
  | keep _ he _ ih => simp only [List.map_cons, he]; exact ih.cons_cons _
  | ins _ _ ih => simp only [List.map_cons]; exact ih.cons _
end

/-! ### a property of all tags of a forest -/
mutual
def AllTags (P : Tag → Prop) : Node → Prop
  | .elem t cs => P t ∧ AllTagsL P cs
  | _ => True
def AllTagsL (P : Tag → Prop) : List Node → Prop
  | [] => True
  | c :: cs => AllTags P c ∧ AllTagsL P cs
end

section
variable {P : Tag → Prop}

@[simp] theorem allTagsL_nil : AllTagsL P [] := by simp [AllTagsL]
theorem allTagsL_cons (c : Node) (cs : List Node) : AllTagsL P (c :: cs) ↔ AllTags P c ∧ AllTagsL P cs := by
  simp [AllTagsL]
theorem allTags_elem (t : Tag) (cs : List Node) : AllTags P (.elem t cs) ↔ P t ∧ AllTagsL P cs := by
  simp [AllTags]
@[simp] theorem allTags_text (s : Str) : AllTags P (.text s) := by simp [AllTags]
@[simp] theorem allTags_fw : AllTags P .forceWrite := by simp [AllTags]

theorem allTagsL_append (a b : List Node) : AllTagsL P (a ++ b) ↔ AllTagsL P a ∧ AllTagsL P b := by
  induction a with
  | nil => simp
  | cons x xs ih => simp [allTagsL_cons, ih, and_assoc]

theorem allTagsL_sepText (t : Tag) : AllTagsL P (sepText t) := by
  rcases sepText_cases t with h | ⟨s, h⟩ <;> simp [h, allTagsL_cons]

mutual
theorem allTagsL_addC (acc : List Node) (n : Node) (ha : AllTagsL P acc) (hn : AllTags P n) :
    AllTagsL P (addC acc n) := by
  match n with
  | .text s => rw [addC_text, allTagsL_append]; exact ⟨ha, by simp [allTagsL_cons]⟩
  | .forceWrite => rw [addC_fw, allTagsL_append]; exact ⟨ha, by simp [allTagsL_cons]⟩
  | .elem t cs =>
    have hn' := (allTags_elem t cs).mp hn
    unfold addC
    split
    · rename_i lt lcs hl
      split
      · have hacc := getLast?_eq_some_append acc _ hl
        rw [hacc, allTagsL_append, allTagsL_cons, allTags_elem] at ha
        rw [allTagsL_append, allTagsL_cons, allTags_elem]
        refine ⟨ha.1, ⟨ha.2.1.1, ?_⟩, by simp⟩
        exact allTagsL_addAllC _ cs ((allTagsL_append _ _).mpr ⟨ha.2.1.2, allTagsL_sepText t⟩) hn'.2
      · rw [allTagsL_append, allTagsL_cons]; exact ⟨ha, hn, by simp⟩
    · rw [allTagsL_append, allTagsL_cons]; exact ⟨ha, hn, by simp⟩
theorem allTagsL_addAllC (acc ns : List Node) (ha : AllTagsL P acc) (hn : AllTagsL P ns) :
    AllTagsL P (addAllC acc ns) := by
  match ns with
  | [] => simpa using ha
  | c :: cs =>
    rw [allTagsL_cons] at hn
    rw [addAllC_cons]
    exact allTagsL_addAllC _ cs (allTagsL_addC acc c ha hn.1) hn.2
end

mutual
theorem allTags_collapseNode (n : Node) (hn : AllTags P n) : AllTags P (collapseNode n) := by
  match n with
  | .text s => simp [collapseNode]
  | .forceWrite => simp [collapseNode]
  | .elem t cs =>
    rw [allTags_elem] at hn
    simp only [collapseNode, allTags_elem]
    exact ⟨hn.1, allTagsL_collapseFrom [] cs (by simp) hn.2⟩
theorem allTagsL_collapseFrom (acc ns : List Node) (ha : AllTagsL P acc) (hn : AllTagsL P ns) :
    AllTagsL P (collapseFrom acc ns) := by
  match ns with
  | [] => simpa [collapseFrom] using ha
  | c :: cs =>
    rw [allTagsL_cons] at hn
    unfold collapseFrom
    exact allTagsL_collapseFrom _ cs (allTagsL_addC acc _ ha (allTags_collapseNode c hn.1)) hn.2
end

mutual
theorem allTags_pruneNode (n : Node) (hn : AllTags P n) : AllTags P (pruneNode n) := by
  match n with
  | .text s => simp [pruneNode]
  | .forceWrite => simp [pruneNode]
  | .elem t cs =>
    rw [allTags_elem] at hn
    simp only [pruneNode, allTags_elem]
    exact ⟨hn.1, allTagsL_prune cs hn.2⟩
theorem allTagsL_prune (ns : List Node) (hn : AllTagsL P ns) : AllTagsL P (prune ns) := by
  match ns with
  | [] => simp [prune]
  | c :: cs =>
    rw [allTagsL_cons] at hn
    unfold prune
    split
    · rw [allTagsL_cons]; exact ⟨allTags_pruneNode c hn.1, allTagsL_prune cs hn.2⟩
    · exact allTagsL_prune cs hn.2
end

mutual
theorem allTags_mono {Q : Tag → Prop} (h : ∀ t, P t → Q t) (n : Node) (hn : AllTags P n) : AllTags Q n := by
  match n with
  | .text s => simp
  | .forceWrite => simp
  | .elem t cs =>
    rw [allTags_elem] at hn ⊢
    exact ⟨h t hn.1, allTagsL_mono h cs hn.2⟩
theorem allTagsL_mono {Q : Tag → Prop} (h : ∀ t, P t → Q t) (ns : List Node) (hn : AllTagsL P ns) :
    AllTagsL Q ns := by
  match ns with
  | [] => simp
  | c :: cs =>
    rw [allTagsL_cons] at hn ⊢
    exact ⟨allTags_mono h c hn.1, allTagsL_mono h cs hn.2⟩
end
end

/-- `n` is the separator text node of a collapsible tag satisfying `P` -/
def SepOf (P : Tag → Prop) (n : Node) : Prop := ∃ t, P t ∧ t.collapsible = true ∧ sepText t = [n]

/-! ### `collapse` on leaves

Parameters: `P` holds of every tag of the forest; `R` is reflexive, transitive and contains every merge step
between tags satisfying `P`. -/
section
variable {P : Tag → Prop} {R : Tag → Tag → Prop}

theorem leafEmb_sep (t lt : Tag) (hP : P t) (hc : t.collapsible = true) :
    LeafEmb R (SepOf P) [] (underTag lt (leavesL (sepText t))) := by
  rcases sepText_cases t with h | ⟨s, h⟩
  · simp [h]; exact .nil
  · rw [h]
    simp only [leavesL_cons, leavesN_text, leavesL_nil, List.append_nil, underTag_cons, underTag_nil]
    exact .ins ⟨t, hP, hc, h⟩ .nil

/-- the merge step on leaves, with the initial segment `init` as a variable -/
theorem leafEmb_merge (hr : ∀ t, R t t) (htr : ∀ a b c, R a b → R b c → R a c)
    (init lcs cs X : List Node) (lt t : Tag) (hPt : P t) (hc : t.collapsible = true) (hR : R t lt)
    (ih : LeafEmb R (SepOf P) (leavesL (lcs ++ sepText t) ++ leavesL cs) (leavesL X)) :
    LeafEmb R (SepOf P) (leavesL (init ++ [.elem lt lcs]) ++ leavesN (.elem t cs))
      (leavesL (init ++ [.elem lt X])) := by
  simp only [leavesL_append, leavesL_cons, leavesN_elem, leavesL_nil, List.append_nil, List.append_assoc]
  refine LeafEmb.append (LeafEmb.refl hr _) ?_
  -- step 1: retag the merged node's leaves and insert the separator leaf
  have s1 : LeafEmb R (SepOf P) (underTag lt (leavesL lcs) ++ underTag t (leavesL cs))
      (underTag lt (leavesL lcs) ++ (underTag lt (leavesL (sepText t)) ++ underTag lt (leavesL cs))) := by
    refine LeafEmb.append (LeafEmb.refl hr _) ?_
    have := LeafEmb.append (leafEmb_sep (R := R) t lt hPt hc) (LeafEmb.under hR (LeafEmb.refl hr (leavesL cs)))
    simpa using this
  -- step 2: the induction hypothesis below `lt`
  have s2 := LeafEmb.under (hr lt) ih
  simp only [leavesL_append, underTag_append, List.append_assoc] at s2
  exact s1.trans htr s2

mutual
theorem leafEmb_addC (hr : ∀ t, R t t) (htr : ∀ a b c, R a b → R b c → R a c)
    (hstep : ∀ i o, P i → P o → tagStep i o → R i o)
    (acc : List Node) (n : Node) (ha : AllTagsL P acc) (hn : AllTags P n) :
    LeafEmb R (SepOf P) (leavesL acc ++ leavesN n) (leavesL (addC acc n)) := by
  match n with
  | .text s => rw [addC_text, leavesL_append]; simpa using LeafEmb.refl hr _
  | .forceWrite => rw [addC_fw, leavesL_append]; simpa using LeafEmb.refl hr _
  | .elem t cs =>
    have hn' := (allTags_elem t cs).mp hn
    unfold addC
    split
    · rename_i lt lcs hl
      split
      · rename_i hcond
        simp only [Bool.and_eq_true] at hcond
        have hacc := getLast?_eq_some_append acc _ hl
        rw [hacc, allTagsL_append, allTagsL_cons, allTags_elem] at ha
        have e : leavesL acc = leavesL (acc.dropLast ++ [.elem lt lcs]) := congrArg leavesL hacc
        rw [e]
        have ih := leafEmb_addAllC hr htr hstep (lcs ++ sepText t) cs
          ((allTagsL_append _ _).mpr ⟨ha.2.1.2, allTagsL_sepText t⟩) hn'.2
        exact leafEmb_merge hr htr acc.dropLast lcs cs _ lt t hn'.1 hcond.1
          (hstep t lt hn'.1 ha.2.1.1 (tagStep_of_isMatch lt t hcond.2)) ih
      · rw [leavesL_append]; simpa using LeafEmb.refl hr _
    · rw [leavesL_append]; simpa using LeafEmb.refl hr _
theorem leafEmb_addAllC (hr : ∀ t, R t t) (htr : ∀ a b c, R a b → R b c → R a c)
    (hstep : ∀ i o, P i → P o → tagStep i o → R i o)
    (acc ns : List Node) (ha : AllTagsL P acc) (hn : AllTagsL P ns) :
    LeafEmb R (SepOf P) (leavesL acc ++ leavesL ns) (leavesL (addAllC acc ns)) := by
  match ns with
  | [] => simpa using LeafEmb.refl hr _
  | c :: cs =>
    rw [allTagsL_cons] at hn
    rw [addAllC_cons]
    have h1 := leafEmb_addC hr htr hstep acc c ha hn.1
    have h2 := leafEmb_addAllC hr htr hstep (addC acc c) cs (allTagsL_addC acc c ha hn.1) hn.2
    have h3 := LeafEmb.append h1 (LeafEmb.refl (Sep := SepOf P) hr (leavesL cs))
    simp only [leavesL_cons, List.append_assoc] at h3 ⊢
    exact h3.trans htr h2
end

mutual
theorem leafEmb_collapseNode (hr : ∀ t, R t t) (htr : ∀ a b c, R a b → R b c → R a c)
    (hstep : ∀ i o, P i → P o → tagStep i o → R i o) (n : Node) (hn : AllTags P n) :
    LeafEmb R (SepOf P) (leavesN n) (leavesN (collapseNode n)) := by
  match n with
  | .text s => simpa [collapseNode] using LeafEmb.refl hr _
  | .forceWrite => simpa [collapseNode] using LeafEmb.refl hr _
  | .elem t cs =>
    rw [allTags_elem] at hn
    have := leafEmb_collapseFrom hr htr hstep [] cs (by simp) hn.2
    simp only [collapseNode, leavesN_elem]
    exact LeafEmb.under (hr t) (by simpa using this)
theorem leafEmb_collapseFrom (hr : ∀ t, R t t) (htr : ∀ a b c, R a b → R b c → R a c)
    (hstep : ∀ i o, P i → P o → tagStep i o → R i o)
    (acc ns : List Node) (ha : AllTagsL P acc) (hn : AllTagsL P ns) :
    LeafEmb R (SepOf P) (leavesL acc ++ leavesL ns) (leavesL (collapseFrom acc ns)) := by
  match ns with
  | [] => simpa [collapseFrom] using LeafEmb.refl hr _
  | c :: cs =>
    rw [allTagsL_cons] at hn
    unfold collapseFrom
    have hc' := allTags_collapseNode c hn.1
    have h0 := leafEmb_collapseNode hr htr hstep c hn.1
    have h1 := leafEmb_addC hr htr hstep acc (collapseNode c) ha hc'
    have h2 := leafEmb_collapseFrom hr htr hstep (addC acc (collapseNode c)) cs
      (allTagsL_addC acc _ ha hc') hn.2
    have h01 := (LeafEmb.append (LeafEmb.refl (Sep := SepOf P) hr (leavesL acc)) h0).trans htr h1
    have h3 := LeafEmb.append h01 (LeafEmb.refl (Sep := SepOf P) hr (leavesL cs))
    simp only [leavesL_cons, List.append_assoc] at h3 ⊢
    exact h3.trans htr h2
end

/-- the general statement -/
theorem leafEmb_collapse (hr : ∀ t, R t t) (htr : ∀ a b c, R a b → R b c → R a c)
    (hstep : ∀ i o, P i → P o → tagStep i o → R i o) (ns : List Node) (hn : AllTagsL P ns) :
    LeafEmb R (SepOf P) (leaves ns) (leaves (collapse ns)) := by
  have := leafEmb_collapseFrom hr htr hstep [] ns (by simp) hn
  simpa [leaves, collapse] using this
end

/-! ### `stripEmpty` on leaves: exactly the contentful leaves stay, under exactly their chains -/

/-- a leaf that `strip_empty` keeps: a force-write marker or a text node with non-empty text -/
def leafKept (p : Leaf) : Bool := hasContent p.2

theorem filter_underTag (t : Tag) (ls : List Leaf) :
    (underTag t ls).filter leafKept = underTag t (ls.filter leafKept) := by
  induction ls with
  | nil => rfl
  | cons p ps ih =>
    simp only [underTag_cons, List.filter_cons]
    have : leafKept (t :: p.1, p.2) = leafKept p := rfl
    rw [this]
    by_cases h : leafKept p = true <;> simp [h, ih]

mutual
theorem leaves_noContent (n : Node) (h : hasContent n = false) : (leavesN n).filter leafKept = [] := by
  match n with
  | .text s => simpa [leafKept] using h
  | .forceWrite => simp [hasContent] at h
  | .elem t cs =>
    simp only [hasContent, Bool.or_eq_false_iff] at h
    rw [leavesN_elem, filter_underTag, leavesL_noContent cs h.2]; rfl
theorem leavesL_noContent (ns : List Node) (h : anyContent ns = false) : (leavesL ns).filter leafKept = [] := by
  match ns with
  | [] => simp
  | c :: cs =>
    simp only [anyContent, Bool.or_eq_false_iff] at h
    rw [leavesL_cons, List.filter_append, leaves_noContent c h.1, leavesL_noContent cs h.2]; rfl
end

mutual
theorem leaves_pruneNode (n : Node) (h : hasContent n = true) :
    leavesN (pruneNode n) = (leavesN n).filter leafKept := by
  match n with
  | .text s =>
    have : leafKept ([], Node.text s) = true := h
    simp [pruneNode, List.filter, this]
  | .forceWrite =>
    have : leafKept ([], Node.forceWrite) = true := by simp [leafKept, hasContent]
    simp [pruneNode, List.filter, this]
  | .elem t cs =>
    simp only [pruneNode, leavesN_elem]
    rw [filter_underTag, leavesL_prune cs]
theorem leavesL_prune (ns : List Node) : leavesL (prune ns) = (leavesL ns).filter leafKept := by
  match ns with
  | [] => simp [prune]
  | c :: cs =>
    unfold prune
    rw [leavesL_cons, List.filter_append]
    by_cases hc : hasContent c = true
    · simp only [hc, if_true, leavesL_cons]
      rw [leaves_pruneNode c hc, leavesL_prune cs]
    · simp only [Bool.not_eq_true] at hc
      simp only [hc, Bool.false_eq_true, if_false]
      rw [leaves_noContent c hc, leavesL_prune cs]; rfl
end

theorem leaves_stripEmpty (ns : List Node) : leaves (stripEmpty ns) = (leaves ns).filter leafKept := by
  simp only [leaves, stripEmpty, stripList_eq, leavesL_prune]

/-! ### tags of a forest, as a list (for decidable hypotheses) -/
mutual
def tagsOf : Node → List Tag
  | .elem t cs => t :: tagsOfL cs
  | _ => []
def tagsOfL : List Node → List Tag
  | [] => []
  | c :: cs => tagsOf c ++ tagsOfL cs
end

mutual
theorem allTags_tagsOf (n : Node) : AllTags (· ∈ tagsOf n) n := by
  match n with
  | .text s => simp
  | .forceWrite => simp
  | .elem t cs =>
    rw [allTags_elem]
    refine ⟨by simp [tagsOf], ?_⟩
    exact allTagsL_mono (fun t h => by simp [tagsOf, h]) cs (allTagsL_tagsOfL cs)
theorem allTagsL_tagsOfL (ns : List Node) : AllTagsL (· ∈ tagsOfL ns) ns := by
  match ns with
  | [] => simp
  | c :: cs =>
    rw [allTagsL_cons]
    exact ⟨allTags_mono (fun t h => by simp [tagsOfL, h]) c (allTags_tagsOf c),
      allTagsL_mono (fun t h => by simp [tagsOfL, h]) cs (allTagsL_tagsOfL cs)⟩
end

mutual
theorem of_allTags {Q : Tag → Prop} (n : Node) (h : AllTags Q n) : ∀ t, t ∈ tagsOf n → Q t := by
  match n with
  | .text s => simp [tagsOf]
  | .forceWrite => simp [tagsOf]
  | .elem t cs =>
    rw [allTags_elem] at h
    intro u hu
    simp only [tagsOf, List.mem_cons] at hu
    rcases hu with rfl | hu
    · exact h.1
    · exact of_allTagsL cs h.2 u hu
theorem of_allTagsL {Q : Tag → Prop} (ns : List Node) (h : AllTagsL Q ns) : ∀ t, t ∈ tagsOfL ns → Q t := by
  match ns with
  | [] => simp [tagsOfL]
  | c :: cs =>
    rw [allTagsL_cons] at h
    intro u hu
    simp only [tagsOfL, List.mem_append] at hu
    rcases hu with hu | hu
    · exact of_allTags c h.1 u hu
    · exact of_allTagsL cs h.2 u hu
end

mutual
theorem sepText_of_noSep (n : Node) (h : noSep n = true) : AllTags (fun t => sepText t = []) n := by
  match n with
  | .text s => simp
  | .forceWrite => simp
  | .elem t cs =>
    simp only [noSep, Bool.and_eq_true] at h
    rw [allTags_elem]
    exact ⟨List.isEmpty_iff.mp h.1, sepText_of_noSepL cs h.2⟩
theorem sepText_of_noSepL (ns : List Node) (h : noSepL ns = true) : AllTagsL (fun t => sepText t = []) ns := by
  match ns with
  | [] => simp
  | c :: cs =>
    simp only [noSepL, Bool.and_eq_true] at h
    rw [allTagsL_cons]
    exact ⟨sepText_of_noSep c h.1, sepText_of_noSepL cs h.2⟩
end

/-- the names of the tags in `S` are linked transitively: whenever `m`'s name is a name of `i` and `o`'s name is
    a name of `m`, `o`'s name is a name of `i` (true e.g. when no tag has alternatives, or for
    `ul|ol`, `ul`, `ol`; false for `a|b`, `b|c`, `c`) -/
def namesTrans (S : List Tag) : Bool :=
  S.all fun i => S.all fun m => S.all fun o =>
    decide (m.name ∈ i.names → o.name ∈ m.names → o.name ∈ i.names)

theorem namesTrans_spec (S : List Tag) (h : namesTrans S = true) (i m o : Tag)
    (hi : i ∈ S) (hm : m ∈ S) (ho : o ∈ S) (h1 : m.name ∈ i.names) (h2 : o.name ∈ m.names) :
    o.name ∈ i.names := by
  simp only [namesTrans, List.all_eq_true, decide_eq_true_eq] at h
  exact h i hi m hm o ho h1 h2

/-- one step between tags of `S`, or none -/
def stepIn (S : List Tag) (i o : Tag) : Prop := i = o ∨ (i ∈ S ∧ o ∈ S ∧ tagStep i o)

theorem stepIn_trans (S : List Tag) (h : namesTrans S = true) (a b c : Tag)
    (h1 : stepIn S a b) (h2 : stepIn S b c) : stepIn S a c := by
  rcases h1 with rfl | ⟨ha, hb, s1⟩
  · exact h2
  · rcases h2 with rfl | ⟨_, hc, s2⟩
    · exact Or.inr ⟨ha, hb, s1⟩
    · exact Or.inr ⟨ha, hc, s2.1.trans s1.1, namesTrans_spec S h a b c ha hb hc s1.2 s2.2⟩

theorem tagStep_of_stepIn (S : List Tag) (i o : Tag) (h : stepIn S i o) : tagStep i o := by
  rcases h with rfl | ⟨_, _, s⟩
  · exact tagStep_refl _
  · exact s

/-! ### packaged statements -/

/-- the separator leaves that can be inserted into `ns`: separator text of a collapsible tag of `ns` -/
abbrev SepIn (ns : List Node) : Node → Prop := SepOf (· ∈ tagsOfL ns)

theorem sepIn_false_of_noSep (ns : List Node) (h : noSepL ns = true) (n : Node) : ¬ SepIn ns n := by
  rintro ⟨t, ht, _, hs⟩
  have := of_allTagsL ns (sepText_of_noSepL ns h) t ht
  rw [this] at hs
  cases hs

/-- ALL forests: leaves kept in order, chains related position by position by finitely many merge steps,
    separators of collapsible tags of the forest are the only new leaves -/
theorem leaves_collapse_reach (S ns : List Node) (hS : AllTagsL (· ∈ tagsOfL S) ns) :
    LeafEmb TagReach (SepIn S) (leaves ns) (leaves (collapse ns)) :=
  leafEmb_collapse (P := (· ∈ tagsOfL S)) TagReach.refl (fun _ _ _ => TagReach.trans)
    (fun i _ _ _ h => .step (.refl i) h) ns hS

/-- when the names of the forest's tags are linked transitively: exactly one merge step (or none) per position -/
theorem leaves_collapse_step (S ns : List Node) (hS : AllTagsL (· ∈ tagsOfL S) ns)
    (h : namesTrans (tagsOfL S) = true) :
    LeafEmb tagStep (SepIn S) (leaves ns) (leaves (collapse ns)) :=
  (leafEmb_collapse (P := (· ∈ tagsOfL S)) (R := stepIn (tagsOfL S)) (fun _ => Or.inl rfl)
    (stepIn_trans _ h) (fun _ _ hi ho hs => Or.inr ⟨hi, ho, hs⟩) ns hS).imp
    (tagStep_of_stepIn _) (fun _ h => h)

end Mammoth
